#!/usr/bin/env python3
"""Confirm a sub-agent's seeded change in a scratch worktree of /repo's HEAD and
store it under /verif/seeded/<prop>-<k>/ (patch.diff, demonstration, meta.json).

usage: confirm_mutation.py <prop> <k> [<srcdir>]   (srcdir defaults to /tmp/mut/<prop>/MUTATION/<k>)
"""
import json, os, re, shutil, subprocess, sys, time

prop, k = sys.argv[1], sys.argv[2]
src = sys.argv[3] if len(sys.argv) > 3 else "/tmp/mut/%s/MUTATION/%s" % (prop, k)
dst = "/verif/seeded/%s-%s" % (prop, k)
wt = "/tmp/confirm/%s-%s" % (prop, k)
env = dict(os.environ, GOFLAGS="-mod=mod", GOPROXY="off", GOSUMDB="off", GOTOOLCHAIN="local")

def sh(cmd, cwd=None, timeout=3000):
    p = subprocess.run(cmd, shell=True, executable='/bin/bash', cwd=cwd, env=env, stdout=subprocess.PIPE, stderr=subprocess.STDOUT, timeout=timeout)
    return p.returncode, p.stdout.decode("utf-8", "replace")

os.makedirs(dst, exist_ok=True)
for f in os.listdir(src):
    if os.path.isfile(os.path.join(src, f)) and f != "fullsuite.log":
        shutil.copy(os.path.join(src, f), dst)
demo_md = open(os.path.join(src, "DEMO.md")).read()
cps = re.findall(r"^\s*(cp\s+\S+\s+\S+)\s*(?:&&.*)?$", demo_md, flags=re.M)
tests = re.findall(r"(go (?:test|run)[^\n`]*)", demo_md)
meta = {"property": prop, "k": int(k), "source": src, "at": time.strftime("%Y-%m-%dT%H:%M:%SZ", time.gmtime())}
if not cps or not tests:
    meta["error"] = "could not parse DEMO.md"
    json.dump(meta, open(os.path.join(dst, "meta.json"), "w"), indent=1)
    sys.exit(1)
cp_cmds = []
for c in cps:
    c = re.sub(r"(?:\./)?MUTATION/\d+/", src + "/", c)
    parts = c.split()
    # a source given relative to the mutation directory itself
    if len(parts) == 3 and not os.path.isabs(parts[1]) and os.path.exists(os.path.join(src, parts[1])):
        parts[1] = os.path.join(src, parts[1])
        c = " ".join(parts)
    if c not in cp_cmds:
        cp_cmds.append(c)
with_run = [t for t in tests if "-run" in t]
test_cmd = (with_run or tests)[0].strip().rstrip("`").strip()
if "-timeout" not in test_cmd:
    test_cmd = test_cmd.replace("go test", "go test -timeout 20m", 1)
sh("git -C /repo worktree remove --force %s" % wt)
shutil.rmtree(wt, ignore_errors=True)
os.makedirs("/tmp/confirm", exist_ok=True)
rc, out = sh("git -C /repo worktree add -q --detach %s HEAD" % wt)
try:
    head = sh("git rev-parse --short HEAD", cwd=wt)[1].strip()
    meta["repo_head"] = head
    rc, out = sh("git apply --check %s/patch.diff" % dst, cwd=wt)
    meta["patch_applies"] = rc == 0
    if rc != 0:
        rc3, out3 = sh("git apply --3way %s/patch.diff" % dst, cwd=wt)
        meta["patch_applies_3way"] = rc3 == 0
        if rc3 != 0:
            meta["error"] = "patch does not apply to HEAD: " + out[-400:]
            raise SystemExit
        # refresh the stored patch relative to the current HEAD
        rcd, diff = sh("git diff", cwd=wt)
        open(os.path.join(dst, "patch.diff"), "w").write(diff)
        sh("git checkout -- . && git reset -q", cwd=wt)
    # demo WITHOUT the patch
    for c in cp_cmds:
        sh(c, cwd=wt)
    rc, out = sh(test_cmd, cwd=wt)
    meta["demo_passes_without_patch"] = rc == 0 and "no tests to run" not in out and "no test files" not in out
    meta["demo_without_tail"] = out[-600:]
    # with the patch
    rc, out = sh("git apply %s/patch.diff" % dst, cwd=wt)
    rc, out = sh("go build ./...", cwd=wt)
    meta["builds_with_patch"] = rc == 0
    rc, out = sh(test_cmd, cwd=wt)
    meta["demo_fails_with_patch"] = rc != 0
    meta["demo_with_tail"] = out[-800:]
    # remove demo, full suite with patch
    for c in cp_cmds:
        tgt = c.split()[-1]
        try:
            os.remove(os.path.join(wt, tgt))
        except OSError:
            pass
    t0 = time.time()
    rc, out = sh("go test -vet=off -count=1 -timeout 25m ./... 2>&1 | grep -v '^ok\\|no test files' | tail -30; exit ${PIPESTATUS[0]}", cwd=wt, timeout=3600)
    meta["suite_passes_with_patch"] = rc == 0
    meta["suite_wall_s"] = round(time.time() - t0)
    if rc != 0:
        meta["suite_tail"] = out[-1500:]
    meta["demo_commands"] = cp_cmds + [test_cmd]
    meta["confirmed"] = bool(meta.get("demo_passes_without_patch") and meta.get("demo_fails_with_patch") and meta.get("suite_passes_with_patch") and meta.get("builds_with_patch"))
except SystemExit:
    pass
finally:
    sh("git -C /repo worktree remove --force %s" % wt)
    shutil.rmtree(wt, ignore_errors=True)
    rd = os.path.join(dst, "README.md")
    meta["needs"] = ""
    json.dump(meta, open(os.path.join(dst, "meta.json"), "w"), indent=1)
    print(prop, k, "confirmed" if meta.get("confirmed") else "NOT CONFIRMED", json.dumps({x: meta.get(x) for x in ("patch_applies", "demo_passes_without_patch", "demo_fails_with_patch", "suite_passes_with_patch", "error")}))
