#!/bin/bash
# Re-run every claimed quick check on the clean /repo tree so that the committed evidence comes from it.
cd /verif
if [ -n "$(git -C /repo status --porcelain)" ]; then echo "/repo is not clean"; exit 1; fi
# the property files are generated from the .spec files: regenerate them all first, so that none is stale
./check --setup > /dev/null 2>&1
for s in coq/Properties/C*.spec; do python3 tools/gen_properties.py $(basename $s .spec) > /dev/null || echo "gen_properties failed for $s"; done
for p in $(python3 -c "import json; print(' '.join(c['property_id'] for c in json.load(open('MANIFEST.json'))['checks']))"); do
  out=$(./check $p 2>&1 | tail -1); rc=$?
  echo "$p: $out"
done
