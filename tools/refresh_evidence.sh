#!/bin/bash
# Re-run every claimed quick check on the clean /repo tree so that the committed evidence comes from it.
cd /verif
if [ -n "$(git -C /repo status --porcelain)" ]; then echo "/repo is not clean"; exit 1; fi
for p in $(python3 -c "import json; print(' '.join(c['property_id'] for c in json.load(open('MANIFEST.json'))['checks']))"); do
  out=$(./check $p 2>&1 | tail -1); rc=$?
  echo "$p: $out"
done
