#!/usr/bin/env python3
"""Apply each confirmed seeded change to /repo, run the quick check of its property
(and optionally other properties), record detected/missed, and restore /repo.
usage: run_seeded.py [ids...]   (default: all confirmed under /verif/seeded)
"""
import json, os, subprocess, sys, time
ROOT = "/verif"
ids = sys.argv[1:] or sorted(os.listdir(os.path.join(ROOT, "seeded")))
man = json.load(open(os.path.join(ROOT, "MANIFEST.json")))
claimed = {c["property_id"] for c in man["checks"]}
results = {}
assert subprocess.run("git -C /repo status --porcelain", shell=True, stdout=subprocess.PIPE).stdout.strip() == b"", "/repo not clean"
for sid in ids:
    d = os.path.join(ROOT, "seeded", sid)
    mp = os.path.join(d, "meta.json")
    if not os.path.exists(mp):
        continue
    meta = json.load(open(mp))
    if not meta.get("confirmed"):
        print(sid, "not confirmed, skipped"); continue
    prop = meta["property"]
    if prop not in claimed:
        print(sid, "property", prop, "has no check yet"); continue
    rc = subprocess.run("git -C /repo apply %s/patch.diff" % d, shell=True)
    if rc.returncode != 0:
        print(sid, "patch does not apply"); continue
    try:
        t0 = time.time()
        p = subprocess.run(["./check", prop], cwd=ROOT, stdout=subprocess.PIPE, stderr=subprocess.PIPE, timeout=3000)
        out = p.stdout.decode()
        viol = [l for l in out.splitlines() if l.startswith("VIOLATION")]
        detected = p.returncode == 1 and bool(viol)
        replays = []
        for l in viol:
            rp = l.split("replay=")[1].split()[0]
            try:
                rj = json.load(open(os.path.join(ROOT, rp)))
                replays.append({"key": rj.get("key"), "what": (rj.get("what") or "")[:300], "no_input": "no-failing-input-found" in l})
            except Exception:
                pass
        results[sid] = {"property": prop, "detected": detected, "exit": p.returncode, "wall_s": round(time.time() - t0), "violations": replays[:6]}
        print(sid, "DETECTED" if detected else "MISSED", [r["key"] for r in replays][:4], flush=True)
    finally:
        subprocess.run("git -C /repo checkout -- . && git -C /repo clean -fdq", shell=True)
    meta["check_result"] = results.get(sid)
    json.dump(meta, open(mp, "w"), indent=1)
# restore evidence from a clean-tree run is the caller's job
json.dump(results, open(os.path.join(ROOT, "build", "seeded_results.json"), "w"), indent=1)
