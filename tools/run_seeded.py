#!/usr/bin/env python3
"""Apply each confirmed seeded change to /repo, run the quick check of its property
(and optionally other properties), record detected/missed, and restore /repo.
usage: run_seeded.py [--isolated] [ids...]   (default: all confirmed under /verif/seeded)
--isolated: /repo's working tree is left alone; the change is applied to a scratch worktree under /tmp and the checks run from
a scratch copy of /verif whose harness module points at that worktree (both removed afterwards). Evidence in /verif is not touched.
"""
import json, os, shutil, subprocess, sys, time
ROOT = "/verif"
ISOLATED = "--isolated" in sys.argv
ids = [a for a in sys.argv[1:] if not a.startswith("--")] or sorted(os.listdir(os.path.join(ROOT, "seeded")))


def isolated_run(sid, d, prop):
    wt, vs = "/tmp/wt_" + sid, "/tmp/vs_" + sid
    subprocess.run("git -C /repo worktree remove --force %s 2>/dev/null; rm -rf %s %s" % (wt, wt, vs), shell=True)
    try:
        subprocess.run("git -C /repo worktree add --detach %s HEAD" % wt, shell=True, check=True, stdout=subprocess.DEVNULL, stderr=subprocess.DEVNULL)
        if subprocess.run("git -C %s apply %s/patch.diff" % (wt, d), shell=True).returncode != 0:
            return None
        subprocess.run("cp -a %s %s" % (ROOT, vs), shell=True, check=True)
        gm = os.path.join(vs, "harness", "go.mod")
        gmsrc = open(gm).read().replace("=> /repo", "=> " + wt)
        open(gm, "w").write(gmsrc)
        for stamp in ("tools.stamp", ".tools.stamp"):
            try:
                os.remove(os.path.join(vs, "build", stamp))
            except OSError:
                pass
        p = subprocess.run(["./check", prop], cwd=vs, env=dict(os.environ, VERIF_REPO=wt), stdout=subprocess.PIPE, stderr=subprocess.PIPE, timeout=3000)
        return p, vs
    except Exception:
        raise


def cleanup_isolated(sid):
    wt, vs = "/tmp/wt_" + sid, "/tmp/vs_" + sid
    subprocess.run("git -C /repo worktree remove --force %s 2>/dev/null; rm -rf %s %s; git -C /repo worktree prune" % (wt, wt, vs), shell=True)
man = json.load(open(os.path.join(ROOT, "MANIFEST.json")))
claimed = {c["property_id"] for c in man["checks"]}
results = {}
assert ISOLATED or subprocess.run("git -C /repo status --porcelain", shell=True, stdout=subprocess.PIPE).stdout.strip() == b"", "/repo not clean"
for sid in ids:
    d = os.path.join(ROOT, "seeded", sid)
    mp = os.path.join(d, "meta.json")
    if not os.path.exists(mp):
        continue
    meta = json.load(open(mp))
    if not meta.get("confirmed"):
        print(sid, "not confirmed, skipped"); continue
    prop = meta["property"]
    if prop not in claimed:
        print(sid, "property", prop, "has no check yet"); continue
    base = ROOT
    if not ISOLATED:
        rc = subprocess.run("git -C /repo apply %s/patch.diff" % d, shell=True)
        if rc.returncode != 0:
            print(sid, "patch does not apply"); continue
    try:
        t0 = time.time()
        if ISOLATED:
            got = isolated_run(sid, d, prop)
            if got is None:
                print(sid, "patch does not apply"); continue
            p, base = got
        else:
            p = subprocess.run(["./check", prop], cwd=ROOT, stdout=subprocess.PIPE, stderr=subprocess.PIPE, timeout=3000)
        out = p.stdout.decode()
        viol = [l for l in out.splitlines() if l.startswith("VIOLATION")]
        detected = p.returncode == 1 and bool(viol)
        replays = []
        for l in viol:
            rp = l.split("replay=")[1].split()[0]
            try:
                rj = json.load(open(os.path.join(base, rp)))
                replays.append({"key": rj.get("key"), "what": (rj.get("what") or "")[:300], "no_input": "no-failing-input-found" in l})
            except Exception:
                pass
        results[sid] = {"property": prop, "detected": detected, "exit": p.returncode, "wall_s": round(time.time() - t0), "violations": replays[:6]}
        print(sid, "DETECTED" if detected else "MISSED", [r["key"] for r in replays][:4], flush=True)
    finally:
        if ISOLATED:
            cleanup_isolated(sid)
        else:
            subprocess.run("git -C /repo checkout -- . && git -C /repo clean -fdq", shell=True)
    meta["check_result"] = results.get(sid)
    json.dump(meta, open(mp, "w"), indent=1)
# restore evidence from a clean-tree run is the caller's job
json.dump(results, open(os.path.join(ROOT, "build", "seeded_results.json"), "w"), indent=1)
