#!/usr/bin/env python3
"""Fill the <!-- TABLE:checks --> and <!-- TABLE:seeded --> blocks of DESIGN.md from evidence/*.json and seeded/*/meta.json."""
import json, os, re, glob
ROOT = os.path.dirname(os.path.dirname(os.path.abspath(__file__)))
props = {json.loads(l)["id"]: json.loads(l) for l in open(os.path.join(ROOT, "properties.jsonl"))}
meta = json.load(open(os.path.join(ROOT, "props_meta.json")))
rows = ["| id | theorems (Properties/Cxx.v) | cases run (quick) | quick wall | technique |", "|---|---|---|---|---|"]
for pid in sorted(props):
    p = os.path.join(ROOT, "evidence", pid + ".json")
    if not os.path.exists(p):
        continue
    e = json.load(open(p)); c = e["coverage"]
    rows.append("| %s | %d | %d | %d s | %s |" % (pid, c["obligations"] - 1, c["evaluations"], round(e.get("wall_s", 0)), meta.get(pid, {}).get("technique", "")))
checks = "\n".join(rows)
rows = ["| seeded change | what it does | detected by (violation keys of the property's quick check) |", "|---|---|---|"]
for d in sorted(glob.glob(os.path.join(ROOT, "seeded", "*"))):
    mp = os.path.join(d, "meta.json")
    if not os.path.exists(mp):
        continue
    m = json.load(open(mp))
    title = ""
    try:
        title = open(os.path.join(d, "README.md")).read().splitlines()[0].lstrip("# ").strip()
        title = re.sub(r"^(C\d\d\s*[/ ]*)?[Mm]utation\s*\d+\s*[-—–:]*\s*", "", title)
        title = re.sub(r"^C\d\d\s*[/ ]*mutation\s*\d+\s*[-—–:]*\s*", "", title, flags=re.I)
    except OSError:
        pass
    cr = m.get("check_result") or {}
    keys = ", ".join("`%s`" % v["key"] for v in cr.get("violations", [])[:3]) or "-"
    rows.append("| %s | %s | %s %s |" % (os.path.basename(d), title.replace("|", "/"), "DETECTED:" if cr.get("detected") else "MISSED", keys.replace("|", "/")))
seeded = "\n".join(rows)
p = os.path.join(ROOT, "DESIGN.md")
s = open(p).read()
for tag, body in (("checks", checks), ("seeded", seeded)):
    s = re.sub(r"<!-- TABLE:%s -->(.*?<!-- /TABLE:%s -->)?" % (tag, tag), "<!-- TABLE:%s -->\n%s\n<!-- /TABLE:%s -->" % (tag, body, tag), s, flags=re.S)
open(p, "w").write(s)
print("tables written")
