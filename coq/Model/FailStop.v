(* C06, the party wrapper around the round engine: a round that refuses to start (a peer's message did not verify) leaves
   half-computed state behind.  The wrapper (tss/party.go: setFailed / failed) remembers the first refusal and from then on
   refuses every delivery BEFORE the round code sees it.  The engine step is a section variable: nothing is assumed about
   it - in particular it may panic on the state a refused round leaves behind, which is what the second half shows for the
   wrapper that forgets.  Gen/FailStop.v (regenerated from the source on every run) says whether the code has this shape. *)
From Coq Require Import List String Bool.
From TSS Require Import Base.Outcome.
Import ListNotations.

(* the shape obligations on the generated inventory *)
Definition start_failures_recorded (l : list (string * bool)) : bool := forallb snd l.
Definition count_fn (l : list (string * bool)) (fn : string) : nat := List.length (filter (fun p => String.eqb (fst p) fn) l).
(* BaseStart starts round 1 and the replayed rounds; BaseUpdate starts the next round *)
Definition start_sites_as_expected (l : list (string * bool)) : bool :=
  Nat.eqb (count_fn l "BaseStart") 2 && Nat.eqb (count_fn l "BaseUpdate") 1 && Nat.eqb (List.length l) 3.

Section FailStop.
  Variables (S E Ev Out : Type).
  (* one delivery handled by the round code: new state, what was sent, and the refusal if a round refused to start;
     the round code may also panic (Outcome) *)
  Variable step : S -> Ev -> Outcome (S * list Out * option E).

  Inductive wstate := Running (s : S) | Failed (s : S) (e : E).

  (* what a delivery returns to the caller *)
  Inductive reply := Accepted (outs : list Out) | Refused (e : E).

  Definition wstep (w : wstate) (ev : Ev) : Outcome (wstate * reply) :=
    match w with
    | Failed s e => Ok (Failed s e, Refused e)
    | Running s =>
        match step s ev with
        | Ok (s', outs, None) => Ok (Running s', Accepted outs)
        | Ok (s', _, Some e) => Ok (Failed s' e, Refused e)
        | Err => Err | Panic => Panic | Diverge => Diverge
        end
    end.

  Fixpoint wrun (w : wstate) (evs : list Ev) : Outcome (wstate * list reply) :=
    match evs with
    | [] => Ok (w, [])
    | ev :: rest =>
        match wstep w ev with
        | Ok (w', r) => match wrun w' rest with Ok (w'', rs) => Ok (w'', r :: rs) | Err => Err | Panic => Panic | Diverge => Diverge end
        | Err => Err | Panic => Panic | Diverge => Diverge
        end
    end.

  (* the wrapper that forgets: after a refusal it stays Running on the state the refused round left behind *)
  Definition fstep (s : S) (ev : Ev) : Outcome (S * reply) :=
    match step s ev with
    | Ok (s', outs, None) => Ok (s', Accepted outs)
    | Ok (s', _, Some e) => Ok (s', Refused e)
    | Err => Err | Panic => Panic | Diverge => Diverge
    end.
  Fixpoint frun (s : S) (evs : list Ev) : Outcome (S * list reply) :=
    match evs with
    | [] => Ok (s, [])
    | ev :: rest =>
        match fstep s ev with
        | Ok (s', r) => match frun s' rest with Ok (s'', rs) => Ok (s'', r :: rs) | Err => Err | Panic => Panic | Diverge => Diverge end
        | Err => Err | Panic => Panic | Diverge => Diverge
        end
    end.
End FailStop.

Arguments Running {S E} s.
Arguments Failed {S E} s e.
Arguments Accepted {E Out} outs.
Arguments Refused {E Out} e.
