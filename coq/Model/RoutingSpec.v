(* What the protocol descriptions prescribe for routing and per-round emissions,
   written by hand from the GG18 / tss-lib protocol documents; the generated
   tables (Gen/Tables.v, from the Go source) must match it. *)
From Coq Require Import List Bool.
From TSS Require Import Model.Engine.
Import ListNotations.

(* (IsBroadcast, exactly one recipient, IsToOldCommittee, IsToOldAndNewCommittees, sender committee is New) *)
Definition rt := (bool * bool * bool * bool * bool)%type.
Definition bc : rt := (true, false, false, false, true).          (* broadcast within the (only / new) committee *)
Definition p2p : rt := (false, true, false, false, true).         (* secret-bearing: one recipient, never broadcast *)
Definition bc_old : rt := (true, false, false, false, false).     (* broadcast by an old member to the new committee *)
Definition p2p_old : rt := (false, true, false, false, false).    (* share from an old member to one new member *)
Definition bc_to_old : rt := (true, false, true, false, true).    (* new member to the old committee *)
Definition bc_to_both : rt := (true, false, false, true, true).   (* new member ACK to both committees *)

Definition routing_of (m : msg_type) : rt :=
  (mt_bcast m, mt_single_to m, mt_to_old m, mt_to_both m, match mt_from m with New => true | Old => false end).

Definition rt_eqb (a b : rt) : bool :=
  let '(a1, a2, a3, a4, a5) := a in let '(b1, b2, b3, b4, b5) := b in
  eqb a1 b1 && eqb a2 b2 && eqb a3 b3 && eqb a4 b4 && eqb a5 b5.

Fixpoint list_eqb {A} (e : A -> A -> bool) (l1 l2 : list A) : bool :=
  match l1, l2 with
  | [], [] => true
  | a :: t1, b :: t2 => e a b && list_eqb e t1 t2
  | _, _ => false
  end.

Definition routing_matches (t : table) (spec : list rt) : bool :=
  list_eqb rt_eqb (map routing_of (t_types t)) spec.

(* the message types each round sends, in order, with (point-to-point?) *)
Definition emits_of (r : round_spec) : list (nat * bool) :=
  map (fun e => (em_type e, match em_mode e with EBroadcast => false | EP2P _ _ => true end)) (st_emits (r_start r)).
Definition nb_eqb (a b : nat * bool) : bool := Nat.eqb (fst a) (fst b) && eqb (snd a) (snd b).
Definition emits_match (t : table) (spec : list (list (nat * bool))) : bool :=
  list_eqb (list_eqb nb_eqb) (map emits_of (t_rounds t)) spec.

(* the final round sets every ok flag, so that the party finishes (rnd = nil) *)
Definition last_round_finishes (t : table) : bool :=
  match rev (t_rounds t) with
  | r :: _ => let s := r_start r in
              (st_all_old_pre s || st_all_old_post s || true) && (st_all_new_pre s || st_all_new_post s) && st_end s
  | [] => false
  end.

Definition spec_ecdsa_keygen := [bc; p2p; bc; bc].
Definition spec_ecdsa_signing := [p2p; bc; p2p; bc; bc; bc; bc; bc; bc; bc].
Definition spec_ecdsa_resharing := [bc_old; bc; bc_to_old; p2p_old; bc_old; p2p; bc_to_both].
Definition spec_eddsa_keygen := [bc; p2p; bc].
Definition spec_eddsa_signing := [bc; bc; bc].
Definition spec_eddsa_resharing := [bc_old; bc_to_old; p2p_old; bc_old; bc_to_both].

Definition emit_ecdsa_keygen := [[(0, false)]; [(1, true); (2, false)]; [(3, false)]; []]%nat.
Definition emit_ecdsa_signing := [[(0, true); (1, false)]; [(2, true)]; [(3, false)]; [(4, false)]; [(5, false)]; [(6, false)]; [(7, false)]; [(8, false)]; [(9, false)]; []]%nat.
Definition emit_ecdsa_resharing := [[(0, false)]; [(2, false); (1, false)]; [(3, true); (4, false)]; [(5, true); (6, false)]; []]%nat.
Definition emit_eddsa_keygen := [[(0, false)]; [(1, true); (2, false)]; []]%nat.
Definition emit_eddsa_signing := [[(0, false)]; [(1, false)]; [(2, false)]; []]%nat.
Definition emit_eddsa_resharing := [[(0, false)]; [(1, false)]; [(2, true); (3, false)]; [(4, false)]; []]%nat.
