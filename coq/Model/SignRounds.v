(* Layer C, per round: what every party of a GG18 threshold-ECDSA signing run computes and
   broadcasts in rounds 3..9 and in finalize (ecdsa/signing/round_3.go .. round_9.go,
   finalize.go), as total executable functions of the secrets the parties drew
   (k_i, gamma_i, l_i, rho_i), their additive key shares w_i (already Lagrange-weighted,
   sum w_i = x), the digest m, and the outputs of the pairwise MtA runs ("masks").

   Parties are indexed 0..n-1.  A vector is a function nat -> Z, a matrix nat -> nat -> Z
   ([vec] / [mat] build them from lists so that examples can be computed).

   Matrix conventions (the first index is ALWAYS the party that holds the value, the second
   the peer, exactly like the Go slices `alphas[j]`, `betas[j]`, `us[j]`, `vs[j]` of party i):
     alpha i j : what Alice i got from the MtA   k_i  x gamma_j  (round_3.go:51-62  alphas[j])
     beta  i j : what Bob   i kept in the MtA    k_j  x gamma_i  (round_2.go:48-64  betas[j])
     mu    i j : what Alice i got from the MtAwc k_i  x w_j      (round_3.go:76-88  us[j])
     nu    i j : what Bob   i kept in the MtAwc  k_j  x w_i      (round_2.go:80-96  vs[j])
   The MtA contract (C13 mta_correct) is  alpha i j + beta j i = k_i * gamma_j  (mod q) and
   mu i j + nu j i = k_i * w_j (mod q); it is a hypothesis of the theorems
   (Proofs/SignRoundsProofs.v, [mta_ok]), [pairs_okb] is its boolean form.

   Definitions only; the theorems are in Proofs/SignRoundsProofs.v. *)
From Coq Require Import ZArith List Lia Bool.
From TSS Require Import Base.Outcome Base.Bytes Base.ZMod Model.Group Model.Curve Model.SignAlg.
Import ListNotations.
Open Scope Z_scope.

(* ---------------------------------------------------------------------- *)
(* sums over party indices                                                  *)

(* sum_{i<n} f i *)
Fixpoint nsum (n : nat) (f : nat -> Z) : Z :=
  match n with
  | O => 0
  | S n' => nsum n' f + f n'
  end.

(* sum_{j<n, j<>i} f j  : the `for j ... if j == i { continue }` loops *)
Definition osum (n i : nat) (f : nat -> Z) : Z :=
  nsum n (fun j => if Nat.eqb j i then 0 else f j).

Definition vec (l : list Z) : nat -> Z := fun i => nth i l 0.
Definition mat (l : list (list Z)) : nat -> nat -> Z := fun i j => nth j (nth i l []) 0.

Record masks : Type := mkMasks {
  m_alpha : nat -> nat -> Z;
  m_beta : nat -> nat -> Z;
  m_mu : nat -> nat -> Z;
  m_nu : nat -> nat -> Z
}.

(* boolean form of the MtA contract for Alice secrets a, Bob secrets b *)
Definition pairs_okb (q : Z) (n : nat) (a b : nat -> Z) (al be : nat -> nat -> Z) : bool :=
  forallb (fun i => forallb (fun j =>
      Nat.eqb i j || ((al i j + be j i) mod q =? (a i * b j) mod q)) (seq 0 n)) (seq 0 n).

(* what honest MtA runs produce (crypto/mta/share_protocol.go): Bob j draws beta' (bp j i),
   keeps  -beta' mod q  (:63, :98), Alice i decrypts  a_i*b_j + beta'  and reduces mod q (:119, :139) *)
Definition honest_alpha (q : Z) (a b : nat -> Z) (bp : nat -> nat -> Z) : nat -> nat -> Z :=
  fun i j => (a i * b j + bp j i) mod q.
Definition honest_beta (q : Z) (bp : nat -> nat -> Z) : nat -> nat -> Z :=
  fun j i => (0 - bp j i) mod q.
Definition honest_masks (q : Z) (k gamma w : nat -> Z) (bp bpw : nat -> nat -> Z) : masks :=
  mkMasks (honest_alpha q k gamma bp) (honest_beta q bp) (honest_alpha q k w bpw) (honest_beta q bpw).

(* ---------------------------------------------------------------------- *)
(* rounds 3-5 and 9, scalars                                                *)

(* round_3.go:106-116: a_i*b_i + sum_{j<>i} (al_ij + be_ij), every step reduced by modN *)
Definition mix_i (q : Z) (n : nat) (a b : nat -> Z) (al be : nat -> nat -> Z) (i : nat) : Z :=
  (a i * b i + osum n i (fun j => al i j + be i j)) mod q.

Section Scalars.
  Variable q : Z.
  Variable n : nat.
  Variables k gamma w : nat -> Z.
  Variable m : Z.
  Variable M : masks.

  (* round_3.go:107,114  thelta ; :108,115 sigma *)
  Definition delta_i : nat -> Z := mix_i q n k gamma (m_alpha M) (m_beta M).
  Definition sigma_i : nat -> Z := mix_i q n k w (m_mu M) (m_nu M).

  (* round_4.go:28-40: own thelta plus the broadcast ones *)
  Definition delta : Z := nsum n delta_i mod q.

  (* round_5.go:66  si = m*k + rx*sigma *)
  Definition s_i (r : Z) (i : nat) : Z := (m * k i + r * sigma_i i) mod q.

  (* finalize.go:27-37 *)
  Definition s_sum (r : Z) : Z := nsum n (s_i r) mod q.
End Scalars.

(* ---------------------------------------------------------------------- *)
(* phase 5 (rounds 5-9) "in the exponent": every point is a multiple of G, represented by
   its scalar.  R = rs*G, Y = y*G; sv i is the s_i party i used in round 5 (any values: a
   wrong partial signature is a wrong sv i). *)
Section Phase5Scalars.
  Variable q : Z.
  Variable n : nat.
  Variables m r y rs : Z.
  Variables sv l rho : nat -> Z.

  Definition xV_i (i : nat) : Z := sv i * rs + l i.              (* round_5.go:74-77 *)
  Definition xA_i (i : nat) : Z := rho i.                        (* round_5.go:76 *)
  Definition xV : Z := (0 - m) mod q + ((0 - r) mod q) * y + nsum n xV_i.   (* round_7.go:67-79 *)
  Definition xA : Z := nsum n xA_i.                              (* round_7.go:66,79 *)
  Definition xU_i (i : nat) : Z := rho i * xV.                   (* round_7.go:82 *)
  Definition xT_i (i : nat) : Z := l i * xA.                     (* round_7.go:83 *)
  (* round_9.go:43 *)
  Definition phase5_okx : bool := (nsum n xU_i mod q =? nsum n xT_i mod q).
End Phase5Scalars.

(* ---------------------------------------------------------------------- *)
(* the same on the curve                                                    *)
Section Points.
  Variable c : curve.
  Local Notation q := (cq c).
  Local Notation B := (base c).
  Local Notation cmul := (@gmul (curve_group c)).
  Local Notation padd := (pt_add c).

  Fixpoint ptsum (n : nat) (f : nat -> pt) : pt :=
    match n with
    | O => pt_zero c
    | S n' => padd (ptsum n' f) (f n')
    end.

  Definition r_of (P : pt) : Z := match P with Some (x, _) => x | None => 0 end.

  Section Phase5Points.
    Variable n : nat.
    Variables m r : Z.
    Variables sv l rho : nat -> Z.
    Variables R Y : pt.

    Definition pV_i (i : nat) : pt := padd (cmul (sv i) R) (cmul (l i) B).
    Definition pA_i (i : nat) : pt := cmul (rho i) B.
    Definition pV : pt :=
      padd (padd (cmul ((0 - m) mod q) B) (cmul ((0 - r) mod q) Y)) (ptsum n pV_i).
    Definition pA : pt := ptsum n pA_i.
    Definition pU_i (i : nat) : pt := cmul (rho i) pV.
    Definition pT_i (i : nat) : pt := cmul (l i) pA.
    Definition phase5_ok : bool := pt_eqb (ptsum n pU_i) (ptsum n pT_i).

    (* the ECPoint wrapper calls of round 5: R.ScalarMult(si), ScalarBaseMult(li),
       ScalarBaseMult(roI) panic on an unrepresentable result (:74-76); rToSi.Add(liPoint)
       returns an error (:77-80) *)
    Definition r5_smul_ok : bool :=
      forallb (fun i => representable (cmul (sv i) R) && representable (cmul (l i) B)
                        && representable (cmul (rho i) B)) (seq 0 n).
    Definition r5_add_ok : bool := forallb (fun i => representable (pV_i i)) (seq 0 n).
  End Phase5Points.

  (* ---- the whole run ---- *)
  Section Run.
    Variable n : nat.
    Variables k gamma w : nat -> Z.
    Variable m : Z.
    Variables l rho : nat -> Z.
    Variable M : masks.
    Variable fullLen : Z.
    Variable Y : pt.

    Definition Gamma_i (i : nat) : pt := cmul (gamma i) B.          (* round_1.go:57 *)
    Definition Gamma_sum : pt := ptsum n Gamma_i.                   (* round_5.go:29-59 *)

    (* round_1.go:57: crypto.ScalarBaseMult(gamma) panics on an unrepresentable result *)
    Definition r1_gamma_ok : bool := forallb (fun i => representable (Gamma_i i)) (seq 0 n).

    (* round_5.go:29-59 as party i runs it: start from the own Gamma_i and add the others in
       index order with ECPoint.Add, which fails (blaming P_j) when a PARTIAL sum is not an
       affine point *)
    Fixpoint gamma_acc (i : nat) (js : list nat) (acc : pt) : Outcome pt :=
      match js with
      | [] => Ok acc
      | j :: t =>
          if Nat.eqb j i then gamma_acc i t acc
          else P <- ec_add c acc (Gamma_i j) ;; gamma_acc i t P
      end.
    Definition party_Gamma_sum (i : nat) : Outcome pt := gamma_acc i (seq 0 n) (Gamma_i i).
    Definition r5_gamma_ok : bool :=
      forallb (fun i => match party_Gamma_sum i with Ok _ => true | _ => false end) (seq 0 n).
    Definition run_delta : Z := delta q n k gamma M.
    (* round_4.go:43 ModInverse ; round_5.go:61 *)
    Definition bigR : pt := cmul (inv_prime q run_delta) Gamma_sum.
    Definition run_r : Z := r_of bigR.                              (* round_5.go:64: NOT reduced mod q *)
    Definition run_sv : nat -> Z := s_i q n k w m M run_r.
    Definition run_s : Z := s_sum q n k w m M run_r.
    Definition run_phase5_ok : bool := phase5_ok n m run_r run_sv l rho bigR Y.

    (* Ok only when every party finishes; Panic/Err when some party panics / aborts:
         m >= q                      round_1.go:40                                 Err
         gamma_i*G = infinity        round_1.go:57 (ScalarBaseMult panics)         Panic
         delta = 0                   round_4.go:43 ModInverse = nil, round_5.go:61 nil deref   Panic
         a partial sum of the Gamma_j = infinity   round_5.go:55-58 (R.Add fails)  Err
         R = infinity                round_5.go:61 (ScalarMult panics)             Panic
         s_i*R, l_i*G, rho_i*G = inf round_5.go:74-76                              Panic
         V_i = infinity              round_5.go:77-80                              Err
         sum U <> sum T              round_9.go:43                                 Err
         then finalize.go *)
    Definition sign_rounds : Outcome sigdata :=
      if negb (m <? q) then Err
      else if negb r1_gamma_ok then Panic
      else if run_delta =? 0 then Panic
      else if negb r5_gamma_ok then Err
      else
        match bigR with
        | Some (rx, ry) =>
            if negb (r5_smul_ok n run_sv l rho bigR) then Panic
            else if negb (r5_add_ok n run_sv l bigR) then Err
            else if run_phase5_ok then ecdsa_finalize c rx ry run_s m fullLen Y
            else Err
        | None => Panic
        end.
  End Run.
End Points.
