(* Polynomials over Z_q as used by crypto/vss and the Lagrange weights of
   PrepareForSigning / ReConstruct.  Definitions only (executable). *)
From Coq Require Import ZArith List Lia.
From TSS Require Import Base.Outcome Base.Bytes Base.ZMod.
Import ListNotations.
Open Scope Z_scope.

Section Poly.
  Variable q : Z.

  (* evaluatePolynomial: result = v0; X = 1; for i>=1: X = X*id mod q; result = (result + v_i*X) mod q.
     When the polynomial has degree 0 the (unreduced) v0 is returned, as in Go. *)
  Fixpoint eval_loop (coefs : list Z) (id X result : Z) : Z :=
    match coefs with
    | [] => result
    | a :: t => let X' := (X * id) mod q in eval_loop t id X' ((result + a * X') mod q)
    end.
  Definition eval_poly (coefs : list Z) (id : Z) : Z :=
    match coefs with
    | [] => 0
    | a0 :: t => eval_loop t id 1 a0
    end.

  (* mathematical evaluation (Horner), for specifications *)
  Fixpoint horner (coefs : list Z) (x : Z) : Z :=
    match coefs with
    | [] => 0
    | a :: t => a + x * horner t x
    end.

  (* Lagrange coefficient at 0 for the point xi among xs (all other points xj):
     prod_{j<>i} xj * (xj - xi)^-1, every step reduced mod q as in Go.
     [others] are the x-coordinates different from position i. *)
  Definition lagrange_step (xi acc xj : Z) : Z :=
    (acc * ((xj * inv_prime q ((xj - xi) mod q)) mod q)) mod q.
  Definition lagrange0 (xi : Z) (others : list Z) : Z :=
    fold_left (lagrange_step xi) others 1.

  (* remove position i *)
  Fixpoint remove_nth {A} (i : nat) (l : list A) : list A :=
    match i, l with
    | _, [] => []
    | O, _ :: t => t
    | S k, a :: t => a :: remove_nth k t
    end.

  (* ReConstruct: sum_i share_i * lagrange0(x_i) mod q *)
  Definition reconstruct (xs shares : list Z) : Z :=
    fold_left (fun acc i =>
                 (acc + (nth i shares 0 * lagrange0 (nth i xs 0) (remove_nth i xs)) mod q) mod q)
              (seq 0 (length xs)) 0.

  (* PrepareForSigning: w_i = x_i * prod_{j<>i} k_j/(k_j-k_i) mod q, folded left starting from x_i *)
  Definition prepare_wi (xi : Z) (ki : Z) (others : list Z) : Z :=
    fold_left (fun w kj => (w * ((kj * inv_prime q ((kj - ki) mod q)) mod q)) mod q) others xi.
End Poly.
