(* crypto/schnorr/schnorr_proof.go and crypto/vss/feldman_vss.go over a concrete curve. *)
From Coq Require Import ZArith List Lia Bool.
From TSS Require Import Base.Outcome Base.Bytes Base.ZMod Base.GoInt Model.Framing Model.Group Model.Curve Model.Poly.
Import ListNotations.
Open Scope Z_scope.

Definition coords (P : pt) : list Z := match P with Some (x, y) => [x; y] | None => [0; 0] end.

Section Schnorr.
  Variable H : list Z -> list Z.
  Variable c : curve.
  Let q := cq c.

  (* RejectionSample(q, SHA512_256i_TAGGED(session, ints...)) *)
  Definition challenge (session : list Z) (ints : list Z) : Z :=
    match sha512_256i_tagged H session ints with Some h => h mod cq c | None => 0 end.

  (* NewZKProof with the drawn nonce a explicit *)
  Definition zk_prove (session : list Z) (x : Z) (X : pt) (a : Z) : Outcome (pt * Z) :=
    alpha <- ec_base_mul c a ;;
    let ch := challenge session (coords X ++ coords (base c) ++ coords alpha) in
    Ok (alpha, (a + ch * x) mod cq c).

  (* ZKProof.Verify (with the t = 0 mod q guard of the fix: commit) *)
  Definition zk_verify (session : list Z) (X : pt) (alpha : pt) (t : Z) : Outcome bool :=
    if t mod cq c =? 0 then Ok false
    else
      let ch := challenge session (coords X ++ coords (base c) ++ coords alpha) in
      tG <- ec_base_mul c t ;;
      Xc <- ec_smul c X ch ;;
      match ec_add c alpha Xc with
      | Ok s => Ok (pt_eqb s tG)
      | Err => Ok false
      | Panic => Panic
      | Diverge => Diverge
      end.

  (* NewZKVProof: V = s*R + l*G *)
  Definition zkv_prove (session : list Z) (V R : pt) (s l a b : Z) : Outcome (pt * Z * Z) :=
    aR <- ec_smul c R a ;;
    bG <- ec_base_mul c b ;;
    match ec_add c aR bG with
    | Ok alpha =>
        let ch := challenge session (coords V ++ coords R ++ coords (base c) ++ coords alpha) in
        Ok (alpha, (a + ch * s) mod cq c, (b + ch * l) mod cq c)
    | _ => Panic   (* the error is ignored and alpha (nil) dereferenced *)
    end.

  Definition zkv_verify (session : list Z) (V R : pt) (alpha : pt) (t u : Z) : Outcome bool :=
    if (t mod cq c =? 0) || (u mod cq c =? 0) then Ok false
    else
      let ch := challenge session (coords V ++ coords R ++ coords (base c) ++ coords alpha) in
      tR <- ec_smul c R t ;;
      uG <- ec_base_mul c u ;;
      match ec_add c tR uG with
      | Err => Ok false
      | Panic => Panic | Diverge => Diverge
      | Ok lhs =>
          Vc <- ec_smul c V ch ;;
          match ec_add c alpha Vc with
          | Ok rhs => Ok (pt_eqb lhs rhs)
          | Err => Ok false
          | Panic => Panic | Diverge => Diverge
          end
      end.

  (* ---------------- Feldman VSS ---------------- *)
  Fixpoint no_dup_z (l : list Z) : bool :=
    match l with
    | [] => true
    | x :: t => negb (existsb (Z.eqb x) t) && no_dup_z t
    end.
  (* CheckIndexes: every id non-zero mod q and pairwise distinct mod q *)
  Definition check_indexes (ids : list Z) : bool :=
    let ms := map (fun v => v mod cq c) ids in
    forallb (fun v => negb (v =? 0)) ms && no_dup_z ms.

  (* Create with the sampled coefficients a_1..a_t explicit *)
  Definition vss_create (t : Z) (secret : Z) (ids : list Z) (tail : list Z) : Outcome (list pt * list Z) :=
    if t <? 1 then Err
    else if negb (check_indexes ids) then Err
    else if zlength ids <? t then Err
    else
      let poly := secret :: tail in
      vs <- omapM (ec_base_mul c) poly ;;
      Ok (vs, map (eval_poly (cq c) poly) ids).

  (* Share.Verify: v = V_0 + sum_j id^j V_j ; compare with share*G *)
  Fixpoint vss_verify_loop (vs : list pt) (id tpow : Z) (acc : pt) : Outcome (option pt) :=
    match vs with
    | [] => Ok (Some acc)
    | V :: rest =>
        let t' := (tpow * id) mod cq c in
        vjt <- ec_smul c V t' ;;
        match ec_add c acc vjt with
        | Ok acc' => vss_verify_loop rest id t' acc'
        | Err => Ok None
        | Panic => Panic | Diverge => Diverge
        end
    end.
  Definition vss_verify (share_t : Z) (t : Z) (id share : Z) (vs : list pt) : Outcome bool :=
    if negb (share_t =? t) || negb (zlength vs =? t + 1) then Ok false
    else if (id mod cq c =? 0) || (share mod cq c =? 0) then Ok false
    else match vs with
         | [] => Ok false
         | V0 :: rest =>
             r <- vss_verify_loop rest id 1 V0 ;;
             match r with
             | None => Ok false
             | Some v => sG <- ec_base_mul c share ;; Ok (pt_eqb sG v)
             end
         end.

  (* ReConstruct (repaired): error on empty input, threshold, or ids equal mod q *)
  Definition vss_reconstruct (thr0 : Z) (xs shares : list Z) : Outcome Z :=
    match xs with
    | [] => Err
    | _ =>
        if zlength xs <? thr0 then Err
        else if negb (no_dup_z (map (fun v => v mod cq c) xs)) then Err
        else Ok (reconstruct (cq c) xs shares)
    end.
End Schnorr.
