(* crypto/facproof, crypto/modproof, crypto/dlnproof.  Randomness explicit;
   ProbablyPrime is an oracle (section variable). *)
From Coq Require Import ZArith List Lia Bool.
From TSS Require Import Base.Outcome Base.Bytes Base.ZMod Base.GoInt Model.Framing Model.Group Model.Curve Model.Paillier Model.Schnorr Model.MtA.
Import ListNotations.
Open Scope Z_scope.

Record fac_pf := mkFac { fP : Z; fQ : Z; fA : Z; fB : Z; fT : Z; fSigma : Z; fZ1 : Z; fZ2 : Z; fW1 : Z; fW2 : Z; fV : Z }.

Section Fac.
  Variable H : list Z -> list Z.
  Variable c : curve.

  Definition fac_challenge (session : list Z) (N0 NCap s t : Z) (P Q A B T sigma : Z) : Z :=
    challenge H c session [N0; NCap; s; t; P; Q; A; B; T; sigma].

  (* NewProof; drawn: alpha,beta < q^3 sqrt(N0); mu,nu < q NCap; sigma < q N0 NCap; r unit mod q^3 N0 NCap; x,y < q^3 NCap *)
  Definition fac_prove (session : list Z) (N0 NCap s t N0p N0q : Z) (alpha beta mu nu sigma r x y : Z) : fac_pf :=
    let P := mmul NCap (powmod s N0p NCap) (powmod t mu NCap) in
    let Q := mmul NCap (powmod s N0q NCap) (powmod t nu NCap) in
    let A := mmul NCap (powmod s alpha NCap) (powmod t x NCap) in
    let B := mmul NCap (powmod s beta NCap) (powmod t y NCap) in
    let T := mmul NCap (powmod Q alpha NCap) (powmod t r NCap) in
    let e := fac_challenge session N0 NCap s t P Q A B T sigma in
    mkFac P Q A B T sigma (e * N0p + alpha) (e * N0q + beta) (e * mu + x) (e * nu + y) (e * (sigma - nu * N0p) + r).

  (* Verify (with the NCap > 0 guard of the fix: commit). V comes from the wire, so it is
     non-negative; a negative V in memory makes Exp take an inverse: go_exp. *)
  Definition fac_verify (session : list Z) (N0 NCap s t : Z) (pf : fac_pf) : Outcome bool :=
    if negb (0 <? N0) || negb (0 <? NCap) then Ok false
    else
      let bound := q3 c * Z.sqrt N0 in
      if negb (is_in_interval (fZ1 pf) bound) then Ok false
      else if negb (is_in_interval (fZ2 pf) bound) then Ok false
      else
        let e := fac_challenge session N0 NCap s t (fP pf) (fQ pf) (fA pf) (fB pf) (fT pf) (fSigma pf) in
        match go_exp t (fW1 pf) NCap, go_exp t (fW2 pf) NCap, go_exp t (fSigma pf) NCap, go_exp t (fV pf) NCap with
        | Some tW1, Some tW2, Some tSig, Some tV =>
            let l1 := mmul NCap (powmod s (fZ1 pf) NCap) tW1 in
            let r1 := mmul NCap (fA pf) (powmod (fP pf) e NCap) in
            if negb (l1 =? r1) then Ok false
            else
              let l2 := mmul NCap (powmod s (fZ2 pf) NCap) tW2 in
              let r2 := mmul NCap (fB pf) (powmod (fQ pf) e NCap) in
              if negb (l2 =? r2) then Ok false
              else
                let R := mmul NCap (powmod s N0 NCap) tSig in
                let l3 := mmul NCap (powmod (fQ pf) (fZ1 pf) NCap) tV in
                let r3 := mmul NCap (fT pf) (powmod R e NCap) in
                Ok (l3 =? r3)
        | _, _, _, _ => Panic
        end.
End Fac.

(* ---------------- modproof ---------------- *)
Section Mod.
  Variable H : list Z -> list Z.
  Variable is_prime : Z -> bool.   (* big.Int.ProbablyPrime(30): oracle *)
  Definition ModIters : nat := 80.

  (* Y_i = H_tagged(session, W, N, Y_0..Y_{i-1}) mod N *)
  Fixpoint mod_ys (n : nat) (session : list Z) (W N : Z) (acc : list Z) : list Z :=
    match n with
    | O => acc
    | S k =>
        let e := match sha512_256i_tagged H session (W :: N :: acc) with Some h => h mod N | None => 0 end in
        mod_ys k session W N (acc ++ [e])
    end.

  Definition is_qr (x n : Z) : Outcome bool := j <- go_jacobi x n ;; Ok (j =? 1).

  (* one iteration of the prover: find (a,b) with (-1)^a W^b Y a square mod P and Q *)
  Definition mod_prove_one (N P Q W expo invN Yi : Z) : Outcome (option (Z * Z * Z * Z)) :=
    let cand (a b : Z) :=
      let y1 := if a =? 1 then ((-1) * Yi) mod N else Yi in
      if b =? 1 then (W * y1) mod N else y1 in
    let try (a b : Z) : Outcome bool :=
      qp <- is_qr (cand a b) P ;; qq <- is_qr (cand a b) Q ;; Ok (qp && qq) in
    let fin (a b : Z) := Ok (Some (powmod (cand a b) expo N, powmod Yi invN N, a, b)) in
    t0 <- try 0 0 ;; if t0 then fin 0 0 else
    t1 <- try 1 0 ;; if t1 then fin 1 0 else
    t2 <- try 0 1 ;; if t2 then fin 0 1 else
    t3 <- try 1 1 ;; if t3 then fin 1 1 else Ok None.

  Record mod_pf := mkMod { mW : Z; mX : list Z; mA : Z; mB : Z; mZ : list Z }.

  (* NewProof with the drawn non-residue W explicit *)
  Definition mod_prove (session : list Z) (N P Q W : Z) : Outcome mod_pf :=
    let Phi := (P - 1) * (Q - 1) in
    let ys := mod_ys ModIters session W N [] in
    match modinv N Phi with
    | None => Panic
    | Some invN =>
        let e0 := (Phi + 4) / 8 in
        let expo := (e0 * e0) mod Phi in
        rs <- omapM (mod_prove_one N P Q W expo invN) ys ;;
        (* A and B start as 2^80 and get bit i set to a_i / b_i *)
        let bits (sel : Z * Z * Z * Z -> Z) :=
          fold_left (fun acc ir => match snd ir with
                                   | Some r => acc + sel r * 2 ^ Z.of_nat (fst ir)
                                   | None => acc end)
                    (combine (seq 0 ModIters) rs) (2 ^ Z.of_nat ModIters) in
        if forallb (fun r => match r with Some _ => true | None => false end) rs then
          Ok (mkMod W (map (fun r => match r with Some (x, _, _, _) => x | None => 0 end) rs)
                    (bits (fun r => snd (fst r))) (bits (fun r => snd r))
                    (map (fun r => match r with Some (_, z, _, _) => z | None => 0 end) rs))
        else Err  (* a nil X_i / Z_i: the proof is not well-formed (N not a Blum integer) *)
    end.

  (* Verify (with the positive-odd guard of the fix: commit placed before Jacobi) *)
  Definition mod_verify (session : list Z) (N : Z) (pf : mod_pf) : Outcome bool :=
    if negb (0 <? N) || Z.even N then Ok false
    else
      j <- go_jacobi (mW pf) N ;;
      if j =? 1 then Ok false
      else if negb (0 <? mW pf) || negb (mW pf <? N) then Ok false
      else if negb (Z.gcd (mW pf) N =? 1) then Ok false
      else if negb (forallb (fun z => (0 <? z) && (z <? N)) (mZ pf)) then Ok false
      else if negb (forallb (fun x => (0 <? x) && (x <? N)) (mX pf)) then Ok false
      else if negb (bitlen (mA pf) =? Z.of_nat ModIters + 1) then Ok false
      else if negb (bitlen (mB pf) =? Z.of_nat ModIters + 1) then Ok false
      else if is_prime N then Ok false
      else
        let ys := mod_ys ModIters session (mW pf) N [] in
        let ok1 := forallb (fun zy => powmod (fst zy) N N =? snd zy) (combine (mZ pf) ys) in
        let ok2 := forallb (fun ixy =>
                              let i := fst ixy in let x := fst (snd ixy) in let y := snd (snd ixy) in
                              let a := Z.testbit (mA pf) (Z.of_nat i) in
                              let b := Z.testbit (mB pf) (Z.of_nat i) in
                              let r1 := if a then ((-1) * y) mod N else y in
                              let r2 := if b then (mW pf * r1) mod N else r1 in
                              powmod x 4 N =? r2)
                           (combine (seq 0 ModIters) (combine (mX pf) ys)) in
        Ok (ok1 && ok2).
End Mod.

(* ---------------- dlnproof ---------------- *)
Section DLN.
  Variable H : list Z -> list Z.
  Definition DlnIters : nat := 128.

  Definition dln_challenge (h1 h2 N : Z) (alphas : list Z) : Z :=
    match sha512_256i H (h1 :: h2 :: N :: alphas) with Some h => h | None => 0 end.

  (* NewDLNProof with the drawn a_i explicit *)
  Definition dln_prove (h1 h2 x p q N : Z) (as_ : list Z) : list Z * list Z :=
    let pq := p * q in
    let alphas := map (fun a => powmod h1 a N) as_ in
    let ch := dln_challenge h1 h2 N alphas in
    (alphas, map (fun ia => (snd ia + (if Z.testbit ch (Z.of_nat (fst ia)) then 1 else 0) * x mod pq) mod pq)
                 (combine (seq 0 DlnIters) as_)).

  Definition in_1_N (v N : Z) : bool := let a := v mod N in (1 <? a) && (a <? N).

  Definition dln_verify (h1 h2 N : Z) (alphas ts : list Z) : Outcome bool :=
    if negb (0 <? N) then Ok false
    else if negb (in_1_N h1 N) then Ok false
    else if negb (in_1_N h2 N) then Ok false
    else if h1 mod N =? h2 mod N then Ok false
    else if negb (forallb (fun t => in_1_N t N) ts) then Ok false
    else if negb (forallb (fun a => in_1_N a N) alphas) then Ok false
    else
      let ch := dln_challenge h1 h2 N alphas in
      Ok (forallb (fun iat =>
                     let i := fst iat in let a := fst (snd iat) in let t := snd (snd iat) in
                     let ci := if Z.testbit ch (Z.of_nat i) then 1 else 0 in
                     match go_exp h1 t N with
                     | Some l => l =? (a * powmod h2 ci N) mod N
                     | None => false
                     end)
                  (combine (seq 0 DlnIters) (combine alphas ts))).
End DLN.
