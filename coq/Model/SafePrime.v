(* common/random.go, common/safe_prime.go (one worker, the reader as a finite byte stream) and the
   algebra of ecdsa/keygen/prepare.go.  crypto/rand.Int is modelled byte for byte (it is part of what
   the samplers' contracts rest on); big.Int.ProbablyPrime is an oracle (section variable).
   Err = the reader failed (stream exhausted); Diverge = the Go loop does not terminate on this stream. *)
From Coq Require Import ZArith List Lia Bool.
From TSS Require Import Base.Outcome Base.Bytes Base.ZMod Base.GoInt.
Import ListNotations.
Open Scope Z_scope.

Definition bitlen (n : Z) : Z := if n <=? 0 then 0 else Z.log2 n + 1.

(* io.ReadFull(rand, buf[k]) on a finite stream *)
Definition take_bytes (k : nat) (s : list Z) : option (list Z * list Z) :=
  if Nat.ltb (length s) k then None else Some (firstn k s, skipn k s).

(* ---------------- crypto/rand.Int ---------------- *)
Fixpoint rand_int_loop (fuel : nat) (k : nat) (b : Z) (max : Z) (s : list Z) : Outcome (Z * list Z) :=
  match fuel with
  | O => Diverge
  | S f =>
      match take_bytes k s with
      | None => Err
      | Some (bs, rest) =>
          let n := be_value ((hd 0 bs mod 2 ^ b) :: tl bs) in
          if n <? max then Ok (n, rest) else rand_int_loop f k b max rest
      end
  end.

Definition rand_int (s : list Z) (max : Z) : Outcome (Z * list Z) :=
  if max <=? 0 then Panic
  else
    let bl := bitlen (max - 1) in
    if bl =? 0 then Ok (0, s)
    else
      let k := Z.to_nat ((bl + 7) / 8) in
      let b := if bl mod 8 =? 0 then 8 else bl mod 8 in
      rand_int_loop (S (length s)) k b max s.

(* ---------------- common/random.go ---------------- *)
Definition mustGetRandomIntMaxBits : Z := 5000.

(* MustGetRandomInt: uniform below 2^bits - 1; panics on a reader failure *)
Definition must_rand_int (s : list Z) (bits : Z) : Outcome (Z * list Z) :=
  if (bits <=? 0) || (mustGetRandomIntMaxBits <? bits) then Panic
  else match rand_int s (2 ^ bits - 1) with
       | Err => Panic
       | o => o
       end.

(* the rejection loop shared by the samplers: draw `bits` bits until `good` *)
Fixpoint reject_loop (fuel : nat) (good : Z -> bool) (bits : Z) (s : list Z) : Outcome (Z * list Z) :=
  match fuel with
  | O => Diverge
  | S f =>
      r <- must_rand_int s bits ;;
      if good (fst r) then Ok r else reject_loop f good bits (snd r)
  end.

(* GetRandomPositiveInt(lessThan): None = nil *)
Definition get_random_positive_int (s : list Z) (lt : Z) : Outcome (option Z * list Z) :=
  if lt <=? 0 then Ok (None, s)
  else r <- reject_loop (S (length s)) (fun v => v <? lt) (bitlen lt) s ;; Ok (Some (fst r), snd r).

Definition in_mult_group (n v : Z) : bool :=
  (0 <? n) && (v <? n) && (1 <=? v) && (Z.gcd v n =? 1).

(* GetRandomPositiveRelativelyPrimeInt(n) *)
Definition get_random_rel_prime (s : list Z) (n : Z) : Outcome (option Z * list Z) :=
  if n <=? 0 then Ok (None, s)
  else r <- reject_loop (S (length s)) (in_mult_group n) (bitlen n) s ;; Ok (Some (fst r), snd r).

(* GetRandomGeneratorOfTheQuadraticResidue(n) (n > 0) *)
Definition get_random_qr_generator (s : list Z) (n : Z) : Outcome (Z * list Z) :=
  r <- get_random_rel_prime s n ;;
  match fst r with
  | Some f => Ok ((f * f) mod n, snd r)
  | None => Panic
  end.

(* GetRandomQuadraticNonResidue(n): GetRandomPositiveInt(n) until Jacobi = -1 *)
Fixpoint qnr_loop (fuel : nat) (s : list Z) (n : Z) : Outcome (Z * list Z) :=
  match fuel with
  | O => Diverge
  | S f =>
      r <- get_random_positive_int s n ;;
      match fst r with
      | None => Panic                       (* big.Jacobi(nil, n) *)
      | Some w =>
          j <- go_jacobi w n ;;
          if j =? -1 then Ok (w, snd r) else qnr_loop f (snd r) n
      end
  end.
Definition get_random_qnr (s : list Z) (n : Z) : Outcome (Z * list Z) := qnr_loop (S (length s)) s n.

(* ---------------- common/safe_prime.go: one worker ---------------- *)
Definition small_primes : list Z := [3; 5; 7; 11; 13; 17; 19; 23; 29; 31; 37; 41; 43; 47; 53].
Definition small_primes_product : Z := 16294579238595022365.

Definition is_prime_candidate (n : Z) : bool :=
  let m := n mod small_primes_product in
  forallb (fun pr => negb ((m mod pr =? 0) && negb (m =? pr))) small_primes.

Definition pocklington (p : Z) : bool := powmod 2 (p - 1) p =? 1.

(* the candidate built from the bytes read: size <= qbits, the two top bits set, odd *)
Definition set_last_odd (l : list Z) : list Z :=
  match rev l with
  | [] => []
  | x :: r => rev (Z.lor x 1 :: r)
  end.
Definition mask_q (bytes : list Z) (qbits : Z) : Z :=
  let b := if qbits mod 8 =? 0 then 8 else qbits mod 8 in
  let b0 := Z.land (hd 0 bytes) (2 ^ b - 1) in
  let l1 :=
    if 2 <=? b then Z.lor b0 (Z.shiftl 3 (b - 2)) :: tl bytes
    else match tl bytes with
         | [] => [Z.lor b0 1]
         | b1 :: r => Z.lor b0 1 :: Z.lor b1 128 :: r
         end in
  be_value (set_last_odd l1).

(* run 2^n steps of a loop body that either continues with a new state or stops with a result *)
Fixpoint loop_pow2 {S R} (n : nat) (step : S -> S + R) (s : S) : S + R :=
  match n with
  | O => step s
  | Datatypes.S k => match loop_pow2 k step s with
                     | inl s' => loop_pow2 k step s'
                     | inr r => inr r
                     end
  end.

(* the NextDelta loop: state = (delta, q, p); q accumulates the deltas exactly as the Go code does *)
Definition sieve_step (qbits md : Z) (st : Z * Z * Z) : (Z * Z * Z) + (Z * Z) :=
  let '(delta, q, p) := st in
  let m := md + delta in
  if existsb (fun pr => (m mod pr =? 0) && ((6 <? qbits) || negb (m =? pr))) small_primes
  then inl (delta + 2, q, p)
  else
    let q1 := if 0 <? delta then q + delta else q in
    if q1 mod 3 =? 1 then inl (delta + 2, q1, p)
    else
      let p1 := 2 * q1 + 1 in
      if is_prime_candidate p1 then inr (q1, p1) else inl (delta + 2, q1, p1).

Section SafePrime.
  Variable is_prime : Z -> bool.   (* big.Int.ProbablyPrime: oracle (the 20- and 30-round calls are not distinguished) *)

  (* one iteration of the worker loop on the bytes just read; pstale is the value left in p by earlier iterations.
     Result: the pair found (if any) and the new stale p. *)
  Definition sp_iteration (qbits : Z) (bytes : list Z) (pstale : Z) : option (Z * Z) * Z :=
    let q0 := mask_q bytes qbits in
    let md := q0 mod small_primes_product in
    let '(q, p) := match loop_pow2 19 (sieve_step qbits md) (0, q0, pstale) with
                   | inr qp => qp
                   | inl (_, q1, p1) => (q1, p1)
                   end in
    if is_prime q && pocklington p && (bitlen q =? qbits)
    then (if is_prime q && (2 * q + 1 =? p) && is_prime p then (Some (q, p), 0) else (None, 0))
    else (None, p).

  (* a single worker feeding a consumer that needs `need` pairs: the pairs in the order found *)
  Fixpoint sp_worker (fuel : nat) (qbits : Z) (k : nat) (need : nat) (s : list Z) (pstale : Z) : Outcome (list (Z * Z)) :=
    match need with
    | O => Ok []
    | S need' =>
        match fuel with
        | O => Diverge
        | S f =>
            match take_bytes k s with
            | None => Err
            | Some (bs, rest) =>
                match sp_iteration qbits bs pstale with
                | (Some qp, ps) => r <- sp_worker f qbits k need' rest ps ;; Ok (qp :: r)
                | (None, ps) => sp_worker f qbits k need rest ps
                end
            end
        end
    end.

  (* GetRandomSafePrimesConcurrent(ctx, bitLen, numPrimes, 1, reader(stream)) with a live context *)
  Definition safe_primes (s : list Z) (pbits : Z) (num : Z) : Outcome (list (Z * Z)) :=
    if pbits <? 6 then Err
    else if num <? 1 then Err
    else
      let qbits := pbits - 1 in
      sp_worker (S (length s)) qbits (Z.to_nat ((qbits + 7) / 8)) (Z.to_nat num) s 0.

  (* GermainSafePrime.Validate *)
  Definition sgp_validate (q p : Z) : bool := is_prime q && (2 * q + 1 =? p) && is_prime p.
End SafePrime.

(* ---------------- ecdsa/keygen/prepare.go: what is computed from the primes and the draws ---------------- *)
Record preparams := mkPre { pp_ntilde : Z; pp_h1 : Z; pp_h2 : Z; pp_alpha : Z; pp_beta : Z; pp_p : Z; pp_q : Z }.

(* P = 2p+1, Q = 2q+1 the safe primes; f1, alpha the two draws from Z*_NTilde; a nil beta is kept as None *)
Definition derive_preparams (p q f1 alpha : Z) : option preparams :=
  let P := 2 * p + 1 in let Q := 2 * q + 1 in
  let nt := P * Q in
  let h1 := (f1 * f1) mod nt in
  let h2 := powmod h1 alpha nt in
  match modinv alpha (p * q) with
  | Some beta => Some (mkPre nt h1 h2 alpha beta p q)
  | None => None
  end.

(* the draws themselves, from the reader *)
Definition draw_preparams (s : list Z) (p q : Z) : Outcome (option preparams) :=
  let nt := (2 * p + 1) * (2 * q + 1) in
  r1 <- get_random_rel_prime s nt ;;
  r2 <- get_random_rel_prime (snd r1) nt ;;
  match fst r1, fst r2 with
  | Some f1, Some alpha => Ok (derive_preparams p q f1 alpha)
  | _, _ => Panic
  end.

(* crypto/utils.go GenerateNTildei: two independent generators of the quadratic residues *)
Definition gen_ntildei (is_prime : Z -> bool) (s : list Z) (P Q : Z) : Outcome (Z * Z * Z * list Z) :=
  if negb (is_prime P) || negb (is_prime Q) then Err
  else
    let nt := P * Q in
    r1 <- get_random_qr_generator s nt ;;
    r2 <- get_random_qr_generator (snd r1) nt ;;
    Ok (nt, fst r1, fst r2, snd r2).
