(* C05 - who is blamed by a per-peer verification loop.

   In every protocol round a party walks over the stored messages of its peers
   (`for j, msg := range round.temp.<store>`) and reports an error naming culprit(s) through
   `round.WrapError(err, culprits...)`.  Three loop shapes occur:

   (A) first failure : return at the first peer whose check fails, culprit = that peer
                       (ecdsa/keygen/round_2.go, the paillier / h1=h2 / NTilde tests);
   (B) accumulate    : every peer is checked (possibly concurrently), the verdicts are written into
                       per-peer slots, and the error names the failing peers - all of them
                       (ecdsa/keygen/round_3.go) or the first non-nil slot in index order
                       (round_2.go, the DLN proofs);
   (C) pairwise      : peer j is refused when a key derived from its message (h1_j, h2_j) was already
                       seen at an EARLIER index (round_2.go, h1H2Map).

   Everything here is executable and total; the statements are in Proofs/BlameLoopProofs.v. *)
From Coq Require Import List Arith Bool.
Import ListNotations.

(* ---------- generic indexed walks (the loop counter is the accumulator [i]) ---------- *)
Section Walk.
  Context {A : Type}.
  Variable v : nat -> A -> bool.          (* v j a = true : position j is refused *)

  (* early return at the first refused position *)
  Fixpoint first_from (i : nat) (l : list A) : option nat :=
    match l with
    | [] => None
    | a :: r => if v i a then Some i else first_from (S i) r
    end.

  (* no early return: every refused position, in index order *)
  Fixpoint all_from (i : nat) (l : list A) : list nat :=
    match l with
    | [] => []
    | a :: r => if v i a then i :: all_from (S i) r else all_from (S i) r
    end.
End Walk.

(* l[j] := x  (no effect when j is out of range) *)
Fixpoint upd {A : Type} (j : nat) (x : A) (l : list A) : list A :=
  match l, j with
  | [], _ => []
  | _ :: r, 0 => x :: r
  | a :: r, S j' => a :: upd j' x r
  end.

(* map with the index *)
Fixpoint imap {A B : Type} (f : nat -> A -> B) (i : nat) (l : list A) : list B :=
  match l with
  | [] => []
  | a :: r => f i a :: imap f (S i) r
  end.

(* minimum of two optional indexes, None = "no index" *)
Definition omin (a b : option nat) : option nat :=
  match a, b with
  | Some x, Some y => Some (Nat.min x y)
  | Some x, None => Some x
  | None, _ => b
  end.

Inductive mode :=
| FirstFailure        (* shape A *)
| AccumulateAll       (* shape B, the error names every failing peer *)
| AccumulateFirst.    (* shape B, the error names the first non-nil slot *)

Section BlameLoop.
  Variable Msg : Type.
  (* all the per-sender checks of the loop body conjoined; true = the message passes *)
  Variable check : nat -> Msg -> bool.

  (* the store: position j = sender j, None = nothing received from j *)
  Definition store := list (option Msg).
  Definition get (msgs : store) (j : nat) : option Msg := nth j msgs None.

  (* the loop body refuses the message stored at position j *)
  Definition fails (j : nat) (om : option Msg) : bool :=
    match om with
    | Some m => negb (check j m)
    | None => false
    end.

  (* ... in a loop that skips the party's own index (`if j == i { continue }`).
     A loop that does not skip it is obtained with [self] out of range, or with [fails] directly. *)
  Definition verdict (self j : nat) (om : option Msg) : bool :=
    negb (Nat.eqb j self) && fails j om.

  (* specification: the peers whose stored message fails, ascending *)
  Definition failing (self : nat) (msgs : store) : list nat :=
    filter (fun j => verdict self j (get msgs j)) (seq 0 (length msgs)).

  (* shape A *)
  Definition scan_first (self : nat) (msgs : store) : option nat :=
    first_from (verdict self) 0 msgs.

  (* shape B.  One slot per peer, initially nil (false).  The verification of peer j writes slot j,
     and only when the proof is invalid - as the Go callbacks do.  The callbacks complete in some
     order [order]; the sequential loop is [order = 0, 1, .., n-1]. *)
  Definition write_slot (self : nat) (msgs : store) (s : list bool) (j : nat) : list bool :=
    if verdict self j (get msgs j) then upd j true s else s.

  Definition run_order (self : nat) (msgs : store) (order : list nat) : list bool :=
    fold_left (write_slot self msgs) order (repeat false (length msgs)).

  (* after wg.Wait(): walk the slots in index order *)
  Definition culprits_of_slots (s : list bool) : list nat := all_from (fun _ b => b) 0 s.
  Definition first_of_slots (s : list bool) : option nat := first_from (fun _ b => b) 0 s.

  Definition accumulate_in_order (self : nat) (msgs : store) (order : list nat) : list nat :=
    culprits_of_slots (run_order self msgs order).

  Definition scan_accumulate (self : nat) (msgs : store) : list nat :=
    accumulate_in_order self msgs (seq 0 (length msgs)).

  (* the culprits named by one loop *)
  Definition loop_blame (md : mode) (self : nat) (msgs : store) : list nat :=
    match md with
    | FirstFailure =>
        match scan_first self msgs with Some j => [j] | None => [] end
    | AccumulateAll => scan_accumulate self msgs
    | AccumulateFirst =>
        match first_of_slots (run_order self msgs (seq 0 (length msgs))) with
        | Some j => [j] | None => [] end
    end.

  (* ---------- shape C ---------- *)
  Variable K : Type.
  Variable key : Msg -> list K.            (* the keys a message contributes: h1, h2 *)
  Variable K_eqb : K -> K -> bool.

  Definition keys_of (om : option Msg) : list K :=
    match om with Some m => key m | None => [] end.

  Definition seen_mem (k : K) (seen : list K) : bool := existsb (K_eqb k) seen.
  Definition collides (ks seen : list K) : bool := existsb (fun k => seen_mem k seen) ks.

  (* `if _, found := h1H2Map[..]; found { return WrapError(.., msg.GetFrom()) }` then record the keys.
     This loop does NOT skip the party's own index. *)
  Fixpoint scan_dup_from (i : nat) (seen : list K) (msgs : store) : option nat :=
    match msgs with
    | [] => None
    | om :: r =>
        if collides (keys_of om) seen then Some i
        else scan_dup_from (S i) (keys_of om ++ seen) r
    end.
  Definition scan_dup (msgs : store) : option nat := scan_dup_from 0 [] msgs.

  (* the first loop of ecdsa/keygen/round_2.go: at index j first j's own predicates,
     then the uniqueness test, then j's keys are recorded *)
  Fixpoint round2_from (i : nat) (seen : list K) (msgs : store) : option nat :=
    match msgs with
    | [] => None
    | om :: r =>
        if fails i om then Some i
        else if collides (keys_of om) seen then Some i
        else round2_from (S i) (keys_of om ++ seen) r
    end.
  Definition round2_scan (msgs : store) : option nat := round2_from 0 [] msgs.
End BlameLoop.

Arguments get {Msg} msgs j.
Arguments fails {Msg} check j om.
Arguments verdict {Msg} check self j om.
Arguments failing {Msg} check self msgs.
Arguments scan_first {Msg} check self msgs.
Arguments write_slot {Msg} check self msgs s j.
Arguments run_order {Msg} check self msgs order.
Arguments accumulate_in_order {Msg} check self msgs order.
Arguments scan_accumulate {Msg} check self msgs.
Arguments loop_blame {Msg} check md self msgs.
Arguments keys_of {Msg K} key om.
Arguments seen_mem {K} K_eqb k seen.
Arguments collides {K} K_eqb ks seen.
Arguments scan_dup_from {Msg K} key K_eqb i seen msgs.
Arguments scan_dup {Msg K} key K_eqb msgs.
Arguments round2_from {Msg} check {K} key K_eqb i seen msgs.
Arguments round2_scan {Msg} check {K} key K_eqb msgs.

(* ---------- a round made of several loops of shapes A / B, run one after the other ----------
   each stage has its own predicate; the first stage that names somebody ends the round *)
Definition stage (Msg : Type) : Type := (mode * (nat -> Msg -> bool))%type.

Fixpoint round_blame {Msg : Type} (stages : list (stage Msg)) (self : nat)
         (msgs : list (option Msg)) : list nat :=
  match stages with
  | [] => []
  | (md, chk) :: rest =>
      match loop_blame chk md self msgs with
      | [] => round_blame rest self msgs
      | c => c
      end
  end.
