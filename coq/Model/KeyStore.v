(* Key material over a history of uses (C20): the saved key data of all parties as numbers, the JSON
   door as save/load over flat numbers with the on-curve check of crypto/ecpoint.go UnmarshalJSON, and a
   history of operations {reload, sign with a subset, sign with a derivation offset, aborted session}.
   A session never writes to the store: the model makes this explicit by threading the store through
   every step, so that the harness can compare the key data observed after a real history with it, and
   every completed session's output with the closed form evaluated on the ORIGINAL store. *)
From Coq Require Import ZArith List Lia Bool.
From TSS Require Import Base.Outcome Base.Bytes Base.ZMod Model.Group Model.Curve Model.SignAlg.
Import ListNotations.
Open Scope Z_scope.

Record kparty := mkParty { kp_id : Z; kp_xi : Z; kp_bigx : pt }.
Record kstore := mkStore { ks_parties : list kparty; ks_pub : pt }.

(* ---- the storage door: numbers out, numbers in (with the point check) ---- *)
Definition pt_nums (P : pt) : list Z := match P with Some (x, y) => [x; y] | None => [] end.
Definition save_party (p : kparty) : list Z := kp_id p :: kp_xi p :: pt_nums (kp_bigx p).
Definition save (s : kstore) : list Z :=
  pt_nums (ks_pub s) ++ flat_map save_party (ks_parties s).

Section Load.
  Variable c : curve.
  Fixpoint load_parties (fuel : nat) (l : list Z) : Outcome (list kparty) :=
    match fuel with
    | O => match l with [] => Ok [] | _ => Err end
    | S f =>
        match l with
        | [] => Ok []
        | id :: xi :: x :: y :: rest =>
            match new_ec_point c x y with
            | Some P => r <- load_parties f rest ;; Ok (mkParty id xi P :: r)
            | None => Err
            end
        | _ => Err
        end
    end.
  Definition load (l : list Z) : Outcome kstore :=
    match l with
    | x :: y :: rest =>
        match new_ec_point c x y with
        | Some P => ps <- load_parties (length rest) rest ;; Ok (mkStore ps P)
        | None => Err
        end
    | _ => Err
    end.

  Definition wf_party (p : kparty) : Prop := exists x y, kp_bigx p = Some (x, y) /\ on_curve c x y = true.
  Definition wf_store (s : kstore) : Prop :=
    Forall wf_party (ks_parties s) /\ exists x y, ks_pub s = Some (x, y) /\ on_curve c x y = true.
End Load.

(* ---- operations ---- *)
Inductive kop :=
| KReload
| KSign (signers : list nat) (kis : list Z) (m : Z)                 (* ECDSA, nonce shares in sorted-signer order *)
| KSignHD (signers : list nat) (kis : list Z) (m : Z) (delta : Z)   (* ECDSA with a derivation offset *)
| KSignEd (signers : list nat) (ris : list Z) (m : Z)               (* EdDSA *)
| KAbort (signers : list nat).                                      (* a session that does not complete *)

Inductive kout := OReloaded | OSig (s : Outcome sigdata) | OAborted | OLoadFailed.

Fixpoint insert_nat (x : nat) (l : list nat) : list nat :=
  match l with
  | [] => [x]
  | y :: t => if Nat.leb x y then x :: l else y :: insert_nat x t
  end.
Definition sort_nat (l : list nat) : list nat := fold_right insert_nat [] l.

Definition dummy_party : kparty := mkParty 0 0 None.
(* the signers in sorted order (the store is kept in id order, as SortPartyIDs leaves it) *)
Definition select (s : kstore) (signers : list nat) : list kparty :=
  map (fun i => nth i (ks_parties s) dummy_party) (sort_nat signers).

Section Step.
  Variable H512 : list Z -> list Z.
  Variable c : curve.

  Definition hd_shift (delta : Z) (p : kparty) : kparty :=
    mkParty (kp_id p) ((delta + kp_xi p) mod cq c) (kp_bigx p).
  (* the child key: parent + delta*G; an unrepresentable sum is refused by the caller's ECPoint.Add *)
  Definition child_pub (s : kstore) (delta : Z) : Outcome pt :=
    dG <- ec_base_mul c delta ;; ec_add c (ks_pub s) dG.

  Definition kstep (s : kstore) (o : kop) : kstore * kout :=
    match o with
    | KReload => match load c (save s) with
                 | Ok s' => (s', OReloaded)
                 | _ => (s, OLoadFailed)
                 end
    | KSign sg kis m =>
        let ps := select s sg in
        (s, OSig (ecdsa_sign c (map kp_id ps) (map kp_xi ps) kis m 0 (ks_pub s)))
    | KSignHD sg kis m delta =>
        let ps := map (hd_shift delta) (select s sg) in
        (s, OSig (Y <- child_pub s delta ;; ecdsa_sign c (map kp_id ps) (map kp_xi ps) kis m 0 Y))
    | KSignEd sg ris m =>
        let ps := select s sg in
        (s, OSig (eddsa_sign H512 c (map kp_id ps) (map kp_xi ps) ris m 0 (ks_pub s)))
    | KAbort _ => (s, OAborted)
    end.

  Fixpoint krun (s : kstore) (ops : list kop) : kstore * list kout :=
    match ops with
    | [] => (s, [])
    | o :: rest =>
        let '(s1, out) := kstep s o in
        let '(s2, outs) := krun s1 rest in
        (s2, out :: outs)
    end.
End Step.
