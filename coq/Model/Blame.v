(* The shape of an error report site in a protocol round (from the translator's inventory). *)
From Coq Require Import List String Bool.
Import ListNotations.

Inductive culprit_kind := CNone | CSelf | CLoopPeer | CMsgFrom | CList | COther.

Record blame_site := mkSite {
  bs_where : string;
  bs_in_peer_loop : bool;     (* inside a loop over the peers / their stored messages *)
  bs_kind : culprit_kind;
  bs_in_closure : bool        (* inside a function literal (goroutine / callback) *)
}.

(* A site is well-formed when its culprit can only be the peer being examined, the party itself, nobody,
   or a list accumulated per peer; outside a per-peer loop only self / nobody / an accumulated list. *)
Definition site_ok (s : blame_site) : bool :=
  match bs_kind s with
  | COther => false
  | CLoopPeer | CMsgFrom => bs_in_peer_loop s
  | CNone | CSelf | CList => true
  end.

Definition sites_ok (l : list blame_site) : bool := forallb site_ok l.

(* Error reports guarded by a membership test on values seen at earlier loop indexes (pairwise checks): the verdict on peer j
   depends on what the peers before j sent, so the per-peer fairness theorems (Proofs/BlameLoopProofs.v, shapes A and B) do not
   apply to them; Proofs/BlameLoopProofs.v dup_unfair_when_deviator_is_earlier shows that they can name an honest peer.
   These are exactly the recorded known findings; a new one anywhere else breaks the obligation below. *)
Definition expected_pairwise_sites : list string :=
  ["ecdsa/keygen/round_2.go:Start:h1H2Map[h1JHex]"; "ecdsa/keygen/round_2.go:Start:h1H2Map[h2JHex]";
   "ecdsa/resharing/round_4_new_step_2.go:Start:h1H2Map[h1JHex]"; "ecdsa/resharing/round_4_new_step_2.go:Start:h1H2Map[h2JHex]"]%string.
Definition string_list_eqb (a b : list string) : bool :=
  Nat.eqb (List.length a) (List.length b) && forallb (fun p => String.eqb (fst p) (snd p)) (combine a b).
