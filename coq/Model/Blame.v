(* The shape of an error report site in a protocol round (from the translator's inventory). *)
From Coq Require Import List String Bool.
Import ListNotations.

Inductive culprit_kind := CNone | CSelf | CLoopPeer | CMsgFrom | CList | COther.

Record blame_site := mkSite {
  bs_where : string;
  bs_in_peer_loop : bool;     (* inside a loop over the peers / their stored messages *)
  bs_kind : culprit_kind;
  bs_in_closure : bool        (* inside a function literal (goroutine / callback) *)
}.

(* A site is well-formed when its culprit can only be the peer being examined, the party itself, nobody,
   or a list accumulated per peer; outside a per-peer loop only self / nobody / an accumulated list. *)
Definition site_ok (s : blame_site) : bool :=
  match bs_kind s with
  | COther => false
  | CLoopPeer | CMsgFrom => bs_in_peer_loop s
  | CNone | CSelf | CList => true
  end.

Definition sites_ok (l : list blame_site) : bool := forallb site_ok l.
