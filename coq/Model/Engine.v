(* The round engine of tss/party.go (BaseStart / BaseUpdate / StoreMessage /
   Update / CanProceed / advance) generic in a protocol table.  The six tables
   are regenerated from the Go source by the translator (Gen/Tables.v). *)
From Coq Require Import ZArith List Lia Bool.
From TSS Require Import Base.Outcome.
Import ListNotations.

Inductive committee := Old | New.
Inductive rcond := RAlways | ROld | RNew | RNotOld | RNotNew | ROldAndNew.

(* message type: broadcast flag fixed by its constructor, sender committee, routing *)
Record msg_type := mkMsgType {
  mt_bcast : bool;          (* IsBroadcast set by the constructor *)
  mt_from : committee;      (* committee whose index space the store slot uses *)
  mt_single_to : bool;      (* To: []*PartyID{to} : exactly one recipient *)
  mt_to_old : bool;         (* IsToOldCommittee *)
  mt_to_both : bool         (* IsToOldAndNewCommittees *)
}.

Record accept := mkAccept { ac_type : nat; ac_bcast : bool; ac_cond : rcond }.

(* one scan loop of Update: for j over a store; required stores with role conditions *)
Record scan := mkScan { sc_vec : committee; sc_stores : list (nat * rcond); sc_early : bool }.
Inductive uclause :=
| USkip (c : rcond)              (* if c { return true, nil } *)
| UScan (c : rcond) (s : scan)   (* if c { scan } ; c = RAlways for an unguarded loop *)
| UError (c : rcond).            (* else { return false, error } *)

Inductive emode := EBroadcast | EP2P (to : committee) (skip_self : bool).
Record emission := mkEmit { em_type : nat; em_mode : emode; em_self_store : bool }.

Record start_spec := mkStart {
  st_all_old_pre : bool; st_all_new_pre : bool;   (* allOldOK()/allNewOK() before the role guard *)
  st_guard : rcond;                               (* the round acts only if this holds; otherwise Start returns nil here *)
  st_all_old_post : bool; st_all_new_post : bool; (* after the guard *)
  st_self_ok : option committee;                  (* round.ok[i] = true *)
  st_emits : list emission;
  st_end : bool                                   (* round.end <- ... *)
}.

Record round_spec := mkRound { r_accepts : list accept; r_update : list uclause; r_start : start_spec }.
Record table := mkTable { t_types : list msg_type; t_rounds : list round_spec }.

(* ---------------- party state ---------------- *)
Record pstate := mkP {
  ps_old : bool; ps_new : bool;       (* committee membership *)
  ps_idx : nat;                       (* own index in own committee *)
  ps_nold : nat; ps_nnew : nat;
  ps_round : nat;                     (* 0 = not started; k>=1 = round k; > number of rounds = finished (rnd = nil) *)
  ps_okold : list bool; ps_oknew : list bool;
  ps_store : list (list (option bool))   (* per message type, per sender index: the IsBroadcast flag of the stored message *)
}.

Inductive event :=
| EvEmit (ty : nat) (mode : emode)
| EvEnd.

Definition holds (c : rcond) (s : pstate) : bool :=
  match c with
  | RAlways => true
  | ROld => ps_old s
  | RNew => ps_new s
  | RNotOld => negb (ps_old s)
  | RNotNew => negb (ps_new s)
  | ROldAndNew => ps_old s && ps_new s
  end.

Definition csize (s : pstate) (c : committee) : nat := match c with Old => ps_nold s | New => ps_nnew s end.

Fixpoint set_nth {A} (l : list A) (i : nat) (v : A) : list A :=
  match l, i with
  | [], _ => []
  | _ :: t, O => v :: t
  | h :: t, S k => h :: set_nth t k v
  end.

Definition init_state (tbl : table) (isold isnew : bool) (idx nold nnew : nat) : pstate :=
  mkP isold isnew idx nold nnew 0 (repeat false nold) (repeat false nnew)
      (map (fun mt => repeat None (match mt_from mt with Old => nold | New => nnew end)) (t_types tbl)).

Definition store_get (s : pstate) (ty j : nat) : option bool := nth j (nth ty (ps_store s) []) None.
Definition store_put (s : pstate) (ty j : nat) (flag : bool) : pstate :=
  mkP (ps_old s) (ps_new s) (ps_idx s) (ps_nold s) (ps_nnew s) (ps_round s) (ps_okold s) (ps_oknew s)
      (set_nth (ps_store s) ty (set_nth (nth ty (ps_store s) []) j (Some flag))).

Definition okvec (s : pstate) (c : committee) : list bool := match c with Old => ps_okold s | New => ps_oknew s end.
Definition with_ok (s : pstate) (c : committee) (v : list bool) : pstate :=
  match c with
  | Old => mkP (ps_old s) (ps_new s) (ps_idx s) (ps_nold s) (ps_nnew s) (ps_round s) v (ps_oknew s) (ps_store s)
  | New => mkP (ps_old s) (ps_new s) (ps_idx s) (ps_nold s) (ps_nnew s) (ps_round s) (ps_okold s) v (ps_store s)
  end.
Definition with_round (s : pstate) (r : nat) : pstate :=
  mkP (ps_old s) (ps_new s) (ps_idx s) (ps_nold s) (ps_nnew s) r (ps_okold s) (ps_oknew s) (ps_store s).

Definition cur_round (tbl : table) (s : pstate) : option round_spec :=
  match ps_round s with O => None | S k => nth_error (t_rounds tbl) k end.

(* CanAccept of round r for a stored message of type ty carrying flag *)
Definition can_accept (r : round_spec) (s : pstate) (ty : nat) (flag : bool) : bool :=
  existsb (fun a => Nat.eqb (ac_type a) ty && Bool.eqb (ac_bcast a) flag && holds (ac_cond a) s) (r_accepts r).

(* does peer j have everything this scan requires? *)
Definition scan_ok (r : round_spec) (s : pstate) (sc : scan) (j : nat) : bool :=
  forallb (fun sr => if holds (snd sr) s then
                       match store_get s (fst sr) j with
                       | Some f => can_accept r s (fst sr) f
                       | None => false
                       end
                     else true) (sc_stores sc).

(* one scan loop, left to right; early = stop at the first peer that is not ready *)
Fixpoint scan_loop (r : round_spec) (s : pstate) (sc : scan) (js : list nat) (ok : list bool) : list bool :=
  match js with
  | [] => ok
  | j :: rest =>
      if nth j ok false then scan_loop r s sc rest ok
      else if scan_ok r s sc j then scan_loop r s sc rest (set_nth ok j true)
      else if sc_early sc then ok
      else scan_loop r s sc rest ok
  end.

Definition run_scan (r : round_spec) (s : pstate) (sc : scan) : pstate :=
  let v := okvec s (sc_vec sc) in
  with_ok s (sc_vec sc) (scan_loop r s sc (seq 0 (length v)) v).

(* Update(): the first clause whose condition holds is executed *)
Fixpoint run_update (r : round_spec) (s : pstate) (cl : list uclause) : pstate :=
  match cl with
  | [] => s
  | USkip c :: rest => if holds c s then s else run_update r s rest
  | UError c :: rest => if holds c s then s else run_update r s rest
  | UScan c sc :: rest => if holds c s then run_scan r s sc else run_update r s rest
  end.

Definition can_proceed (s : pstate) : bool :=
  forallb (fun b => b) (ps_okold s) && forallb (fun b => b) (ps_oknew s).

(* Start() of a round: ok bookkeeping, emissions, self-stores *)
Definition all_true (l : list bool) : list bool := map (fun _ => true) l.
Definition all_false (l : list bool) : list bool := map (fun _ => false) l.

Definition apply_emit (s : pstate) (e : emission) : pstate :=
  if em_self_store e then
    store_put s (em_type e) (ps_idx s) (match em_mode e with EBroadcast => true | EP2P _ _ => false end)
  else s.

Definition run_start (r : round_spec) (s0 : pstate) : pstate * list event :=
  let st := r_start r in
  let s1 := with_ok (with_ok s0 Old (all_false (ps_okold s0))) New (all_false (ps_oknew s0)) in
  let s2 := if st_all_old_pre st then with_ok s1 Old (all_true (ps_okold s1)) else s1 in
  let s3 := if st_all_new_pre st then with_ok s2 New (all_true (ps_oknew s2)) else s2 in
  if negb (holds (st_guard st) s3) then (s3, [])
  else
    let s4 := if st_all_old_post st then with_ok s3 Old (all_true (ps_okold s3)) else s3 in
    let s5 := if st_all_new_post st then with_ok s4 New (all_true (ps_oknew s4)) else s4 in
    let s6 := match st_self_ok st with
              | Some cm => with_ok s5 cm (set_nth (okvec s5 cm) (ps_idx s5) true)
              | None => s5
              end in
    let s7 := fold_left apply_emit (st_emits st) s6 in
    (s7, map (fun e => EvEmit (em_type e) (em_mode e)) (st_emits st) ++ (if st_end st then [EvEnd] else [])).

(* BaseStart (as repaired by the fix: commit): Start of round 1; when messages were
   stored before Start(), the same Update / CanProceed / advance / Start loop as
   BaseUpdate runs so that they are taken into account. Defined after [saturate]. *)
(* the loop of BaseUpdate after the message is stored: Update, CanProceed, advance, Start, again *)
Fixpoint saturate (fuel : nat) (tbl : table) (s : pstate) (acc : list event) : pstate * list event :=
  match fuel with
  | O => (s, acc)
  | S k =>
      match cur_round tbl s with
      | None => (s, acc)
      | Some r =>
          let s1 := run_update r s (r_update r) in
          if can_proceed s1 then
            let s2 := with_round s1 (S (ps_round s1)) in
            match cur_round tbl s2 with
            | None => (s2, acc)                              (* finished: rnd = nil *)
            | Some r2 => let '(s3, ev) := run_start r2 s2 in saturate k tbl s3 (acc ++ ev)
            end
          else (s1, acc)
      end
  end.

(* some message was stored before Start (the BaseParty flag set by BaseUpdate when no round is set) *)
Definition store_nonempty (s : pstate) : bool :=
  existsb (fun row => existsb (fun e => match e with Some _ => true | None => false end) row) (ps_store s).

Definition start (tbl : table) (s : pstate) : pstate * list event :=
  match ps_round s, t_rounds tbl with
  | O, r :: _ =>
      let early := store_nonempty s in
      let '(s1, ev) := run_start r (with_round s 1) in
      if early then saturate (S (length (t_rounds tbl))) tbl s1 ev else (s1, ev)
  | _, _ => (s, [])   (* already started: error, nothing happens *)
  end.

(* ValidateMessage + StoreMessage: sender index bound, known type *)
Definition validate (tbl : table) (s : pstate) (ty from : nat) : bool :=
  match nth_error (t_types tbl) ty with
  | Some mt => Nat.ltb from (csize s (mt_from mt))
  | None => false
  end.

(* BaseUpdate: deliver a message (type, sender index, IsBroadcast flag as handed over by the transport) *)
Definition deliver (tbl : table) (s : pstate) (ty from : nat) (flag : bool) : pstate * list event :=
  if validate tbl s ty from then
    saturate (S (length (t_rounds tbl))) tbl (store_put s ty from flag) []
  else (s, []).

(* WaitingFor: indices not yet ok, old committee first *)
Definition waiting (s : pstate) : list (committee * nat) :=
  map (fun j => (Old, j)) (filter (fun j => negb (nth j (ps_okold s) false)) (seq 0 (length (ps_okold s)))) ++
  map (fun j => (New, j)) (filter (fun j => negb (nth j (ps_oknew s) false)) (seq 0 (length (ps_oknew s)))).

Definition finished (tbl : table) (s : pstate) : bool := Nat.ltb (length (t_rounds tbl)) (ps_round s).
Definition running (s : pstate) : bool := negb (Nat.eqb (ps_round s) 0).
