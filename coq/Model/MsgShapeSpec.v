(* C06, static part: the wire validation gates as specified.  Gen/MsgShapes.v is regenerated from /repo/*/*/messages.go on
   every run and must equal expected_msg_shapes: ValidateBasic is the only thing between raw wire bytes and round code that
   indexes into decoded lists, so a dropped conjunct or a changed part count is a reachable crash (the round code reads
   values[0..3] of a de-commitment because ValidateBasic promised 5 parts). *)
From Coq Require Import List String Bool Arith.
Import ListNotations.
Open Scope string_scope.

Definition shape_eqb (a b : string * string * list string) : bool :=
  String.eqb (fst (fst a)) (fst (fst b)) && String.eqb (snd (fst a)) (snd (fst b)) &&
  (Nat.eqb (List.length (snd a)) (List.length (snd b)) && forallb (fun p => String.eqb (fst p) (snd p)) (combine (snd a) (snd b))).
Definition shapes_eqb (l1 l2 : list (string * string * list string)) : bool :=
  Nat.eqb (List.length l1) (List.length l2) && forallb (fun p => shape_eqb (fst p) (snd p)) (combine l1 l2).

(* the de-commitments whose opened values the rounds index directly: (package, type, conjunct that makes the indexing safe).
   signing round 5 reads bigGammaJ[0..1] (2 values + randomness = 3 parts), round 7 reads values[0..3] (5 parts), round 9 reads
   values[0..3] (5 parts), EdDSA signing round 3 reads coordinates [0..1] (3 parts) *)
Definition indexed_decommitments : list (string * string * string) :=
  [("ecdsa/signing", "SignRound4Message", "multi DeCommitment 3"); ("ecdsa/signing", "SignRound6Message", "multi DeCommitment 5");
   ("ecdsa/signing", "SignRound8Message", "multi DeCommitment 5"); ("eddsa/signing", "SignRound2Message", "multi DeCommitment 3")].
Definition has_conjunct (l : list (string * string * list string)) (x : string * string * string) : bool :=
  existsb (fun s => String.eqb (fst (fst s)) (fst (fst x)) && String.eqb (snd (fst s)) (snd (fst x)) &&
                    existsb (String.eqb (snd x)) (snd s)) l.
(* every proof carried as a list of parts is gated by its exact part count *)
Definition counted_proofs : list (string * string * string) :=
  [("ecdsa/keygen", "KGRound1Message", "multi Dlnproof_1 258"); ("ecdsa/keygen", "KGRound1Message", "multi Dlnproof_2 258");
   ("ecdsa/keygen", "KGRound3Message", "multi PaillierProof 13"); ("ecdsa/signing", "SignRound1Message1", "multi RangeProofAlice 6");
   ("ecdsa/signing", "SignRound2Message", "multi ProofBob 10"); ("ecdsa/signing", "SignRound2Message", "multi ProofBobWc 12");
   ("ecdsa/resharing", "DGRound2Message1", "multi Dlnproof_1 258"); ("ecdsa/resharing", "DGRound2Message1", "multi Dlnproof_2 258")].

Definition expected_msg_shapes : list (string * string * list string) := [
  ("ecdsa/keygen", "KGRound1Message", ["notnil"; "bytes Commitment"; "bytes PaillierN"; "bytes NTilde"; "bytes H1"; "bytes H2"; "multi Dlnproof_1 258"; "multi Dlnproof_2 258"]);
  ("ecdsa/keygen", "KGRound2Message1", ["notnil"; "bytes Share"]);
  ("ecdsa/keygen", "KGRound2Message2", ["notnil"; "multi DeCommitment any"]);
  ("ecdsa/keygen", "KGRound3Message", ["notnil"; "multi PaillierProof 13"]);
  ("ecdsa/signing", "SignRound1Message1", ["notnil"; "bytes C"; "multi RangeProofAlice 6"]);
  ("ecdsa/signing", "SignRound1Message2", ["other m Commitment nil"; "bytes Commitment"]);
  ("ecdsa/signing", "SignRound2Message", ["notnil"; "bytes C1"; "bytes C2"; "multi ProofBob 10"; "multi ProofBobWc 12"]);
  ("ecdsa/signing", "SignRound3Message", ["notnil"; "bytes Theta"]);
  ("ecdsa/signing", "SignRound4Message", ["notnil"; "multi DeCommitment 3"; "bytes ProofAlphaX"; "bytes ProofAlphaY"; "bytes ProofT"]);
  ("ecdsa/signing", "SignRound5Message", ["notnil"; "bytes Commitment"]);
  ("ecdsa/signing", "SignRound6Message", ["notnil"; "multi DeCommitment 5"; "bytes ProofAlphaX"; "bytes ProofAlphaY"; "bytes ProofT"; "bytes VProofAlphaX"; "bytes VProofAlphaY"; "bytes VProofT"; "bytes VProofU"]);
  ("ecdsa/signing", "SignRound7Message", ["notnil"; "bytes Commitment"]);
  ("ecdsa/signing", "SignRound8Message", ["notnil"; "multi DeCommitment 5"]);
  ("ecdsa/signing", "SignRound9Message", ["notnil"; "bytes S"]);
  ("ecdsa/resharing", "DGRound1Message", ["notnil"; "bytes EcdsaPubX"; "bytes EcdsaPubY"; "bytes VCommitment"]);
  ("ecdsa/resharing", "DGRound2Message1", ["notnil"; "bytes PaillierN"; "bytes NTilde"; "bytes H1"; "bytes H2"; "multi Dlnproof_1 258"; "multi Dlnproof_2 258"]);
  ("ecdsa/resharing", "DGRound2Message2", ["other true"]);
  ("ecdsa/resharing", "DGRound3Message1", ["notnil"; "bytes Share"]);
  ("ecdsa/resharing", "DGRound3Message2", ["notnil"; "multi VDecommitment any"]);
  ("ecdsa/resharing", "DGRound4Message2", ["other true"]);
  ("ecdsa/resharing", "DGRound4Message1", ["notnil"]);
  ("eddsa/keygen", "KGRound1Message", ["notnil"; "bytes Commitment"]);
  ("eddsa/keygen", "KGRound2Message1", ["notnil"; "bytes Share"]);
  ("eddsa/keygen", "KGRound2Message2", ["notnil"; "multi DeCommitment any"]);
  ("eddsa/signing", "SignRound1Message", ["other m Commitment nil"; "bytes Commitment"]);
  ("eddsa/signing", "SignRound2Message", ["notnil"; "multi DeCommitment 3"; "bytes ProofAlphaX"; "bytes ProofAlphaY"; "bytes ProofT"]);
  ("eddsa/signing", "SignRound3Message", ["notnil"; "bytes S"]);
  ("eddsa/resharing", "DGRound1Message", ["notnil"; "bytes EddsaPubX"; "bytes EddsaPubY"; "bytes VCommitment"]);
  ("eddsa/resharing", "DGRound2Message", ["other true"]);
  ("eddsa/resharing", "DGRound3Message1", ["notnil"; "bytes Share"]);
  ("eddsa/resharing", "DGRound3Message2", ["notnil"; "multi VDecommitment any"]);
  ("eddsa/resharing", "DGRound4Message", ["other true"])
].
