(* Abstract group interface used by the protocol algebra (Layer C) and by the
   generic models of the EC-based proofs.  Concrete curves (Model/Curve.v)
   provide instances; the laws are a separate record so that theorems state
   exactly which laws they rely on. *)
From Coq Require Import ZArith List Lia Znumtheory.
From TSS Require Import Base.Outcome Base.Bytes Base.ZMod.
Import ListNotations.
Open Scope Z_scope.

Record group : Type := mkGroup {
  gT : Type;
  gadd : gT -> gT -> gT;
  gneg : gT -> gT;
  gzero : gT;
  geqb : gT -> gT -> bool
}.

Section Ops.
  Variable G : group.
  Local Notation T := (gT G).

  Fixpoint gmul_pos (p : positive) (P : T) : T :=
    match p with
    | xH => P
    | xO p' => let R := gmul_pos p' P in gadd G R R
    | xI p' => let R := gmul_pos p' P in gadd G (gadd G R R) P
    end.

  Definition gmul (k : Z) (P : T) : T :=
    match k with
    | Z0 => gzero G
    | Zpos p => gmul_pos p P
    | Zneg p => gneg G (gmul_pos p P)
    end.

  Definition gsum (l : list T) : T := fold_right (gadd G) (gzero G) l.

  (* sum_c  k^c * Vs[c]  : evaluation of a committed polynomial "in the exponent" *)
  Fixpoint geval (Vs : list T) (k : Z) : T :=
    match Vs with
    | [] => gzero G
    | V :: t => gadd G V (gmul k (geval t k))
    end.
End Ops.

Arguments gmul_pos {G} p P.
Arguments gmul {G} k P.
Arguments gsum {G} l.
Arguments geval {G} Vs k.

(* The laws: an abelian group in which the base point B has prime order q. *)
Record group_laws (G : group) (q : Z) (B : gT G) : Prop := mkLaws {
  gl_assoc : forall a b c, gadd G a (gadd G b c) = gadd G (gadd G a b) c;
  gl_comm : forall a b, gadd G a b = gadd G b a;
  gl_zero_l : forall a, gadd G (gzero G) a = a;
  gl_neg_r : forall a, gadd G a (gneg G a) = gzero G;
  gl_eqb : forall a b, geqb G a b = true <-> a = b;
  gl_prime : prime q;
  gl_order : gmul q B = gzero G;
  gl_B_nz : B <> gzero G
}.

Definition in_sub {G : group} (B P : gT G) : Prop := exists k, P = gmul k B.
