(* crypto/paillier/paillier.go: encryption, homomorphic operations, decryption,
   key post-processing, and the key-correctness proof (GenerateXs / Proof / Verify). *)
From Coq Require Import ZArith List Lia Bool.
From TSS Require Import Base.Outcome Base.Bytes Base.ZMod Base.GoInt Model.Framing.
Import ListNotations.
Open Scope Z_scope.

Record pai_sk := mkSK { skN : Z; skLambda : Z; skPhi : Z; skP : Z; skQ : Z }.

Definition nsquare (N : Z) : Z := N * N.
Definition gamma (N : Z) : Z := N + 1.
Definition pk_as_ints (N : Z) : list Z := [N; gamma N].

(* IsNumberInMultiplicativeGroup(n, v) *)
Definition in_mult_group (n v : Z) : bool :=
  (0 <? n) && (v <? n) && (1 <=? v) && (Z.gcd v n =? 1).

(* EncryptAndReturnRandomness with the drawn unit x made explicit *)
Definition encrypt (N m x : Z) : Outcome Z :=
  if (m <? 0) || negb (m <? N) then Err
  else let N2 := nsquare N in
       Ok ((powmod (gamma N) m N2 * powmod x N N2) mod N2).

Definition homo_mult (N m c1 : Z) : Outcome Z :=
  if (m <? 0) || negb (m <? N) then Err
  else let N2 := nsquare N in
       if (c1 <? 0) || negb (c1 <? N2) then Err
       else Ok (powmod c1 m N2).

Definition homo_add (N c1 c2 : Z) : Outcome Z :=
  let N2 := nsquare N in
  if (c1 <? 0) || negb (c1 <? N2) then Err
  else if (c2 <? 0) || negb (c2 <? N2) then Err
  else Ok ((c1 * c2) mod N2).

Definition Lfun (u N : Z) : Z := (u - 1) / N.

(* Decrypt: Panic stands for the nil dereference when L(gamma^lambda) has no inverse mod N
   (impossible for well-formed keys; proved in PaillierProofs). *)
Definition decrypt (sk : pai_sk) (c : Z) : Outcome Z :=
  let N := skN sk in
  let N2 := nsquare N in
  if (c <? 0) || negb (c <? N2) then Err
  else if 1 <? Z.gcd c N2 then Err
  else
    let Lc := Lfun (powmod c (skLambda sk) N2) N in
    let Lg := Lfun (powmod (gamma N) (skLambda sk) N2) N in
    match modinv Lg N with
    | Some inv => Ok ((Lc * inv) mod N)
    | None => Panic
    end.

(* GenerateKeyPair post-processing from two safe primes *)
Definition key_of_primes (P Q : Z) : pai_sk :=
  let phi := (P - 1) * (Q - 1) in
  mkSK (P * Q) (phi / Z.gcd (P - 1) (Q - 1)) phi P Q.
Definition primes_far_apart (bits : Z) (P Q : Z) : bool :=
  (bits / 2 - 3) <=? Z.log2 (Z.abs (P - Q)) + 1.   (* BitLen(|P-Q|) >= bits/2 - 3 ; BitLen 0 = 0 *)

(* ---- the key-correctness proof ---- *)
Section Proof.
  Variable H : list Z -> list Z.
  Definition ProofIters : nat := 13.

  (* strconv.Itoa for the small naturals used as hash inputs *)
  Fixpoint itoa_fuel (fuel : nat) (n : Z) (acc : list Z) : list Z :=
    match fuel with
    | O => acc
    | S k => let acc' := (48 + n mod 10) :: acc in
             if n / 10 =? 0 then acc' else itoa_fuel k (n / 10) acc'
    end.
  Definition itoa (n : Z) : list Z := itoa_fuel 20 n [].

  Definition xs_block (i n j : Z) (kb sxb syb nb : list Z) : list Z :=
    H (frame [itoa i; itoa j; itoa n; kb; sxb; syb; nb]).

  Definition xs_candidate (blocks : nat) (i n : Z) (kb sxb syb nb : list Z) : Z :=
    be_value (concat (map (fun j => xs_block i n (Z.of_nat j) kb sxb syb nb) (seq 0 blocks))).

  (* GenerateXs: the rejection loop with explicit fuel (Diverge when exhausted) *)
  Fixpoint gen_xs_loop (fuel : nat) (m : nat) (blocks : nat) (i n : Z) (N : Z) (kb sxb syb nb : list Z)
    : Outcome (list Z) :=
    match m with
    | O => Ok []
    | S m' =>
        match fuel with
        | O => Diverge
        | S k =>
            let x := xs_candidate blocks i n kb sxb syb nb in
            if in_mult_group N x then
              r <- gen_xs_loop k m' blocks (i + 1) n N kb sxb syb nb ;; Ok (x :: r)
            else gen_xs_loop k m blocks i (n + 1) N kb sxb syb nb
        end
    end.
  Definition bitlen (v : Z) : Z := if v =? 0 then 0 else Z.log2 (Z.abs v) + 1.
  Definition generate_xs (fuel : nat) (m : nat) (k N sx sy : Z) : Outcome (list Z) :=
    let blocks := Z.to_nat ((bitlen N + 255) / 256) in
    gen_xs_loop fuel m blocks 0 0 N (bytes_of_Z k) (bytes_of_Z sx) (bytes_of_Z sy) (bytes_of_Z N).

  Definition pai_prove (fuel : nat) (sk : pai_sk) (k sx sy : Z) : Outcome (list Z) :=
    xs <- generate_xs fuel ProofIters k (skN sk) sx sy ;;
    match modinv (skN sk) (skPhi sk) with
    | None => Panic
    | Some M => Ok (map (fun x => powmod x M (skN sk)) xs)
    end.

  (* primes below 1000 *)
  Definition small_primes : list Z :=
    [2;3;5;7;11;13;17;19;23;29;31;37;41;43;47;53;59;61;67;71;73;79;83;89;97;101;103;107;109;113;127;131;137;139;149;151;157;163;167;173;179;181;191;193;197;199;211;223;227;229;233;239;241;251;257;263;269;271;277;281;283;293;307;311;313;317;331;337;347;349;353;359;367;373;379;383;389;397;401;409;419;421;431;433;439;443;449;457;461;463;467;479;487;491;499;503;509;521;523;541;547;557;563;569;571;577;587;593;599;601;607;613;617;619;631;641;643;647;653;659;661;673;677;683;691;701;709;719;727;733;739;743;751;757;761;769;773;787;797;809;811;821;823;827;829;839;853;857;859;863;877;881;883;887;907;911;919;929;937;941;947;953;967;971;977;983;991;997].

  (* Proof.Verify (with the termination guard added by the fix: commit) *)
  Definition pai_verify (fuel : nat) (N k sx sy : Z) (pf : list Z) : Outcome bool :=
    if negb (0 <? N) || (16 <? 256 * ((bitlen N + 255) / 256) - bitlen N) then Ok false
    else if existsb (fun p => N mod p =? 0) small_primes then Ok false
    else
      xs <- generate_xs fuel ProofIters k N sx sy ;;
      Ok (forallb (fun xy => (fst xy) mod N =? powmod (snd xy) N N) (combine xs pf)).
End Proof.
