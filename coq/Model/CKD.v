(* crypto/ckd/child_key_derivation.go: BIP32 public child key derivation, with HMAC-SHA512,
   hash160, double SHA-256 and base58 as oracles (section variables). *)
From Coq Require Import ZArith List Lia Bool.
From TSS Require Import Base.Outcome Base.Bytes Base.ZMod Model.Group Model.Curve.
Import ListNotations.
Open Scope Z_scope.

Record xkey := mkX { xk_x : Z; xk_y : Z; xk_depth : Z; xk_index : Z; xk_cc : list Z; xk_fp : list Z; xk_ver : list Z }.

Definition HardenedKeyStart : Z := 2147483648.
Definition maxDepth : Z := 255.

(* serializeCompressed: 0x02 / 0x03 then X left-padded to 32 bytes (unchanged when longer) *)
Definition ser_compressed (x y : Z) : list Z :=
  (if Z.odd y then 3 else 2) :: pad_left 32 (bytes_of_Z x).
Definition ser32 (i : Z) : list Z := rev (le_bytes 4 i).

Section CKD.
  Variable HMAC512 : list Z -> list Z -> list Z.   (* key, data -> 64 bytes *)
  Variable H160 : list Z -> list Z.                 (* RIPEMD160(SHA256(.)) *)
  Variable DSHA : list Z -> list Z.                 (* SHA256(SHA256(.)) *)
  Variable B58 : list Z -> list Z.                  (* base58 encoding (as ASCII bytes) *)
  Variable c : curve.

  Definition derive_child (idx : Z) (k : xkey) : Outcome (Z * xkey) :=
    if HardenedKeyStart <=? idx then Err
    else if xk_depth k =? maxDepth then Err
    else match new_ec_point c (xk_x k) (xk_y k) with
         | None => Err
         | Some P =>
             let ser := ser_compressed (xk_x k) (xk_y k) in
             let I := HMAC512 (xk_cc k) (ser ++ ser32 idx) in
             let il := be_value (firstn 32 I) in
             if (cq c <=? il) || (il =? 0) then Err
             else
               dG <- ec_base_mul c il ;;
               match dG with
               | Some (dx, dy) =>
                   if (dx =? 0) || (dy =? 0) then Err
                   else match ec_add c P dG with
                        | Ok (Some (cx, cy)) =>
                            Ok (il, mkX cx cy (xk_depth k + 1) idx (skipn 32 I) (firstn 4 (H160 ser)) (xk_ver k))
                        | Ok None => Err
                        | Err => Err
                        | Panic => Panic
                        | Diverge => Diverge
                        end
               | None => Panic
               end
         end.

  (* DeriveChildKeyFromHierarchy: offsets accumulate modulo m *)
  Fixpoint derive_path (path : list Z) (k : xkey) (m acc : Z) : Outcome (Z * xkey) :=
    match path with
    | [] => Ok (acc, k)
    | i :: rest =>
        r <- derive_child i k ;;
        derive_path rest (snd r) m ((fst r + acc) mod m)
    end.
  Definition derive_hierarchy (path : list Z) (k : xkey) (m : Z) : Outcome (Z * xkey) := derive_path path k m 0.

  (* ExtendedKey.String(): version(4) depth(1) parentFP(4) index(4) chaincode(32) key(33) checksum(4), base58 *)
  Definition xkey_payload (k : xkey) : list Z :=
    xk_ver k ++ [xk_depth k mod 256] ++ xk_fp k ++ ser32 (xk_index k) ++ xk_cc k ++ ser_compressed (xk_x k) (xk_y k).
  Definition xkey_string (k : xkey) : list Z :=
    let p := xkey_payload k in B58 (p ++ firstn 4 (DSHA p)).
End CKD.
