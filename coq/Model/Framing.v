(* common/hash.go: the framing applied before SHA-512/256.
   The hash itself is a section variable (oracle). *)
From Coq Require Import ZArith List Lia.
From TSS Require Import Base.Outcome Base.Bytes.
Import ListNotations.
Open Scope Z_scope.

Definition delimiter : Z := 36. (* '$' *)

(* one element: bytes ++ '$' ++ le64(len) *)
Definition frame_elem (b : list Z) : list Z := b ++ delimiter :: le64 (zlength b).
Definition frame_body (xs : list (list Z)) : list Z := concat (map frame_elem xs).
Definition frame (xs : list (list Z)) : list Z := le64 (zlength xs) ++ frame_body xs.
Definition frame_ints (xs : list Z) : list Z := frame (map bytes_of_Z xs).

Section Hash.
  Variable H : list Z -> list Z.   (* SHA-512/256 : bytes -> 32 bytes *)

  (* SHA512_256(in ...[]byte): nil when no input *)
  Definition sha512_256 (xs : list (list Z)) : option (list Z) :=
    match xs with [] => None | _ => Some (H (frame xs)) end.

  (* SHA512_256i(in ...*big.Int) *)
  Definition sha512_256i (xs : list Z) : option Z :=
    match xs with [] => None | _ => Some (be_value (H (frame_ints xs))) end.

  (* SHA512_256i_TAGGED(tag, in...) : H(tag)||H(tag)||frame *)
  Definition tagged_preimage (tag : list Z) (xs : list Z) : list Z :=
    let t := H (frame [tag]) in t ++ t ++ frame_ints xs.
  Definition sha512_256i_tagged (tag : list Z) (xs : list Z) : option Z :=
    match xs with [] => None | _ => Some (be_value (H (tagged_preimage tag xs))) end.

  (* SHA512_256iOne *)
  Definition sha512_256i_one (x : Z) : Z := be_value (H (bytes_of_Z x)).

  (* commitments *)
  Definition commit_with (r : Z) (secrets : list Z) : Z * list Z :=
    let parts := r :: secrets in
    (match sha512_256i parts with Some c => c | None => 0 end, parts).
  Definition commit_verify (c : Z) (d : list Z) : bool :=
    match sha512_256i d with
    | Some h => h =? c
    | None => false   (* Go: nil hash -> hash.Cmp panics; see commit_verify_o *)
    end.
  (* Verify on an empty D dereferences a nil *big.Int *)
  Definition commit_verify_o (c : Z) (d : list Z) : Outcome bool :=
    match sha512_256i d with
    | Some h => Ok (h =? c)
    | None => Panic
    end.
  Definition decommit (c : Z) (d : list Z) : Outcome (option (list Z)) :=
    v <- commit_verify_o c d ;;
    Ok (if v then Some (tl d) else None).
End Hash.
