(* Global network model of one protocol run: all parties of the (old and new) committees,
   each running the round engine of Model/Engine.v, connected by an honest asynchronous
   network: messages may be reordered, delayed and duplicated, but are never invented or
   altered.  Definitions only. *)
From Coq Require Import List Bool Arith.
From TSS Require Import Base.Outcome Model.Engine.
Import ListNotations.

(* a node: committee tag and index in that committee *)
Definition node := (committee * nat)%type.

Definition cm_eqb (a b : committee) : bool :=
  match a, b with Old, Old => true | New, New => true | _, _ => false end.
Definition node_eqb (a b : node) : bool := cm_eqb (fst a) (fst b) && Nat.eqb (snd a) (snd b).

Record netcfg := mkCfg { nc_nold : nat; nc_nnew : nat }.

Definition nc_size (cfg : netcfg) (c : committee) : nat :=
  match c with Old => nc_nold cfg | New => nc_nnew cfg end.
Definition valid_node (cfg : netcfg) (n : node) : bool := Nat.ltb (snd n) (nc_size cfg (fst n)).
Definition nodes_of (cfg : netcfg) (c : committee) : list node := map (fun j => (c, j)) (seq 0 (nc_size cfg c)).
Definition all_nodes (cfg : netcfg) : list node := nodes_of cfg Old ++ nodes_of cfg New.

(* global state: per committee, per index: the party state and the events emitted so far *)
Record gstate := mkG { g_old : list (pstate * list event); g_new : list (pstate * list event) }.

Definition node_init (tbl : table) (cfg : netcfg) (n : node) : pstate :=
  init_state tbl (cm_eqb (fst n) Old) (cm_eqb (fst n) New) (snd n) (nc_nold cfg) (nc_nnew cfg).

Definition ginit (tbl : table) (cfg : netcfg) : gstate :=
  mkG (map (fun n => (node_init tbl cfg n, [])) (nodes_of cfg Old))
      (map (fun n => (node_init tbl cfg n, [])) (nodes_of cfg New)).

Definition g_dummy : pstate * list event := (mkP false false 0 0 0 0 [] [] [], []).

Definition gvec (g : gstate) (c : committee) : list (pstate * list event) :=
  match c with Old => g_old g | New => g_new g end.
Definition gget (g : gstate) (n : node) : pstate * list event := nth (snd n) (gvec g (fst n)) g_dummy.
Definition g_state (g : gstate) (n : node) : pstate := fst (gget g n).
Definition g_events (g : gstate) (n : node) : list event := snd (gget g n).
Definition gset (g : gstate) (n : node) (v : pstate * list event) : gstate :=
  match fst n with
  | Old => mkG (set_nth (g_old g) (snd n) v) (g_new g)
  | New => mkG (g_old g) (set_nth (g_new g) (snd n) v)
  end.

(* ---------------- recipients of an emission ---------------- *)

(* destination committees of a broadcast of a message of type [mt] *)
Definition bcast_dest (cfg : netcfg) (mt : msg_type) : list committee :=
  if Nat.eqb (nc_nold cfg) 0 then [New]              (* single-committee protocols *)
  else if mt_to_both mt then [Old; New]
  else if mt_to_old mt then [Old]
  else [New].

Definition recipients (tbl : table) (cfg : netcfg) (sender : node) (ty : nat) (mode : emode) : list node :=
  match mode with
  | EP2P to skip =>
      map (fun j => (to, j))
          (filter (fun j => negb (skip && Nat.eqb j (snd sender))) (seq 0 (nc_size cfg to)))
  | EBroadcast =>
      match nth_error (t_types tbl) ty with
      | Some mt => filter (fun n => negb (node_eqb n sender)) (flat_map (nodes_of cfg) (bcast_dest cfg mt))
      | None => []
      end
  end.

(* ---------------- steps ---------------- *)

Inductive nstep :=
| NStart (n : node)
| NDeliver (n : node) (ty from : nat) (flag : bool).

(* has [sender] emitted a message of type [ty] one of whose recipients is [n]? *)
Definition emitted_to (tbl : table) (cfg : netcfg) (g : gstate) (sender : node) (ty : nat) (n : node) : bool :=
  existsb (fun ev => match ev with
                     | EvEmit ty' mode => Nat.eqb ty' ty && existsb (node_eqb n) (recipients tbl cfg sender ty mode)
                     | EvEnd => false
                     end) (g_events g sender).

Definition enabled (tbl : table) (cfg : netcfg) (g : gstate) (st : nstep) : bool :=
  match st with
  | NStart n => valid_node cfg n
  | NDeliver n ty from flag =>
      valid_node cfg n &&
      match nth_error (t_types tbl) ty with
      | Some mt =>
          Bool.eqb flag (mt_bcast mt) && valid_node cfg (mt_from mt, from) &&
          emitted_to tbl cfg g (mt_from mt, from) ty n
      | None => false
      end
  end.

Definition apply_step (tbl : table) (g : gstate) (st : nstep) : gstate :=
  match st with
  | NStart n =>
      let r := start tbl (g_state g n) in gset g n (fst r, g_events g n ++ snd r)
  | NDeliver n ty from flag =>
      let r := deliver tbl (g_state g n) ty from flag in gset g n (fst r, g_events g n ++ snd r)
  end.

Inductive reachable (tbl : table) (cfg : netcfg) : gstate -> Prop :=
| R_init : reachable tbl cfg (ginit tbl cfg)
| R_step : forall g st, reachable tbl cfg g -> enabled tbl cfg g st = true ->
           reachable tbl cfg (apply_step tbl g st).

(* executable schedules: [None] when some step is not enabled *)
Fixpoint run (tbl : table) (cfg : netcfg) (g : gstate) (sched : list nstep) : option gstate :=
  match sched with
  | [] => Some g
  | st :: rest => if enabled tbl cfg g st then run tbl cfg (apply_step tbl g st) rest else None
  end.

(* ---------------- a fair scheduler, for examples ---------------- *)

(* every delivery the network could perform now that would put a new message into a store *)
Definition pending (tbl : table) (cfg : netcfg) (g : gstate) : list nstep :=
  flat_map (fun sender =>
    flat_map (fun ev => match ev with
      | EvEmit ty mode =>
          match nth_error (t_types tbl) ty with
          | Some mt =>
              if cm_eqb (mt_from mt) (fst sender) then
                flat_map (fun n => match store_get (g_state g n) ty (snd sender) with
                                   | None => [NDeliver n ty (snd sender) (mt_bcast mt)]
                                   | Some _ => []
                                   end) (recipients tbl cfg sender ty mode)
              else []
          | None => []
          end
      | EvEnd => []
      end) (g_events g sender)) (all_nodes cfg).

(* deliver the first pending message, [fuel] times *)
Fixpoint drain (fuel : nat) (tbl : table) (cfg : netcfg) (g : gstate) : gstate :=
  match fuel with
  | O => g
  | S k => match pending tbl cfg g with
           | [] => g
           | st :: _ => if enabled tbl cfg g st then drain k tbl cfg (apply_step tbl g st) else g
           end
  end.

(* ---------------- observations ---------------- *)

(* every emission has reached every recipient *)
Definition quiescent (tbl : table) (cfg : netcfg) (g : gstate) : Prop :=
  forall sender ty mode n, valid_node cfg sender = true ->
    In (EvEmit ty mode) (g_events g sender) -> In n (recipients tbl cfg sender ty mode) ->
    store_get (g_state g n) ty (snd sender) <> None.

Definition quiescentb (tbl : table) (cfg : netcfg) (g : gstate) : bool :=
  match pending tbl cfg g with [] => true | _ => false end.

Definition all_started (cfg : netcfg) (g : gstate) : Prop :=
  forall n, valid_node cfg n = true -> ps_round (g_state g n) <> 0.
Definition all_finished (tbl : table) (cfg : netcfg) (g : gstate) : Prop :=
  forall n, valid_node cfg n = true -> finished tbl (g_state g n) = true.
Definition all_finishedb (tbl : table) (cfg : netcfg) (g : gstate) : bool :=
  forallb (fun n => finished tbl (g_state g n)) (all_nodes cfg).
Definition rounds_of (cfg : netcfg) (g : gstate) : list nat := map (fun n => ps_round (g_state g n)) (all_nodes cfg).
Definition has_end (l : list event) : bool := existsb (fun e => match e with EvEnd => true | _ => false end) l.
