(* Concrete elliptic curves (short Weierstrass and twisted Edwards with a = -1)
   over Z, and the semantics of the crypto.ECPoint wrapper (crypto/ecpoint.go). *)
From Coq Require Import ZArith List Lia Bool.
From TSS Require Import Base.Outcome Base.Bytes Base.ZMod Model.Group.
Import ListNotations.
Open Scope Z_scope.

Inductive ckind := Weier | Edw.

Record curve : Type := mkCurve {
  ck : ckind;
  cp : Z;      (* field prime *)
  ca : Z;      (* Weierstrass a ; unused for Edwards (a = -1) *)
  cb : Z;      (* Weierstrass b ; Edwards d *)
  cq : Z;      (* order of the base point *)
  cgx : Z; cgy : Z
}.

Definition pt : Type := option (Z * Z).   (* None: point at infinity (Weierstrass only) *)

Section Curve.
  Variable c : curve.
  Let p := cp c.
  Definition fdiv (n d : Z) : Z := (n * inv_prime (cp c) (d mod cp c)) mod cp c.

  Definition in_field (x : Z) : bool := (0 <=? x) && (x <? cp c).

  Definition curve_eq (x y : Z) : bool :=
    match ck c with
    | Weier => (y * y) mod cp c =? (x * x * x + ca c * x + cb c) mod cp c
    | Edw => (y * y - x * x) mod cp c =? (1 + cb c * (x * x mod cp c) * (y * y mod cp c)) mod cp c
    end.

  (* crypto.isOnCurve after the canonical-range repair *)
  Definition on_curve (x y : Z) : bool := in_field x && in_field y && curve_eq x y.

  Definition pt_zero : pt := match ck c with Weier => None | Edw => Some (0, 1) end.

  Definition pt_neg (P : pt) : pt :=
    match P with
    | None => None
    | Some (x, y) => match ck c with
                     | Weier => Some (x, (- y) mod cp c)
                     | Edw => Some ((- x) mod cp c, y)
                     end
    end.

  Definition w_add (x1 y1 x2 y2 : Z) : pt :=
    if (x1 =? x2) then
      if ((y1 + y2) mod cp c =? 0) then None
      else let l := fdiv (3 * x1 * x1 + ca c) (2 * y1) in
           let x3 := (l * l - x1 - x2) mod cp c in
           Some (x3, (l * (x1 - x3) - y1) mod cp c)
    else let l := fdiv (y2 - y1) (x2 - x1) in
         let x3 := (l * l - x1 - x2) mod cp c in
         Some (x3, (l * (x1 - x3) - y1) mod cp c).

  Definition e_add (x1 y1 x2 y2 : Z) : pt :=
    let t := (cb c * ((x1 * x2) mod cp c) * ((y1 * y2) mod cp c)) mod cp c in
    Some (fdiv (x1 * y2 + y1 * x2) (1 + t), fdiv (y1 * y2 + x1 * x2) (1 - t)).

  Definition pt_add (P Q : pt) : pt :=
    match P, Q with
    | None, _ => Q
    | _, None => P
    | Some (x1, y1), Some (x2, y2) =>
        match ck c with Weier => w_add x1 y1 x2 y2 | Edw => e_add x1 y1 x2 y2 end
    end.

  Definition pt_eqb (P Q : pt) : bool :=
    match P, Q with
    | None, None => true
    | Some (x1, y1), Some (x2, y2) => (x1 =? x2) && (y1 =? y2)
    | _, _ => false
    end.

  Definition curve_group : group := mkGroup pt pt_add pt_neg pt_zero pt_eqb.

  Definition base : pt := Some (cgx c, cgy c).

  Definition pt_on_curve (P : pt) : bool :=
    match P with
    | None => match ck c with Weier => true | Edw => false end
    | Some (x, y) => on_curve x y
    end.

  (* ---- the ECPoint wrapper: results must be representable affine points ---- *)
  Definition representable (P : pt) : bool :=
    match P with None => false | Some _ => true end.

  (* NewECPoint *)
  Definition new_ec_point (x y : Z) : option pt :=
    if on_curve x y then Some (Some (x, y)) else None.

  (* ECPoint.ScalarMult(k): the curve multiplies by the magnitude of k; an
     unrepresentable result (infinity on secp256k1) panics *)
  Definition ec_smul (P : pt) (k : Z) : Outcome pt :=
    let R := @gmul curve_group (Z.abs k) P in
    if representable R then Ok R else Panic.
  Definition ec_base_mul (k : Z) : Outcome pt := ec_smul base k.

  (* ECPoint.Add: error when the sum is not an affine point *)
  Definition ec_add (P Q : pt) : Outcome pt :=
    let R := pt_add P Q in if representable R then Ok R else Err.

  (* FlattenECPoints / UnFlattenECPoints *)
  Fixpoint flatten (ps : list pt) : list Z :=
    match ps with
    | [] => []
    | Some (x, y) :: t => x :: y :: flatten t
    | None :: t => flatten t
    end.
  Fixpoint unflatten_loop (l : list Z) : Outcome (list pt) :=
    match l with
    | [] => Ok []
    | x :: y :: t =>
        match new_ec_point x y with
        | Some P => r <- unflatten_loop t ;; Ok (P :: r)
        | None => Err
        end
    | [_] => Err
    end.
  Definition unflatten (l : list Z) : Outcome (list pt) :=
    if Nat.even (length l) then unflatten_loop l else Err.

  (* EightInvEight on the Edwards curve: (8^-1 mod L) * (8 * P) *)
  Definition eight_inv_eight (P : pt) : Outcome pt :=
    Q <- ec_smul P 8 ;; ec_smul Q (inv_prime (cq c) 8).
End Curve.

Definition secp256k1 : curve :=
  mkCurve Weier
    115792089237316195423570985008687907853269984665640564039457584007908834671663
    0 7
    115792089237316195423570985008687907852837564279074904382605163141518161494337
    55066263022277343669578718895168534326250603453777594175500187360389116729240
    32670510020758816978083085130507043184471273380659243275938904335757337482424.

(* NIST P-256: not in the library's registry; applications may register further curves (tss.RegisterCurve), and the
   protocol code takes the curve from its parameters, so the models are run on a third curve too *)
Definition p256 : curve :=
  mkCurve Weier
    115792089210356248762697446949407573530086143415290314195533631308867097853951
    115792089210356248762697446949407573530086143415290314195533631308867097853948
    41058363725152142129326129780047268409114441015993725554835256314039467401291
    115792089210356248762697446949407573529996955224135760342422259061068512044369
    48439561293906451759052585252797914202762949526041747995844080717082404635286
    36134250956749795798585127919587881956611106672985015071877198253568414405109.

Definition ed25519 : curve :=
  mkCurve Edw
    57896044618658097711785492504343953926634992332820282019728792003956564819949
    (-1)
    37095705934669439343138083508754565189542113879843219016388785533085940283555
    7237005577332262213973186563042994240857116359379907606001950938285454250989
    15112221349535400772501151409588531511454012693041857206046113283949847762202
    46316835694926478169428394003475163141307993866256225615783033603165251855960.
