(* C12, static part: the Fiat-Shamir transcripts as specified.  Gen/Transcripts.v is regenerated from /repo on every run
   and must be equal to expected_transcripts (Proofs/TranscriptProofs.v): a component dropped from, added to or reordered
   in any challenge hash of the proof packages changes the generated list.  The Coq verifier/prover models hash exactly
   these lists (Model/Schnorr.v, MtA.v, ZKMod.v, Paillier.v, Framing.v), which the correspondence run checks dynamically. *)
From Coq Require Import List String Ascii Bool.
Import ListNotations.
Open Scope string_scope.

Record transcript := mkTranscript { tr_file : string; tr_fn : string; tr_kind : string; tr_tag : string; tr_args : list string }.

Definition lower_ascii (c : ascii) : ascii :=
  let n := nat_of_ascii c in
  if (Nat.leb 65 n && Nat.leb n 90)%bool then ascii_of_nat (n + 32) else c.
Fixpoint lower (s : string) : string :=
  match s with
  | EmptyString => EmptyString
  | String c r => String (lower_ascii c) (lower r)
  end.

Definition transcript_eqb (a b : transcript) : bool :=
  String.eqb (tr_file a) (tr_file b) && String.eqb (tr_fn a) (tr_fn b) && String.eqb (tr_kind a) (tr_kind b) &&
  String.eqb (tr_tag a) (tr_tag b) &&
  (Nat.eqb (List.length (tr_args a)) (List.length (tr_args b)) && forallb (fun p => String.eqb (fst p) (snd p)) (combine (tr_args a) (tr_args b))).
Definition transcripts_eqb (l1 l2 : list transcript) : bool :=
  Nat.eqb (List.length l1) (List.length l2) && forallb (fun p => transcript_eqb (fst p) (snd p)) (combine l1 l2).

(* prover / verifier pairs: the k-th hash call of the prover function and of the verifier function hash the same components *)
Definition calls_of (l : list transcript) (fn : string) : list transcript := filter (fun t => String.eqb (tr_fn t) fn) l.
Definition same_components (a b : transcript) : bool :=
  String.eqb (tr_kind a) (tr_kind b) && String.eqb (tr_tag a) (tr_tag b) &&
  (Nat.eqb (List.length (tr_args a)) (List.length (tr_args b)) &&
   forallb (fun p => String.eqb (lower (fst p)) (lower (snd p))) (combine (tr_args a) (tr_args b))).
Definition pair_agrees (l : list transcript) (pv : string * string) : bool :=
  let ps := calls_of l (fst pv) in let vs := calls_of l (snd pv) in
  negb (Nat.eqb (List.length ps) 0) && Nat.eqb (List.length ps) (List.length vs) &&
  forallb (fun p => same_components (fst p) (snd p)) (combine ps vs).
Definition prover_verifier_pairs : list (string * string) :=
  [("NewZKProof", "ZKProof.Verify"); ("NewZKVProof", "ZKVProof.Verify"); ("NewDLNProof", "Proof.Verify");
   ("ProveBobWC", "ProofBobWC.Verify"); ("ProveRangeAlice", "RangeProofAlice.Verify")].
(* NewProof exists in two packages (facproof, modproof): paired by file *)
Definition pair_agrees_in (l : list transcript) (file : string) (pv : string * string) : bool :=
  pair_agrees (filter (fun t => String.eqb (tr_file t) file) l) pv.

(* every proof that takes a session hashes under the session tag *)
Definition session_bound_fns : list string :=
  ["NewZKProof"; "ZKProof.Verify"; "NewZKVProof"; "ZKVProof.Verify"; "ProveBobWC"; "ProofBobWC.Verify"; "NewProof"; "ProofFac.Verify"; "ProofMod.Verify"].
Definition session_tagged (l : list transcript) : bool :=
  forallb (fun t => if existsb (String.eqb (tr_fn t)) session_bound_fns
                    then String.eqb (tr_kind t) "SHA512_256i_TAGGED" && String.eqb (tr_tag t) "session" else true) l.

Definition expected_transcripts : list transcript := [
  mkTranscript "crypto/commitments/commitment.go" "NewHashCommitmentWithRandomness" "SHA512_256i" "" ["parts..."];
  mkTranscript "crypto/commitments/commitment.go" "HashCommitDecommit.Verify" "SHA512_256i" "" ["D..."];
  mkTranscript "crypto/dlnproof/proof.go" "NewDLNProof" "SHA512_256i" "" ["h1"; "h2"; "N"; "alpha[:]..."];
  mkTranscript "crypto/dlnproof/proof.go" "Proof.Verify" "SHA512_256i" "" ["h1"; "h2"; "N"; "alpha[:]..."];
  mkTranscript "crypto/facproof/proof.go" "NewProof" "SHA512_256i_TAGGED" "session" ["N0"; "nCap"; "s"; "t"; "P"; "Q"; "A"; "B"; "T"; "sigma"];
  mkTranscript "crypto/facproof/proof.go" "ProofFac.Verify" "SHA512_256i_TAGGED" "session" ["N0"; "nCap"; "s"; "t"; "P"; "Q"; "A"; "B"; "T"; "sigma"];
  mkTranscript "crypto/modproof/proof.go" "NewProof" "SHA512_256i_TAGGED" "session" ["W"; "N"; "Y[:i]..."];
  mkTranscript "crypto/modproof/proof.go" "ProofMod.Verify" "SHA512_256i_TAGGED" "session" ["W"; "N"; "Y[:i]..."];
  mkTranscript "crypto/mta/proofs.go" "ProveBobWC" "SHA512_256i_TAGGED" "session" ["pk.asInts"; "c1"; "c2"; "z"; "zPrm"; "t"; "v"; "w"];
  mkTranscript "crypto/mta/proofs.go" "ProveBobWC" "SHA512_256i_TAGGED" "session" ["pk.asInts"; "X.X"; "X.Y"; "c1"; "c2"; "u.X"; "u.Y"; "z"; "zPrm"; "t"; "v"; "w"];
  mkTranscript "crypto/mta/proofs.go" "ProofBobWC.Verify" "SHA512_256i_TAGGED" "session" ["pk.asInts"; "c1"; "c2"; "Z"; "zPrm"; "T"; "V"; "W"];
  mkTranscript "crypto/mta/proofs.go" "ProofBobWC.Verify" "SHA512_256i_TAGGED" "session" ["pk.asInts"; "X.X"; "X.Y"; "c1"; "c2"; "U.X"; "U.Y"; "Z"; "zPrm"; "T"; "V"; "W"];
  mkTranscript "crypto/mta/range_proof.go" "ProveRangeAlice" "SHA512_256i" "" ["pk.asInts"; "c"; "z"; "u"; "w"];
  mkTranscript "crypto/mta/range_proof.go" "RangeProofAlice.Verify" "SHA512_256i" "" ["pk.asInts"; "c"; "Z"; "U"; "W"];
  mkTranscript "crypto/paillier/paillier.go" "GenerateXs" "SHA512_256" "" ["ib"; "jBz"; "nb"; "kb"; "sXb"; "sYb"; "Nb"];
  mkTranscript "crypto/schnorr/schnorr_proof.go" "NewZKProof" "SHA512_256i_TAGGED" "session" ["X.X"; "X.Y"; "g.X"; "g.Y"; "alpha.X"; "alpha.Y"];
  mkTranscript "crypto/schnorr/schnorr_proof.go" "ZKProof.Verify" "SHA512_256i_TAGGED" "session" ["X.X"; "X.Y"; "g.X"; "g.Y"; "alpha.X"; "alpha.Y"];
  mkTranscript "crypto/schnorr/schnorr_proof.go" "NewZKVProof" "SHA512_256i_TAGGED" "session" ["V.X"; "V.Y"; "R.X"; "R.Y"; "g.X"; "g.Y"; "alpha.X"; "alpha.Y"];
  mkTranscript "crypto/schnorr/schnorr_proof.go" "ZKVProof.Verify" "SHA512_256i_TAGGED" "session" ["V.X"; "V.Y"; "R.X"; "R.Y"; "g.X"; "g.Y"; "alpha.X"; "alpha.Y"];
  (* the session strings (getSSID of each protocol package): the curve OF THE RUN, the committee, the public key material, the round number, the nonce *)
  mkTranscript "ecdsa/keygen/rounds.go" "base.getSSID" "SHA512_256i" "" ["round.EC.params.P"; "round.EC.params.N"; "round.EC.params.Gx"; "round.EC.params.Gy"; "round.parties.iDs.keys..."; "round.number"; "round.temp.ssidNonce"];
  mkTranscript "ecdsa/resharing/rounds.go" "base.getSSID" "SHA512_256i" "" ["round.EC.params.P"; "round.EC.params.N"; "round.EC.params.B"; "round.EC.params.Gx"; "round.EC.params.Gy"; "round.parties.iDs.keys..."; "bigXjList..."; "round.input.nTildej..."; "round.input.h1j..."; "round.input.h2j..."; "round.number"; "round.temp.ssidNonce"];
  mkTranscript "ecdsa/signing/rounds.go" "base.getSSID" "SHA512_256i" "" ["round.EC.params.P"; "round.EC.params.N"; "round.EC.params.B"; "round.EC.params.Gx"; "round.EC.params.Gy"; "round.parties.iDs.keys..."; "bigXjList..."; "round.key.nTildej..."; "round.key.h1j..."; "round.key.h2j..."; "round.number"; "round.temp.ssidNonce"];
  mkTranscript "eddsa/keygen/rounds.go" "base.getSSID" "SHA512_256i" "" ["round.EC.params.P"; "round.EC.params.N"; "round.EC.params.Gx"; "round.EC.params.Gy"; "round.parties.iDs.keys..."; "round.number"; "round.temp.ssidNonce"];
  mkTranscript "eddsa/signing/rounds.go" "base.getSSID" "SHA512_256i" "" ["round.EC.params.P"; "round.EC.params.N"; "round.EC.params.Gx"; "round.EC.params.Gy"; "round.parties.iDs.keys..."; "bigXjList..."; "round.number"; "round.temp.ssidNonce"]
].

(* every session string is made of the parameters of the curve the party was configured with (never the process-wide default),
   the whole committee, the round number and the nonce *)
Definition mem_str (x : string) (l : list string) : bool := existsb (String.eqb x) l.
Definition ssid_binds_run_context (t : transcript) : bool :=
  mem_str "round.EC.params.P" (tr_args t) && mem_str "round.EC.params.N" (tr_args t) &&
  mem_str "round.EC.params.Gx" (tr_args t) && mem_str "round.EC.params.Gy" (tr_args t) &&
  mem_str "round.parties.iDs.keys..." (tr_args t) && mem_str "round.number" (tr_args t) && mem_str "round.temp.ssidNonce" (tr_args t).
Definition session_strings (l : list transcript) : list transcript := calls_of l "base.getSSID".
Definition session_strings_bind (l : list transcript) : bool :=
  Nat.eqb (List.length (session_strings l)) 5 && forallb ssid_binds_run_context (session_strings l).
