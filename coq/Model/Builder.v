(* crypto/commitments/commitment_builder.go: Secrets / ParseSecrets *)
From Coq Require Import ZArith List Lia.
From TSS Require Import Base.Outcome Base.Bytes.
Import ListNotations.
Open Scope Z_scope.

Definition PartsCap : Z := 3.
Definition MaxPartSize : Z := 1048576.

(* big.Int.Int64(): low 64 bits of the magnitude, sign applied, wrapped *)
Definition wrap64 (v : Z) : Z :=
  let lo := v mod 18446744073709551616 in
  if lo <? 9223372036854775808 then lo else lo - 18446744073709551616.
Definition go_int64 (x : Z) : Z :=
  let m := wrap64 (Z.abs x) in if x <? 0 then wrap64 (- m) else m.

Fixpoint secrets_loop (parts : list (list Z)) : Outcome (list Z) :=
  match parts with
  | [] => Ok []
  | p :: t =>
      if MaxPartSize <? zlength p then Err
      else r <- secrets_loop t ;; Ok (zlength p :: p ++ r)
  end.
Definition builder_secrets (parts : list (list Z)) : Outcome (list Z) :=
  if PartsCap <? zlength parts then Err else secrets_loop parts.

Definition slice {A} (l : list A) (lo hi : Z) : list A :=
  firstn (Z.to_nat (hi - lo)) (skipn (Z.to_nat lo) l).

(* ParseSecrets as repaired by the two fix: commits in /repo: a length element
   must be a non-negative int64 (IsInt64 && Sign >= 0), and an input that ends
   right after a length prefix is well-formed only when that length is 0 (a
   trailing empty part).  The Panic branch is Go's slice-bounds check; it is
   proved unreachable (parse_total). *)
Definition is_len_elem (x : Z) : bool := (0 <=? x) && (x <? 9223372036854775808).

Fixpoint parse_loop (fuel : nat) (secrets : list Z) (el nextLen : Z) (isLen : bool)
         (parts : list (list Z)) : Outcome (list (list Z)) :=
  match fuel with
  | O => Diverge
  | S k =>
      let inLen := zlength secrets in
      if negb (el <? inLen) then
        (if isLen then Ok (rev parts)
         else if negb (nextLen =? 0) then Err
         else if PartsCap <=? zlength parts then Err
         else Ok (rev ([] :: parts)))
      else if el <? 0 then Err
      else if isLen then
        let x := nth (Z.to_nat el) secrets 0 in
        if negb (is_len_elem x) then Err
        else if MaxPartSize <? x then Err
        else parse_loop k secrets (el + 1) x false parts
      else
        if PartsCap <=? zlength parts then Err
        else if inLen <? el + nextLen then Err
        else if el + nextLen <? el then Panic
        else parse_loop k secrets (el + nextLen) nextLen true
                        (slice secrets el (el + nextLen) :: parts)
  end.

Definition parse_secrets (secrets : list Z) : Outcome (list (list Z)) :=
  if zlength secrets <? 2 then Err
  else parse_loop (2 * length secrets + 16) secrets 0 0 true [].

(* crypto/dlnproof/proof.go UnmarshalDLNProof: the wire parts as numbers, parsed by ParseSecrets; exactly two parts; each is
   copied into a 128-slot array and must fill it (`copy(...) != Iterations`), so a longer part is accepted and truncated *)
Definition dln_iterations : nat := 128.
Definition dln_unmarshal (wire : list Z) : Outcome (list Z * list Z) :=
  parts <- parse_secrets wire ;;
  match parts with
  | [a; t] =>
      if orb (Nat.ltb (length a) dln_iterations) (Nat.ltb (length t) dln_iterations) then Err
      else Ok (firstn dln_iterations a, firstn dln_iterations t)
  | _ => Err
  end.
