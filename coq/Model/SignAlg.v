(* Layer C: what the protocols compute, as closed forms of the secrets the harness fixes
   (k_i, r_i, u_i, polynomial coefficients).  Used to predict the exact SignatureData /
   key shares, and as the object of the algebraic theorems (Proofs/SignAlgProofs.v). *)
From Coq Require Import ZArith List Lia Bool.
From TSS Require Import Base.Outcome Base.Bytes Base.ZMod Base.GoInt Model.Poly Model.Group Model.Curve Model.Schnorr.
Import ListNotations.
Open Scope Z_scope.

Definition zsum (l : list Z) : Z := fold_right Z.add 0 l.

(* Lagrange weights of PrepareForSigning for the signer set with ids ks: w_i *)
Definition sign_weights (q : Z) (ks xs : list Z) : list Z :=
  map (fun i => prepare_wi q (nth i xs 0) (nth i ks 0) (remove_nth i ks)) (seq 0 (length ks)).

Record sigdata := mkSig { sR : list Z; sS : list Z; sSig : list Z; sRec : Z; sM : list Z }.

(* big.Int.FillBytes(buf): panics when the value does not fit *)
Definition fill_bytes (n : nat) (v : Z) : Outcome (list Z) :=
  let b := bytes_of_Z v in
  if Nat.ltb n (length b) then Panic else Ok (pad_left n b).

Definition echo_m (m : Z) (fullLen : Z) : Outcome (list Z) :=
  if fullLen =? 0 then Ok (bytes_of_Z m) else fill_bytes (Z.to_nat fullLen) m.

(* crypto/ecdsa hashToInt for a 256-bit order: the leftmost 32 bytes *)
Definition hash_to_int (h : list Z) : Z := be_value (firstn 32 h).

Section ECDSA.
  Variable c : curve.

  (* textbook verification, r and s as integers, e already reduced as crypto/ecdsa does *)
  Definition ecdsa_verify (Y : pt) (e r s : Z) : bool :=
    if negb ((0 <? r) && (r <? cq c) && (0 <? s) && (s <? cq c)) then false
    else
      let w := inv_prime (cq c) s in
      let u1 := (e * w) mod cq c in
      let u2 := (r * w) mod cq c in
      let P := pt_add c (@gmul (curve_group c) u1 (base c)) (@gmul (curve_group c) u2 Y) in
      match P with
      | Some (x, _) => (x mod cq c) =? r
      | None => false
      end.

  (* finalize.go: from R = (rx, ry) and the summed s *)
  Definition ecdsa_finalize (rx ry sumS m fullLen : Z) (Y : pt) : Outcome sigdata :=
    let q := cq c in
    let rec0 := (if q <? rx then 2 else 0) + (if Z.odd ry then 1 else 0) in
    let halfN := q / 2 in
    let '(s', recid) := if halfN <? sumS then (q - sumS, Z.lxor rec0 1) else (sumS, rec0) in
    mb <- echo_m m fullLen ;;
    let R := pad_left 32 (bytes_of_Z rx) in
    let S := pad_left 32 (bytes_of_Z s') in
    if ecdsa_verify Y (hash_to_int mb) rx s' then Ok (mkSig R S (R ++ S) recid mb) else Err.

  (* the whole signing run for signers with ids ks holding shares xs and nonce shares kis:
     x = sum w_i, k = sum k_i, R = k^-1 * G, s = k (m + r x) *)
  Definition ecdsa_sign (ks xs kis : list Z) (m fullLen : Z) (Y : pt) : Outcome sigdata :=
    let q := cq c in
    if negb (m <? q) then Err        (* the digest guard of round 1 *)
    else
      let x := zsum (sign_weights q ks xs) mod q in
      let k := zsum kis mod q in
      R <- ec_base_mul c (inv_prime q k) ;;
      match R with
      | Some (rx, ry) =>
          let s := (k * ((m + rx * x) mod q)) mod q in
          ecdsa_finalize rx ry s m fullLen Y
      | None => Panic
      end.

  (* public-key recovery from (r, s, recid) for curves with p = 3 mod 4 (secp256k1): y = (x^3+ax+b)^((p+1)/4) *)
  Definition recover (r s recid e : Z) : pt :=
    let q := cq c in let p := cp c in
    let x := if 2 <=? recid then r + q else r in
    let y2 := (x * x * x + ca c * x + cb c) mod p in
    let y0 := powmod y2 ((p + 1) / 4) p in
    let y := if Bool.eqb (Z.odd y0) (Z.odd recid) then y0 else p - y0 in
    let Rp : pt := Some (x, y) in
    let ri := inv_prime q r in
    (* Q = r^-1 (s R - e G) *)
    let sR := @gmul (curve_group c) s Rp in
    let eG := @gmul (curve_group c) (e mod q) (base c) in
    @gmul (curve_group c) ri (pt_add c sR (pt_neg c eG)).
End ECDSA.

(* ---------------- EdDSA ---------------- *)
Section EdDSA.
  Variable H512 : list Z -> list Z.   (* SHA-512 *)
  Variable c : curve.

  (* 32-byte little-endian of the low 256 bits (copyBytes keeps the FIRST 32 big-endian bytes when longer) *)
  Definition le32 (v : Z) : list Z :=
    let b := bytes_of_Z v in
    rev (firstn 32 (pad_left 32 b)).

  (* ecPointToEncodedBytes *)
  Definition enc_point (P : pt) : list Z :=
    match P with
    | Some (x, y) =>
        let s := le32 y in
        let hi := nth 31 s 0 in
        let hi' := if Z.odd (x mod cp c) then Z.lor hi 128 else Z.land hi 127 in
        firstn 31 s ++ [hi']
    | None => repeat 0 32
    end.

  Definition eddsa_sign (ks xs ris : list Z) (m fullLen : Z) (A : pt) : Outcome sigdata :=
    let L := cq c in
    let r := zsum ris mod L in
    Rp <- ec_base_mul c r ;;
    let encR := enc_point Rp in
    let encA := enc_point A in
    mb <- echo_m m fullLen ;;
    let h := le_value (H512 (encR ++ encA ++ mb)) mod L in
    let x := zsum (sign_weights L ks xs) mod L in
    let S := (r + h * x) mod L in
    let rint := le_value encR in
    Ok (mkSig (bytes_of_Z rint) (bytes_of_Z S) (encR ++ le_bytes 32 S) 0 mb).
End EdDSA.

(* ---------------- key generation / resharing ---------------- *)
Section Keygen.
  Variable c : curve.
  (* dealer i uses polynomial polys[i] = u_i :: coefficients ; party j has id ks[j] *)
  Definition kg_share (polys : list (list Z)) (kj : Z) : Z :=
    zsum (map (fun p => eval_poly (cq c) p kj) polys) mod cq c.
  Definition kg_shares (polys : list (list Z)) (ks : list Z) : list Z := map (kg_share polys) ks.
  Definition kg_secret (polys : list (list Z)) : Z := zsum (map (fun p => hd 0 p) polys) mod cq c.
  Definition kg_pub (polys : list (list Z)) : Outcome pt := ec_base_mul c (kg_secret polys).
  Definition kg_bigx (polys : list (list Z)) (ks : list Z) : Outcome (list pt) :=
    omapM (fun kj => ec_base_mul c (kg_share polys kj)) ks.

  (* resharing sums the received shares WITHOUT reducing modulo q (round 4 of both resharing protocols) *)
  Definition rs_share (polys : list (list Z)) (kj : Z) : Z :=
    zsum (map (fun p => eval_poly (cq c) p kj) polys).
  Definition rs_shares (polys : list (list Z)) (ks : list Z) : list Z := map (rs_share polys) ks.

  (* resharing: old member i deals w_i (its Lagrange-weighted share) with polys[i] = w_i :: coefficients *)
  Definition reshare_polys (old_ks old_xs : list Z) (tails : list (list Z)) : list (list Z) :=
    map (fun wt => fst wt :: snd wt) (combine (sign_weights (cq c) old_ks old_xs) tails).
End Keygen.
