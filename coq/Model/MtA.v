(* crypto/mta: Alice's range proof, Bob's proofs (with and without check), and the
   share conversion protocol.  All randomness is explicit. *)
From Coq Require Import ZArith List Lia Bool.
From TSS Require Import Base.Outcome Base.Bytes Base.ZMod Base.GoInt Model.Framing Model.Group Model.Curve Model.Paillier Model.Schnorr.
Import ListNotations.
Open Scope Z_scope.

Record alice_pf := mkAlice { aZ : Z; aU : Z; aW : Z; aS : Z; aS1 : Z; aS2 : Z }.
Record bob_pf := mkBob { bZ : Z; bZPrm : Z; bT : Z; bV : Z; bW : Z; bS : Z; bS1 : Z; bS2 : Z; bT1 : Z; bT2 : Z }.

(* (x * y) mod m and x^e mod m as written with common.ModInt; Exp with a negative
   exponent returns nil when the base is not a unit. *)
Definition mmul (m x y : Z) : Z := (x * y) mod m.

Section MtA.
  Variable H : list Z -> list Z.
  Variable c : curve.
  Let q := cq c.
  Definition q3 : Z := cq c * cq c * cq c.
  Definition q7 : Z := q3 * q3 * cq c.
  Definition q5 : Z := cq c * cq c * cq c * cq c * cq c.

  Definition alice_challenge (N cA z u w : Z) : Z :=
    match sha512_256i H (pk_as_ints N ++ [cA; z; u; w]) with Some h => h mod cq c | None => 0 end.

  (* ProveRangeAlice; drawn values: alpha < q^3, beta unit mod N, gamma < q^3 NTilde, rho < q NTilde *)
  Definition alice_prove (N cA NTilde h1 h2 m r : Z) (alpha beta gam rho : Z) : alice_pf :=
    let N2 := nsquare N in
    let z := mmul NTilde (powmod h1 m NTilde) (powmod h2 rho NTilde) in
    let u := mmul N2 (powmod (gamma N) alpha N2) (powmod beta N N2) in
    let w := mmul NTilde (powmod h1 alpha NTilde) (powmod h2 gam NTilde) in
    let e := alice_challenge N cA z u w in
    let s := mmul N (powmod r e N) beta in
    mkAlice z u w s (e * m + alpha) (e * rho + gam).

  (* RangeProofAlice.Verify (with the unit check on c added by the fix: commit) *)
  Definition alice_verify (N NTilde h1 h2 cA : Z) (pf : alice_pf) : Outcome bool :=
    let N2 := nsquare N in
    if negb (is_in_interval cA N2) || negb (Z.gcd cA N2 =? 1) then Ok false
    else if negb (is_in_interval (aZ pf) NTilde) then Ok false
    else if negb (is_in_interval (aU pf) N2) then Ok false
    else if negb (is_in_interval (aW pf) NTilde) then Ok false
    else if negb (is_in_interval (aS pf) N) then Ok false
    else if negb (Z.gcd (aZ pf) NTilde =? 1) then Ok false
    else if negb (Z.gcd (aU pf) N2 =? 1) then Ok false
    else if negb (Z.gcd (aW pf) NTilde =? 1) then Ok false
    else if aS1 pf <? cq c then Ok false
    else if aS2 pf <? cq c then Ok false
    else if aS pf =? 1 then Ok false
    else if aZ pf =? 1 then Ok false
    else if aS1 pf =? aS2 pf then Ok false
    else if q3 <? aS1 pf then Ok false
    else
      let e := alice_challenge N cA (aZ pf) (aU pf) (aW pf) in
      match go_exp cA (- e) N2, go_exp (aZ pf) (- e) NTilde with
      | Some cInv, Some zInv =>
          let p1 := mmul N2 (mmul N2 (powmod (gamma N) (aS1 pf) N2) (powmod (aS pf) N N2)) cInv in
          if negb (aU pf =? p1) then Ok false
          else
            let p2 := mmul NTilde (mmul NTilde (powmod h1 (aS1 pf) NTilde) (powmod h2 (aS2 pf) NTilde)) zInv in
            Ok (aW pf =? p2)
      | _, _ => Panic
      end.

  (* ---- Bob ---- *)
  Definition bob_hash_ints (N : Z) (X U : option pt) (c1 c2 : Z) (z zp t v w : Z) : list Z :=
    match X, U with
    | Some X', Some U' => pk_as_ints N ++ coords X' ++ [c1; c2] ++ coords U' ++ [z; zp; t; v; w]
    | _, _ => pk_as_ints N ++ [c1; c2; z; zp; t; v; w]
    end.
  Definition bob_challenge (session : list Z) (ints : list Z) : Z := challenge H c session ints.

  (* ProveBobWC; drawn: alpha<q^3, rho,sigma<q NT, tau<q^3 NT, rhoPrm<q^3 NT, beta unit mod N, gamma<q^7.
     X = None: proof without check, U is the placeholder (0,0). *)
  Definition bob_prove (session : list Z) (N NTilde h1 h2 c1 c2 x y r : Z) (X : option pt)
             (alpha rho sigma tau rhoPrm beta gam : Z) : Outcome (bob_pf * pt) :=
    let N2 := nsquare N in
    u <- match X with
         | Some _ => ec_base_mul c alpha
         | None => Ok (Some (0, 0))
         end ;;
    let z := mmul NTilde (powmod h1 x NTilde) (powmod h2 rho NTilde) in
    let zp := mmul NTilde (powmod h1 alpha NTilde) (powmod h2 rhoPrm NTilde) in
    let t := mmul NTilde (powmod h1 y NTilde) (powmod h2 sigma NTilde) in
    let v := mmul N2 (mmul N2 (powmod c1 alpha N2) (powmod (gamma N) gam N2)) (powmod beta N N2) in
    let w := mmul NTilde (powmod h1 gam NTilde) (powmod h2 tau NTilde) in
    let e := bob_challenge session (bob_hash_ints N X (match X with Some _ => Some u | None => None end) c1 c2 z zp t v w) in
    let s := mmul N (powmod r e N) beta in
    Ok (mkBob z zp t v w s (e * x + alpha) (e * rho + rhoPrm) (e * y + gam) (e * sigma + tau), u).

  (* ProofBobWC.Verify ; X = None is ProofBob.Verify *)
  Definition bob_verify (session : list Z) (N NTilde h1 h2 c1 c2 : Z) (pf : bob_pf) (U X : option pt) : Outcome bool :=
    let N2 := nsquare N in
    if negb (is_in_interval (bZ pf) NTilde) then Ok false
    else if negb (is_in_interval (bZPrm pf) NTilde) then Ok false
    else if negb (is_in_interval (bT pf) NTilde) then Ok false
    else if negb (is_in_interval (bV pf) N2) then Ok false
    else if negb (is_in_interval (bW pf) NTilde) then Ok false
    else if negb (is_in_interval (bS pf) N) then Ok false
    else if negb (Z.gcd (bZ pf) NTilde =? 1) then Ok false
    else if negb (Z.gcd (bZPrm pf) NTilde =? 1) then Ok false
    else if negb (Z.gcd (bT pf) NTilde =? 1) then Ok false
    else if negb (Z.gcd (bV pf) N2 =? 1) then Ok false
    else if negb (Z.gcd (bW pf) NTilde =? 1) then Ok false
    else if bS pf =? 0 then Ok false
    else if negb (Z.gcd (bS pf) N =? 1) then Ok false
    else if bV pf =? 0 then Ok false
    else if negb (Z.gcd (bV pf) N =? 1) then Ok false
    else if bS1 pf <? cq c then Ok false
    else if bS2 pf <? cq c then Ok false
    else if bT1 pf <? cq c then Ok false
    else if bT2 pf <? cq c then Ok false
    else if q3 <? bS1 pf then Ok false
    else if q7 <? bT1 pf then Ok false
    else
      let e := bob_challenge session (bob_hash_ints N X U c1 c2 (bZ pf) (bZPrm pf) (bT pf) (bV pf) (bW pf)) in
      chk <- match X, U with
             | Some X', Some U' =>
                 let s1q := bS1 pf mod cq c in
                 if s1q =? 0 then Ok false
                 else
                   gS1 <- ec_base_mul c s1q ;;
                   xe <- ec_smul c X' e ;;
                   match ec_add c xe U' with
                   | Ok r => Ok (pt_eqb gS1 r)
                   | Err => Ok false
                   | Panic => Panic | Diverge => Diverge
                   end
             | Some _, None => Panic
             | None, _ => Ok true
             end ;;
      if negb chk then Ok false
      else
        let l5 := mmul NTilde (powmod h1 (bS1 pf) NTilde) (powmod h2 (bS2 pf) NTilde) in
        let r5 := mmul NTilde (powmod (bZ pf) e NTilde) (bZPrm pf) in
        if negb (l5 =? r5) then Ok false
        else
          let l6 := mmul NTilde (powmod h1 (bT1 pf) NTilde) (powmod h2 (bT2 pf) NTilde) in
          let r6 := mmul NTilde (powmod (bT pf) e NTilde) (bW pf) in
          if negb (l6 =? r6) then Ok false
          else
            let l7 := mmul N2 (mmul N2 (powmod c1 (bS1 pf) N2) (powmod (bS pf) N N2)) (powmod (gamma N) (bT1 pf) N2) in
            let r7 := mmul N2 (powmod c2 e N2) (bV pf) in
            Ok (l7 =? r7).

  (* ---- share conversion (crypto/mta/share_protocol.go) ---- *)
  (* AliceInit: cA = Enc(a; xA), range proof towards Bob's ring-Pedersen parameters *)
  Definition alice_init (N a xA NTildeB h1B h2B : Z) (alpha beta gam rho : Z) : Outcome (Z * alice_pf) :=
    cA <- encrypt N a xA ;;
    Ok (cA, alice_prove N cA NTildeB h1B h2B a xA alpha beta gam rho).

  (* BobMid / BobMidWC: returns (beta, cB, betaPrm, proof, U) *)
  Definition bob_mid (session : list Z) (N : Z) (pfA : alice_pf) (b cA NTildeA h1A h2A NTildeB h1B h2B : Z)
             (B : option pt) (betaPrm xB : Z) (alpha rho sigma tau rhoPrm beta gam : Z)
    : Outcome (Z * Z * Z * bob_pf * pt) :=
    v <- alice_verify N NTildeB h1B h2B cA pfA ;;
    if negb v then Err
    else
      cBetaPrm <- encrypt N betaPrm xB ;;
      cB1 <- homo_mult N b cA ;;
      cB <- homo_add N cB1 cBetaPrm ;;
      let bet := (0 - betaPrm) mod cq c in
      pu <- bob_prove session N NTildeA h1A h2A cA cB b betaPrm xB B alpha rho sigma tau rhoPrm beta gam ;;
      Ok (bet, cB, betaPrm, fst pu, snd pu).

  (* AliceEnd / AliceEndWC *)
  Definition alice_end (session : list Z) (sk : pai_sk) (pf : bob_pf) (U B : option pt) (cA cB NTildeA h1A h2A : Z) : Outcome Z :=
    v <- bob_verify session (skN sk) NTildeA h1A h2A cA cB pf U B ;;
    if negb v then Err
    else
      a' <- decrypt sk cB ;;
      Ok (a' mod cq c).
End MtA.
