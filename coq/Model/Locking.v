(* C09: the locking discipline of tss/party.go.
   (1) lock_site: what the translator extracts (Gen/Locks.v): each access to party state in an entry point and
       whether the party mutex is held there.
   (2) a small-step model of threads that each run a list of critical sections `acquire; body; release` on one
       shared state under one mutex.  Proofs/ThreadsProofs.v shows mutual exclusion and that every interleaving
       ends in the state of the sequential execution in acquisition order (which Proofs/EngineProofs.v shows to be
       independent of that order for the round engine). *)
From Coq Require Import List String Bool Arith.
Import ListNotations.

Record lock_site := mkLockSite { ls_fn : string; ls_access : string; ls_locked : bool }.

Definition entry_points : list string := ["BaseStart"; "BaseUpdate"; "WaitingFor"; "WrapErrorLocked"]%string.

(* every recorded access is under the lock *)
Definition all_locked (l : list lock_site) : bool := forallb ls_locked l.
(* an entry point has at least one recorded access named a (so that an empty extraction does not pass vacuously) *)
Definition has_access (l : list lock_site) (fn a : string) : bool :=
  existsb (fun s => String.eqb (ls_fn s) fn && String.eqb (ls_access s) a) l.
Definition required_accesses : list (string * string) :=
  [("BaseStart", "setRound"); ("BaseStart", "round"); ("BaseUpdate", "ValidateMessage"); ("BaseUpdate", "StoreMessage");
   ("BaseUpdate", "round"); ("BaseUpdate", "advance"); ("BaseUpdate", "failed"); ("WaitingFor", "field rnd"); ("WrapErrorLocked", "WrapError")]%string.
Definition locks_ok (l : list lock_site) : bool :=
  all_locked l && forallb (fun fa => has_access l (fst fa) (snd fa)) required_accesses.
Definition parse_wraps_ok (l : list (string * bool)) : bool :=
  Nat.eqb (List.length l) 6 && forallb snd l.

(* BaseUpdate re-enters itself and therefore unlocks by hand: every return reached with the mutex taken must have released it *)
Definition returns_ok (l : list (string * bool)) : bool :=
  negb (Nat.eqb (List.length l) 0) && forallb snd l.

(* ---------------- threads under one mutex ---------------- *)
Section Threads.
  Variable St Op : Type.
  Variable apply : St -> Op -> St.

  Inductive status := Out | Holding (o : Op) | Ran (o : Op).
  Record thread := mkThread { th_status : status; th_todo : list Op }.
  Record config := mkConfig { cf_state : St; cf_holder : option nat; cf_threads : list thread; cf_history : list Op }.

  Definition set_thread (ts : list thread) (i : nat) (t : thread) : list thread :=
    firstn i ts ++ t :: skipn (S i) ts.

  (* one step of thread i *)
  Inductive step : config -> nat -> config -> Prop :=
  | st_acquire : forall c i o rest,
      cf_holder c = None ->
      nth_error (cf_threads c) i = Some (mkThread Out (o :: rest)) ->
      step c i (mkConfig (cf_state c) (Some i) (set_thread (cf_threads c) i (mkThread (Holding o) rest)) (cf_history c ++ [o]))
  | st_body : forall c i o rest,
      cf_holder c = Some i ->
      nth_error (cf_threads c) i = Some (mkThread (Holding o) rest) ->
      step c i (mkConfig (apply (cf_state c) o) (Some i) (set_thread (cf_threads c) i (mkThread (Ran o) rest)) (cf_history c))
  | st_release : forall c i o rest,
      cf_holder c = Some i ->
      nth_error (cf_threads c) i = Some (mkThread (Ran o) rest) ->
      step c i (mkConfig (cf_state c) None (set_thread (cf_threads c) i (mkThread Out rest)) (cf_history c)).

  Inductive reach : config -> config -> Prop :=
  | reach_refl : forall c, reach c c
  | reach_step : forall c i c' c'', reach c c' -> step c' i c'' -> reach c c''.

  Definition initial (s0 : St) (progs : list (list Op)) : config :=
    mkConfig s0 None (map (mkThread Out) progs) [].

  Definition quiescent (c : config) : Prop :=
    cf_holder c = None /\ Forall (fun t => th_status t = Out /\ th_todo t = []) (cf_threads c).

  (* the shared state as a sequential run sees it *)
  Definition seq_state (s0 : St) (ops : list Op) : St := fold_left apply ops s0.

  (* an executable scheduler-driven run (the schedule names the thread that moves), for examples *)
  Definition exec_step (c : config) (i : nat) : option config :=
    match nth_error (cf_threads c) i with
    | Some (mkThread Out (o :: rest)) =>
        match cf_holder c with
        | None => Some (mkConfig (cf_state c) (Some i) (set_thread (cf_threads c) i (mkThread (Holding o) rest)) (cf_history c ++ [o]))
        | Some _ => None
        end
    | Some (mkThread (Holding o) rest) =>
        Some (mkConfig (apply (cf_state c) o) (Some i) (set_thread (cf_threads c) i (mkThread (Ran o) rest)) (cf_history c))
    | Some (mkThread (Ran o) rest) =>
        Some (mkConfig (cf_state c) None (set_thread (cf_threads c) i (mkThread Out rest)) (cf_history c))
    | _ => None
    end.
  Fixpoint exec (c : config) (sched : list nat) : config :=
    match sched with
    | [] => c
    | i :: rest => match exec_step c i with Some c' => exec c' rest | None => exec c rest end
    end.
End Threads.
