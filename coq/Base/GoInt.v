(* More math/big behaviours: Jacobi, GCD, Sqrt, IsInInterval. Definitions only. *)
From Coq Require Import ZArith List Lia Bool.
From TSS Require Import Base.Outcome Base.Bytes Base.ZMod.
Import ListNotations.
Open Scope Z_scope.

Definition is_in_interval (b bound : Z) : bool := (b <? bound) && (0 <=? b).

Definition go_gcd (a b : Z) : Z := Z.gcd a b.

(* big.Jacobi(x, y): y must be odd (panics otherwise); result in {-1,0,1}.
   Standard binary algorithm with fuel. *)
Fixpoint strip2 (fuel : nat) (a : Z) (n : Z) (j : Z) : Z * Z :=
  match fuel with
  | O => (a, j)
  | S k =>
      if (0 <? a) && Z.even a then
        let r := n mod 8 in
        strip2 k (a / 2) n (if (r =? 3) || (r =? 5) then - j else j)
      else (a, j)
  end.

Fixpoint jacobi_loop (fuel : nat) (a n j : Z) : Z :=
  match fuel with
  | O => 0
  | S k =>
      if a =? 0 then (if n =? 1 then j else 0)
      else
        let '(a1, j1) := strip2 (S (size_nat a)) a n j in
        (* swap *)
        let j2 := if (a1 mod 4 =? 3) && (n mod 4 =? 3) then - j1 else j1 in
        jacobi_loop k (n mod a1) a1 j2
  end.

Definition go_jacobi (x y : Z) : Outcome Z :=
  if Z.even y then Panic
  else
    let n := Z.abs y in
    let j0 := if (y <? 0) && (x <? 0) then -1 else 1 in
    Ok (jacobi_loop (2 * size_nat n + 4) (x mod n) n j0).

(* NonEmptyMultiBytes(bzs, n) *)
Definition non_empty_multi (bzs : list (list Z)) (n : nat) : bool :=
  negb (Nat.eqb (length bzs) 0) && Nat.eqb (length bzs) n && forallb (fun b => negb (Nat.eqb (length b) 0)) bzs.

(* NonEmptyMultiBytes(bzs) without the optional count *)
Definition non_empty_multi_any (bzs : list (list Z)) : bool :=
  negb (Nat.eqb (length bzs) 0) && forallb (fun b => negb (Nat.eqb (length b) 0)) bzs.
