(* Byte strings and Go's integer <-> bytes conversions.
   A byte is a Z in [0,256).  Definitions only; lemmas are in Proofs/BytesProofs.v *)
From Coq Require Import ZArith List Lia.
Import ListNotations.
Open Scope Z_scope.

Definition is_byte (b : Z) : Prop := 0 <= b < 256.
Definition is_byteb (b : Z) : bool := (0 <=? b) && (b <? 256).
Definition bytes_ok (l : list Z) : Prop := Forall is_byte l.

(* little endian, fixed width: binary.LittleEndian.PutUint64 (wraps mod 2^(8n)) *)
Fixpoint le_bytes (n : nat) (v : Z) : list Z :=
  match n with
  | O => []
  | S k => (v mod 256) :: le_bytes k (v / 256)
  end.
Definition le64 (v : Z) : list Z := le_bytes 8 v.

Fixpoint le_value (l : list Z) : Z :=
  match l with
  | [] => 0
  | b :: t => b + 256 * le_value t
  end.

(* big endian value of a byte string: big.Int.SetBytes *)
Definition be_value (l : list Z) : Z := fold_left (fun acc b => acc * 256 + b) l 0.

(* big.Int.Bytes(): minimal big-endian magnitude, 0 |-> [] , sign dropped *)
Fixpoint be_acc (fuel : nat) (v : Z) (acc : list Z) : list Z :=
  match fuel with
  | O => acc
  | S k => if v <=? 0 then acc else be_acc k (v / 256) ((v mod 256) :: acc)
  end.
Definition size_nat (v : Z) : nat :=
  match v with Zpos p => Pos.size_nat p | _ => O end.
Definition bytes_of_Z (v : Z) : list Z :=
  let a := Z.abs v in be_acc (size_nat a) a [].

(* left-pad with zeros to length n (big.Int.FillBytes / padding helpers); if longer, unchanged *)
Definition pad_left (n : nat) (l : list Z) : list Z :=
  repeat 0 (n - length l) ++ l.

Definition zlength {A} (l : list A) : Z := Z.of_nat (length l).
