(* Modular arithmetic helpers mirroring math/big: Mod (Euclidean, panics on 0),
   Exp by squaring, ModInverse by extended Euclid.  Definitions only. *)
From Coq Require Import ZArith List Lia.
From TSS Require Import Base.Outcome Base.Bytes.
Import ListNotations.
Open Scope Z_scope.

(* modular exponentiation by squaring on the binary representation of the exponent *)
Fixpoint powmod_pos (a : Z) (e : positive) (m : Z) : Z :=
  match e with
  | xH => a mod m
  | xO e' => let r := powmod_pos a e' m in (r * r) mod m
  | xI e' => let r := powmod_pos a e' m in ((r * r) mod m * a) mod m
  end.

(* powmod a e m = a^e mod m for e >= 0 ; 0 for negative e (never used there) *)
Definition powmod (a e m : Z) : Z :=
  match e with
  | Z0 => 1 mod m
  | Zpos p => powmod_pos a p m
  | Zneg _ => 0
  end.

(* extended Euclid with fuel: egcd a b = (g, x, y) with a*x + b*y = g *)
Fixpoint egcd (fuel : nat) (a b : Z) : Z * Z * Z :=
  match fuel with
  | O => (a, 1, 0)
  | S k =>
      if b =? 0 then (a, 1, 0)
      else let '(g, x, y) := egcd k b (a mod b) in (g, y, x - (a / b) * y)
  end.

Definition egcd_fuel (m : Z) : nat := (2 * size_nat (Z.abs m) + 4)%nat.

(* big.Int.ModInverse(g, n) for n > 0: None (nil) when gcd(g,n) <> 1, else the
   inverse in [0,n) (for n = 1 the result is 0).  g may be negative or >= n. *)
Definition modinv (g n : Z) : option Z :=
  let a := g mod n in
  let '(d, x, _) := egcd (egcd_fuel n) a n in
  if d =? 1 then Some (x mod n) else None.

(* inverse modulo a prime by Fermat; equals modinv on units (proved in ZModProofs) *)
Definition inv_prime (q a : Z) : Z := powmod a (q - 2) q.

(* big.Int.Exp(x, y, m) as used by the library (m > 0):
   y >= 0 : x^y mod m ;  y < 0 : (x^-1)^|y| mod m, nil when x has no inverse *)
Definition go_exp (x y m : Z) : option Z :=
  if 0 <=? y then Some (powmod (x mod m) y m)
  else match modinv x m with
       | Some xi => Some (powmod xi (- y) m)
       | None => None
       end.

Definition eqm (q a b : Z) : Prop := a mod q = b mod q.
