(* Outcome: Go's partiality made explicit.  Ok v = normal return, Err = error
   return / false verdict channel, Panic = run-time panic, Diverge = fuel ran
   out (input-dependent non-termination). *)
From Coq Require Import List.
Import ListNotations.

Inductive Outcome (A : Type) : Type :=
| Ok (a : A)
| Err
| Panic
| Diverge.
Arguments Ok {A} a.
Arguments Err {A}.
Arguments Panic {A}.
Arguments Diverge {A}.

Definition obind {A B} (o : Outcome A) (f : A -> Outcome B) : Outcome B :=
  match o with
  | Ok a => f a
  | Err => Err
  | Panic => Panic
  | Diverge => Diverge
  end.

Definition omap {A B} (f : A -> B) (o : Outcome A) : Outcome B :=
  obind o (fun a => Ok (f a)).

Definition of_option {A} (o : option A) : Outcome A :=
  match o with Some a => Ok a | None => Err end.

Definition is_ok {A} (o : Outcome A) : bool :=
  match o with Ok _ => true | _ => false end.

Definition crashes {A} (o : Outcome A) : bool :=
  match o with Panic | Diverge => true | _ => false end.

Notation "x <- e1 ;; e2" := (obind e1 (fun x => e2))
  (at level 61, e1 at next level, right associativity).

(* guard b : continue when b holds, error otherwise *)
Definition guard (b : bool) : Outcome unit := if b then Ok tt else Err.

Fixpoint omapM {A B} (f : A -> Outcome B) (l : list A) : Outcome (list B) :=
  match l with
  | [] => Ok []
  | a :: t => b <- f a ;; bs <- omapM f t ;; Ok (b :: bs)
  end.
