(* Group laws for the concrete curves of Model/Curve.v, relativised to the
   points that satisfy [pt_on_curve].

   WHY: [group_laws (curve_group c) q B] (Model/Group.v) quantifies over the whole
   carrier [option (Z*Z)], which contains off-curve points, out-of-field
   coordinates and -- for Edwards curves -- the extra element [None].  It is
   unsatisfiable (see [group_laws_unsat_edw], [group_laws_unsat_toyW]).  The
   record [curve_laws c] below states the same laws for on-curve points only;
   [sub_group c] is the group on the subset type and [sub_laws] shows it
   satisfies [group_laws], so every lemma of GroupProofs transfers
   ([c_gmul_add], [c_gmul_inj], ...).  [curve_laws_check] is an exhaustive
   boolean checker (sound: [curve_laws_check_sound]) used for the toy curves. *)
From Coq Require Import ZArith List Lia Bool Znumtheory Eqdep_dec.
From TSS Require Import Base.Outcome Base.Bytes Base.ZMod Model.Group Model.Curve Model.Poly
  Proofs.ZModProofs Proofs.GroupProofs Proofs.PaillierProofs.
Import ListNotations.
Open Scope Z_scope.

(* ------------------------------------------------------------------ *)
(* the unrelativised laws are unsatisfiable *)

Lemma group_laws_unsat_edw : forall c q B,
  ck c = Edw -> ~ group_laws (curve_group c) q B.
Proof.
  intros c q B E L.
  pose proof (gl_neg_r _ _ _ L (None : gT (curve_group c))) as H.
  cbn in H. unfold pt_zero in H. rewrite E in H. discriminate.
Qed.

Lemma group_laws_force_weier : forall c q B,
  group_laws (curve_group c) q B -> ck c = Weier.
Proof.
  intros c q B L. destruct (ck c) eqn:E; [reflexivity|].
  exfalso. exact (group_laws_unsat_edw c q B E L).
Qed.

(* y^2 = x^3 + 7 over F_13: 7 points, generator (7,5) *)
Definition toyW : curve := mkCurve Weier 13 0 7 7 7 5.

Lemma group_laws_unsat_toyW : forall q B, ~ group_laws (curve_group toyW) q B.
Proof.
  intros q B L.
  pose proof (gl_comm _ _ _ L (Some (0, 0) : gT (curve_group toyW)) (Some (13, 1))) as H.
  vm_compute in H. discriminate.
Qed.

(* ------------------------------------------------------------------ *)
(* facts that need no laws *)

Lemma pt_eqb_eq : forall P Q : pt, pt_eqb P Q = true <-> P = Q.
Proof.
  intros [[x1 y1]|] [[x2 y2]|]; cbn [pt_eqb]; split; intros H; try discriminate; try reflexivity.
  - apply andb_true_iff in H. destruct H as [H1 H2].
    apply Z.eqb_eq in H1. apply Z.eqb_eq in H2. subst. reflexivity.
  - injection H as -> ->. rewrite !Z.eqb_refl. reflexivity.
Qed.

Lemma pt_eqb_refl : forall P : pt, pt_eqb P P = true.
Proof. intros P. apply pt_eqb_eq. reflexivity. Qed.

Lemma pt_eqb_neq : forall P Q : pt, pt_eqb P Q = false <-> P <> Q.
Proof.
  intros P Q. split.
  - intros H E. apply pt_eqb_eq in E. congruence.
  - intros H. destruct (pt_eqb P Q) eqn:E; [|reflexivity].
    apply pt_eqb_eq in E. contradiction.
Qed.

Lemma representable_Some : forall P : pt, representable P = true <-> exists xy, P = Some xy.
Proof.
  intros [xy|]; cbn; split; intros H; try discriminate; eauto.
  destruct H as [? H]. discriminate.
Qed.

Lemma representable_None : forall P : pt, representable P = false <-> P = None.
Proof. intros [xy|]; cbn; split; intros H; congruence. Qed.

Section CurveLaws.
  Variable c : curve.

  Definition onc (P : pt) : Prop := pt_on_curve c P = true.

  Local Notation cmul := (@gmul (curve_group c)).
  Local Notation padd := (pt_add c).
  Local Notation pneg := (pt_neg c).
  Local Notation O := (pt_zero c).
  Local Notation B := (base c).
  Local Notation q := (cq c).

  Record curve_laws : Prop := mkCurveLaws {
    cl_add_closed : forall P Q, onc P -> onc Q -> onc (padd P Q);
    cl_neg_closed : forall P, onc P -> onc (pneg P);
    cl_zero_on : onc O;
    cl_base_on : onc B;
    cl_assoc : forall a b d, onc a -> onc b -> onc d -> padd a (padd b d) = padd (padd a b) d;
    cl_comm : forall a b, onc a -> onc b -> padd a b = padd b a;
    cl_zero_l : forall a, onc a -> padd O a = a;
    cl_neg_r : forall a, onc a -> padd a (pneg a) = O;
    cl_prime : prime q;
    cl_order : cmul q B = O;
    cl_B_nz : B <> O
  }.

  Hypothesis CL : curve_laws.

  (* ---------------------------------------------------------------- *)
  (* the group on the subset type *)

  Definition spt : Type := { P : pt | pt_on_curve c P = true }.

  Definition smk (P : pt) (H : onc P) : spt := exist _ P H.

  Definition sadd (P Q : spt) : spt :=
    exist _ (padd (proj1_sig P) (proj1_sig Q))
          (cl_add_closed CL _ _ (proj2_sig P) (proj2_sig Q)).
  Definition sneg (P : spt) : spt :=
    exist _ (pneg (proj1_sig P)) (cl_neg_closed CL _ (proj2_sig P)).
  Definition szero : spt := exist _ O (cl_zero_on CL).
  Definition sbase : spt := exist _ B (cl_base_on CL).
  Definition seqb (P Q : spt) : bool := pt_eqb (proj1_sig P) (proj1_sig Q).

  Definition sub_group : group := mkGroup spt sadd sneg szero seqb.

  Lemma spt_eq : forall P Q : spt, proj1_sig P = proj1_sig Q -> P = Q.
  Proof.
    apply eq_sig_hprop. intros x p r. apply UIP_dec. apply bool_dec.
  Qed.

  Lemma proj_gmul_pos : forall (p : positive) (P : spt),
      proj1_sig (@gmul_pos sub_group p P) = @gmul_pos (curve_group c) p (proj1_sig P).
  Proof.
    induction p as [p IH|p IH|]; intros P; cbn [gmul_pos gadd sub_group curve_group sadd proj1_sig].
    - rewrite IH. reflexivity.
    - rewrite IH. reflexivity.
    - reflexivity.
  Qed.

  Lemma proj_gmul : forall (k : Z) (P : spt),
      proj1_sig (@gmul sub_group k P) = cmul k (proj1_sig P).
  Proof.
    intros [|p|p] P; cbn [gmul gzero gneg sub_group curve_group szero sneg proj1_sig].
    - reflexivity.
    - apply proj_gmul_pos.
    - rewrite proj_gmul_pos. reflexivity.
  Qed.

  Lemma sub_laws : group_laws sub_group q sbase.
  Proof.
    constructor.
    - intros a b d. apply spt_eq. cbn [gadd sub_group sadd proj1_sig].
      apply (cl_assoc CL); apply proj2_sig.
    - intros a b. apply spt_eq. cbn [gadd sub_group sadd proj1_sig].
      apply (cl_comm CL); apply proj2_sig.
    - intros a. apply spt_eq. cbn [gadd gzero sub_group sadd szero proj1_sig].
      apply (cl_zero_l CL); apply proj2_sig.
    - intros a. apply spt_eq. cbn [gadd gneg gzero sub_group sadd sneg szero proj1_sig].
      apply (cl_neg_r CL); apply proj2_sig.
    - intros a b. cbn [geqb sub_group]. unfold seqb. rewrite pt_eqb_eq. split.
      + apply spt_eq.
      + intros ->. reflexivity.
    - exact (cl_prime CL).
    - apply spt_eq. rewrite proj_gmul. exact (cl_order CL).
    - intros E. apply (cl_B_nz CL). exact (f_equal (@proj1_sig _ _) E).
  Qed.

  Let SL := sub_laws.

  (* ---------------------------------------------------------------- *)
  (* transferred lemmas *)

  Lemma q_prime_c : prime q.
  Proof. exact (cl_prime CL). Qed.

  Lemma q_gt_1_c : 1 < q.
  Proof. apply prime_gt_1. exact q_prime_c. Qed.

  Lemma onc_zero : onc O.
  Proof. exact (cl_zero_on CL). Qed.

  Lemma onc_base : onc B.
  Proof. exact (cl_base_on CL). Qed.

  Lemma onc_add : forall P Q, onc P -> onc Q -> onc (padd P Q).
  Proof. exact (cl_add_closed CL). Qed.

  Lemma onc_neg : forall P, onc P -> onc (pneg P).
  Proof. exact (cl_neg_closed CL). Qed.

  Lemma onc_gmul : forall k P, onc P -> onc (cmul k P).
  Proof.
    intros k P HP. pose proof (proj2_sig (@gmul sub_group k (smk P HP))) as H.
    cbv beta in H. rewrite proj_gmul in H. exact H.
  Qed.

  Lemma c_add_assoc : forall a b d, onc a -> onc b -> onc d ->
      padd a (padd b d) = padd (padd a b) d.
  Proof. exact (cl_assoc CL). Qed.

  Lemma c_add_comm : forall a b, onc a -> onc b -> padd a b = padd b a.
  Proof. exact (cl_comm CL). Qed.

  Lemma c_zero_l : forall a, onc a -> padd O a = a.
  Proof. exact (cl_zero_l CL). Qed.

  Lemma c_zero_r : forall a, onc a -> padd a O = a.
  Proof. intros a Ha. rewrite c_add_comm by (assumption || apply onc_zero). now apply c_zero_l. Qed.

  Lemma c_neg_r : forall a, onc a -> padd a (pneg a) = O.
  Proof. exact (cl_neg_r CL). Qed.

  Lemma c_cancel_l : forall a b d, onc a -> onc b -> onc d -> padd a b = padd a d -> b = d.
  Proof.
    intros a b d Ha Hb Hd E.
    assert (E' : gadd sub_group (smk a Ha) (smk b Hb) = gadd sub_group (smk a Ha) (smk d Hd)).
    { apply spt_eq. exact E. }
    apply (gadd_cancel_l sub_group q sbase SL) in E'.
    exact (f_equal (@proj1_sig _ _) E').
  Qed.

  Lemma c_cancel_r : forall a b d, onc a -> onc b -> onc d -> padd b a = padd d a -> b = d.
  Proof.
    intros a b d Ha Hb Hd E. apply (c_cancel_l a); try assumption.
    rewrite (c_add_comm a b), (c_add_comm a d); assumption.
  Qed.

  Lemma c_gmul_add : forall a b P, onc P -> cmul (a + b) P = padd (cmul a P) (cmul b P).
  Proof.
    intros a b P HP.
    pose proof (f_equal (@proj1_sig _ _) (gmul_add sub_group q sbase SL a b (smk P HP))) as E.
    cbn [gadd sub_group sadd proj1_sig] in E. rewrite !proj_gmul in E. exact E.
  Qed.

  Lemma c_gmul_mul : forall a b P, onc P -> cmul (a * b) P = cmul a (cmul b P).
  Proof.
    intros a b P HP.
    pose proof (f_equal (@proj1_sig _ _) (gmul_mul sub_group q sbase SL a b (smk P HP))) as E.
    rewrite !proj_gmul in E. exact E.
  Qed.

  Lemma c_gmul_neg : forall a P, onc P -> cmul (- a) P = pneg (cmul a P).
  Proof.
    intros a P HP.
    pose proof (f_equal (@proj1_sig _ _) (gmul_neg sub_group q sbase SL a (smk P HP))) as E.
    cbn [gneg sub_group sneg proj1_sig] in E. rewrite !proj_gmul in E. exact E.
  Qed.

  Lemma c_gmul_add_r : forall k P Q, onc P -> onc Q ->
      cmul k (padd P Q) = padd (cmul k P) (cmul k Q).
  Proof.
    intros k P Q HP HQ.
    pose proof (f_equal (@proj1_sig _ _)
                  (gmul_add_r sub_group q sbase SL k (smk P HP) (smk Q HQ))) as E.
    cbn [gadd sub_group sadd proj1_sig] in E. rewrite !proj_gmul in E. exact E.
  Qed.

  Lemma c_gmul_zero_r : forall k, cmul k O = O.
  Proof.
    intros k.
    pose proof (f_equal (@proj1_sig _ _) (gmul_zero_r sub_group q sbase SL k)) as E.
    rewrite proj_gmul in E. exact E.
  Qed.

  Lemma c_gmul_0_l : forall P : pt, cmul 0 P = O.
  Proof. reflexivity. Qed.

  Lemma c_gmul_1_l : forall P : pt, cmul 1 P = P.
  Proof. reflexivity. Qed.

  (* ----- the subgroup generated by B ----- *)

  Lemma in_sub_proj : forall P : spt,
      @in_sub sub_group sbase P <-> @in_sub (curve_group c) B (proj1_sig P).
  Proof.
    intros P. split; intros [k Hk]; exists k.
    - rewrite Hk, proj_gmul. reflexivity.
    - apply spt_eq. rewrite proj_gmul. exact Hk.
  Qed.

  Lemma in_sub_onc : forall P, @in_sub (curve_group c) B P -> onc P.
  Proof. intros P [k ->]. apply onc_gmul, onc_base. Qed.

  Lemma c_in_sub_B : forall k, @in_sub (curve_group c) B (cmul k B).
  Proof. intros k. exists k. reflexivity. Qed.

  Lemma c_in_sub_add : forall P Q, @in_sub (curve_group c) B P -> @in_sub (curve_group c) B Q ->
      @in_sub (curve_group c) B (padd P Q).
  Proof.
    intros P Q [a ->] [b ->]. exists (a + b). symmetry. apply c_gmul_add, onc_base.
  Qed.

  Lemma c_in_sub_mul : forall k P, @in_sub (curve_group c) B P ->
      @in_sub (curve_group c) B (cmul k P).
  Proof.
    intros k P [a ->]. exists (k * a). symmetry. apply c_gmul_mul, onc_base.
  Qed.

  Lemma c_gmul_mod_q : forall k, cmul (k mod q) B = cmul k B.
  Proof.
    intros k.
    pose proof (f_equal (@proj1_sig _ _) (gmul_mod_q sub_group q sbase SL k)) as E.
    rewrite !proj_gmul in E. exact E.
  Qed.

  Lemma c_gmul_mod_q_sub : forall P k, @in_sub (curve_group c) B P ->
      cmul (k mod q) P = cmul k P.
  Proof.
    intros P k HP. pose proof (in_sub_onc P HP) as Hon.
    assert (HP' : @in_sub sub_group sbase (smk P Hon)) by (apply in_sub_proj; exact HP).
    pose proof (f_equal (@proj1_sig _ _)
                  (gmul_mod_q_sub sub_group q sbase SL (smk P Hon) k HP')) as E.
    rewrite !proj_gmul in E. exact E.
  Qed.

  Lemma c_gmul_eqm_sub : forall P a b, @in_sub (curve_group c) B P ->
      a mod q = b mod q -> cmul a P = cmul b P.
  Proof.
    intros P a b HP E.
    rewrite <- (c_gmul_mod_q_sub P a HP), <- (c_gmul_mod_q_sub P b HP), E. reflexivity.
  Qed.

  Lemma c_gmul_eqm : forall a b, a mod q = b mod q -> cmul a B = cmul b B.
  Proof. intros a b. apply c_gmul_eqm_sub. exists 1. reflexivity. Qed.

  Lemma c_gmul_inj : forall a b, cmul a B = cmul b B -> a mod q = b mod q.
  Proof.
    intros a b E. apply (gmul_inj sub_group q sbase SL).
    apply spt_eq. rewrite !proj_gmul. exact E.
  Qed.

  Lemma c_gmul_inj_iff : forall a b, cmul a B = cmul b B <-> a mod q = b mod q.
  Proof. intros a b. split; [apply c_gmul_inj|apply c_gmul_eqm]. Qed.

  Lemma c_gmul_B_zero_iff : forall d, cmul d B = O <-> d mod q = 0.
  Proof.
    intros d. rewrite <- (gmul_B_zero_iff sub_group q sbase SL d). split.
    - intros E. apply spt_eq. rewrite proj_gmul. exact E.
    - intros E. apply (f_equal (@proj1_sig _ _)) in E. rewrite proj_gmul in E. exact E.
  Qed.

  Lemma c_gmul_q_sub : forall P, @in_sub (curve_group c) B P -> cmul q P = O.
  Proof.
    intros P HP. rewrite <- (c_gmul_mod_q_sub P q HP), Z.mod_same.
    - reflexivity.
    - pose proof q_gt_1_c. lia.
  Qed.

  (* ----- Schnorr identities ----- *)

  Lemma c_schnorr_complete : forall x a ch,
      cmul ((a + ch * x) mod q) B = padd (cmul a B) (cmul ch (cmul x B)).
  Proof.
    intros x a ch.
    pose proof (f_equal (@proj1_sig _ _) (schnorr_complete sub_group q sbase SL x a ch)) as E.
    cbn [gadd sub_group sadd proj1_sig] in E. rewrite !proj_gmul in E. exact E.
  Qed.

  Lemma c_schnorr_extract : forall X alpha ch ch' t t',
      onc alpha ->
      cmul t B = padd alpha (cmul ch X) ->
      cmul t' B = padd alpha (cmul ch' X) ->
      @in_sub (curve_group c) B X ->
      (ch - ch') mod q <> 0 ->
      exists x, X = cmul x B /\ ((ch - ch') * x) mod q = (t - t') mod q.
  Proof.
    intros X alpha ch ch' t t' Ha Ht Ht' HX Hc.
    pose proof (in_sub_onc X HX) as HonX.
    destruct (schnorr_extract sub_group q sbase SL (smk X HonX) (smk alpha Ha) ch ch' t t')
      as [x [Hx1 Hx2]].
    - apply spt_eq. cbn [gadd sub_group sadd proj1_sig]. rewrite !proj_gmul. exact Ht.
    - apply spt_eq. cbn [gadd sub_group sadd proj1_sig]. rewrite !proj_gmul. exact Ht'.
    - apply in_sub_proj. exact HX.
    - exact Hc.
    - exists x. split; [|exact Hx2].
      apply (f_equal (@proj1_sig _ _)) in Hx1. rewrite proj_gmul in Hx1. exact Hx1.
  Qed.

  (* ----- representability ----- *)

  (* an on-curve point is unrepresentable only on a Weierstrass curve, where it
     is the group zero *)
  Lemma unrep_is_zero : forall P, onc P -> representable P = false -> ck c = Weier /\ P = O.
  Proof.
    intros [xy|] HP Hr; [discriminate|].
    unfold onc, pt_on_curve in HP. unfold pt_zero.
    destruct (ck c); [split; reflexivity|discriminate].
  Qed.

  Lemma rep_zero : representable O = true <-> ck c = Edw.
  Proof. unfold pt_zero. destruct (ck c); cbn; split; congruence. Qed.

  Lemma rep_iff : forall P, onc P -> (representable P = true <-> (ck c = Edw \/ P <> O)).
  Proof.
    intros P HP. split.
    - intros Hr. destruct (ck c) eqn:E; [right|left; reflexivity].
      intros ->. apply rep_zero in Hr. congruence.
    - intros [E|NE].
      + destruct (representable P) eqn:Hr; [reflexivity|].
        destruct (unrep_is_zero P HP Hr) as [W _]. congruence.
      + destruct (representable P) eqn:Hr; [reflexivity|].
        destruct (unrep_is_zero P HP Hr) as [_ Z0]. contradiction.
  Qed.

  Lemma rep_gmul_B : forall k, representable (cmul k B) = true <-> (ck c = Edw \/ k mod q <> 0).
  Proof.
    intros k. rewrite rep_iff by (apply onc_gmul, onc_base).
    rewrite c_gmul_B_zero_iff. reflexivity.
  Qed.

  Lemma rep_base : representable B = true.
  Proof. reflexivity. Qed.

  (* ----- the wrapper operations ----- *)

  Lemma ec_smul_Ok : forall P k R, ec_smul c P k = Ok R <->
      (R = cmul (Z.abs k) P /\ representable R = true).
  Proof.
    intros P k R. unfold ec_smul.
    destruct (representable (cmul (Z.abs k) P)) eqn:Hr; split.
    - intros E. injection E as <-. split; [reflexivity|exact Hr].
    - intros [-> _]. reflexivity.
    - discriminate.
    - intros [-> Hr']. congruence.
  Qed.

  Lemma ec_smul_rep : forall P k, representable (cmul (Z.abs k) P) = true ->
      ec_smul c P k = Ok (cmul (Z.abs k) P).
  Proof. intros P k Hr. unfold ec_smul. rewrite Hr. reflexivity. Qed.

  Lemma ec_smul_unrep : forall P k, representable (cmul (Z.abs k) P) = false ->
      ec_smul c P k = Panic.
  Proof. intros P k Hr. unfold ec_smul. rewrite Hr. reflexivity. Qed.

  Lemma ec_smul_cases : forall P k,
      (ec_smul c P k = Ok (cmul (Z.abs k) P) /\ representable (cmul (Z.abs k) P) = true)
      \/ (ec_smul c P k = Panic /\ representable (cmul (Z.abs k) P) = false).
  Proof.
    intros P k. unfold ec_smul. destruct (representable (cmul (Z.abs k) P)); auto.
  Qed.

  Lemma ec_add_rep : forall P Q, representable (padd P Q) = true -> ec_add c P Q = Ok (padd P Q).
  Proof. intros P Q Hr. unfold ec_add. rewrite Hr. reflexivity. Qed.

  Lemma ec_add_unrep : forall P Q, representable (padd P Q) = false -> ec_add c P Q = Err.
  Proof. intros P Q Hr. unfold ec_add. rewrite Hr. reflexivity. Qed.

  Lemma ec_add_cases : forall P Q,
      (ec_add c P Q = Ok (padd P Q) /\ representable (padd P Q) = true)
      \/ (ec_add c P Q = Err /\ representable (padd P Q) = false).
  Proof. intros P Q. unfold ec_add. destruct (representable (padd P Q)); auto. Qed.

End CurveLaws.

(* ------------------------------------------------------------------ *)
(* an exhaustive boolean checker for small curves *)

Definition zrange (n : Z) : list Z := map Z.of_nat (seq 0 (Z.to_nat n)).

Lemma zrange_In : forall n x, 0 <= x < n -> In x (zrange n).
Proof.
  intros n x Hx. unfold zrange. apply in_map_iff. exists (Z.to_nat x). split.
  - lia.
  - apply in_seq. lia.
Qed.

Definition all_pts (c : curve) : list pt :=
  None :: flat_map (fun x => map (fun y => Some (x, y)) (zrange (cp c))) (zrange (cp c)).

Definition on_pts (c : curve) : list pt := filter (pt_on_curve c) (all_pts c).

Lemma on_pts_complete : forall c P, onc c P -> In P (on_pts c).
Proof.
  intros c P HP. unfold on_pts. apply filter_In. split; [|exact HP].
  unfold all_pts. destruct P as [[x y]|]; [right|left; reflexivity].
  unfold onc, pt_on_curve, on_curve, in_field in HP.
  apply andb_true_iff in HP. destruct HP as [HP _].
  apply andb_true_iff in HP. destruct HP as [Hx Hy].
  apply andb_true_iff in Hx. destruct Hx as [Hx1 Hx2].
  apply andb_true_iff in Hy. destruct Hy as [Hy1 Hy2].
  apply Z.leb_le in Hx1, Hy1. apply Z.ltb_lt in Hx2, Hy2.
  apply in_flat_map. exists x. split; [apply zrange_In; lia|].
  apply in_map_iff. exists y. split; [reflexivity|apply zrange_In; lia].
Qed.

Lemma on_pts_sound : forall c P, In P (on_pts c) -> onc c P.
Proof. intros c P H. apply filter_In in H. exact (proj2 H). Qed.

Definition curve_laws_check (c : curve) : bool :=
  let ps := on_pts c in
  let add := pt_add c in
  forallb (fun P => forallb (fun Q => pt_on_curve c (add P Q)) ps) ps
  && forallb (fun P => pt_on_curve c (pt_neg c P)) ps
  && pt_on_curve c (pt_zero c)
  && pt_on_curve c (base c)
  && forallb (fun a => forallb (fun b => forallb (fun d =>
        pt_eqb (add a (add b d)) (add (add a b) d)) ps) ps) ps
  && forallb (fun a => forallb (fun b => pt_eqb (add a b) (add b a)) ps) ps
  && forallb (fun a => pt_eqb (add (pt_zero c) a) a) ps
  && forallb (fun a => pt_eqb (add a (pt_neg c a)) (pt_zero c)) ps
  && prime_check (cq c)
  && pt_eqb (@gmul (curve_group c) (cq c) (base c)) (pt_zero c)
  && negb (pt_eqb (base c) (pt_zero c)).

Lemma curve_laws_check_sound : forall c, curve_laws_check c = true -> curve_laws c.
Proof.
  intros c H. unfold curve_laws_check in H.
  rewrite !andb_true_iff in H.
  destruct H as [[[[[[[[[[K10 K9] K8] K7] K6] K5] K4] K3] K2] K1] K0].
  constructor.
  - intros P Q HP HQ. rewrite forallb_forall in K10.
    specialize (K10 P (on_pts_complete c P HP)). rewrite forallb_forall in K10.
    exact (K10 Q (on_pts_complete c Q HQ)).
  - intros P HP. rewrite forallb_forall in K9. exact (K9 P (on_pts_complete c P HP)).
  - exact K8.
  - exact K7.
  - intros a b d Ha Hb Hd. rewrite forallb_forall in K6.
    specialize (K6 a (on_pts_complete c a Ha)). rewrite forallb_forall in K6.
    specialize (K6 b (on_pts_complete c b Hb)). rewrite forallb_forall in K6.
    specialize (K6 d (on_pts_complete c d Hd)). apply pt_eqb_eq in K6. exact K6.
  - intros a b Ha Hb. rewrite forallb_forall in K5.
    specialize (K5 a (on_pts_complete c a Ha)). rewrite forallb_forall in K5.
    specialize (K5 b (on_pts_complete c b Hb)). apply pt_eqb_eq in K5. exact K5.
  - intros a Ha. rewrite forallb_forall in K4.
    specialize (K4 a (on_pts_complete c a Ha)). apply pt_eqb_eq in K4. exact K4.
  - intros a Ha. rewrite forallb_forall in K3.
    specialize (K3 a (on_pts_complete c a Ha)). apply pt_eqb_eq in K3. exact K3.
  - apply prime_check_sound. exact K2.
  - apply pt_eqb_eq. exact K1.
  - apply negb_true_iff in K0. apply pt_eqb_neq in K0. exact K0.
Qed.

(* ------------------------------------------------------------------ *)
(* toy instances *)

(* y^2 = x^3 + 7 over F_43: 31 points (prime), generator (2,12) *)
Definition toyW43 : curve := mkCurve Weier 43 0 7 31 2 12.
(* -x^2 + y^2 = 1 + 2 x^2 y^2 over F_29: 28 points, base of prime order 7 *)
Definition toyE : curve := mkCurve Edw 29 (-1) 2 7 2 22.

Lemma toyW_laws : curve_laws toyW.
Proof. apply curve_laws_check_sound. vm_compute. reflexivity. Qed.

Lemma toyW43_laws : curve_laws toyW43.
Proof. apply curve_laws_check_sound. vm_compute. reflexivity. Qed.

Lemma toyE_laws : curve_laws toyE.
Proof. apply curve_laws_check_sound. vm_compute. reflexivity. Qed.

Print Assumptions group_laws_unsat_edw.
Print Assumptions group_laws_unsat_toyW.
Print Assumptions sub_laws.
Print Assumptions c_schnorr_extract.
Print Assumptions curve_laws_check_sound.
Print Assumptions toyW43_laws.
Print Assumptions toyE_laws.
