(* C12, static part: re-proved on every run against the transcripts the translator extracts from /repo/crypto/**. *)
From Coq Require Import List String Bool.
From TSS Require Import Model.TranscriptSpec Gen.Transcripts.
Import ListNotations.
Open Scope string_scope.

(* the challenge hashes in the source are exactly the specified ones: same functions, same kind and tag, same components in the same order *)
Theorem transcripts_as_specified : transcripts_eqb transcripts expected_transcripts = true.
Proof. vm_compute. reflexivity. Qed.

(* in the specified transcripts prover and verifier hash the same components (up to the case of local names) ... *)
Theorem prover_verifier_agree :
  forallb (pair_agrees expected_transcripts) prover_verifier_pairs = true /\
  pair_agrees_in expected_transcripts "crypto/facproof/proof.go" ("NewProof", "ProofFac.Verify") = true /\
  pair_agrees_in expected_transcripts "crypto/modproof/proof.go" ("NewProof", "ProofMod.Verify") = true.
Proof. vm_compute. repeat split; reflexivity. Qed.

(* ... and every proof that takes a session string hashes under it *)
Theorem session_proofs_are_tagged : session_tagged expected_transcripts = true.
Proof. vm_compute. reflexivity. Qed.

Lemma string_eqb_eq : forall a b, String.eqb a b = true -> a = b.
Proof. intros a b H. apply String.eqb_eq. exact H. Qed.

(* hence the same holds of the source as it is now *)
Theorem source_prover_verifier_agree :
  forallb (pair_agrees transcripts) prover_verifier_pairs = true /\ session_tagged transcripts = true.
Proof. vm_compute. split; reflexivity. Qed.

(* the session strings of the five protocols that compute one bind the run's own curve, the committee, the round and the nonce *)
Theorem session_strings_bind_run_context : session_strings_bind transcripts = true.
Proof. vm_compute. reflexivity. Qed.

Print Assumptions transcripts_as_specified.
Print Assumptions session_strings_bind_run_context.
Print Assumptions prover_verifier_agree.
Print Assumptions session_proofs_are_tagged.
Print Assumptions source_prover_verifier_agree.
