(* C05 - the peer whose message fails a check is the one blamed; a peer whose messages pass every
   check is never blamed.  Statements about Model/BlameLoop.v. *)
From Coq Require Import List Arith Bool Lia Sorted Permutation.
From TSS Require Import Model.BlameLoop.
Import ListNotations.

(* ====================================================================== *)
(* generic facts                                                          *)
(* ====================================================================== *)

Lemma upd_length : forall (A : Type) (l : list A) (j : nat) (x : A), length (upd j x l) = length l.
Proof.
  intros A l. induction l as [|a r IH]; intros j x.
  - destruct j; reflexivity.
  - destruct j as [|j']; simpl; [reflexivity | rewrite IH; reflexivity].
Qed.

Lemma nth_upd_eq : forall (A : Type) (l : list A) (j : nat) (x d : A),
  j < length l -> nth j (upd j x l) d = x.
Proof.
  intros A l. induction l as [|a r IH]; intros j x d Hj.
  - simpl in Hj. lia.
  - destruct j as [|j']; simpl; [reflexivity | apply IH; simpl in Hj; lia].
Qed.

Lemma nth_upd_neq : forall (A : Type) (l : list A) (j k : nat) (x d : A),
  k <> j -> nth k (upd j x l) d = nth k l d.
Proof.
  intros A l. induction l as [|a r IH]; intros j k x d Hne.
  - destruct j; reflexivity.
  - destruct j as [|j']; destruct k as [|k']; simpl; try reflexivity; try lia.
    apply IH. lia.
Qed.

Lemma imap_length : forall (A B : Type) (f : nat -> A -> B) (l : list A) (i : nat),
  length (imap f i l) = length l.
Proof.
  intros A B f l. induction l as [|a r IH]; intros i; simpl; [reflexivity | rewrite IH; reflexivity].
Qed.

Lemma nth_imap : forall (A B : Type) (f : nat -> A -> B) (l : list A) (i k : nat) (da : A) (db : B),
  k < length l -> nth k (imap f i l) db = f (i + k) (nth k l da).
Proof.
  intros A B f l. induction l as [|a r IH]; intros i k da db Hk.
  - simpl in Hk. lia.
  - destruct k as [|k']; simpl.
    + rewrite Nat.add_0_r. reflexivity.
    + rewrite (IH (S i) k' da db) by (simpl in Hk; lia).
      replace (S i + k') with (i + S k') by lia. reflexivity.
Qed.

(* two strictly ascending lists with the same members are equal *)
Lemma sorted_lt_ext : forall l1 l2 : list nat,
  StronglySorted lt l1 -> StronglySorted lt l2 ->
  (forall x, In x l1 <-> In x l2) -> l1 = l2.
Proof.
  intros l1. induction l1 as [|a r1 IH]; intros l2 H1 H2 Hmem.
  - destruct l2 as [|b r2]; [reflexivity|].
    exfalso. apply (proj2 (Hmem b)). left. reflexivity.
  - destruct l2 as [|b r2].
    + exfalso. apply (proj1 (Hmem a)). left. reflexivity.
    + inversion H1 as [|a' r1' Hs1 Hf1]; subst.
      inversion H2 as [|b' r2' Hs2 Hf2]; subst.
      rewrite Forall_forall in Hf1, Hf2.
      assert (Hab : a = b).
      { destruct (proj1 (Hmem a) (or_introl eq_refl)) as [Ha|Ha]; [symmetry; exact Ha|].
        destruct (proj2 (Hmem b) (or_introl eq_refl)) as [Hb|Hb]; [exact Hb|].
        specialize (Hf2 a Ha). specialize (Hf1 b Hb). lia. }
      subst b. f_equal. apply IH; [exact Hs1 | exact Hs2 |].
      intros x. split; intros Hx.
      * destruct (proj1 (Hmem x) (or_intror Hx)) as [Hxa|Hxr]; [|exact Hxr].
        specialize (Hf1 x Hx). lia.
      * destruct (proj2 (Hmem x) (or_intror Hx)) as [Hxa|Hxr]; [|exact Hxr].
        specialize (Hf2 x Hx). lia.
Qed.

Lemma sorted_lt_NoDup : forall l : list nat, StronglySorted lt l -> NoDup l.
Proof.
  intros l H. induction H as [|a r Hs IH Hf].
  - constructor.
  - constructor; [|exact IH]. intros Hin. rewrite Forall_forall in Hf.
    specialize (Hf a Hin). lia.
Qed.

Section WalkFacts.
  Context {A : Type}.
  Variable v : nat -> A -> bool.
  Variable d : A.
  Hypothesis v_d : forall j, v j d = false.     (* a missing position is never refused *)

  Lemma first_from_ge : forall (l : list A) (i j : nat), first_from v i l = Some j -> i <= j.
  Proof.
    intros l. induction l as [|a r IH]; intros i j H; simpl in H.
    - discriminate.
    - destruct (v i a).
      + inversion H. lia.
      + apply IH in H. lia.
  Qed.

  (* [first_from] returns i+k exactly when k is the lowest refused offset *)
  Lemma first_from_Some : forall (l : list A) (i j : nat),
    first_from v i l = Some j <->
    exists k, j = i + k /\ v (i + k) (nth k l d) = true /\
              forall k', k' < k -> v (i + k') (nth k' l d) = false.
  Proof.
    intros l. induction l as [|a r IH]; intros i j; simpl.
    - split; [discriminate|]. intros [k [_ [Hv _]]].
      destruct k; simpl in Hv; rewrite v_d in Hv; discriminate.
    - destruct (v i a) eqn:Hva.
      + split.
        * intros H. inversion H; subst j. exists 0. rewrite Nat.add_0_r.
          split; [reflexivity|]. split; [exact Hva|]. intros k' Hk'. lia.
        * intros [k [Hj [Hv Hlow]]]. destruct k as [|k].
          -- rewrite Nat.add_0_r in Hj. subst j. reflexivity.
          -- specialize (Hlow 0 (Nat.lt_0_succ k)). rewrite Nat.add_0_r in Hlow. simpl in Hlow.
             rewrite Hva in Hlow. discriminate.
      + rewrite IH. split.
        * intros [k [Hj [Hv Hlow]]]. exists (S k).
          split; [lia|]. split.
          -- replace (i + S k) with (S i + k) by lia. exact Hv.
          -- intros k' Hk'. destruct k' as [|k'].
             ++ rewrite Nat.add_0_r. exact Hva.
             ++ replace (i + S k') with (S i + k') by lia. apply Hlow. lia.
        * intros [k [Hj [Hv Hlow]]]. destruct k as [|k].
          -- rewrite Nat.add_0_r in Hv. simpl in Hv. rewrite Hva in Hv. discriminate.
          -- exists k. split; [lia|]. split.
             ++ replace (S i + k) with (i + S k) by lia. exact Hv.
             ++ intros k' Hk'. replace (S i + k') with (i + S k') by lia.
                apply (Hlow (S k')). lia.
  Qed.

  Lemma first_from_None : forall (l : list A) (i : nat),
    first_from v i l = None <-> forall k, v (i + k) (nth k l d) = false.
  Proof.
    intros l. induction l as [|a r IH]; intros i; simpl.
    - split; [|reflexivity]. intros _ k. destruct k; apply v_d.
    - destruct (v i a) eqn:Hva.
      + split; [discriminate|]. intros H. specialize (H 0). rewrite Nat.add_0_r in H.
        simpl in H. rewrite Hva in H. discriminate.
      + rewrite IH. split.
        * intros H k. destruct k as [|k].
          -- rewrite Nat.add_0_r. exact Hva.
          -- replace (i + S k) with (S i + k) by lia. apply H.
        * intros H k. replace (S i + k) with (i + S k) by lia. apply (H (S k)).
  Qed.

  Lemma all_from_In : forall (l : list A) (i j : nat),
    In j (all_from v i l) <-> exists k, j = i + k /\ v (i + k) (nth k l d) = true.
  Proof.
    intros l. induction l as [|a r IH]; intros i j; simpl.
    - split; [intros []|]. intros [k [_ Hv]]. destruct k; rewrite v_d in Hv; discriminate.
    - assert (Htail : In j (all_from v (S i) r) <->
                      exists k, j = i + S k /\ v (i + S k) (nth k r d) = true).
      { rewrite IH. split; intros [k [Hj Hv]]; exists k.
        - replace (i + S k) with (S i + k) by lia. split; assumption.
        - replace (S i + k) with (i + S k) by lia. split; assumption. }
      destruct (v i a) eqn:Hva; simpl.
      + split.
        * intros [Hij|Hin].
          -- exists 0. rewrite Nat.add_0_r. split; [symmetry; exact Hij | exact Hva].
          -- apply Htail in Hin. destruct Hin as [k [Hj Hv]]. exists (S k). split; assumption.
        * intros [k [Hj Hv]]. destruct k as [|k].
          -- left. lia.
          -- right. apply Htail. exists k. split; assumption.
      + rewrite Htail. split.
        * intros [k [Hj Hv]]. exists (S k). split; assumption.
        * intros [k [Hj Hv]]. destruct k as [|k].
          -- rewrite Nat.add_0_r in Hv. simpl in Hv. rewrite Hva in Hv. discriminate.
          -- exists k. split; assumption.
  Qed.
End WalkFacts.

Lemma all_from_lower : forall (A : Type) (v : nat -> A -> bool) (l : list A) (i : nat),
  Forall (fun j => i <= j) (all_from v i l).
Proof.
  intros A v l. induction l as [|a r IH]; intros i; simpl.
  - constructor.
  - assert (Hr : Forall (fun j => i <= j) (all_from v (S i) r)).
    { eapply Forall_impl; [|apply IH]. intros j Hj. simpl in Hj. lia. }
    destruct (v i a); [constructor; [lia | exact Hr] | exact Hr].
Qed.

Lemma all_from_sorted : forall (A : Type) (v : nat -> A -> bool) (l : list A) (i : nat),
  StronglySorted lt (all_from v i l).
Proof.
  intros A v l. induction l as [|a r IH]; intros i; simpl.
  - constructor.
  - destruct (v i a); [|apply IH].
    constructor; [apply IH|].
    eapply Forall_impl; [|apply (all_from_lower A v r (S i))]. intros j Hj. simpl in Hj. lia.
Qed.

(* the first element of the accumulated list is what the early-return walk finds *)
Lemma all_from_hd : forall (A : Type) (v : nat -> A -> bool) (l : list A) (i : nat),
  hd_error (all_from v i l) = first_from v i l.
Proof.
  intros A v l. induction l as [|a r IH]; intros i; simpl.
  - reflexivity.
  - destruct (v i a); [reflexivity | apply IH].
Qed.

Lemma filter_sorted : forall (f : nat -> bool) (l : list nat),
  StronglySorted lt l -> StronglySorted lt (filter f l).
Proof.
  intros f l H. induction H as [|a r Hs IH Hf]; simpl.
  - constructor.
  - destruct (f a); [|exact IH]. constructor; [exact IH|].
    rewrite Forall_forall in *. intros x Hx. apply filter_In in Hx. apply Hf. apply Hx.
Qed.

Lemma seq_sorted : forall n i : nat, StronglySorted lt (seq i n).
Proof.
  intros n. induction n as [|n IH]; intros i; simpl.
  - constructor.
  - constructor; [apply IH|]. rewrite Forall_forall. intros x Hx. apply in_seq in Hx. lia.
Qed.

(* ====================================================================== *)
(* shapes A and B                                                         *)
(* ====================================================================== *)
Section AB.
  Variable Msg : Type.
  Variable check : nat -> Msg -> bool.

  Notation store := (list (option Msg)).

  Lemma get_Some : forall (msgs : store) (j : nat) (m : Msg),
    get msgs j = Some m <-> nth_error msgs j = Some (Some m).
  Proof.
    unfold get. intros msgs. induction msgs as [|om r IH]; intros j m.
    - destruct j; simpl; split; discriminate.
    - destruct j as [|j]; simpl.
      + split; intros H; [rewrite H; reflexivity | inversion H; reflexivity].
      + apply IH.
  Qed.

  Lemma get_out_of_range : forall (msgs : store) (j : nat), length msgs <= j -> get msgs j = None.
  Proof. intros msgs j H. unfold get. apply nth_overflow. exact H. Qed.

  Lemma verdict_None : forall self j, verdict check self j None = false.
  Proof. intros self j. unfold verdict. simpl. apply andb_false_r. Qed.

  (* the loop refuses position j iff j is another party, something was received from j, and it fails *)
  Lemma verdict_true : forall (self j : nat) (msgs : store),
    verdict check self j (get msgs j) = true <->
    j <> self /\ exists m, nth_error msgs j = Some (Some m) /\ check j m = false.
  Proof.
    intros self j msgs. unfold verdict. rewrite andb_true_iff, negb_true_iff, Nat.eqb_neq.
    split.
    - intros [Hne Hf]. split; [exact Hne|]. destruct (get msgs j) as [m|] eqn:Hg; simpl in Hf.
      + exists m. split; [apply get_Some; exact Hg|]. apply negb_true_iff. exact Hf.
      + discriminate.
    - intros [Hne [m [Hn Hc]]]. split; [exact Hne|]. apply get_Some in Hn. rewrite Hn. simpl.
      rewrite Hc. reflexivity.
  Qed.

  Lemma verdict_false_of_pass : forall (self j : nat) (msgs : store) (m : Msg),
    nth_error msgs j = Some (Some m) -> check j m = true -> verdict check self j (get msgs j) = false.
  Proof.
    intros self j msgs m Hn Hc. apply get_Some in Hn. unfold verdict. rewrite Hn. simpl.
    rewrite Hc. apply andb_false_r.
  Qed.

  Lemma failing_In : forall (self : nat) (msgs : store) (j : nat),
    In j (failing check self msgs) <-> verdict check self j (get msgs j) = true.
  Proof.
    intros self msgs j. unfold failing. rewrite filter_In, in_seq. split.
    - intros [_ H]. exact H.
    - intros H. split; [|exact H]. split; [lia|]. simpl.
      destruct (Nat.lt_ge_cases j (length msgs)) as [Hlt|Hge]; [exact Hlt|].
      rewrite (get_out_of_range msgs j Hge), verdict_None in H. discriminate.
  Qed.

  Lemma failing_spec : forall (self : nat) (msgs : store) (j : nat),
    In j (failing check self msgs) <->
    j <> self /\ exists m, nth_error msgs j = Some (Some m) /\ check j m = false.
  Proof. intros self msgs j. rewrite failing_In. apply verdict_true. Qed.

  Lemma failing_sorted : forall self msgs, StronglySorted lt (failing check self msgs).
  Proof. intros self msgs. unfold failing. apply filter_sorted. apply seq_sorted. Qed.

  (* ---------------- 1. shape A ---------------- *)

  Lemma scan_first_char : forall (self : nat) (msgs : store) (j : nat),
    scan_first check self msgs = Some j <->
    verdict check self j (get msgs j) = true /\
    forall k, k < j -> verdict check self k (get msgs k) = false.
  Proof.
    intros self msgs j. unfold scan_first.
    rewrite (first_from_Some (verdict check self) None (verdict_None self) msgs 0 j).
    simpl. split.
    - intros [k [Hj [Hv Hlow]]]. subst j. split; assumption.
    - intros [Hv Hlow]. exists j. split; [reflexivity|]. split; assumption.
  Qed.

  Theorem scan_first_sound : forall (self : nat) (msgs : store) (j : nat),
    scan_first check self msgs = Some j ->
    j <> self /\ exists m, nth_error msgs j = Some (Some m) /\ check j m = false.
  Proof.
    intros self msgs j H. apply scan_first_char in H. destruct H as [Hv _].
    apply verdict_true. exact Hv.
  Qed.

  Theorem scan_first_lowest : forall (self : nat) (msgs : store) (j : nat),
    scan_first check self msgs = Some j ->
    forall k, k < j -> ~ In k (failing check self msgs).
  Proof.
    intros self msgs j H k Hk Hin. apply scan_first_char in H. destruct H as [_ Hlow].
    apply failing_In in Hin. rewrite (Hlow k Hk) in Hin. discriminate.
  Qed.

  (* in terms of the messages: every lower peer either is self, sent nothing, or passes *)
  Corollary scan_first_lowest_msgs : forall (self : nat) (msgs : store) (j : nat),
    scan_first check self msgs = Some j ->
    forall k m, k < j -> k <> self -> nth_error msgs k = Some (Some m) -> check k m = true.
  Proof.
    intros self msgs j H k m Hk Hne Hn.
    destruct (check k m) eqn:Hc; [reflexivity|]. exfalso.
    apply (scan_first_lowest self msgs j H k Hk). apply failing_spec.
    split; [exact Hne|]. exists m. split; assumption.
  Qed.

  Theorem scan_first_None_iff : forall (self : nat) (msgs : store),
    scan_first check self msgs = None <-> failing check self msgs = [].
  Proof.
    intros self msgs. unfold scan_first.
    rewrite (first_from_None (verdict check self) None (verdict_None self) msgs 0). simpl.
    split.
    - intros H. destruct (failing check self msgs) as [|j r] eqn:Hf; [reflexivity|]. exfalso.
      assert (Hin : In j (failing check self msgs)) by (rewrite Hf; left; reflexivity).
      apply failing_In in Hin. unfold get in Hin. rewrite (H j) in Hin. discriminate.
    - intros Hf k. fold (get msgs k).
      destruct (verdict check self k (get msgs k)) eqn:Hv; [|reflexivity]. exfalso.
      apply failing_In in Hv. rewrite Hf in Hv. exact Hv.
  Qed.

  Theorem scan_first_None_msgs : forall (self : nat) (msgs : store),
    scan_first check self msgs = None <->
    forall j m, j <> self -> nth_error msgs j = Some (Some m) -> check j m = true.
  Proof.
    intros self msgs. rewrite scan_first_None_iff. split.
    - intros Hf j m Hne Hn. destruct (check j m) eqn:Hc; [reflexivity|]. exfalso.
      assert (Hin : In j (failing check self msgs)).
      { apply failing_spec. split; [exact Hne|]. exists m. split; assumption. }
      rewrite Hf in Hin. exact Hin.
    - intros H. destruct (failing check self msgs) as [|j r] eqn:Hf; [reflexivity|]. exfalso.
      assert (Hin : In j (failing check self msgs)) by (rewrite Hf; left; reflexivity).
      apply failing_spec in Hin. destruct Hin as [Hne [m [Hn Hc]]].
      rewrite (H j m Hne Hn) in Hc. discriminate.
  Qed.

  Theorem scan_first_complete : forall (self : nat) (msgs : store),
    failing check self msgs <> [] -> exists j, scan_first check self msgs = Some j.
  Proof.
    intros self msgs Hne. destruct (scan_first check self msgs) as [j|] eqn:Hs.
    - exists j. reflexivity.
    - exfalso. apply Hne. apply scan_first_None_iff. exact Hs.
  Qed.

  (* the blamed peer is exactly the head of the specification list *)
  Theorem scan_first_is_hd_failing : forall (self : nat) (msgs : store),
    scan_first check self msgs = hd_error (failing check self msgs).
  Proof.
    intros self msgs. destruct (scan_first check self msgs) as [j|] eqn:Hs.
    - pose proof (scan_first_lowest self msgs j Hs) as Hlow.
      apply scan_first_char in Hs. destruct Hs as [Hv _]. apply failing_In in Hv.
      pose proof (failing_sorted self msgs) as Hsort.
      destruct (failing check self msgs) as [|a r]; [destruct Hv|]. simpl.
      destruct Hv as [Haj|Hin]; [rewrite Haj; reflexivity|].
      inversion Hsort as [|a' r' _ Hf]; subst. rewrite Forall_forall in Hf. specialize (Hf j Hin).
      exfalso. apply (Hlow a Hf). left. reflexivity.
    - apply scan_first_None_iff in Hs. rewrite Hs. reflexivity.
  Qed.

  Theorem honest_never_blamed_A : forall (self : nat) (msgs : store) (j : nat) (m : Msg),
    nth_error msgs j = Some (Some m) -> check j m = true -> scan_first check self msgs <> Some j.
  Proof.
    intros self msgs j m Hn Hc Hs. apply scan_first_sound in Hs.
    destruct Hs as [_ [m' [Hn' Hc']]]. rewrite Hn in Hn'. inversion Hn'; subst m'.
    rewrite Hc in Hc'. discriminate.
  Qed.

  (* nor is the party itself, nor a peer from which nothing was received *)
  Theorem self_never_blamed_A : forall (self : nat) (msgs : store),
    scan_first check self msgs <> Some self.
  Proof. intros self msgs Hs. apply scan_first_sound in Hs. destruct Hs as [Hne _]. apply Hne. reflexivity. Qed.

  Theorem silent_never_blamed_A : forall (self : nat) (msgs : store) (j : nat),
    get msgs j = None -> scan_first check self msgs <> Some j.
  Proof.
    intros self msgs j Hg Hs. apply scan_first_sound in Hs. destruct Hs as [_ [m [Hn _]]].
    apply get_Some in Hn. rewrite Hg in Hn. discriminate.
  Qed.

  (* ---------------- 2./4. shape B ---------------- *)

  Definition verdict_slots (self : nat) (msgs : store) : list bool :=
    imap (verdict check self) 0 msgs.

  Lemma write_slot_length : forall self msgs s j, length (write_slot check self msgs s j) = length s.
  Proof.
    intros self msgs s j. unfold write_slot.
    destruct (verdict check self j (get msgs j)); [apply upd_length | reflexivity].
  Qed.

  Lemma fold_write_length : forall self msgs order s,
    length (fold_left (write_slot check self msgs) order s) = length s.
  Proof.
    intros self msgs order. induction order as [|j o IH]; intros s; simpl.
    - reflexivity.
    - rewrite IH. apply write_slot_length.
  Qed.

  (* slot k after the writes [order] : its initial value, or'ed with "k was processed and fails" *)
  Lemma fold_write_nth : forall self msgs order s k,
    k < length s ->
    nth k (fold_left (write_slot check self msgs) order s) false =
    nth k s false || (existsb (Nat.eqb k) order && verdict check self k (get msgs k)).
  Proof.
    intros self msgs order. induction order as [|j o IH]; intros s k Hk; simpl.
    - rewrite orb_false_r. reflexivity.
    - rewrite IH by (rewrite write_slot_length; exact Hk).
      unfold write_slot. destruct (Nat.eqb_spec k j) as [Hkj|Hkj].
      + subst j. destruct (verdict check self k (get msgs k)) eqn:Hv.
        * rewrite nth_upd_eq by exact Hk. simpl. rewrite orb_true_r. reflexivity.
        * simpl. rewrite !andb_false_r. reflexivity.
      + simpl. destruct (verdict check self j (get msgs j)); [|reflexivity].
        rewrite nth_upd_neq by exact Hkj. reflexivity.
  Qed.

  Lemma run_order_length : forall self msgs order, length (run_order check self msgs order) = length msgs.
  Proof. intros self msgs order. unfold run_order. rewrite fold_write_length. apply repeat_length. Qed.

  (* the final slots do not depend on the completion order, as soon as every index was processed *)
  Lemma run_order_slots : forall (self : nat) (msgs : store) (order : list nat),
    (forall j, j < length msgs -> In j order) ->
    run_order check self msgs order = verdict_slots self msgs.
  Proof.
    intros self msgs order Hall. apply (nth_ext _ _ false false).
    - rewrite run_order_length. unfold verdict_slots. rewrite imap_length. reflexivity.
    - intros k Hk. rewrite run_order_length in Hk. unfold run_order.
      rewrite fold_write_nth by (rewrite repeat_length; exact Hk).
      rewrite nth_repeat. simpl.
      assert (He : existsb (Nat.eqb k) order = true).
      { apply existsb_exists. exists k. split; [apply Hall; exact Hk | apply Nat.eqb_refl]. }
      rewrite He. simpl. unfold verdict_slots.
      rewrite (nth_imap _ _ (verdict check self) msgs 0 k None false Hk). reflexivity.
  Qed.

  Theorem accumulate_order_independent : forall (self : nat) (msgs : store) (order : list nat),
    Permutation order (seq 0 (length msgs)) ->
    run_order check self msgs order = run_order check self msgs (seq 0 (length msgs)) /\
    accumulate_in_order check self msgs order = scan_accumulate check self msgs.
  Proof.
    intros self msgs order Hperm.
    assert (H1 : run_order check self msgs order = verdict_slots self msgs).
    { apply run_order_slots. intros j Hj. apply (Permutation_in j (Permutation_sym Hperm)).
      apply in_seq. lia. }
    assert (H2 : run_order check self msgs (seq 0 (length msgs)) = verdict_slots self msgs).
    { apply run_order_slots. intros j Hj. apply in_seq. lia. }
    split.
    - rewrite H1, H2. reflexivity.
    - unfold scan_accumulate, accumulate_in_order. rewrite H1, H2. reflexivity.
  Qed.

  (* two arbitrary interleavings agree; repeated writes are harmless too *)
  Corollary accumulate_any_two_orders : forall (self : nat) (msgs : store) (o1 o2 : list nat),
    (forall j, j < length msgs -> In j o1) -> (forall j, j < length msgs -> In j o2) ->
    accumulate_in_order check self msgs o1 = accumulate_in_order check self msgs o2.
  Proof.
    intros self msgs o1 o2 H1 H2. unfold accumulate_in_order.
    rewrite (run_order_slots self msgs o1 H1), (run_order_slots self msgs o2 H2). reflexivity.
  Qed.

  Lemma culprits_of_imap : forall (A : Type) (v : nat -> A -> bool) (l : list A) (i : nat),
    all_from (fun _ b => b) i (imap v i l) = all_from v i l.
  Proof.
    intros A v l. induction l as [|a r IH]; intros i; simpl.
    - reflexivity.
    - rewrite IH. reflexivity.
  Qed.

  Lemma first_of_imap : forall (A : Type) (v : nat -> A -> bool) (l : list A) (i : nat),
    first_from (fun _ b => b) i (imap v i l) = first_from v i l.
  Proof.
    intros A v l. induction l as [|a r IH]; intros i; simpl.
    - reflexivity.
    - rewrite IH. reflexivity.
  Qed.

  Lemma scan_accumulate_walk : forall self msgs,
    scan_accumulate check self msgs = all_from (verdict check self) 0 msgs.
  Proof.
    intros self msgs. unfold scan_accumulate, accumulate_in_order, culprits_of_slots.
    rewrite run_order_slots by (intros j Hj; apply in_seq; lia).
    unfold verdict_slots. apply culprits_of_imap.
  Qed.

  Lemma scan_accumulate_In : forall self msgs j,
    In j (scan_accumulate check self msgs) <-> verdict check self j (get msgs j) = true.
  Proof.
    intros self msgs j. rewrite scan_accumulate_walk.
    rewrite (all_from_In (verdict check self) None (verdict_None self) msgs 0 j). simpl. split.
    - intros [k [Hj Hv]]. subst j. exact Hv.
    - intros Hv. exists j. split; [reflexivity | exact Hv].
  Qed.

  Theorem scan_accumulate_exact : forall (self : nat) (msgs : store),
    (forall j, In j (scan_accumulate check self msgs) <-> In j (failing check self msgs)) /\
    StronglySorted lt (scan_accumulate check self msgs) /\
    NoDup (scan_accumulate check self msgs).
  Proof.
    intros self msgs.
    assert (Hs : StronglySorted lt (scan_accumulate check self msgs)).
    { rewrite scan_accumulate_walk. apply all_from_sorted. }
    split; [|split].
    - intros j. rewrite scan_accumulate_In, failing_In. reflexivity.
    - exact Hs.
    - apply sorted_lt_NoDup. exact Hs.
  Qed.

  (* hence the two lists coincide *)
  Theorem scan_accumulate_eq_failing : forall (self : nat) (msgs : store),
    scan_accumulate check self msgs = failing check self msgs.
  Proof.
    intros self msgs. destruct (scan_accumulate_exact self msgs) as [Hmem [Hs _]].
    apply sorted_lt_ext; [exact Hs | apply failing_sorted | exact Hmem].
  Qed.

  Theorem scan_accumulate_spec : forall (self : nat) (msgs : store) (j : nat),
    In j (scan_accumulate check self msgs) <->
    j <> self /\ exists m, nth_error msgs j = Some (Some m) /\ check j m = false.
  Proof. intros self msgs j. rewrite scan_accumulate_In. apply verdict_true. Qed.

  Theorem honest_never_blamed_B : forall (self : nat) (msgs : store) (j : nat) (m : Msg),
    nth_error msgs j = Some (Some m) -> check j m = true -> ~ In j (scan_accumulate check self msgs).
  Proof.
    intros self msgs j m Hn Hc Hin. apply scan_accumulate_spec in Hin.
    destruct Hin as [_ [m' [Hn' Hc']]]. rewrite Hn in Hn'. inversion Hn'; subst m'.
    rewrite Hc in Hc'. discriminate.
  Qed.

  (* ... in whatever order the verifications complete *)
  Corollary honest_never_blamed_B_any_order :
    forall (self : nat) (msgs : store) (order : list nat) (j : nat) (m : Msg),
    Permutation order (seq 0 (length msgs)) ->
    nth_error msgs j = Some (Some m) -> check j m = true ->
    ~ In j (accumulate_in_order check self msgs order).
  Proof.
    intros self msgs order j m Hp Hn Hc.
    rewrite (proj2 (accumulate_order_independent self msgs order Hp)).
    apply (honest_never_blamed_B self msgs j m Hn Hc).
  Qed.

  Theorem self_never_blamed_B : forall (self : nat) (msgs : store),
    ~ In self (scan_accumulate check self msgs).
  Proof. intros self msgs Hin. apply scan_accumulate_spec in Hin. destruct Hin as [Hne _]. apply Hne. reflexivity. Qed.

  (* reporting the first non-nil slot = shape A *)
  Theorem accumulate_first_is_scan_first : forall (self : nat) (msgs : store),
    hd_error (scan_accumulate check self msgs) = scan_first check self msgs /\
    first_of_slots (run_order check self msgs (seq 0 (length msgs))) = scan_first check self msgs.
  Proof.
    intros self msgs. split.
    - rewrite scan_accumulate_walk. apply all_from_hd.
    - rewrite run_order_slots by (intros j Hj; apply in_seq; lia).
      unfold first_of_slots, verdict_slots, scan_first. apply first_of_imap.
  Qed.

  (* ---------------- 3. independence ---------------- *)

  (* the verdict depends on the stored messages only through the per-position outcomes;
     no assumption on the lengths: a missing position counts as "nothing received" *)
  Theorem scan_first_ext : forall (self : nat) (msgs msgs' : store),
    (forall j, verdict check self j (get msgs j) = verdict check self j (get msgs' j)) ->
    scan_first check self msgs = scan_first check self msgs'.
  Proof.
    intros self msgs msgs' Hext.
    destruct (scan_first check self msgs) as [j|] eqn:Hs.
    - symmetry. apply scan_first_char. apply scan_first_char in Hs. destruct Hs as [Hv Hlow].
      split.
      + rewrite <- Hext. exact Hv.
      + intros k Hk. rewrite <- Hext. apply Hlow. exact Hk.
    - symmetry. apply scan_first_None_iff. apply scan_first_None_iff in Hs.
      destruct (failing check self msgs') as [|j r] eqn:Hf; [reflexivity|]. exfalso.
      assert (Hin : In j (failing check self msgs')) by (rewrite Hf; left; reflexivity).
      apply failing_In in Hin. rewrite <- Hext in Hin. apply failing_In in Hin.
      rewrite Hs in Hin. exact Hin.
  Qed.

  Theorem scan_accumulate_ext : forall (self : nat) (msgs msgs' : store),
    (forall j, verdict check self j (get msgs j) = verdict check self j (get msgs' j)) ->
    scan_accumulate check self msgs = scan_accumulate check self msgs'.
  Proof.
    intros self msgs msgs' Hext.
    destruct (scan_accumulate_exact self msgs) as [_ [Hs _]].
    destruct (scan_accumulate_exact self msgs') as [_ [Hs' _]].
    apply sorted_lt_ext; [exact Hs | exact Hs' |].
    intros j. rewrite !scan_accumulate_In, Hext. reflexivity.
  Qed.

  (* the check outcome of each peer, as the statement of item 3 has it *)
  Corollary scan_first_ext_outcomes : forall (self : nat) (msgs msgs' : store),
    (forall j, j <> self -> fails check j (get msgs j) = fails check j (get msgs' j)) ->
    scan_first check self msgs = scan_first check self msgs' /\
    scan_accumulate check self msgs = scan_accumulate check self msgs'.
  Proof.
    intros self msgs msgs' Hext.
    assert (Hv : forall j, verdict check self j (get msgs j) = verdict check self j (get msgs' j)).
    { intros j. unfold verdict. destruct (Nat.eqb_spec j self) as [He|Hne]; simpl; [reflexivity|].
      apply Hext. exact Hne. }
    split; [apply scan_first_ext | apply scan_accumulate_ext]; exact Hv.
  Qed.

  Lemma get_upd_eq : forall (msgs : store) (j : nat) (x : option Msg),
    j < length msgs -> get (upd j x msgs) j = x.
  Proof. intros msgs j x Hj. unfold get. apply nth_upd_eq. exact Hj. Qed.

  Lemma get_upd_neq : forall (msgs : store) (j k : nat) (x : option Msg),
    k <> j -> get (upd j x msgs) k = get msgs k.
  Proof. intros msgs j k x Hne. unfold get. apply nth_upd_neq. exact Hne. Qed.

  (* replacing a passing message of peer j by another passing message changes nothing *)
  Theorem replace_passing_same_blame : forall (self : nat) (msgs : store) (j : nat) (m m' : Msg),
    nth_error msgs j = Some (Some m) -> check j m = true -> check j m' = true ->
    scan_first check self (upd j (Some m') msgs) = scan_first check self msgs /\
    scan_accumulate check self (upd j (Some m') msgs) = scan_accumulate check self msgs.
  Proof.
    intros self msgs j m m' Hn Hc Hc'.
    assert (Hj : j < length msgs).
    { apply nth_error_Some. rewrite Hn. discriminate. }
    apply scan_first_ext_outcomes. intros k _.
    destruct (Nat.eq_dec k j) as [He|Hne].
    - subst k. rewrite get_upd_eq by exact Hj. apply get_Some in Hn. rewrite Hn. simpl.
      rewrite Hc, Hc'. reflexivity.
    - rewrite get_upd_neq by exact Hne. reflexivity.
  Qed.

  (* whatever the OTHER peers send, a peer whose own message passes is not blamed:
     [msgs'] agrees with [msgs] at j only *)
  Theorem honest_never_blamed_whatever_others : forall (self : nat) (msgs msgs' : store) (j : nat) (m : Msg),
    nth_error msgs j = Some (Some m) -> check j m = true -> get msgs' j = get msgs j ->
    scan_first check self msgs' <> Some j /\ ~ In j (scan_accumulate check self msgs').
  Proof.
    intros self msgs msgs' j m Hn Hc Hg.
    assert (Hn' : nth_error msgs' j = Some (Some m)).
    { apply get_Some. rewrite Hg. apply get_Some. exact Hn. }
    split.
    - apply (honest_never_blamed_A self msgs' j m Hn' Hc).
    - apply (honest_never_blamed_B self msgs' j m Hn' Hc).
  Qed.

  (* ---------------- one loop, in any of the reporting modes ---------------- *)

  Lemma loop_blame_first : forall self msgs,
    loop_blame check AccumulateFirst self msgs = loop_blame check FirstFailure self msgs.
  Proof.
    intros self msgs. unfold loop_blame.
    rewrite (proj2 (accumulate_first_is_scan_first self msgs)). reflexivity.
  Qed.

  Theorem loop_blame_exact : forall (md : mode) (self : nat) (msgs : store),
    loop_blame check md self msgs =
    match md with
    | AccumulateAll => failing check self msgs
    | FirstFailure | AccumulateFirst =>
        match failing check self msgs with [] => [] | j :: _ => [j] end
    end.
  Proof.
    intros md self msgs.
    assert (HA : loop_blame check FirstFailure self msgs =
                 match failing check self msgs with [] => [] | j :: _ => [j] end).
    { unfold loop_blame. rewrite scan_first_is_hd_failing.
      destruct (failing check self msgs); reflexivity. }
    destruct md.
    - exact HA.
    - simpl. apply scan_accumulate_eq_failing.
    - rewrite loop_blame_first. exact HA.
  Qed.

  Lemma loop_blame_nil : forall md self msgs,
    loop_blame check md self msgs = [] <-> failing check self msgs = [].
  Proof.
    intros md self msgs. rewrite loop_blame_exact.
    destruct md; destruct (failing check self msgs); split; intros H; try reflexivity; discriminate.
  Qed.

  Lemma loop_blame_incl : forall md self msgs j,
    In j (loop_blame check md self msgs) -> In j (failing check self msgs).
  Proof.
    intros md self msgs j. rewrite loop_blame_exact.
    destruct md; destruct (failing check self msgs) as [|a r]; simpl; intros H;
      try exact H; destruct H as [H|[]]; left; exact H.
  Qed.

  Lemma failing_nil_msgs : forall self msgs,
    failing check self msgs = [] <->
    forall j m, j <> self -> nth_error msgs j = Some (Some m) -> check j m = true.
  Proof. intros self msgs. rewrite <- scan_first_None_iff. apply scan_first_None_msgs. Qed.
End AB.

(* ====================================================================== *)
(* 6. a round made of loops of shapes A and B only                        *)
(* ====================================================================== *)
Section Round.
  Variable Msg : Type.
  Notation store := (list (option Msg)).

  (* every received message of another party passes the predicate of the stage *)
  Definition stage_passes (st : stage Msg) (self : nat) (msgs : store) : Prop :=
    forall j m, j <> self -> nth_error msgs j = Some (Some m) -> snd st j m = true.

  (* the culprits one stage names, by specification *)
  Definition stage_culprits (st : stage Msg) (self : nat) (msgs : store) : list nat :=
    match fst st with
    | AccumulateAll => failing (snd st) self msgs
    | FirstFailure | AccumulateFirst =>
        match failing (snd st) self msgs with [] => [] | j :: _ => [j] end
    end.

  Lemma stage_culprits_nil : forall st self msgs,
    stage_culprits st self msgs = [] <-> stage_passes st self msgs.
  Proof.
    intros [md chk] self msgs. unfold stage_culprits, stage_passes. simpl.
    rewrite <- (failing_nil_msgs Msg chk self msgs).
    destruct md; destruct (failing chk self msgs); split; intros H; try reflexivity; discriminate.
  Qed.

  Theorem round_blame_sound_complete : forall (stages : list (stage Msg)) (self : nat) (msgs : store),
    (* the round proceeds iff every received message passes every check *)
    (round_blame stages self msgs = [] <-> forall st, In st stages -> stage_passes st self msgs) /\
    (* otherwise the culprits are those of the first stage where some message fails:
       the lowest failing peer (first-failure / first-slot modes) or all of them (accumulate) *)
    (round_blame stages self msgs <> [] ->
       exists pre st post, stages = pre ++ st :: post /\
         (forall st', In st' pre -> stage_passes st' self msgs) /\
         round_blame stages self msgs = stage_culprits st self msgs /\
         stage_culprits st self msgs <> []) /\
    (* soundness: whoever is named is another party whose message fails a check of the round *)
    (forall j, In j (round_blame stages self msgs) ->
       j <> self /\ exists st m, In st stages /\ nth_error msgs j = Some (Some m) /\ snd st j m = false).
  Proof.
    intros stages self msgs. induction stages as [|[md chk] rest IH].
    - simpl. split; [|split].
      + split; [intros _ st [] | reflexivity].
      + intros H. exfalso. apply H. reflexivity.
      + intros j [].
    - destruct IH as [IHnil [IHfirst IHsound]].
      assert (Hexact : loop_blame chk md self msgs = stage_culprits (md, chk) self msgs).
      { rewrite loop_blame_exact. reflexivity. }
      simpl. destruct (loop_blame chk md self msgs) as [|c cs] eqn:Hlb.
      + (* this stage names nobody *)
        assert (Hpass : stage_passes (md, chk) self msgs).
        { apply stage_culprits_nil. symmetry. exact Hexact. }
        split; [|split].
        * rewrite IHnil. split.
          -- intros H st [Hst|Hst]; [subst st; exact Hpass | apply H; exact Hst].
          -- intros H st Hst. apply H. right. exact Hst.
        * intros Hne. destruct (IHfirst Hne) as [pre [st [post [Heq [Hpre [Hcul Hnn]]]]]].
          exists ((md, chk) :: pre), st, post. split; [simpl; rewrite Heq; reflexivity|].
          split; [|split; assumption].
          intros st' [Hst'|Hst']; [subst st'; exact Hpass | apply Hpre; exact Hst'].
        * intros j Hin. destruct (IHsound j Hin) as [Hne [st [m [Hst [Hn Hc]]]]].
          split; [exact Hne|]. exists st, m. split; [right; exact Hst|]. split; assumption.
      + (* this stage names c :: cs *)
        split; [|split].
        * split; [discriminate|]. intros H. exfalso.
          assert (Hp : stage_passes (md, chk) self msgs) by (apply H; left; reflexivity).
          apply stage_culprits_nil in Hp. rewrite <- Hexact in Hp. discriminate.
        * intros _. exists [], (md, chk), rest. split; [reflexivity|].
          split; [intros st' []|]. split; [exact Hexact|]. rewrite <- Hexact. discriminate.
        * intros j Hin. rewrite <- Hlb in Hin. apply loop_blame_incl in Hin.
          apply failing_spec in Hin. destruct Hin as [Hne [m [Hn Hc]]].
          split; [exact Hne|]. exists (md, chk), m. split; [left; reflexivity|]. split; assumption.
  Qed.

  Corollary honest_never_blamed_round : forall (stages : list (stage Msg)) (self : nat) (msgs : store) (j : nat) (m : Msg),
    nth_error msgs j = Some (Some m) ->
    (forall st, In st stages -> snd st j m = true) ->
    ~ In j (round_blame stages self msgs).
  Proof.
    intros stages self msgs j m Hn Hpass Hin.
    destruct (round_blame_sound_complete stages self msgs) as [_ [_ Hsound]].
    destruct (Hsound j Hin) as [_ [st [m' [Hst [Hn' Hc]]]]].
    rewrite Hn in Hn'. inversion Hn'; subst m'. rewrite (Hpass st Hst) in Hc. discriminate.
  Qed.
End Round.

(* ====================================================================== *)
(* 5. shape C: the pairwise uniqueness test                               *)
(* ====================================================================== *)
Section Dup.
  Variable Msg : Type.
  Variable K : Type.
  Variable key : Msg -> list K.
  Variable K_eqb : K -> K -> bool.
  Hypothesis K_eqb_spec : forall a b, K_eqb a b = true <-> a = b.

  Notation store := (list (option Msg)).

  Definition keys_at (msgs : store) (j : nat) : list K := keys_of key (get msgs j).

  (* positions a and b contribute a common key *)
  Definition share (msgs : store) (a b : nat) : Prop :=
    exists x, In x (keys_at msgs a) /\ In x (keys_at msgs b).

  (* offset k of the remaining list hits a key already in [seen] or contributed at a lower offset *)
  Definition hit (seen : list K) (l : store) (k : nat) : Prop :=
    exists x, In x (keys_at l k) /\ (In x seen \/ exists k', k' < k /\ In x (keys_at l k')).

  Lemma share_sym : forall msgs a b, share msgs a b -> share msgs b a.
  Proof. intros msgs a b [x [Ha Hb]]. exists x. split; assumption. Qed.

  Lemma seen_mem_In : forall (x : K) (seen : list K), seen_mem K_eqb x seen = true <-> In x seen.
  Proof.
    intros x seen. unfold seen_mem. rewrite existsb_exists. split.
    - intros [y [Hy He]]. apply K_eqb_spec in He. subst y. exact Hy.
    - intros Hin. exists x. split; [exact Hin|]. apply K_eqb_spec. reflexivity.
  Qed.

  Lemma collides_true : forall (ks seen : list K),
    collides K_eqb ks seen = true <-> exists x, In x ks /\ In x seen.
  Proof.
    intros ks seen. unfold collides. rewrite existsb_exists. split.
    - intros [x [Hx Hm]]. exists x. split; [exact Hx | apply seen_mem_In; exact Hm].
    - intros [x [Hx Hs]]. exists x. split; [exact Hx | apply seen_mem_In; exact Hs].
  Qed.

  Lemma hit_0 : forall seen om r,
    hit seen (om :: r) 0 <-> collides K_eqb (keys_of key om) seen = true.
  Proof.
    intros seen om r. rewrite collides_true. unfold hit, keys_at, get. simpl. split.
    - intros [x [Hx [Hs|[k' [Hk' _]]]]]; [exists x; split; assumption | lia].
    - intros [x [Hx Hs]]. exists x. split; [exact Hx | left; exact Hs].
  Qed.

  Lemma hit_S : forall seen om r k,
    hit seen (om :: r) (S k) <-> hit (keys_of key om ++ seen) r k.
  Proof.
    intros seen om r k. unfold hit, keys_at, get. simpl. split.
    - intros [x [Hx [Hs|[k' [Hk' Hin]]]]]; exists x; (split; [exact Hx|]).
      + left. apply in_or_app. right. exact Hs.
      + destruct k' as [|k'].
        * left. apply in_or_app. left. exact Hin.
        * right. exists k'. split; [lia | exact Hin].
    - intros [x [Hx [Hs|[k' [Hk' Hin]]]]]; exists x; (split; [exact Hx|]).
      + apply in_app_or in Hs. destruct Hs as [Hs|Hs].
        * right. exists 0. split; [lia | exact Hs].
        * left. exact Hs.
      + right. exists (S k'). split; [lia | exact Hin].
  Qed.

  Lemma scan_dup_from_None : forall (l : store) (i : nat) (seen : list K),
    scan_dup_from key K_eqb i seen l = None <-> forall k, ~ hit seen l k.
  Proof.
    intros l. induction l as [|om r IH]; intros i seen; simpl.
    - split; [|reflexivity]. intros _ k [x [Hx _]]. unfold keys_at, get in Hx.
      destruct k; simpl in Hx; exact Hx.
    - destruct (collides K_eqb (keys_of key om) seen) eqn:Hc.
      + split; [discriminate|]. intros H. exfalso. apply (H 0). apply hit_0. exact Hc.
      + rewrite IH. split.
        * intros H k. destruct k as [|k].
          -- rewrite hit_0, Hc. discriminate.
          -- rewrite hit_S. apply H.
        * intros H k. rewrite <- hit_S. apply H.
  Qed.

  Lemma scan_dup_from_Some : forall (l : store) (i : nat) (seen : list K) (j : nat),
    scan_dup_from key K_eqb i seen l = Some j ->
    exists k, j = i + k /\ hit seen l k /\ forall k', k' < k -> ~ hit seen l k'.
  Proof.
    intros l. induction l as [|om r IH]; intros i seen j H; simpl in H.
    - discriminate.
    - destruct (collides K_eqb (keys_of key om) seen) eqn:Hc.
      + inversion H; subst j. exists 0. split; [lia|]. split; [apply hit_0; exact Hc|].
        intros k' Hk'. lia.
      + apply IH in H. destruct H as [k [Hj [Hh Hlow]]]. exists (S k).
        split; [lia|]. split; [apply hit_S; exact Hh|].
        intros k' Hk'. destruct k' as [|k'].
        * rewrite hit_0, Hc. discriminate.
        * rewrite hit_S. apply Hlow. lia.
  Qed.

  Lemma scan_dup_from_ge : forall l i seen j, scan_dup_from key K_eqb i seen l = Some j -> i <= j.
  Proof.
    intros l i seen j H. apply scan_dup_from_Some in H. destruct H as [k [Hj _]]. lia.
  Qed.

  Lemma hit_nil_share : forall (msgs : store) (k : nat),
    hit [] msgs k <-> exists k', k' < k /\ share msgs k' k.
  Proof.
    intros msgs k. unfold hit, share. split.
    - intros [x [Hx [[]|[k' [Hk' Hin]]]]]. exists k'. split; [exact Hk'|]. exists x. split; assumption.
    - intros [k' [Hk' [x [Ha Hb]]]]. exists x. split; [exact Hb|]. right. exists k'. split; assumption.
  Qed.

  Theorem scan_dup_None_iff : forall (msgs : store),
    scan_dup key K_eqb msgs = None <-> forall a b, a < b -> ~ share msgs a b.
  Proof.
    intros msgs. unfold scan_dup. rewrite scan_dup_from_None. split.
    - intros H a b Hab Hs. apply (H b). apply hit_nil_share. exists a. split; assumption.
    - intros H k Hh. apply hit_nil_share in Hh. destruct Hh as [k' [Hk' Hs]]. apply (H k' k Hk' Hs).
  Qed.

  (* the blamed index is the LATER member of a colliding pair - and of the first such pair *)
  Theorem dup_blames_later : forall (msgs : store) (j : nat),
    scan_dup key K_eqb msgs = Some j ->
    (exists i, i < j /\ share msgs i j) /\
    (forall a b, a < b -> share msgs a b -> j <= b).
  Proof.
    intros msgs j H. unfold scan_dup in H. apply scan_dup_from_Some in H.
    destruct H as [k [Hj [Hh Hlow]]]. simpl in Hj. subst k. split.
    - apply hit_nil_share. exact Hh.
    - intros a b Hab Hs. destruct (Nat.le_gt_cases j b) as [Hle|Hlt]; [exact Hle|]. exfalso.
      apply (Hlow b Hlt). apply hit_nil_share. exists a. split; assumption.
  Qed.

  Theorem scan_dup_sound : forall (msgs : store) (j : nat),
    scan_dup key K_eqb msgs = Some j -> exists k, k < j /\ share msgs k j.
  Proof. intros msgs j H. apply (proj1 (dup_blames_later msgs j H)). Qed.

  Theorem scan_dup_complete : forall (msgs : store) (a b : nat),
    a < b -> share msgs a b -> exists j, scan_dup key K_eqb msgs = Some j /\ j <= b.
  Proof.
    intros msgs a b Hab Hs. destruct (scan_dup key K_eqb msgs) as [j|] eqn:Hd.
    - exists j. split; [reflexivity|]. apply (proj2 (dup_blames_later msgs j Hd) a b Hab Hs).
    - exfalso. apply (proj1 (scan_dup_None_iff msgs) Hd a b Hab Hs).
  Qed.

  Theorem scan_dup_char : forall (msgs : store) (j : nat),
    scan_dup key K_eqb msgs = Some j <->
    (exists i, i < j /\ share msgs i j) /\ (forall a b, a < b -> share msgs a b -> j <= b).
  Proof.
    intros msgs j. split; [apply dup_blames_later|].
    intros [[i [Hij Hs]] Hmin].
    destruct (scan_dup_complete msgs i j Hij Hs) as [j' [Hd Hle]].
    destruct (dup_blames_later msgs j' Hd) as [[i' [Hij' Hs']] _].
    specialize (Hmin i' j' Hij' Hs'). rewrite Hd. f_equal. lia.
  Qed.

  (* when exactly one pair collides, its later member is blamed - whoever copied whom *)
  Corollary dup_single_pair_blames_later : forall (msgs : store) (a b : nat),
    a < b -> share msgs a b ->
    (forall a' b', a' < b' -> share msgs a' b' -> a' = a /\ b' = b) ->
    scan_dup key K_eqb msgs = Some b.
  Proof.
    intros msgs a b Hab Hs Huniq. apply scan_dup_char. split.
    - exists a. split; assumption.
    - intros a' b' Hab' Hs'. destruct (Huniq a' b' Hab' Hs') as [_ Hb]. lia.
  Qed.

  (* [msgs] is the all-honest vector [honest] except at position d *)
  Definition differs_only_at (d : nat) (msgs honest : store) : Prop :=
    length msgs = length honest /\ forall j, j <> d -> get msgs j = get honest j.

  Lemma share_transfer : forall d msgs honest a b,
    differs_only_at d msgs honest -> a <> d -> b <> d -> share msgs a b -> share honest a b.
  Proof.
    intros d msgs honest a b [_ Hd] Ha Hb [x [Hxa Hxb]]. exists x. unfold keys_at in *.
    rewrite <- (Hd a Ha), <- (Hd b Hb). split; assumption.
  Qed.

  (* positive side: a deviator that copies a key of an EARLIER honest peer is the one blamed *)
  Theorem dup_fair_when_deviator_is_later : forall (honest msgs : store) (d v : nat),
    scan_dup key K_eqb honest = None ->
    differs_only_at d msgs honest ->
    v < d -> share msgs v d ->
    scan_dup key K_eqb msgs = Some d.
  Proof.
    intros honest msgs d v Hhon Hdiff Hvd Hs.
    destruct (scan_dup_complete msgs v d Hvd Hs) as [j [Hd Hle]].
    destruct (dup_blames_later msgs j Hd) as [[i [Hij Hsij]] _].
    destruct (Nat.eq_dec j d) as [Hjd|Hjd]; [subst j; exact Hd|]. exfalso.
    assert (Hid : i <> d) by lia.
    apply (proj1 (scan_dup_None_iff honest) Hhon i j Hij).
    apply (share_transfer d msgs honest i j Hdiff Hid Hjd Hsij).
  Qed.

  (* negative side, in general: a deviator that copies a key of a LATER honest peer v (and collides
     with nobody else) gets v blamed *)
  Theorem dup_unfair_when_deviator_is_earlier : forall (honest msgs : store) (d v : nat),
    scan_dup key K_eqb honest = None ->
    differs_only_at d msgs honest ->
    d < v -> share msgs d v ->
    (forall b, b <> d -> b <> v -> ~ share msgs d b) ->
    scan_dup key K_eqb msgs = Some v.
  Proof.
    intros honest msgs d v Hhon Hdiff Hdv Hs Honly.
    apply (dup_single_pair_blames_later msgs d v Hdv Hs).
    intros a b Hab Hsab.
    destruct (Nat.eq_dec a d) as [Had|Had].
    - subst a. split; [reflexivity|].
      destruct (Nat.eq_dec b v) as [Hbv|Hbv]; [exact Hbv|]. exfalso.
      apply (Honly b); [lia | exact Hbv | exact Hsab].
    - destruct (Nat.eq_dec b d) as [Hbd|Hbd].
      + subst b. exfalso. apply (Honly a); [exact Had | lia | apply share_sym; exact Hsab].
      + exfalso. apply (proj1 (scan_dup_None_iff honest) Hhon a b Hab).
        apply (share_transfer d msgs honest a b Hdiff Had Hbd Hsab).
  Qed.

  (* ---------- the first loop of round 2: own predicates, then the uniqueness test ---------- *)
  Variable check : nat -> Msg -> bool.

  Lemma round2_from_eq : forall (l : store) (i : nat) (seen : list K),
    round2_from check key K_eqb i seen l =
    omin (first_from (fails check) i l) (scan_dup_from key K_eqb i seen l).
  Proof.
    intros l. induction l as [|om r IH]; intros i seen; simpl.
    - reflexivity.
    - destruct (fails check i om) eqn:Hf.
      + destruct (collides K_eqb (keys_of key om) seen) eqn:Hc; simpl.
        * rewrite Nat.min_id. reflexivity.
        * destruct (scan_dup_from key K_eqb (S i) (keys_of key om ++ seen) r) as [j|] eqn:Hd;
            [|reflexivity].
          apply scan_dup_from_ge in Hd. f_equal. lia.
      + destruct (collides K_eqb (keys_of key om) seen) eqn:Hc.
        * destruct (first_from (fails check) (S i) r) as [j|] eqn:Hff; simpl; [|reflexivity].
          apply first_from_ge in Hff. f_equal. lia.
        * apply IH.
  Qed.

  (* the round-2 loop stops at the lower of: the first peer failing its own predicates, the first
     peer refused by the uniqueness test.  With [self] out of range [scan_first] skips nobody. *)
  Theorem round2_scan_eq : forall (msgs : store),
    round2_scan check key K_eqb msgs =
    omin (first_from (fails check) 0 msgs) (scan_dup key K_eqb msgs).
  Proof. intros msgs. apply round2_from_eq. Qed.

  Lemma fails_first_sound : forall (msgs : store) (j : nat),
    first_from (fails check) 0 msgs = Some j ->
    exists m, nth_error msgs j = Some (Some m) /\ check j m = false.
  Proof.
    intros msgs j H.
    apply (first_from_Some (fails check) None (fun _ => eq_refl) msgs 0 j) in H.
    destruct H as [k [Hj [Hv _]]]. simpl in Hj. subst k. simpl in Hv.
    fold (get msgs j) in Hv. destruct (get msgs j) as [m|] eqn:Hg; simpl in Hv; [|discriminate].
    exists m. split; [apply get_Some; exact Hg | apply negb_true_iff; exact Hv].
  Qed.

  (* whoever the round-2 loop blames either fails its own predicates or is the later member of a
     colliding pair - the second case is where an honest party can be named *)
  Theorem round2_scan_sound : forall (msgs : store) (j : nat),
    round2_scan check key K_eqb msgs = Some j ->
    (exists m, nth_error msgs j = Some (Some m) /\ check j m = false) \/
    (exists i, i < j /\ share msgs i j).
  Proof.
    intros msgs j H. rewrite round2_scan_eq in H.
    destruct (first_from (fails check) 0 msgs) as [a|] eqn:Ha;
      destruct (scan_dup key K_eqb msgs) as [b|] eqn:Hb; simpl in H; try discriminate.
    - inversion H as [Hj]. destruct (Nat.min_spec a b) as [[_ Hm]|[_ Hm]]; rewrite Hm.
      + left. apply fails_first_sound. exact Ha.
      + right. apply scan_dup_sound. exact Hb.
    - inversion H; subst j. left. apply fails_first_sound. exact Ha.
    - inversion H; subst j. right. apply scan_dup_sound. exact Hb.
  Qed.

  Theorem round2_scan_None_iff : forall (msgs : store),
    round2_scan check key K_eqb msgs = None <->
    (forall j m, nth_error msgs j = Some (Some m) -> check j m = true) /\
    (forall a b, a < b -> ~ share msgs a b).
  Proof.
    intros msgs. rewrite round2_scan_eq, <- scan_dup_None_iff.
    assert (HA : first_from (fails check) 0 msgs = None <->
                 forall j m, nth_error msgs j = Some (Some m) -> check j m = true).
    { rewrite (first_from_None (fails check) None (fun _ => eq_refl) msgs 0). simpl. split.
      - intros H j m Hn. specialize (H j). apply get_Some in Hn. unfold get in Hn.
        rewrite Hn in H. simpl in H. apply negb_false_iff. exact H.
      - intros H k. fold (get msgs k). destruct (get msgs k) as [m|] eqn:Hg; [|reflexivity].
        simpl. apply get_Some in Hg. rewrite (H k m Hg). reflexivity. }
    rewrite <- HA.
    destruct (first_from (fails check) 0 msgs); destruct (scan_dup key K_eqb msgs); simpl;
      split; try discriminate; try (intros [H1 H2]; discriminate); try reflexivity.
    - intros _. split; reflexivity.
  Qed.

  (* without colliding keys the round-2 loop is an ordinary shape-A loop (that skips nobody) *)
  Corollary round2_scan_no_collision : forall (msgs : store),
    (forall a b, a < b -> ~ share msgs a b) ->
    round2_scan check key K_eqb msgs = scan_first check (length msgs) msgs.
  Proof.
    intros msgs Hno. rewrite round2_scan_eq. apply scan_dup_None_iff in Hno. rewrite Hno.
    assert (He : first_from (fails check) 0 msgs = scan_first check (length msgs) msgs).
    { destruct (scan_first check (length msgs) msgs) as [j|] eqn:Hs.
      - apply scan_first_char in Hs. destruct Hs as [Hv Hlow].
        apply (first_from_Some (fails check) None (fun _ => eq_refl) msgs 0 j).
        exists j. split; [reflexivity|]. simpl. split.
        + unfold verdict in Hv. apply andb_true_iff in Hv. apply Hv.
        + intros k Hk. specialize (Hlow k Hk). unfold verdict in Hlow.
          fold (get msgs k). destruct (Nat.eqb_spec k (length msgs)) as [He|Hne].
          * rewrite (get_out_of_range Msg msgs k) by lia. reflexivity.
          * simpl in Hlow. exact Hlow.
      - apply (first_from_None (fails check) None (fun _ => eq_refl) msgs 0). simpl. intros k.
        unfold scan_first in Hs.
        rewrite (first_from_None (verdict check (length msgs)) None
                   (verdict_None Msg check (length msgs)) msgs 0) in Hs.
        specialize (Hs k). simpl in Hs. unfold verdict in Hs.
        destruct (Nat.eqb_spec k (length msgs)) as [He|Hne].
        + rewrite nth_overflow by lia. reflexivity.
        + simpl in Hs. exact Hs. }
    rewrite He. destruct (scan_first check (length msgs) msgs); reflexivity.
  Qed.
End Dup.

(* ====================================================================== *)
(* 5./7. concrete witnesses                                               *)
(* ====================================================================== *)

(* Msg := nat, key m := [m] *)
Definition nat_key (m : nat) : list nat := [m].

Lemma nat_eqb_spec : forall a b : nat, Nat.eqb a b = true <-> a = b.
Proof. intros a b. apply Nat.eqb_eq. Qed.

(* The natural fairness statement "when a single party deviates from an all-honest vector, the
   uniqueness test never names an honest party" is FALSE: party 1 copies the value that honest party 2
   sends; the loop reaches index 1 first (nothing seen yet), then refuses index 2. *)
Theorem dup_fair_refuted :
  exists (msgs honest_msgs : list (option nat)) (deviator victim : nat),
    deviator <> victim /\
    length msgs = length honest_msgs /\
    (forall j, j <> deviator -> nth j msgs None = nth j honest_msgs None) /\
    nth deviator msgs None <> nth deviator honest_msgs None /\
    scan_dup nat_key Nat.eqb honest_msgs = None /\
    scan_dup nat_key Nat.eqb msgs = Some victim.
Proof.
  exists [Some 10; Some 12; Some 12], [Some 10; Some 11; Some 12], 1, 2.
  split; [discriminate|]. split; [reflexivity|]. split.
  - intros j Hj. destruct j as [|[|[|j]]]; try reflexivity. exfalso. apply Hj. reflexivity.
  - split; [simpl; discriminate|]. split; vm_compute; reflexivity.
Qed.

(* stated against the negation of the fairness property itself *)
Definition dup_fair : Prop :=
  forall (msgs honest_msgs : list (option nat)) (deviator j : nat),
    length msgs = length honest_msgs ->
    (forall k, k <> deviator -> nth k msgs None = nth k honest_msgs None) ->
    scan_dup nat_key Nat.eqb honest_msgs = None ->
    scan_dup nat_key Nat.eqb msgs = Some j -> j = deviator.

Theorem dup_fair_is_false : ~ dup_fair.
Proof.
  intros Hfair.
  destruct dup_fair_refuted as [msgs [honest [d [v [Hne [Hlen [Hsame [_ [Hhon Hblame]]]]]]]]].
  apply Hne. symmetry. apply (Hfair msgs honest d v Hlen Hsame Hhon Hblame).
Qed.

(* the same three parties the other way round: the deviator sits at the higher index and is blamed *)
Example dup_later_deviator_blamed :
  scan_dup nat_key Nat.eqb [Some 10; Some 11; Some 10] = Some 2 /\
  scan_dup nat_key Nat.eqb [Some 10; Some 11; Some 12] = None.
Proof. split; vm_compute; reflexivity. Qed.

(* ---------- shapes A and B: check j m := Nat.even m ---------- *)
Definition even_check (j m : nat) : bool := Nat.even m.

(* 4 parties, own index 0, party 2 fails *)
Example ex_one_failing :
  scan_first even_check 0 [Some 0; Some 2; Some 3; Some 4] = Some 2 /\
  scan_accumulate even_check 0 [Some 0; Some 2; Some 3; Some 4] = [2] /\
  failing even_check 0 [Some 0; Some 2; Some 3; Some 4] = [2].
Proof. repeat split; vm_compute; reflexivity. Qed.

(* two failing: A names the lower, B names both, "first slot" names the lower *)
Example ex_two_failing :
  scan_first even_check 0 [Some 0; Some 5; Some 2; Some 7] = Some 1 /\
  scan_accumulate even_check 0 [Some 0; Some 5; Some 2; Some 7] = [1; 3] /\
  loop_blame even_check FirstFailure 0 [Some 0; Some 5; Some 2; Some 7] = [1] /\
  loop_blame even_check AccumulateAll 0 [Some 0; Some 5; Some 2; Some 7] = [1; 3] /\
  loop_blame even_check AccumulateFirst 0 [Some 0; Some 5; Some 2; Some 7] = [1].
Proof. repeat split; vm_compute; reflexivity. Qed.

(* nobody fails; the own (odd) value is skipped; a missing message is not a failure of this loop *)
Example ex_none_failing :
  scan_first even_check 0 [Some 1; Some 2; None; Some 4] = None /\
  scan_accumulate even_check 0 [Some 1; Some 2; None; Some 4] = [] /\
  scan_first even_check 4 [Some 1; Some 2; None; Some 4] = Some 0.
Proof. repeat split; vm_compute; reflexivity. Qed.

(* the verifications complete in the order 3, 1, 0, 2 : same slots, same culprits *)
Example ex_any_order :
  run_order even_check 0 [Some 0; Some 5; Some 2; Some 7] [3; 1; 0; 2] = [false; true; false; true] /\
  accumulate_in_order even_check 0 [Some 0; Some 5; Some 2; Some 7] [3; 1; 0; 2] = [1; 3].
Proof. split; vm_compute; reflexivity. Qed.

(* a round with two stages, as the DLN part of round 2: `append(proof1Culprits, proof2Culprits...)`,
   first non-nil.  Stage 1: m even; stage 2: m < 10. *)
Example ex_two_stages :
  round_blame [(AccumulateFirst, even_check); (AccumulateFirst, fun _ m => Nat.ltb m 10)]
              0 [Some 0; Some 2; Some 12; Some 3] = [3] /\
  round_blame [(AccumulateFirst, even_check); (AccumulateFirst, fun _ m => Nat.ltb m 10)]
              0 [Some 0; Some 2; Some 12; Some 4] = [2] /\
  round_blame [(AccumulateFirst, even_check); (AccumulateFirst, fun _ m => Nat.ltb m 10)]
              0 [Some 0; Some 2; Some 6; Some 4] = [].
Proof. repeat split; vm_compute; reflexivity. Qed.

(* ---------- the mirror case in the round-2 loop ----------
   a message is (h1, h2); its own predicate is h1 <> h2; it contributes both keys *)
Definition r2_check (j : nat) (m : nat * nat) : bool := negb (Nat.eqb (fst m) (snd m)).
Definition r2_key (m : nat * nat) : list nat := [fst m; snd m].

Example round2_mirror :
  (* everybody honest: the round proceeds *)
  round2_scan r2_check r2_key Nat.eqb [Some (1, 2); Some (3, 4); Some (5, 6)] = None /\
  (* party 1 sends party 2's h1: party 2 is blamed *)
  round2_scan r2_check r2_key Nat.eqb [Some (1, 2); Some (5, 4); Some (5, 6)] = Some 2 /\
  (* party 2 sends party 1's h1: party 2 is blamed *)
  round2_scan r2_check r2_key Nat.eqb [Some (1, 2); Some (3, 4); Some (3, 6)] = Some 2 /\
  (* party 1's own predicate fails (h1 = h2): party 1 is blamed *)
  round2_scan r2_check r2_key Nat.eqb [Some (1, 2); Some (3, 3); Some (5, 6)] = Some 1.
Proof. repeat split; vm_compute; reflexivity. Qed.

(* the same refutation for the whole round-2 loop: one deviator, the honest party at index 2 is named
   although its own message passes its own predicates *)
Theorem round2_fair_refuted :
  exists (msgs honest_msgs : list (option (nat * nat))) (deviator victim : nat) (mv : nat * nat),
    deviator <> victim /\
    length msgs = length honest_msgs /\
    (forall j, j <> deviator -> nth j msgs None = nth j honest_msgs None) /\
    round2_scan r2_check r2_key Nat.eqb honest_msgs = None /\
    nth_error msgs victim = Some (Some mv) /\ r2_check victim mv = true /\
    round2_scan r2_check r2_key Nat.eqb msgs = Some victim.
Proof.
  exists [Some (1, 2); Some (5, 4); Some (5, 6)], [Some (1, 2); Some (3, 4); Some (5, 6)], 1, 2, (5, 6).
  split; [discriminate|]. split; [reflexivity|]. split.
  - intros j Hj. destruct j as [|[|[|j]]]; try reflexivity. exfalso. apply Hj. reflexivity.
  - repeat split; vm_compute; reflexivity.
Qed.

(* ====================================================================== *)
Print Assumptions scan_first_sound.
Print Assumptions scan_first_lowest.
Print Assumptions scan_first_lowest_msgs.
Print Assumptions scan_first_complete.
Print Assumptions scan_first_None_iff.
Print Assumptions scan_first_None_msgs.
Print Assumptions scan_first_is_hd_failing.
Print Assumptions honest_never_blamed_A.
Print Assumptions self_never_blamed_A.
Print Assumptions silent_never_blamed_A.
Print Assumptions accumulate_order_independent.
Print Assumptions accumulate_any_two_orders.
Print Assumptions scan_accumulate_exact.
Print Assumptions scan_accumulate_eq_failing.
Print Assumptions scan_accumulate_spec.
Print Assumptions honest_never_blamed_B.
Print Assumptions honest_never_blamed_B_any_order.
Print Assumptions self_never_blamed_B.
Print Assumptions accumulate_first_is_scan_first.
Print Assumptions scan_first_ext.
Print Assumptions scan_accumulate_ext.
Print Assumptions scan_first_ext_outcomes.
Print Assumptions replace_passing_same_blame.
Print Assumptions honest_never_blamed_whatever_others.
Print Assumptions loop_blame_exact.
Print Assumptions round_blame_sound_complete.
Print Assumptions honest_never_blamed_round.
Print Assumptions scan_dup_None_iff.
Print Assumptions dup_blames_later.
Print Assumptions scan_dup_sound.
Print Assumptions scan_dup_complete.
Print Assumptions scan_dup_char.
Print Assumptions dup_single_pair_blames_later.
Print Assumptions dup_fair_when_deviator_is_later.
Print Assumptions dup_unfair_when_deviator_is_earlier.
Print Assumptions round2_scan_eq.
Print Assumptions round2_scan_sound.
Print Assumptions round2_scan_None_iff.
Print Assumptions round2_scan_no_collision.
Print Assumptions dup_fair_refuted.
Print Assumptions dup_fair_is_false.
Print Assumptions dup_later_deviator_blamed.
Print Assumptions ex_one_failing.
Print Assumptions ex_two_failing.
Print Assumptions ex_none_failing.
Print Assumptions ex_any_order.
Print Assumptions ex_two_stages.
Print Assumptions round2_mirror.
Print Assumptions round2_fair_refuted.
