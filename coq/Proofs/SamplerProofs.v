(* Proofs about the samplers of Model/SafePrime.v (crypto/rand.Int, common/random.go).  Property C19, part A.
   bytes_ok s (every element of the stream is a byte) is needed only for the lower bounds 0 <= v. *)
From Coq Require Import ZArith Znumtheory List Lia Bool.
From TSS Require Import Base.Outcome Base.Bytes Base.ZMod Base.GoInt Model.SafePrime
  Proofs.BytesProofs Proofs.ZModProofs Proofs.PaillierProofs Proofs.ZKModProofs.
Import ListNotations.
Open Scope Z_scope.
Arguments Z.pow : simpl never.
Arguments Z.mul : simpl never.
Arguments Z.add : simpl never.
Arguments Z.sub : simpl never.
Arguments Z.modulo : simpl never.
Arguments Z.div : simpl never.

(* ------------------------------------------------------------------ *)
(* bitlen, take_bytes, suffixes                                         *)
(* ------------------------------------------------------------------ *)

Lemma bitlen_pos n : 0 < n -> 1 <= bitlen n /\ 2 ^ (bitlen n - 1) <= n < 2 ^ bitlen n.
Proof.
  intros H. unfold bitlen. destruct (Z.leb_spec n 0) as [L|L]; [lia|].
  pose proof (Z.log2_spec n H) as S. pose proof (Z.log2_nonneg n) as N.
  replace (Z.log2 n + 1 - 1) with (Z.log2 n) by lia.
  replace (Z.log2 n + 1) with (Z.succ (Z.log2 n)) by lia. lia.
Qed.

Lemma bitlen_nonpos n : n <= 0 -> bitlen n = 0.
Proof. intros H. unfold bitlen. destruct (Z.leb_spec n 0); lia. Qed.

Lemma bitlen_unique n b : 0 < b -> 2 ^ (b - 1) <= n < 2 ^ b -> bitlen n = b.
Proof.
  intros Hb H.
  assert (P : 0 < 2 ^ (b - 1)) by (apply Z.pow_pos_nonneg; lia).
  unfold bitlen. destruct (Z.leb_spec n 0) as [L|L]; [lia|].
  rewrite (Z.log2_unique n (b - 1)); [lia|lia|].
  replace (Z.succ (b - 1)) with b by lia. exact H.
Qed.

Lemma bitlen_ge_2 n : 2 <= n -> 2 <= bitlen n.
Proof.
  intros H. destruct (bitlen_pos n ltac:(lia)) as [B1 [_ B2]].
  destruct (Z.eq_dec (bitlen n) 1) as [E|E]; [|lia].
  rewrite E in B2. change (2 ^ 1) with 2 in B2. lia.
Qed.

Lemma take_bytes_Some k s bs rest : take_bytes k s = Some (bs, rest) ->
  s = bs ++ rest /\ length bs = k.
Proof.
  unfold take_bytes. destruct (Nat.ltb_spec (length s) k) as [L|L]; [discriminate|].
  intros E. injection E as <- <-. split; [symmetry; apply firstn_skipn|].
  apply firstn_length_le. exact L.
Qed.

Lemma take_bytes_None k s : take_bytes k s = None -> (length s < k)%nat.
Proof.
  unfold take_bytes. destruct (Nat.ltb_spec (length s) k) as [L|L]; [auto|discriminate].
Qed.

Definition suffix_of (rest s : list Z) : Prop := exists used, s = used ++ rest.

Lemma suffix_refl s : suffix_of s s.
Proof. exists []. reflexivity. Qed.

Lemma suffix_trans a b c : suffix_of a b -> suffix_of b c -> suffix_of a c.
Proof. intros [u ->] [w ->]. exists (w ++ u). now rewrite app_assoc. Qed.

Lemma suffix_bytes_ok rest s : suffix_of rest s -> bytes_ok s -> bytes_ok rest.
Proof. intros [u ->] H. unfold bytes_ok in *. apply Forall_app in H. tauto. Qed.

Lemma suffix_length rest s : suffix_of rest s -> (length rest <= length s)%nat.
Proof. intros [u ->]. rewrite app_length. lia. Qed.

(* ------------------------------------------------------------------ *)
(* crypto/rand.Int                                                      *)
(* ------------------------------------------------------------------ *)

(* the value rand.Int reads off one k-byte chunk: the first byte masked to b bits *)
Definition chunk_val (b : Z) (bs : list Z) : Z := be_value ((hd 0 bs mod 2 ^ b) :: tl bs).

(* number of bytes per draw and number of bits kept in the first byte *)
Definition ri_k (max : Z) : nat := Z.to_nat ((bitlen (max - 1) + 7) / 8).
Definition ri_b (max : Z) : Z :=
  let bl := bitlen (max - 1) in if bl mod 8 =? 0 then 8 else bl mod 8.

Definition rejected (k : nat) (b max : Z) (chunks : list (list Z)) : Prop :=
  Forall (fun ch => length ch = k /\ max <= chunk_val b ch) chunks.

Lemma chunk_val_nonneg b c : 0 <= b -> bytes_ok c -> 0 <= chunk_val b c.
Proof.
  intros Hb H. unfold chunk_val. rewrite be_value_cons.
  assert (P : 0 < 2 ^ b) by (apply Z.pow_pos_nonneg; lia).
  pose proof (Z.mod_pos_bound (hd 0 c) (2 ^ b) P) as M.
  assert (T : bytes_ok (tl c)) by (destruct c; [constructor|now inversion H]).
  pose proof (be_value_bound (tl c) T) as B.
  assert (Q : 0 <= 256 ^ zlength (tl c)) by (apply Z.pow_nonneg; lia).
  nia.
Qed.

(* the masked chunk is the big-endian value of the chunk reduced modulo 2^(8(k-1)+b) *)
Lemma chunk_val_mask b c : 0 <= b -> bytes_ok c -> c <> [] ->
  chunk_val b c = be_value c mod 2 ^ (8 * (zlength c - 1) + b).
Proof.
  intros Hb H Hne. destruct c as [|h t]; [congruence|]. clear Hne.
  unfold chunk_val. cbn [hd tl]. rewrite !be_value_cons.
  assert (T : bytes_ok t) by now inversion H.
  pose proof (be_value_bound t T) as B.
  assert (L : zlength (h :: t) - 1 = zlength t) by (unfold zlength; cbn [length]; lia).
  rewrite L.
  assert (Ln : 0 <= zlength t) by (unfold zlength; lia).
  rewrite Z.pow_add_r by lia. rewrite Z.pow_mul_r by lia. change (2 ^ 8) with 256.
  set (M := 256 ^ zlength t) in *.
  assert (P : 0 < 2 ^ b) by (apply Z.pow_pos_nonneg; lia).
  assert (PM : 0 < M) by (apply Z.pow_pos_nonneg; lia).
  pose proof (Z.mod_pos_bound h (2 ^ b) P) as R.
  pose proof (Z.div_mod h (2 ^ b) ltac:(lia)) as D.
  apply (Z.mod_unique _ _ (h / 2 ^ b)); [left; nia|].
  rewrite D at 1. ring.
Qed.

Lemma rand_int_loop_spec : forall fuel k b max s v rest,
  rand_int_loop fuel k b max s = Ok (v, rest) ->
  exists chunks c, s = concat chunks ++ c ++ rest /\ rejected k b max chunks /\
                   length c = k /\ v = chunk_val b c /\ v < max.
Proof.
  induction fuel as [|f IH]; intros k b max s v rest H; cbn [rand_int_loop] in H; [discriminate|].
  destruct (take_bytes k s) as [[bs r]|] eqn:T; [|discriminate].
  apply take_bytes_Some in T. destruct T as [Hs Hl].
  cbv zeta in H. fold (chunk_val b bs) in H.
  destruct (Z.ltb_spec (chunk_val b bs) max) as [L|L].
  - injection H as <- <-. exists [], bs. cbn [concat app]. repeat split; auto. constructor.
  - apply IH in H. destruct H as (chunks & c & Hr & Hrej & Hc & Hv & Hlt).
    exists (bs :: chunks), c. cbn [concat]. rewrite <- app_assoc. rewrite <- Hr.
    repeat split; auto. constructor; auto.
Qed.

Lemma rand_int_loop_Err : forall fuel k b max s,
  rand_int_loop fuel k b max s = Err ->
  exists chunks tail, s = concat chunks ++ tail /\ rejected k b max chunks /\ (length tail < k)%nat.
Proof.
  induction fuel as [|f IH]; intros k b max s H; cbn [rand_int_loop] in H; [discriminate|].
  destruct (take_bytes k s) as [[bs r]|] eqn:T.
  - apply take_bytes_Some in T. destruct T as [Hs Hl].
    cbv zeta in H. fold (chunk_val b bs) in H.
    destruct (Z.ltb_spec (chunk_val b bs) max) as [L|L]; [discriminate|].
    apply IH in H. destruct H as (chunks & tail & Hr & Hrej & Ht).
    exists (bs :: chunks), tail. cbn [concat]. rewrite <- app_assoc. rewrite <- Hr.
    repeat split; auto. constructor; auto.
  - apply take_bytes_None in T. exists [], s. repeat split; auto. constructor.
Qed.

Lemma rand_int_loop_no_panic : forall fuel k b max s, rand_int_loop fuel k b max s <> Panic.
Proof.
  induction fuel as [|f IH]; intros k b max s; cbn [rand_int_loop]; [discriminate|].
  destruct (take_bytes k s) as [[bs r]|]; [|discriminate].
  cbv zeta. destruct (_ <? max); [discriminate|apply IH].
Qed.

Lemma rand_int_loop_no_diverge : forall fuel k b max s,
  (0 < k)%nat -> (length s < fuel)%nat -> rand_int_loop fuel k b max s <> Diverge.
Proof.
  induction fuel as [|f IH]; intros k b max s Hk Hf; cbn [rand_int_loop]; [lia|].
  destruct (take_bytes k s) as [[bs r]|] eqn:T; [|discriminate].
  apply take_bytes_Some in T. destruct T as [Hs Hl].
  cbv zeta. destruct (_ <? max); [discriminate|]. apply IH; [assumption|].
  subst s. rewrite app_length in Hf. lia.
Qed.

Lemma take_bytes_app k c rest : length c = k -> take_bytes k (c ++ rest) = Some (c, rest).
Proof.
  intros <-. unfold take_bytes. rewrite app_length.
  destruct (Nat.ltb_spec (length c + length rest) (length c)) as [L|L]; [lia|].
  rewrite firstn_app, skipn_app, firstn_all, skipn_all, Nat.sub_diag. cbn [firstn skipn app].
  now rewrite app_nil_r.
Qed.

(* the converse: the first chunk below max is what the loop returns *)
Lemma rand_int_loop_complete : forall chunks fuel k b max c rest,
  rejected k b max chunks -> length c = k -> chunk_val b c < max -> (length chunks < fuel)%nat ->
  rand_int_loop fuel k b max (concat chunks ++ c ++ rest) = Ok (chunk_val b c, rest).
Proof.
  induction chunks as [|ch chunks IH]; intros fuel k b max c rest Hrej Hc Hlt Hf;
    (destruct fuel as [|f]; [cbn [length] in Hf; lia|]); cbn [rand_int_loop concat].
  - cbn [app]. rewrite take_bytes_app by exact Hc. cbv zeta. fold (chunk_val b c).
    destruct (Z.ltb_spec (chunk_val b c) max); [reflexivity|lia].
  - inversion Hrej as [|x l [Hl Hge] Hrest]; subst x l.
    rewrite <- app_assoc. rewrite take_bytes_app by exact Hl. cbv zeta. fold (chunk_val b ch).
    destruct (Z.ltb_spec (chunk_val b ch) max); [lia|].
    apply IH; auto. cbn [length] in Hf. lia.
Qed.

Lemma length_concat_uniform (k : nat) (P : list Z -> Prop) chunks :
  Forall (fun ch => length ch = k /\ P ch) chunks -> length (concat chunks) = (length chunks * k)%nat.
Proof.
  induction 1 as [|ch l [Hl _] _ IH]; [reflexivity|].
  cbn [concat length]. rewrite app_length, IH, Hl. lia.
Qed.

Lemma ri_b_range max : 1 < max -> 1 <= ri_b max <= 8.
Proof.
  intros H. unfold ri_b. cbv zeta.
  destruct (bitlen_pos (max - 1) ltac:(lia)) as [B _].
  pose proof (Z.mod_pos_bound (bitlen (max - 1)) 8 ltac:(lia)) as M.
  destruct (Z.eqb_spec (bitlen (max - 1) mod 8) 0); lia.
Qed.

Lemma ri_k_pos max : 1 < max -> (0 < ri_k max)%nat.
Proof.
  intros H. unfold ri_k.
  destruct (bitlen_pos (max - 1) ltac:(lia)) as [B _].
  assert (1 <= (bitlen (max - 1) + 7) / 8) by (apply Z.div_le_lower_bound; lia).
  lia.
Qed.

(* unfolding of rand_int in the three regimes *)
Lemma rand_int_nonpos s max : max <= 0 -> rand_int s max = Panic.
Proof. intros H. unfold rand_int. destruct (Z.leb_spec max 0); [reflexivity|lia]. Qed.

Lemma rand_int_one s : rand_int s 1 = Ok (0, s).
Proof. reflexivity. Qed.

Lemma rand_int_big s max : 1 < max ->
  rand_int s max = rand_int_loop (S (length s)) (ri_k max) (ri_b max) max s.
Proof.
  intros H. unfold rand_int. destruct (Z.leb_spec max 0) as [L|L]; [lia|].
  cbv zeta. destruct (bitlen_pos (max - 1) ltac:(lia)) as [B _].
  destruct (Z.eqb_spec (bitlen (max - 1)) 0) as [E|E]; [lia|]. reflexivity.
Qed.

Theorem rand_int_Panic_iff : forall s max, rand_int s max = Panic <-> max <= 0.
Proof.
  intros s max. split; [|apply rand_int_nonpos].
  intros H. destruct (Z.le_gt_cases max 0) as [L|L]; [exact L|exfalso].
  destruct (Z.eq_dec max 1) as [->|N]; [rewrite rand_int_one in H; discriminate|].
  rewrite rand_int_big in H by lia. now apply rand_int_loop_no_panic in H.
Qed.

Theorem rand_int_no_diverge : forall s max, rand_int s max <> Diverge.
Proof.
  intros s max H. destruct (Z.le_gt_cases max 0) as [L|L].
  - rewrite rand_int_nonpos in H by lia. discriminate.
  - destruct (Z.eq_dec max 1) as [->|N]; [rewrite rand_int_one in H; discriminate|].
    rewrite rand_int_big in H by lia. revert H.
    apply rand_int_loop_no_diverge; [apply ri_k_pos; lia|lia].
Qed.

(* the value returned is the masked value of the FIRST chunk below max *)
Theorem rand_int_first_fit : forall s max v rest, 1 < max -> rand_int s max = Ok (v, rest) ->
  exists chunks c, s = concat chunks ++ c ++ rest /\
    rejected (ri_k max) (ri_b max) max chunks /\
    length c = ri_k max /\ v = chunk_val (ri_b max) c /\ v < max.
Proof.
  intros s max v rest H E. rewrite rand_int_big in E by assumption.
  now apply rand_int_loop_spec in E.
Qed.

Theorem rand_int_first_fit_complete : forall max chunks c rest, 1 < max ->
  rejected (ri_k max) (ri_b max) max chunks -> length c = ri_k max -> chunk_val (ri_b max) c < max ->
  rand_int (concat chunks ++ c ++ rest) max = Ok (chunk_val (ri_b max) c, rest).
Proof.
  intros max chunks c rest H Hrej Hc Hlt. rewrite rand_int_big by assumption.
  apply rand_int_loop_complete; auto.
  pose proof (ri_k_pos max H) as K. rewrite app_length, (length_concat_uniform _ _ _ Hrej). nia.
Qed.

(* Err = the stream ran out: every complete chunk was rejected *)
Theorem rand_int_Err : forall s max, rand_int s max = Err ->
  1 < max /\ exists chunks tail, s = concat chunks ++ tail /\
    rejected (ri_k max) (ri_b max) max chunks /\ (length tail < ri_k max)%nat.
Proof.
  intros s max E. destruct (Z.le_gt_cases max 0) as [L|L].
  - rewrite rand_int_nonpos in E by lia. discriminate.
  - destruct (Z.eq_dec max 1) as [->|N]; [rewrite rand_int_one in E; discriminate|].
    split; [lia|]. rewrite rand_int_big in E by lia. now apply rand_int_loop_Err in E.
Qed.

Theorem rand_int_suffix : forall s max v rest, rand_int s max = Ok (v, rest) ->
  exists used, s = used ++ rest /\ exists j, length used = (j * ri_k max)%nat.
Proof.
  intros s max v rest E. destruct (Z.le_gt_cases max 0) as [L|L].
  - rewrite rand_int_nonpos in E by lia. discriminate.
  - destruct (Z.eq_dec max 1) as [->|N].
    + rewrite rand_int_one in E. injection E as <- <-. exists []. split; [reflexivity|]. exists 0%nat. reflexivity.
    + destruct (rand_int_first_fit s max v rest ltac:(lia) E) as (chunks & c & Hs & Hrej & Hc & _).
      exists (concat chunks ++ c). split; [now rewrite <- app_assoc|].
      exists (S (length chunks)). rewrite app_length, (length_concat_uniform _ _ _ Hrej), Hc. lia.
Qed.

Theorem rand_int_progress : forall s max v rest, 1 < max -> rand_int s max = Ok (v, rest) ->
  (length rest < length s)%nat.
Proof.
  intros s max v rest H E.
  destruct (rand_int_first_fit s max v rest H E) as (chunks & c & Hs & _ & Hc & _).
  pose proof (ri_k_pos max H) as K. subst s. rewrite !app_length. lia.
Qed.

(* v < max always; 0 <= v needs the stream to consist of bytes *)
Theorem rand_int_range : forall s max v rest, rand_int s max = Ok (v, rest) ->
  v < max /\ (bytes_ok s -> 0 <= v).
Proof.
  intros s max v rest E. destruct (Z.le_gt_cases max 0) as [L|L].
  - rewrite rand_int_nonpos in E by lia. discriminate.
  - destruct (Z.eq_dec max 1) as [->|N].
    + rewrite rand_int_one in E. injection E as <- <-. lia.
    + destruct (rand_int_first_fit s max v rest ltac:(lia) E) as (chunks & c & Hs & _ & _ & Hv & Hlt).
      split; [exact Hlt|]. intros B. subst v. apply chunk_val_nonneg.
      * pose proof (ri_b_range max ltac:(lia)). lia.
      * subst s. unfold bytes_ok in *. apply Forall_app in B. destruct B as [_ B].
        apply Forall_app in B. tauto.
Qed.

Corollary rand_int_range_bytes : forall s max v rest, bytes_ok s ->
  rand_int s max = Ok (v, rest) -> 0 <= v < max.
Proof. intros s max v rest B E. destruct (rand_int_range _ _ _ _ E). split; auto. Qed.

(* ------------------------------------------------------------------ *)
(* MustGetRandomInt                                                     *)
(* ------------------------------------------------------------------ *)

Lemma must_rand_int_unfold s bits : 0 < bits <= 5000 ->
  must_rand_int s bits = match rand_int s (2 ^ bits - 1) with Err => Panic | o => o end.
Proof.
  intros H. unfold must_rand_int, mustGetRandomIntMaxBits.
  destruct (Z.leb_spec bits 0); [lia|]. destruct (Z.ltb_spec 5000 bits); [lia|]. reflexivity.
Qed.

Lemma must_rand_int_bad_bits s bits : bits <= 0 \/ 5000 < bits -> must_rand_int s bits = Panic.
Proof.
  intros H. unfold must_rand_int, mustGetRandomIntMaxBits.
  destruct (Z.leb_spec bits 0); [reflexivity|]. destruct (Z.ltb_spec 5000 bits); [reflexivity|lia].
Qed.

Lemma pow2_ge_4 bits : 2 <= bits -> 4 <= 2 ^ bits.
Proof. intros H. change 4 with (2 ^ 2). apply Z.pow_le_mono_r; lia. Qed.

Theorem must_rand_int_spec : forall s bits v rest, must_rand_int s bits = Ok (v, rest) ->
  0 < bits <= 5000 /\ v < 2 ^ bits - 1 /\ (bytes_ok s -> 0 <= v) /\ suffix_of rest s /\
  (2 <= bits -> (length rest < length s)%nat).
Proof.
  intros s bits v rest E.
  assert (Hb : 0 < bits <= 5000).
  { destruct (Z.le_gt_cases bits 0); [rewrite must_rand_int_bad_bits in E by lia; discriminate|].
    destruct (Z.lt_ge_cases 5000 bits); [rewrite must_rand_int_bad_bits in E by lia; discriminate|]. lia. }
  rewrite must_rand_int_unfold in E by exact Hb.
  destruct (rand_int s (2 ^ bits - 1)) as [[v' r']| | |] eqn:R; try discriminate.
  injection E as -> ->.
  destruct (rand_int_range _ _ _ _ R) as [R1 R2].
  destruct (rand_int_suffix _ _ _ _ R) as (used & Hs & _).
  repeat split; try lia; auto.
  - now exists used.
  - intros H2. pose proof (pow2_ge_4 bits H2). eapply rand_int_progress; [|exact R]. lia.
Qed.

Theorem must_rand_int_range : forall s bits v rest, bytes_ok s ->
  must_rand_int s bits = Ok (v, rest) -> 0 <= v < 2 ^ bits - 1.
Proof.
  intros s bits v rest B E. destruct (must_rand_int_spec _ _ _ _ E) as (_ & H1 & H2 & _). auto.
Qed.

Theorem must_rand_int_no_Err : forall s bits, must_rand_int s bits <> Err.
Proof.
  intros s bits E. destruct (Z.le_gt_cases bits 0); [rewrite must_rand_int_bad_bits in E by lia; discriminate|].
  destruct (Z.lt_ge_cases 5000 bits); [rewrite must_rand_int_bad_bits in E by lia; discriminate|].
  rewrite must_rand_int_unfold in E by lia.
  destruct (rand_int s (2 ^ bits - 1)); discriminate.
Qed.

Theorem must_rand_int_no_diverge : forall s bits, must_rand_int s bits <> Diverge.
Proof.
  intros s bits E. destruct (Z.le_gt_cases bits 0); [rewrite must_rand_int_bad_bits in E by lia; discriminate|].
  destruct (Z.lt_ge_cases 5000 bits); [rewrite must_rand_int_bad_bits in E by lia; discriminate|].
  rewrite must_rand_int_unfold in E by lia.
  destruct (rand_int s (2 ^ bits - 1)) eqn:R; try discriminate. now apply rand_int_no_diverge in R.
Qed.

(* panics exactly on a bad bit count or when the reader fails *)
Theorem must_rand_int_Panic_iff : forall s bits,
  must_rand_int s bits = Panic <-> (bits <= 0 \/ 5000 < bits \/ rand_int s (2 ^ bits - 1) = Err).
Proof.
  intros s bits. split.
  - intros E. destruct (Z.le_gt_cases bits 0); [auto|]. destruct (Z.lt_ge_cases 5000 bits); [auto|].
    right; right. rewrite must_rand_int_unfold in E by lia.
    destruct (rand_int s (2 ^ bits - 1)) eqn:R; try discriminate; [reflexivity|].
    apply rand_int_Panic_iff in R.
    assert (2 <= 2 ^ bits) by (change 2 with (2 ^ 1) at 1; apply Z.pow_le_mono_r; lia). lia.
  - intros [H|[H|H]]; [apply must_rand_int_bad_bits; lia|apply must_rand_int_bad_bits; lia|].
    destruct (Z.le_gt_cases bits 0); [apply must_rand_int_bad_bits; lia|].
    destruct (Z.lt_ge_cases 5000 bits); [apply must_rand_int_bad_bits; lia|].
    rewrite must_rand_int_unfold by lia. now rewrite H.
Qed.

Lemma must_rand_int_one_bit s : must_rand_int s 1 = Ok (0, s).
Proof. reflexivity. Qed.

(* ------------------------------------------------------------------ *)
(* the rejection loop                                                   *)
(* ------------------------------------------------------------------ *)

Lemma reject_loop_spec : forall fuel good bits s v rest,
  reject_loop fuel good bits s = Ok (v, rest) ->
  good v = true /\ 0 < bits <= 5000 /\ v < 2 ^ bits - 1 /\ (bytes_ok s -> 0 <= v) /\ suffix_of rest s /\
  (2 <= bits -> (length rest < length s)%nat).
Proof.
  induction fuel as [|f IH]; intros good bits s v rest H; cbn [reject_loop] in H; [discriminate|].
  destruct (must_rand_int s bits) as [[v1 r1]| | |] eqn:M; cbn [obind fst snd] in H; try discriminate.
  destruct (must_rand_int_spec _ _ _ _ M) as (Hb & Hlt & Hnn & Hsuf & Hprog).
  destruct (good v1) eqn:G.
  - injection H as <- <-. repeat split; auto; lia.
  - apply IH in H. destruct H as (G' & _ & Hlt' & Hnn' & Hsuf' & Hprog').
    split; [exact G'|]. split; [exact Hb|]. split; [exact Hlt'|].
    split; [|split].
    + intros B. apply Hnn'. eapply suffix_bytes_ok; eauto.
    + eapply suffix_trans; eauto.
    + intros H2. specialize (Hprog H2). specialize (Hprog' H2). lia.
Qed.

Lemma reject_loop_no_Err : forall fuel good bits s, reject_loop fuel good bits s <> Err.
Proof.
  induction fuel as [|f IH]; intros good bits s; cbn [reject_loop]; [discriminate|].
  destruct (must_rand_int s bits) as [[v1 r1]| | |] eqn:M; cbn [obind fst snd]; try discriminate.
  - destruct (good v1); [discriminate|apply IH].
  - now apply must_rand_int_no_Err in M.
Qed.

Lemma reject_loop_no_diverge : forall fuel good bits s, 2 <= bits -> (length s < fuel)%nat ->
  reject_loop fuel good bits s <> Diverge.
Proof.
  induction fuel as [|f IH]; intros good bits s Hb Hf; cbn [reject_loop]; [lia|].
  destruct (must_rand_int s bits) as [[v1 r1]| | |] eqn:M; cbn [obind fst snd]; try discriminate.
  - destruct (must_rand_int_spec _ _ _ _ M) as (_ & _ & _ & _ & Hprog).
    specialize (Hprog Hb). destruct (good v1); [discriminate|]. apply IH; [assumption|lia].
  - now apply must_rand_int_no_diverge in M.
Qed.

(* with a one-bit request nothing is read: a predicate that rejects 0 is rejected for ever *)
Lemma reject_loop_one_bit_diverges : forall fuel good s, good 0 = false ->
  reject_loop fuel good 1 s = Diverge.
Proof.
  induction fuel as [|f IH]; intros good s G; cbn [reject_loop]; [reflexivity|].
  rewrite must_rand_int_one_bit. cbn [obind fst snd]. rewrite G. now apply IH.
Qed.

Lemma Ok_or_Panic_of {A} (o : Outcome A) : o <> Err -> o <> Diverge -> (exists r, o = Ok r) \/ o = Panic.
Proof. destruct o; intros H1 H2; [left; eauto|congruence|auto|congruence]. Qed.

(* ------------------------------------------------------------------ *)
(* GetRandomPositiveInt                                                 *)
(* ------------------------------------------------------------------ *)

Theorem positive_int_nil : forall s lt, lt <= 0 -> get_random_positive_int s lt = Ok (None, s).
Proof.
  intros s lt H. unfold get_random_positive_int. destruct (Z.leb_spec lt 0); [reflexivity|lia].
Qed.

Lemma positive_int_unfold s lt : 0 < lt ->
  get_random_positive_int s lt =
  (r <- reject_loop (S (length s)) (fun v => v <? lt) (bitlen lt) s ;; Ok (Some (fst r), snd r)).
Proof.
  intros H. unfold get_random_positive_int. destruct (Z.leb_spec lt 0); [lia|reflexivity].
Qed.

Theorem positive_int_spec : forall s lt v rest, get_random_positive_int s lt = Ok (Some v, rest) ->
  0 < lt /\ v < lt /\ (bytes_ok s -> 0 <= v) /\ suffix_of rest s /\
  (2 <= lt -> (length rest < length s)%nat).
Proof.
  intros s lt v rest E.
  destruct (Z.le_gt_cases lt 0) as [L|L]; [rewrite positive_int_nil in E by lia; discriminate|].
  rewrite positive_int_unfold in E by lia.
  destruct (reject_loop _ _ _ s) as [[v1 r1]| | |] eqn:R; cbn [obind fst snd] in E; try discriminate.
  injection E as <- <-.
  destruct (reject_loop_spec _ _ _ _ _ _ R) as (G & _ & _ & Hnn & Hsuf & Hprog).
  apply Z.ltb_lt in G. repeat split; auto; try lia.
  intros H2. apply Hprog. now apply bitlen_ge_2.
Qed.

Theorem positive_int_range : forall s lt v rest, bytes_ok s ->
  get_random_positive_int s lt = Ok (Some v, rest) -> 0 <= v < lt.
Proof.
  intros s lt v rest B E. destruct (positive_int_spec _ _ _ _ E) as (_ & H1 & H2 & _). auto.
Qed.

Theorem positive_int_not_nil : forall s lt rest, 0 < lt -> get_random_positive_int s lt <> Ok (None, rest).
Proof.
  intros s lt rest H E. rewrite positive_int_unfold in E by lia.
  destruct (reject_loop _ _ _ s) as [[v1 r1]| | |]; cbn [obind fst snd] in E; discriminate.
Qed.

Lemma positive_int_one s : get_random_positive_int s 1 = Ok (Some 0, s).
Proof. reflexivity. Qed.

(* the reader failing is the only way not to return: Ok or Panic, never Err, never Diverge *)
Theorem positive_int_Ok_or_Panic : forall s lt,
  (exists r, get_random_positive_int s lt = Ok r) \/ get_random_positive_int s lt = Panic.
Proof.
  intros s lt. destruct (Z.le_gt_cases lt 0) as [L|L]; [left; rewrite positive_int_nil by lia; eauto|].
  destruct (Z.eq_dec lt 1) as [->|N]; [left; rewrite positive_int_one; eauto|].
  rewrite positive_int_unfold by lia.
  pose proof (reject_loop_no_Err (S (length s)) (fun v => v <? lt) (bitlen lt) s) as NE.
  pose proof (reject_loop_no_diverge (S (length s)) (fun v => v <? lt) (bitlen lt) s
                (bitlen_ge_2 lt ltac:(lia)) ltac:(lia)) as ND.
  destruct (reject_loop _ _ _ s) as [[v1 r1]| | |]; cbn [obind]; try congruence; eauto.
Qed.

(* ------------------------------------------------------------------ *)
(* GetRandomPositiveRelativelyPrimeInt                                  *)
(* ------------------------------------------------------------------ *)

Lemma in_mult_group_iff n v : in_mult_group n v = true <-> 0 < n /\ 1 <= v < n /\ Z.gcd v n = 1.
Proof.
  unfold in_mult_group. rewrite !andb_true_iff, !Z.ltb_lt, Z.leb_le, Z.eqb_eq. tauto.
Qed.

Theorem rel_prime_nil : forall s n, n <= 0 -> get_random_rel_prime s n = Ok (None, s).
Proof.
  intros s n H. unfold get_random_rel_prime. destruct (Z.leb_spec n 0); [reflexivity|lia].
Qed.

Lemma rel_prime_unfold s n : 0 < n ->
  get_random_rel_prime s n =
  (r <- reject_loop (S (length s)) (in_mult_group n) (bitlen n) s ;; Ok (Some (fst r), snd r)).
Proof.
  intros H. unfold get_random_rel_prime. destruct (Z.leb_spec n 0); [lia|reflexivity].
Qed.

Theorem rel_prime_spec : forall s n v rest, get_random_rel_prime s n = Ok (Some v, rest) ->
  1 <= v < n /\ Z.gcd v n = 1 /\ suffix_of rest s /\ (length rest < length s)%nat.
Proof.
  intros s n v rest E.
  destruct (Z.le_gt_cases n 0) as [L|L]; [rewrite rel_prime_nil in E by lia; discriminate|].
  rewrite rel_prime_unfold in E by lia.
  destruct (reject_loop _ _ _ s) as [[v1 r1]| | |] eqn:R; cbn [obind fst snd] in E; try discriminate.
  injection E as <- <-.
  destruct (reject_loop_spec _ _ _ _ _ _ R) as (G & _ & _ & _ & Hsuf & Hprog).
  apply in_mult_group_iff in G. destruct G as (_ & G1 & G2).
  repeat split; auto; try lia. apply Hprog. apply bitlen_ge_2. lia.
Qed.

Theorem rel_prime_not_nil : forall s n rest, 0 < n -> get_random_rel_prime s n <> Ok (None, rest).
Proof.
  intros s n rest H E. rewrite rel_prime_unfold in E by lia.
  destruct (reject_loop _ _ _ s) as [[v1 r1]| | |]; cbn [obind fst snd] in E; discriminate.
Qed.

(* Z/1Z has no representative in [1,1): GetRandomPositiveRelativelyPrimeInt(1) never returns,
   whatever the reader delivers (nothing is even read) *)
Theorem rel_prime_one_diverges : forall s, get_random_rel_prime s 1 = Diverge.
Proof.
  intros s. rewrite rel_prime_unfold by lia. change (bitlen 1) with 1.
  rewrite reject_loop_one_bit_diverges; reflexivity.
Qed.

Theorem rel_prime_Ok_or_Panic : forall s n, 2 <= n ->
  (exists v rest, get_random_rel_prime s n = Ok (Some v, rest)) \/ get_random_rel_prime s n = Panic.
Proof.
  intros s n H. rewrite rel_prime_unfold by lia.
  pose proof (reject_loop_no_Err (S (length s)) (in_mult_group n) (bitlen n) s) as NE.
  pose proof (reject_loop_no_diverge (S (length s)) (in_mult_group n) (bitlen n) s
                (bitlen_ge_2 n H) ltac:(lia)) as ND.
  destruct (reject_loop _ _ _ s) as [[v1 r1]| | |]; cbn [obind fst snd]; try congruence; eauto.
Qed.

Corollary rel_prime_no_diverge : forall s n, n <> 1 -> get_random_rel_prime s n <> Diverge.
Proof.
  intros s n N E. destruct (Z.le_gt_cases n 0) as [L|L]; [rewrite rel_prime_nil in E by lia; discriminate|].
  destruct (rel_prime_Ok_or_Panic s n ltac:(lia)) as [(v & r & H)|H]; congruence.
Qed.

(* ------------------------------------------------------------------ *)
(* GetRandomGeneratorOfTheQuadraticResidue                              *)
(* ------------------------------------------------------------------ *)

Theorem qr_generator_spec : forall s n h rest, get_random_qr_generator s n = Ok (h, rest) ->
  (exists f, 1 <= f < n /\ Z.gcd f n = 1 /\ h = (f * f) mod n) /\
  0 <= h < n /\ Z.gcd h n = 1 /\ suffix_of rest s.
Proof.
  intros s n h rest E. unfold get_random_qr_generator in E.
  destruct (get_random_rel_prime s n) as [[[f|] r1]| | |] eqn:R; cbn [obind fst snd] in E; try discriminate.
  injection E as <- <-.
  destruct (rel_prime_spec _ _ _ _ R) as (F1 & F2 & Hsuf & _).
  split; [exists f; auto|]. split; [apply Z.mod_pos_bound; lia|]. split; [|exact Hsuf].
  rewrite zk_gcd_mod by lia. now apply gcd_1_mul_l.
Qed.

(* a nil modulus or n <= 0: f is nil and f.Mul(f, f) dereferences it *)
Theorem qr_generator_nonpos : forall s n, n <= 0 -> get_random_qr_generator s n = Panic.
Proof.
  intros s n H. unfold get_random_qr_generator. rewrite rel_prime_nil by exact H. reflexivity.
Qed.

Theorem qr_generator_one_diverges : forall s, get_random_qr_generator s 1 = Diverge.
Proof. intros s. unfold get_random_qr_generator. now rewrite rel_prime_one_diverges. Qed.

(* ------------------------------------------------------------------ *)
(* GetRandomQuadraticNonResidue                                         *)
(* ------------------------------------------------------------------ *)

Lemma qnr_loop_spec : forall fuel s n w rest, qnr_loop fuel s n = Ok (w, rest) ->
  w < n /\ (bytes_ok s -> 0 <= w) /\ go_jacobi w n = Ok (-1) /\ suffix_of rest s.
Proof.
  induction fuel as [|f IH]; intros s n w rest H; cbn [qnr_loop] in H; [discriminate|].
  destruct (get_random_positive_int s n) as [[[w1|] r1]| | |] eqn:P; cbn [obind fst snd] in H; try discriminate.
  destruct (positive_int_spec _ _ _ _ P) as (_ & Hlt & Hnn & Hsuf & _).
  destruct (go_jacobi w1 n) as [j| | |] eqn:J; cbn [obind] in H; try discriminate.
  destruct (Z.eqb_spec j (-1)) as [->|Nj].
  - injection H as <- <-. auto.
  - apply IH in H. destruct H as (H1 & H2 & H3 & H4). repeat split; auto.
    + intros B. apply H2. eapply suffix_bytes_ok; eauto.
    + eapply suffix_trans; eauto.
Qed.

Theorem qnr_spec : forall s n w rest, bytes_ok s -> get_random_qnr s n = Ok (w, rest) ->
  0 <= w < n /\ go_jacobi w n = Ok (-1) /\ suffix_of rest s.
Proof.
  intros s n w rest B E. unfold get_random_qnr in E.
  destruct (qnr_loop_spec _ _ _ _ _ E) as (H1 & H2 & H3 & H4). auto.
Qed.

(* an even modulus: big.Jacobi panics on the first candidate (or MustGetRandomInt panics before) *)
Theorem qnr_even_panics : forall s n, Z.even n = true -> get_random_qnr s n = Panic.
Proof.
  intros s n Ev. unfold get_random_qnr. cbn [qnr_loop].
  destruct (positive_int_Ok_or_Panic s n) as [[[[w|] r] P]|P]; rewrite P; cbn [obind fst snd]; try reflexivity.
  assert (J : go_jacobi w n = Panic) by now apply go_jacobi_panic_iff. now rewrite J.
Qed.

Theorem qnr_nonpos_panics : forall s n, n <= 0 -> get_random_qnr s n = Panic.
Proof.
  intros s n H. unfold get_random_qnr. cbn [qnr_loop]. rewrite positive_int_nil by exact H. reflexivity.
Qed.

(* n = 1: the only candidate is 0, Jacobi(0,1) = 1, nothing is read: never returns *)
Theorem qnr_one_diverges : forall s, get_random_qnr s 1 = Diverge.
Proof.
  intros s. unfold get_random_qnr. generalize (S (length s)) as fuel.
  induction fuel as [|f IH]; [reflexivity|].
  cbn [qnr_loop]. rewrite positive_int_one. cbn [obind fst snd].
  change (go_jacobi 0 1) with (Ok 1 : Outcome Z). cbn [obind]. exact IH.
Qed.

Lemma qnr_loop_no_diverge : forall fuel s n, 2 <= n -> (length s < fuel)%nat -> qnr_loop fuel s n <> Diverge.
Proof.
  induction fuel as [|f IH]; intros s n Hn Hf; cbn [qnr_loop]; [lia|].
  destruct (positive_int_Ok_or_Panic s n) as [[[[w|] r] P]|P]; rewrite P; cbn [obind fst snd]; try discriminate.
  destruct (positive_int_spec _ _ _ _ P) as (_ & _ & _ & _ & Hprog). specialize (Hprog Hn).
  destruct (go_jacobi w n) as [j| | |] eqn:J; cbn [obind]; try discriminate.
  - destruct (j =? -1); [discriminate|]. apply IH; [assumption|lia].
  - unfold go_jacobi in J. destruct (Z.even n); discriminate.
Qed.

Theorem qnr_no_diverge : forall s n, n <> 1 -> get_random_qnr s n <> Diverge.
Proof.
  intros s n N. destruct (Z.le_gt_cases n 0) as [L|L]; [rewrite qnr_nonpos_panics by lia; discriminate|].
  unfold get_random_qnr. apply qnr_loop_no_diverge; lia.
Qed.

Theorem qnr_no_Err : forall s n, get_random_qnr s n <> Err.
Proof.
  intros s n. unfold get_random_qnr. generalize (S (length s)) as fuel. intros fuel. revert s.
  induction fuel as [|f IH]; intros s; cbn [qnr_loop]; [discriminate|].
  destruct (positive_int_Ok_or_Panic s n) as [[[[w|] r] P]|P]; rewrite P; cbn [obind fst snd]; try discriminate.
  unfold go_jacobi. destruct (Z.even n); cbn [obind]; [discriminate|].
  destruct (_ =? -1); [discriminate|apply IH].
Qed.

Print Assumptions rand_int_range.
Print Assumptions rand_int_suffix.
Print Assumptions rand_int_Panic_iff.
Print Assumptions rand_int_no_diverge.
Print Assumptions rand_int_first_fit.
Print Assumptions rand_int_first_fit_complete.
Print Assumptions rand_int_Err.
Print Assumptions chunk_val_mask.
Print Assumptions must_rand_int_spec.
Print Assumptions must_rand_int_range.
Print Assumptions must_rand_int_no_Err.
Print Assumptions must_rand_int_no_diverge.
Print Assumptions must_rand_int_Panic_iff.
Print Assumptions positive_int_spec.
Print Assumptions positive_int_range.
Print Assumptions positive_int_nil.
Print Assumptions positive_int_not_nil.
Print Assumptions positive_int_Ok_or_Panic.
Print Assumptions rel_prime_spec.
Print Assumptions rel_prime_nil.
Print Assumptions rel_prime_not_nil.
Print Assumptions rel_prime_one_diverges.
Print Assumptions rel_prime_Ok_or_Panic.
Print Assumptions rel_prime_no_diverge.
Print Assumptions qr_generator_spec.
Print Assumptions qr_generator_nonpos.
Print Assumptions qr_generator_one_diverges.
Print Assumptions qnr_spec.
Print Assumptions qnr_even_panics.
Print Assumptions qnr_nonpos_panics.
Print Assumptions qnr_one_diverges.
Print Assumptions qnr_no_diverge.
Print Assumptions qnr_no_Err.
