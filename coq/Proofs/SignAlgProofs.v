(* Proofs about Model/SignAlg.v: what threshold ECDSA / EdDSA signing, key generation and
   resharing compute (properties C01-C04). *)
From Coq Require Import ZArith Znumtheory List Lia Bool Setoid Morphisms.
From TSS Require Import Base.Outcome Base.Bytes Base.ZMod Base.GoInt
  Model.Poly Model.Group Model.Curve Model.Schnorr Model.SignAlg
  Proofs.BytesProofs Proofs.FermatBridge Proofs.ZModProofs Proofs.PolyProofs Proofs.GroupProofs Proofs.CurveLawsProofs.
Import ListNotations.
Open Scope Z_scope.

(* ====================================================================== *)
(* A. shares and weights                                                    *)
(* ====================================================================== *)

(* "the shares xs held by the parties with ids ks lie on the polynomial coefs" *)
Definition on_poly (q : Z) (coefs ks xs : list Z) : Prop :=
  length xs = length ks /\
  forall i, (i < length ks)%nat -> eqm q (nth i xs 0) (horner coefs (nth i ks 0)).

Definition distinct_mod (q : Z) (ks : list Z) : Prop := NoDup (map (fun k => k mod q) ks).

Theorem weights_sum_secret : forall q ks coefs xs,
  prime q -> distinct_mod q ks -> (length coefs <= length ks)%nat ->
  length xs = length ks ->
  (forall i, (i < length ks)%nat -> eqm q (nth i xs 0) (horner coefs (nth i ks 0))) ->
  eqm q (zsum (sign_weights q ks xs)) (horner coefs 0).
Proof.
  intros q ks coefs xs Hq ND Hlen Hls Hsh.
  unfold zsum, sign_weights.
  exact (prepare_wi_sum q ks coefs Hq ND Hlen xs Hls Hsh).
Qed.

Lemma sign_weights_length q ks xs : length (sign_weights q ks xs) = length ks.
Proof. unfold sign_weights. now rewrite map_length, seq_length. Qed.

(* ---------- sums over lists ---------- *)

Lemma zsum_cons a l : zsum (a :: l) = a + zsum l.
Proof. reflexivity. Qed.

Lemma zsum_map_eqm {A} q (f g : A -> Z) l :
  (forall a, In a l -> eqm q (f a) (g a)) -> eqm q (zsum (map f l)) (zsum (map g l)).
Proof.
  induction l as [|a l IH]; intros H; cbn [map]; [reflexivity|].
  rewrite !zsum_cons. rewrite (H a) by (left; reflexivity). rewrite IH; [reflexivity|].
  intros b Hb. apply H. now right.
Qed.

(* the coefficient-wise sum of a list of polynomials *)
Definition psum (polys : list (list Z)) : list Z := fold_right padd [] polys.

Lemma horner_psum' polys x : horner (psum polys) x = zsum (map (fun p => horner p x) polys).
Proof.
  induction polys as [|p l IH]; cbn [psum fold_right map horner]; [reflexivity|].
  rewrite zsum_cons, horner_padd. fold (psum l). now rewrite IH.
Qed.

Lemma length_psum' polys n :
  Forall (fun p => (length p <= n)%nat) polys -> (length (psum polys) <= n)%nat.
Proof.
  induction 1 as [|p l Hp HF IH]; cbn [psum fold_right length]; [lia|].
  rewrite length_padd. fold (psum l). lia.
Qed.

Lemma psum_const polys : horner (psum polys) 0 = zsum (map (fun p => hd 0 p) polys).
Proof.
  rewrite horner_psum'. f_equal. apply map_ext. intros p. apply horner_0.
Qed.

(* ---------- key generation (C03) ---------- *)

Section KeygenAlg.
  Variable c : curve.
  Local Notation q := (cq c).

  Lemma kg_share_poly : forall polys kj, 0 < q ->
    eqm q (kg_share c polys kj) (horner (psum polys) kj).
  Proof.
    intros polys kj Hq. unfold kg_share. rewrite eqm_mod, horner_psum'.
    apply zsum_map_eqm. intros p _. now apply eval_poly_spec.
  Qed.

  Lemma rs_share_poly : forall polys kj, 0 < q ->
    eqm q (rs_share c polys kj) (horner (psum polys) kj).
  Proof.
    intros polys kj Hq. unfold rs_share. rewrite horner_psum'.
    apply zsum_map_eqm. intros p _. now apply eval_poly_spec.
  Qed.

  Lemma kg_secret_poly : forall polys, eqm q (kg_secret c polys) (horner (psum polys) 0).
  Proof. intros polys. unfold kg_secret. rewrite eqm_mod, psum_const. reflexivity. Qed.

  Lemma kg_share_range : forall polys kj, 0 < q -> 0 <= kg_share c polys kj < q.
  Proof. intros. unfold kg_share. apply Z.mod_pos_bound. assumption. Qed.

  Lemma kg_secret_range : forall polys, 0 < q -> 0 <= kg_secret c polys < q.
  Proof. intros. unfold kg_secret. apply Z.mod_pos_bound. assumption. Qed.

  Lemma kg_shares_on_poly : forall polys ks, 0 < q ->
    on_poly q (psum polys) ks (kg_shares c polys ks).
  Proof.
    intros polys ks Hq. unfold on_poly, kg_shares. split; [apply map_length|].
    intros i Hi. rewrite (nth_indep _ 0 (kg_share c polys 0)) by (rewrite map_length; exact Hi).
    rewrite map_nth. now apply kg_share_poly.
  Qed.

  Lemma rs_shares_on_poly : forall polys ks, 0 < q ->
    on_poly q (psum polys) ks (rs_shares c polys ks).
  Proof.
    intros polys ks Hq. unfold on_poly, rs_shares. split; [apply map_length|].
    intros i Hi. rewrite (nth_indep _ 0 (rs_share c polys 0)) by (rewrite map_length; exact Hi).
    rewrite map_nth. now apply rs_share_poly.
  Qed.

  (* every set of parties whose number exceeds the degree of every dealer polynomial and
     whose ids are distinct mod q holds Lagrange-weighted shares that sum to the sum of
     ALL dealers' u_i *)
  Theorem keygen_consistent_gen : forall polys ks,
    prime q -> distinct_mod q ks ->
    Forall (fun p => (length p <= length ks)%nat) polys ->
    eqm q (zsum (sign_weights q ks (kg_shares c polys ks))) (kg_secret c polys).
  Proof.
    intros polys ks Hq ND HF. pose proof (prime_gt_1 q Hq) as H1.
    rewrite kg_secret_poly.
    destruct (kg_shares_on_poly polys ks ltac:(lia)) as [HL HS].
    apply weights_sum_secret; auto. now apply length_psum'.
  Qed.

  Theorem keygen_consistent : forall t polys ks,
    prime q -> distinct_mod q ks ->
    Forall (fun p => length p = S t) polys ->
    (t < length ks)%nat ->
    eqm q (zsum (sign_weights q ks (kg_shares c polys ks))) (kg_secret c polys).
  Proof.
    intros t polys ks Hq ND HF Ht. apply keygen_consistent_gen; auto.
    eapply Forall_impl; [|exact HF]. cbv beta. intros p Hp. lia.
  Qed.

  (* the group key is determined by the full set of u_i: changing (or dropping) one
     dealer's constant term by d shifts the secret by d *)
  Lemma kg_secret_app : forall l1 l2,
    eqm q (kg_secret c (l1 ++ l2)) (kg_secret c l1 + kg_secret c l2).
  Proof.
    intros l1 l2. unfold kg_secret. rewrite !eqm_mod, map_app.
    apply eqm_of_eq. induction l1 as [|p l IH]; cbn [app map]; rewrite ?zsum_cons; [reflexivity|].
    rewrite IH. ring.
  Qed.

  Theorem kg_secret_no_dealer_dropped : forall l1 p l2,
    hd 0 p mod q <> 0 ->
    ~ eqm q (kg_secret c (l1 ++ p :: l2)) (kg_secret c (l1 ++ l2)).
  Proof.
    intros l1 p l2 Hp E.
    rewrite !kg_secret_app in E. change (p :: l2) with ([p] ++ l2) in E.
    rewrite (kg_secret_app [p] l2) in E.
    apply Hp. apply (proj1 (eqm_0_iff q (hd 0 p))).
    assert (E' : eqm q (kg_secret c [p]) 0).
    { apply (proj1 (eqm_sub_0 q _ _)).
      transitivity ((kg_secret c l1 + (kg_secret c [p] + kg_secret c l2)) - (kg_secret c l1 + kg_secret c l2)).
      - apply eqm_of_eq; ring.
      - rewrite E. apply eqm_of_eq; ring. }
    transitivity (kg_secret c [p]); [|exact E'].
    unfold kg_secret. rewrite eqm_mod. cbn [map]. rewrite zsum_cons.
    apply eqm_of_eq. cbn [map zsum fold_right]. ring.
  Qed.
End KeygenAlg.

(* ---------- key generation: the public side ---------- *)

Lemma omapM_Ok_map {A B} (f : A -> Outcome B) (g : A -> B) : forall l rs,
  omapM f l = Ok rs -> (forall a r, In a l -> f a = Ok r -> r = g a) -> rs = map g l.
Proof.
  induction l as [|a l IH]; intros rs E H; cbn [omapM] in E.
  - injection E as <-. reflexivity.
  - destruct (f a) as [b| | |] eqn:Ea; cbn [obind] in E; try discriminate.
    destruct (omapM f l) as [bs| | |] eqn:El; cbn [obind] in E; try discriminate.
    injection E as <-. cbn [map]. f_equal.
    + apply (H a b); [now left|exact Ea].
    + apply IH; [reflexivity|]. intros a' r Hin. apply H. now right.
Qed.

Lemma omapM_all_Ok {A B} (f : A -> Outcome B) (g : A -> B) : forall l,
  (forall a, In a l -> f a = Ok (g a)) -> omapM f l = Ok (map g l).
Proof.
  induction l as [|a l IH]; intros H; cbn [omapM map]; [reflexivity|].
  rewrite (H a) by (now left). cbn [obind]. rewrite IH; [reflexivity|].
  intros a' Hin. apply H. now right.
Qed.

Section KeygenCurve.
  Variable c : curve.
  Hypothesis CL : curve_laws c.
  Local Notation q := (cq c).
  Local Notation B := (base c).
  Local Notation cmul := (@gmul (curve_group c)).

  Lemma q_pos : 0 < q.
  Proof. pose proof (q_gt_1_c c CL). lia. Qed.

  Lemma ec_base_mul_nonneg : forall k P, 0 <= k ->
    (ec_base_mul c k = Ok P <-> (P = cmul k B /\ representable P = true)).
  Proof.
    intros k P Hk. unfold ec_base_mul. rewrite (ec_smul_Ok c). rewrite Z.abs_eq by exact Hk. reflexivity.
  Qed.

  Lemma ec_base_mul_Ok_nz : forall k, 0 <= k -> (ck c = Edw \/ k mod q <> 0) ->
    ec_base_mul c k = Ok (cmul k B).
  Proof.
    intros k Hk Hnz. apply ec_base_mul_nonneg; [exact Hk|]. split; [reflexivity|].
    apply (rep_gmul_B c CL). exact Hnz.
  Qed.

  Lemma ec_base_mul_panic_zero : forall k, ck c = Weier -> k mod q = 0 -> ec_base_mul c k = Panic.
  Proof.
    intros k W Hk. unfold ec_base_mul. apply ec_smul_unrep.
    destruct (representable (cmul (Z.abs k) B)) eqn:E; [|reflexivity].
    apply (rep_gmul_B c CL) in E. destruct E as [E|E]; [congruence|].
    exfalso. apply E. pose proof q_pos. destruct (Z.abs_spec k) as [[_ ->]|[_ ->]]; [exact Hk|].
    apply Z.mod_divide in Hk; [|lia]. apply Z.mod_divide; [lia|]. now apply Z.divide_opp_r.
  Qed.

  (* y = (sum of all u_i) * B *)
  Theorem kg_pub_spec : forall polys P, kg_pub c polys = Ok P ->
    P = cmul (kg_secret c polys) B /\ P = cmul (zsum (map (fun p => hd 0 p) polys)) B /\
    representable P = true.
  Proof.
    intros polys P E. unfold kg_pub in E.
    apply ec_base_mul_nonneg in E; [|apply kg_secret_range, q_pos].
    destruct E as [E R]. split; [exact E|split; [|exact R]].
    rewrite E. unfold kg_secret. apply (c_gmul_mod_q c CL).
  Qed.

  Theorem kg_pub_Ok : forall polys, (ck c = Edw \/ kg_secret c polys <> 0) ->
    kg_pub c polys = Ok (cmul (kg_secret c polys) B).
  Proof.
    intros polys H. unfold kg_pub. pose proof (kg_secret_range c polys q_pos) as Hr.
    apply ec_base_mul_Ok_nz; [lia|]. destruct H as [H|H]; [now left|right].
    rewrite Z.mod_small by exact Hr. exact H.
  Qed.

  (* the secp256k1 failure mode: the u_i sum to 0 mod q *)
  Theorem kg_pub_panics : forall polys, ck c = Weier -> kg_secret c polys = 0 ->
    kg_pub c polys = Panic.
  Proof.
    intros polys W H. unfold kg_pub. apply ec_base_mul_panic_zero; [exact W|].
    rewrite H. apply Zmod_0_l.
  Qed.

  (* X_j = x_j * B = F(k_j) * B *)
  Theorem kg_bigx_spec : forall polys ks Xs, kg_bigx c polys ks = Ok Xs ->
    Xs = map (fun kj => cmul (kg_share c polys kj) B) ks /\
    Forall (fun X => representable X = true) Xs.
  Proof.
    intros polys ks Xs E. unfold kg_bigx in E.
    assert (E1 : Xs = map (fun kj => cmul (kg_share c polys kj) B) ks).
    { apply (omapM_Ok_map _ _ _ _ E). intros kj r _ Er.
      apply ec_base_mul_nonneg in Er; [tauto|apply kg_share_range, q_pos]. }
    split; [exact E1|].
    clear E1. revert Xs E. induction ks as [|kj ks IH]; intros Xs E; cbn [omapM] in E.
    - injection E as <-. constructor.
    - destruct (ec_base_mul c (kg_share c polys kj)) as [b| | |] eqn:Ea; cbn [obind] in E; try discriminate.
      destruct (omapM (fun kj0 => ec_base_mul c (kg_share c polys kj0)) ks) as [bs| | |] eqn:El;
        cbn [obind] in E; try discriminate.
      injection E as <-. constructor; [|apply IH; reflexivity].
      apply ec_base_mul_nonneg in Ea; [tauto|apply kg_share_range, q_pos].
  Qed.

  Theorem kg_bigx_Ok : forall polys ks,
    (ck c = Edw \/ Forall (fun kj => kg_share c polys kj <> 0) ks) ->
    kg_bigx c polys ks = Ok (map (fun kj => cmul (kg_share c polys kj) B) ks).
  Proof.
    intros polys ks H. unfold kg_bigx. apply omapM_all_Ok. intros kj Hin.
    pose proof (kg_share_range c polys kj q_pos) as Hr.
    apply ec_base_mul_Ok_nz; [lia|]. destruct H as [H|H]; [now left|right].
    rewrite Z.mod_small by exact Hr. rewrite Forall_forall in H. now apply H.
  Qed.

  (* evaluation of the summed polynomial in the exponent *)
  Theorem kg_bigx_exponent : forall polys kj,
    cmul (kg_share c polys kj) B = cmul (horner (psum polys) kj) B.
  Proof. intros polys kj. apply (c_gmul_eqm c CL). apply kg_share_poly. apply q_pos. Qed.

  Theorem kg_pub_exponent : forall polys,
    cmul (kg_secret c polys) B = cmul (horner (psum polys) 0) B.
  Proof. intros polys. apply (c_gmul_eqm c CL). apply kg_secret_poly. Qed.

  (* Lagrange interpolation in the exponent: the X_j of any qualified set determine the key *)
  Theorem kg_bigx_weights_pub : forall t polys ks,
    distinct_mod q ks -> Forall (fun p => length p = S t) polys -> (t < length ks)%nat ->
    cmul (zsum (sign_weights q ks (kg_shares c polys ks))) B = cmul (kg_secret c polys) B.
  Proof.
    intros t polys ks ND HF Ht. apply (c_gmul_eqm c CL).
    apply (keygen_consistent c t); auto. apply (q_prime_c c CL).
  Qed.
End KeygenCurve.

(* ---------- resharing (C04) ---------- *)

(* (ks, xs) is a (t+1)-out-of-n sharing of x *)
Definition shares_of (q : Z) (t : nat) (x : Z) (ks xs : list Z) : Prop :=
  distinct_mod q ks /\ (t < length ks)%nat /\
  exists coefs, (length coefs <= S t)%nat /\ eqm q (horner coefs 0) x /\ on_poly q coefs ks xs.

Theorem shares_of_reconstruct : forall q t x ks xs,
  prime q -> shares_of q t x ks xs -> eqm q (zsum (sign_weights q ks xs)) x.
Proof.
  intros q t x ks xs Hq (ND & Ht & coefs & Hl & H0 & HL & HS).
  rewrite <- H0. apply weights_sum_secret; auto. lia.
Qed.

Lemma map_fst_combine {A B} : forall (l : list A) (l' : list B),
  length l = length l' -> map fst (combine l l') = l.
Proof.
  induction l as [|a l IH]; intros [|b l'] H; cbn in *; try discriminate; [reflexivity|].
  f_equal. apply IH. lia.
Qed.

Section Reshare.
  Variable c : curve.
  Local Notation q := (cq c).

  Lemma reshare_polys_heads : forall ks xs tails, length tails = length ks ->
    map (fun p => hd 0 p) (reshare_polys c ks xs tails) = sign_weights q ks xs.
  Proof.
    intros ks xs tails HL. unfold reshare_polys. rewrite map_map. cbn [hd].
    apply map_fst_combine. rewrite sign_weights_length. lia.
  Qed.

  Lemma reshare_polys_length : forall ks xs tails, length tails = length ks ->
    length (reshare_polys c ks xs tails) = length ks.
  Proof.
    intros ks xs tails HL. unfold reshare_polys. rewrite map_length, combine_length, sign_weights_length. lia.
  Qed.

  Lemma reshare_polys_degree : forall ks xs tails t',
    Forall (fun tl => (length tl <= t')%nat) tails ->
    Forall (fun p => (length p <= S t')%nat) (reshare_polys c ks xs tails).
  Proof.
    intros ks xs tails t' HF. unfold reshare_polys. apply Forall_forall. intros p Hp.
    apply in_map_iff in Hp. destruct Hp as [[w tl] [<- Hin]]. cbn [fst snd length].
    apply in_combine_r in Hin. rewrite Forall_forall in HF. specialize (HF tl Hin). lia.
  Qed.

  (* the summed dealing polynomial G has constant term = sum of the old Lagrange-weighted shares *)
  Lemma reshare_const : forall ks xs tails, length tails = length ks ->
    horner (psum (reshare_polys c ks xs tails)) 0 = zsum (sign_weights q ks xs).
  Proof. intros ks xs tails HL. rewrite psum_const, reshare_polys_heads by exact HL. reflexivity. Qed.

  Theorem reshare_step : forall t x ks xs tails t' nks,
    prime q -> shares_of q t x ks xs ->
    length tails = length ks -> Forall (fun tl => (length tl <= t')%nat) tails ->
    distinct_mod q nks -> (t' < length nks)%nat ->
    shares_of q t' x nks (rs_shares c (reshare_polys c ks xs tails) nks).
  Proof.
    intros t x ks xs tails t' nks Hq Hs HL HF ND Ht'.
    pose proof (prime_gt_1 q Hq) as H1.
    split; [exact ND|split; [exact Ht'|]].
    exists (psum (reshare_polys c ks xs tails)). split; [|split].
    - apply length_psum'. now apply reshare_polys_degree.
    - rewrite reshare_const by exact HL. now apply (shares_of_reconstruct q t).
    - apply rs_shares_on_poly. lia.
  Qed.

  (* explicit form: any t'+1 new members reconstruct the old secret *)
  Theorem reshare_keeps_secret : forall coefs ks xs tails t' nks,
    prime q -> distinct_mod q ks -> (length coefs <= length ks)%nat ->
    on_poly q coefs ks xs ->
    length tails = length ks -> Forall (fun tl => (length tl <= t')%nat) tails ->
    distinct_mod q nks -> (t' < length nks)%nat ->
    eqm q (zsum (sign_weights q nks (rs_shares c (reshare_polys c ks xs tails) nks)))
          (horner coefs 0).
  Proof.
    intros coefs ks xs tails t' nks Hq ND Hlen HP HL HF NDn Ht'.
    destruct (Nat.eq_dec (length ks) 0) as [E0|NE0].
    - (* no old members: coefs = [] and everything is 0 *)
      assert (coefs = []) by (destruct coefs; cbn in *; [reflexivity|lia]). subst coefs.
      destruct ks; [|discriminate]. destruct tails; [|discriminate].
      apply (shares_of_reconstruct q t'); [exact Hq|].
      split; [exact NDn|split; [exact Ht'|]]. exists []. split; [cbn; lia|split; [reflexivity|]].
      apply (rs_shares_on_poly c [] nks). pose proof (prime_gt_1 q Hq). lia.
    - apply (shares_of_reconstruct q t'); [exact Hq|].
      apply (reshare_step (length ks - 1) (horner coefs 0) ks xs tails t' nks); auto.
      split; [exact ND|split; [lia|]]. exists coefs. split; [lia|split; [reflexivity|exact HP]].
  Qed.

  (* a chain of resharings *)
  Record rstep := mkRStep { st_tails : list (list Z); st_ks : list Z; st_t : nat }.

  Fixpoint chain_run (ks xs : list Z) (steps : list rstep) : list Z * list Z :=
    match steps with
    | [] => (ks, xs)
    | s :: rest =>
        chain_run (st_ks s) (rs_shares c (reshare_polys c ks xs (st_tails s)) (st_ks s)) rest
    end.

  Fixpoint chain_ok (n : nat) (steps : list rstep) : Prop :=
    match steps with
    | [] => True
    | s :: rest =>
        length (st_tails s) = n /\
        Forall (fun tl => (length tl <= st_t s)%nat) (st_tails s) /\
        distinct_mod q (st_ks s) /\ (st_t s < length (st_ks s))%nat /\
        chain_ok (length (st_ks s)) rest
    end.

  Definition chain_t (t : nat) (steps : list rstep) : nat := fold_left (fun _ s => st_t s) steps t.

  Theorem reshare_chain : forall steps t x ks xs,
    prime q -> shares_of q t x ks xs -> chain_ok (length ks) steps ->
    shares_of q (chain_t t steps) x (fst (chain_run ks xs steps)) (snd (chain_run ks xs steps)).
  Proof.
    induction steps as [|s rest IH]; intros t x ks xs Hq Hs Hok; cbn [chain_run chain_t fold_left fst snd].
    - exact Hs.
    - cbn [chain_ok] in Hok. destruct Hok as (HL & HF & ND & Ht & Hrest).
      apply IH; [exact Hq| |exact Hrest].
      apply (reshare_step t x ks xs); auto.
  Qed.

  Corollary reshare_chain_secret : forall steps t x ks xs,
    prime q -> shares_of q t x ks xs -> chain_ok (length ks) steps ->
    eqm q (zsum (sign_weights q (fst (chain_run ks xs steps)) (snd (chain_run ks xs steps)))) x.
  Proof.
    intros steps t x ks xs Hq Hs Hok.
    apply (shares_of_reconstruct q (chain_t t steps)); [exact Hq|]. now apply reshare_chain.
  Qed.

  (* what goes wrong when an old member's contribution is missing: the secret is shifted by
     the missing Lagrange-weighted share *)
  Theorem reshare_const_missing : forall ks xs tails,
    horner (psum (reshare_polys c ks xs tails)) 0 =
    zsum (firstn (length tails) (sign_weights q ks xs)).
  Proof.
    intros ks xs tails. rewrite psum_const. unfold reshare_polys. rewrite map_map. cbn [hd].
    f_equal. generalize (sign_weights q ks xs) as ws. intros ws. revert tails.
    induction ws as [|w ws IH]; intros [|tl tails]; cbn [combine map length firstn]; try reflexivity.
    f_equal. apply IH.
  Qed.
End Reshare.

(* ====================================================================== *)
(* byte-level helpers                                                       *)
(* ====================================================================== *)

Lemma two256_eq : 2 ^ 256 = 256 ^ Z.of_nat 32.
Proof. vm_compute. reflexivity. Qed.

Lemma be_acc_length : forall fuel n v acc,
  0 <= v < 256 ^ Z.of_nat n -> (length (be_acc fuel v acc) <= n + length acc)%nat.
Proof.
  induction fuel as [|k IH]; intros n v acc Hv; cbn [be_acc]; [lia|].
  destruct (v <=? 0) eqn:E; [lia|]. apply Z.leb_gt in E.
  destruct n as [|n]; [cbn in Hv; lia|].
  rewrite Nat2Z.inj_succ, Z.pow_succ_r in Hv by lia.
  specialize (IH n (v / 256) (v mod 256 :: acc)). cbn [length] in IH.
  assert (0 <= v / 256 < 256 ^ Z.of_nat n).
  { split; [apply Z.div_pos; lia|apply Z.div_lt_upper_bound; lia]. }
  specialize (IH H). lia.
Qed.

Lemma bytes_of_Z_length : forall n v, 0 <= v < 256 ^ Z.of_nat n -> (length (bytes_of_Z v) <= n)%nat.
Proof.
  intros n v Hv. unfold bytes_of_Z. rewrite Z.abs_eq by lia.
  pose proof (be_acc_length (size_nat v) n v [] Hv) as H. cbn [length] in H. lia.
Qed.

Lemma bytes_of_Z_length32 : forall v, 0 <= v < 2 ^ 256 -> (length (bytes_of_Z v) <= 32)%nat.
Proof. intros v Hv. apply bytes_of_Z_length. rewrite <- two256_eq. exact Hv. Qed.

Lemma pad_left_length : forall n l, (length l <= n)%nat -> length (pad_left n l) = n.
Proof. intros n l H. unfold pad_left. rewrite app_length, repeat_length. lia. Qed.

Lemma pad_left_length_ge : forall n l, (n <= length (pad_left n l))%nat.
Proof. intros n l. unfold pad_left. rewrite app_length, repeat_length. lia. Qed.

Lemma be_value_zeros : forall k, be_value (repeat 0 k) = 0.
Proof.
  induction k as [|k IH]; [reflexivity|]. cbn [repeat]. rewrite be_value_cons, IH. ring.
Qed.

Lemma be_value_pad_left : forall n l, be_value (pad_left n l) = be_value l.
Proof. intros n l. unfold pad_left. rewrite be_value_app, be_value_zeros. ring. Qed.

Lemma pad_left_bytes : forall n l, Forall is_byte l -> Forall is_byte (pad_left n l).
Proof.
  intros n l H. unfold pad_left. apply Forall_app. split; [|exact H].
  apply Forall_forall. intros x Hx. apply repeat_spec in Hx. subst. unfold is_byte. lia.
Qed.

Lemma be_value_pad_bytes : forall n v, 0 <= v -> be_value (pad_left n (bytes_of_Z v)) = v.
Proof. intros n v Hv. rewrite be_value_pad_left, be_value_bytes_of_Z. lia. Qed.

(* fill_bytes / echo_m *)
Lemma fill_bytes_Ok : forall n v mb, fill_bytes n v = Ok mb ->
  length mb = n /\ be_value mb = Z.abs v /\ mb = pad_left n (bytes_of_Z v) /\
  (length (bytes_of_Z v) <= n)%nat.
Proof.
  intros n v mb E. unfold fill_bytes in E.
  destruct (Nat.ltb n (length (bytes_of_Z v))) eqn:El; [discriminate|].
  apply Nat.ltb_ge in El. injection E as <-.
  split; [now apply pad_left_length|]. split; [|split; [reflexivity|exact El]].
  rewrite be_value_pad_left. apply be_value_bytes_of_Z.
Qed.

Lemma fill_bytes_fits : forall n v, (length (bytes_of_Z v) <= n)%nat ->
  fill_bytes n v = Ok (pad_left n (bytes_of_Z v)).
Proof.
  intros n v H. unfold fill_bytes. apply Nat.ltb_ge in H. rewrite H. reflexivity.
Qed.

Lemma fill_bytes_panics : forall n v, (n < length (bytes_of_Z v))%nat -> fill_bytes n v = Panic.
Proof. intros n v H. unfold fill_bytes. apply Nat.ltb_lt in H. rewrite H. reflexivity. Qed.

Lemma echo_m_Ok : forall m fullLen mb, 0 <= m -> echo_m m fullLen = Ok mb ->
  be_value mb = m /\ Forall is_byte mb /\
  ((fullLen = 0 /\ mb = bytes_of_Z m) \/
   (fullLen <> 0 /\ length mb = Z.to_nat fullLen /\ mb = pad_left (Z.to_nat fullLen) (bytes_of_Z m))).
Proof.
  intros m fullLen mb Hm E. unfold echo_m in E. destruct (fullLen =? 0) eqn:E0.
  - apply Z.eqb_eq in E0. injection E as <-. split; [|split].
    + rewrite be_value_bytes_of_Z. lia.
    + apply bytes_of_Z_bytes.
    + left. auto.
  - apply Z.eqb_neq in E0. apply fill_bytes_Ok in E. destruct E as (E1 & E2 & E3 & E4).
    split; [lia|split].
    + rewrite E3. apply pad_left_bytes, bytes_of_Z_bytes.
    + right. auto.
Qed.

Lemma echo_m_never_errs : forall m fullLen, echo_m m fullLen <> Err /\ echo_m m fullLen <> Diverge.
Proof.
  intros m fullLen. unfold echo_m, fill_bytes.
  destruct (fullLen =? 0); [split; discriminate|].
  destruct (Nat.ltb _ _); split; discriminate.
Qed.

(* hash_to_int is the identity on byte strings of at most 32 bytes *)
Lemma hash_to_int_short : forall mb, (length mb <= 32)%nat -> hash_to_int mb = be_value mb.
Proof. intros mb H. unfold hash_to_int. now rewrite firstn_all2. Qed.

Lemma echo_m_hash : forall m fullLen mb, 0 <= m < 2 ^ 256 -> fullLen <= 32 ->
  echo_m m fullLen = Ok mb -> hash_to_int mb = m.
Proof.
  intros m fullLen mb Hm Hf E.
  destruct (echo_m_Ok m fullLen mb ltac:(lia) E) as (Hv & _ & [[_ ->]|(Hnz & Hl & _)]).
  - rewrite hash_to_int_short; [exact Hv|]. now apply bytes_of_Z_length32.
  - rewrite hash_to_int_short; [exact Hv|]. rewrite Hl. lia.
Qed.

(* ====================================================================== *)
(* B. ECDSA (C01)                                                           *)
(* ====================================================================== *)

Section ECDSAProofs.
  Variable c : curve.
  Hypothesis CL : curve_laws c.
  Local Notation q := (cq c).
  Local Notation B := (base c).
  Local Notation cmul := (@gmul (curve_group c)).
  Local Notation padd := (pt_add c).

  Let Hq : prime q := q_prime_c c CL.
  Let Hq1 : 1 < q := q_gt_1_c c CL.

  Lemma verify_guard : forall r s, 0 < r < q -> 0 < s < q ->
    negb ((0 <? r) && (r <? q) && (0 <? s) && (s <? q)) = false.
  Proof.
    intros r s Hr Hs.
    rewrite (proj2 (Z.ltb_lt 0 r)), (proj2 (Z.ltb_lt r q)), (proj2 (Z.ltb_lt 0 s)), (proj2 (Z.ltb_lt s q)) by lia.
    reflexivity.
  Qed.

  Lemma verify_true_guard : forall Y e r s, ecdsa_verify c Y e r s = true -> 0 < r < q /\ 0 < s < q.
  Proof.
    intros Y e r s H. unfold ecdsa_verify in H.
    destruct ((0 <? r) && (r <? q) && (0 <? s) && (s <? q)) eqn:G; cbn [negb] in H; [|discriminate].
    rewrite !andb_true_iff in G. rewrite !Z.ltb_lt in G. lia.
  Qed.

  (* verification against a key in the subgroup is a statement about one scalar *)
  Lemma ecdsa_verify_base : forall y e r s, 0 < r < q -> 0 < s < q ->
    ecdsa_verify c (cmul y B) e r s =
    match cmul ((e + r * y) * inv_prime q s) B with
    | Some (x, _) => x mod q =? r
    | None => false
    end.
  Proof.
    intros y e r s Hr Hs. unfold ecdsa_verify. rewrite verify_guard by assumption.
    rewrite <- (c_gmul_mul c CL) by apply (onc_base c CL).
    rewrite <- (c_gmul_add c CL) by apply (onc_base c CL).
    rewrite (c_gmul_eqm c CL _ ((e + r * y) * inv_prime q s)); [reflexivity|].
    change (eqm q ((e * inv_prime q s) mod q + (r * inv_prime q s) mod q * y)
                  ((e + r * y) * inv_prime q s)).
    rewrite !eqm_mod. apply eqm_of_eq. ring.
  Qed.

  Theorem ecdsa_verify_complete : forall x k e r s rx ry,
    k mod q <> 0 ->
    cmul (inv_prime q k) B = Some (rx, ry) ->
    r = rx mod q -> r <> 0 ->
    0 < s < q -> eqm q s (k * (e + r * x)) ->
    ecdsa_verify c (cmul x B) e r s = true.
  Proof.
    intros x k e r s rx ry Hk HR Hr Hr0 Hs Es.
    assert (Hr' : 0 < r < q).
    { pose proof (Z.mod_pos_bound rx q ltac:(lia)). lia. }
    rewrite ecdsa_verify_base by assumption.
    assert (Hs0 : s mod q <> 0) by (rewrite Z.mod_small; lia).
    rewrite (c_gmul_eqm c CL _ (inv_prime q k)).
    - rewrite HR. rewrite <- Hr. apply Z.eqb_refl.
    - change (eqm q ((e + r * x) * inv_prime q s) (inv_prime q k)).
      apply (eqm_inv_unique q k); [exact Hq|exact Hk| |now apply eqm_inv].
      transitivity ((k * (e + r * x)) * inv_prime q s); [apply eqm_of_eq; ring|].
      rewrite <- Es. now apply eqm_inv.
  Qed.

  Lemma inv_prime_neg : forall s, 0 < s < q -> eqm q (inv_prime q (q - s)) (- inv_prime q s).
  Proof.
    intros s Hs.
    assert (Hs0 : s mod q <> 0) by (rewrite Z.mod_small; lia).
    assert (Hqs0 : (q - s) mod q <> 0) by (rewrite Z.mod_small; lia).
    apply (eqm_inv_unique q (q - s)); [exact Hq|exact Hqs0|now apply eqm_inv|].
    transitivity (s * inv_prime q s + q * (- inv_prime q s)); [apply eqm_of_eq; ring|].
    rewrite (eqm_inv q s Hq Hs0).
    unfold eqm. rewrite Z.mul_comm, Z_mod_plus_full. reflexivity.
  Qed.

  (* (r, s) valid  ==>  (r, q - s) valid: negating s negates the point, which keeps x *)
  Theorem low_s_flip : forall Y e r s,
    ck c = Weier -> @in_sub (curve_group c) B Y ->
    ecdsa_verify c Y e r s = true -> 0 < s < q ->
    ecdsa_verify c Y e r (q - s) = true.
  Proof.
    intros Y e r s W [y ->] V Hs.
    destruct (verify_true_guard _ _ _ _ V) as [Hr _].
    rewrite ecdsa_verify_base in V by assumption.
    rewrite ecdsa_verify_base by lia.
    rewrite (c_gmul_eqm c CL _ (- ((e + r * y) * inv_prime q s))).
    - rewrite (c_gmul_neg c CL) by apply (onc_base c CL).
      destruct (cmul ((e + r * y) * inv_prime q s) B) as [[px py]|]; [|discriminate].
      unfold pt_neg. rewrite W. exact V.
    - change (eqm q ((e + r * y) * inv_prime q (q - s)) (- ((e + r * y) * inv_prime q s))).
      rewrite (inv_prime_neg s Hs). apply eqm_of_eq. ring.
  Qed.

  (* ---- finalize ---- *)

  Definition low_s (s : Z) : Z := if q / 2 <? s then q - s else s.

  Lemma low_s_range : forall s, 0 <= s < q -> 0 <= low_s s <= q / 2.
  Proof.
    intros s Hs. unfold low_s. destruct (q / 2 <? s) eqn:E.
    - apply Z.ltb_lt in E. pose proof (Z.div_mod q 2 ltac:(lia)).
      pose proof (Z.mod_pos_bound q 2 ltac:(lia)). lia.
    - apply Z.ltb_ge in E. lia.
  Qed.

  Lemma low_s_pos : forall s, 0 < s < q -> 0 < low_s s < q.
  Proof.
    intros s Hs. unfold low_s. destruct (q / 2 <? s) eqn:E; lia.
  Qed.

  Lemma finalize_unfold : forall rx ry sumS m fullLen Y sd,
    ecdsa_finalize c rx ry sumS m fullLen Y = Ok sd ->
    exists mb, echo_m m fullLen = Ok mb /\
      ecdsa_verify c Y (hash_to_int mb) rx (low_s sumS) = true /\
      sd = mkSig (pad_left 32 (bytes_of_Z rx)) (pad_left 32 (bytes_of_Z (low_s sumS)))
                 (pad_left 32 (bytes_of_Z rx) ++ pad_left 32 (bytes_of_Z (low_s sumS)))
                 (let rec0 := (if q <? rx then 2 else 0) + (if Z.odd ry then 1 else 0) in
                  if q / 2 <? sumS then Z.lxor rec0 1 else rec0)
                 mb.
  Proof.
    intros rx ry sumS m fullLen Y sd E. unfold ecdsa_finalize in E. unfold low_s.
    destruct (q / 2 <? sumS) eqn:Eh;
      (destruct (echo_m m fullLen) as [mb| | |] eqn:Em; cbn [obind] in E; try discriminate;
       exists mb; split; [reflexivity|];
       match type of E with (if ?b then _ else _) = _ => destruct b eqn:Ev end; [|discriminate];
       injection E as <-; split; [first [exact Ev|reflexivity]|reflexivity]).
  Qed.

  Theorem finalize_canonical : forall rx ry sumS m fullLen Y sd,
    ecdsa_finalize c rx ry sumS m fullLen Y = Ok sd ->
    0 <= rx < 2 ^ 256 -> 0 <= sumS < q -> q < 2 ^ 256 -> 0 <= m ->
    length (sR sd) = 32%nat /\ length (sS sd) = 32%nat /\ sSig sd = sR sd ++ sS sd /\
    be_value (sR sd) = rx /\ be_value (sS sd) = low_s sumS /\ be_value (sS sd) <= q / 2 /\
    0 <= sRec sd <= 3 /\
    be_value (sM sd) = m /\
    (fullLen = 0 -> sM sd = bytes_of_Z m) /\
    (fullLen <> 0 -> length (sM sd) = Z.to_nat fullLen) /\
    ecdsa_verify c Y (hash_to_int (sM sd)) (be_value (sR sd)) (be_value (sS sd)) = true.
  Proof.
    intros rx ry sumS m fullLen Y sd E Hrx HsS Hq256 Hm.
    destruct (finalize_unfold _ _ _ _ _ _ _ E) as (mb & Em & Ev & ->). cbn [sR sS sSig sRec sM].
    pose proof (low_s_range sumS HsS) as Hls.
    assert (Hls256 : 0 <= low_s sumS < 2 ^ 256).
    { pose proof (Z.div_mod q 2 ltac:(lia)). pose proof (Z.mod_pos_bound q 2 ltac:(lia)). lia. }
    rewrite !be_value_pad_bytes by lia.
    destruct (echo_m_Ok m fullLen mb Hm Em) as (Hmv & _ & Hshape).
    repeat split.
    - apply pad_left_length. now apply bytes_of_Z_length32.
    - apply pad_left_length. now apply bytes_of_Z_length32.
    - lia.
    - destruct (q <? rx), (Z.odd ry), (q / 2 <? sumS); cbn; lia.
    - destruct (q <? rx), (Z.odd ry), (q / 2 <? sumS); cbn; lia.
    - exact Hmv.
    - intros F0. destruct Hshape as [[_ H]|[H _]]; [exact H|contradiction].
    - intros F0. destruct Hshape as [[H _]|(_ & H & _)]; [contradiction|exact H].
    - exact Ev.
  Qed.

  (* released  ==>  valid *)
  Corollary release_implies_valid : forall rx ry sumS m fullLen Y sd,
    ecdsa_finalize c rx ry sumS m fullLen Y = Ok sd ->
    0 <= rx -> 0 <= sumS < q ->
    ecdsa_verify c Y (hash_to_int (sM sd)) (be_value (sR sd)) (be_value (sS sd)) = true.
  Proof.
    intros rx ry sumS m fullLen Y sd E Hrx HsS.
    destruct (finalize_unfold _ _ _ _ _ _ _ E) as (mb & Em & Ev & ->). cbn [sR sS sM].
    pose proof (low_s_range sumS HsS) as Hls.
    rewrite !be_value_pad_bytes by lia. exact Ev.
  Qed.

  Theorem finalize_outcomes : forall rx ry sumS m fullLen Y,
    ecdsa_finalize c rx ry sumS m fullLen Y <> Diverge.
  Proof.
    intros. unfold ecdsa_finalize.
    destruct (echo_m_never_errs m fullLen) as [_ Hd].
    destruct (q / 2 <? sumS); destruct (echo_m m fullLen); cbn [obind]; try congruence;
      match goal with |- (if ?b then _ else _) <> _ => destruct b end; discriminate.
  Qed.

  (* ---- the whole run ---- *)

  Theorem digest_guard : forall ks xs kis m fullLen Y,
    q <= m -> ecdsa_sign c ks xs kis m fullLen Y = Err.
  Proof.
    intros ks xs kis m fullLen Y H. unfold ecdsa_sign.
    rewrite (proj2 (Z.ltb_ge m q)) by exact H. reflexivity.
  Qed.

  Theorem ecdsa_sign_depends_on_sum : forall ks xs kis kis' m fullLen Y,
    eqm q (zsum kis) (zsum kis') ->
    ecdsa_sign c ks xs kis m fullLen Y = ecdsa_sign c ks xs kis' m fullLen Y.
  Proof.
    intros ks xs kis kis' m fullLen Y E. unfold ecdsa_sign. unfold eqm in E. rewrite E. reflexivity.
  Qed.

  (* likewise only the sum of the weighted shares matters *)
  Theorem ecdsa_sign_depends_on_secret : forall ks xs ks' xs' kis m fullLen Y,
    eqm q (zsum (sign_weights q ks xs)) (zsum (sign_weights q ks' xs')) ->
    ecdsa_sign c ks xs kis m fullLen Y = ecdsa_sign c ks' xs' kis m fullLen Y.
  Proof.
    intros ks xs ks' xs' kis m fullLen Y E. unfold ecdsa_sign. unfold eqm in E. rewrite E. reflexivity.
  Qed.

  Theorem ecdsa_sign_correct : forall ks coefs xs kis m fullLen rx ry mb,
    ck c = Weier -> q < 2 ^ 256 ->
    distinct_mod q ks -> (length coefs <= length ks)%nat -> on_poly q coefs ks xs ->
    let x := horner coefs 0 in
    let k := zsum kis mod q in
    let s := (k * ((m + rx * x) mod q)) mod q in
    k <> 0 ->
    cmul (inv_prime q k) B = Some (rx, ry) ->
    0 < rx < q -> s <> 0 ->
    0 <= m < q -> fullLen <= 32 -> echo_m m fullLen = Ok mb ->
    exists sd,
      ecdsa_sign c ks xs kis m fullLen (cmul x B) = Ok sd /\
      ecdsa_finalize c rx ry s m fullLen (cmul x B) = Ok sd /\
      sM sd = mb /\ hash_to_int mb = m /\
      be_value (sR sd) = rx /\ be_value (sS sd) = low_s s /\
      ecdsa_verify c (cmul x B) m rx (low_s s) = true.
  Proof.
    intros ks coefs xs kis m fullLen rx ry mb W Hq256 ND Hlen [HL HS] x k s Hk HR Hrx Hs Hm Hf Em.
    assert (Hkr : 0 <= k < q) by (apply Z.mod_pos_bound; lia).
    assert (Hsr : 0 <= s < q) by (apply Z.mod_pos_bound; lia).
    assert (Hx : eqm q (zsum (sign_weights q ks xs)) x) by (now apply weights_sum_secret).
    assert (Hh : hash_to_int mb = m) by (apply (echo_m_hash m fullLen); [lia|exact Hf|exact Em]).
    (* the unflipped signature verifies *)
    assert (V0 : ecdsa_verify c (cmul x B) m rx s = true).
    { apply (ecdsa_verify_complete x k m rx s rx ry).
      - rewrite Z.mod_small by exact Hkr. exact Hk.
      - exact HR.
      - symmetry. apply Z.mod_small. lia.
      - lia.
      - lia.
      - unfold s. rewrite !eqm_mod. reflexivity. }
    assert (V : ecdsa_verify c (cmul x B) m rx (low_s s) = true).
    { unfold low_s. destruct (q / 2 <? s); [|exact V0].
      apply low_s_flip; [exact W|apply c_in_sub_B|exact V0|lia]. }
    assert (EF : ecdsa_finalize c rx ry s m fullLen (cmul x B) =
                 Ok (mkSig (pad_left 32 (bytes_of_Z rx)) (pad_left 32 (bytes_of_Z (low_s s)))
                      (pad_left 32 (bytes_of_Z rx) ++ pad_left 32 (bytes_of_Z (low_s s)))
                      (let rec0 := (if q <? rx then 2 else 0) + (if Z.odd ry then 1 else 0) in
                       if q / 2 <? s then Z.lxor rec0 1 else rec0) mb)).
    { unfold ecdsa_finalize, low_s in *.
      destruct (q / 2 <? s); rewrite Em; cbn [obind]; rewrite Hh, V; reflexivity. }
    eexists. split; [|split; [exact EF|]].
    - unfold ecdsa_sign. rewrite (proj2 (Z.ltb_lt m q)) by lia. cbn [negb].
      fold k. rewrite (ec_base_mul_Ok_nz c CL).
      + cbn [obind]. rewrite HR.
        replace ((k * ((m + rx * (zsum (sign_weights q ks xs) mod q)) mod q)) mod q) with s; [exact EF|].
        unfold s. apply (f_equal (fun z => (k * z) mod q)).
        change (eqm q (m + rx * x) (m + rx * (zsum (sign_weights q ks xs) mod q))).
        rewrite eqm_mod, Hx. reflexivity.
      + pose proof (inv_prime_range q k Hq1). lia.
      + right. intros E0.
        pose proof (eqm_inv q k Hq ltac:(rewrite Z.mod_small by exact Hkr; exact Hk)) as E1.
        assert (E2 : eqm q (k * inv_prime q k) 0).
        { transitivity (k * (inv_prime q k mod q)); [now rewrite eqm_mod|]. rewrite E0. apply eqm_of_eq. ring. }
        rewrite E1 in E2. unfold eqm in E2. rewrite Z.mod_1_l, Zmod_0_l in E2 by lia. discriminate.
    - cbn [sM sR sS]. pose proof (low_s_range s Hsr).
      rewrite !be_value_pad_bytes by lia. auto.
  Qed.
End ECDSAProofs.

(* ---- ECDSA: failure modes and the nonce point ---- *)
Section ECDSAFailures.
  Variable c : curve.
  Hypothesis CL : curve_laws c.
  Local Notation q := (cq c).
  Local Notation B := (base c).
  Local Notation cmul := (@gmul (curve_group c)).

  (* the nonce point exists whenever k <> 0 mod q, and its coordinates are field elements *)
  Theorem nonce_point_exists : forall k, k mod q <> 0 ->
    exists rx ry, cmul (inv_prime q k) B = Some (rx, ry) /\ 0 <= rx < cp c /\ 0 <= ry < cp c.
  Proof.
    intros k Hk. pose proof (q_prime_c c CL) as Hq. pose proof (q_gt_1_c c CL) as Hq1.
    assert (Hi : inv_prime q k mod q <> 0).
    { intros E0. pose proof (eqm_inv q k Hq Hk) as E1.
      assert (E2 : eqm q (k * inv_prime q k) 0).
      { transitivity (k * (inv_prime q k mod q)); [now rewrite eqm_mod|]. rewrite E0. apply eqm_of_eq. ring. }
      rewrite E1 in E2. unfold eqm in E2. rewrite Z.mod_1_l, Zmod_0_l in E2 by lia. discriminate. }
    pose proof (proj2 (rep_gmul_B c CL (inv_prime q k)) (or_intror Hi)) as Hr.
    pose proof (onc_gmul c CL (inv_prime q k) B (onc_base c CL)) as Ho.
    destruct (cmul (inv_prime q k) B) as [[rx ry]|]; [|discriminate].
    exists rx, ry. split; [reflexivity|].
    unfold onc, pt_on_curve, on_curve, in_field in Ho.
    rewrite !andb_true_iff in Ho. rewrite !Z.leb_le, !Z.ltb_lt in Ho. lia.
  Qed.

  (* rx >= q (possible when p > q) is never released: finalize passes rx itself as r *)
  Theorem finalize_large_rx_not_released : forall rx ry sumS m fullLen Y sd,
    q <= rx -> ecdsa_finalize c rx ry sumS m fullLen Y <> Ok sd.
  Proof.
    intros rx ry sumS m fullLen Y sd Hrx E.
    destruct (finalize_unfold c _ _ _ _ _ _ _ E) as (mb & _ & Ev & _).
    apply (verify_true_guard c) in Ev. lia.
  Qed.

  (* hence the "overflow" bit of the recovery id is never set in a released signature *)
  Theorem finalize_recid_01 : forall rx ry sumS m fullLen Y sd,
    ecdsa_finalize c rx ry sumS m fullLen Y = Ok sd ->
    sRec sd = (if Bool.eqb (Z.odd ry) (q / 2 <? sumS) then 0 else 1).
  Proof.
    intros rx ry sumS m fullLen Y sd E.
    destruct (finalize_unfold c _ _ _ _ _ _ _ E) as (mb & _ & Ev & ->). cbn [sRec].
    apply (verify_true_guard c) in Ev.
    rewrite (proj2 (Z.ltb_ge q rx)) by lia.
    destruct (Z.odd ry), (q / 2 <? sumS); reflexivity.
  Qed.

  Theorem finalize_zero_s_not_released : forall rx ry m fullLen Y sd,
    ecdsa_finalize c rx ry 0 m fullLen Y <> Ok sd.
  Proof.
    intros rx ry m fullLen Y sd E. pose proof (q_gt_1_c c CL) as Hq1.
    destruct (finalize_unfold c _ _ _ _ _ _ _ E) as (mb & _ & Ev & _).
    apply (verify_true_guard c) in Ev. unfold low_s in Ev.
    destruct (q / 2 <? 0) eqn:E0; [|lia]. apply Z.ltb_lt in E0.
    pose proof (Z.div_pos q 2). lia.
  Qed.

  (* a zero nonce sum panics on a Weierstrass curve *)
  Theorem ecdsa_sign_zero_nonce_panics : forall ks xs kis m fullLen Y,
    ck c = Weier -> 2 < q -> m < q -> zsum kis mod q = 0 ->
    ecdsa_sign c ks xs kis m fullLen Y = Panic.
  Proof.
    intros ks xs kis m fullLen Y W Hq2 Hm Hk. unfold ecdsa_sign.
    rewrite (proj2 (Z.ltb_lt m q)) by lia. cbn [negb]. rewrite Hk.
    rewrite (ec_base_mul_panic_zero c CL); [reflexivity|exact W|].
    unfold inv_prime. rewrite powmod_spec by lia. rewrite Z.pow_0_l by lia.
    rewrite Z.mod_mod by lia. apply Zmod_0_l.
  Qed.
End ECDSAFailures.

(* ====================================================================== *)
(* C. EdDSA (C02)                                                           *)
(* ====================================================================== *)

Lemma le_value_app : forall l1 l2, le_value (l1 ++ l2) = le_value l1 + 256 ^ zlength l1 * le_value l2.
Proof.
  induction l1 as [|a l1 IH]; intros l2; cbn [app le_value].
  - unfold zlength. cbn [length Z.of_nat]. rewrite Z.pow_0_r. ring.
  - rewrite IH. unfold zlength. cbn [length]. rewrite Nat2Z.inj_succ, Z.pow_succ_r by lia. ring.
Qed.

Lemma le_value_rev : forall l, le_value (rev l) = be_value l.
Proof.
  induction l as [|a l IH]; [reflexivity|].
  cbn [rev]. rewrite le_value_app, IH, be_value_cons. cbn [le_value].
  unfold zlength. rewrite rev_length. ring.
Qed.

Lemma le_value_bound : forall l, Forall is_byte l -> 0 <= le_value l < 256 ^ zlength l.
Proof.
  intros l H. rewrite <- (rev_involutive l), le_value_rev.
  replace (zlength (rev (rev l))) with (zlength (rev l)) by (unfold zlength; now rewrite !rev_length).
  apply be_value_bound. apply Forall_rev. exact H.
Qed.

Lemma Forall_firstn {A} (P : A -> Prop) : forall n l, Forall P l -> Forall P (firstn n l).
Proof.
  induction n as [|n IH]; intros l H; cbn [firstn]; [constructor|].
  destruct H; constructor; auto.
Qed.

Lemma le32_length : forall v, length (le32 v) = 32%nat.
Proof.
  intros v. unfold le32. rewrite rev_length, firstn_length.
  pose proof (pad_left_length_ge 32 (bytes_of_Z v)). lia.
Qed.

Lemma le32_bytes : forall v, Forall is_byte (le32 v).
Proof.
  intros v. unfold le32. apply Forall_rev. apply Forall_firstn. apply pad_left_bytes, bytes_of_Z_bytes.
Qed.

Lemma le32_value : forall v, 0 <= v < 2 ^ 256 -> le_value (le32 v) = v.
Proof.
  intros v Hv. unfold le32. rewrite le_value_rev.
  rewrite firstn_all2 by (rewrite pad_left_length; [lia|now apply bytes_of_Z_length32]).
  apply be_value_pad_bytes. lia.
Qed.

Lemma le32_inj : forall v v', 0 <= v < 2 ^ 256 -> 0 <= v' < 2 ^ 256 -> le32 v = le32 v' -> v = v'.
Proof. intros v v' Hv Hv' E. rewrite <- (le32_value v Hv), <- (le32_value v' Hv'), E. reflexivity. Qed.

(* when v does not fit, the LOW bytes are dropped (copyBytes keeps the first 32 big-endian bytes) *)
Lemma le32_overflow_example : le_value (le32 (2 ^ 256 + 5)) = 1 * 256 ^ 31.
Proof. vm_compute. reflexivity. Qed.

Lemma lor_128 : forall h, 0 <= h < 128 -> Z.lor h 128 = h + 128.
Proof.
  intros h Hh.
  assert (F : forallb (fun h => Z.lor h 128 =? h + 128) (zrange 128) = true) by (vm_compute; reflexivity).
  rewrite forallb_forall in F. apply Z.eqb_eq. apply F. apply zrange_In. exact Hh.
Qed.

Lemma land_127 : forall h, 0 <= h < 128 -> Z.land h 127 = h.
Proof.
  intros h Hh.
  assert (F : forallb (fun h => Z.land h 127 =? h) (zrange 128) = true) by (vm_compute; reflexivity).
  rewrite forallb_forall in F. apply Z.eqb_eq. apply F. apply zrange_In. exact Hh.
Qed.

Lemma list32_split : forall (s : list Z), length s = 32%nat -> s = firstn 31 s ++ [nth 31 s 0].
Proof.
  intros s H. rewrite <- (firstn_skipn 31 s) at 1. f_equal.
  do 32 (destruct s as [|? s]; [discriminate|]).
  destruct s; [reflexivity|discriminate].
Qed.

Section EdDSAProofs.
  Variable H512 : list Z -> list Z.
  Variable c : curve.
  Local Notation L := (cq c).
  Local Notation B := (base c).
  Local Notation cmul := (@gmul (curve_group c)).
  Local Notation padd := (pt_add c).

  Lemma enc_point_length : forall P, length (enc_point c P) = 32%nat.
  Proof.
    intros [[x y]|]; unfold enc_point.
    - rewrite app_length, firstn_length, le32_length. reflexivity.
    - apply repeat_length.
  Qed.

  (* high byte of le32 y is < 128 when y < 2^255 *)
  Lemma le32_high : forall y, 0 <= y < 2 ^ 255 -> 0 <= nth 31 (le32 y) 0 < 128.
  Proof.
    intros y Hy.
    assert (Hy' : 0 <= y < 2 ^ 256) by (change (2 ^ 256) with (2 * 2 ^ 255); lia).
    pose proof (le32_value y Hy') as V. pose proof (le32_bytes y) as Bs.
    pose proof (list32_split (le32 y) (le32_length y)) as S.
    rewrite S in V, Bs. apply Forall_app in Bs. destruct Bs as [B1 B2].
    rewrite le_value_app in V. cbn [le_value] in V.
    pose proof (le_value_bound _ B1) as Hb.
    assert (zlength (firstn 31 (le32 y)) = 31).
    { unfold zlength. rewrite firstn_length, le32_length. reflexivity. }
    rewrite H in *. inversion B2 as [|? ? Hb2 _]; subst. unfold is_byte in Hb2.
    change (2 ^ 255) with (128 * 256 ^ 31) in Hy.
    assert (0 < 256 ^ 31) by (apply Z.pow_pos_nonneg; lia).
    split; [lia|]. nia.
  Qed.

  Theorem enc_point_inj : forall x y x' y',
    0 <= y < 2 ^ 255 -> 0 <= y' < 2 ^ 255 ->
    enc_point c (Some (x, y)) = enc_point c (Some (x', y')) ->
    y = y' /\ Z.odd (x mod cp c) = Z.odd (x' mod cp c).
  Proof.
    intros x y x' y' Hy Hy' E. unfold enc_point in E.
    apply app_eq_tail_len in E; [|reflexivity]. destruct E as [E1 E2].
    injection E2 as E2.
    pose proof (le32_high y Hy) as Hh. pose proof (le32_high y' Hy') as Hh'.
    assert (Hy2 : 0 <= y < 2 ^ 256) by (change (2 ^ 256) with (2 * 2 ^ 255); lia).
    assert (Hy2' : 0 <= y' < 2 ^ 256) by (change (2 ^ 256) with (2 * 2 ^ 255); lia).
    assert (Hhi : nth 31 (le32 y) 0 = nth 31 (le32 y') 0 /\ Z.odd (x mod cp c) = Z.odd (x' mod cp c)).
    { destruct (Z.odd (x mod cp c)), (Z.odd (x' mod cp c));
        rewrite ?lor_128, ?land_127 in E2 by assumption; split; try reflexivity; lia. }
    destruct Hhi as [Hhi Hpar]. split; [|exact Hpar].
    apply le32_inj; try assumption.
    rewrite (list32_split (le32 y) (le32_length y)), (list32_split (le32 y') (le32_length y')).
    rewrite E1, Hhi. reflexivity.
  Qed.

  (* decoding: y and the parity of x are recovered from the encoding *)
  Theorem enc_point_decode : forall x y, 0 <= y < 2 ^ 255 ->
    le_value (enc_point c (Some (x, y))) = y + (if Z.odd (x mod cp c) then 2 ^ 255 else 0).
  Proof.
    intros x y Hy. unfold enc_point.
    pose proof (le32_high y Hy) as Hh.
    assert (Hy2 : 0 <= y < 2 ^ 256) by (change (2 ^ 256) with (2 * 2 ^ 255); lia).
    pose proof (le32_value y Hy2) as V.
    rewrite (list32_split (le32 y) (le32_length y)) in V at 1.
    rewrite le_value_app in V |- *. cbn [le_value] in V |- *.
    assert (zlength (firstn 31 (le32 y)) = 31).
    { unfold zlength. rewrite firstn_length, le32_length. reflexivity. }
    rewrite H in *. change (2 ^ 255) with (128 * 256 ^ 31).
    destruct (Z.odd (x mod cp c)); rewrite ?lor_128, ?land_127 by assumption; lia.
  Qed.

  (* ---- the signing equation ---- *)
  Hypothesis CL : curve_laws c.

  Theorem eddsa_equation : forall r h x,
    cmul ((r + h * x) mod L) B = padd (cmul r B) (cmul h (cmul x B)).
  Proof. intros r h x. apply (c_schnorr_complete c CL). Qed.

  Theorem eddsa_sign_depends_on_sum : forall ks xs ris ris' m fullLen A,
    eqm L (zsum ris) (zsum ris') ->
    eddsa_sign H512 c ks xs ris m fullLen A = eddsa_sign H512 c ks xs ris' m fullLen A.
  Proof.
    intros ks xs ris ris' m fullLen A E. unfold eddsa_sign. unfold eqm in E. rewrite E. reflexivity.
  Qed.

  Theorem eddsa_sign_depends_on_secret : forall ks xs ks' xs' ris m fullLen A,
    eqm L (zsum (sign_weights L ks xs)) (zsum (sign_weights L ks' xs')) ->
    eddsa_sign H512 c ks xs ris m fullLen A = eddsa_sign H512 c ks' xs' ris m fullLen A.
  Proof.
    intros ks xs ks' xs' ris m fullLen A E. unfold eddsa_sign. unfold eqm in E. rewrite E. reflexivity.
  Qed.

  (* what a successful run returns *)
  Theorem eddsa_sign_Ok : forall ks xs ris m fullLen A sd,
    eddsa_sign H512 c ks xs ris m fullLen A = Ok sd ->
    let r := zsum ris mod L in
    let x := zsum (sign_weights L ks xs) mod L in
    exists Rp mb,
      Rp = cmul r B /\ representable Rp = true /\ echo_m m fullLen = Ok mb /\
      let h := le_value (H512 (enc_point c Rp ++ enc_point c A ++ mb)) mod L in
      let S := (r + h * x) mod L in
      sd = mkSig (bytes_of_Z (le_value (enc_point c Rp))) (bytes_of_Z S)
                 (enc_point c Rp ++ le_bytes 32 S) 0 mb /\
      0 <= S < L /\
      cmul S B = padd Rp (cmul h (cmul x B)).
  Proof.
    intros ks xs ris m fullLen A sd E r x. unfold eddsa_sign in E. fold r in E. fold x in E.
    pose proof (q_gt_1_c c CL) as Hq1.
    destruct (ec_base_mul c r) as [Rp| | |] eqn:ER; cbn [obind] in E; try discriminate.
    destruct (echo_m m fullLen) as [mb| | |] eqn:Em; cbn [obind] in E; try discriminate.
    injection E as <-.
    apply (ec_base_mul_nonneg c) in ER; [|apply Z.mod_pos_bound; lia].
    destruct ER as [ER Hrep].
    exists Rp, mb. split; [exact ER|split; [exact Hrep|split; [reflexivity|]]].
    cbv zeta. split; [reflexivity|split; [apply Z.mod_pos_bound; lia|]].
    rewrite ER. apply eddsa_equation.
  Qed.

  Theorem eddsa_sig_shape : forall ks xs ris m fullLen A sd,
    eddsa_sign H512 c ks xs ris m fullLen A = Ok sd ->
    length (sSig sd) = 64%nat /\ sRec sd = 0 /\
    firstn 32 (sSig sd) = enc_point c (cmul (zsum ris mod L) B) /\
    (L <= 2 ^ 256 -> be_value (sS sd) = le_value (skipn 32 (sSig sd))).
  Proof.
    intros ks xs ris m fullLen A sd E.
    destruct (eddsa_sign_Ok _ _ _ _ _ _ _ E) as (Rp & mb & ER & _ & _ & Esd & HS & _).
    cbv zeta in Esd, HS. rewrite Esd. cbn [sSig sRec sS]. split; [|split; [reflexivity|split]].
    - rewrite app_length, enc_point_length, le_bytes_length. reflexivity.
    - rewrite firstn_app, enc_point_length, Nat.sub_diag, firstn_O.
      rewrite app_nil_r, firstn_all2 by (rewrite enc_point_length; lia). now rewrite ER.
    - intros HL. rewrite skipn_app, enc_point_length, Nat.sub_diag, skipn_O.
      rewrite skipn_all2 by (rewrite enc_point_length; lia). cbn [app].
      rewrite be_value_bytes_of_Z, le_value_le_bytes.
      + lia.
      + rewrite <- two256_eq. lia.
  Qed.

  (* with a proper sharing of a and A = a*B, the released (R, S) satisfies S*B = R + h*A *)
  Theorem eddsa_sign_correct : forall ks coefs xs ris m fullLen sd,
    distinct_mod L ks -> (length coefs <= length ks)%nat -> on_poly L coefs ks xs ->
    let a := horner coefs 0 in
    let A := cmul a B in
    eddsa_sign H512 c ks xs ris m fullLen A = Ok sd ->
    exists Rp mb S,
      Rp = cmul (zsum ris mod L) B /\ echo_m m fullLen = Ok mb /\
      sSig sd = enc_point c Rp ++ le_bytes 32 S /\ 0 <= S < L /\
      let h := le_value (H512 (enc_point c Rp ++ enc_point c A ++ mb)) mod L in
      cmul S B = padd Rp (cmul h A).
  Proof.
    intros ks coefs xs ris m fullLen sd ND Hlen [HL HS] a A E.
    destruct (eddsa_sign_Ok _ _ _ _ _ _ _ E) as (Rp & mb & ER & _ & Em & Esd & HSr & Heq).
    cbv zeta in Esd, HSr, Heq.
    eexists Rp, mb, _. split; [exact ER|split; [exact Em|split; [rewrite Esd; reflexivity|split; [exact HSr|]]]].
    cbv zeta. rewrite Heq. do 2 f_equal. unfold A. apply (c_gmul_eqm c CL).
    change (eqm L (zsum (sign_weights L ks xs) mod L) a). rewrite eqm_mod.
    apply weights_sum_secret; auto. apply (q_prime_c c CL).
  Qed.
End EdDSAProofs.


(* ---------- a qualified subset of a sharing is a sharing (old committee subsets) ---------- *)

Definition select (idxs : list nat) (l : list Z) : list Z := map (fun i => nth i l 0) idxs.

Lemma select_length idxs l : length (select idxs l) = length idxs.
Proof. apply map_length. Qed.

Lemma select_nth idxs l i : (i < length idxs)%nat -> nth i (select idxs l) 0 = nth (nth i idxs 0%nat) l 0.
Proof.
  intros Hi. unfold select.
  rewrite (nth_indep _ 0 ((fun j => nth j l 0) 0%nat)) by (rewrite map_length; exact Hi).
  apply (map_nth (fun j => nth j l 0)).
Qed.

Lemma NoDup_map_select {A} (f : Z -> A) : forall ks idxs,
  NoDup (map f ks) -> NoDup idxs -> Forall (fun i => (i < length ks)%nat) idxs ->
  NoDup (map f (select idxs ks)).
Proof.
  intros ks idxs ND. induction idxs as [|i idxs IH]; intros NI HF; cbn [select map]; [constructor|].
  inversion NI as [|? ? Hni NI']; subst. inversion HF as [|? ? Hi HF']; subst.
  constructor; [|apply IH; assumption].
  intros Hin. fold (select idxs ks) in Hin. unfold select in Hin. rewrite map_map in Hin.
  apply in_map_iff in Hin. destruct Hin as [j [Ej Hj]].
  rewrite Forall_forall in HF'. pose proof (HF' j Hj) as Hjl.
  assert (j = i).
  { apply (proj1 (NoDup_nth (map f ks) (f 0)) ND); rewrite ?map_length; try assumption.
    rewrite !(map_nth f). exact Ej. }
  subst j. contradiction.
Qed.

Theorem shares_of_select : forall q t x ks xs idxs,
  shares_of q t x ks xs -> NoDup idxs -> Forall (fun i => (i < length ks)%nat) idxs ->
  (t < length idxs)%nat ->
  shares_of q t x (select idxs ks) (select idxs xs).
Proof.
  intros q t x ks xs idxs (ND & Ht & coefs & Hl & H0 & HL & HS) NI HF Hti.
  split; [|split; [rewrite select_length; exact Hti|]].
  - unfold distinct_mod. now apply NoDup_map_select.
  - exists coefs. split; [exact Hl|split; [exact H0|]]. split.
    + now rewrite !select_length.
    + intros i Hi. rewrite select_length in Hi. rewrite !select_nth by exact Hi.
      apply HS. rewrite Forall_forall in HF. apply HF. apply nth_In. exact Hi.
Qed.

(* ---------- public-key recovery from (r, s, recid) ---------- *)

Lemma sqrt_3mod4 : forall p y, prime p -> p mod 4 = 3 -> 0 <= y < p ->
  let y0 := powmod ((y * y) mod p) ((p + 1) / 4) p in
  y0 = y \/ (y <> 0 /\ y0 = p - y).
Proof.
  intros p y Hp H4 Hy y0.
  pose proof (prime_gt_1 p Hp) as Hp1.
  pose proof (Z.div_mod p 4 ltac:(lia)) as Hdm. rewrite H4 in Hdm.
  set (n := p / 4) in *.
  assert (Hn : 0 <= n) by (apply Z.div_pos; lia).
  assert (He : (p + 1) / 4 = n + 1).
  { replace (p + 1) with ((n + 1) * 4) by lia. apply Z.div_mul. lia. }
  assert (Hy0 : y0 = ((y * y) ^ (n + 1)) mod p).
  { unfold y0. rewrite He, powmod_mod by lia. apply powmod_spec; lia. }
  assert (Hr0 : 0 <= y0 < p) by (rewrite Hy0; apply Z.mod_pos_bound; lia).
  destruct (Z.eq_dec y 0) as [->|Hnz].
  - left. rewrite Hy0. cbn [Z.mul]. rewrite Z.pow_0_l by lia. apply Zmod_0_l.
  - assert (Hsq : eqm p (y0 * y0) (y * y)).
    { assert (E0 : eqm p y0 ((y * y) ^ (n + 1))) by (rewrite Hy0; apply eqm_mod).
      rewrite E0.
      transitivity (y ^ (p - 1) * (y * y)).
      - apply eqm_of_eq. replace (y * y) with (y ^ 2) by ring.
        rewrite <- !Z.pow_mul_r, <- !Z.pow_add_r by lia. f_equal. lia.
      - assert (F : eqm p (y ^ (p - 1)) 1).
        { unfold eqm. rewrite Zfermat_little; [|exact Hp|rewrite Z.mod_small; lia].
          symmetry. apply Z.mod_small. lia. }
        rewrite F. apply eqm_of_eq. ring. }
    assert (Hd : (p | (y0 - y) * (y0 + y))).
    { apply Z.mod_divide; [lia|]. apply (proj1 (eqm_0_iff p _)).
      transitivity (y0 * y0 - y * y); [apply eqm_of_eq; ring|].
      rewrite Hsq. apply eqm_of_eq. ring. }
    apply prime_mult in Hd; [|exact Hp]. destruct Hd as [[k Hk]|[k Hk]].
    + left. assert (k = 0) by nia. subst k. lia.
    + right. split; [exact Hnz|]. assert (k = 1) by nia. subst k. lia.
Qed.

Section RecoverProofs.
  Variable c : curve.
  Hypothesis CL : curve_laws c.
  Local Notation q := (cq c).
  Local Notation p := (cp c).
  Local Notation B := (base c).
  Local Notation cmul := (@gmul (curve_group c)).
  Local Notation padd := (pt_add c).

  (* R = j*B = (rx, ry) with rx < q (so that r = rx identifies x), recid = parity of ry,
     and j*s = e + r*x (mod q), i.e. s = k (e + r x) for j = k^-1 *)
  Theorem recover_correct : forall j x e s rx ry recid,
    ck c = Weier -> prime p -> p mod 4 = 3 ->
    cmul j B = Some (rx, ry) ->
    0 < rx < q ->
    (recid = 0 \/ recid = 1) -> Z.odd recid = Z.odd ry ->
    eqm q (j * s) (e + rx * x) ->
    recover c rx s recid e = cmul x B.
  Proof.
    intros j x e s rx ry recid W Hp H4 HR Hrx Hrec Hpar Hs.
    pose proof (q_prime_c c CL) as Hq. pose proof (q_gt_1_c c CL) as Hq1.
    pose proof (prime_gt_1 p Hp) as Hp1.
    pose proof (onc_gmul c CL j B (onc_base c CL)) as Ho. rewrite HR in Ho.
    unfold onc, pt_on_curve, on_curve, in_field, curve_eq in Ho. rewrite W in Ho.
    rewrite !andb_true_iff in Ho. destruct Ho as [[[Hx1 Hx2] [Hy1 Hy2]] Heq].
    apply Z.leb_le in Hx1, Hy1. apply Z.ltb_lt in Hx2, Hy2. apply Z.eqb_eq in Heq.
    unfold recover.
    assert (Hrid : (2 <=? recid) = false) by (apply Z.leb_gt; lia).
    rewrite Hrid. rewrite <- Heq.
    (* the reconstructed y is ry *)
    assert (Hy : (if Bool.eqb (Z.odd (powmod ((ry * ry) mod p) ((p + 1) / 4) p)) (Z.odd recid)
                  then powmod ((ry * ry) mod p) ((p + 1) / 4) p
                  else p - powmod ((ry * ry) mod p) ((p + 1) / 4) p) = ry).
    { assert (Hpo : Z.odd p = true).
      { rewrite (Z.div_mod p 4) by lia. rewrite H4. rewrite Z.add_comm, Z.odd_add_mul_even; [reflexivity|].
        exists 2. reflexivity. }
      destruct (sqrt_3mod4 p ry Hp H4 ltac:(lia)) as [E|[Hnz E]]; rewrite E.
      - rewrite Hpar, eqb_reflx. reflexivity.
      - rewrite Hpar, Z.odd_sub, Hpo. destruct (Z.odd ry); cbn; lia. }
    rewrite Hy, <- HR.
    (* algebra in the exponent *)
    rewrite <- (c_gmul_mul c CL) by apply (onc_base c CL).
    rewrite (c_gmul_mod_q c CL).
    rewrite <- (c_gmul_neg c CL) by apply (onc_base c CL).
    rewrite <- (c_gmul_add c CL) by apply (onc_base c CL).
    rewrite <- (c_gmul_mul c CL) by apply (onc_base c CL).
    apply (c_gmul_eqm c CL).
    change (eqm q (inv_prime q rx * (s * j + - e)) x).
    assert (Hr0 : rx mod q <> 0) by (rewrite Z.mod_small; lia).
    transitivity (inv_prime q rx * ((j * s) - e)); [apply eqm_of_eq; ring|].
    rewrite Hs.
    transitivity ((rx * inv_prime q rx) * x); [apply eqm_of_eq; ring|].
    rewrite (eqm_inv q rx Hq Hr0). apply eqm_of_eq. ring.
  Qed.

  (* the recovery id released by finalize recovers the group key *)
  Theorem finalize_recovers_key : forall k x m fullLen rx ry sd,
    ck c = Weier -> prime p -> p mod 4 = 3 ->
    k mod q <> 0 -> cmul (inv_prime q k) B = Some (rx, ry) -> ry <> 0 ->
    let s := (k * (m + rx * x)) mod q in
    ecdsa_finalize c rx ry s m fullLen (cmul x B) = Ok sd ->
    recover c rx (low_s c s) (sRec sd) m = cmul x B.
  Proof.
    intros k x m fullLen rx ry sd W Hp H4 Hk HR Hry s E.
    pose proof (q_prime_c c CL) as Hq. pose proof (q_gt_1_c c CL) as Hq1.
    pose proof (prime_gt_1 p Hp) as Hp1.
    rewrite (finalize_recid_01 c _ _ _ _ _ _ _ E).
    destruct (finalize_unfold c _ _ _ _ _ _ _ E) as (mb & _ & Ev & _).
    apply (verify_true_guard c) in Ev. destruct Ev as [Hrx Hls].
    assert (Hsr : 0 <= s < q) by (apply Z.mod_pos_bound; lia).
    assert (Ejs : eqm q (inv_prime q k * s) (m + rx * x)).
    { unfold s. rewrite eqm_mod.
      transitivity ((k * inv_prime q k) * (m + rx * x)); [apply eqm_of_eq; ring|].
      rewrite (eqm_inv q k Hq Hk). apply eqm_of_eq. ring. }
    pose proof (onc_gmul c CL (inv_prime q k) B (onc_base c CL)) as Ho. rewrite HR in Ho.
    unfold onc, pt_on_curve, on_curve, in_field in Ho.
    rewrite !andb_true_iff in Ho. destruct Ho as [[_ [Hy1 Hy2]] _].
    apply Z.leb_le in Hy1. apply Z.ltb_lt in Hy2.
    assert (Hpo : Z.odd p = true).
    { rewrite (Z.div_mod p 4) by lia. rewrite H4. rewrite Z.add_comm, Z.odd_add_mul_even; [reflexivity|].
      exists 2. reflexivity. }
    unfold low_s in *. destruct (q / 2 <? s) eqn:Eh.
    - (* flipped: use -R = (-k^-1) B = (rx, p - ry) *)
      apply (recover_correct (- inv_prime q k) x m (q - s) rx (p - ry)); auto.
      + rewrite (c_gmul_neg c CL) by apply (onc_base c CL). rewrite HR. unfold pt_neg. rewrite W.
        do 2 f_equal. rewrite <- (Z.mod_small (p - ry) p) by lia.
        apply (proj1 (eqm_sub_0 p _ _)). unfold eqm. replace (- ry - (p - ry)) with (-1 * p) by ring.
        rewrite Z.mod_mul by lia. reflexivity.
      + destruct (Z.odd ry); cbn; auto.
      + rewrite Z.odd_sub, Hpo. destruct (Z.odd ry); reflexivity.
      + rewrite <- Ejs. transitivity (inv_prime q k * s + q * (- inv_prime q k)); [apply eqm_of_eq; ring|].
        unfold eqm. rewrite (Z.mul_comm q), Z_mod_plus_full. reflexivity.
    - apply (recover_correct (inv_prime q k) x m s rx ry); auto.
      + destruct (Z.odd ry); cbn; auto.
      + destruct (Z.odd ry); reflexivity.
  Qed.
End RecoverProofs.

(* ====================================================================== *)
(* Examples: the hypotheses are satisfiable (toy curves, tiny numbers)      *)
(* ====================================================================== *)

Ltac nodup_tac := unfold distinct_mod; cbn [map]; repeat constructor; cbn [In]; intuition discriminate.
Ltac onpoly_tac :=
  split; [reflexivity|];
  let i := fresh "i" in let Hi := fresh "Hi" in
  intros i Hi; cbn [length] in Hi;
  repeat (destruct i as [|i]; [vm_compute; reflexivity|]); exfalso; lia.

Lemma prime_31 : prime 31.
Proof. exact (q_prime_c toyW43 toyW43_laws). Qed.
Lemma prime_7 : prime 7.
Proof. exact (q_prime_c toyE toyE_laws). Qed.

Local Notation W := toyW43.
Local Notation BW := (base toyW43).
Local Notation wmul := (@gmul (curve_group toyW43)).

(* f(X) = 5 + 7 X over Z_31 (t = 1), three signers (oversized set) *)
Example ex_distinct : distinct_mod 31 [1; 2; 3].
Proof. nodup_tac. Qed.
Example ex_on_poly : on_poly 31 [5; 7] [1; 2; 3] [12; 19; 26].
Proof. onpoly_tac. Qed.

Example ex_weights_sum_secret : eqm 31 (zsum (sign_weights 31 [1; 2; 3] [12; 19; 26])) 5.
Proof.
  change 5 with (horner [5; 7] 0).
  apply weights_sum_secret; [exact prime_31|exact ex_distinct|cbn; lia|apply ex_on_poly|apply ex_on_poly].
Qed.

(* key generation: three dealers, t = 1 *)
Definition ex_polys : list (list Z) := [[3; 4]; [5; 6]; [7; 8]].
Example ex_keygen_consistent :
  eqm 31 (zsum (sign_weights 31 [2; 3] (kg_shares W ex_polys [2; 3]))) (kg_secret W ex_polys)
  /\ kg_secret W ex_polys = 15
  /\ kg_pub W ex_polys = Ok (wmul 15 BW)
  /\ kg_bigx W ex_polys [1; 2; 3] = Ok (map (fun kj => wmul (kg_share W ex_polys kj) BW) [1; 2; 3]).
Proof.
  split; [|split; [|split]].
  - apply (keygen_consistent W 1); [exact prime_31|nodup_tac| |cbn; lia].
    unfold ex_polys. repeat constructor.
  - vm_compute. reflexivity.
  - apply (kg_pub_Ok W toyW43_laws). right. vm_compute. discriminate.
  - apply (kg_bigx_Ok W toyW43_laws). right. repeat constructor; vm_compute; discriminate.
Qed.

(* resharing 3 old members (t = 1) to 4 new members (t' = 2), then to 2 members (t'' = 1) *)
Example ex_shares_of : shares_of 31 1 5 [1; 2; 3] [12; 19; 26].
Proof.
  split; [exact ex_distinct|split; [cbn; lia|]].
  exists [5; 7]. split; [cbn; lia|split; [reflexivity|exact ex_on_poly]].
Qed.

Definition ex_steps : list rstep :=
  [mkRStep [[2; 1]; [9; 0]; [4; 30]] [4; 5; 6; 7] 2;
   mkRStep [[1]; [2]; [3]; [4]] [10; 11] 1].

Example ex_reshare_chain :
  chain_ok W 3 ex_steps /\
  eqm 31 (zsum (sign_weights 31 (fst (chain_run W [1; 2; 3] [12; 19; 26] ex_steps))
                                (snd (chain_run W [1; 2; 3] [12; 19; 26] ex_steps)))) 5.
Proof.
  assert (Hok : chain_ok W 3 ex_steps).
  { cbn [chain_ok ex_steps st_tails st_ks st_t length]. repeat split; try lia; try nodup_tac;
      repeat constructor; cbn; lia. }
  split; [exact Hok|].
  apply (reshare_chain_secret W ex_steps 1 5 [1; 2; 3] [12; 19; 26] prime_31 ex_shares_of Hok).
Qed.

Example ex_reshare_keeps_secret :
  eqm 31 (zsum (sign_weights 31 [4; 5; 6]
            (rs_shares W (reshare_polys W [1; 2; 3] [12; 19; 26] [[2; 1]; [9; 0]; [4; 30]]) [4; 5; 6])))
         5.
Proof.
  change 5 with (horner [5; 7] 0).
  apply (reshare_keeps_secret W [5; 7] [1; 2; 3] [12; 19; 26] _ 2);
    [exact prime_31|exact ex_distinct|cbn; lia|exact ex_on_poly|reflexivity| |nodup_tac|cbn; lia].
  repeat constructor; cbn; lia.
Qed.

(* the new shares are NOT reduced mod q *)
Example ex_rs_shares_unreduced :
  rs_shares W (reshare_polys W [1; 2; 3] [12; 19; 26] [[2; 1]; [9; 0]; [4; 30]]) [4] = [65].
Proof. vm_compute. reflexivity. Qed.

(* ECDSA on toyW43: x = 5, k = 3 + 4 = 7, k^-1 = 9, R = 9*B = (20, 40), m = 10 *)
Example ex_ecdsa_verify_complete :
  ecdsa_verify W (wmul 5 BW) 10 20 ((7 * (10 + 20 * 5)) mod 31) = true.
Proof.
  apply (ecdsa_verify_complete W toyW43_laws 5 7 10 20 _ 20 40);
    try (vm_compute; (reflexivity || discriminate || (split; reflexivity))).
Qed.

Example ex_low_s_flip : ecdsa_verify W (wmul 5 BW) 10 20 (31 - 26) = true.
Proof.
  apply (low_s_flip W toyW43_laws); [reflexivity|exists 5; reflexivity|vm_compute; reflexivity|vm_compute; split; reflexivity].
Qed.

Example ex_ecdsa_sign_correct :
  exists sd, ecdsa_sign W [1; 2; 3] [12; 19; 26] [3; 4] 10 0 (wmul 5 BW) = Ok sd /\
             be_value (sR sd) = 20 /\ be_value (sS sd) = 5 /\ sM sd = [10].
Proof.
  pose proof (ecdsa_sign_correct W toyW43_laws [1; 2; 3] [5; 7] [12; 19; 26] [3; 4] 10 0 20 40 [10]) as H.
  cbv zeta in H.
  assert (H0 : ck W = Weier) by reflexivity.
  assert (H1 : cq W < 2 ^ 256) by (vm_compute; reflexivity).
  assert (Hl : (length [5; 7] <= length [1; 2; 3])%nat) by (cbn; lia).
  assert (H2 : zsum [3; 4] mod cq W <> 0) by (vm_compute; discriminate).
  assert (H3 : wmul (inv_prime (cq W) (zsum [3; 4] mod cq W)) BW = Some (20, 40)) by (vm_compute; reflexivity).
  assert (H4 : 0 < 20 < cq W) by (vm_compute; split; reflexivity).
  assert (H5 : (zsum [3; 4] mod cq W * ((10 + 20 * horner [5; 7] 0) mod cq W)) mod cq W <> 0)
    by (vm_compute; discriminate).
  assert (H6 : 0 <= 10 < cq W) by (vm_compute; split; [discriminate|reflexivity]).
  assert (H7 : 0 <= 32) by lia.
  assert (H8 : echo_m 10 0 = Ok [10]) by (vm_compute; reflexivity).
  destruct (H H0 H1 ex_distinct Hl ex_on_poly H2 H3 H4 H5 H6 H7 H8) as (sd & E & _ & EM & _ & ER & ES & _).
  exists sd. split; [exact E|]. split; [exact ER|]. split; [|exact EM]. rewrite ES. vm_compute. reflexivity.
Qed.

Example ex_finalize_canonical :
  exists sd, ecdsa_finalize W 20 40 26 10 4 (wmul 5 BW) = Ok sd /\
    length (sR sd) = 32%nat /\ length (sS sd) = 32%nat /\ be_value (sS sd) = 5 /\ sM sd = [0; 0; 0; 10].
Proof. eexists. split; [vm_compute; reflexivity|]. vm_compute. auto. Qed.

Example ex_digest_guard : ecdsa_sign W [1; 2; 3] [12; 19; 26] [3; 4] 31 0 (wmul 5 BW) = Err.
Proof. apply digest_guard. vm_compute. discriminate. Qed.

(* k = 4: R = 8*B = (32, 40) has rx >= q = 31; the run ends in Err *)
Example ex_large_rx : ecdsa_sign W [1; 2; 3] [12; 19; 26] [4] 10 0 (wmul 5 BW) = Err.
Proof. vm_compute. reflexivity. Qed.

(* fullLen > 32: the released-or-not decision uses the FIRST 32 bytes of the echoed message *)
Example ex_fullLen_33 : ecdsa_sign W [1; 2; 3] [12; 19; 26] [3; 4] 10 33 (wmul 5 BW) = Err.
Proof. vm_compute. reflexivity. Qed.

(* EdDSA-style equation on toyE (L = 7) *)
Local Notation E7 := toyE.
Local Notation emul := (@gmul (curve_group toyE)).
Definition toyH (l : list Z) : list Z := [zsum l mod 256; 3].

Example ex_eddsa_equation :
  emul ((5 + 4 * 3) mod 7) (base E7) = pt_add E7 (emul 5 (base E7)) (emul 4 (emul 3 (base E7))).
Proof. apply (eddsa_equation E7 toyE_laws). Qed.

(* f(X) = 3 + 2 X over Z_7: shares at 1,2,3 are 5, 0 (=7), 2 *)
Example ex_eddsa_on_poly : on_poly 7 [3; 2] [1; 2; 3] [5; 7; 2].
Proof. onpoly_tac. Qed.

Example ex_eddsa_sign :
  exists sd, eddsa_sign toyH E7 [1; 2; 3] [5; 7; 2] [2; 3] 10 0 (emul 3 (base E7)) = Ok sd /\
             length (sSig sd) = 64%nat.
Proof.
  eexists. split; [vm_compute; reflexivity|]. reflexivity.
Qed.

Example ex_eddsa_sign_correct :
  forall sd, eddsa_sign toyH E7 [1; 2; 3] [5; 7; 2] [2; 3] 10 0 (emul (horner [3; 2] 0) (base E7)) = Ok sd ->
  length (sSig sd) = 64%nat.
Proof. intros sd E. apply (eddsa_sig_shape toyH E7 toyE_laws _ _ _ _ _ _ _ E). Qed.

Example ex_eddsa_sign_correct_hyps :
  distinct_mod 7 [1; 2; 3] /\ (length [3; 2] <= length [1; 2; 3])%nat /\
  on_poly 7 [3; 2] [1; 2; 3] [5; 7; 2] /\
  is_ok (eddsa_sign toyH E7 [1; 2; 3] [5; 7; 2] [2; 3] 10 0 (emul (horner [3; 2] 0) (base E7))) = true.
Proof.
  split; [nodup_tac|split; [cbn; lia|split; [exact ex_eddsa_on_poly|vm_compute; reflexivity]]].
Qed.

Example ex_enc_point : enc_point E7 (Some (9, 19)) = 19 :: repeat 0 30 ++ [128].
Proof. vm_compute. reflexivity. Qed.

Example ex_le32 : le32 258 = 2 :: 1 :: repeat 0 30.
Proof. vm_compute. reflexivity. Qed.


(* a qualified subset of the old committee *)
Example ex_shares_of_select : shares_of 31 1 5 (select [2%nat; 0%nat] [1; 2; 3]) (select [2%nat; 0%nat] [12; 19; 26]).
Proof.
  apply shares_of_select; [exact ex_shares_of| | |cbn; lia].
  - repeat constructor; cbn [In]; intuition discriminate.
  - repeat constructor; cbn; lia.
Qed.

(* recovery on toyW43 (p = 43 = 3 mod 4): the signature (20, 5) with recid 1 for m = 10 *)
Lemma prime_43 : prime 43.
Proof. apply PaillierProofs.prime_check_sound. vm_compute. reflexivity. Qed.

Example ex_recover : recover W 20 5 1 10 = wmul 5 BW.
Proof.
  set (sd := mkSig (pad_left 32 [20]) (pad_left 32 [5]) (pad_left 32 [20] ++ pad_left 32 [5]) 1 [10]).
  assert (E : ecdsa_finalize W 20 40 ((7 * (10 + 20 * 5)) mod cq W) 10 0 (wmul 5 BW) = Ok sd)
    by (vm_compute; reflexivity).
  pose proof (finalize_recovers_key W toyW43_laws 7 5 10 0 20 40 sd eq_refl prime_43 eq_refl) as H.
  cbv zeta in H. apply H in E; [exact E|vm_compute; discriminate|vm_compute; reflexivity|discriminate].
Qed.

(* The low-S threshold belongs to the curve of the run: the halves of two group orders differ, so a threshold taken
   from secp256k1 leaves values un-negated that are in the upper half of the order of P-256. *)
Lemma foreign_low_s_threshold_refuted :
  exists s, 0 < s < cq p256 /\ (cq secp256k1 / 2 <? s) = false /\ cq p256 / 2 < s.
Proof. exists (cq p256 / 2 + 1). vm_compute. repeat split; reflexivity. Qed.

Print Assumptions weights_sum_secret.
Print Assumptions keygen_consistent.
Print Assumptions kg_secret_no_dealer_dropped.
Print Assumptions kg_pub_spec.
Print Assumptions kg_bigx_spec.
Print Assumptions kg_bigx_Ok.
Print Assumptions kg_bigx_weights_pub.
Print Assumptions reshare_step.
Print Assumptions reshare_keeps_secret.
Print Assumptions reshare_chain.
Print Assumptions reshare_chain_secret.
Print Assumptions ecdsa_verify_complete.
Print Assumptions low_s_flip.
Print Assumptions finalize_canonical.
Print Assumptions release_implies_valid.
Print Assumptions digest_guard.
Print Assumptions ecdsa_sign_correct.
Print Assumptions ecdsa_sign_depends_on_sum.
Print Assumptions finalize_large_rx_not_released.
Print Assumptions finalize_recid_01.
Print Assumptions ecdsa_sign_zero_nonce_panics.
Print Assumptions eddsa_equation.
Print Assumptions eddsa_sign_Ok.
Print Assumptions eddsa_sign_correct.
Print Assumptions eddsa_sig_shape.
Print Assumptions eddsa_sign_depends_on_sum.
Print Assumptions le32_length.
Print Assumptions le32_value.
Print Assumptions enc_point_length.
Print Assumptions enc_point_inj.
Print Assumptions enc_point_decode.
Print Assumptions ex_ecdsa_sign_correct.
Print Assumptions ex_reshare_chain.
Print Assumptions shares_of_select.
Print Assumptions recover_correct.
Print Assumptions finalize_recovers_key.
Print Assumptions ex_recover.
Print Assumptions foreign_low_s_threshold_refuted.
