(* Property C17: only valid curve points are accepted; encodings round-trip;
   cofactor clearing.  Lemmas about Model/Curve.v. *)
From Coq Require Import ZArith List Lia Bool Znumtheory.
From TSS Require Import Base.Outcome Base.Bytes Base.ZMod Model.Group Model.Curve.
From TSS Require Import Proofs.ZModProofs Proofs.GroupProofs Proofs.PaillierProofs.
Import ListNotations.
Open Scope Z_scope.

(* ====================================================================== *)
(* 1. NewECPoint accepts exactly the canonical on-curve coordinate pairs   *)
(* ====================================================================== *)

Lemma in_field_spec c x : in_field c x = true <-> 0 <= x < cp c.
Proof.
  unfold in_field. rewrite andb_true_iff, Z.leb_le, Z.ltb_lt. tauto.
Qed.

Lemma on_curve_spec c x y :
  on_curve c x y = true <->
  (0 <= x < cp c) /\ (0 <= y < cp c) /\ curve_eq c x y = true.
Proof.
  unfold on_curve. rewrite !andb_true_iff, !in_field_spec. tauto.
Qed.

Theorem new_ec_point_sound c x y P :
  new_ec_point c x y = Some P ->
  P = Some (x, y) /\ on_curve c x y = true /\ 0 <= x < cp c /\ 0 <= y < cp c.
Proof.
  unfold new_ec_point. intros H.
  destruct (on_curve c x y) eqn:E; [|discriminate].
  injection H as <-. apply on_curve_spec in E. destruct E as (Hx & Hy & He).
  repeat split; try tauto; try lia.
Qed.

Theorem new_ec_point_complete c x y :
  on_curve c x y = true -> new_ec_point c x y = Some (Some (x, y)).
Proof. unfold new_ec_point. intros ->. reflexivity. Qed.

(* the curve equation itself, as a congruence, for each kind of curve *)
Lemma on_curve_weier_eq c x y :
  ck c = Weier -> on_curve c x y = true ->
  (y * y) mod cp c = (x * x * x + ca c * x + cb c) mod cp c.
Proof.
  intros Hk H. apply on_curve_spec in H. destruct H as (_ & _ & H).
  unfold curve_eq in H. rewrite Hk in H. apply Z.eqb_eq in H. exact H.
Qed.

Lemma on_curve_edw_eq c x y :
  ck c = Edw -> on_curve c x y = true ->
  (y * y - x * x) mod cp c = (1 + cb c * (x * x) * (y * y)) mod cp c.
Proof.
  intros Hk H. apply on_curve_spec in H. destruct H as ((Hx0 & Hx1) & _ & H).
  unfold curve_eq in H. rewrite Hk in H. apply Z.eqb_eq in H. rewrite H.
  assert (Hp : cp c <> 0) by lia.
  rewrite <- (Z.add_mod_idemp_r 1 (cb c * (x * x mod cp c) * (y * y mod cp c))) by exact Hp.
  rewrite <- (Z.add_mod_idemp_r 1 (cb c * (x * x) * (y * y))) by exact Hp.
  f_equal. f_equal.
  rewrite <- !Z.mul_assoc.
  rewrite <- (Z.mul_mod_idemp_r (cb c) ((x * x mod cp c) * (y * y mod cp c))) by exact Hp.
  rewrite <- (Z.mul_mod (x * x) (y * y)) by exact Hp.
  rewrite Z.mul_mod_idemp_r by exact Hp. f_equal. ring.
Qed.

(* a point accepted by NewECPoint is never the point at infinity and is on the curve *)
Corollary new_ec_point_on_curve c x y P :
  new_ec_point c x y = Some P -> pt_on_curve c P = true /\ representable P = true.
Proof.
  intros H. apply new_ec_point_sound in H. destruct H as (-> & H & _).
  split; [exact H|reflexivity].
Qed.

(* ====================================================================== *)
(* 2. Flatten / UnFlatten                                                  *)
(* ====================================================================== *)

Lemma unflatten_loop_sound c : forall l ps,
  unflatten_loop c l = Ok ps ->
  Forall (fun P => pt_on_curve c P = true /\ representable P = true) ps /\ flatten ps = l.
Proof.
  fix IH 1. intros l ps H. destruct l as [|x [|y t]].
  - cbn [unflatten_loop] in H. injection H as <-. split; [constructor|reflexivity].
  - cbn [unflatten_loop] in H. discriminate.
  - cbn [unflatten_loop] in H.
    destruct (new_ec_point c x y) as [P|] eqn:EP; [|discriminate].
    destruct (unflatten_loop c t) as [r| | |] eqn:Er; cbn [obind] in H; try discriminate.
    injection H as <-.
    destruct (IH t r Er) as [HF Hfl].
    pose proof (new_ec_point_on_curve _ _ _ _ EP) as HP.
    apply new_ec_point_sound in EP. destruct EP as (-> & _).
    split; [constructor; assumption|]. cbn [flatten]. rewrite Hfl. reflexivity.
Qed.

Theorem unflatten_sound c l ps :
  unflatten c l = Ok ps ->
  Forall (fun P => pt_on_curve c P = true /\ representable P = true) ps /\ flatten ps = l.
Proof.
  unfold unflatten. destruct (Nat.even (length l)); [|discriminate].
  apply unflatten_loop_sound.
Qed.

Lemma flatten_length_even ps :
  Forall (fun P : pt => exists x y, P = Some (x, y)) ps ->
  length (flatten ps) = (2 * length ps)%nat.
Proof.
  induction 1 as [|P t (x & y & ->) _ IH]; [reflexivity|].
  cbn [flatten length]. rewrite IH. lia.
Qed.

Lemma unflatten_loop_flatten c ps :
  Forall (fun P => exists x y, P = Some (x, y) /\ on_curve c x y = true) ps ->
  unflatten_loop c (flatten ps) = Ok ps.
Proof.
  induction 1 as [|P t (x & y & -> & Hon) _ IH]; [reflexivity|].
  cbn [flatten unflatten_loop]. rewrite (new_ec_point_complete _ _ _ Hon), IH. reflexivity.
Qed.

Theorem unflatten_flatten c ps :
  Forall (fun P => exists x y, P = Some (x, y) /\ on_curve c x y = true) ps ->
  unflatten c (flatten ps) = Ok ps.
Proof.
  intros H.
  assert (E : Nat.even (length (flatten ps)) = true).
  { rewrite flatten_length_even.
    - apply Nat.even_spec. eexists. reflexivity.
    - eapply Forall_impl; [|exact H]. intros P (x & y & -> & _). eauto. }
  unfold unflatten. rewrite E. apply unflatten_loop_flatten. exact H.
Qed.

(* the number of points returned is half the number of coordinates *)
Corollary unflatten_length c l ps :
  unflatten c l = Ok ps -> length l = (2 * length ps)%nat.
Proof.
  intros H. apply unflatten_sound in H. destruct H as [HF <-].
  apply flatten_length_even. eapply Forall_impl; [|exact HF].
  intros [[x y]|] [_ Hr]; [eauto|discriminate].
Qed.

Theorem unflatten_odd c l : Nat.odd (length l) = true -> unflatten c l = Err.
Proof.
  intros H. unfold unflatten. rewrite <- Nat.negb_odd, H. reflexivity.
Qed.

Lemma unflatten_loop_total c : forall l,
  unflatten_loop c l <> Panic /\ unflatten_loop c l <> Diverge.
Proof.
  fix IH 1. intros l. destruct l as [|x [|y t]]; cbn [unflatten_loop].
  - split; discriminate.
  - split; discriminate.
  - destruct (new_ec_point c x y); [|split; discriminate].
    destruct (IH t) as [H1 H2].
    destruct (unflatten_loop c t); cbn [obind]; split; try discriminate; contradiction.
Qed.

Theorem unflatten_total c l : unflatten c l <> Panic /\ unflatten c l <> Diverge.
Proof.
  unfold unflatten. destruct (Nat.even (length l)); [apply unflatten_loop_total|split; discriminate].
Qed.

(* a single bad pair anywhere makes the whole input rejected *)
Theorem unflatten_rejects_bad c l1 x y l2 :
  Nat.even (length l1) = true -> on_curve c x y = false ->
  forall ps, unflatten c (l1 ++ x :: y :: l2) <> Ok ps.
Proof.
  intros Hev Hbad ps H. apply unflatten_sound in H. destruct H as [HF Hfl].
  revert l1 Hev Hfl. induction HF as [|P t [HP Hr] HF IH]; intros l1 Hev Hfl.
  - destruct l1; discriminate.
  - destruct P as [[px py]|]; [|discriminate]. cbn [flatten] in Hfl.
    destruct l1 as [|a [|b l1]].
    + cbn [app] in Hfl. injection Hfl as -> -> _. cbn [pt_on_curve] in HP. congruence.
    + discriminate.
    + cbn [app] in Hfl. injection Hfl as _ _ Hfl. apply (IH l1); [exact Hev|exact Hfl].
Qed.

(* ====================================================================== *)
(* 3. Cofactor clearing                                                    *)
(* ====================================================================== *)

(* 3a. Abstract statement, RELATIVISED to a subset [ok] of the carrier that is
   closed under addition and on which the commutative-monoid laws hold.  Only
   non-negative scalars occur (the ECPoint wrapper multiplies by |k|), so no
   law about inverses is needed.  With [ok := fun _ => True] this is the
   statement for an abstract abelian group (Section CofactorAbelian below);
   with [ok := on the curve] it applies to the concrete curve groups, whose
   laws fail on off-curve garbage (see part 4). *)
Section CofactorRel.
  Variable G : group.
  Local Notation T := (gT G).
  Local Infix "+g" := (gadd G) (at level 50, left associativity).
  Local Notation O := (gzero G).
  Variable ok : T -> Prop.
  Hypothesis ok_add : forall a b, ok a -> ok b -> ok (a +g b).
  Hypothesis ok_zero : ok O.
  Hypothesis assoc : forall a b c, ok a -> ok b -> ok c -> a +g (b +g c) = (a +g b) +g c.
  Hypothesis comm : forall a b, ok a -> ok b -> a +g b = b +g a.
  Hypothesis zero_l : forall a, ok a -> O +g a = a.

  Lemma rel_zero_r a : ok a -> a +g O = a.
  Proof. intros Ha. rewrite comm by assumption. apply zero_l. exact Ha. Qed.

  Lemma rel_swap4 a b c d : ok a -> ok b -> ok c -> ok d ->
    (a +g b) +g (c +g d) = (a +g c) +g (b +g d).
  Proof.
    intros Ha Hb Hc Hd.
    rewrite <- (assoc a b (c +g d)) by auto.
    rewrite (assoc b c d) by auto.
    rewrite (comm b c) by auto.
    rewrite <- (assoc c b d) by auto.
    rewrite (assoc a c (b +g d)) by auto.
    reflexivity.
  Qed.

  Lemma ok_gmul_pos p P : ok P -> ok (gmul_pos p P).
  Proof. intros HP. induction p as [p IH|p IH|]; cbn [gmul_pos]; auto. Qed.

  Lemma ok_gmul_nn k P : 0 <= k -> ok P -> ok (gmul k P).
  Proof.
    intros Hk HP. destruct k as [|p|p]; cbn [gmul]; [exact ok_zero|apply ok_gmul_pos; exact HP|lia].
  Qed.

  Lemma rel_gmul_pos_succ p P : ok P ->
    gmul_pos (Pos.succ p) P = gmul_pos p P +g P.
  Proof.
    intros HP. induction p as [p IH|p IH|]; cbn [gmul_pos Pos.succ].
    - rewrite IH. pose proof (ok_gmul_pos p P HP) as HR.
      rewrite rel_swap4 by auto. rewrite (assoc (gmul_pos p P +g gmul_pos p P) P P) by auto.
      reflexivity.
    - reflexivity.
    - reflexivity.
  Qed.

  Lemma rel_gmul_pos_add p p' P : ok P ->
    gmul_pos (p + p') P = gmul_pos p P +g gmul_pos p' P.
  Proof.
    intros HP. induction p' as [|p' IH] using Pos.peano_ind.
    - rewrite Pos.add_1_r. apply rel_gmul_pos_succ. exact HP.
    - rewrite Pos.add_succ_r, !rel_gmul_pos_succ, IH by exact HP.
      rewrite assoc by auto using ok_gmul_pos. reflexivity.
  Qed.

  Lemma rel_gmul_pos_zero_r p : gmul_pos p O = O.
  Proof.
    induction p as [|p IH] using Pos.peano_ind.
    - reflexivity.
    - rewrite rel_gmul_pos_succ, IH by exact ok_zero. apply zero_l. exact ok_zero.
  Qed.

  Lemma rel_gmul_pos_add_r p P Q : ok P -> ok Q ->
    gmul_pos p (P +g Q) = gmul_pos p P +g gmul_pos p Q.
  Proof.
    intros HP HQ. induction p as [|p IH] using Pos.peano_ind.
    - reflexivity.
    - rewrite !rel_gmul_pos_succ, IH by auto.
      apply rel_swap4; auto using ok_gmul_pos.
  Qed.

  Lemma rel_gmul_pos_mul p p' P : ok P ->
    gmul_pos (p * p') P = gmul_pos p (gmul_pos p' P).
  Proof.
    intros HP. induction p as [|p IH] using Pos.peano_ind.
    - rewrite Pos.mul_1_l. reflexivity.
    - rewrite Pos.mul_succ_l, Pos.add_comm, rel_gmul_pos_add, IH by exact HP.
      rewrite rel_gmul_pos_succ by (apply ok_gmul_pos; exact HP). reflexivity.
  Qed.

  (* Z-level statements for non-negative scalars *)
  Lemma rel_gmul_add a b P : 0 <= a -> 0 <= b -> ok P ->
    gmul (a + b) P = gmul a P +g gmul b P.
  Proof.
    intros Ha Hb HP. destruct a as [|a|a]; [| |lia]; destruct b as [|b|b]; try lia.
    - cbn [Z.add gmul]. symmetry. apply zero_l. exact ok_zero.
    - cbn [Z.add gmul]. symmetry. apply zero_l. apply ok_gmul_pos. exact HP.
    - cbn [Z.add gmul]. symmetry. apply rel_zero_r. apply ok_gmul_pos. exact HP.
    - cbn [Z.add gmul]. apply rel_gmul_pos_add. exact HP.
  Qed.

  Lemma rel_gmul_mul a b P : 0 <= a -> 0 <= b -> ok P ->
    gmul (a * b) P = gmul a (gmul b P).
  Proof.
    intros Ha Hb HP. destruct a as [|a|a]; [| |lia]; destruct b as [|b|b]; try lia.
    - reflexivity.
    - reflexivity.
    - cbn [Z.mul gmul]. symmetry. apply rel_gmul_pos_zero_r.
    - cbn [Z.mul gmul]. apply rel_gmul_pos_mul. exact HP.
  Qed.

  Lemma rel_gmul_zero_r k : 0 <= k -> gmul k O = O.
  Proof.
    intros Hk. destruct k as [|p|p]; [reflexivity| |lia]. cbn [gmul]. apply rel_gmul_pos_zero_r.
  Qed.

  Lemma rel_gmul_add_r k P Q : 0 <= k -> ok P -> ok Q ->
    gmul k (P +g Q) = gmul k P +g gmul k Q.
  Proof.
    intros Hk HP HQ. destruct k as [|p|p]; [| |lia]; cbn [gmul].
    - symmetry. apply zero_l. exact ok_zero.
    - apply rel_gmul_pos_add_r; assumption.
  Qed.

  (* scalars that agree modulo the order L of P act identically (non-negative case) *)
  Lemma rel_gmul_order L k r P : 0 <= L -> 0 <= k -> 0 <= r -> ok P ->
    gmul L P = O -> gmul (r + k * L) P = gmul r P.
  Proof.
    intros HL Hk Hr HP HO.
    rewrite rel_gmul_add by (auto; nia).
    rewrite rel_gmul_mul, HO, rel_gmul_zero_r by auto.
    apply rel_zero_r. apply ok_gmul_nn; assumption.
  Qed.

  Variable L e8 : Z.
  Hypothesis L_gt_1 : 1 < L.
  Hypothesis e8_nonneg : 0 <= e8.
  Hypothesis e8_inv : (8 * e8) mod L = 1.

  Theorem eight_inv_eight_fixes_prime_order_rel P0 :
    ok P0 -> gmul L P0 = O -> gmul e8 (gmul 8 P0) = P0.
  Proof.
    intros HP HL.
    rewrite <- rel_gmul_mul by (auto; lia).
    pose proof (Z.div_mod (8 * e8) L ltac:(lia)) as Hdm. rewrite e8_inv in Hdm.
    assert (Hk : 0 <= (8 * e8) / L) by (apply Z.div_pos; lia).
    replace (e8 * 8) with (1 + ((8 * e8) / L) * L) by lia.
    rewrite rel_gmul_order by (auto; lia). reflexivity.
  Qed.

  Theorem eight_inv_eight_clears_rel P0 Tt :
    ok P0 -> ok Tt -> gmul L P0 = O -> gmul 8 Tt = O ->
    gmul e8 (gmul 8 (P0 +g Tt)) = P0.
  Proof.
    intros HP HT HL H8.
    rewrite rel_gmul_add_r, H8, rel_zero_r by (auto; try lia; apply ok_gmul_nn; auto; lia).
    apply eight_inv_eight_fixes_prime_order_rel; assumption.
  Qed.
  (* the same for a whole dealing: commitments V_c of prime order, each with ANY small-order component T_c added by the dealer
     (opened consistently), are after the clearing map exactly the V_c: whatever is checked or stored afterwards - the
     Schnorr statement, the share check, the public shares, the group key - is what it is in the run without the components *)
  Definition clear_pt (P : gT G) : gT G := gmul e8 (gmul 8 P).
  Theorem torsion_dealing_cleared : forall Vs Ts,
    List.length Vs = List.length Ts ->
    Forall (fun P => ok P /\ gmul L P = O) Vs ->
    Forall (fun T => ok T /\ gmul 8 T = O) Ts ->
    map clear_pt (map (fun p => fst p +g snd p) (combine Vs Ts)) = Vs.
  Proof.
    induction Vs as [|V Vs IH]; intros Ts Hlen HV HT.
    - reflexivity.
    - destruct Ts as [|T Ts]; [discriminate Hlen|].
      inversion HV as [|? ? [HokV HLV] HVs]; subst.
      inversion HT as [|? ? [HokT H8T] HTs]; subst.
      cbn [combine map fst snd]. unfold clear_pt at 1.
      rewrite eight_inv_eight_clears_rel by assumption.
      f_equal. apply IH; [injection Hlen; auto|assumption|assumption].
  Qed.
End CofactorRel.

(* 3b. The statement for an abstract group in which the abelian laws hold
   everywhere (satisfiable, e.g. by Z_n; see the Example below). *)
Section CofactorAbelian.
  Variable G : group.
  Local Infix "+g" := (gadd G) (at level 50, left associativity).
  Local Notation O := (gzero G).
  Hypothesis assoc : forall a b c, a +g (b +g c) = (a +g b) +g c.
  Hypothesis comm : forall a b, a +g b = b +g a.
  Hypothesis zero_l : forall a, O +g a = a.
  Variable L e8 : Z.
  Hypothesis L_gt_1 : 1 < L.
  Hypothesis e8_nonneg : 0 <= e8.
  Hypothesis e8_inv : (8 * e8) mod L = 1.
  Variables P0 Tt : gT G.
  Hypothesis P0_order : gmul L P0 = O.
  Hypothesis T_order : gmul 8 Tt = O.

  Theorem eight_inv_eight_clears : gmul e8 (gmul 8 (P0 +g Tt)) = P0.
  Proof.
    apply (eight_inv_eight_clears_rel G (fun _ => True)) with (L := L); auto.
  Qed.

  Theorem eight_inv_eight_fixes_prime_order : gmul e8 (gmul 8 P0) = P0.
  Proof.
    apply (eight_inv_eight_fixes_prime_order_rel G (fun _ => True)) with (L := L); auto.
  Qed.
End CofactorAbelian.

(* 3c. The same under the packaged [group_laws] of Model/Group.v (any sign of
   e8; P0 is any point killed by the prime q, not necessarily in <B>). *)
Section CofactorLaws.
  Variable G : group.
  Variable q : Z.
  Variable B : gT G.
  Hypothesis Laws : group_laws G q B.
  Variable e8 : Z.
  Hypothesis e8_inv : (8 * e8) mod q = 1.
  Variables P0 Tt : gT G.
  Hypothesis P0_order : gmul q P0 = gzero G.
  Hypothesis T_order : gmul 8 Tt = gzero G.

  Theorem eight_inv_eight_fixes_prime_order_laws : gmul e8 (gmul 8 P0) = P0.
  Proof.
    rewrite <- (gmul_mul G q B Laws).
    pose proof (prime_gt_1 q (gl_prime G q B Laws)) as Hq.
    pose proof (Z.div_mod (8 * e8) q ltac:(lia)) as Hdm. rewrite e8_inv in Hdm.
    replace (e8 * 8) with (1 + ((8 * e8) / q) * q) by lia.
    rewrite (gmul_add G q B Laws), (gmul_mul G q B Laws), P0_order, (gmul_zero_r G q B Laws).
    rewrite (gadd_zero_r G q B Laws). reflexivity.
  Qed.

  Theorem eight_inv_eight_clears_laws : gmul e8 (gmul 8 (gadd G P0 Tt)) = P0.
  Proof.
    rewrite (gmul_add_r G q B Laws), T_order, (gadd_zero_r G q B Laws).
    apply eight_inv_eight_fixes_prime_order_laws.
  Qed.
End CofactorLaws.

(* 3d. Connection with the model *)

Lemma inv_prime_nonneg q a : 0 <= inv_prime q a.
Proof.
  unfold inv_prime. destruct (Z_lt_le_dec 0 q) as [Hq|Hq].
  - apply powmod_range. exact Hq.
  - destruct (q - 2) as [|p|p] eqn:E; try lia. cbn [powmod]. lia.
Qed.

Lemma ec_smul_ok c P k :
  representable (@gmul (curve_group c) (Z.abs k) P) = true ->
  ec_smul c P k = Ok (@gmul (curve_group c) (Z.abs k) P).
Proof. unfold ec_smul. intros ->. reflexivity. Qed.

Lemma ec_smul_cases c P k :
  ec_smul c P k = Ok (@gmul (curve_group c) (Z.abs k) P) \/ ec_smul c P k = Panic.
Proof. unfold ec_smul. destruct (representable _); auto. Qed.

Theorem eight_inv_eight_model c (P : pt) :
  let e := inv_prime (cq c) 8 in
  representable (@gmul (curve_group c) 8 P) = true ->
  representable (@gmul (curve_group c) e (@gmul (curve_group c) 8 P)) = true ->
  eight_inv_eight c P = Ok (@gmul (curve_group c) e (@gmul (curve_group c) 8 P)).
Proof.
  intros e H1 H2. unfold eight_inv_eight.
  rewrite (ec_smul_ok c P 8) by exact H1. cbn [obind].
  change (Z.abs 8) with 8.
  assert (He : Z.abs (inv_prime (cq c) 8) = e) by (apply Z.abs_eq, inv_prime_nonneg).
  rewrite ec_smul_ok; rewrite He; [reflexivity|exact H2].
Qed.

(* whenever one of the two intermediate results is the point at infinity the Go
   code panics (ScalarMult on an unrepresentable result) *)
Theorem eight_inv_eight_panics c (P : pt) :
  let e := inv_prime (cq c) 8 in
  representable (@gmul (curve_group c) 8 P) = false \/
  representable (@gmul (curve_group c) e (@gmul (curve_group c) 8 P)) = false ->
  eight_inv_eight c P = Panic.
Proof.
  intros e H. unfold eight_inv_eight, ec_smul. change (Z.abs 8) with 8.
  destruct (representable (@gmul (curve_group c) 8 P)) eqn:E1; cbn [obind]; [|reflexivity].
  destruct H as [H|H]; [discriminate|].
  rewrite (Z.abs_eq _ (inv_prime_nonneg (cq c) 8)). fold e. rewrite H. reflexivity.
Qed.

(* on an Edwards curve every sum of affine points is affine, so EightInvEight
   is total on affine inputs *)
Lemma edw_gmul_pos_repr c p P : ck c = Edw -> representable P = true ->
  representable (@gmul_pos (curve_group c) p P) = true.
Proof.
  intros Hk HP. induction p as [p IH|p IH|]; cbn [gmul_pos]; [| |exact HP].
  - set (R := @gmul_pos (curve_group c) p P) in *.
    change (representable (pt_add c (pt_add c R R) P) = true).
    change (@representable R = true) in IH.
    destruct R as [[x y]|]; [|discriminate]. destruct P as [[px py]|]; [|discriminate].
    unfold pt_add. rewrite Hk. reflexivity.
  - set (R := @gmul_pos (curve_group c) p P) in *.
    change (representable (pt_add c R R) = true).
    change (@representable R = true) in IH.
    destruct R as [[x y]|]; [|discriminate].
    unfold pt_add. rewrite Hk. reflexivity.
Qed.

Lemma edw_gmul_repr c k P : ck c = Edw -> 0 <= k -> representable P = true ->
  representable (@gmul (curve_group c) k P) = true.
Proof.
  intros Hk H0 HP. destruct k as [|p|p]; [| |lia]; cbn [gmul gzero curve_group].
  - unfold pt_zero. rewrite Hk. reflexivity.
  - apply edw_gmul_pos_repr; assumption.
Qed.

Theorem eight_inv_eight_edw c (P : pt) :
  ck c = Edw -> representable P = true ->
  eight_inv_eight c P =
  Ok (@gmul (curve_group c) (inv_prime (cq c) 8) (@gmul (curve_group c) 8 P)).
Proof.
  intros Hk HP. apply eight_inv_eight_model.
  - apply edw_gmul_repr; [exact Hk|lia|exact HP].
  - apply edw_gmul_repr; [exact Hk|apply inv_prime_nonneg|].
    apply edw_gmul_repr; [exact Hk|lia|exact HP].
Qed.

Lemma ed25519_eight_inv : (8 * inv_prime (cq ed25519) 8) mod cq ed25519 = 1.
Proof. vm_compute. reflexivity. Qed.

(* ====================================================================== *)
(* 4. Group laws, relativised to the points of the curve; toy instances    *)
(* ====================================================================== *)

(* [group_laws (curve_group c) q B] of Model/Group.v quantifies over ALL values
   of [pt = option (Z * Z)], including off-curve and out-of-range pairs, for
   which the laws are simply false (e.g. on an Edwards curve [None] is a second
   neutral element, so [gl_neg_r None] fails: see [group_laws_curve_group_edw_refuted]
   below).  What does hold, and what is proved here for the toy curves by
   exhaustive computation, is the relativised record: the same laws for points
   with [pt_on_curve c P = true], together with closure. *)
Record group_laws_on (c : curve) : Prop := mkLawsOn {
  glo_add_closed : forall P Q, pt_on_curve c P = true -> pt_on_curve c Q = true ->
                               pt_on_curve c (pt_add c P Q) = true;
  glo_neg_closed : forall P, pt_on_curve c P = true -> pt_on_curve c (pt_neg c P) = true;
  glo_zero_on : pt_on_curve c (pt_zero c) = true;
  glo_assoc : forall P Q R, pt_on_curve c P = true -> pt_on_curve c Q = true ->
                            pt_on_curve c R = true ->
                            pt_add c P (pt_add c Q R) = pt_add c (pt_add c P Q) R;
  glo_comm : forall P Q, pt_on_curve c P = true -> pt_on_curve c Q = true ->
                         pt_add c P Q = pt_add c Q P;
  glo_zero_l : forall P, pt_on_curve c P = true -> pt_add c (pt_zero c) P = P;
  glo_neg_r : forall P, pt_on_curve c P = true -> pt_add c P (pt_neg c P) = pt_zero c;
  glo_eqb : forall P Q : pt, pt_eqb P Q = true <-> P = Q;
  glo_prime : prime (cq c);
  glo_base_on : pt_on_curve c (base c) = true;
  glo_order : @gmul (curve_group c) (cq c) (base c) = pt_zero c;
  glo_B_nz : base c <> pt_zero c
}.

Lemma pt_eqb_spec (P Q : pt) : pt_eqb P Q = true <-> P = Q.
Proof.
  destruct P as [[x1 y1]|], Q as [[x2 y2]|]; cbn [pt_eqb].
  - rewrite andb_true_iff, !Z.eqb_eq. split; [intros [-> ->]; reflexivity|intros H; injection H; auto].
  - split; discriminate.
  - split; discriminate.
  - tauto.
Qed.

Theorem group_laws_curve_group_edw_refuted c q B :
  ck c = Edw -> ~ group_laws (curve_group c) q B.
Proof.
  intros Hk L. pose proof (gl_neg_r _ _ _ L None) as H.
  cbn [gadd gneg gzero curve_group pt_add pt_neg] in H. unfold pt_zero in H. rewrite Hk in H.
  discriminate.
Qed.

(* the same for Weierstrass curves (e.g. secp256k1): on the out-of-range pair
   P = (0, p) negation is not involutive, -(-P) = (0, 0) <> P, which contradicts
   a consequence of the laws *)
Theorem group_laws_curve_group_weier_refuted c q B :
  ck c = Weier -> 0 < cp c -> ~ group_laws (curve_group c) q B.
Proof.
  intros Hk Hp L.
  assert (H2 : pt_neg c (pt_neg c (Some (0, cp c))) = Some (0, cp c))
    by exact (gneg_involutive _ _ _ L (Some (0, cp c))).
  unfold pt_neg in H2. rewrite Hk in H2. injection H2 as H2.
  pose proof (Z.mod_pos_bound (- ((- cp c) mod cp c)) (cp c) Hp). lia.
Qed.

(* ---- exhaustive enumeration of the points of a curve ---- *)
Definition zrange (n : Z) : list Z := map Z.of_nat (seq 0 (Z.to_nat n)).

Lemma in_zrange n x : In x (zrange n) <-> 0 <= x < n.
Proof.
  unfold zrange. rewrite in_map_iff. split.
  - intros (i & <- & Hi). apply in_seq in Hi. lia.
  - intros Hx. exists (Z.to_nat x). split; [lia|]. apply in_seq. lia.
Qed.

Definition enum_pts (c : curve) : list pt :=
  filter (pt_on_curve c) (None :: map Some (list_prod (zrange (cp c)) (zrange (cp c)))).

Lemma enum_pts_spec c P : In P (enum_pts c) <-> pt_on_curve c P = true.
Proof.
  unfold enum_pts. rewrite filter_In. split; [tauto|]. intros H. split; [|exact H].
  destruct P as [[x y]|]; [right|left; reflexivity].
  apply in_map. cbn [pt_on_curve] in H. apply on_curve_spec in H. destruct H as (Hx & Hy & _).
  apply in_prod; apply in_zrange; assumption.
Qed.

Definition pt_mem (P : pt) (l : list pt) : bool := existsb (pt_eqb P) l.

Lemma pt_mem_spec P l : pt_mem P l = true <-> In P l.
Proof.
  unfold pt_mem. rewrite existsb_exists. split.
  - intros (Q & HQ & E). apply pt_eqb_spec in E. subst Q. exact HQ.
  - intros H. exists P. split; [exact H|apply pt_eqb_spec; reflexivity].
Qed.

(* the boolean checker: every law over every tuple of listed points *)
Definition check_laws_list (c : curve) (l : list pt) : bool :=
  let add := pt_add c in
  let z := pt_zero c in
  forallb (fun P =>
    pt_mem (pt_neg c P) l && pt_eqb (add P (pt_neg c P)) z && pt_eqb (add z P) P &&
    forallb (fun Q =>
      pt_mem (add P Q) l && pt_eqb (add P Q) (add Q P) &&
      forallb (fun R => pt_eqb (add P (add Q R)) (add (add P Q) R)) l) l) l
  && pt_mem z l && pt_mem (base c) l
  && prime_check (cq c)
  && pt_eqb (@gmul (curve_group c) (cq c) (base c)) z
  && negb (pt_eqb (base c) z).

Definition check_laws (c : curve) : bool := check_laws_list c (enum_pts c).

Theorem check_laws_sound c : check_laws c = true -> group_laws_on c.
Proof.
  unfold check_laws, check_laws_list. set (l := enum_pts c).
  intros H. repeat (apply andb_true_iff in H; destruct H as [H ?]).
  rename H0 into Hnz, H1 into Hord, H2 into Hprime, H3 into Hbase, H4 into Hzero.
  rewrite forallb_forall in H.
  assert (Hin : forall P, pt_on_curve c P = true -> In P l) by (intros P HP; apply enum_pts_spec; exact HP).
  assert (Hon : forall P, In P l -> pt_on_curve c P = true) by (intros P HP; apply enum_pts_spec; exact HP).
  assert (H1 : forall P, pt_on_curve c P = true ->
             In (pt_neg c P) l /\ pt_add c P (pt_neg c P) = pt_zero c /\ pt_add c (pt_zero c) P = P /\
             forall Q, pt_on_curve c Q = true ->
               In (pt_add c P Q) l /\ pt_add c P Q = pt_add c Q P /\
               forall R, pt_on_curve c R = true ->
                 pt_add c P (pt_add c Q R) = pt_add c (pt_add c P Q) R).
  { intros P HP. specialize (H P (Hin P HP)).
    repeat (apply andb_true_iff in H; destruct H as [H ?]).
    rename H0 into HQ, H1 into Hz, H2 into Hn.
    apply pt_mem_spec in H. apply pt_eqb_spec in Hz, Hn.
    repeat split; try assumption.
    - rewrite forallb_forall in HQ. specialize (HQ Q (Hin Q H0)).
      repeat (apply andb_true_iff in HQ; destruct HQ as [HQ ?]).
      apply pt_mem_spec in HQ. exact HQ.
    - rewrite forallb_forall in HQ. specialize (HQ Q (Hin Q H0)).
      repeat (apply andb_true_iff in HQ; destruct HQ as [HQ ?]).
      apply pt_eqb_spec in H2. exact H2.
    - intros R HR. rewrite forallb_forall in HQ. specialize (HQ Q (Hin Q H0)).
      repeat (apply andb_true_iff in HQ; destruct HQ as [HQ ?]).
      rewrite forallb_forall in H1. apply pt_eqb_spec. apply H1. apply Hin. exact HR. }
  constructor.
  - intros P Q HP HQ. apply Hon. apply (H1 P HP). exact HQ.
  - intros P HP. apply Hon. apply (H1 P HP).
  - apply Hon. apply pt_mem_spec. exact Hzero.
  - intros P Q R HP HQ HR. apply (H1 P HP); assumption.
  - intros P Q HP HQ. apply (H1 P HP); assumption.
  - intros P HP. apply (H1 P HP).
  - intros P HP. apply (H1 P HP).
  - apply pt_eqb_spec.
  - apply prime_check_sound. exact Hprime.
  - apply Hon. apply pt_mem_spec. exact Hbase.
  - apply pt_eqb_spec. exact Hord.
  - intros E. apply negb_true_iff in Hnz. apply pt_eqb_spec in E. congruence.
Qed.

(* ---- toy Weierstrass curve: y^2 = x^3 + x + 4 over F_23, prime order 29 ---- *)
Definition toy_w : curve := mkCurve Weier 23 1 4 29 0 2.

Definition toy_w_pts : list pt := Eval vm_compute in enum_pts toy_w.

Lemma toy_w_pts_spec P : In P toy_w_pts <-> pt_on_curve toy_w P = true.
Proof. change toy_w_pts with (enum_pts toy_w). apply enum_pts_spec. Qed.

Lemma toy_w_count : length toy_w_pts = 29%nat.
Proof. reflexivity. Qed.

Theorem toy_w_laws : group_laws_on toy_w.
Proof. apply check_laws_sound. vm_cast_no_check (eq_refl true). Qed.

(* ---- toy twisted Edwards curve: -x^2 + y^2 = 1 + 27 x^2 y^2 over F_29
   (29 = 1 mod 4 so a = -1 is a square; d = 27 is a non-square: the addition
   law is complete).  The group is cyclic of order 40 = 8 * 5; the base point
   (2, 23) has prime order 5; (7, 3) has order 8. ---- *)
Definition toy_e : curve := mkCurve Edw 29 (-1) 27 5 2 23.

Definition toy_e_pts : list pt := Eval vm_compute in enum_pts toy_e.

Lemma toy_e_pts_spec P : In P toy_e_pts <-> pt_on_curve toy_e P = true.
Proof. change toy_e_pts with (enum_pts toy_e). apply enum_pts_spec. Qed.

Lemma toy_e_count : length toy_e_pts = 40%nat.
Proof. reflexivity. Qed.

Lemma toy_e_d_nonsquare : forallb (fun x => negb ((x * x) mod 29 =? 27)) (zrange 29) = true.
Proof. vm_compute. reflexivity. Qed.

Theorem toy_e_laws : group_laws_on toy_e.
Proof. apply check_laws_sound. vm_cast_no_check (eq_refl true). Qed.

Definition toy_T : pt := Some (7, 3).

Lemma toy_T_order8 :
  pt_on_curve toy_e toy_T = true /\
  @gmul (curve_group toy_e) 8 toy_T = pt_zero toy_e /\
  @gmul (curve_group toy_e) 4 toy_T <> pt_zero toy_e.
Proof. split; [|split]; vm_compute; [reflexivity|reflexivity|discriminate]. Qed.

(* ---- from the relativised laws to the packaged [group_laws]: the subtype of
   on-curve points is a group in the sense of Model/Group.v, so every lemma of
   GroupProofs.v applies to it (and scalar multiplication commutes with the
   projection to [pt]) ---- *)
Section OnCurveGroup.
  Variable c : curve.
  Hypothesis L : group_laws_on c.

  Definition cpt : Type := { P : pt | pt_on_curve c P = true }.
  Definition cpt_add (a b : cpt) : cpt :=
    exist _ (pt_add c (proj1_sig a) (proj1_sig b))
          (glo_add_closed c L _ _ (proj2_sig a) (proj2_sig b)).
  Definition cpt_neg (a : cpt) : cpt :=
    exist _ (pt_neg c (proj1_sig a)) (glo_neg_closed c L _ (proj2_sig a)).
  Definition cpt_zero : cpt := exist _ (pt_zero c) (glo_zero_on c L).
  Definition cpt_base : cpt := exist _ (base c) (glo_base_on c L).
  Definition on_group : group :=
    mkGroup cpt cpt_add cpt_neg cpt_zero (fun a b => pt_eqb (proj1_sig a) (proj1_sig b)).

  Lemma cpt_eq (a b : cpt) : proj1_sig a = proj1_sig b -> a = b.
  Proof.
    destruct a as [P HP], b as [Q HQ]. cbn [proj1_sig]. intros <-.
    f_equal. apply Eqdep_dec.UIP_dec. apply Bool.bool_dec.
  Qed.

  Lemma proj_gmul_pos p (a : cpt) :
    proj1_sig (@gmul_pos on_group p a) = @gmul_pos (curve_group c) p (proj1_sig a).
  Proof.
    induction p as [p IH|p IH|]; cbn [gmul_pos gadd on_group curve_group cpt_add proj1_sig];
      rewrite ?IH; reflexivity.
  Qed.

  Lemma proj_gmul k (a : cpt) :
    proj1_sig (@gmul on_group k a) = @gmul (curve_group c) k (proj1_sig a).
  Proof.
    destruct k as [|p|p]; cbn [gmul gzero gneg on_group curve_group cpt_neg cpt_zero proj1_sig];
      rewrite ?proj_gmul_pos; reflexivity.
  Qed.

  Theorem on_group_laws : group_laws on_group (cq c) cpt_base.
  Proof.
    constructor.
    - intros x y z. apply cpt_eq. cbn [gadd on_group cpt_add proj1_sig].
      apply (glo_assoc c L); apply proj2_sig.
    - intros x y. apply cpt_eq. cbn [gadd on_group cpt_add proj1_sig].
      apply (glo_comm c L); apply proj2_sig.
    - intros x. apply cpt_eq. cbn [gadd gzero on_group cpt_add cpt_zero proj1_sig].
      apply (glo_zero_l c L); apply proj2_sig.
    - intros x. apply cpt_eq. cbn [gadd gneg gzero on_group cpt_add cpt_neg cpt_zero proj1_sig].
      apply (glo_neg_r c L); apply proj2_sig.
    - intros x y. cbn [geqb on_group]. rewrite pt_eqb_spec. split; [apply cpt_eq|intros ->; reflexivity].
    - apply (glo_prime c L).
    - apply cpt_eq. rewrite proj_gmul. cbn [gzero on_group cpt_zero cpt_base proj1_sig].
      apply (glo_order c L).
    - intros E. apply (glo_B_nz c L). apply (f_equal (@proj1_sig _ _)) in E. exact E.
  Qed.

  (* scalar multiplication stays on the curve *)
  Lemma gmul_on_curve k P : pt_on_curve c P = true ->
    pt_on_curve c (@gmul (curve_group c) k P) = true.
  Proof.
    intros HP. change P with (proj1_sig (exist (fun P => pt_on_curve c P = true) P HP)).
    rewrite <- proj_gmul. apply proj2_sig.
  Qed.

  (* every multiple of the base point is killed by q, and scalars act modulo q *)
  Lemma gmul_base_mod k :
    @gmul (curve_group c) (k mod cq c) (base c) = @gmul (curve_group c) k (base c).
  Proof.
    change (base c) with (proj1_sig cpt_base). rewrite <- !proj_gmul.
    f_equal. apply (gmul_mod_q on_group (cq c) cpt_base on_group_laws).
  Qed.

  Lemma gmul_base_inj a b :
    @gmul (curve_group c) a (base c) = @gmul (curve_group c) b (base c) ->
    a mod cq c = b mod cq c.
  Proof.
    change (base c) with (proj1_sig cpt_base). rewrite <- !proj_gmul. intros E.
    apply cpt_eq in E. apply (gmul_inj on_group (cq c) cpt_base on_group_laws). exact E.
  Qed.

  (* EightInvEight clears the 8-torsion component and fixes prime-order points,
     at the level of the ECPoint wrapper, for any Edwards curve satisfying the
     relativised laws whose q does not divide 8 *)
  Theorem eight_inv_eight_on_curve P0 Tt :
    ck c = Edw -> 8 mod cq c <> 0 ->
    pt_on_curve c P0 = true -> pt_on_curve c Tt = true ->
    @gmul (curve_group c) (cq c) P0 = pt_zero c ->
    @gmul (curve_group c) 8 Tt = pt_zero c ->
    eight_inv_eight c (pt_add c P0 Tt) = Ok P0.
  Proof.
    intros Hk H8 HP HT HLP H8T.
    assert (Hsum : pt_on_curve c (pt_add c P0 Tt) = true) by (apply (glo_add_closed c L); assumption).
    rewrite eight_inv_eight_edw; [|exact Hk|].
    2:{ destruct (pt_add c P0 Tt); [reflexivity|]. cbn [pt_on_curve] in Hsum. rewrite Hk in Hsum. discriminate. }
    f_equal.
    apply (eight_inv_eight_clears_rel (curve_group c) (fun P => pt_on_curve c P = true))
      with (L := cq c); try assumption.
    - exact (glo_add_closed c L).
    - exact (glo_zero_on c L).
    - exact (glo_assoc c L).
    - exact (glo_comm c L).
    - exact (glo_zero_l c L).
    - apply prime_gt_1. exact (glo_prime c L).
    - apply inv_prime_nonneg.
    - apply inv_prime_spec; [exact (glo_prime c L)|exact H8].
  Qed.
End OnCurveGroup.

Corollary toy_e_eight_inv_eight P0 Tt :
  pt_on_curve toy_e P0 = true -> pt_on_curve toy_e Tt = true ->
  @gmul (curve_group toy_e) 5 P0 = Some (0, 1) ->
  @gmul (curve_group toy_e) 8 Tt = Some (0, 1) ->
  eight_inv_eight toy_e (pt_add toy_e P0 Tt) = Ok P0.
Proof.
  intros HP HT H5 H8. apply (eight_inv_eight_on_curve toy_e toy_e_laws); try assumption.
  - reflexivity.
  - vm_compute. discriminate.
Qed.

Example toy_e_eight_inv_eight_ex :
  eight_inv_eight toy_e (pt_add toy_e (base toy_e) toy_T) = Ok (base toy_e)
  /\ pt_add toy_e (base toy_e) toy_T <> base toy_e.
Proof. split; [apply toy_e_eight_inv_eight; vm_compute; reflexivity|vm_compute; discriminate]. Qed.

(* GroupProofs applies to the toy curves through [on_group] *)
Example toy_w_schnorr x a ch :
  let G := on_group toy_w toy_w_laws in
  let B := cpt_base toy_w toy_w_laws in
  @gmul G ((a + ch * x) mod cq toy_w) B = gadd G (@gmul G a B) (@gmul G ch (@gmul G x B)).
Proof.
  intros G B. apply (schnorr_complete G (cq toy_w) B (on_group_laws toy_w toy_w_laws)).
Qed.

(* ====================================================================== *)
(* 5. The two real curves: sanity checks by computation                    *)
(* ====================================================================== *)

(* compute once, at Qed time *)
Ltac vmc := match goal with |- ?a = ?b => vm_cast_no_check (@eq_refl _ b) end.

Lemma secp256k1_base_on_curve : pt_on_curve secp256k1 (base secp256k1) = true.
Proof. vmc. Qed.

Lemma secp256k1_double_on_curve :
  pt_on_curve secp256k1 (pt_add secp256k1 (base secp256k1) (base secp256k1)) = true.
Proof. vmc. Qed.

Lemma secp256k1_triple_on_curve :
  let B := base secp256k1 in
  pt_on_curve secp256k1 (pt_add secp256k1 (pt_add secp256k1 B B) B) = true
  /\ pt_add secp256k1 (pt_add secp256k1 B B) B = pt_add secp256k1 B (pt_add secp256k1 B B).
Proof. intros B. split; vmc. Qed.

Lemma secp256k1_base_neg :
  pt_on_curve secp256k1 (pt_neg secp256k1 (base secp256k1)) = true /\
  pt_add secp256k1 (base secp256k1) (pt_neg secp256k1 (base secp256k1)) = pt_zero secp256k1.
Proof. split; vmc. Qed.

(* NewECPoint rejects the base point with y replaced by y + p (non-canonical
   encoding of the same field element) and an off-curve pair *)
Lemma secp256k1_rejects :
  new_ec_point secp256k1 (cgx secp256k1) (cgy secp256k1 + cp secp256k1) = None /\
  new_ec_point secp256k1 (cgx secp256k1) (cgy secp256k1 + 1) = None /\
  new_ec_point secp256k1 0 0 = None.
Proof. split; [|split]; vmc. Qed.

(* a curve outside the library's registry (NIST P-256, a = -3): the same code paths serve it *)
Lemma p256_base_on_curve : pt_on_curve p256 (base p256) = true.
Proof. vmc. Qed.

Lemma p256_triple_on_curve :
  let B := base p256 in
  pt_on_curve p256 (pt_add p256 (pt_add p256 B B) B) = true
  /\ pt_add p256 (pt_add p256 B B) B = pt_add p256 B (pt_add p256 B B).
Proof. intros B. split; vmc. Qed.

Lemma p256_rejects :
  new_ec_point p256 (cgx p256) (cgy p256 + cp p256) = None /\
  new_ec_point p256 (cgx p256) (cgy p256 + 1) = None /\
  new_ec_point p256 0 0 = None.
Proof. split; [|split]; vmc. Qed.

Lemma ed25519_base_on_curve : pt_on_curve ed25519 (base ed25519) = true.
Proof. vmc. Qed.

Lemma ed25519_double_on_curve :
  pt_on_curve ed25519 (pt_add ed25519 (base ed25519) (base ed25519)) = true.
Proof. vmc. Qed.

Lemma ed25519_base_neg :
  pt_on_curve ed25519 (pt_neg ed25519 (base ed25519)) = true /\
  pt_add ed25519 (base ed25519) (pt_neg ed25519 (base ed25519)) = pt_zero ed25519.
Proof. split; vmc. Qed.

Lemma ed25519_zero_on_curve :
  pt_on_curve ed25519 (pt_zero ed25519) = true /\
  pt_add ed25519 (pt_zero ed25519) (base ed25519) = base ed25519.
Proof. split; vmc. Qed.

(* a point of exact order 8 on ed25519 *)
Definition ed25519_T8 : pt :=
  Some (14399317868200118260347934320527232580618823971194345261214217575416788799818,
        55188659117513257062467267217118295137698188065244968500265048394206261417927).

Lemma ed25519_T8_order :
  pt_on_curve ed25519 ed25519_T8 = true /\
  @gmul (curve_group ed25519) 8 ed25519_T8 = pt_zero ed25519 /\
  @gmul (curve_group ed25519) 4 ed25519_T8 = Some (0, cp ed25519 - 1).
Proof. split; [|split]; vmc. Qed.

Lemma ed25519_base_plus_T8_on_curve :
  pt_on_curve ed25519 (pt_add ed25519 (base ed25519) ed25519_T8) = true /\
  @gmul (curve_group ed25519) 8 (pt_add ed25519 (base ed25519) ed25519_T8)
  = @gmul (curve_group ed25519) 8 (base ed25519).
Proof. split; vmc. Qed.

(* ====================================================================== *)
(* Examples: the hypotheses of the main theorems are satisfiable           *)
(* ====================================================================== *)

Example new_ec_point_sound_ex : new_ec_point toy_w 0 2 = Some (Some (0, 2)).
Proof. apply new_ec_point_complete. vm_compute. reflexivity. Qed.

Example new_ec_point_rejects_ex :
  new_ec_point toy_w 0 25 = None /\ new_ec_point toy_w 0 3 = None /\ new_ec_point toy_w (-23) 2 = None.
Proof. vm_compute. auto. Qed.

Example unflatten_ex :
  unflatten toy_w [0; 2; 0; 21; 1; 11] = Ok [Some (0, 2); Some (0, 21); Some (1, 11)]
  /\ unflatten toy_w [0; 2; 0] = Err
  /\ unflatten toy_w [0; 2; 0; 22] = Err
  /\ unflatten toy_w [] = Ok [].
Proof. vm_compute. auto. Qed.

Example unflatten_flatten_ex :
  Forall (fun P => exists x y, P = Some (x, y) /\ on_curve toy_w x y = true)
         [Some (0, 2); Some (0, 21); Some (1, 11)].
Proof. repeat constructor; eexists; eexists; (split; [reflexivity|vm_compute; reflexivity]). Qed.

(* flatten silently drops the point at infinity, so the round trip
   unflatten (flatten ps) = ps needs every point to be affine *)
Example flatten_drops_infinity :
  pt_on_curve toy_w None = true /\
  unflatten toy_w (flatten [Some (0, 2); None]) = Ok [Some (0, 2)].
Proof. vm_compute. auto. Qed.

Section ExampleCofactor.
  Let G := on_group toy_e toy_e_laws.
  Let P0 : gT G := cpt_base toy_e toy_e_laws.
  Let Tt : gT G := exist _ toy_T (proj1 toy_T_order8).

  Lemma ex_P0_order : @gmul G 5 P0 = gzero G.
  Proof. unfold G, P0. apply cpt_eq. rewrite proj_gmul. vm_compute. reflexivity. Qed.
  Lemma ex_T_order : @gmul G 8 Tt = gzero G.
  Proof. unfold G, Tt. apply cpt_eq. rewrite proj_gmul. vm_compute. reflexivity. Qed.

  Example eight_inv_eight_clears_ex : @gmul G 2 (@gmul G 8 (gadd G P0 Tt)) = P0.
  Proof.
    pose proof (on_group_laws toy_e toy_e_laws) as LL.
    apply (eight_inv_eight_clears G (gl_assoc _ _ _ LL) (gl_comm _ _ _ LL) (gl_zero_l _ _ _ LL) 5 2);
      try lia; [reflexivity|exact ex_P0_order|exact ex_T_order].
  Qed.

  Example eight_inv_eight_clears_laws_ex : @gmul G 2 (@gmul G 8 (gadd G P0 Tt)) = P0.
  Proof.
    apply (eight_inv_eight_clears_laws G 5 P0 (on_group_laws toy_e toy_e_laws) 2);
      [reflexivity|exact ex_P0_order|exact ex_T_order].
  Qed.
End ExampleCofactor.

Example eight_inv_eight_model_ex :
  eight_inv_eight toy_e (Some (1, 7)) =
  Ok (@gmul (curve_group toy_e) (inv_prime 5 8) (@gmul (curve_group toy_e) 8 (Some (1, 7)))).
Proof. apply (eight_inv_eight_model toy_e); vm_compute; reflexivity. Qed.

Example eight_inv_eight_panics_ex : eight_inv_eight toy_w None = Panic.
Proof. apply eight_inv_eight_panics. left. vm_compute. reflexivity. Qed.

Print Assumptions new_ec_point_sound.
Print Assumptions new_ec_point_complete.
Print Assumptions unflatten_sound.
Print Assumptions unflatten_flatten.
Print Assumptions unflatten_odd.
Print Assumptions unflatten_total.
Print Assumptions unflatten_rejects_bad.
Print Assumptions eight_inv_eight_clears_rel.
Print Assumptions torsion_dealing_cleared.
Print Assumptions eight_inv_eight_clears.
Print Assumptions eight_inv_eight_fixes_prime_order.
Print Assumptions eight_inv_eight_clears_laws.
Print Assumptions eight_inv_eight_model.
Print Assumptions eight_inv_eight_panics.
Print Assumptions eight_inv_eight_edw.
Print Assumptions ed25519_eight_inv.
Print Assumptions group_laws_curve_group_edw_refuted.
Print Assumptions group_laws_curve_group_weier_refuted.
Print Assumptions check_laws_sound.
Print Assumptions toy_w_laws.
Print Assumptions toy_e_laws.
Print Assumptions on_group_laws.
Print Assumptions eight_inv_eight_on_curve.
Print Assumptions toy_e_eight_inv_eight.
Print Assumptions toy_w_schnorr.
Print Assumptions ed25519_T8_order.
Print Assumptions ed25519_base_plus_T8_on_curve.
Print Assumptions secp256k1_base_neg.
