(* Proofs about Model/MtA.v: completeness and range rejection of Alice's range proof and
   Bob's proofs, totality of the verifiers, correctness of the MtA share conversion
   (properties C10, C11, C13), and the hash pre-image contents. *)
From Coq Require Import ZArith Znumtheory Zpow_facts List Lia Bool Setoid Morphisms.
From TSS Require Import Base.Outcome Base.Bytes Base.ZMod Base.GoInt Model.Framing Model.Group
  Model.Curve Model.Paillier Model.Schnorr Model.MtA
  Proofs.BytesProofs Proofs.FermatBridge Proofs.ZModProofs Proofs.PaillierProofs Proofs.GroupProofs.
Import ListNotations.
Open Scope Z_scope.

(* ====================================================================== *)
(* 1. powmod / unit facts over an arbitrary modulus                        *)
(* ====================================================================== *)

Lemma powmod_eqm x e m : 0 <= e -> 0 < m -> eqm m (powmod x e m) (x ^ e).
Proof. intros He Hm. rewrite powmod_spec by assumption. apply eqm_mod. Qed.

Lemma mmul_eqm m x y : eqm m (mmul m x y) (x * y).
Proof. unfold mmul. apply eqm_mod. Qed.

Lemma mmul_range m x y : 0 < m -> 0 <= mmul m x y < m.
Proof. intros Hm. unfold mmul. apply Z.mod_pos_bound. assumption. Qed.

Lemma mmul_comm m x y : mmul m x y = mmul m y x.
Proof. unfold mmul. now rewrite Z.mul_comm. Qed.

Lemma eqm_canon m a b : eqm m a b -> a mod m = b mod m.
Proof. exact (fun H => H). Qed.

Lemma powmod_add x a b m : 0 <= a -> 0 <= b -> 0 < m ->
  powmod x (a + b) m = (powmod x a m * powmod x b m) mod m.
Proof.
  intros Ha Hb Hm. rewrite (powmod_spec x (a + b)) by lia.
  change (eqm m (x ^ (a + b)) (powmod x a m * powmod x b m)).
  rewrite !powmod_eqm by assumption. apply eqm_of_eq. now apply Z.pow_add_r.
Qed.

Lemma powmod_mul_exp x a b m : 0 <= a -> 0 <= b -> 0 < m ->
  powmod x (a * b) m = powmod (powmod x a m) b m.
Proof.
  intros Ha Hb Hm. rewrite (powmod_spec x (a * b)) by nia.
  rewrite (powmod_spec (powmod x a m) b) by assumption.
  change (eqm m (x ^ (a * b)) (powmod x a m ^ b)).
  rewrite (eqm_pow m _ _ b Hb (powmod_eqm x a m Ha Hm)).
  apply eqm_of_eq. now apply Z.pow_mul_r.
Qed.

Lemma powmod_mul_base x y e m : 0 <= e -> 0 < m ->
  powmod (x * y) e m = (powmod x e m * powmod y e m) mod m.
Proof.
  intros He Hm. rewrite (powmod_spec (x * y) e) by assumption.
  change (eqm m ((x * y) ^ e) (powmod x e m * powmod y e m)).
  rewrite !powmod_eqm by assumption. apply eqm_of_eq. apply Z.pow_mul_l.
Qed.

Lemma powmod_mmul_base x y e m : 0 <= e -> 0 < m ->
  powmod (mmul m x y) e m = mmul m (powmod x e m) (powmod y e m).
Proof.
  intros He Hm. unfold mmul. rewrite powmod_mod by assumption.
  now apply powmod_mul_base.
Qed.

Lemma powmod_0_r x m : powmod x 0 m = 1 mod m.
Proof. reflexivity. Qed.

(* units *)
Lemma gcd_mod_unit x m : 0 < m -> Z.gcd x m = 1 -> Z.gcd (x mod m) m = 1.
Proof.
  intros Hm G. rewrite (gcd_eqm m (x mod m) x); [assumption|lia|apply eqm_mod].
Qed.

Lemma gcd_powmod x e m : 0 <= e -> 0 < m -> Z.gcd x m = 1 -> Z.gcd (powmod x e m) m = 1.
Proof.
  intros He Hm G. rewrite (gcd_eqm m _ (x ^ e)); [|lia|now apply powmod_eqm].
  now apply gcd_1_pow_l.
Qed.

Lemma gcd_mmul x y m : 0 < m -> Z.gcd x m = 1 -> Z.gcd y m = 1 -> Z.gcd (mmul m x y) m = 1.
Proof.
  intros Hm Gx Gy. rewrite (gcd_eqm m _ (x * y)); [|lia|apply mmul_eqm].
  now apply gcd_1_mul_l.
Qed.

(* the statement without 0 <= e is false: powmod x (-1) m = 0 and gcd 0 m = m *)
Lemma gcd_powmod_neg_refuted : Z.gcd 1 5 = 1 /\ Z.gcd (powmod 1 (-1) 5) 5 <> 1.
Proof. split; [reflexivity|discriminate]. Qed.

Lemma unit_nonzero x m : 1 < m -> Z.gcd x m = 1 -> x <> 0.
Proof. intros Hm G ->. rewrite Z.gcd_0_l in G. lia. Qed.

Lemma gcd_sq_to_base x n : Z.gcd x (n * n) = 1 -> Z.gcd x n = 1.
Proof.
  intros G. apply Z.divide_1_r_nonneg; [apply Z.gcd_nonneg|].
  rewrite <- G. apply Z.gcd_greatest; [apply Z.gcd_divide_l|].
  apply Z.divide_trans with n; [apply Z.gcd_divide_r|]. exists n. reflexivity.
Qed.

Lemma gcd_gamma_N2 N : Z.gcd (gamma N) (N * N) = 1.
Proof. unfold gamma. apply gcd_1_sq_r. replace (N + 1) with (1 + N) by ring. apply gcd_succ_self. Qed.

(* cancellation by units *)
Lemma eqm_unit_cancel_l m u a b : Z.gcd u m = 1 -> eqm m (u * a) (u * b) -> eqm m a b.
Proof.
  intros G E. destruct (Z.eq_dec m 0) as [->|Hm].
  - rewrite Z.gcd_0_r in G. unfold eqm in *. rewrite !Zmod_0_r in *. nia.
  - apply eqm_sub_0. apply eqm_0_iff. apply Z.mod_divide; [assumption|].
    apply (Gauss m u (a - b)).
    + apply Z.mod_divide; [assumption|]. apply eqm_0_iff.
      replace (u * (a - b)) with (u * a - u * b) by ring. now apply eqm_sub_0.
    + apply rel_prime_sym. now apply Zgcd_1_rel_prime.
Qed.

Lemma eqm_unit_cancel_r m u a b : Z.gcd u m = 1 -> eqm m (a * u) (b * u) -> eqm m a b.
Proof. intros G E. apply (eqm_unit_cancel_l m u); [assumption|]. now rewrite !(Z.mul_comm u). Qed.

(* Exp with the negated exponent: total on units, and yields the inverse power *)
Lemma go_exp_neg_spec x e m : 0 < m -> Z.gcd x m = 1 -> 0 <= e ->
  exists xi, go_exp x (- e) m = Some xi /\ (xi * powmod x e m) mod m = 1 mod m.
Proof.
  intros Hm G He. unfold go_exp.
  destruct (Z.leb_spec 0 (- e)) as [Hle|Hlt].
  - assert (e = 0) by lia. subst e. cbn [Z.opp]. eexists; split; [reflexivity|].
    rewrite !powmod_0_r. rewrite <- Z.mul_mod by lia. reflexivity.
  - destruct (modinv_complete x m Hm G) as [xi Hxi]. rewrite Hxi.
    eexists; split; [reflexivity|]. rewrite Z.opp_involutive.
    destruct (modinv_sound x m xi Hm Hxi) as [S1 _].
    change (eqm m (powmod xi e m * powmod x e m) 1).
    rewrite !powmod_eqm by assumption. rewrite <- Z.pow_mul_l.
    apply eqm_1_pow; [assumption|]. rewrite Z.mul_comm. exact S1.
Qed.

Lemma go_exp_neg_some x e m : 0 < m -> Z.gcd x m = 1 -> exists xi, go_exp x e m = Some xi.
Proof.
  intros Hm G. unfold go_exp. destruct (0 <=? e); [eauto|].
  destruct (modinv_complete x m Hm G) as [xi ->]. eauto.
Qed.

(* (a + kN)^N = a^N modulo N^2 *)
Lemma binom_lin N b k n : 0 <= n ->
  eqm (N * N) ((b + k * N) ^ (n + 1)) (b ^ (n + 1) + (n + 1) * b ^ n * k * N).
Proof.
  revert n. apply natlike_ind.
  - apply eqm_of_eq. change (0 + 1) with 1. rewrite !Z.pow_1_r, Z.pow_0_r. ring.
  - intros n Hn IH. rewrite <- Z.add_1_r.
    rewrite (Z.pow_add_r (b + k * N) (n + 1) 1) by lia. rewrite IH.
    rewrite (Z.pow_add_r b (n + 1) 1) by lia. rewrite (Z.pow_add_r b n 1) by lia.
    rewrite !Z.pow_1_r.
    set (B := b ^ n).
    replace ((B * b + (n + 1) * B * k * N) * (b + k * N))
      with (B * b * b + (n + 1 + 1) * (B * b) * k * N + ((n + 1) * B * k * k) * (N * N)) by ring.
    apply eqm_plus_mult.
Qed.

Lemma eqm_pow_N N a b : 0 < N -> eqm N a b -> eqm (N * N) (a ^ N) (b ^ N).
Proof.
  intros HN E. apply eqm_sub_0 in E. apply eqm_0_iff in E.
  apply Z.mod_divide in E; [|lia]. destruct E as [k Hk].
  replace a with (b + k * N) by lia.
  pose proof (binom_lin N b k (N - 1) ltac:(lia)) as Hb.
  replace (N - 1 + 1) with N in Hb by lia. rewrite Hb.
  replace (b ^ N + N * b ^ (N - 1) * k * N) with (b ^ N + (b ^ (N - 1) * k) * (N * N)) by ring.
  apply eqm_plus_mult.
Qed.

(* ====================================================================== *)
(* 2. the two sigma-protocol identities                                    *)
(* ====================================================================== *)

(* ring-Pedersen: h1^(e x + a) h2^(e rho + rp) = z^e * (h1^a h2^rp) *)
Lemma pedersen_open M h1 h2 x rho a rp e z :
  0 <= e -> 0 <= x -> 0 <= rho -> 0 <= a -> 0 <= rp ->
  eqm M z (h1 ^ x * h2 ^ rho) ->
  eqm M (h1 ^ (e * x + a) * h2 ^ (e * rho + rp)) (z ^ e * (h1 ^ a * h2 ^ rp)).
Proof.
  intros He Hx Hrho Ha Hrp Hz.
  rewrite (eqm_pow M _ _ e He Hz). apply eqm_of_eq.
  rewrite !Z.pow_add_r by nia. rewrite Z.pow_mul_l.
  rewrite <- !Z.pow_mul_r by lia.
  rewrite (Z.mul_comm x e), (Z.mul_comm rho e). ring.
Qed.

(* Paillier: c1^(e x + a) s^N g^(e y + gm) = c2^e * (c1^a g^gm beta^N) modulo N^2
   when c2 = c1^x g^y r^N and s = r^e beta modulo N *)
Lemma paillier_open N g c1 c2 x y r beta s a gm e :
  0 < N -> 0 <= e -> 0 <= x -> 0 <= y -> 0 <= a -> 0 <= gm ->
  eqm (N * N) c2 (c1 ^ x * g ^ y * r ^ N) ->
  eqm N s (r ^ e * beta) ->
  eqm (N * N) (c1 ^ (e * x + a) * s ^ N * g ^ (e * y + gm))
              (c2 ^ e * (c1 ^ a * g ^ gm * beta ^ N)).
Proof.
  intros HN He Hx Hy Ha Hgm Hc2 Hs.
  rewrite (eqm_pow_N N s _ HN Hs).
  rewrite (eqm_pow (N * N) _ _ e He Hc2). apply eqm_of_eq.
  rewrite !Z.pow_add_r by nia. rewrite !Z.pow_mul_l.
  rewrite <- !Z.pow_mul_r by lia.
  rewrite (Z.mul_comm x e), (Z.mul_comm y e), (Z.mul_comm N e). ring.
Qed.

Lemma is_in_interval_true b bound : 0 <= b < bound -> is_in_interval b bound = true.
Proof.
  intros Hb. unfold is_in_interval. apply andb_true_iff. split; [apply Z.ltb_lt|apply Z.leb_le]; lia.
Qed.

Lemma is_in_interval_spec b bound : is_in_interval b bound = true <-> 0 <= b < bound.
Proof.
  unfold is_in_interval. rewrite andb_true_iff, Z.ltb_lt, Z.leb_le. lia.
Qed.

(* ====================================================================== *)
(* 3. Alice's range proof                                                  *)
(* ====================================================================== *)

Section Alice.
  Variable H : list Z -> list Z.
  Variable c : curve.

  Lemma alice_challenge_nonneg N cA z u w : 0 < cq c -> 0 <= alice_challenge H c N cA z u w.
  Proof.
    intros Hq. unfold alice_challenge. destruct (sha512_256i H _); [|lia].
    apply Z.mod_pos_bound. assumption.
  Qed.

  (* acceptance from the guard facts and the two verification equations *)
  Lemma alice_verify_accepts N NTilde h1 h2 cA pf cInv zInv :
    let N2 := nsquare N in
    let e := alice_challenge H c N cA (aZ pf) (aU pf) (aW pf) in
    is_in_interval cA N2 = true -> Z.gcd cA N2 = 1 ->
    is_in_interval (aZ pf) NTilde = true -> is_in_interval (aU pf) N2 = true ->
    is_in_interval (aW pf) NTilde = true -> is_in_interval (aS pf) N = true ->
    Z.gcd (aZ pf) NTilde = 1 -> Z.gcd (aU pf) N2 = 1 -> Z.gcd (aW pf) NTilde = 1 ->
    cq c <= aS1 pf -> cq c <= aS2 pf -> aS pf <> 1 -> aZ pf <> 1 -> aS1 pf <> aS2 pf ->
    aS1 pf <= q3 c ->
    go_exp cA (- e) N2 = Some cInv -> go_exp (aZ pf) (- e) NTilde = Some zInv ->
    aU pf = mmul N2 (mmul N2 (powmod (gamma N) (aS1 pf) N2) (powmod (aS pf) N N2)) cInv ->
    aW pf = mmul NTilde (mmul NTilde (powmod h1 (aS1 pf) NTilde) (powmod h2 (aS2 pf) NTilde)) zInv ->
    alice_verify H c N NTilde h1 h2 cA pf = Ok true.
  Proof.
    intros N2 e I1 G1 I2 I3 I4 I5 G2 G3 G4 L1 L2 D1 D2 D3 R1 X1 X2 E1 E2.
    unfold alice_verify. cbv zeta. fold N2. fold e.
    rewrite I1, G1, I2, I3, I4, I5, G2, G3, G4. rewrite Z.eqb_refl. cbn [negb orb].
    rewrite (proj2 (Z.ltb_ge (aS1 pf) (cq c)) L1).
    rewrite (proj2 (Z.ltb_ge (aS2 pf) (cq c)) L2).
    rewrite (proj2 (Z.eqb_neq (aS pf) 1) D1).
    rewrite (proj2 (Z.eqb_neq (aZ pf) 1) D2).
    rewrite (proj2 (Z.eqb_neq (aS1 pf) (aS2 pf)) D3).
    rewrite (proj2 (Z.ltb_ge (q3 c) (aS1 pf)) R1).
    rewrite X1, X2. rewrite <- E1. rewrite Z.eqb_refl. cbn [negb].
    rewrite <- E2. rewrite Z.eqb_refl. reflexivity.
  Qed.

  Theorem alice_complete N NTilde h1 h2 m r alpha beta gam rho :
    0 < N -> 0 < NTilde -> Z.gcd h1 NTilde = 1 -> Z.gcd h2 NTilde = 1 -> 0 < cq c ->
    0 <= m -> Z.gcd r N = 1 ->
    0 <= alpha -> Z.gcd beta N = 1 -> 0 <= gam -> 0 <= rho ->
    let N2 := nsquare N in
    let cA := (powmod (gamma N) m N2 * powmod r N N2) mod N2 in
    let pf := alice_prove H c N cA NTilde h1 h2 m r alpha beta gam rho in
    cq c <= aS1 pf -> cq c <= aS2 pf -> aS pf <> 1 -> aZ pf <> 1 -> aS1 pf <> aS2 pf ->
    aS1 pf <= q3 c ->
    alice_verify H c N NTilde h1 h2 cA pf = Ok true.
  Proof.
    intros HN HNT Gh1 Gh2 Hq Hm Gr Halpha Gbeta Hgam Hrho N2 cA pf L1 L2 D1 D2 D3 R1.
    assert (HN2 : 0 < N2) by (unfold N2, nsquare; nia).
    set (e := alice_challenge H c N cA (aZ pf) (aU pf) (aW pf)).
    assert (He : 0 <= e) by (apply alice_challenge_nonneg; assumption).
    (* shapes *)
    assert (EcA : eqm (N * N) cA (gamma N ^ m * r ^ N)).
    { unfold cA. fold (mmul N2 (powmod (gamma N) m N2) (powmod r N N2)).
      change (N * N) with N2. rewrite mmul_eqm. rewrite !(powmod_eqm _ _ N2) by lia. reflexivity. }
    assert (GcA : Z.gcd cA N2 = 1).
    { unfold cA. fold (mmul N2 (powmod (gamma N) m N2) (powmod r N N2)).
      apply gcd_mmul; [assumption| |]; apply gcd_powmod; try lia.
      - apply gcd_gamma_N2.
      - now apply gcd_1_sq_r. }
    assert (Ez : eqm NTilde (aZ pf) (h1 ^ m * h2 ^ rho)).
    { cbn [pf alice_prove aZ]. rewrite mmul_eqm. rewrite !(powmod_eqm _ _ NTilde) by lia. reflexivity. }
    assert (Gz : Z.gcd (aZ pf) NTilde = 1).
    { cbn [pf alice_prove aZ]. apply gcd_mmul; [assumption| |]; apply gcd_powmod; assumption || lia. }
    assert (Es : eqm N (aS pf) (r ^ e * beta)).
    { change (aS pf) with (mmul N (powmod r e N) beta). rewrite mmul_eqm.
      rewrite (powmod_eqm _ _ N) by lia. reflexivity. }
    destruct (go_exp_neg_spec cA e N2 HN2 GcA He) as (cInv & XcInv & EcInv).
    destruct (go_exp_neg_spec (aZ pf) e NTilde HNT Gz He) as (zInv & XzInv & EzInv).
    apply (alice_verify_accepts N NTilde h1 h2 cA pf cInv zInv); try assumption.
    - apply is_in_interval_true. apply Z.mod_pos_bound. assumption.
    - apply is_in_interval_true. cbn [pf alice_prove aZ]. now apply mmul_range.
    - apply is_in_interval_true. cbn [pf alice_prove aU]. now apply mmul_range.
    - apply is_in_interval_true. cbn [pf alice_prove aW]. now apply mmul_range.
    - apply is_in_interval_true. cbn [pf alice_prove aS]. now apply mmul_range.
    - cbn [pf alice_prove aU]. apply gcd_mmul; [assumption| |]; apply gcd_powmod; try lia.
      + apply gcd_gamma_N2.
      + now apply gcd_1_sq_r.
    - cbn [pf alice_prove aW]. apply gcd_mmul; [assumption| |]; apply gcd_powmod; assumption || lia.
    - (* u = gamma^s1 * s^N * cA^-e *)
      change (aS1 pf) with (e * m + alpha).
      change (eqm N2 (powmod (gamma N) alpha N2 * powmod beta N N2)
                (mmul N2 (powmod (gamma N) (e * m + alpha) N2) (powmod (aS pf) N N2) * cInv)).
      rewrite mmul_eqm. rewrite !(powmod_eqm _ _ N2) by lia.
      pose proof (paillier_open N (gamma N) 1 cA 0 m r beta (aS pf) 0 alpha e
                    HN He ltac:(lia) Hm ltac:(lia) Halpha) as PO.
      rewrite !Z.mul_0_r, !Z.add_0_l, !Z.pow_0_r, !Z.mul_1_l in PO.
      specialize (PO EcA Es). change (N * N) with N2 in PO.
      rewrite (Z.mul_comm (gamma N ^ (e * m + alpha))). rewrite PO.
      change (eqm N2 (cInv * powmod cA e N2) 1) in EcInv.
      rewrite (powmod_eqm _ _ N2) in EcInv by lia.
      replace (cA ^ e * (gamma N ^ alpha * beta ^ N) * cInv)
        with ((cInv * cA ^ e) * (gamma N ^ alpha * beta ^ N)) by ring.
      rewrite EcInv. apply eqm_of_eq. ring.
    - (* w = h1^s1 h2^s2 z^-e *)
      change (aS1 pf) with (e * m + alpha). change (aS2 pf) with (e * rho + gam).
      change (eqm NTilde (powmod h1 alpha NTilde * powmod h2 gam NTilde)
                (mmul NTilde (powmod h1 (e * m + alpha) NTilde) (powmod h2 (e * rho + gam) NTilde) * zInv)).
      rewrite mmul_eqm. rewrite !(powmod_eqm _ _ NTilde) by nia.
      rewrite (pedersen_open NTilde h1 h2 m rho alpha gam e (aZ pf) He Hm Hrho Halpha Hgam Ez).
      change (eqm NTilde (zInv * powmod (aZ pf) e NTilde) 1) in EzInv.
      rewrite (powmod_eqm _ _ NTilde) in EzInv by lia.
      replace (aZ pf ^ e * (h1 ^ alpha * h2 ^ gam) * zInv)
        with ((zInv * aZ pf ^ e) * (h1 ^ alpha * h2 ^ gam)) by ring.
      rewrite EzInv. apply eqm_of_eq. ring.
  Qed.

  (* the same statement for a ciphertext produced by encrypt under a good key *)
  Corollary alice_complete_key P Q NTilde h1 h2 m r cA alpha beta gam rho :
    good_key P Q -> 1 < NTilde -> Z.gcd h1 NTilde = 1 -> Z.gcd h2 NTilde = 1 -> 1 < cq c ->
    0 <= m < cq c -> in_mult_group (P * Q) r = true -> encrypt (P * Q) m r = Ok cA ->
    0 <= alpha -> in_mult_group (P * Q) beta = true -> 0 <= gam -> 0 <= rho ->
    let pf := alice_prove H c (P * Q) cA NTilde h1 h2 m r alpha beta gam rho in
    cq c <= aS1 pf -> cq c <= aS2 pf -> aS pf <> 1 -> aZ pf <> 1 -> aS1 pf <> aS2 pf ->
    aS1 pf <= q3 c ->
    alice_verify H c (P * Q) NTilde h1 h2 cA pf = Ok true.
  Proof.
    intros GK HNT Gh1 Gh2 Hq Hm Hr Enc Halpha Hbeta Hgam Hrho.
    apply in_mult_group_spec in Hr. destruct Hr as (HN & _ & Gr).
    apply in_mult_group_spec in Hbeta. destruct Hbeta as (_ & _ & Gbeta).
    unfold encrypt in Enc. destruct ((m <? 0) || negb (m <? P * Q)); [discriminate|].
    injection Enc as <-.
    apply alice_complete; assumption || lia.
  Qed.

  (* a response outside [q, q^3] is never accepted *)
  Ltac walk_false :=
    repeat match goal with
           | |- (if ?b then Ok false else _) = Ok false => destruct b eqn:?; [reflexivity|]
           end.

  Theorem alice_range_rejects N NTilde h1 h2 cA pf :
    q3 c < aS1 pf -> alice_verify H c N NTilde h1 h2 cA pf = Ok false.
  Proof.
    intros Hbig. unfold alice_verify. cbv zeta. walk_false.
    match goal with Hx : (q3 c <? aS1 pf) = false |- _ => apply Z.ltb_ge in Hx; lia end.
  Qed.

  Theorem alice_range_rejects_low N NTilde h1 h2 cA pf :
    aS1 pf < cq c -> alice_verify H c N NTilde h1 h2 cA pf = Ok false.
  Proof.
    intros Hsmall. unfold alice_verify. cbv zeta. walk_false.
    match goal with Hx : (aS1 pf <? cq c) = false |- _ => apply Z.ltb_ge in Hx; lia end.
  Qed.

  (* the verifier always returns a verdict: no panic, no divergence, no error *)
  Theorem alice_verify_total N NTilde h1 h2 cA pf :
    exists b, alice_verify H c N NTilde h1 h2 cA pf = Ok b.
  Proof.
    unfold alice_verify. cbv zeta.
    destruct (negb (is_in_interval cA (nsquare N)) || negb (Z.gcd cA (nsquare N) =? 1)) eqn:G0; [eauto|].
    destruct (negb (is_in_interval (aZ pf) NTilde)) eqn:G1; [eauto|].
    destruct (negb (is_in_interval (aU pf) (nsquare N))) eqn:G2; [eauto|].
    destruct (negb (is_in_interval (aW pf) NTilde)) eqn:G3; [eauto|].
    destruct (negb (is_in_interval (aS pf) N)) eqn:G4; [eauto|].
    destruct (negb (Z.gcd (aZ pf) NTilde =? 1)) eqn:G5; [eauto|].
    destruct (negb (Z.gcd (aU pf) (nsquare N) =? 1)) eqn:G6; [eauto|].
    destruct (negb (Z.gcd (aW pf) NTilde =? 1)) eqn:G7; [eauto|].
    destruct (aS1 pf <? cq c) eqn:G8; [eauto|].
    destruct (aS2 pf <? cq c) eqn:G9; [eauto|].
    destruct (aS pf =? 1) eqn:G10; [eauto|].
    destruct (aZ pf =? 1) eqn:G11; [eauto|].
    destruct (aS1 pf =? aS2 pf) eqn:G12; [eauto|].
    destruct (q3 c <? aS1 pf) eqn:G13; [eauto|].
    apply orb_false_iff in G0. destruct G0 as [G0a G0b].
    apply negb_false_iff in G0a, G0b, G1, G5.
    apply is_in_interval_spec in G0a, G1. apply Z.eqb_eq in G0b, G5.
    destruct (go_exp_neg_some cA (- alice_challenge H c N cA (aZ pf) (aU pf) (aW pf)) (nsquare N)
                ltac:(lia) G0b) as [cInv ->].
    destruct (go_exp_neg_some (aZ pf) (- alice_challenge H c N cA (aZ pf) (aU pf) (aW pf)) NTilde
                ltac:(lia) G5) as [zInv ->].
    destruct (negb (aU pf =? _)); eauto.
  Qed.

  Corollary alice_verify_no_panic N NTilde h1 h2 cA pf : alice_verify H c N NTilde h1 h2 cA pf <> Panic.
  Proof. destruct (alice_verify_total N NTilde h1 h2 cA pf) as [b ->]. discriminate. Qed.
  Corollary alice_verify_no_diverge N NTilde h1 h2 cA pf : alice_verify H c N NTilde h1 h2 cA pf <> Diverge.
  Proof. destruct (alice_verify_total N NTilde h1 h2 cA pf) as [b ->]. discriminate. Qed.
End Alice.

(* non-vacuity: toy parameters N = 7*11, NTilde = 5*7, h1 = 2, h2 = 3, q = 5, constant hash *)
Definition toyH : list Z -> list Z := fun _ => [3].
Definition toyC : curve := mkCurve Weier 17 0 7 5 15 13.

Example alice_complete_toy :
  alice_verify toyH toyC 77 35 2 3
    ((powmod (gamma 77) 4 (nsquare 77) * powmod 9 77 (nsquare 77)) mod nsquare 77)
    (alice_prove toyH toyC 77
       ((powmod (gamma 77) 4 (nsquare 77) * powmod 9 77 (nsquare 77)) mod nsquare 77)
       35 2 3 4 9 20 13 30 6) = Ok true.
Proof.
  apply (alice_complete toyH toyC 77 35 2 3 4 9 20 13 30 6); try lia; try reflexivity;
    vm_compute; congruence.
Qed.

Example alice_complete_key_toy :
  exists cA, encrypt (7 * 11) 4 9 = Ok cA /\
  alice_verify toyH toyC (7 * 11) 35 2 3 cA
    (alice_prove toyH toyC (7 * 11) cA 35 2 3 4 9 20 13 30 6) = Ok true.
Proof.
  eexists. split; [reflexivity|].
  apply (alice_complete_key toyH toyC 7 11 35 2 3 4 9 _ 20 13 30 6); try exact good_key_7_11;
    try lia; try reflexivity; vm_compute; try congruence; split; congruence.
Qed.

(* ====================================================================== *)
(* 4. Bob's proofs                                                         *)
(* ====================================================================== *)

(* the elliptic-curve check of ProofBobWC.Verify, as it appears inside bob_verify *)
Definition bob_ec_check (c : curve) (X U : option pt) (s1 e : Z) : Outcome bool :=
  match X, U with
  | Some X', Some U' =>
      let s1q := s1 mod cq c in
      if s1q =? 0 then Ok false
      else
        gS1 <- ec_base_mul c s1q ;;
        xe <- ec_smul c X' e ;;
        match ec_add c xe U' with
        | Ok r => Ok (pt_eqb gS1 r)
        | Err => Ok false
        | Panic => Panic | Diverge => Diverge
        end
  | Some _, None => Panic
  | None, _ => Ok true
  end.

Section Bob.
  Variable H : list Z -> list Z.
  Variable c : curve.

  Lemma bob_challenge_nonneg session ints : 0 < cq c -> 0 <= bob_challenge H c session ints.
  Proof.
    intros Hq. unfold bob_challenge, challenge. destruct (sha512_256i_tagged H session ints); [|lia].
    apply Z.mod_pos_bound. assumption.
  Qed.

  Lemma bob_verify_accepts session N NTilde h1 h2 c1 c2 pf U X :
    let N2 := nsquare N in
    let e := bob_challenge H c session
               (bob_hash_ints N X U c1 c2 (bZ pf) (bZPrm pf) (bT pf) (bV pf) (bW pf)) in
    is_in_interval (bZ pf) NTilde = true -> is_in_interval (bZPrm pf) NTilde = true ->
    is_in_interval (bT pf) NTilde = true -> is_in_interval (bV pf) N2 = true ->
    is_in_interval (bW pf) NTilde = true -> is_in_interval (bS pf) N = true ->
    Z.gcd (bZ pf) NTilde = 1 -> Z.gcd (bZPrm pf) NTilde = 1 -> Z.gcd (bT pf) NTilde = 1 ->
    Z.gcd (bV pf) N2 = 1 -> Z.gcd (bW pf) NTilde = 1 ->
    bS pf <> 0 -> Z.gcd (bS pf) N = 1 -> bV pf <> 0 -> Z.gcd (bV pf) N = 1 ->
    cq c <= bS1 pf -> cq c <= bS2 pf -> cq c <= bT1 pf -> cq c <= bT2 pf ->
    bS1 pf <= q3 c -> bT1 pf <= q7 c ->
    bob_ec_check c X U (bS1 pf) e = Ok true ->
    mmul NTilde (powmod h1 (bS1 pf) NTilde) (powmod h2 (bS2 pf) NTilde)
      = mmul NTilde (powmod (bZ pf) e NTilde) (bZPrm pf) ->
    mmul NTilde (powmod h1 (bT1 pf) NTilde) (powmod h2 (bT2 pf) NTilde)
      = mmul NTilde (powmod (bT pf) e NTilde) (bW pf) ->
    mmul N2 (mmul N2 (powmod c1 (bS1 pf) N2) (powmod (bS pf) N N2)) (powmod (gamma N) (bT1 pf) N2)
      = mmul N2 (powmod c2 e N2) (bV pf) ->
    bob_verify H c session N NTilde h1 h2 c1 c2 pf U X = Ok true.
  Proof.
    intros N2 e I1 I2 I3 I4 I5 I6 G1 G2 G3 G4 G5 D1 G6 D2 G7 L1 L2 L3 L4 R1 R2 CHK E5 E6 E7.
    unfold bob_verify. cbv zeta. fold N2. fold e.
    rewrite I1, I2, I3, I4, I5, I6, G1, G2, G3, G4, G5. rewrite Z.eqb_refl. cbn [negb].
    rewrite (proj2 (Z.eqb_neq (bS pf) 0) D1). rewrite G6. rewrite Z.eqb_refl. cbn [negb].
    rewrite (proj2 (Z.eqb_neq (bV pf) 0) D2). rewrite G7. rewrite Z.eqb_refl. cbn [negb].
    rewrite (proj2 (Z.ltb_ge (bS1 pf) (cq c)) L1).
    rewrite (proj2 (Z.ltb_ge (bS2 pf) (cq c)) L2).
    rewrite (proj2 (Z.ltb_ge (bT1 pf) (cq c)) L3).
    rewrite (proj2 (Z.ltb_ge (bT2 pf) (cq c)) L4).
    rewrite (proj2 (Z.ltb_ge (q3 c) (bS1 pf)) R1).
    rewrite (proj2 (Z.ltb_ge (q7 c) (bT1 pf)) R2).
    unfold bob_ec_check in CHK. cbv zeta in CHK. rewrite CHK. cbn [obind negb].
    rewrite E5, E6, E7. rewrite !Z.eqb_refl. reflexivity.
  Qed.

  (* completeness for both modes, relative to the elliptic-curve check *)
  Lemma bob_complete_gen session N NTilde h1 h2 c1 c2 x y r X alpha rho sigma tau rhoPrm beta gam pf u :
    1 < N -> 0 < NTilde -> Z.gcd h1 NTilde = 1 -> Z.gcd h2 NTilde = 1 -> 0 < cq c ->
    0 <= x -> 0 <= y -> Z.gcd r N = 1 ->
    Z.gcd c1 (nsquare N) = 1 ->
    eqm (nsquare N) c2 (c1 ^ x * gamma N ^ y * r ^ N) ->
    0 <= alpha -> 0 <= rho -> 0 <= sigma -> 0 <= tau -> 0 <= rhoPrm -> Z.gcd beta N = 1 -> 0 <= gam ->
    bob_prove H c session N NTilde h1 h2 c1 c2 x y r X alpha rho sigma tau rhoPrm beta gam = Ok (pf, u) ->
    let U := match X with Some _ => Some u | None => None end in
    let e := bob_challenge H c session
               (bob_hash_ints N X U c1 c2 (bZ pf) (bZPrm pf) (bT pf) (bV pf) (bW pf)) in
    bob_ec_check c X U (bS1 pf) e = Ok true ->
    cq c <= bS1 pf -> cq c <= bS2 pf -> cq c <= bT1 pf -> cq c <= bT2 pf ->
    bS1 pf <= q3 c -> bT1 pf <= q7 c ->
    bob_verify H c session N NTilde h1 h2 c1 c2 pf U X = Ok true.
  Proof.
    intros HN HNT Gh1 Gh2 Hq Hx Hy Gr Gc1 Ec2 Halpha Hrho Hsigma Htau HrhoPrm Gbeta Hgam Hp.
    unfold bob_prove in Hp. cbv zeta in Hp.
    destruct (match X with Some _ => ec_base_mul c alpha | None => Ok (Some (0, 0)) end)
      as [u0| | |] eqn:Eu; cbn [obind] in Hp; try discriminate.
    injection Hp as Epf Eu0. subst u0.
    set (N2 := nsquare N) in *.
    assert (HN2 : 1 < N2) by (unfold N2, nsquare; nia).
    intros U e CHK L1 L2 L3 L4 R1 R2.
    assert (He : 0 <= e) by (apply bob_challenge_nonneg; assumption).
    assert (N1 : 0 <= e * x + alpha) by (apply Z.add_nonneg_nonneg; [apply Z.mul_nonneg_nonneg|]; assumption).
    assert (N2' : 0 <= e * rho + rhoPrm) by (apply Z.add_nonneg_nonneg; [apply Z.mul_nonneg_nonneg|]; assumption).
    assert (N3 : 0 <= e * y + gam) by (apply Z.add_nonneg_nonneg; [apply Z.mul_nonneg_nonneg|]; assumption).
    assert (N4 : 0 <= e * sigma + tau) by (apply Z.add_nonneg_nonneg; [apply Z.mul_nonneg_nonneg|]; assumption).
    (* projections of the produced proof *)
    assert (Pz : bZ pf = mmul NTilde (powmod h1 x NTilde) (powmod h2 rho NTilde)) by (now subst pf).
    assert (Pzp : bZPrm pf = mmul NTilde (powmod h1 alpha NTilde) (powmod h2 rhoPrm NTilde)) by (now subst pf).
    assert (Pt : bT pf = mmul NTilde (powmod h1 y NTilde) (powmod h2 sigma NTilde)) by (now subst pf).
    assert (Pv : bV pf = mmul N2 (mmul N2 (powmod c1 alpha N2) (powmod (gamma N) gam N2)) (powmod beta N N2))
      by (now subst pf).
    assert (Pw : bW pf = mmul NTilde (powmod h1 gam NTilde) (powmod h2 tau NTilde)) by (now subst pf).
    assert (Ps : bS pf = mmul N (powmod r e N) beta) by (now subst pf).
    assert (Ps1 : bS1 pf = e * x + alpha) by (now subst pf).
    assert (Ps2 : bS2 pf = e * rho + rhoPrm) by (now subst pf).
    assert (Pt1 : bT1 pf = e * y + gam) by (now subst pf).
    assert (Pt2 : bT2 pf = e * sigma + tau) by (now subst pf).
    clear Epf.
    assert (Gz : Z.gcd (bZ pf) NTilde = 1).
    { rewrite Pz. apply gcd_mmul; [assumption| |]; apply gcd_powmod; assumption || lia. }
    assert (Gzp : Z.gcd (bZPrm pf) NTilde = 1).
    { rewrite Pzp. apply gcd_mmul; [assumption| |]; apply gcd_powmod; assumption || lia. }
    assert (Gt : Z.gcd (bT pf) NTilde = 1).
    { rewrite Pt. apply gcd_mmul; [assumption| |]; apply gcd_powmod; assumption || lia. }
    assert (Gw : Z.gcd (bW pf) NTilde = 1).
    { rewrite Pw. apply gcd_mmul; [assumption| |]; apply gcd_powmod; assumption || lia. }
    assert (Gv : Z.gcd (bV pf) N2 = 1).
    { rewrite Pv. apply gcd_mmul; [lia| |].
      - apply gcd_mmul; [lia| |]; apply gcd_powmod; try lia; assumption || apply gcd_gamma_N2.
      - apply gcd_powmod; try lia. now apply gcd_1_sq_r. }
    assert (Gs : Z.gcd (bS pf) N = 1).
    { rewrite Ps. apply gcd_mmul; [lia| |assumption]. apply gcd_powmod; assumption || lia. }
    assert (Ez : eqm NTilde (bZ pf) (h1 ^ x * h2 ^ rho)).
    { rewrite Pz, mmul_eqm. rewrite !(powmod_eqm _ _ NTilde) by lia. reflexivity. }
    assert (Et : eqm NTilde (bT pf) (h1 ^ y * h2 ^ sigma)).
    { rewrite Pt, mmul_eqm. rewrite !(powmod_eqm _ _ NTilde) by lia. reflexivity. }
    assert (Es : eqm N (bS pf) (r ^ e * beta)).
    { rewrite Ps, mmul_eqm. rewrite (powmod_eqm _ _ N) by lia. reflexivity. }
    apply bob_verify_accepts; try assumption; fold N2; fold U; fold e.
    - apply is_in_interval_true. rewrite Pz. now apply mmul_range.
    - apply is_in_interval_true. rewrite Pzp. now apply mmul_range.
    - apply is_in_interval_true. rewrite Pt. now apply mmul_range.
    - apply is_in_interval_true. rewrite Pv. apply mmul_range. lia.
    - apply is_in_interval_true. rewrite Pw. now apply mmul_range.
    - apply is_in_interval_true. rewrite Ps. apply mmul_range. lia.
    - apply (unit_nonzero _ N); assumption.
    - apply (unit_nonzero _ N2); assumption.
    - apply gcd_sq_to_base. exact Gv.
    - (* h1^s1 h2^s2 = z^e z' *)
      rewrite Ps1, Ps2.
      change (eqm NTilde (powmod h1 (e * x + alpha) NTilde * powmod h2 (e * rho + rhoPrm) NTilde)
                (powmod (bZ pf) e NTilde * bZPrm pf)).
      rewrite !(powmod_eqm _ _ NTilde) by lia.
      rewrite (pedersen_open NTilde h1 h2 x rho alpha rhoPrm e (bZ pf) He Hx Hrho Halpha HrhoPrm Ez).
      rewrite Pzp, mmul_eqm. rewrite !(powmod_eqm _ _ NTilde) by lia. reflexivity.
    - (* h1^t1 h2^t2 = t^e w *)
      rewrite Pt1, Pt2.
      change (eqm NTilde (powmod h1 (e * y + gam) NTilde * powmod h2 (e * sigma + tau) NTilde)
                (powmod (bT pf) e NTilde * bW pf)).
      rewrite !(powmod_eqm _ _ NTilde) by lia.
      rewrite (pedersen_open NTilde h1 h2 y sigma gam tau e (bT pf) He Hy Hsigma Hgam Htau Et).
      rewrite Pw, mmul_eqm. rewrite !(powmod_eqm _ _ NTilde) by lia. reflexivity.
    - (* c1^s1 s^N gamma^t1 = c2^e v *)
      rewrite Ps1, Pt1.
      change (eqm N2 (mmul N2 (powmod c1 (e * x + alpha) N2) (powmod (bS pf) N N2)
                      * powmod (gamma N) (e * y + gam) N2)
                (powmod c2 e N2 * bV pf)).
      rewrite mmul_eqm. rewrite !(powmod_eqm _ _ N2) by lia.
      pose proof (paillier_open N (gamma N) c1 c2 x y r beta (bS pf) alpha gam e
                    ltac:(lia) He Hx Hy Halpha Hgam Ec2 Es) as PO.
      change (N * N) with N2 in PO. rewrite PO.
      rewrite Pv, !mmul_eqm. rewrite !(powmod_eqm _ _ N2) by lia. reflexivity.
  Qed.

  (* C11, proof without check (ProofBob): honest proofs are accepted *)
  Theorem bob_complete session N NTilde h1 h2 c1 c2 x y r alpha rho sigma tau rhoPrm beta gam pf u U :
    1 < N -> 0 < NTilde -> Z.gcd h1 NTilde = 1 -> Z.gcd h2 NTilde = 1 -> 0 < cq c ->
    0 <= x -> 0 <= y -> Z.gcd r N = 1 ->
    Z.gcd c1 (nsquare N) = 1 ->
    eqm (nsquare N) c2 (c1 ^ x * gamma N ^ y * r ^ N) ->
    0 <= alpha -> 0 <= rho -> 0 <= sigma -> 0 <= tau -> 0 <= rhoPrm -> Z.gcd beta N = 1 -> 0 <= gam ->
    bob_prove H c session N NTilde h1 h2 c1 c2 x y r None alpha rho sigma tau rhoPrm beta gam = Ok (pf, u) ->
    cq c <= bS1 pf -> cq c <= bS2 pf -> cq c <= bT1 pf -> cq c <= bT2 pf ->
    bS1 pf <= q3 c -> bT1 pf <= q7 c ->
    bob_verify H c session N NTilde h1 h2 c1 c2 pf U None = Ok true.
  Proof.
    intros HN HNT Gh1 Gh2 Hq Hx Hy Gr Gc1 Ec2 Halpha Hrho Hsigma Htau HrhoPrm Gbeta Hgam Hp
           L1 L2 L3 L4 R1 R2.
    pose proof (bob_complete_gen session N NTilde h1 h2 c1 c2 x y r None alpha rho sigma tau rhoPrm
                  beta gam pf u HN HNT Gh1 Gh2 Hq Hx Hy Gr Gc1 Ec2 Halpha Hrho Hsigma Htau HrhoPrm
                  Gbeta Hgam Hp eq_refl L1 L2 L3 L4 R1 R2) as V.
    cbv zeta in V. rewrite <- V. destruct U; reflexivity.
  Qed.

  Ltac walk_false_b :=
    repeat match goal with
           | |- (if ?b then Ok false else _) = Ok false => destruct b eqn:?; [reflexivity|]
           end.

  (* responses beyond q^3 (resp. q^7) or below q are never accepted, in either mode *)
  Theorem bob_range_rejects_s1 session N NTilde h1 h2 c1 c2 pf U X :
    q3 c < bS1 pf -> bob_verify H c session N NTilde h1 h2 c1 c2 pf U X = Ok false.
  Proof.
    intros Hbig. unfold bob_verify. cbv zeta. walk_false_b.
    match goal with Hx : (q3 c <? bS1 pf) = false |- _ => apply Z.ltb_ge in Hx; lia end.
  Qed.

  Theorem bob_range_rejects_t1 session N NTilde h1 h2 c1 c2 pf U X :
    q7 c < bT1 pf -> bob_verify H c session N NTilde h1 h2 c1 c2 pf U X = Ok false.
  Proof.
    intros Hbig. unfold bob_verify. cbv zeta. walk_false_b.
    match goal with Hx : (q7 c <? bT1 pf) = false |- _ => apply Z.ltb_ge in Hx; lia end.
  Qed.

  Theorem bob_range_rejects_low session N NTilde h1 h2 c1 c2 pf U X :
    bS1 pf < cq c \/ bS2 pf < cq c \/ bT1 pf < cq c \/ bT2 pf < cq c ->
    bob_verify H c session N NTilde h1 h2 c1 c2 pf U X = Ok false.
  Proof.
    intros Hsmall. unfold bob_verify. cbv zeta. walk_false_b.
    repeat match goal with Hx : (_ <? _) = false |- _ => apply Z.ltb_ge in Hx end. lia.
  Qed.

  Lemma bob_ec_check_no_diverge X U s1 e : bob_ec_check c X U s1 e <> Diverge.
  Proof.
    unfold bob_ec_check. destruct X as [X'|]; [|discriminate]. destruct U as [U'|]; [|discriminate].
    cbv zeta. destruct (s1 mod cq c =? 0); [discriminate|].
    unfold ec_base_mul, ec_smul, ec_add.
    destruct (representable (@gmul (curve_group c) (Z.abs (s1 mod cq c)) (base c))); [|discriminate]. cbn [obind].
    destruct (representable (@gmul (curve_group c) (Z.abs e) X')); [|discriminate]. cbn [obind].
    destruct (representable _); discriminate.
  Qed.

  Lemma bob_verify_shape session N NTilde h1 h2 c1 c2 pf U X :
    bob_verify H c session N NTilde h1 h2 c1 c2 pf U X = Ok false \/
    exists b1 b2 b3,
      bob_verify H c session N NTilde h1 h2 c1 c2 pf U X =
      (chk <- bob_ec_check c X U (bS1 pf)
                (bob_challenge H c session
                   (bob_hash_ints N X U c1 c2 (bZ pf) (bZPrm pf) (bT pf) (bV pf) (bW pf))) ;;
       if negb chk then Ok false else if negb b1 then Ok false else if negb b2 then Ok false else Ok b3).
  Proof.
    unfold bob_verify. cbv zeta.
    repeat match goal with
           | |- (if ?b then Ok false else _) = Ok false \/ _ => destruct b; [left; reflexivity|]
           end.
    right. eexists _, _, _. reflexivity.
  Qed.

  Theorem bob_verify_no_diverge session N NTilde h1 h2 c1 c2 pf U X :
    bob_verify H c session N NTilde h1 h2 c1 c2 pf U X <> Diverge.
  Proof.
    destruct (bob_verify_shape session N NTilde h1 h2 c1 c2 pf U X) as [->|(b1 & b2 & b3 & ->)];
      [discriminate|].
    pose proof (bob_ec_check_no_diverge X U (bS1 pf)
                  (bob_challenge H c session
                     (bob_hash_ints N X U c1 c2 (bZ pf) (bZPrm pf) (bT pf) (bV pf) (bW pf)))) as ND.
    destruct (bob_ec_check _ _ _ _ _) as [chk| | |]; cbn [obind]; try discriminate; [|congruence].
    destruct (negb chk); [discriminate|]. destruct (negb b1); [discriminate|].
    destruct (negb b2); discriminate.
  Qed.

  (* the proof without check always yields a verdict *)
  Theorem bob_verify_total session N NTilde h1 h2 c1 c2 pf U :
    exists b, bob_verify H c session N NTilde h1 h2 c1 c2 pf U None = Ok b.
  Proof.
    destruct (bob_verify_shape session N NTilde h1 h2 c1 c2 pf U None) as [->|(b1 & b2 & b3 & ->)];
      [eauto|].
    cbn [bob_ec_check obind negb].
    destruct (negb b1); [eauto|]. destruct (negb b2); eauto.
  Qed.

  Corollary bob_verify_no_panic session N NTilde h1 h2 c1 c2 pf U :
    bob_verify H c session N NTilde h1 h2 c1 c2 pf U None <> Panic.
  Proof. destruct (bob_verify_total session N NTilde h1 h2 c1 c2 pf U) as [b ->]. discriminate. Qed.

  (* in the with-check mode a missing U is a nil dereference: the model panics *)
  Lemma bob_verify_wc_missing_U_shape session N NTilde h1 h2 c1 c2 pf X' :
    bob_verify H c session N NTilde h1 h2 c1 c2 pf None (Some X') = Ok false \/
    bob_verify H c session N NTilde h1 h2 c1 c2 pf None (Some X') = Panic.
  Proof.
    destruct (bob_verify_shape session N NTilde h1 h2 c1 c2 pf None (Some X')) as [->|(b1 & b2 & b3 & ->)];
      [now left|]. right. reflexivity.
  Qed.
End Bob.

(* ====================================================================== *)
(* 5. the share conversion (C13)                                           *)
(* ====================================================================== *)

Section Conversion.
  Variable H : list Z -> list Z.
  Variable c : curve.

  Lemma encrypt_ok_range N m x cm : encrypt N m x = Ok cm -> 0 <= m < N.
  Proof.
    intros E. destruct (Z_lt_dec m 0) as [Hlt|Hge].
    - rewrite (proj2 (encrypt_domain N m x) (or_introl Hlt)) in E. discriminate.
    - destruct (Z_le_dec N m) as [Hle|Hgt]; [|lia].
      rewrite (proj2 (encrypt_domain N m x) (or_intror Hle)) in E. discriminate.
  Qed.

  Lemma homo_mult_ok_range N m c1 cm : homo_mult N m c1 = Ok cm -> 0 <= m < N.
  Proof.
    intros E. destruct (Z_lt_dec m 0) as [Hlt|Hge].
    - rewrite (proj2 (homo_mult_domain N m c1) (or_introl Hlt)) in E. discriminate.
    - destruct (Z_le_dec N m) as [Hle|Hgt]; [|lia].
      rewrite (proj2 (homo_mult_domain N m c1) (or_intror (or_introl Hle))) in E. discriminate.
  Qed.

  (* what Bob's message contains when bob_mid succeeds *)
  Lemma bob_mid_ok session N pfA b cA NTildeA h1A h2A NTildeB h1B h2B B betaPrm xB
        alpha rho sigma tau rhoPrm beta gam bet cB betaPrm' pfB U :
    bob_mid H c session N pfA b cA NTildeA h1A h2A NTildeB h1B h2B B betaPrm xB
            alpha rho sigma tau rhoPrm beta gam = Ok (bet, cB, betaPrm', pfB, U) ->
    alice_verify H c N NTildeB h1B h2B cA pfA = Ok true /\
    (exists cBetaPrm cB1, encrypt N betaPrm xB = Ok cBetaPrm /\ homo_mult N b cA = Ok cB1 /\
                          homo_add N cB1 cBetaPrm = Ok cB) /\
    bet = (0 - betaPrm) mod cq c /\ betaPrm' = betaPrm /\
    bob_prove H c session N NTildeA h1A h2A cA cB b betaPrm xB B alpha rho sigma tau rhoPrm beta gam
      = Ok (pfB, U).
  Proof.
    unfold bob_mid. intros HB.
    destruct (alice_verify H c N NTildeB h1B h2B cA pfA) as [v| | |]; cbn [obind] in HB; try discriminate.
    destruct v; cbn [negb] in HB; [|discriminate].
    destruct (encrypt N betaPrm xB) as [cBetaPrm| | |] eqn:EB; cbn [obind] in HB; try discriminate.
    destruct (homo_mult N b cA) as [cB1| | |] eqn:EM; cbn [obind] in HB; try discriminate.
    destruct (homo_add N cB1 cBetaPrm) as [cB0| | |] eqn:EAd; cbn [obind] in HB; try discriminate.
    destruct (bob_prove H c session N NTildeA h1A h2A cA cB0 b betaPrm xB B alpha rho sigma tau rhoPrm beta gam)
      as [[pf0 u0]| | |] eqn:EP; cbn [obind fst snd] in HB; try discriminate.
    injection HB as <- <- <- <- <-.
    split; [reflexivity|]. split; [eauto|]. repeat split; assumption.
  Qed.

  (* C13: alpha + beta = a * b (mod q) whenever the three steps succeed *)
  Theorem mta_correct P Q a xA NTildeB h1B h2B alphaA betaA gamA rhoA cA pfA
          session b NTildeA h1A h2A B betaPrm xB alpha rho sigma tau rhoPrm beta gam
          bet cB betaPrm' pfB U session' pf' U' B' alph :
    good_key P Q ->
    in_mult_group (P * Q) xA = true -> in_mult_group (P * Q) xB = true ->
    a * b + betaPrm < P * Q ->
    alice_init H c (P * Q) a xA NTildeB h1B h2B alphaA betaA gamA rhoA = Ok (cA, pfA) ->
    bob_mid H c session (P * Q) pfA b cA NTildeA h1A h2A NTildeB h1B h2B B betaPrm xB
            alpha rho sigma tau rhoPrm beta gam = Ok (bet, cB, betaPrm', pfB, U) ->
    alice_end H c session' (key_of_primes P Q) pf' U' B' cA cB NTildeA h1A h2A = Ok alph ->
    (alph + bet) mod cq c = (a * b) mod cq c /\ betaPrm' = betaPrm /\
    decrypt (key_of_primes P Q) cB = Ok (a * b + betaPrm).
  Proof.
    intros GK HxA HxB Hsmall HA HB HE.
    apply in_mult_group_spec in HxA. destruct HxA as (HN & _ & GxA).
    apply in_mult_group_spec in HxB. destruct HxB as (_ & _ & GxB).
    (* Alice's first message *)
    unfold alice_init in HA.
    destruct (encrypt (P * Q) a xA) as [cA0| | |] eqn:EA; cbn [obind] in HA; try discriminate.
    injection HA as -> _.
    pose proof (encrypt_ok_range _ _ _ _ EA) as Ra.
    destruct (encrypt_shape (P * Q) a xA Ra GxA) as (cA1 & EA1 & ScA).
    rewrite EA in EA1. injection EA1 as <-.
    (* Bob's message *)
    apply bob_mid_ok in HB.
    destruct HB as (_ & (cBetaPrm & cB1 & EB & EM & EAd) & -> & -> & _).
    pose proof (encrypt_ok_range _ _ _ _ EB) as Rbp.
    pose proof (homo_mult_ok_range _ _ _ _ EM) as Rb.
    destruct (encrypt_shape (P * Q) betaPrm xB Rbp GxB) as (cb' & EB1 & Scb).
    rewrite EB in EB1. injection EB1 as <-.
    destruct (homo_mult_shape (P * Q) a xA cA b HN Rb ScA) as (cB1' & EM1 & ScB1).
    rewrite EM in EM1. injection EM1 as <-.
    destruct (homo_add_shape (P * Q) _ _ cB1 _ _ cBetaPrm HN ScB1 Scb) as (cB' & EAd1 & ScB).
    rewrite EAd in EAd1. injection EAd1 as <-.
    pose proof (decrypt_shape P Q GK _ _ cB ScB) as ED.
    assert (Eval : (b * a + betaPrm) mod (P * Q) = a * b + betaPrm).
    { rewrite (Z.mul_comm b a). apply Z.mod_small. nia. }
    rewrite Eval in ED.
    (* Alice's last step *)
    unfold alice_end in HE.
    destruct (bob_verify H c session' (skN (key_of_primes P Q)) NTildeA h1A h2A cA cB pf' U' B')
      as [v| | |]; cbn [obind] in HE; try discriminate.
    destruct (negb v); [discriminate|].
    rewrite ED in HE. cbn [obind] in HE. injection HE as <-.
    split; [|split; [reflexivity|exact ED]].
    change (eqm (cq c) ((a * b + betaPrm) mod cq c + (0 - betaPrm) mod cq c) (a * b)).
    rewrite !eqm_mod. apply eqm_of_eq. ring.
  Qed.

  (* the bound used by the protocol: a, b < q, beta' < q^5 and q^2 + q^5 <= N exclude wrap-around *)
  Corollary mta_correct_bounds P Q a xA NTildeB h1B h2B alphaA betaA gamA rhoA cA pfA
          session b NTildeA h1A h2A B betaPrm xB alpha rho sigma tau rhoPrm beta gam
          bet cB betaPrm' pfB U alph :
    good_key P Q ->
    0 <= a < cq c -> 0 <= b < cq c -> 0 <= betaPrm < q5 c -> cq c * cq c + q5 c <= P * Q ->
    in_mult_group (P * Q) xA = true -> in_mult_group (P * Q) xB = true ->
    alice_init H c (P * Q) a xA NTildeB h1B h2B alphaA betaA gamA rhoA = Ok (cA, pfA) ->
    bob_mid H c session (P * Q) pfA b cA NTildeA h1A h2A NTildeB h1B h2B B betaPrm xB
            alpha rho sigma tau rhoPrm beta gam = Ok (bet, cB, betaPrm', pfB, U) ->
    alice_end H c session (key_of_primes P Q) pfB
              (match B with Some _ => Some U | None => None end) B cA cB NTildeA h1A h2A = Ok alph ->
    (alph + bet) mod cq c = (a * b) mod cq c.
  Proof.
    intros GK Ha Hb Hbp Hbound HxA HxB HA HB HE.
    assert (Hsmall : a * b + betaPrm < P * Q) by nia.
    exact (proj1 (mta_correct P Q a xA NTildeB h1B h2B alphaA betaA gamA rhoA cA pfA
                    session b NTildeA h1A h2A B betaPrm xB alpha rho sigma tau rhoPrm beta gam
                    bet cB betaPrm' pfB U session pfB _ B alph GK HxA HxB Hsmall HA HB HE)).
  Qed.
End Conversion.

(* ---------- completeness of the conversion: honest runs go through ---------- *)

Section ConversionComplete.
  Variable H : list Z -> list Z.
  Variable c : curve.

  (* an accepted range proof certifies that cA is a canonical unit modulo N^2 *)
  Lemma alice_verify_true_cA N NTilde h1 h2 cA pf :
    alice_verify H c N NTilde h1 h2 cA pf = Ok true ->
    0 <= cA < nsquare N /\ Z.gcd cA (nsquare N) = 1.
  Proof.
    unfold alice_verify. cbv zeta.
    destruct (negb (is_in_interval cA (nsquare N)) || negb (Z.gcd cA (nsquare N) =? 1)) eqn:G0;
      [discriminate|]. intros _.
    apply orb_false_iff in G0. destruct G0 as [G0a G0b].
    apply negb_false_iff in G0a, G0b. apply is_in_interval_spec in G0a. apply Z.eqb_eq in G0b.
    split; assumption.
  Qed.

  (* Bob's ciphertext is cA^b * gamma^beta' * xB^N modulo N^2 *)
  Lemma mid_ciphertext_shape N b cA betaPrm xB cBp cB1 cB :
    0 < N ->
    encrypt N betaPrm xB = Ok cBp -> homo_mult N b cA = Ok cB1 -> homo_add N cB1 cBp = Ok cB ->
    eqm (nsquare N) cB (cA ^ b * gamma N ^ betaPrm * xB ^ N) /\
    0 <= b < N /\ 0 <= betaPrm < N /\ 0 <= cB < nsquare N.
  Proof.
    intros HN EB EM EAd.
    pose proof (encrypt_ok_range _ _ _ _ EB) as Rbp.
    pose proof (homo_mult_ok_range _ _ _ _ EM) as Rb.
    assert (HN2 : 0 < nsquare N) by (unfold nsquare; nia).
    unfold encrypt in EB. destruct ((betaPrm <? 0) || negb (betaPrm <? N)); [discriminate|].
    injection EB as <-.
    unfold homo_mult in EM. destruct ((b <? 0) || negb (b <? N)); [discriminate|].
    cbv zeta in EM. destruct ((cA <? 0) || negb (cA <? nsquare N)); [discriminate|].
    injection EM as <-.
    unfold homo_add in EAd. cbv zeta in EAd.
    destruct ((powmod cA b (nsquare N) <? 0) || negb (powmod cA b (nsquare N) <? nsquare N));
      [discriminate|].
    destruct (_ || _) in EAd; [discriminate|]. injection EAd as <-.
    split; [|split; [assumption|split; [assumption|apply Z.mod_pos_bound; assumption]]].
    rewrite eqm_mod. rewrite (eqm_mod (nsquare N) (_ * _)).
    rewrite !(powmod_eqm _ _ (nsquare N)) by lia. apply eqm_of_eq. ring.
  Qed.

  (* Bob's proof without check produced inside bob_mid is accepted by Alice, and alice_end
     returns a share; together with mta_correct this is the honest-run correctness of C13 *)
  Theorem bob_mid_proof_accepted P Q session pfA b cA NTildeA h1A h2A NTildeB h1B h2B betaPrm xB
          alpha rho sigma tau rhoPrm beta gam bet cB betaPrm' pfB U :
    good_key P Q -> 0 < NTildeA -> Z.gcd h1A NTildeA = 1 -> Z.gcd h2A NTildeA = 1 -> 0 < cq c ->
    in_mult_group (P * Q) xB = true ->
    0 <= alpha -> 0 <= rho -> 0 <= sigma -> 0 <= tau -> 0 <= rhoPrm ->
    in_mult_group (P * Q) beta = true -> 0 <= gam ->
    bob_mid H c session (P * Q) pfA b cA NTildeA h1A h2A NTildeB h1B h2B None betaPrm xB
            alpha rho sigma tau rhoPrm beta gam = Ok (bet, cB, betaPrm', pfB, U) ->
    cq c <= bS1 pfB -> cq c <= bS2 pfB -> cq c <= bT1 pfB -> cq c <= bT2 pfB ->
    bS1 pfB <= q3 c -> bT1 pfB <= q7 c ->
    bob_verify H c session (P * Q) NTildeA h1A h2A cA cB pfB None None = Ok true /\
    exists alph, alice_end H c session (key_of_primes P Q) pfB None None cA cB NTildeA h1A h2A = Ok alph.
  Proof.
    intros GK HNT Gh1 Gh2 Hq HxB Halpha Hrho Hsigma Htau HrhoPrm Hbeta Hgam HB L1 L2 L3 L4 R1 R2.
    pose proof (gk_N_gt1 P Q GK) as HN.
    apply in_mult_group_spec in HxB. destruct HxB as (_ & _ & GxB).
    apply in_mult_group_spec in Hbeta. destruct Hbeta as (_ & _ & Gbeta).
    apply bob_mid_ok in HB.
    destruct HB as (AV & (cBp & cB1 & EB & EM & EAd) & _ & _ & HP).
    destruct (alice_verify_true_cA _ _ _ _ _ _ AV) as [RcA GcA].
    destruct (mid_ciphertext_shape (P * Q) b cA betaPrm xB cBp cB1 cB ltac:(lia) EB EM EAd)
      as (Shape & Rb & Rbp & RcB).
    assert (V : bob_verify H c session (P * Q) NTildeA h1A h2A cA cB pfB None None = Ok true).
    { apply (bob_complete H c session (P * Q) NTildeA h1A h2A cA cB b betaPrm xB
               alpha rho sigma tau rhoPrm beta gam pfB U None); try assumption; lia. }
    split; [exact V|].
    unfold alice_end. change (skN (key_of_primes P Q)) with (P * Q). rewrite V. cbn [obind negb].
    assert (GcB : Z.gcd cB (nsquare (P * Q)) = 1).
    { assert (NZ : nsquare (P * Q) <> 0) by (unfold nsquare; nia).
      rewrite (gcd_eqm (nsquare (P * Q)) cB _ NZ Shape).
      apply gcd_1_mul_l; [apply gcd_1_mul_l|].
      - apply gcd_1_pow_l; [lia|assumption].
      - apply gcd_1_pow_l; [lia|apply gcd_gamma_N2].
      - apply gcd_1_pow_l; [lia|]. now apply gcd_1_sq_r. }
    destruct (decrypt (key_of_primes P Q) cB) as [a'| | |] eqn:ED; cbn [obind].
    - eauto.
    - exfalso. apply decrypt_domain in ED. change (skN (key_of_primes P Q)) with (P * Q) in ED. lia.
    - exfalso. exact (decrypt_no_panic P Q cB GK ED).
    - exfalso. exact (decrypt_no_diverge _ _ ED).
  Qed.
End ConversionComplete.

(* ====================================================================== *)
(* 6. the challenge pre-images contain the ciphertexts                      *)
(* ====================================================================== *)

Theorem bob_preimage_binds_ciphertexts N X U c1 c2 c1' c2' z zp t v w :
  bob_hash_ints N X U c1 c2 z zp t v w = bob_hash_ints N X U c1' c2' z zp t v w ->
  c1 = c1' /\ c2 = c2'.
Proof.
  unfold bob_hash_ints. intros E.
  destruct X as [X'|]; [destruct U as [U'|]|].
  - apply app_inv_head in E. apply app_inv_head in E.
    cbn [app] in E. inversion E. split; reflexivity.
  - apply app_inv_head in E. inversion E. split; reflexivity.
  - apply app_inv_head in E. inversion E. split; reflexivity.
Qed.

(* full injectivity of Bob's pre-image in the proof-dependent fields *)
Theorem bob_preimage_inj N X U c1 c2 c1' c2' z zp t v w z' zp' t' v' w' :
  bob_hash_ints N X U c1 c2 z zp t v w = bob_hash_ints N X U c1' c2' z' zp' t' v' w' ->
  c1 = c1' /\ c2 = c2' /\ z = z' /\ zp = zp' /\ t = t' /\ v = v' /\ w = w'.
Proof.
  unfold bob_hash_ints. intros E.
  destruct X as [X'|]; [destruct U as [U'|]|].
  - apply app_inv_head in E. apply app_inv_head in E.
    cbn [app] in E. inversion E as [[E1 E2 E3]]. apply app_inv_head in E3.
    inversion E3. repeat split; reflexivity.
  - apply app_inv_head in E. inversion E. repeat split; reflexivity.
  - apply app_inv_head in E. inversion E. repeat split; reflexivity.
Qed.

Theorem alice_preimage_inj N cA cA' z u w z' u' w' :
  pk_as_ints N ++ [cA; z; u; w] = pk_as_ints N ++ [cA'; z'; u'; w'] ->
  cA = cA' /\ z = z' /\ u = u' /\ w = w'.
Proof.
  intros E. apply app_inv_head in E. inversion E. repeat split; reflexivity.
Qed.

(* the requested name: tampering with c1, c2 (resp. cA) changes the hashed pre-image *)
Theorem mta_tamper_changes_preimage :
  (forall N X U c1 c2 c1' c2' z zp t v w,
      (c1 <> c1' \/ c2 <> c2') ->
      bob_hash_ints N X U c1 c2 z zp t v w <> bob_hash_ints N X U c1' c2' z zp t v w) /\
  (forall N cA cA' z u w, cA <> cA' ->
      pk_as_ints N ++ [cA; z; u; w] <> pk_as_ints N ++ [cA'; z; u; w]).
Proof.
  split.
  - intros N X U c1 c2 c1' c2' z zp t v w Hne E.
    apply bob_preimage_binds_ciphertexts in E. destruct E as [-> ->]. destruct Hne; congruence.
  - intros N cA cA' z u w Hne E. apply alice_preimage_inj in E. destruct E as [-> _]. congruence.
Qed.

(* ====================================================================== *)
(* 7. non-vacuity on toy parameters                                        *)
(* ====================================================================== *)

Example prime_83 : prime 83.
Proof. apply prime_check_sound. vm_compute. reflexivity. Qed.

Example good_key_59_83 : good_key 59 83.
Proof.
  split; [exact prime_59|]. split; [exact prime_83|]. split; [lia|]. vm_compute. reflexivity.
Qed.

(* Bob's proof without check: N = 77, c1 = Enc(4; 9), x = 2, y = 3, r = 10 *)
Definition toy_c1 : Z := Eval vm_compute in
  (powmod (gamma 77) 4 (nsquare 77) * powmod 9 77 (nsquare 77)) mod nsquare 77.
Definition toy_c2 : Z := Eval vm_compute in
  (powmod toy_c1 2 (nsquare 77) * ((powmod (gamma 77) 3 (nsquare 77) * powmod 10 77 (nsquare 77)) mod nsquare 77))
    mod nsquare 77.
Definition toy_bob : bob_pf * pt := Eval vm_compute in
  match bob_prove toyH toyC [1] 77 35 2 3 toy_c1 toy_c2 2 3 10 None 20 6 7 8 9 13 40 with
  | Ok p => p | _ => (mkBob 0 0 0 0 0 0 0 0 0 0, None)
  end.

Example bob_complete_toy :
  bob_prove toyH toyC [1] 77 35 2 3 toy_c1 toy_c2 2 3 10 None 20 6 7 8 9 13 40 = Ok toy_bob /\
  bob_verify toyH toyC [1] 77 35 2 3 toy_c1 toy_c2 (fst toy_bob) None None = Ok true.
Proof.
  split; [vm_compute; reflexivity|].
  apply (bob_complete toyH toyC [1] 77 35 2 3 toy_c1 toy_c2 2 3 10 20 6 7 8 9 13 40
           (fst toy_bob) (snd toy_bob) None); try lia; try reflexivity;
    vm_compute; congruence.
Qed.

(* the share conversion: N = 59*83 = 4897 >= q^2 + q^5 = 3150 for q = 5; a = 3, b = 4, beta' = 101 *)
Definition toy_init : Z * alice_pf := Eval vm_compute in
  match alice_init toyH toyC (59 * 83) 3 7 35 2 3 20 13 30 6 with
  | Ok p => p | _ => (0, mkAlice 0 0 0 0 0 0)
  end.
Definition toy_mid : Z * Z * Z * bob_pf * pt := Eval vm_compute in
  match bob_mid toyH toyC [1] (59 * 83) (snd toy_init) 4 (fst toy_init) 39 2 5 35 2 3 None 101 11
                20 6 7 8 9 13 40 with
  | Ok p => p | _ => (0, 0, 0, mkBob 0 0 0 0 0 0 0 0 0 0, None)
  end.

Example mta_correct_toy :
  let '(bet, cB, betaPrm', pfB, U) := toy_mid in
  exists alph,
    alice_init toyH toyC (59 * 83) 3 7 35 2 3 20 13 30 6 = Ok toy_init /\
    bob_mid toyH toyC [1] (59 * 83) (snd toy_init) 4 (fst toy_init) 39 2 5 35 2 3 None 101 11
            20 6 7 8 9 13 40 = Ok toy_mid /\
    alice_end toyH toyC [1] (key_of_primes 59 83) pfB None None (fst toy_init) cB 39 2 5 = Ok alph /\
    (alph + bet) mod 5 = (3 * 4) mod 5.
Proof.
  cbv beta iota delta [toy_mid].
  assert (EA : alice_init toyH toyC (59 * 83) 3 7 35 2 3 20 13 30 6 = Ok toy_init)
    by (vm_compute; reflexivity).
  assert (EB : bob_mid toyH toyC [1] (59 * 83) (snd toy_init) 4 (fst toy_init) 39 2 5 35 2 3 None 101 11
                       20 6 7 8 9 13 40 = Ok toy_mid) by (vm_compute; reflexivity).
  unfold toy_mid in EB.
  match type of EB with _ = Ok (?bet, ?cB, ?bp, ?pfB, ?U) =>
    destruct (alice_end toyH toyC [1] (key_of_primes 59 83) pfB None None (fst toy_init) cB 39 2 5)
      as [alph| | |] eqn:EE; [|vm_compute in EE; discriminate ..];
    exists alph; split; [exact EA|]; split; [exact EB|]; split; [reflexivity|];
    apply (mta_correct_bounds toyH toyC 59 83 3 7 35 2 3 20 13 30 6 (fst toy_init) (snd toy_init)
             [1] 4 39 2 5 None 101 11 20 6 7 8 9 13 40 bet cB bp pfB U alph good_key_59_83);
      try (vm_compute; intuition congruence); try exact EE
  end.
Qed.

(* the honest toy run also goes through bob_mid_proof_accepted *)
Example bob_mid_proof_accepted_toy :
  let '(bet, cB, betaPrm', pfB, U) := toy_mid in
  bob_verify toyH toyC [1] (59 * 83) 39 2 5 (fst toy_init) cB pfB None None = Ok true /\
  exists alph, alice_end toyH toyC [1] (key_of_primes 59 83) pfB None None (fst toy_init) cB 39 2 5 = Ok alph.
Proof.
  assert (EB : bob_mid toyH toyC [1] (59 * 83) (snd toy_init) 4 (fst toy_init) 39 2 5 35 2 3 None 101 11
                       20 6 7 8 9 13 40 = Ok toy_mid) by (vm_compute; reflexivity).
  unfold toy_mid in *.
  match type of EB with _ = Ok (?bet, ?cB, ?bp, ?pfB, ?U) =>
    apply (bob_mid_proof_accepted toyH toyC 59 83 [1] (snd toy_init) 4 (fst toy_init) 39 2 5 35 2 3 101 11
             20 6 7 8 9 13 40 bet cB bp pfB U good_key_59_83); try exact EB; try lia; try reflexivity;
      vm_compute; congruence
  end.
Qed.

(* range rejection on a concrete out-of-range response: s1 = q^3 + 1 = 126, t1 = q^7 + 1 *)
Example alice_range_rejects_toy :
  alice_verify toyH toyC 77 35 2 3 toy_c1 (mkAlice 11 12 13 14 126 20) = Ok false /\
  alice_verify toyH toyC 77 35 2 3 toy_c1 (mkAlice 11 12 13 14 4 20) = Ok false.
Proof.
  split; [apply alice_range_rejects|apply alice_range_rejects_low]; vm_compute; reflexivity.
Qed.

Example bob_range_rejects_toy :
  bob_verify toyH toyC [1] 77 35 2 3 toy_c1 toy_c2 (mkBob 1 2 3 4 5 6 126 20 30 40) None None = Ok false /\
  bob_verify toyH toyC [1] 77 35 2 3 toy_c1 toy_c2 (mkBob 1 2 3 4 5 6 100 20 78126 40) None None = Ok false.
Proof.
  split; [apply bob_range_rejects_s1|apply bob_range_rejects_t1]; vm_compute; reflexivity.
Qed.

Print Assumptions alice_complete.
Print Assumptions alice_complete_key.
Print Assumptions alice_range_rejects.
Print Assumptions alice_range_rejects_low.
Print Assumptions alice_verify_total.
Print Assumptions bob_complete.
Print Assumptions bob_range_rejects_s1.
Print Assumptions bob_range_rejects_t1.
Print Assumptions bob_range_rejects_low.
Print Assumptions bob_verify_no_diverge.
Print Assumptions bob_verify_total.
Print Assumptions mta_correct.
Print Assumptions mta_correct_bounds.
Print Assumptions bob_mid_proof_accepted.
Print Assumptions mta_tamper_changes_preimage.
Print Assumptions bob_preimage_inj.
Print Assumptions go_exp_neg_spec.
Print Assumptions eqm_unit_cancel_l.
Print Assumptions mta_correct_toy.
