(* Properties C10/C11/C12: the Schnorr proofs of Model/Schnorr.v
   (crypto/schnorr) over a concrete curve [c] satisfying [curve_laws c]
   (Proofs/CurveLawsProofs.v: the group laws relativised to on-curve points;
   the unrelativised [group_laws (curve_group c)] is unsatisfiable).

   Representability: on a Weierstrass curve the group zero is [None], which the
   ECPoint wrapper cannot represent ([ec_smul] panics, [ec_add] errors); on an
   Edwards curve every on-curve point is representable.  The degenerate cases
   are therefore stated as [ck c = Weier -> ... mod q <> 0].

   Sign convention of the model (and of Go: big.Int.Bytes() is the magnitude):
   [ec_smul c P k] multiplies by [Z.abs k].  Statements that compare scalars
   therefore assume [0 <= t] (true of every unmarshalled proof); see
   [zk_response_not_malleable_refuted] for what happens otherwise. *)
From Coq Require Import ZArith List Lia Bool Znumtheory.
From TSS Require Import Base.Outcome Base.Bytes Base.ZMod Base.GoInt Model.Framing Model.Group
  Model.Curve Model.Poly Model.Schnorr
  Proofs.ZModProofs Proofs.GroupProofs Proofs.CurveLawsProofs.
Import ListNotations.
Open Scope Z_scope.

Lemma abs_mod_0 : forall q t, 0 < q -> (Z.abs t mod q = 0 <-> t mod q = 0).
Proof.
  intros q t Hq. rewrite !Z.mod_divide by lia. apply Z.divide_abs_r.
Qed.

Lemma coords_inj : forall P Q : pt,
  representable P = true -> representable Q = true -> coords P = coords Q -> P = Q.
Proof.
  intros [[x1 y1]|] [[x2 y2]|] HP HQ E; try discriminate.
  cbn [coords] in E. injection E as -> ->. reflexivity.
Qed.

Section S.
  Variable H : list Z -> list Z.
  Variable c : curve.
  Hypothesis CL : curve_laws c.

  Local Notation cmul := (@gmul (curve_group c)).
  Local Notation padd := (pt_add c).
  Local Notation O := (pt_zero c).
  Local Notation B := (base c).
  Local Notation q := (cq c).
  Local Notation insub := (@in_sub (curve_group c) (base c)).

  Let Hq1 : 1 < q := q_gt_1_c c CL.

  Lemma challenge_range : forall session ints, 0 <= challenge H c session ints < q.
  Proof.
    intros session ints. unfold challenge.
    destruct (sha512_256i_tagged H session ints).
    - apply Z.mod_pos_bound. lia.
    - lia.
  Qed.

  (* ---------------------------------------------------------------- *)
  (* the verifier with the challenge abstracted *)

  Definition zk_verify_with (ch : Z) (X alpha : pt) (t : Z) : Outcome bool :=
    if t mod cq c =? 0 then Ok false
    else
      tG <- ec_base_mul c t ;;
      Xc <- ec_smul c X ch ;;
      match ec_add c alpha Xc with
      | Ok s => Ok (pt_eqb s tG)
      | Err => Ok false
      | Panic => Panic
      | Diverge => Diverge
      end.

  Lemma zk_verify_eq : forall session X alpha t,
      zk_verify H c session X alpha t
      = zk_verify_with (challenge H c session (coords X ++ coords B ++ coords alpha)) X alpha t.
  Proof. reflexivity. Qed.

  (* exact acceptance condition; needs no laws *)
  Lemma zk_verify_with_true_iff : forall ch X alpha t,
      zk_verify_with ch X alpha t = Ok true <->
      (t mod q <> 0
       /\ representable (cmul (Z.abs t) B) = true
       /\ representable (cmul (Z.abs ch) X) = true
       /\ padd alpha (cmul (Z.abs ch) X) = cmul (Z.abs t) B).
  Proof.
    intros ch X alpha t. unfold zk_verify_with, ec_base_mul, ec_smul, ec_add.
    destruct (t mod q =? 0) eqn:Et.
    - apply Z.eqb_eq in Et. split; [discriminate|]. intros [Ht _]. contradiction.
    - apply Z.eqb_neq in Et.
      destruct (representable (cmul (Z.abs t) B)) eqn:R1; cbn [obind].
      2:{ split; [discriminate|]. intros (_ & K & _). discriminate. }
      destruct (representable (cmul (Z.abs ch) X)) eqn:R2; cbn [obind].
      2:{ split; [discriminate|]. intros (_ & _ & K & _). discriminate. }
      destruct (representable (padd alpha (cmul (Z.abs ch) X))) eqn:R3.
      + split.
        * intros E. injection E as E. apply pt_eqb_eq in E. auto.
        * intros (_ & _ & _ & E). rewrite E, pt_eqb_refl. reflexivity.
      + split; [discriminate|]. intros (_ & _ & _ & E). rewrite E in R3. congruence.
  Qed.

  Lemma rep_abs_B : forall t, t mod q <> 0 -> representable (cmul (Z.abs t) B) = true.
  Proof.
    intros t Ht. apply (rep_gmul_B c CL). right. rewrite abs_mod_0 by lia. exact Ht.
  Qed.

  (* with the laws: the t-guard makes the first representability automatic *)
  Lemma zk_verify_with_true_iff' : forall ch X alpha t,
      zk_verify_with ch X alpha t = Ok true <->
      (t mod q <> 0
       /\ representable (cmul (Z.abs ch) X) = true
       /\ padd alpha (cmul (Z.abs ch) X) = cmul (Z.abs t) B).
  Proof.
    intros ch X alpha t. rewrite zk_verify_with_true_iff. split.
    - intros (A1 & _ & A3 & A4). auto.
    - intros (A1 & A3 & A4). repeat split; auto. apply rep_abs_B. exact A1.
  Qed.

  (* ---------------------------------------------------------------- *)
  (* 1. completeness (C10) *)

  Lemma zk_prove_Ok : forall session x X a alpha t,
      zk_prove H c session x X a = Ok (alpha, t) ->
      alpha = cmul (Z.abs a) B /\ representable alpha = true /\
      t = (a + challenge H c session (coords X ++ coords B ++ coords alpha) * x) mod q.
  Proof.
    intros session x X a alpha t. unfold zk_prove, ec_base_mul, ec_smul.
    destruct (representable (cmul (Z.abs a) B)) eqn:R; cbn [obind]; [|discriminate].
    intros E. injection E as <- <-. auto.
  Qed.

  Theorem zk_complete : forall session x a alpha t,
      zk_prove H c session x (cmul x B) a = Ok (alpha, t) ->
      0 <= a ->
      t mod q <> 0 ->
      (ck c = Weier ->
       (challenge H c session (coords (cmul x B) ++ coords B ++ coords alpha) * x) mod q <> 0) ->
      zk_verify H c session (cmul x B) alpha t = Ok true.
  Proof.
    intros session x a alpha t Hp Ha Ht Hcx.
    destruct (zk_prove_Ok _ _ _ _ _ _ Hp) as (Ealpha & Ralpha & Et).
    rewrite Z.abs_eq in Ealpha by exact Ha.
    rewrite zk_verify_eq.
    set (ch := challenge H c session (coords (cmul x B) ++ coords B ++ coords alpha)) in *.
    pose proof (challenge_range session (coords (cmul x B) ++ coords B ++ coords alpha)) as Hch.
    fold ch in Hch.
    assert (Ht0 : 0 <= t) by (rewrite Et; apply Z.mod_pos_bound; lia).
    apply zk_verify_with_true_iff'.
    rewrite (Z.abs_eq ch) by lia. rewrite (Z.abs_eq t) by exact Ht0.
    split; [exact Ht|]. split.
    - rewrite <- (c_gmul_mul c CL) by (apply onc_base; exact CL).
      apply (rep_gmul_B c CL). destruct (ck c) eqn:E; [right|left; reflexivity].
      apply Hcx. reflexivity.
    - rewrite Et, Ealpha. symmetry. apply (c_schnorr_complete c CL).
  Qed.

  (* the excluded cases are exactly the ones in which the honest run fails *)
  Lemma zk_prove_panics_on_zero_nonce : forall session x X a,
      ck c = Weier -> a mod q = 0 -> zk_prove H c session x X a = Panic.
  Proof.
    intros session x X a W Ha. unfold zk_prove, ec_base_mul.
    rewrite (ec_smul_unrep c); [reflexivity|].
    destruct (representable (cmul (Z.abs a) B)) eqn:R; [|reflexivity].
    apply (rep_gmul_B c CL) in R. destruct R as [E|NE]; [congruence|].
    rewrite abs_mod_0 in NE by lia. contradiction.
  Qed.

  Lemma zk_verify_rejects_zero_response : forall session X alpha t,
      t mod q = 0 -> zk_verify H c session X alpha t = Ok false.
  Proof.
    intros session X alpha t Ht. unfold zk_verify.
    apply Z.eqb_eq in Ht. rewrite Ht. reflexivity.
  Qed.

  (* ---------------------------------------------------------------- *)
  (* 5. totality (stated here because 2-4 reuse the case analysis) *)

  Theorem zk_verify_with_no_diverge : forall ch X alpha t,
      zk_verify_with ch X alpha t <> Diverge.
  Proof.
    intros ch X alpha t. unfold zk_verify_with, ec_base_mul, ec_smul, ec_add.
    destruct (t mod q =? 0); [discriminate|].
    destruct (representable (cmul (Z.abs t) B)); cbn [obind]; [|discriminate].
    destruct (representable (cmul (Z.abs ch) X)); cbn [obind]; [|discriminate].
    destruct (representable (padd alpha (cmul (Z.abs ch) X))); discriminate.
  Qed.

  Lemma zk_verify_with_panic_iff : forall ch X alpha t,
      zk_verify_with ch X alpha t = Panic <->
      (t mod q <> 0 /\ representable (cmul (Z.abs ch) X) = false).
  Proof.
    intros ch X alpha t. unfold zk_verify_with, ec_base_mul.
    destruct (t mod q =? 0) eqn:Et.
    - apply Z.eqb_eq in Et. split; [discriminate|]. intros [K _]. contradiction.
    - apply Z.eqb_neq in Et.
      rewrite (ec_smul_rep c B t (rep_abs_B t Et)). cbn [obind].
      unfold ec_smul, ec_add.
      destruct (representable (cmul (Z.abs ch) X)) eqn:R2; cbn [obind].
      + destruct (representable (padd alpha (cmul (Z.abs ch) X)));
          (split; [discriminate|]); intros [_ K]; discriminate.
      + split; auto.
  Qed.

  Theorem zk_verify_total : forall session X alpha t,
      zk_verify H c session X alpha t <> Diverge
      /\ (zk_verify H c session X alpha t = Panic ->
          onc c X ->
          t mod q <> 0 /\ ck c = Weier /\
          cmul (challenge H c session (coords X ++ coords B ++ coords alpha)) X = O).
  Proof.
    intros session X alpha t. rewrite zk_verify_eq. split.
    - apply zk_verify_with_no_diverge.
    - intros Hp HX. apply zk_verify_with_panic_iff in Hp. destruct Hp as [Ht Hr].
      pose proof (challenge_range session (coords X ++ coords B ++ coords alpha)) as Hch.
      rewrite Z.abs_eq in Hr by lia.
      split; [exact Ht|]. apply (unrep_is_zero c); [|exact Hr].
      apply (onc_gmul c CL). exact HX.
  Qed.

  (* the panic happens exactly when the hash is 0 mod q (X a non-zero subgroup element) *)
  Theorem zk_verify_panic_iff_sub : forall session x alpha t,
      x mod q <> 0 ->
      (zk_verify H c session (cmul x B) alpha t = Panic <->
       (t mod q <> 0 /\ ck c = Weier /\
        challenge H c session (coords (cmul x B) ++ coords B ++ coords alpha) = 0)).
  Proof.
    intros session x alpha t Hx. rewrite zk_verify_eq.
    set (ch := challenge H c session (coords (cmul x B) ++ coords B ++ coords alpha)).
    pose proof (challenge_range session (coords (cmul x B) ++ coords B ++ coords alpha)) as Hch.
    fold ch in Hch.
    rewrite zk_verify_with_panic_iff. rewrite (Z.abs_eq ch) by lia.
    rewrite <- (c_gmul_mul c CL) by (apply onc_base; exact CL).
    split.
    - intros [Ht Hr]. split; [exact Ht|].
      destruct (unrep_is_zero c _ (onc_gmul c CL _ _ (onc_base c CL)) Hr) as [W Z0].
      split; [exact W|].
      apply (c_gmul_B_zero_iff c CL) in Z0.
      apply Z.mod_divide in Z0; [|lia].
      apply prime_mult in Z0; [|exact (q_prime_c c CL)].
      destruct Z0 as [D|D].
      + apply Z.mod_divide in D; [|lia]. rewrite Z.mod_small in D by lia. exact D.
      + apply Z.mod_divide in D; [|lia]. contradiction.
    - intros (Ht & W & E0). split; [exact Ht|]. rewrite E0. cbn [Z.mul gmul gzero curve_group].
      destruct (representable O) eqn:R; [|reflexivity].
      apply rep_zero in R. congruence.
  Qed.

  (* ---------------------------------------------------------------- *)
  (* 2. special soundness; a wrong discrete log is rejected (C11) *)

  Theorem zk_sound_same_challenge_abs : forall ch ch' X alpha t t',
      zk_verify_with ch X alpha t = Ok true ->
      zk_verify_with ch' X alpha t' = Ok true ->
      onc c alpha -> insub X ->
      (Z.abs ch - Z.abs ch') mod q <> 0 ->
      exists x, X = cmul x B /\
                ((Z.abs ch - Z.abs ch') * x) mod q = (Z.abs t - Z.abs t') mod q.
  Proof.
    intros ch ch' X alpha t t' V1 V2 Ha HX Hc.
    apply zk_verify_with_true_iff' in V1. destruct V1 as (_ & _ & E1).
    apply zk_verify_with_true_iff' in V2. destruct V2 as (_ & _ & E2).
    apply (c_schnorr_extract c CL X alpha (Z.abs ch) (Z.abs ch') (Z.abs t) (Z.abs t'));
      auto.
  Qed.

  Theorem zk_sound_same_challenge : forall ch ch' X alpha t t',
      zk_verify_with ch X alpha t = Ok true ->
      zk_verify_with ch' X alpha t' = Ok true ->
      onc c alpha -> insub X ->
      0 <= ch -> 0 <= ch' -> 0 <= t -> 0 <= t' ->
      (ch - ch') mod q <> 0 ->
      exists x, X = cmul x B /\ ((ch - ch') * x) mod q = (t - t') mod q.
  Proof.
    intros ch ch' X alpha t t' V1 V2 Ha HX H1 H2 H3 H4 Hc.
    pose proof (zk_sound_same_challenge_abs ch ch' X alpha t t' V1 V2 Ha HX) as K.
    rewrite !Z.abs_eq in K by assumption. exact (K Hc).
  Qed.

  Theorem zk_wrong_dlog_rejected : forall ch x x' a,
      0 <= ch -> ch mod q <> 0 ->
      x' mod q <> x mod q ->
      zk_verify_with ch (cmul x' B) (cmul a B) ((a + ch * x) mod q) <> Ok true.
  Proof.
    intros ch x x' a Hch0 Hch Hx V.
    apply zk_verify_with_true_iff' in V. destruct V as (_ & _ & E).
    rewrite (Z.abs_eq ch) in E by exact Hch0.
    rewrite (Z.abs_eq ((a + ch * x) mod q)) in E by (apply Z.mod_pos_bound; lia).
    rewrite <- (c_gmul_mul c CL) in E by (apply onc_base; exact CL).
    rewrite <- (c_gmul_add c CL) in E by (apply onc_base; exact CL).
    rewrite (c_gmul_mod_q c CL) in E.
    apply (c_gmul_inj c CL) in E.
    assert (D : (ch * (x' - x)) mod q = 0).
    { apply mod_sub_0 in E.
      replace (ch * (x' - x)) with (a + ch * x' - (a + ch * x)) by ring. exact E. }
    apply Z.mod_divide in D; [|lia].
    apply prime_mult in D; [|exact (q_prime_c c CL)].
    destruct D as [D|D]; apply Z.mod_divide in D; try lia.
    apply Hx. apply mod_sub_0. exact D.
  Qed.

  (* ---------------------------------------------------------------- *)
  (* 3. the response is not malleable (C12) *)

  Theorem zk_response_not_malleable : forall ch X alpha t t',
      zk_verify_with ch X alpha t = Ok true ->
      0 <= t -> 0 <= t' ->
      t' mod q <> t mod q ->
      zk_verify_with ch X alpha t' <> Ok true.
  Proof.
    intros ch X alpha t t' V1 Ht Ht' Hne V2.
    apply zk_verify_with_true_iff' in V1. destruct V1 as (_ & _ & E1).
    apply zk_verify_with_true_iff' in V2. destruct V2 as (_ & _ & E2).
    rewrite E1 in E2. rewrite !Z.abs_eq in E2 by assumption.
    apply (c_gmul_inj c CL) in E2. congruence.
  Qed.

  (* for arbitrary integers the accepted responses are t with |t| fixed mod q *)
  Theorem zk_response_abs_unique : forall ch X alpha t t',
      zk_verify_with ch X alpha t = Ok true ->
      zk_verify_with ch X alpha t' = Ok true ->
      Z.abs t' mod q = Z.abs t mod q.
  Proof.
    intros ch X alpha t t' V1 V2.
    apply zk_verify_with_true_iff' in V1. destruct V1 as (_ & _ & E1).
    apply zk_verify_with_true_iff' in V2. destruct V2 as (_ & _ & E2).
    rewrite E1 in E2. apply (c_gmul_inj c CL) in E2. congruence.
  Qed.

  Theorem zk_shift_needs_same_challenge : forall ch X alpha t d,
      zk_verify_with ch X alpha t = Ok true ->
      onc c X -> onc c alpha ->
      0 <= t -> 0 <= d -> (t + d) mod q <> 0 ->
      zk_verify_with ch X (padd alpha (cmul d B)) (t + d) = Ok true.
  Proof.
    intros ch X alpha t d V HX Ha Ht Hd Htd.
    apply zk_verify_with_true_iff' in V. destruct V as (_ & R & E).
    apply zk_verify_with_true_iff'. split; [exact Htd|]. split; [exact R|].
    rewrite (Z.abs_eq t) in E by exact Ht. rewrite (Z.abs_eq (t + d)) by lia.
    assert (HdB : onc c (cmul d B)) by (apply (onc_gmul c CL), (onc_base c CL)).
    assert (HcX : onc c (cmul (Z.abs ch) X)) by (apply (onc_gmul c CL); exact HX).
    rewrite <- (c_add_assoc c CL) by assumption.
    rewrite (c_add_comm c CL (cmul d B)) by assumption.
    rewrite (c_add_assoc c CL) by assumption.
    rewrite E. symmetry. apply (c_gmul_add c CL). apply (onc_base c CL).
  Qed.

  (* ... and the shifted commitment is a different hash pre-image *)
  Theorem zk_shift_changes_preimage : forall alpha d,
      onc c alpha -> d mod q <> 0 ->
      representable alpha = true -> representable (padd alpha (cmul d B)) = true ->
      coords (padd alpha (cmul d B)) <> coords alpha.
  Proof.
    intros alpha d Ha Hd R1 R2 E.
    apply coords_inj in E; [|assumption|assumption].
    assert (HdB : onc c (cmul d B)) by (apply (onc_gmul c CL), (onc_base c CL)).
    rewrite <- (c_zero_r c CL alpha Ha) in E at 2.
    apply (c_cancel_l c CL) in E; [|assumption|assumption|apply (onc_zero c CL)].
    apply (c_gmul_B_zero_iff c CL) in E. contradiction.
  Qed.

  (* ---------------------------------------------------------------- *)
  (* 4. the two-generator proof  V = s*R + l*B *)

  Definition zkv_verify_with (ch : Z) (V R alpha : pt) (t u : Z) : Outcome bool :=
    if (t mod cq c =? 0) || (u mod cq c =? 0) then Ok false
    else
      tR <- ec_smul c R t ;;
      uG <- ec_base_mul c u ;;
      match ec_add c tR uG with
      | Err => Ok false
      | Panic => Panic | Diverge => Diverge
      | Ok lhs =>
          Vc <- ec_smul c V ch ;;
          match ec_add c alpha Vc with
          | Ok rhs => Ok (pt_eqb lhs rhs)
          | Err => Ok false
          | Panic => Panic | Diverge => Diverge
          end
      end.

  Lemma zkv_verify_eq : forall session V R alpha t u,
      zkv_verify H c session V R alpha t u
      = zkv_verify_with (challenge H c session (coords V ++ coords R ++ coords B ++ coords alpha))
                        V R alpha t u.
  Proof. reflexivity. Qed.

  Lemma zkv_verify_with_true_iff : forall ch V R alpha t u,
      zkv_verify_with ch V R alpha t u = Ok true <->
      (t mod q <> 0 /\ u mod q <> 0
       /\ representable (cmul (Z.abs t) R) = true
       /\ representable (cmul (Z.abs u) B) = true
       /\ representable (padd (cmul (Z.abs t) R) (cmul (Z.abs u) B)) = true
       /\ representable (cmul (Z.abs ch) V) = true
       /\ padd (cmul (Z.abs t) R) (cmul (Z.abs u) B) = padd alpha (cmul (Z.abs ch) V)).
  Proof.
    intros ch V R alpha t u. unfold zkv_verify_with, ec_base_mul, ec_smul, ec_add.
    destruct (t mod q =? 0) eqn:Et; cbn [orb].
    { apply Z.eqb_eq in Et. split; [discriminate|]. intros (K & _). contradiction. }
    destruct (u mod q =? 0) eqn:Eu.
    { apply Z.eqb_eq in Eu. split; [discriminate|]. intros (_ & K & _). contradiction. }
    apply Z.eqb_neq in Et. apply Z.eqb_neq in Eu.
    destruct (representable (cmul (Z.abs t) R)) eqn:R1; cbn [obind].
    2:{ split; [discriminate|]. intros (_ & _ & K & _). discriminate. }
    destruct (representable (cmul (Z.abs u) B)) eqn:R2; cbn [obind].
    2:{ split; [discriminate|]. intros (_ & _ & _ & K & _). discriminate. }
    destruct (representable (padd (cmul (Z.abs t) R) (cmul (Z.abs u) B))) eqn:R3.
    2:{ split; [discriminate|]. intros (_ & _ & _ & _ & K & _). discriminate. }
    destruct (representable (cmul (Z.abs ch) V)) eqn:R4; cbn [obind].
    2:{ split; [discriminate|]. intros (_ & _ & _ & _ & _ & K & _). discriminate. }
    destruct (representable (padd alpha (cmul (Z.abs ch) V))) eqn:R5.
    - split.
      + intros E. injection E as E. apply pt_eqb_eq in E. repeat split; auto.
      + intros (_ & _ & _ & _ & _ & _ & E). rewrite E, pt_eqb_refl. reflexivity.
    - split; [discriminate|]. intros (_ & _ & _ & _ & _ & _ & E).
      rewrite <- E in R5. congruence.
  Qed.

  Lemma zkv_prove_Ok : forall session V R s l a b alpha t u,
      zkv_prove H c session V R s l a b = Ok (alpha, t, u) ->
      alpha = padd (cmul (Z.abs a) R) (cmul (Z.abs b) B) /\
      t = (a + challenge H c session (coords V ++ coords R ++ coords B ++ coords alpha) * s) mod q /\
      u = (b + challenge H c session (coords V ++ coords R ++ coords B ++ coords alpha) * l) mod q.
  Proof.
    intros session V R s l a b alpha t u. unfold zkv_prove, ec_base_mul, ec_smul, ec_add.
    destruct (representable (cmul (Z.abs a) R)); cbn [obind]; [|discriminate].
    destruct (representable (cmul (Z.abs b) B)); cbn [obind]; [|discriminate].
    destruct (representable (padd (cmul (Z.abs a) R) (cmul (Z.abs b) B))); [|discriminate].
    intros E. injection E as <- <- <-. auto.
  Qed.

  (* completeness; R = r*B is any element of the prime-order subgroup *)
  Theorem zkv_complete : forall session r s l a b alpha t u,
      let R := cmul r B in
      let V := padd (cmul s R) (cmul l B) in
      zkv_prove H c session V R s l a b = Ok (alpha, t, u) ->
      0 <= a -> 0 <= b ->
      t mod q <> 0 -> u mod q <> 0 ->
      (ck c = Weier -> (t * r) mod q <> 0) ->
      (ck c = Weier -> (t * r + u) mod q <> 0) ->
      (ck c = Weier ->
       (challenge H c session (coords V ++ coords R ++ coords B ++ coords alpha) * (s * r + l))
         mod q <> 0) ->
      zkv_verify H c session V R alpha t u = Ok true.
  Proof.
    intros session r s l a b alpha t u R V Hp Ha Hb Ht Hu Htr Htru Hcv.
    destruct (zkv_prove_Ok _ _ _ _ _ _ _ _ _ _ Hp) as (Ealpha & Et & Eu).
    rewrite zkv_verify_eq.
    set (ch := challenge H c session (coords V ++ coords R ++ coords B ++ coords alpha)) in *.
    pose proof (challenge_range session (coords V ++ coords R ++ coords B ++ coords alpha)) as Hch.
    fold ch in Hch.
    rewrite (Z.abs_eq a) in Ealpha by exact Ha. rewrite (Z.abs_eq b) in Ealpha by exact Hb.
    assert (Ht0 : 0 <= t) by (rewrite Et; apply Z.mod_pos_bound; lia).
    assert (Hu0 : 0 <= u) by (rewrite Eu; apply Z.mod_pos_bound; lia).
    pose proof (onc_base c CL) as HB.
    assert (HVeq : V = cmul (s * r + l) B).
    { unfold V, R. rewrite <- (c_gmul_mul c CL) by exact HB.
      rewrite <- (c_gmul_add c CL) by exact HB. reflexivity. }
    assert (Hweier : forall k, (ck c = Weier -> k mod q <> 0) -> ck c = Edw \/ k mod q <> 0).
    { intros k Hk. destruct (ck c); [right; apply Hk; reflexivity|left; reflexivity]. }
    apply zkv_verify_with_true_iff.
    rewrite (Z.abs_eq t) by exact Ht0. rewrite (Z.abs_eq u) by exact Hu0.
    rewrite (Z.abs_eq ch) by lia.
    assert (EtR : cmul t R = cmul (t * r) B).
    { unfold R. rewrite <- (c_gmul_mul c CL) by exact HB. reflexivity. }
    assert (Esum : padd (cmul t R) (cmul u B) = cmul (t * r + u) B).
    { rewrite EtR. rewrite <- (c_gmul_add c CL) by exact HB. reflexivity. }
    assert (EcV : cmul ch V = cmul (ch * (s * r + l)) B).
    { rewrite HVeq. rewrite <- (c_gmul_mul c CL) by exact HB. reflexivity. }
    split; [exact Ht|]. split; [exact Hu|]. split.
    { rewrite EtR. apply (rep_gmul_B c CL). apply Hweier. exact Htr. }
    split.
    { apply (rep_gmul_B c CL). right. exact Hu. }
    split.
    { rewrite Esum. apply (rep_gmul_B c CL). apply Hweier. exact Htru. }
    split.
    { rewrite EcV. apply (rep_gmul_B c CL). apply Hweier. exact Hcv. }
    rewrite Esum, EcV, Ealpha.
    assert (EaR : cmul a R = cmul (a * r) B).
    { unfold R. rewrite <- (c_gmul_mul c CL) by exact HB. reflexivity. }
    rewrite EaR. rewrite <- !(c_gmul_add c CL) by exact HB.
    apply (c_gmul_eqm c CL).
    rewrite Et, Eu.
    transitivity (((a + ch * s) * r + (b + ch * l)) mod q).
    - apply eqm_add; [apply eqm_mul; [apply eqm_mod|reflexivity]|apply eqm_mod].
    - f_equal. ring.
  Qed.

  (* the second response is not malleable once the first is fixed (and vice versa) *)
  Theorem zkv_response_not_malleable_u : forall ch V R alpha t u u',
      zkv_verify_with ch V R alpha t u = Ok true ->
      onc c R ->
      0 <= u -> 0 <= u' -> u' mod q <> u mod q ->
      zkv_verify_with ch V R alpha t u' <> Ok true.
  Proof.
    intros ch V R alpha t u u' V1 HR Hu Hu' Hne V2.
    apply zkv_verify_with_true_iff in V1. destruct V1 as (_ & _ & _ & _ & _ & _ & E1).
    apply zkv_verify_with_true_iff in V2. destruct V2 as (_ & _ & _ & _ & _ & _ & E2).
    rewrite <- E1 in E2. rewrite (Z.abs_eq u), (Z.abs_eq u') in E2 by assumption.
    apply (c_cancel_l c CL) in E2;
      try (apply (onc_gmul c CL); (exact HR || apply (onc_base c CL))).
    apply (c_gmul_inj c CL) in E2. congruence.
  Qed.

  Theorem zkv_response_not_malleable_t : forall ch V r alpha t t' u,
      zkv_verify_with ch V (cmul r B) alpha t u = Ok true ->
      r mod q <> 0 ->
      0 <= t -> 0 <= t' -> t' mod q <> t mod q ->
      zkv_verify_with ch V (cmul r B) alpha t' u <> Ok true.
  Proof.
    intros ch V r alpha t t' u V1 Hr Ht Ht' Hne V2.
    apply zkv_verify_with_true_iff in V1. destruct V1 as (_ & _ & _ & _ & _ & _ & E1).
    apply zkv_verify_with_true_iff in V2. destruct V2 as (_ & _ & _ & _ & _ & _ & E2).
    rewrite <- E1 in E2. rewrite (Z.abs_eq t), (Z.abs_eq t') in E2 by assumption.
    pose proof (onc_base c CL) as HB.
    apply (c_cancel_r c CL) in E2; try (repeat apply (onc_gmul c CL); exact HB).
    rewrite <- !(c_gmul_mul c CL) in E2 by exact HB.
    apply (c_gmul_inj c CL) in E2.
    assert (D : ((t' - t) * r) mod q = 0).
    { apply mod_sub_0 in E2.
      replace ((t' - t) * r) with (t' * r - t * r) by ring. exact E2. }
    apply Z.mod_divide in D; [|lia].
    apply prime_mult in D; [|exact (q_prime_c c CL)].
    destruct D as [D|D]; apply Z.mod_divide in D; try lia.
    apply Hne. apply mod_sub_0. exact D.
  Qed.

  Theorem zkv_verify_no_diverge : forall session V R alpha t u,
      zkv_verify H c session V R alpha t u <> Diverge.
  Proof.
    intros session V R alpha t u. unfold zkv_verify, ec_base_mul, ec_smul, ec_add.
    destruct ((t mod q =? 0) || (u mod q =? 0)); [discriminate|].
    destruct (representable (cmul (Z.abs t) R)); cbn [obind]; [|discriminate].
    destruct (representable (cmul (Z.abs u) B)); cbn [obind]; [|discriminate].
    destruct (representable (padd (cmul (Z.abs t) R) (cmul (Z.abs u) B))); [|discriminate].
    destruct (representable (cmul (Z.abs _) V)); cbn [obind]; [|discriminate].
    destruct (representable (padd alpha _)); discriminate.
  Qed.

  (* special soundness: two accepting transcripts with the same commitment and
     different challenges determine V on the span of R and B *)
  Theorem zkv_sound_same_challenge : forall ch ch' V R alpha t u t' u',
      zkv_verify_with ch V R alpha t u = Ok true ->
      zkv_verify_with ch' V R alpha t' u' = Ok true ->
      onc c alpha -> insub R -> insub V ->
      0 <= ch -> 0 <= ch' -> 0 <= t -> 0 <= t' -> 0 <= u -> 0 <= u' ->
      (ch - ch') mod q <> 0 ->
      exists r v, R = cmul r B /\ V = cmul v B /\
        ((ch - ch') * v) mod q = ((t - t') * r + (u - u')) mod q.
  Proof.
    intros ch ch' V R alpha t u t' u' V1 V2 Ha [r ->] [v ->] H1 H2 H3 H4 H5 H6 Hc.
    apply zkv_verify_with_true_iff in V1. destruct V1 as (_ & _ & _ & _ & _ & _ & E1).
    apply zkv_verify_with_true_iff in V2. destruct V2 as (_ & _ & _ & _ & _ & _ & E2).
    rewrite !Z.abs_eq in E1, E2 by assumption.
    pose proof (onc_base c CL) as HB.
    rewrite <- !(c_gmul_mul c CL) in E1, E2 by exact HB.
    rewrite <- !(c_gmul_add c CL) in E1, E2 by exact HB.
    exists r, v. split; [reflexivity|]. split; [reflexivity|].
    (* E1 : (t r + u) B = alpha + (ch v) B ; E2 similarly *)
    destruct (c_schnorr_extract c CL (cmul v B) alpha ch ch' (t * r + u) (t' * r + u')) as [x [Hx1 Hx2]].
    - exact Ha.
    - rewrite <- (c_gmul_mul c CL) by exact HB. exact E1.
    - rewrite <- (c_gmul_mul c CL) by exact HB. exact E2.
    - exists v. reflexivity.
    - exact Hc.
    - apply (c_gmul_inj c CL) in Hx1.
      transitivity (((ch - ch') * x) mod q).
      + apply eqm_mul; [reflexivity|exact Hx1].
      + rewrite Hx2. f_equal. ring.
  Qed.

End S.

(* ------------------------------------------------------------------ *)
(* negative integers: the model (like Go's big.Int.Bytes) multiplies by |t|, so
   -t is accepted whenever t is.  The requested statement of
   zk_response_not_malleable without [0 <= t, t'] is therefore false. *)
Theorem zk_response_not_malleable_refuted :
  exists c ch X alpha t t',
    curve_laws c /\
    zk_verify_with c ch X alpha t = Ok true /\
    t' mod cq c <> t mod cq c /\
    zk_verify_with c ch X alpha t' = Ok true.
Proof.
  exists toyW43, 2, (@gmul (curve_group toyW43) 3 (base toyW43)),
         (@gmul (curve_group toyW43) 5 (base toyW43)), 11, (-11).
  split; [exact toyW43_laws|]. vm_compute. repeat split; congruence.
Qed.

(* ------------------------------------------------------------------ *)
(* non-vacuity on toy curves *)
Section Examples.
  Let Hex : list Z -> list Z := fun _ => [5].
  Let W := toyW43.
  Let E := toyE.
  Local Notation wmul := (@gmul (curve_group toyW43)).
  Local Notation emul := (@gmul (curve_group toyE)).

  (* challenge = 5; x = 3; a = 4; t = 19 *)
  Example zk_complete_ex_W :
    zk_verify Hex W [1] (wmul 3 (base W)) (wmul 4 (base W)) 19 = Ok true.
  Proof.
    apply (zk_complete Hex W toyW43_laws [1] 3 4).
    - vm_compute. reflexivity.
    - lia.
    - vm_compute. discriminate.
    - intros _. vm_compute. discriminate.
  Qed.

  Example zk_complete_ex_E :
    zk_verify Hex E [1] (emul 3 (base E)) (emul 4 (base E)) 5 = Ok true.
  Proof.
    apply (zk_complete Hex E toyE_laws [1] 3 4).
    - vm_compute. reflexivity.
    - lia.
    - vm_compute. discriminate.
    - intros K. vm_compute in K. discriminate.
  Qed.

  Example zk_sound_ex :
    exists x, wmul 3 (base W) = wmul x (base W) /\ ((5 - 2) * x) mod 31 = (19 - 10) mod 31.
  Proof.
    apply (zk_sound_same_challenge W toyW43_laws 5 2 (wmul 3 (base W)) (wmul 4 (base W)) 19 10).
    - vm_compute. reflexivity.
    - vm_compute. reflexivity.
    - vm_compute. reflexivity.
    - exists 3. reflexivity.
    - lia.
    - lia.
    - lia.
    - lia.
    - vm_compute. discriminate.
  Qed.

  Example zk_wrong_dlog_ex :
    zk_verify_with W 5 (wmul 7 (base W)) (wmul 4 (base W)) ((4 + 5 * 3) mod 31) <> Ok true.
  Proof.
    apply (zk_wrong_dlog_rejected W toyW43_laws 5 3 7 4).
    - lia.
    - vm_compute. discriminate.
    - vm_compute. discriminate.
  Qed.

  Example zk_not_malleable_ex :
    zk_verify_with W 5 (wmul 3 (base W)) (wmul 4 (base W)) 20 <> Ok true.
  Proof.
    apply (zk_response_not_malleable W toyW43_laws 5 (wmul 3 (base W)) (wmul 4 (base W)) 19 20).
    - vm_compute. reflexivity.
    - lia.
    - lia.
    - vm_compute. discriminate.
  Qed.

  Example zk_shift_ex :
    zk_verify_with W 5 (wmul 3 (base W)) (pt_add W (wmul 4 (base W)) (wmul 2 (base W))) (19 + 2)
    = Ok true.
  Proof.
    apply (zk_shift_needs_same_challenge W toyW43_laws 5 (wmul 3 (base W)) (wmul 4 (base W)) 19 2).
    - vm_compute. reflexivity.
    - vm_compute. reflexivity.
    - vm_compute. reflexivity.
    - lia.
    - lia.
    - vm_compute. discriminate.
  Qed.

  Example zk_shift_preimage_ex :
    coords (pt_add W (wmul 4 (base W)) (wmul 2 (base W))) <> coords (wmul 4 (base W)).
  Proof.
    apply (zk_shift_changes_preimage W toyW43_laws).
    - vm_compute. reflexivity.
    - vm_compute. discriminate.
    - vm_compute. reflexivity.
    - vm_compute. reflexivity.
  Qed.

  (* the panic case is real: challenge 0 *)
  Example zk_verify_panics_ex :
    zk_verify (fun _ => [0]) W [1] (wmul 3 (base W)) (wmul 4 (base W)) 4 = Panic.
  Proof. vm_compute. reflexivity. Qed.

  (* r = 2, s = 3, l = 4, a = 6, b = 7, ch = 5: t = 21, u = 27 *)
  Example zkv_complete_ex :
    zkv_verify Hex W [1]
      (pt_add W (wmul 3 (wmul 2 (base W))) (wmul 4 (base W))) (wmul 2 (base W))
      (pt_add W (wmul 6 (wmul 2 (base W))) (wmul 7 (base W))) 21 27 = Ok true.
  Proof.
    apply (zkv_complete Hex W toyW43_laws [1] 2 3 4 6 7).
    - vm_compute. reflexivity.
    - lia.
    - lia.
    - vm_compute. discriminate.
    - vm_compute. discriminate.
    - intros _. vm_compute. discriminate.
    - intros _. vm_compute. discriminate.
    - intros _. vm_compute. discriminate.
  Qed.

  Example zkv_sound_ex :
    exists r v, wmul 2 (base W) = wmul r (base W) /\
      pt_add W (wmul 3 (wmul 2 (base W))) (wmul 4 (base W)) = wmul v (base W) /\
      ((5 - 1) * v) mod 31 = ((21 - 9) * r + (27 - 11)) mod 31.
  Proof.
    apply (zkv_sound_same_challenge W toyW43_laws 5 1 _ _
             (pt_add W (wmul 6 (wmul 2 (base W))) (wmul 7 (base W))) 21 27 9 11).
    - vm_compute. reflexivity.
    - vm_compute. reflexivity.
    - vm_compute. reflexivity.
    - exists 2. reflexivity.
    - exists 10. vm_compute. reflexivity.
    - lia.
    - lia.
    - lia.
    - lia.
    - lia.
    - lia.
    - vm_compute. discriminate.
  Qed.
End Examples.

Print Assumptions zk_complete.
Print Assumptions zk_verify_total.
Print Assumptions zk_verify_panic_iff_sub.
Print Assumptions zk_sound_same_challenge.
Print Assumptions zk_wrong_dlog_rejected.
Print Assumptions zk_response_not_malleable.
Print Assumptions zk_response_not_malleable_refuted.
Print Assumptions zk_shift_needs_same_challenge.
Print Assumptions zk_shift_changes_preimage.
Print Assumptions zkv_complete.
Print Assumptions zkv_sound_same_challenge.
Print Assumptions zkv_response_not_malleable_u.
Print Assumptions zkv_response_not_malleable_t.
Print Assumptions zkv_verify_no_diverge.
