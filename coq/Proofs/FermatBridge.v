(* Fermat's little theorem on Z (Znumtheory.prime), bridged from mathcomp's
   [fermat_little] on nat.  Only this file imports ssreflect. *)
From Coq Require Import ZArith Znumtheory Zpow_facts Lia.
From mathcomp Require Import ssreflect ssrbool ssrfun eqtype ssrnat div prime binomial.

Local Lemma mc_mul (a b : nat) : muln a b = Nat.mul a b.
Proof. reflexivity. Qed.
Local Lemma mc_add (a b : nat) : addn a b = Nat.add a b.
Proof. reflexivity. Qed.

Local Lemma mc_ltP (a b : nat) : is_true (a < b)%N -> (a < b)%coq_nat.
Proof. by move/ltP. Qed.

Local Lemma of_nat_expn (a n : nat) : Z.of_nat (expn a n) = (Z.of_nat a ^ Z.of_nat n)%Z.
Proof.
  elim: n => [|n IH]; first by rewrite expn0.
  rewrite expnS mc_mul Nat2Z.inj_mul IH Nat2Z.inj_succ Z.pow_succ_r //.
  apply Nat2Z.is_nonneg.
Qed.

Local Lemma Zprime_mc_prime (p : Z) : Znumtheory.prime p -> is_true (prime (Z.to_nat p)).
Proof.
  move=> Hp. have H1 : (1 < p)%Z by destruct Hp.
  apply/primeP; split.
  - apply/ltP. lia.
  - move=> d /dvdnP [k Hk].
    have Hd : (Z.of_nat d | p)%Z.
    { exists (Z.of_nat k). rewrite -Nat2Z.inj_mul -mc_mul -Hk Z2Nat.id; lia. }
    case: (prime_divisors p Hp _ Hd) => [H|[H|[H|H]]]; try lia.
    + have -> : d = 1%N by lia. by [].
    + have -> : d = Z.to_nat p by lia. by rewrite eqxx orbT.
Qed.

Local Lemma mc_modn_eq_divide (m n d : nat) :
  is_true (0 < d)%N -> modn m d = modn n d -> (Z.of_nat d | Z.of_nat m - Z.of_nat n)%Z.
Proof.
  move=> Hd E.
  exists (Z.of_nat (divn m d) - Z.of_nat (divn n d))%Z.
  rewrite {1}(divn_eq m d) {1}(divn_eq n d) E.
  rewrite !mc_add !mc_mul !Nat2Z.inj_add !Nat2Z.inj_mul. ring.
Qed.

Theorem Zfermat_little : forall p a : Z,
  Znumtheory.prime p -> (a mod p <> 0)%Z -> ((a ^ (p - 1)) mod p = 1)%Z.
Proof.
  move=> p a Hp Ha.
  have H1 : (1 < p)%Z by destruct Hp.
  have Hpm := Zprime_mc_prime p Hp.
  set b := (a mod p)%Z.
  have Hb : (0 <= b < p)%Z by apply Z.mod_pos_bound; lia.
  rewrite Zpower_mod; last lia. fold b.
  have F := fermat_little (Z.to_nat b) Hpm.
  have D := mc_modn_eq_divide _ _ _ (prime_gt0 Hpm) F.
  rewrite of_nat_expn !Z2Nat.id in D; try lia.
  have E : (b ^ p - b = b * (b ^ (p - 1) - 1))%Z.
  { have -> : (p = Z.succ (p - 1))%Z by lia.
    rewrite Z.pow_succ_r; last lia.
    have -> : (Z.succ (p - 1) - 1 = p - 1)%Z by lia. ring. }
  rewrite E in D.
  case: (prime_mult p Hp _ _ D) => [Hd|Hd].
  - exfalso. case: Hd => k Hk. have Hb0 : (b <> 0)%Z := Ha.
    have [Hk0|Hk1] : (k <= 0 \/ 1 <= k)%Z by lia.
    + have : (k * p <= 0)%Z by nia. lia.
    + have : (1 * p <= k * p)%Z by apply Z.mul_le_mono_nonneg_r; lia. lia.
  - case: Hd => k Hk.
    have -> : (b ^ (p - 1) = 1 + k * p)%Z by lia.
    rewrite Z_mod_plus_full. apply Z.mod_small. lia.
Qed.

Print Assumptions Zfermat_little.
