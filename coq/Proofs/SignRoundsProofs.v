(* Proofs about Model/SignRounds.v: the per-round algebra of GG18 threshold ECDSA signing
   (ecdsa/signing/round_3.go .. round_9.go, finalize.go) and its agreement with the closed
   form Model/SignAlg.v [ecdsa_sign].

   The MtA contract (C13 [mta_correct]) is a HYPOTHESIS here: [mta_ok]. *)
From Coq Require Import ZArith Znumtheory List Lia Bool Setoid Morphisms.
From TSS Require Import Base.Outcome Base.Bytes Base.ZMod Base.GoInt
  Model.Poly Model.Group Model.Curve Model.Schnorr Model.SignAlg Model.SignRounds
  Proofs.ZModProofs Proofs.GroupProofs Proofs.CurveLawsProofs Proofs.SignAlgProofs
  Proofs.KeyStoreProofs.
Import ListNotations.
Open Scope Z_scope.

(* ====================================================================== *)
(* A. sums over indices                                                     *)
(* ====================================================================== *)

Lemma nsum_ext : forall n f g, (forall i, (i < n)%nat -> f i = g i) -> nsum n f = nsum n g.
Proof.
  induction n as [|n IH]; intros f g H; cbn [nsum]; [reflexivity|].
  rewrite (IH f g) by (intros i Hi; apply H; lia).
  rewrite (H n) by lia. reflexivity.
Qed.

Lemma nsum_eqm : forall q n f g,
  (forall i, (i < n)%nat -> eqm q (f i) (g i)) -> eqm q (nsum n f) (nsum n g).
Proof.
  intros q. induction n as [|n IH]; intros f g H; cbn [nsum]; [reflexivity|].
  apply eqm_add; [apply IH; intros i Hi; apply H; lia|apply H; lia].
Qed.

Lemma nsum_0 : forall n, nsum n (fun _ => 0) = 0.
Proof. induction n as [|n IH]; cbn [nsum]; [reflexivity|]. rewrite IH. reflexivity. Qed.

Lemma nsum_add : forall n f g, nsum n (fun i => f i + g i) = nsum n f + nsum n g.
Proof. induction n as [|n IH]; intros f g; cbn [nsum]; [reflexivity|]. rewrite IH. ring. Qed.

Lemma nsum_mul_l : forall n a f, nsum n (fun i => a * f i) = a * nsum n f.
Proof. induction n as [|n IH]; intros a f; cbn [nsum]; [ring|]. rewrite IH. ring. Qed.

Lemma nsum_mul_r : forall n a f, nsum n (fun i => f i * a) = nsum n f * a.
Proof. induction n as [|n IH]; intros a f; cbn [nsum]; [ring|]. rewrite IH. ring. Qed.

(* Fubini for finite sums *)
Lemma nsum_swap : forall n m (F : nat -> nat -> Z),
  nsum n (fun i => nsum m (fun j => F i j)) = nsum m (fun j => nsum n (fun i => F i j)).
Proof.
  induction n as [|n IH]; intros m F; cbn [nsum].
  - symmetry. apply nsum_0.
  - rewrite IH. symmetry. exact (nsum_add m (fun j => nsum n (fun i => F i j)) (fun j => F n j)).
Qed.

Lemma nsum_single : forall n i0 v, (i0 < n)%nat ->
  nsum n (fun i => if Nat.eqb i i0 then v else 0) = v.
Proof.
  induction n as [|n IH]; intros i0 v H; [lia|]. cbn [nsum].
  destruct (Nat.eqb n i0) eqn:E.
  - apply Nat.eqb_eq in E. subst i0.
    rewrite (nsum_ext n _ (fun _ => 0)).
    + rewrite nsum_0. ring.
    + intros i Hi. destruct (Nat.eqb i n) eqn:E'; [apply Nat.eqb_eq in E'; lia|reflexivity].
  - apply Nat.eqb_neq in E. rewrite IH by lia. ring.
Qed.

(* the loop that skips the own index *)
Lemma nsum_split : forall n i f, (i < n)%nat -> nsum n f = f i + osum n i f.
Proof.
  intros n i f Hi. unfold osum.
  rewrite <- (nsum_single n i (f i) Hi) at 1.
  rewrite <- nsum_add. apply nsum_ext. intros j _.
  destruct (Nat.eqb j i) eqn:E; [apply Nat.eqb_eq in E; subst j|]; ring.
Qed.

Lemma osum_ext : forall n i f g,
  (forall j, (j < n)%nat -> j <> i -> f j = g j) -> osum n i f = osum n i g.
Proof.
  intros n i f g H. unfold osum. apply nsum_ext. intros j Hj.
  destruct (Nat.eqb j i) eqn:E; [reflexivity|]. apply Nat.eqb_neq in E. now apply H.
Qed.

Lemma osum_eqm : forall q n i f g,
  (forall j, (j < n)%nat -> j <> i -> eqm q (f j) (g j)) -> eqm q (osum n i f) (osum n i g).
Proof.
  intros q n i f g H. unfold osum. apply nsum_eqm. intros j Hj.
  destruct (Nat.eqb j i) eqn:E; [reflexivity|]. apply Nat.eqb_neq in E. now apply H.
Qed.

Lemma osum_add : forall n i f g, osum n i (fun j => f j + g j) = osum n i f + osum n i g.
Proof.
  intros n i f g. unfold osum. rewrite <- nsum_add. apply nsum_ext. intros j _.
  destruct (Nat.eqb j i); ring.
Qed.

Lemma osum_mul_l : forall n i a f, osum n i (fun j => a * f j) = a * osum n i f.
Proof.
  intros n i a f. unfold osum. rewrite <- nsum_mul_l. apply nsum_ext. intros j _.
  destruct (Nat.eqb j i); ring.
Qed.

Lemma osum_0 : forall n i, osum n i (fun _ => 0) = 0.
Proof.
  intros n i. unfold osum. rewrite (nsum_ext n _ (fun _ => 0)); [apply nsum_0|].
  intros j _. destruct (Nat.eqb j i); reflexivity.
Qed.

(* the core reindexing: sum_i sum_{j<>i} f i j = sum_i sum_{j<>i} f j i *)
Theorem nsum_osum_swap : forall n (f : nat -> nat -> Z),
  nsum n (fun i => osum n i (fun j => f i j)) = nsum n (fun i => osum n i (fun j => f j i)).
Proof.
  intros n f. unfold osum.
  rewrite (nsum_swap n n (fun i j => if Nat.eqb j i then 0 else f i j)).
  apply nsum_ext. intros i _. apply nsum_ext. intros j _.
  rewrite Nat.eqb_sym. reflexivity.
Qed.

Lemma dsum_add : forall n (f g : nat -> nat -> Z),
  nsum n (fun i => osum n i (fun j => f i j + g i j)) =
  nsum n (fun i => osum n i (fun j => f i j)) + nsum n (fun i => osum n i (fun j => g i j)).
Proof.
  intros n f g. rewrite <- nsum_add. apply nsum_ext. intros i _. apply osum_add.
Qed.

(* what party i holds as Bob towards j may be replaced by what party j holds as Bob towards i *)
Lemma dsum_transpose_r : forall n (f g : nat -> nat -> Z),
  nsum n (fun i => osum n i (fun j => f i j + g i j)) =
  nsum n (fun i => osum n i (fun j => f i j + g j i)).
Proof.
  intros n f g.
  rewrite (dsum_add n f g).
  rewrite (nsum_osum_swap n g).
  symmetry. exact (dsum_add n f (fun i j => g j i)).
Qed.

(* diagonal plus off-diagonal = product of the sums *)
Lemma diag_plus_off : forall n a b,
  nsum n (fun i => a i * b i + osum n i (fun j => a i * b j)) = nsum n a * nsum n b.
Proof.
  intros n a b. rewrite <- nsum_mul_r. apply nsum_ext. intros i Hi.
  rewrite osum_mul_l. rewrite (nsum_split n i b Hi). ring.
Qed.

Lemma nsum_shift : forall n f, nsum (S n) f = f O + nsum n (fun i => f (S i)).
Proof.
  induction n as [|n IH]; intros f.
  - cbn [nsum]. ring.
  - change (nsum (S (S n)) f) with (nsum (S n) f + f (S n)). rewrite IH. cbn [nsum]. ring.
Qed.

Lemma nsum_vec : forall l, nsum (length l) (vec l) = zsum l.
Proof.
  induction l as [|a l IH]; [reflexivity|].
  cbn [length]. rewrite nsum_shift. rewrite zsum_cons. unfold vec at 1. cbn [nth].
  rewrite <- IH. f_equal.
Qed.

Lemma zsum_app : forall l1 l2, zsum (l1 ++ l2) = zsum l1 + zsum l2.
Proof.
  induction l1 as [|a l1 IH]; intros l2; cbn [app]; [reflexivity|].
  rewrite !zsum_cons, IH. ring.
Qed.

Lemma zsum_map_seq : forall n (g : nat -> Z), zsum (map g (seq 0 n)) = nsum n g.
Proof.
  induction n as [|n IH]; intros g; [reflexivity|].
  rewrite seq_S, map_app, zsum_app, IH. cbn [nsum map Nat.add]. rewrite zsum_cons.
  change (zsum []) with 0. ring.
Qed.

(* ====================================================================== *)
(* B. the MtA contract and round 3                                          *)
(* ====================================================================== *)

(* C13 mta_correct, as a hypothesis: Alice i (secret a i) against Bob j (secret b j) *)
Definition mta_ok (q : Z) (n : nat) (a b : nat -> Z) (al be : nat -> nat -> Z) : Prop :=
  forall i j, (i < n)%nat -> (j < n)%nat -> i <> j -> eqm q (al i j + be j i) (a i * b j).

(* the contract up to an error matrix E *)
Definition mta_err (q : Z) (n : nat) (a b : nat -> Z) (al be E : nat -> nat -> Z) : Prop :=
  forall i j, (i < n)%nat -> (j < n)%nat -> i <> j -> eqm q (al i j + be j i) (a i * b j + E i j).

Lemma pairs_okb_spec : forall q n a b al be,
  pairs_okb q n a b al be = true <-> mta_ok q n a b al be.
Proof.
  intros q n a b al be. unfold pairs_okb, mta_ok. rewrite forallb_forall. split.
  - intros H i j Hi Hj Hij.
    specialize (H i ltac:(apply in_seq; lia)). rewrite forallb_forall in H.
    specialize (H j ltac:(apply in_seq; lia)). apply orb_true_iff in H.
    destruct H as [H|H]; [apply Nat.eqb_eq in H; contradiction|]. apply Z.eqb_eq in H. exact H.
  - intros H i Hi. apply in_seq in Hi. apply forallb_forall. intros j Hj. apply in_seq in Hj.
    destruct (Nat.eqb i j) eqn:E; [reflexivity|]. apply Nat.eqb_neq in E. cbn [orb].
    apply Z.eqb_eq. apply H; lia.
Qed.

(* honest MtA runs satisfy the contract, whatever Bob's beta' *)
Lemma honest_masks_ok : forall q n a b bp,
  mta_ok q n a b (honest_alpha q a b bp) (honest_beta q bp).
Proof.
  intros q n a b bp i j _ _ _. unfold honest_alpha, honest_beta.
  rewrite !eqm_mod. apply eqm_of_eq. ring.
Qed.

Lemma mix_sum_err : forall q n a b al be E,
  mta_err q n a b al be E ->
  eqm q (nsum n (mix_i q n a b al be))
        (nsum n a * nsum n b + nsum n (fun i => osum n i (fun j => E i j))).
Proof.
  intros q n a b al be E H.
  transitivity (nsum n (fun i => a i * b i + osum n i (fun j => al i j + be i j))).
  { apply nsum_eqm. intros i _. unfold mix_i. apply eqm_mod. }
  rewrite nsum_add. rewrite (dsum_transpose_r n al be).
  transitivity (nsum n (fun i => a i * b i) +
                nsum n (fun i => osum n i (fun j => a i * b j + E i j))).
  { apply eqm_add; [reflexivity|]. apply nsum_eqm. intros i Hi. apply osum_eqm.
    intros j Hj Hji. apply H; auto. }
  rewrite (dsum_add n (fun i j => a i * b j) E).
  rewrite <- diag_plus_off. rewrite nsum_add. apply eqm_of_eq. ring.
Qed.

Lemma mix_sum : forall q n a b al be,
  mta_ok q n a b al be -> eqm q (nsum n (mix_i q n a b al be)) (nsum n a * nsum n b).
Proof.
  intros q n a b al be H.
  rewrite (mix_sum_err q n a b al be (fun _ _ => 0)).
  - rewrite (nsum_ext n (fun i => osum n i (fun _ => 0)) (fun _ => 0)) by (intros i _; apply osum_0).
    rewrite nsum_0. apply eqm_of_eq. ring.
  - intros i j Hi Hj Hij. rewrite (H i j Hi Hj Hij). apply eqm_of_eq. ring.
Qed.

(* ====================================================================== *)
(* C. rounds 3-5 and 9 in the scalar field                                  *)
(* ====================================================================== *)

Section ScalarRounds.
  Variable q : Z.
  Variable n : nat.
  Variables k gamma w : nat -> Z.
  Variable m : Z.

  Local Notation K := (nsum n k).
  Local Notation G := (nsum n gamma).
  Local Notation X := (nsum n w).

  Definition masks_ok (M : masks) : Prop :=
    mta_ok q n k gamma (m_alpha M) (m_beta M) /\ mta_ok q n k w (m_mu M) (m_nu M).

  (* 1. the broadcast delta_i sum to k*gamma, the private sigma_i to k*x; no hypothesis on
        q or n, and nothing about the masks beyond the contract *)
  Theorem sum_delta : forall M, mta_ok q n k gamma (m_alpha M) (m_beta M) ->
    eqm q (nsum n (delta_i q n k gamma M)) (K * G).
  Proof. intros M H. unfold delta_i. now apply mix_sum. Qed.

  Theorem sum_sigma : forall M, mta_ok q n k w (m_mu M) (m_nu M) ->
    eqm q (nsum n (sigma_i q n k w M)) (K * X).
  Proof. intros M H. unfold sigma_i. now apply mix_sum. Qed.

  Corollary delta_eqm : forall M, mta_ok q n k gamma (m_alpha M) (m_beta M) ->
    eqm q (delta q n k gamma M) (K * G).
  Proof. intros M H. unfold delta. rewrite eqm_mod. now apply sum_delta. Qed.

  Lemma delta_range : forall M, 0 < q -> 0 <= delta q n k gamma M < q.
  Proof. intros M Hq. unfold delta. now apply Z.mod_pos_bound. Qed.

  (* 2. delta^-1 * gamma = k^-1 *)
  Lemma unit_mul : forall a b, prime q -> a mod q <> 0 -> b mod q <> 0 -> (a * b) mod q <> 0.
  Proof.
    intros a b Hq Ha Hb E. apply Hb. apply (proj1 (eqm_0_iff q b)).
    apply (eqm_mul_0 q a); [exact Hq|exact Ha|]. apply eqm_0_iff. exact E.
  Qed.

  Lemma eqm_nz : forall a b, eqm q a b -> b mod q <> 0 -> a mod q <> 0.
  Proof. intros a b E Hb. unfold eqm in E. now rewrite E. Qed.

  Lemma inv_delta_gamma : forall kk g d,
    prime q -> kk mod q <> 0 -> g mod q <> 0 -> eqm q d (kk * g) ->
    eqm q (inv_prime q d * g) (inv_prime q kk).
  Proof.
    intros kk g d Hq Hk Hg Hd.
    assert (Hd0 : d mod q <> 0) by (apply (eqm_nz _ _ Hd); now apply unit_mul).
    apply (eqm_inv_unique q kk); [exact Hq|exact Hk| |now apply eqm_inv].
    transitivity (inv_prime q d * (kk * g)); [apply eqm_of_eq; ring|].
    rewrite <- Hd.
    transitivity (d * inv_prime q d); [apply eqm_of_eq; ring|now apply eqm_inv].
  Qed.

  Theorem R_scalar_is_kinv : forall M,
    prime q -> K mod q <> 0 -> G mod q <> 0 ->
    mta_ok q n k gamma (m_alpha M) (m_beta M) ->
    delta q n k gamma M <> 0 /\
    eqm q (inv_prime q (delta q n k gamma M) * G) (inv_prime q K).
  Proof.
    intros M Hq HK HG H. pose proof (delta_eqm M H) as Hd. split.
    - intros E0. apply (unit_mul K G Hq HK HG). unfold eqm in Hd. rewrite <- Hd, E0. apply Zmod_0_l.
    - now apply inv_delta_gamma.
  Qed.

  (* 3. the partial signatures sum to k (m + r x), for whatever r the parties use *)
  Theorem sum_s : forall M r, mta_ok q n k w (m_mu M) (m_nu M) ->
    eqm q (nsum n (s_i q n k w m M r)) (K * (m + r * X)).
  Proof.
    intros M r H.
    transitivity (nsum n (fun i => m * k i + r * sigma_i q n k w M i)).
    { apply nsum_eqm. intros i _. unfold s_i. apply eqm_mod. }
    rewrite nsum_add, !nsum_mul_l. rewrite (sum_sigma M H). apply eqm_of_eq. ring.
  Qed.

  Corollary s_sum_eqm : forall M r, mta_ok q n k w (m_mu M) (m_nu M) ->
    eqm q (s_sum q n k w m M r) (K * (m + r * X)).
  Proof. intros M r H. unfold s_sum. rewrite eqm_mod. now apply sum_s. Qed.

  (* the value of the closed form, literally *)
  Corollary s_sum_closed_form : forall M r, mta_ok q n k w (m_mu M) (m_nu M) ->
    s_sum q n k w m M r = ((K mod q) * ((m + r * (X mod q)) mod q)) mod q.
  Proof.
    intros M r H. unfold s_sum.
    change (eqm q (nsum n (s_i q n k w m M r)) ((K mod q) * ((m + r * (X mod q)) mod q))).
    rewrite (sum_s M r H), !eqm_mod. reflexivity.
  Qed.

  (* 5. the masks are irrelevant beyond the contract (scalar part) *)
  Theorem masks_irrelevant_scalars : forall M M' r,
    masks_ok M -> masks_ok M' ->
    delta q n k gamma M = delta q n k gamma M' /\
    s_sum q n k w m M r = s_sum q n k w m M' r.
  Proof.
    intros M M' r [H1 H2] [H1' H2']. split.
    - unfold delta. change (eqm q (nsum n (delta_i q n k gamma M)) (nsum n (delta_i q n k gamma M'))).
      rewrite (sum_delta M H1), (sum_delta M' H1'). reflexivity.
    - rewrite (s_sum_closed_form M r H2), (s_sum_closed_form M' r H2'). reflexivity.
  Qed.

  (* 6. one wrong MtA output: pair (i0, j0) is off by e, all the others are fine *)
  Definition one_bad (i0 j0 : nat) (e : Z) : nat -> nat -> Z :=
    fun i j => if Nat.eqb i i0 && Nat.eqb j j0 then e else 0.

  Lemma one_bad_total : forall i0 j0 e, (i0 < n)%nat -> (j0 < n)%nat -> i0 <> j0 ->
    nsum n (fun i => osum n i (fun j => one_bad i0 j0 e i j)) = e.
  Proof.
    intros i0 j0 e Hi Hj Hij.
    rewrite (nsum_ext n _ (fun i => if Nat.eqb i i0 then e else 0)); [now apply nsum_single|].
    intros i _. unfold one_bad. destruct (Nat.eqb i i0) eqn:E; cbn [andb].
    - apply Nat.eqb_eq in E. subst i. unfold osum.
      rewrite (nsum_ext n _ (fun j => if Nat.eqb j j0 then e else 0)); [now apply nsum_single|].
      intros j _. destruct (Nat.eqb j i0) eqn:E1; [|reflexivity].
      apply Nat.eqb_eq in E1. subst j.
      destruct (Nat.eqb i0 j0) eqn:E2; [apply Nat.eqb_eq in E2; contradiction|reflexivity].
    - apply osum_0.
  Qed.

  Theorem one_bad_mta_shifts_delta : forall M i0 j0 e,
    (i0 < n)%nat -> (j0 < n)%nat -> i0 <> j0 ->
    (forall i j, (i < n)%nat -> (j < n)%nat -> i <> j -> (i, j) <> (i0, j0) ->
       eqm q (m_alpha M i j + m_beta M j i) (k i * gamma j)) ->
    eqm q (m_alpha M i0 j0 + m_beta M j0 i0) (k i0 * gamma j0 + e) ->
    eqm q (nsum n (delta_i q n k gamma M)) (K * G + e) /\
    eqm q (delta q n k gamma M) (K * G + e).
  Proof.
    intros M i0 j0 e Hi Hj Hij Hgood Hbad.
    assert (E : eqm q (nsum n (delta_i q n k gamma M)) (K * G + e)).
    { unfold delta_i. rewrite (mix_sum_err q n k gamma _ _ (one_bad i0 j0 e)).
      - rewrite one_bad_total by assumption. reflexivity.
      - intros i j Hi' Hj' Hij'. unfold one_bad.
        destruct (Nat.eqb i i0 && Nat.eqb j j0) eqn:Eb.
        + apply andb_true_iff in Eb. destruct Eb as [E1 E2].
          apply Nat.eqb_eq in E1. apply Nat.eqb_eq in E2. subst i j. exact Hbad.
        + rewrite (Hgood i j Hi' Hj' Hij').
          * apply eqm_of_eq. ring.
          * intros Ep. injection Ep as -> ->. rewrite !Nat.eqb_refl in Eb. discriminate. }
    split; [exact E|]. unfold delta. rewrite eqm_mod. exact E.
  Qed.

  (* ... so the nonce point is NOT k^-1 G any more *)
  Theorem one_bad_mta_wrong_R : forall d e,
    prime q -> K mod q <> 0 -> e mod q <> 0 -> d mod q <> 0 ->
    eqm q d (K * G + e) ->
    ~ eqm q (inv_prime q d * G) (inv_prime q K).
  Proof.
    intros d e Hq HK He Hd0 Hd E.
    apply He. apply (proj1 (eqm_0_iff q e)).
    (* multiply  d^-1 * G = K^-1  by  K * d *)
    assert (E1 : eqm q (K * G) d).
    { transitivity ((d * inv_prime q d) * (K * G)).
      { rewrite (eqm_inv q d Hq Hd0). apply eqm_of_eq. ring. }
      transitivity (d * K * (inv_prime q d * G)); [apply eqm_of_eq; ring|].
      rewrite E. transitivity (d * (K * inv_prime q K)); [apply eqm_of_eq; ring|].
      rewrite (eqm_inv q K Hq HK). apply eqm_of_eq. ring. }
    transitivity ((K * G + e) - K * G); [apply eqm_of_eq; ring|].
    apply (proj2 (eqm_sub_0 q (K * G + e) (K * G))).
    rewrite <- Hd. symmetry. exact E1.
  Qed.
End ScalarRounds.

(* ====================================================================== *)
(* D. phase 5 (rounds 5-9) in the exponent                                  *)
(* ====================================================================== *)

Section Phase5Algebra.
  Variable q : Z.
  Variable n : nat.
  Variables m r y rs : Z.
  Variables sv l rho : nat -> Z.

  Local Notation S := (nsum n sv).
  Local Notation L := (nsum n l).
  Local Notation Rho := (nsum n rho).
  Local Notation xV' := (xV q n m r y rs sv l).
  Local Notation sumU := (nsum n (xU_i q n m r y rs sv l rho)).
  Local Notation sumT := (nsum n (xT_i n l rho)).

  (* the error of the summed signature, in the exponent of G:  s*R - m*G - r*Y = err * G *)
  Definition s_err : Z := S * rs - m - r * y.

  Lemma xV_form : eqm q xV' (L + s_err).
  Proof.
    unfold xV, s_err. rewrite (eqm_mod q (0 - m)), (eqm_mod q (0 - r)).
    apply eqm_of_eq.
    rewrite (nsum_ext n (xV_i rs sv l) (fun i => sv i * rs + l i)) by reflexivity.
    rewrite nsum_add, nsum_mul_r. ring.
  Qed.

  Lemma sumU_form : sumU = Rho * xV'.
  Proof. unfold xU_i. apply nsum_mul_r. Qed.

  Lemma sumT_form : sumT = L * Rho.
  Proof. unfold xT_i, xA, xA_i. apply nsum_mul_r. Qed.

  Lemma phase5_diff : eqm q (sumU - sumT) (Rho * s_err).
  Proof.
    rewrite sumU_form, sumT_form, xV_form. apply eqm_of_eq. ring.
  Qed.

  Theorem phase5_scalar_iff : eqm q sumU sumT <-> (Rho * s_err) mod q = 0.
  Proof.
    rewrite <- eqm_0_iff, <- phase5_diff. symmetry. apply eqm_sub_0.
  Qed.

  Lemma phase5_okx_spec : phase5_okx q n m r y rs sv l rho = true <-> eqm q sumU sumT.
  Proof. unfold phase5_okx. rewrite Z.eqb_eq. reflexivity. Qed.

  (* 4a. a correct s passes: V = l*G and sum U = sum T *)
  Theorem phase5_complete_scalar :
    eqm q (S * rs) (m + r * y) -> eqm q xV' L /\ eqm q sumU sumT.
  Proof.
    intros H.
    assert (E0 : eqm q s_err 0).
    { unfold s_err. transitivity (S * rs - (m + r * y)); [apply eqm_of_eq; ring|]. now apply eqm_sub_0. }
    split.
    - rewrite xV_form, E0. apply eqm_of_eq. ring.
    - apply phase5_scalar_iff. apply (proj1 (eqm_0_iff q _)). rewrite E0. apply eqm_of_eq. ring.
  Qed.

  (* 4b. a wrong s is detected unless rho = sum rho_i = 0 *)
  Theorem phase5_detects_bad_s_scalar :
    prime q -> ~ eqm q (S * rs) (m + r * y) ->
    s_err mod q <> 0 /\ eqm q xV' (L + s_err) /\
    (eqm q sumU sumT <-> (Rho * s_err) mod q = 0) /\
    (eqm q sumU sumT <-> Rho mod q = 0).
  Proof.
    intros Hq Hbad.
    assert (He : s_err mod q <> 0).
    { intros E0. apply Hbad. apply eqm_sub_0. apply eqm_0_iff in E0.
      transitivity s_err; [unfold s_err; apply eqm_of_eq; ring|exact E0]. }
    split; [exact He|]. split; [apply xV_form|]. split; [apply phase5_scalar_iff|].
    rewrite phase5_scalar_iff. split.
    - intros E0. apply (proj1 (eqm_0_iff q _)). apply (eqm_mul_0 q s_err); [exact Hq|exact He|].
      apply (proj2 (eqm_0_iff q _)). rewrite Z.mul_comm. exact E0.
    - intros E0. apply (proj1 (eqm_0_iff q _)). apply (proj2 (eqm_0_iff q _)) in E0.
      rewrite E0. apply eqm_of_eq. ring.
  Qed.
End Phase5Algebra.

(* ====================================================================== *)
(* E. on the curve                                                          *)
(* ====================================================================== *)

Lemma inv_prime_nz : forall q a, prime q -> a mod q <> 0 -> inv_prime q a mod q <> 0.
Proof.
  intros q a Hq Ha E0. pose proof (prime_gt_1 q Hq) as H1.
  pose proof (eqm_inv q a Hq Ha) as E1.
  assert (E2 : eqm q (a * inv_prime q a) 0).
  { transitivity (a * (inv_prime q a mod q)); [now rewrite eqm_mod|]. rewrite E0. apply eqm_of_eq. ring. }
  rewrite E1 in E2. unfold eqm in E2. rewrite Z.mod_1_l, Zmod_0_l in E2 by lia. discriminate.
Qed.

Section PointRounds.
  Variable c : curve.
  Hypothesis CL : curve_laws c.
  Local Notation q := (cq c).
  Local Notation B := (base c).
  Local Notation cmul := (@gmul (curve_group c)).
  Local Notation padd := (pt_add c).

  Let Hq : prime q := q_prime_c c CL.
  Let HB : onc c B := onc_base c CL.

  Lemma ptsum_ext : forall n f g, (forall i, (i < n)%nat -> f i = g i) -> ptsum c n f = ptsum c n g.
  Proof.
    induction n as [|n IH]; intros f g H; cbn [ptsum]; [reflexivity|].
    rewrite (IH f g) by (intros i Hi; apply H; lia). rewrite (H n) by lia. reflexivity.
  Qed.

  Lemma ptsum_onc : forall n f, (forall i, (i < n)%nat -> onc c (f i)) -> onc c (ptsum c n f).
  Proof.
    induction n as [|n IH]; intros f H; cbn [ptsum]; [apply (onc_zero c CL)|].
    apply (onc_add c CL); [apply IH; intros i Hi; apply H; lia|apply H; lia].
  Qed.

  (* sum_i (a_i * P) = (sum_i a_i) * P *)
  Lemma ptsum_cmul : forall n a P, onc c P ->
    ptsum c n (fun i => cmul (a i) P) = cmul (nsum n a) P.
  Proof.
    induction n as [|n IH]; intros a P HP; cbn [ptsum nsum]; [reflexivity|].
    rewrite (IH a P HP). symmetry. now apply (c_gmul_add c CL).
  Qed.

  Lemma cmul_cmul_B : forall a b, cmul a (cmul b B) = cmul (a * b) B.
  Proof. intros a b. symmetry. now apply (c_gmul_mul c CL). Qed.

  Lemma cmul_add_B : forall a b, padd (cmul a B) (cmul b B) = cmul (a + b) B.
  Proof. intros a b. symmetry. now apply (c_gmul_add c CL). Qed.

  (* ------------------------------------------------------------------ *)
  (* phase 5: the points are the scalars of section D times G *)
  Section Phase5.
    Variable n : nat.
    Variables m r y rs : Z.
    Variables sv l rho : nat -> Z.

    Local Notation R := (cmul rs B).
    Local Notation Y := (cmul y B).
    Local Notation S := (nsum n sv).
    Local Notation L := (nsum n l).
    Local Notation Rho := (nsum n rho).
    Local Notation sumU := (ptsum c n (pU_i c n m r sv l rho R Y)).
    Local Notation sumT := (ptsum c n (pT_i c n l rho)).

    Lemma pV_i_x : forall i, pV_i c sv l R i = cmul (xV_i rs sv l i) B.
    Proof. intros i. unfold pV_i, xV_i. rewrite cmul_cmul_B. apply cmul_add_B. Qed.

    Lemma pV_x : pV c n m r sv l R Y = cmul (xV q n m r y rs sv l) B.
    Proof.
      unfold pV, xV.
      rewrite (ptsum_ext n (pV_i c sv l R) (fun i => cmul (xV_i rs sv l i) B)) by (intros i _; apply pV_i_x).
      rewrite (ptsum_cmul n (xV_i rs sv l) B HB).
      rewrite cmul_cmul_B, !cmul_add_B. reflexivity.
    Qed.

    Lemma pA_x : pA c n rho = cmul (xA n rho) B.
    Proof. unfold pA, xA, pA_i, xA_i. now apply ptsum_cmul. Qed.

    Lemma sumU_x : sumU = cmul (nsum n (xU_i q n m r y rs sv l rho)) B.
    Proof.
      unfold pU_i. rewrite pV_x.
      rewrite (ptsum_cmul n rho _ (onc_gmul c CL _ B HB)).
      rewrite cmul_cmul_B, sumU_form. reflexivity.
    Qed.

    Lemma sumT_x : sumT = cmul (nsum n (xT_i n l rho)) B.
    Proof.
      unfold pT_i. rewrite pA_x.
      rewrite (ptsum_cmul n l _ (onc_gmul c CL _ B HB)).
      rewrite cmul_cmul_B. unfold xT_i. rewrite nsum_mul_r. reflexivity.
    Qed.

    Lemma phase5_points_iff :
      sumU = sumT <-> eqm q (nsum n (xU_i q n m r y rs sv l rho)) (nsum n (xT_i n l rho)).
    Proof. rewrite sumU_x, sumT_x. apply (c_gmul_inj_iff c CL). Qed.

    Lemma phase5_ok_spec : phase5_ok c n m r sv l rho R Y = true <-> sumU = sumT.
    Proof. unfold phase5_ok. apply pt_eqb_eq. Qed.

    (* "s verifies", on the curve and in the exponent *)
    Lemma s_good_iff :
      cmul S R = padd (cmul m B) (cmul r Y) <-> eqm q (S * rs) (m + r * y).
    Proof. rewrite !cmul_cmul_B, cmul_add_B. apply (c_gmul_inj_iff c CL). Qed.
  End Phase5.

  (* 4a. when the summed s is right, V = l*G and the check of round 9 passes *)
  Theorem phase5_complete : forall n m r sv l rho R Y,
    @in_sub (curve_group c) B R -> @in_sub (curve_group c) B Y ->
    cmul (nsum n sv) R = padd (cmul m B) (cmul r Y) ->
    pV c n m r sv l R Y = cmul (nsum n l) B /\
    ptsum c n (pU_i c n m r sv l rho R Y) = ptsum c n (pT_i c n l rho) /\
    phase5_ok c n m r sv l rho R Y = true.
  Proof.
    intros n m r sv l rho R Y [rs ->] [y ->] Hs.
    apply s_good_iff in Hs.
    destruct (phase5_complete_scalar q n m r y rs sv l rho Hs) as [HV HU].
    split; [|split].
    - rewrite pV_x. now apply (c_gmul_eqm c CL).
    - now apply phase5_points_iff.
    - apply phase5_ok_spec. now apply phase5_points_iff.
  Qed.

  (* 4b. when it is wrong (some party used a wrong s_i), V = l*G + e*G with e <> 0 and the
         check passes only in the degenerate case sum rho_i = 0 (mod q) *)
  Theorem phase5_detects_bad_s : forall n m r sv l rho R Y,
    @in_sub (curve_group c) B R -> @in_sub (curve_group c) B Y ->
    cmul (nsum n sv) R <> padd (cmul m B) (cmul r Y) ->
    exists e, e mod q <> 0 /\
      pV c n m r sv l R Y = padd (cmul (nsum n l) B) (cmul e B) /\
      (ptsum c n (pU_i c n m r sv l rho R Y) = ptsum c n (pT_i c n l rho)
         <-> (nsum n rho * e) mod q = 0) /\
      (ptsum c n (pU_i c n m r sv l rho R Y) = ptsum c n (pT_i c n l rho)
         <-> nsum n rho mod q = 0) /\
      (phase5_ok c n m r sv l rho R Y = true <-> nsum n rho mod q = 0).
  Proof.
    intros n m r sv l rho R Y [rs ->] [y ->] Hs.
    assert (Hbad : ~ eqm q (nsum n sv * rs) (m + r * y)).
    { intros E. apply Hs. now apply s_good_iff. }
    destruct (phase5_detects_bad_s_scalar q n m r y rs sv l rho Hq Hbad) as (He & HV & H1 & H2).
    exists (s_err n m r y rs sv). split; [exact He|]. split; [|split; [|split]].
    - rewrite pV_x, cmul_add_B. now apply (c_gmul_eqm c CL).
    - rewrite phase5_points_iff. exact H1.
    - rewrite phase5_points_iff. exact H2.
    - rewrite phase5_ok_spec, phase5_points_iff. exact H2.
  Qed.

  (* the panics / errors of round 5, in scalars *)
  Lemma r5_ok_scalars : forall n sv l rho rs,
    (forall i, (i < n)%nat ->
       (sv i * rs) mod q <> 0 /\ l i mod q <> 0 /\ rho i mod q <> 0 /\ (sv i * rs + l i) mod q <> 0) ->
    r5_smul_ok c n sv l rho (cmul rs B) = true /\ r5_add_ok c n sv l (cmul rs B) = true.
  Proof.
    intros n sv l rho rs H. unfold r5_smul_ok, r5_add_ok. split; apply forallb_forall; intros i Hi;
      apply in_seq in Hi; destruct (H i ltac:(lia)) as (H1 & H2 & H3 & H4).
    - rewrite cmul_cmul_B. rewrite !andb_true_iff. repeat split; apply (rep_gmul_B c CL); now right.
    - rewrite pV_i_x. apply (rep_gmul_B c CL). now right.
  Qed.

  (* ------------------------------------------------------------------ *)
  (* the run *)
  Section RunProofs.
    Variable n : nat.
    Variables k gamma w : nat -> Z.
    Variable m : Z.
    Variables l rho : nat -> Z.

    Local Notation K := (nsum n k).
    Local Notation G := (nsum n gamma).
    Local Notation X := (nsum n w).

    Lemma Gamma_sum_x : Gamma_sum c n gamma = cmul G B.
    Proof. unfold Gamma_sum, Gamma_i. now apply ptsum_cmul. Qed.

    Lemma bigR_x : forall M, bigR c n k gamma M = cmul (inv_prime q (run_delta c n k gamma M) * G) B.
    Proof. intros M. unfold bigR. rewrite Gamma_sum_x. apply cmul_cmul_B. Qed.

    (* every party that gets through its own accumulation of the Gamma_j (own first, then
       the others in index order) holds the same point, sum_j Gamma_j *)
    Lemma gamma_acc_spec : forall i js a P,
      gamma_acc c gamma i js (cmul a B) = Ok P ->
      P = cmul (a + zsum (map (fun j => if Nat.eqb j i then 0 else gamma j) js)) B.
    Proof.
      intros i. induction js as [|j js IH]; intros a P E; cbn [gamma_acc map] in *.
      - injection E as <-. change (zsum []) with 0. now rewrite Z.add_0_r.
      - rewrite zsum_cons. destruct (Nat.eqb j i).
        + rewrite (IH a P E). apply (f_equal (fun z => cmul z B)). ring.
        + unfold ec_add, Gamma_i in E. rewrite cmul_add_B in E.
          destruct (representable (cmul (a + gamma j) B)); cbn [obind] in E; [|discriminate].
          rewrite (IH _ P E). apply (f_equal (fun z => cmul z B)). ring.
    Qed.

    Theorem party_Gamma_sum_spec : forall i P, (i < n)%nat ->
      party_Gamma_sum c n gamma i = Ok P -> P = Gamma_sum c n gamma.
    Proof.
      intros i P Hi E. unfold party_Gamma_sum, Gamma_i in E. apply gamma_acc_spec in E.
      rewrite E, Gamma_sum_x. apply (f_equal (fun z => cmul z B)).
      rewrite zsum_map_seq. fold (osum n i gamma). symmetry. now apply nsum_split.
    Qed.

    (* 2. R = k^-1 G, the R of the closed form *)
    Theorem R_is_kinv_G : forall M,
      K mod q <> 0 -> G mod q <> 0 -> mta_ok q n k gamma (m_alpha M) (m_beta M) ->
      eqm q (inv_prime q (run_delta c n k gamma M) * G) (inv_prime q K) /\
      bigR c n k gamma M = cmul (inv_prime q K) B.
    Proof.
      intros M HK HG H.
      destruct (R_scalar_is_kinv q n k gamma M Hq HK HG H) as [_ E].
      split; [exact E|]. rewrite bigR_x. now apply (c_gmul_eqm c CL).
    Qed.

    (* round_4.go:43 uses big.Int.ModInverse; on the run's delta it is the Fermat inverse of the model *)
    Lemma run_delta_modinv : forall M,
      K mod q <> 0 -> G mod q <> 0 -> mta_ok q n k gamma (m_alpha M) (m_beta M) ->
      modinv (run_delta c n k gamma M) q = Some (inv_prime q (run_delta c n k gamma M)).
    Proof.
      intros M HK HG H. apply modinv_prime_eq; [exact Hq|].
      pose proof (delta_eqm q n k gamma M H) as E. unfold run_delta. unfold eqm in E. rewrite E.
      now apply unit_mul.
    Qed.

    (* 5. two runs with different masks publish the same delta and end with the same R, r, s *)
    Theorem masks_irrelevant : forall M M',
      masks_ok q n k gamma w M -> masks_ok q n k gamma w M' ->
      run_delta c n k gamma M = run_delta c n k gamma M' /\
      bigR c n k gamma M = bigR c n k gamma M' /\
      run_r c n k gamma M = run_r c n k gamma M' /\
      run_s c n k gamma w m M = run_s c n k gamma w m M'.
    Proof.
      intros M M' HM HM'.
      destruct (masks_irrelevant_scalars q n k gamma w m M M' 0 HM HM') as [Hd _].
      assert (HR : bigR c n k gamma M = bigR c n k gamma M').
      { unfold bigR, run_delta. rewrite Hd. reflexivity. }
      assert (Hr : run_r c n k gamma M = run_r c n k gamma M') by (unfold run_r; now rewrite HR).
      split; [exact Hd|split; [exact HR|split; [exact Hr|]]].
      unfold run_s. rewrite Hr.
      exact (proj2 (masks_irrelevant_scalars q n k gamma w m M M' _ HM HM')).
    Qed.

    (* the summed s of the run verifies against  Y = x*G  *)
    Lemma run_s_good : forall M x,
      K mod q <> 0 -> G mod q <> 0 -> masks_ok q n k gamma w M -> eqm q x X ->
      let r := run_r c n k gamma M in
      eqm q (nsum n (run_sv c n k gamma w m M)) (K * (m + r * x)) /\
      cmul (nsum n (run_sv c n k gamma w m M)) (bigR c n k gamma M)
        = padd (cmul m B) (cmul r (cmul x B)).
    Proof.
      intros M x HK HG [H1 H2] Hx r.
      destruct (R_is_kinv_G M HK HG H1) as [_ HR].
      assert (ES : eqm q (nsum n (run_sv c n k gamma w m M)) (K * (m + r * x))).
      { unfold run_sv. rewrite (sum_s q n k w m M _ H2). fold r. rewrite Hx. reflexivity. }
      split; [exact ES|]. rewrite HR. apply s_good_iff. rewrite ES.
      transitivity ((K * inv_prime q K) * (m + r * x)); [apply eqm_of_eq; ring|].
      rewrite (eqm_inv q K Hq HK). apply eqm_of_eq. ring.
    Qed.

    (* 4 for the run: the honest run passes the check of round 9 *)
    Theorem run_phase5_passes : forall M x,
      K mod q <> 0 -> G mod q <> 0 -> masks_ok q n k gamma w M -> eqm q x X ->
      pV c n m (run_r c n k gamma M) (run_sv c n k gamma w m M) l (bigR c n k gamma M) (cmul x B)
        = cmul (nsum n l) B /\
      run_phase5_ok c n k gamma w m l rho M (cmul x B) = true.
    Proof.
      intros M x HK HG HM Hx.
      destruct (run_s_good M x HK HG HM Hx) as [_ Hs]. cbv zeta in Hs.
      destruct (R_is_kinv_G M HK HG (proj1 HM)) as [_ HR].
      unfold run_phase5_ok.
      destruct (phase5_complete n m (run_r c n k gamma M) (run_sv c n k gamma w m M) l rho
                  (bigR c n k gamma M) (cmul x B)) as (HV & _ & Hok).
      - rewrite HR. apply (c_in_sub_B c).
      - apply (c_in_sub_B c).
      - exact Hs.
      - split; assumption.
    Qed.
  End RunProofs.
End PointRounds.

(* ====================================================================== *)
(* F. the run against the closed form, and a run with one bad MtA output    *)
(* ====================================================================== *)

Section RunVsClosedForm.
  Variable c : curve.
  Hypothesis CL : curve_laws c.
  Local Notation q := (cq c).
  Local Notation B := (base c).
  Local Notation cmul := (@gmul (curve_group c)).
  Local Notation padd := (pt_add c).

  Let Hq : prime q := q_prime_c c CL.

  (* 3. the per-round run and SignAlg.ecdsa_sign end in the same outcome (same r, s, recovery
        id, echoed digest, and the same verdict of the final verification), for every choice
        of masks, gamma_i, l_i, rho_i, provided
          - sum k_i and sum gamma_i are units (otherwise round 4/5 panics or errs, see [sign_rounds]),
          - the group key is Y = x*G for the x the shares add up to,
          - no party hits the point at infinity in round 1 (gamma_i*G) or round 5 (a partial sum
            of the Gamma_j; s_i*R, l_i*G, rho_i*G, V_i). *)
  Theorem rounds_agree_with_closed_form : forall ks xs kis gamma m l rho M fullLen,
    let n := length ks in
    let k := vec kis in
    let ws := sign_weights q ks xs in
    let w := vec ws in
    length kis = length ks ->
    masks_ok q n k gamma w M ->
    zsum kis mod q <> 0 -> nsum n gamma mod q <> 0 ->
    let Y := cmul (zsum ws) B in
    r1_gamma_ok c n gamma = true -> r5_gamma_ok c n gamma = true ->
    r5_smul_ok c n (run_sv c n k gamma w m M) l rho (bigR c n k gamma M) = true ->
    r5_add_ok c n (run_sv c n k gamma w m M) l (bigR c n k gamma M) = true ->
    sign_rounds c n k gamma w m l rho M fullLen Y = ecdsa_sign c ks xs kis m fullLen Y.
  Proof.
    intros ks xs kis gamma m l rho M fullLen n k ws w Hlen HM HK0 HG Y Hg1 Hg5 Hsm Had.
    pose proof (prime_gt_1 q Hq) as Hq1.
    assert (EK : nsum n k = zsum kis).
    { unfold n, k. rewrite <- Hlen. apply nsum_vec. }
    assert (EX : nsum n w = zsum ws).
    { unfold n, w. rewrite <- (sign_weights_length q ks xs). apply nsum_vec. }
    assert (HK : nsum n k mod q <> 0) by (rewrite EK; exact HK0).
    destruct (R_scalar_is_kinv q n k gamma M Hq HK HG (proj1 HM)) as [Hd0 _].
    destruct (R_is_kinv_G c CL n k gamma M HK HG (proj1 HM)) as [_ HR].
    destruct (run_phase5_passes c CL n k gamma w m l rho M (zsum ws) HK HG HM
                ltac:(rewrite EX; reflexivity)) as [_ Hp5].
    fold Y in Hp5.
    unfold sign_rounds, ecdsa_sign. cbv zeta.
    destruct (m <? q); cbn [negb]; [|reflexivity].
    change (delta q n k gamma M) with (run_delta c n k gamma M) in Hd0.
    rewrite (proj2 (Z.eqb_neq _ 0) Hd0).
    rewrite Hg1, Hg5, Hsm, Had, Hp5. cbn [negb].
    rewrite (inv_prime_mod q (zsum kis)) by lia.
    rewrite (ec_base_mul_Ok_nz c CL).
    - cbn [obind]. rewrite <- EK. 
      assert (Hs : forall rx ry, bigR c n k gamma M = Some (rx, ry) ->
                run_s c n k gamma w m M
                = ((nsum n k mod q) * ((m + rx * (zsum ws mod q)) mod q)) mod q).
      { intros rx ry E. unfold run_s, run_r. rewrite E. cbn [r_of].
        rewrite (s_sum_closed_form q n k w m M rx (proj2 HM)). rewrite EX. reflexivity. }
      rewrite HR in Hs. rewrite HR.
      destruct (cmul (inv_prime q (nsum n k)) B) as [[rx ry]|]; [|reflexivity].
      rewrite (Hs rx ry eq_refl). reflexivity.
    - pose proof (inv_prime_range q (zsum kis) Hq1). lia.
    - right. apply inv_prime_nz; assumption.
  Qed.

  (* end to end: under the hypotheses of [ecdsa_sign_correct] the per-round run releases the
     valid low-s signature (rx, low_s (k (m + rx x))) under the group key x*G *)
  Corollary sign_rounds_correct : forall ks coefs xs kis gamma m l rho M fullLen rx ry mb,
    ck c = Weier -> q < 2 ^ 256 ->
    distinct_mod q ks -> (length coefs <= length ks)%nat -> on_poly q coefs ks xs ->
    let n := length ks in
    let kv := vec kis in
    let w := vec (sign_weights q ks xs) in
    let x := horner coefs 0 in
    let kk := zsum kis mod q in
    let s := (kk * ((m + rx * x) mod q)) mod q in
    length kis = length ks ->
    masks_ok q n kv gamma w M ->
    nsum n gamma mod q <> 0 ->
    kk <> 0 ->
    cmul (inv_prime q kk) B = Some (rx, ry) ->
    0 < rx < q -> s <> 0 ->
    0 <= m < q -> fullLen <= 32 -> echo_m m fullLen = Ok mb ->
    r1_gamma_ok c n gamma = true -> r5_gamma_ok c n gamma = true ->
    r5_smul_ok c n (run_sv c n kv gamma w m M) l rho (bigR c n kv gamma M) = true ->
    r5_add_ok c n (run_sv c n kv gamma w m M) l (bigR c n kv gamma M) = true ->
    exists sd,
      sign_rounds c n kv gamma w m l rho M fullLen (cmul x B) = Ok sd /\
      sM sd = mb /\ be_value (sR sd) = rx /\ be_value (sS sd) = low_s c s /\
      ecdsa_verify c (cmul x B) m rx (low_s c s) = true.
  Proof.
    intros ks coefs xs kis gamma m l rho M fullLen rx ry mb W Hq256 ND Hlc HP n kv w x kk s
           Hlen HM HG Hk HR Hrx Hs Hm Hf Em Hg1 Hg5 Hsm Had.
    destruct (ecdsa_sign_correct c CL ks coefs xs kis m fullLen rx ry mb W Hq256 ND Hlc HP
                Hk HR Hrx Hs Hm Hf Em) as (sd & E & _ & EM & _ & ER & ES & EV).
    exists sd. split; [|auto].
    assert (HY : cmul x B = cmul (zsum (sign_weights q ks xs)) B).
    { apply (c_gmul_eqm c CL). symmetry. destruct HP as [HL HS]. now apply weights_sum_secret. }
    fold x in E. rewrite HY in E |- *. rewrite <- E.
    apply rounds_agree_with_closed_form; assumption.
  Qed.

  (* 6, continued: with one bad MtA output in the k x gamma run (and a correct k x w run)
     every party computes a wrong R, and the check of round 9 FAILS, except in the
     degenerate cases listed as hypotheses *)
  Theorem one_bad_mta_fails_phase5 : forall n k gamma w m l rho M i0 j0 e x,
    (i0 < n)%nat -> (j0 < n)%nat -> i0 <> j0 ->
    (forall i j, (i < n)%nat -> (j < n)%nat -> i <> j -> (i, j) <> (i0, j0) ->
       eqm q (m_alpha M i j + m_beta M j i) (k i * gamma j)) ->
    eqm q (m_alpha M i0 j0 + m_beta M j0 i0) (k i0 * gamma j0 + e) ->
    mta_ok q n k w (m_mu M) (m_nu M) ->
    eqm q x (nsum n w) ->
    e mod q <> 0 ->
    nsum n k mod q <> 0 ->
    (nsum n k * nsum n gamma + e) mod q <> 0 ->          (* else delta = 0: round 4/5 panics *)
    let r := run_r c n k gamma M in
    (m + r * x) mod q <> 0 ->                            (* else s = 0 whatever R is *)
    nsum n rho mod q <> 0 ->                             (* else the check is void *)
    bigR c n k gamma M <> cmul (inv_prime q (nsum n k)) B /\
    run_phase5_ok c n k gamma w m l rho M (cmul x B) = false.
  Proof.
    intros n k gamma w m l rho M i0 j0 e x Hi Hj Hij Hgood Hbad Hwc Hx He HK Hd r Hmr Hrho.
    destruct (one_bad_mta_shifts_delta q n k gamma M i0 j0 e Hi Hj Hij Hgood Hbad) as [_ Ed].
    fold (run_delta c n k gamma M) in Ed.
    assert (Hd0 : run_delta c n k gamma M mod q <> 0).
    { unfold eqm in Ed. rewrite Ed. exact Hd. }
    pose proof (one_bad_mta_wrong_R q n k gamma _ e Hq HK He Hd0 Ed) as Hwrong.
    set (rs := inv_prime q (run_delta c n k gamma M) * nsum n gamma) in *.
    pose proof (bigR_x c CL n k gamma M) as HR. fold rs in HR.
    split.
    { rewrite HR. intros E. apply Hwrong. now apply (c_gmul_inj c CL). }
    assert (ES : eqm q (nsum n (run_sv c n k gamma w m M)) (nsum n k * (m + r * x))).
    { unfold run_sv. rewrite (sum_s q n k w m M _ Hwc). fold r. rewrite Hx. reflexivity. }
    destruct (phase5_detects_bad_s c CL n m r (run_sv c n k gamma w m M) l rho
                (bigR c n k gamma M) (cmul x B)) as (e5 & _ & _ & _ & _ & Hok).
    - rewrite HR. apply (c_in_sub_B c).
    - apply (c_in_sub_B c).
    - rewrite HR. intros E. apply (s_good_iff c CL) in E. rewrite ES in E.
      (* K (m + r x) rs = m + r x  ==>  K rs = 1  ==>  rs = K^-1 *)
      apply Hwrong. apply (eqm_inv_unique q (nsum n k)); [exact Hq|exact HK| |now apply eqm_inv].
      apply (eqm_mul_cancel_l q (m + r * x)); [exact Hq|exact Hmr|].
      transitivity (nsum n k * (m + r * x) * rs); [apply eqm_of_eq; ring|].
      rewrite E. apply eqm_of_eq. ring.
    - unfold run_phase5_ok. fold r.
      destruct (phase5_ok c n m r (run_sv c n k gamma w m M) l rho (bigR c n k gamma M) (cmul x B));
        [|reflexivity].
      exfalso. apply Hrho. now apply Hok.
  Qed.
End RunVsClosedForm.

(* whatever the masks are (even ones that violate the contract): what the run releases verifies *)
Theorem rounds_release_implies_valid : forall c, 0 < cq c ->
  forall n k gamma w m l rho M fullLen Y sd,
  sign_rounds c n k gamma w m l rho M fullLen Y = Ok sd ->
  ecdsa_verify c Y (hash_to_int (sM sd)) (be_value (sR sd)) (be_value (sS sd)) = true /\
  be_value (sR sd) = run_r c n k gamma M /\
  be_value (sS sd) = low_s c (run_s c n k gamma w m M) /\
  run_phase5_ok c n k gamma w m l rho M Y = true.
Proof.
  intros c Hq1 n k gamma w m l rho M fullLen Y sd E.
  unfold sign_rounds in E.
  destruct (negb (m <? cq c)); [discriminate|].
  destruct (negb (r1_gamma_ok c n gamma)); [discriminate|].
  destruct (run_delta c n k gamma M =? 0); [discriminate|].
  destruct (negb (r5_gamma_ok c n gamma)); [discriminate|].
  assert (Hr : run_r c n k gamma M = r_of (bigR c n k gamma M)) by reflexivity.
  destruct (bigR c n k gamma M) as [[rx ry]|]; [|discriminate]. cbn [r_of] in Hr.
  destruct (negb (r5_smul_ok _ _ _ _ _ _)); [discriminate|].
  destruct (negb (r5_add_ok _ _ _ _ _)); [discriminate|].
  destruct (run_phase5_ok c n k gamma w m l rho M Y); [|discriminate].
  assert (Hs : 0 <= run_s c n k gamma w m M < cq c).
  { unfold run_s, s_sum. apply Z.mod_pos_bound. lia. }
  destruct (finalize_unfold c _ _ _ _ _ _ _ E) as (mb & _ & Ev & Esd).
  pose proof (verify_true_guard c _ _ _ _ Ev) as [Hrx _].
  pose proof (low_s_range c _ Hs) as Hls.
  split; [apply (release_implies_valid c rx ry _ m fullLen Y sd E); lia|].
  rewrite Esd. cbn [sR sS]. rewrite !be_value_pad_bytes by lia. rewrite Hr. auto.
Qed.

(* ====================================================================== *)
(* G. a computed run on the toy curve  y^2 = x^3 + 7 over F_43  (q = 31)     *)
(* ====================================================================== *)

Module SignRoundsExamples.
  Definition c := toyW43.
  Local Notation cmul := (@gmul (curve_group c)).
  Local Notation B := (base c).

  (* three signers with ids 1,2,3 holding shares of f(z) = 17 + 4z, so x = 17 *)
  Definition ks := [1; 2; 3].
  Definition xs := [21; 25; 29].
  Definition ws := sign_weights 31 ks xs.
  Definition kis := [3; 5; 7].            (* k = 15 *)
  Definition k := vec kis.
  Definition gamma := vec [2; 9; 4].      (* gamma = 15 *)
  Definition w := vec ws.
  Definition l := vec [4; 9; 15].
  Definition rho := vec [16; 23; 5].
  Definition m := 11.
  Definition Y : pt := cmul 17 B.
  (* Bob's beta' of the two MtA runs, bp j i = the one Bob j drew against Alice i *)
  Definition bp := mat [[0; 100; 7]; [12; 0; 30]; [5; 77; 0]].
  Definition bpw := mat [[0; 3; 14]; [16; 0; 9]; [26; 5; 0]].
  Definition M := honest_masks 31 k gamma w bp bpw.

  Example ex_weights : ws = [1; 18; 29] /\ zsum ws mod 31 = 17.
  Proof. vm_compute. split; reflexivity. Qed.

  Example ex_masks_ok :
    pairs_okb 31 3 k gamma (m_alpha M) (m_beta M) = true /\
    pairs_okb 31 3 k w (m_mu M) (m_nu M) = true.
  Proof. vm_compute. split; reflexivity. Qed.

  (* round 3 *)
  Example ex_round3 :
    map (delta_i 31 3 k gamma M) (seq 0 3) = [17; 24; 29] /\
    map (sigma_i 31 3 k w M) (seq 0 3) = [14; 6; 18].
  Proof. vm_compute. split; reflexivity. Qed.

  Example ex_sum_delta :
    nsum 3 (delta_i 31 3 k gamma M) mod 31 = (nsum 3 k * nsum 3 gamma) mod 31 /\
    nsum 3 (sigma_i 31 3 k w M) mod 31 = (nsum 3 k * nsum 3 w) mod 31.
  Proof. vm_compute. split; reflexivity. Qed.

  (* rounds 4-5: R is the closed form's R *)
  Example ex_R :
    bigR c 3 k gamma M = Some (7, 36) /\
    ec_base_mul c (inv_prime 31 (zsum kis mod 31)) = Ok (bigR c 3 k gamma M).
  Proof. vm_compute. split; reflexivity. Qed.

  (* round 5 / finalize: s is the closed form's s *)
  Example ex_s :
    map (run_sv c 3 k gamma w m M) (seq 0 3) = [7; 4; 17] /\
    run_s c 3 k gamma w m M = 28 /\
    run_s c 3 k gamma w m M = ((zsum kis mod 31) * ((m + 7 * (zsum ws mod 31)) mod 31)) mod 31.
  Proof. vm_compute. repeat split; reflexivity. Qed.

  (* rounds 5-9 *)
  Example ex_phase5 :
    let r := run_r c 3 k gamma M in
    let sv := run_sv c 3 k gamma w m M in
    let R := bigR c 3 k gamma M in
    pV c 3 m r sv l R Y = cmul (nsum 3 l) B /\
    ptsum c 3 (pU_i c 3 m r sv l rho R Y) = ptsum c 3 (pT_i c 3 l rho) /\
    run_phase5_ok c 3 k gamma w m l rho M Y = true.
  Proof. vm_compute. repeat split; reflexivity. Qed.

  Example ex_run :
    sign_rounds c 3 k gamma w m l rho M 0 Y = ecdsa_sign c ks xs kis m 0 Y /\
    exists sd, sign_rounds c 3 k gamma w m l rho M 0 Y = Ok sd /\
               be_value (sR sd) = 7 /\ be_value (sS sd) = 3 /\ sRec sd = 1.
  Proof. split; [vm_compute; reflexivity|]. eexists. split; [vm_compute; reflexivity|]. vm_compute. auto. Qed.

  (* other masks, same broadcast sum, same R, r, s *)
  Definition M' := honest_masks 31 k gamma w bpw bp.
  Example ex_masks_irrelevant :
    map (delta_i 31 3 k gamma M') (seq 0 3) <> map (delta_i 31 3 k gamma M) (seq 0 3) /\
    run_delta c 3 k gamma M' = run_delta c 3 k gamma M /\
    bigR c 3 k gamma M' = bigR c 3 k gamma M /\
    run_s c 3 k gamma w m M' = run_s c 3 k gamma w m M.
  Proof. vm_compute. repeat split; try reflexivity. discriminate. Qed.

  (* one bad MtA output: Alice 0's alpha against Bob 1 is off by 1 *)
  Definition Mbad := mkMasks
    (fun i j => if Nat.eqb i 0 && Nat.eqb j 1 then m_alpha M i j + 1 else m_alpha M i j)
    (m_beta M) (m_mu M) (m_nu M).

  Example ex_bad_mta :
    let r := run_r c 3 k gamma Mbad in
    let sv := run_sv c 3 k gamma w m Mbad in
    let R := bigR c 3 k gamma Mbad in
    run_delta c 3 k gamma Mbad = (nsum 3 k * nsum 3 gamma + 1) mod 31 /\
    R = Some (37, 36) /\ R <> bigR c 3 k gamma M /\
    r5_smul_ok c 3 sv l rho R = true /\ r5_add_ok c 3 sv l R = true /\
    ptsum c 3 (pU_i c 3 m r sv l rho R Y) = Some (2, 12) /\
    ptsum c 3 (pT_i c 3 l rho) = Some (32, 3) /\
    run_phase5_ok c 3 k gamma w m l rho Mbad Y = false /\
    sign_rounds c 3 k gamma w m l rho Mbad 0 Y = Err.
  Proof. vm_compute. repeat split; try reflexivity. discriminate. Qed.

  (* masks that satisfy the contract but make s_0 = 0: party 0 panics in R.ScalarMult(si)
     (round_5.go:74) although the closed form releases a signature *)
  Definition bpw0 := mat [[0; 3; 14]; [15; 0; 9]; [26; 5; 0]].
  Definition M0 := honest_masks 31 k gamma w bp bpw0.
  Example ex_mask_dependent_panic :
    run_sv c 3 k gamma w m M0 0%nat = 0 /\
    sign_rounds c 3 k gamma w m l rho M0 0 Y = Panic /\
    exists sd, ecdsa_sign c ks xs kis m 0 Y = Ok sd.
  Proof. split; [vm_compute; reflexivity|]. split; [vm_compute; reflexivity|]. eexists. vm_compute. reflexivity. Qed.
End SignRoundsExamples.

(* the natural statement "the run equals the closed form whenever the masks satisfy the
   contract" is FALSE without the round-5 hypotheses of [rounds_agree_with_closed_form] *)
Theorem rounds_agree_without_round5_guards_refuted :
  ~ (forall c, curve_laws c -> forall ks xs kis gamma m l rho M fullLen,
       length kis = length ks ->
       masks_ok (cq c) (length ks) (vec kis) gamma (vec (sign_weights (cq c) ks xs)) M ->
       zsum kis mod cq c <> 0 -> nsum (length ks) gamma mod cq c <> 0 ->
       sign_rounds c (length ks) (vec kis) gamma (vec (sign_weights (cq c) ks xs)) m l rho M fullLen
                   (@gmul (curve_group c) (zsum (sign_weights (cq c) ks xs)) (base c))
       = ecdsa_sign c ks xs kis m fullLen
                   (@gmul (curve_group c) (zsum (sign_weights (cq c) ks xs)) (base c))).
Proof.
  intros H. Import SignRoundsExamples.
  specialize (H toyW43 toyW43_laws ks xs kis gamma m l rho M0 0 eq_refl).
  assert (HM : masks_ok (cq toyW43) (length ks) (vec kis) gamma (vec (sign_weights (cq toyW43) ks xs)) M0).
  { split; apply honest_masks_ok. }
  specialize (H HM ltac:(vm_compute; discriminate) ltac:(vm_compute; discriminate)).
  vm_compute in H. discriminate.
Qed.

(* "sum_j Gamma_j is a proper point, so round 5 computes R" is FALSE party by party: with
   gamma_0 + gamma_1 = 0 (mod q) parties 0 and 1 fail in R.Add (round_5.go:55-58) and blame
   each other, while party 2, which adds in another order, goes on *)
Theorem partial_gamma_sum_abort_refuted :
  ~ (forall c, curve_laws c -> forall n gamma i, (i < n)%nat ->
       r1_gamma_ok c n gamma = true -> representable (Gamma_sum c n gamma) = true ->
       exists P, party_Gamma_sum c n gamma i = Ok P).
Proof.
  intros H.
  destruct (H toyW43 toyW43_laws 3%nat (vec [2; 29; 4]) 0%nat ltac:(lia) eq_refl eq_refl) as [P E].
  vm_compute in E. discriminate.
Qed.

Example ex_partial_gamma_sum :
  let gamma := vec [2; 29; 4] in
  party_Gamma_sum toyW43 3 gamma 0 = Err /\ party_Gamma_sum toyW43 3 gamma 1 = Err /\
  party_Gamma_sum toyW43 3 gamma 2 = Ok (Gamma_sum toyW43 3 gamma).
Proof. vm_compute. repeat split; reflexivity. Qed.

Print Assumptions nsum_osum_swap.
Print Assumptions pairs_okb_spec.
Print Assumptions honest_masks_ok.
Print Assumptions mix_sum_err.
Print Assumptions sum_delta.
Print Assumptions sum_sigma.
Print Assumptions R_scalar_is_kinv.
Print Assumptions sum_s.
Print Assumptions s_sum_closed_form.
Print Assumptions masks_irrelevant_scalars.
Print Assumptions one_bad_mta_shifts_delta.
Print Assumptions one_bad_mta_wrong_R.
Print Assumptions phase5_scalar_iff.
Print Assumptions phase5_complete_scalar.
Print Assumptions phase5_detects_bad_s_scalar.
Print Assumptions phase5_complete.
Print Assumptions phase5_detects_bad_s.
Print Assumptions r5_ok_scalars.
Print Assumptions party_Gamma_sum_spec.
Print Assumptions R_is_kinv_G.
Print Assumptions masks_irrelevant.
Print Assumptions run_delta_modinv.
Print Assumptions run_s_good.
Print Assumptions run_phase5_passes.
Print Assumptions rounds_agree_with_closed_form.
Print Assumptions sign_rounds_correct.
Print Assumptions one_bad_mta_fails_phase5.
Print Assumptions rounds_release_implies_valid.
Print Assumptions rounds_agree_without_round5_guards_refuted.
Print Assumptions partial_gamma_sum_abort_refuted.
Print Assumptions SignRoundsExamples.ex_sum_delta.
Print Assumptions SignRoundsExamples.ex_R.
Print Assumptions SignRoundsExamples.ex_s.
Print Assumptions SignRoundsExamples.ex_phase5.
Print Assumptions SignRoundsExamples.ex_run.
Print Assumptions SignRoundsExamples.ex_masks_irrelevant.
Print Assumptions SignRoundsExamples.ex_bad_mta.
Print Assumptions SignRoundsExamples.ex_mask_dependent_panic.
Print Assumptions ex_partial_gamma_sum.
