(* Per-run obligations on the translator's inventory of error-report sites. *)
From Coq Require Import List String Bool.
From TSS Require Import Model.Blame Gen.BlameSites.
Import ListNotations.

(* every WrapError site names only the peer under examination, the party itself, nobody, or an accumulated per-peer list *)
Lemma blame_sites_ok : sites_ok blame_sites = true.
Proof. vm_compute. reflexivity. Qed.

(* no goroutine / callback inside a per-peer loop captures the loop variables (go 1.16 semantics: one variable per loop) *)
Lemma no_loop_var_captures : loop_var_captures = [].
Proof. reflexivity. Qed.

Lemma blame_sites_nonempty : (100 <= List.length blame_sites)%nat.
Proof. vm_compute. repeat constructor. Qed.

(* the only pairwise (order-dependent) checks are the two recorded ones *)
Lemma pairwise_sites_as_recorded : string_list_eqb pairwise_sites expected_pairwise_sites = true.
Proof. vm_compute. reflexivity. Qed.
