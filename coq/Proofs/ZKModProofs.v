(* Proofs about Model/ZKMod.v (facproof, modproof, dlnproof) and the Paillier
   key-correctness proof of Model/Paillier.v.  Properties C10 / C11 / C12.

   Main results and the status of their hypotheses
   (S = structural, G = verifier guard stated as hypothesis because it fails only with
    negligible probability for an honest prover, M = mathematical fact assumed, not proved):
   - dln_complete      S: 0<N, 0<p*q, h1^(pq)=1, 0<=x, h2=h1^x, 128 draws >= 0
                       G: in_1_N of h1, h2, every alpha_i, every t_i; h1 <> h2 (mod N)
     safe_prime_product_order shows h1 = f^2 has order dividing pq (what keygen provides).
   - dln_sound_bit     S: 0<N, alpha unit, 0<=t0<=t1 (dln_sound_bit_rev: t1<=t0)
   - fac_complete      S: N0=p0*q0, 0<p0,q0, 0<NCap, 0<cq c, draws >= 0
                       G: z1, z2 in [0,q^3 sqrt N0), 0 <= v
   - fac_range_rejects, fac_verify_total, fac_verify_no_panic: unconditional / as stated
   - pai_complete(_gen) S: P,Q distinct primes, prover returned Ok; the verifier's size guard
                       and small-factor test hold for N.  No G hypotheses.
   - mod_verify_total, mod_verify_rejects_even_or_prime: unconditional
   - mod_complete_index S: Blum integer, candidate = square of a unit
   - mod_complete_qr   S: Blum integer, Jacobi(W,N) = -1, 0<W<N, gcd(W,N)=1, oracle says
                       composite, prover returned Ok;  M: QRsound (Jacobi symbol 1 modulo P
                       and Q implies square of a unit modulo N).  No G hypotheses.
   Every main theorem has a toy instance in section 7 (the Paillier one needs a 241-bit
   modulus because of the verifier's size guard: primality by Pocklington certificates). *)
From Coq Require Import ZArith Znumtheory Zpow_facts List Lia Bool Setoid Morphisms.
From TSS Require Import Base.Outcome Base.Bytes Base.ZMod Base.GoInt Model.Framing Model.Group
  Model.Curve Model.Paillier Model.Schnorr Model.MtA Model.ZKMod
  Proofs.BytesProofs Proofs.FermatBridge Proofs.ZModProofs Proofs.PaillierProofs.
Import ListNotations.
Open Scope Z_scope.

(* ================================================================== *)
(* 1. powmod library (modulus m > 0; m > 1 where "1 mod m = 1" matters) *)
(* ================================================================== *)

Lemma zk_mmul_eqm m x y : eqm m (mmul m x y) (x * y).
Proof. unfold mmul. apply eqm_mod. Qed.

Lemma zk_powmod_eqm m x e : 0 < m -> 0 <= e -> eqm m (powmod x e m) (x ^ e).
Proof. intros Hm He. rewrite powmod_spec by assumption. apply eqm_mod. Qed.

Lemma zk_mmul_range m x y : 0 < m -> 0 <= mmul m x y < m.
Proof. intros Hm. unfold mmul. apply Z.mod_pos_bound. lia. Qed.

Lemma zk_mmul_mod_l m x y : 0 < m -> mmul m (x mod m) y = mmul m x y.
Proof. intros Hm. unfold mmul. apply Z.mul_mod_idemp_l. lia. Qed.

Lemma zk_mmul_mod_r m x y : 0 < m -> mmul m x (y mod m) = mmul m x y.
Proof. intros Hm. unfold mmul. apply Z.mul_mod_idemp_r. lia. Qed.

Lemma zk_powmod_0 x m : powmod x 0 m = 1 mod m.
Proof. reflexivity. Qed.

Lemma zk_powmod_1 x m : 0 < m -> powmod x 1 m = x mod m.
Proof. intros Hm. rewrite powmod_spec by lia. now rewrite Z.pow_1_r. Qed.

Lemma zk_powmod_add x a b m : 0 < m -> 0 <= a -> 0 <= b ->
  powmod x (a + b) m = mmul m (powmod x a m) (powmod x b m).
Proof.
  intros Hm Ha Hb. unfold mmul. rewrite !powmod_spec by lia.
  rewrite Z.pow_add_r by lia. apply Z.mul_mod. lia.
Qed.

Lemma zk_powmod_mul_exp x a b m : 0 < m -> 0 <= a -> 0 <= b ->
  powmod x (a * b) m = powmod (powmod x a m) b m.
Proof.
  intros Hm Ha Hb. rewrite (powmod_spec x a) by lia. rewrite powmod_mod by lia.
  rewrite !powmod_spec by nia. now rewrite Z.pow_mul_r by lia.
Qed.

Lemma zk_powmod_mul_base x y e m : 0 < m -> 0 <= e ->
  powmod (x * y) e m = mmul m (powmod x e m) (powmod y e m).
Proof.
  intros Hm He. unfold mmul. rewrite !powmod_spec by lia.
  rewrite Z.pow_mul_l. apply Z.mul_mod. lia.
Qed.

Lemma zk_powmod_mmul_base x y e m : 0 < m -> 0 <= e ->
  powmod (mmul m x y) e m = mmul m (powmod x e m) (powmod y e m).
Proof.
  intros Hm He. unfold mmul at 1. rewrite powmod_mod by lia. now apply zk_powmod_mul_base.
Qed.

Lemma zk_powmod_one_base e m : 0 < m -> 0 <= e -> powmod 1 e m = 1 mod m.
Proof. intros Hm He. rewrite powmod_spec by lia. now rewrite Z.pow_1_l. Qed.

(* units are closed under mmul and powmod *)
Lemma zk_gcd_mod x m : 0 < m -> Z.gcd (x mod m) m = Z.gcd x m.
Proof. intros Hm. apply gcd_eqm; [lia|]. apply eqm_mod. Qed.

Lemma zk_unit_mmul m x y : 0 < m -> Z.gcd x m = 1 -> Z.gcd y m = 1 -> Z.gcd (mmul m x y) m = 1.
Proof. intros Hm Hx Hy. unfold mmul. rewrite zk_gcd_mod by lia. now apply gcd_1_mul_l. Qed.

Lemma zk_unit_powmod m x e : 0 < m -> 0 <= e -> Z.gcd x m = 1 -> Z.gcd (powmod x e m) m = 1.
Proof.
  intros Hm He Hx. rewrite powmod_spec by lia. rewrite zk_gcd_mod by lia. now apply gcd_1_pow_l.
Qed.

(* a unit can be cancelled *)
Lemma zk_unit_cancel m a x y : 0 < m -> Z.gcd a m = 1 -> eqm m (a * x) (a * y) -> eqm m x y.
Proof.
  intros Hm Ha E.
  destruct (modinv_complete a m Hm Ha) as [ai Hai].
  destruct (modinv_sound a m ai Hm Hai) as [S _].
  assert (F : forall z, eqm m z (ai * (a * z))).
  { intros z. replace (ai * (a * z)) with ((a * ai) * z) by ring.
    assert (E1 : eqm m (a * ai) 1) by exact S.
    rewrite E1. apply eqm_of_eq; ring. }
  rewrite (F x), (F y), E. reflexivity.
Qed.

(* exponents can be reduced modulo any k with x^k = 1 *)
Lemma zk_pow_order_mult m x k j : 0 < m -> 0 <= k -> 0 <= j ->
  eqm m (x ^ k) 1 -> eqm m (x ^ (k * j)) 1.
Proof.
  intros Hm Hk Hj E. rewrite Z.pow_mul_r by lia. now apply eqm_1_pow.
Qed.

Lemma zk_pow_mod_order m x k a : 0 < m -> 0 < k -> 0 <= a ->
  eqm m (x ^ k) 1 -> eqm m (x ^ (a mod k)) (x ^ a).
Proof.
  intros Hm Hk Ha E.
  pose proof (Z.div_mod a k ltac:(lia)) as D.
  pose proof (Z.mod_pos_bound a k Hk) as B.
  assert (Hd : 0 <= a / k) by (apply Z.div_pos; lia).
  rewrite D at 2. rewrite Z.pow_add_r by nia.
  rewrite (zk_pow_order_mult m x k (a / k)) by (assumption || lia).
  apply eqm_of_eq; ring.
Qed.

Lemma zk_powmod_order_eqm m x k : 0 < m -> 0 <= k ->
  powmod x k m = 1 mod m -> eqm m (x ^ k) 1.
Proof.
  intros Hm Hk E. unfold eqm. rewrite <- E. now rewrite powmod_spec by lia.
Qed.

Lemma zk_powmod_mod_order m x k a : 0 < m -> 0 < k -> 0 <= a ->
  powmod x k m = 1 mod m -> powmod x (a mod k) m = powmod x a m.
Proof.
  intros Hm Hk Ha E.
  pose proof (Z.mod_pos_bound a k Hk) as B.
  rewrite !powmod_spec by lia.
  apply (zk_pow_mod_order m x k a); try assumption.
  apply zk_powmod_order_eqm; (assumption || lia).
Qed.

(* go_exp on a non-negative exponent *)
Lemma zk_go_exp_nonneg x y m : 0 < m -> 0 <= y -> go_exp x y m = Some (powmod x y m).
Proof.
  intros Hm Hy. unfold go_exp. destruct (0 <=? y) eqn:E; [|apply Z.leb_gt in E; lia].
  now rewrite powmod_mod by lia.
Qed.

(* go_exp never returns nil on a unit *)
Lemma zk_go_exp_unit x y m : 0 < m -> Z.gcd x m = 1 -> exists v, go_exp x y m = Some v.
Proof.
  intros Hm G. unfold go_exp. destruct (0 <=? y); [eexists; reflexivity|].
  destruct (modinv_complete x m Hm G) as [xi ->]. eexists; reflexivity.
Qed.

(* ================================================================== *)
(* 2. Fermat / CRT for a product of two distinct primes                 *)
(* ================================================================== *)

Lemma zk_rel_prime_primes P Q : prime P -> prime Q -> P <> Q -> rel_prime P Q.
Proof.
  intros HP HQ Hne. apply prime_rel_prime; [assumption|].
  intros D. apply Hne. now apply prime_div_prime.
Qed.

Lemma zk_unit_mod_prime_factor p n x : prime p -> (p | n) -> Z.gcd x n = 1 -> x mod p <> 0.
Proof.
  intros Hp Hd G E. pose proof (prime_gt_1 p Hp) as H1.
  apply Z.mod_divide in E; [|lia].
  pose proof (Z.gcd_greatest x n p E Hd) as D. rewrite G in D.
  apply Z.divide_1_r_nonneg in D; lia.
Qed.

(* generalisation of PaillierProofs.carmichael_N: any exponent that is a
   non-negative multiple of both P-1 and Q-1 kills every unit modulo P*Q *)
Lemma zk_fermat_mult p x j : prime p -> x mod p <> 0 -> 0 <= j -> eqm p (x ^ ((p - 1) * j)) 1.
Proof.
  intros Hp Hx Hj. pose proof (prime_gt_1 p Hp) as H1.
  rewrite Z.pow_mul_r by lia. apply eqm_1_pow; [assumption|].
  unfold eqm. rewrite Zfermat_little by assumption. symmetry. apply Z.mod_small. lia.
Qed.

Lemma zk_crt_eqm P Q a b : prime P -> prime Q -> P <> Q ->
  eqm P a b -> eqm Q a b -> eqm (P * Q) a b.
Proof.
  intros HP HQ Hne EP EQ.
  pose proof (prime_gt_1 P HP) as P1. pose proof (prime_gt_1 Q HQ) as Q1.
  apply eqm_sub_0 in EP. apply eqm_sub_0 in EQ.
  apply eqm_0_iff in EP. apply eqm_0_iff in EQ.
  apply Z.mod_divide in EP; [|lia]. apply Z.mod_divide in EQ; [|lia].
  pose proof (divide_coprime_mult P Q _ (zk_rel_prime_primes P Q HP HQ Hne) EP EQ) as [i Hi].
  apply eqm_sub_0. apply eqm_0_iff. rewrite Hi. apply Z_mod_mult.
Qed.

Lemma zk_carmichael_gen P Q x e jp jq : prime P -> prime Q -> P <> Q ->
  0 <= jp -> 0 <= jq -> e = (P - 1) * jp -> e = (Q - 1) * jq ->
  Z.gcd x (P * Q) = 1 -> eqm (P * Q) (x ^ e) 1.
Proof.
  intros HP HQ Hne Hjp Hjq EP EQ G.
  apply zk_crt_eqm; try assumption.
  - rewrite EP. apply zk_fermat_mult; try assumption.
    apply (zk_unit_mod_prime_factor P (P * Q)); [assumption| |assumption]. exists Q. ring.
  - rewrite EQ. apply zk_fermat_mult; try assumption.
    apply (zk_unit_mod_prime_factor Q (P * Q)); [assumption| |assumption]. exists P. ring.
Qed.

Lemma zk_euler_PQ P Q x : prime P -> prime Q -> P <> Q ->
  Z.gcd x (P * Q) = 1 -> eqm (P * Q) (x ^ ((P - 1) * (Q - 1))) 1.
Proof.
  intros HP HQ Hne G.
  pose proof (prime_gt_1 P HP) as P1. pose proof (prime_gt_1 Q HQ) as Q1.
  apply (zk_carmichael_gen P Q x _ (Q - 1) (P - 1)); try assumption; try lia; ring.
Qed.

(* x^(1 + j*phi) = x modulo a product of two distinct primes, for EVERY x (no unit
   hypothesis): the RSA identity *)
Lemma zk_rsa_prime p x j : prime p -> 0 <= j -> eqm p (x ^ (1 + (p - 1) * j)) x.
Proof.
  intros Hp Hj. pose proof (prime_gt_1 p Hp) as H1.
  rewrite Z.pow_add_r by nia. rewrite Z.pow_1_r.
  destruct (Z.eq_dec (x mod p) 0) as [E0|E0].
  - assert (X0 : eqm p x 0) by (apply eqm_0_iff; exact E0).
    rewrite X0 at 1. rewrite X0 at 2. apply eqm_of_eq. ring.
  - rewrite (zk_fermat_mult p x j Hp E0 Hj). apply eqm_of_eq. ring.
Qed.

Lemma zk_rsa_PQ P Q x j : prime P -> prime Q -> P <> Q -> 0 <= j ->
  eqm (P * Q) (x ^ (1 + j * ((P - 1) * (Q - 1)))) x.
Proof.
  intros HP HQ Hne Hj.
  pose proof (prime_gt_1 P HP) as P1. pose proof (prime_gt_1 Q HQ) as Q1.
  apply zk_crt_eqm; try assumption.
  - replace (1 + j * ((P - 1) * (Q - 1))) with (1 + (P - 1) * (j * (Q - 1))) by ring.
    apply zk_rsa_prime; [assumption|nia].
  - replace (1 + j * ((P - 1) * (Q - 1))) with (1 + (Q - 1) * (j * (P - 1))) by ring.
    apply zk_rsa_prime; [assumption|nia].
Qed.

(* ================================================================== *)
(* 3. dlnproof (C12)                                                    *)
(* ================================================================== *)

(* key generation provides the order hypothesis of dln_complete: h1 = f^2 mod N with
   N = (2p+1)(2q+1) a product of two distinct safe primes has order dividing p*q *)
Theorem safe_prime_product_order : forall p q N f,
  prime (2 * p + 1) -> prime (2 * q + 1) -> p <> q -> N = (2 * p + 1) * (2 * q + 1) ->
  Z.gcd f N = 1 -> powmod ((f * f) mod N) (p * q) N = 1 mod N.
Proof.
  intros p q N f HP HQ Hne -> G.
  pose proof (prime_gt_1 _ HP) as P1. pose proof (prime_gt_1 _ HQ) as Q1.
  assert (HN : 0 < (2 * p + 1) * (2 * q + 1)) by nia.
  rewrite powmod_mod by assumption. rewrite powmod_spec by nia.
  replace (f * f) with (f ^ 2) by ring. rewrite <- Z.pow_mul_r by nia.
  apply (zk_carmichael_gen (2 * p + 1) (2 * q + 1) f _ q p); try assumption; try lia; ring.
Qed.

Definition dln_check_index (ci : bool) (h1 h2 N a t : Z) : bool :=
  match go_exp h1 t N with
  | Some l => l =? (a * powmod h2 (if ci then 1 else 0) N) mod N
  | None => false
  end.

Definition dln_guards (h1 h2 N : Z) (alphas ts : list Z) : bool :=
  (0 <? N) && in_1_N h1 N && in_1_N h2 N && negb (h1 mod N =? h2 mod N)
  && forallb (fun t => in_1_N t N) ts && forallb (fun a => in_1_N a N) alphas.

(* dln_verify = range guards /\ forallb of the per-index check over the challenge bits *)
Theorem dln_verify_unfold : forall H h1 h2 N alphas ts,
  dln_verify H h1 h2 N alphas ts =
  Ok (dln_guards h1 h2 N alphas ts &&
      forallb (fun iat => dln_check_index
                            (Z.testbit (dln_challenge H h1 h2 N alphas) (Z.of_nat (fst iat)))
                            h1 h2 N (fst (snd iat)) (snd (snd iat)))
              (combine (seq 0 DlnIters) (combine alphas ts))).
Proof.
  intros H h1 h2 N alphas ts. unfold dln_verify, dln_guards.
  destruct (0 <? N) eqn:G1; cbn [negb andb]; [|reflexivity].
  destruct (in_1_N h1 N) eqn:G2; cbn [negb andb]; [|reflexivity].
  destruct (in_1_N h2 N) eqn:G3; cbn [negb andb]; [|reflexivity].
  destruct (h1 mod N =? h2 mod N) eqn:G4; cbn [negb andb]; [reflexivity|].
  destruct (forallb (fun t => in_1_N t N) ts) eqn:G5; cbn [negb andb]; [|reflexivity].
  destruct (forallb (fun a => in_1_N a N) alphas) eqn:G6; cbn [negb andb]; [|reflexivity].
  reflexivity.
Qed.

(* per-index completeness *)
Lemma dln_index_complete h1 x p q N a (ci : bool) :
  0 < N -> 0 < p * q -> powmod h1 (p * q) N = 1 mod N -> 0 <= x -> 0 <= a ->
  dln_check_index ci h1 (powmod h1 x N) N (powmod h1 a N)
    ((a + (if ci then 1 else 0) * x mod (p * q)) mod (p * q)) = true.
Proof.
  intros HN Hpq Hord Hx Ha. unfold dln_check_index.
  set (c := if ci then 1 else 0).
  assert (Hc : 0 <= c) by (subst c; destruct ci; lia).
  pose proof (Z.mod_pos_bound (c * x) (p * q) Hpq) as B1.
  pose proof (Z.mod_pos_bound (a + (c * x) mod (p * q)) (p * q) Hpq) as B2.
  rewrite zk_go_exp_nonneg by lia.
  apply Z.eqb_eq.
  rewrite (zk_powmod_mod_order N h1 (p * q)) by (assumption || lia).
  rewrite zk_powmod_add by lia.
  rewrite (zk_powmod_mod_order N h1 (p * q)) by (assumption || nia).
  rewrite (Z.mul_comm c x). rewrite zk_powmod_mul_exp by lia.
  reflexivity.
Qed.

Lemma dln_forallb_complete h1 x p q N ch :
  0 < N -> 0 < p * q -> powmod h1 (p * q) N = 1 mod N -> 0 <= x ->
  forall as_ s, Forall (fun a => 0 <= a) as_ ->
  forallb (fun iat => dln_check_index (Z.testbit ch (Z.of_nat (fst iat)))
                        h1 (powmod h1 x N) N (fst (snd iat)) (snd (snd iat)))
    (combine (seq s (length as_))
       (combine (map (fun a => powmod h1 a N) as_)
          (map (fun ia => (snd ia + (if Z.testbit ch (Z.of_nat (fst ia)) then 1 else 0) * x mod (p * q)) mod (p * q))
               (combine (seq s (length as_)) as_)))) = true.
Proof.
  intros HN Hpq Hord Hx.
  induction as_ as [|a as_ IH]; intros s HF.
  - reflexivity.
  - inversion HF as [|a' l' Ha HF']; subst.
    cbn [length seq combine map forallb fst snd].
    rewrite IH by assumption. rewrite andb_true_r.
    now apply dln_index_complete.
Qed.

(* C12 completeness.
   structural hypotheses : 0 < N, 0 < p*q, order of h1 divides p*q, 0 <= x, h2 = h1^x,
                           128 non-negative draws;
   negligible-probability exclusions : the five range guards on the produced proof. *)
Theorem dln_complete : forall H h1 h2 x p q N as_,
  0 < N -> 0 < p * q -> powmod h1 (p * q) N = 1 mod N -> 0 <= x -> h2 = powmod h1 x N ->
  length as_ = DlnIters -> Forall (fun a => 0 <= a) as_ ->
  let pf := dln_prove H h1 h2 x p q N as_ in
  in_1_N h1 N = true -> in_1_N h2 N = true -> h1 mod N <> h2 mod N ->
  forallb (fun a => in_1_N a N) (fst pf) = true ->
  forallb (fun t => in_1_N t N) (snd pf) = true ->
  dln_verify H h1 h2 N (fst pf) (snd pf) = Ok true.
Proof.
  intros H h1 h2 x p q N as_ HN Hpq Hord Hx Hh2 Hlen HF pf G1 G2 G3 G4 G5.
  rewrite dln_verify_unfold. f_equal. apply andb_true_iff. split.
  - unfold dln_guards. rewrite G1, G2, G4, G5.
    apply Z.ltb_lt in HN. rewrite HN. apply Z.eqb_neq in G3. rewrite G3. reflexivity.
  - subst pf. unfold dln_prove. cbn [fst snd]. rewrite <- Hlen. subst h2.
    apply dln_forallb_complete; assumption.
Qed.

(* what an accepted index means, for non-negative responses *)
Lemma dln_check_index_spec ci h1 h2 N a t : 0 < N -> 0 <= t ->
  dln_check_index ci h1 h2 N a t = true ->
  eqm N (h1 ^ t) (a * h2 ^ (if ci then 1 else 0)).
Proof.
  intros HN Ht. unfold dln_check_index. rewrite zk_go_exp_nonneg by assumption.
  intros E. apply Z.eqb_eq in E.
  assert (Hc : 0 <= (if ci then 1 else 0)) by (destruct ci; lia).
  rewrite <- (zk_powmod_eqm N h1 t HN Ht). rewrite E. rewrite eqm_mod.
  now rewrite (zk_powmod_eqm N h2 _ HN Hc).
Qed.

(* C12 special soundness: accepting answers to both challenge bits for the same
   commitment alpha (a unit) reveal the discrete logarithm of h2 to the base h1 *)
Theorem dln_sound_bit : forall h1 h2 N a t0 t1,
  0 < N -> Z.gcd a N = 1 -> 0 <= t0 <= t1 ->
  dln_check_index false h1 h2 N a t0 = true ->
  dln_check_index true h1 h2 N a t1 = true ->
  h2 mod N = powmod h1 (t1 - t0) N.
Proof.
  intros h1 h2 N a t0 t1 HN Ha Ht C0 C1.
  apply dln_check_index_spec in C0; [|assumption|lia].
  apply dln_check_index_spec in C1; [|assumption|lia].
  rewrite Z.pow_0_r, Z.mul_1_r in C0. rewrite Z.pow_1_r in C1.
  rewrite powmod_spec by lia.
  change (eqm N h2 (h1 ^ (t1 - t0))).
  apply (zk_unit_cancel N a); [assumption|assumption|].
  rewrite <- C1. rewrite <- C0. rewrite <- Z.pow_add_r by lia.
  apply eqm_of_eq. f_equal. lia.
Qed.

(* the symmetric case t1 <= t0: h2 is the inverse of h1^(t0 - t1) *)
Theorem dln_sound_bit_rev : forall h1 h2 N a t0 t1,
  0 < N -> Z.gcd a N = 1 -> 0 <= t1 <= t0 ->
  dln_check_index false h1 h2 N a t0 = true ->
  dln_check_index true h1 h2 N a t1 = true ->
  (h2 * powmod h1 (t0 - t1) N) mod N = 1 mod N.
Proof.
  intros h1 h2 N a t0 t1 HN Ha Ht C0 C1.
  apply dln_check_index_spec in C0; [|assumption|lia].
  apply dln_check_index_spec in C1; [|assumption|lia].
  rewrite Z.pow_0_r, Z.mul_1_r in C0. rewrite Z.pow_1_r in C1.
  change (eqm N (h2 * powmod h1 (t0 - t1) N) 1).
  rewrite zk_powmod_eqm by lia.
  apply (zk_unit_cancel N a); [assumption|assumption|].
  replace (a * (h2 * h1 ^ (t0 - t1))) with ((a * h2) * h1 ^ (t0 - t1)) by ring.
  rewrite <- C1. rewrite <- Z.pow_add_r by lia.
  replace (t1 + (t0 - t1)) with t0 by lia. rewrite C0. apply eqm_of_eq. ring.
Qed.

(* an accepted proof passes every range guard and every index *)
Theorem dln_verify_true_inv : forall H h1 h2 N alphas ts,
  dln_verify H h1 h2 N alphas ts = Ok true ->
  dln_guards h1 h2 N alphas ts = true /\
  forallb (fun iat => dln_check_index
                        (Z.testbit (dln_challenge H h1 h2 N alphas) (Z.of_nat (fst iat)))
                        h1 h2 N (fst (snd iat)) (snd (snd iat)))
          (combine (seq 0 DlnIters) (combine alphas ts)) = true.
Proof.
  intros H h1 h2 N alphas ts E. rewrite dln_verify_unfold in E.
  injection E as E. now apply andb_true_iff in E.
Qed.

Theorem dln_verify_total : forall H h1 h2 N alphas ts,
  exists b, dln_verify H h1 h2 N alphas ts = Ok b.
Proof. intros. rewrite dln_verify_unfold. eexists; reflexivity. Qed.

(* ================================================================== *)
(* 4. facproof (C10)                                                    *)
(* ================================================================== *)

Lemma zk_eqm_mmul m a b a' b' : eqm m a a' -> eqm m b b' -> eqm m (mmul m a b) (a' * b').
Proof. intros Ea Eb. rewrite zk_mmul_eqm. now apply eqm_mul. Qed.

Lemma zk_eqm_powmod m a a' e : 0 < m -> 0 <= e -> eqm m a a' -> eqm m (powmod a e m) (a' ^ e).
Proof. intros Hm He Ea. rewrite zk_powmod_eqm by assumption. now apply eqm_pow. Qed.

Lemma zk_eqm_via m L L' R R' : eqm m L L' -> eqm m R R' -> L' = R' -> eqm m L R.
Proof. intros E1 E2 E. rewrite E1, E, <- E2. reflexivity. Qed.

Lemma zk_eqb_of_eqm m a b : 0 <= a < m -> 0 <= b < m -> eqm m a b -> (a =? b) = true.
Proof. intros Ha Hb E. apply Z.eqb_eq. now apply (eqm_small m). Qed.

Lemma challenge_nonneg H c session ints : 0 < cq c -> 0 <= challenge H c session ints.
Proof.
  intros Hq. unfold challenge. destruct (sha512_256i_tagged H session ints); [|lia].
  apply Z.mod_pos_bound. assumption.
Qed.

Lemma challenge_lt H c session ints : 0 < cq c -> challenge H c session ints < cq c.
Proof.
  intros Hq. unfold challenge. destruct (sha512_256i_tagged H session ints); [|lia].
  apply Z.mod_pos_bound. assumption.
Qed.

Lemma fac_challenge_nonneg H c session N0 NCap s t P Q A B T sigma :
  0 < cq c -> 0 <= fac_challenge H c session N0 NCap s t P Q A B T sigma.
Proof. intros Hq. unfold fac_challenge. now apply challenge_nonneg. Qed.

Lemma zk_lin_nonneg e a b : 0 <= e -> 0 <= a -> 0 <= b -> 0 <= e * a + b.
Proof. nia. Qed.

(* pure integer-exponent identities behind the three verification equations *)
Lemma fac_eq12_Z s t e p0 mu alpha x : 0 <= e -> 0 <= p0 -> 0 <= mu -> 0 <= alpha -> 0 <= x ->
  s ^ (e * p0 + alpha) * t ^ (e * mu + x) = (s ^ alpha * t ^ x) * (s ^ p0 * t ^ mu) ^ e.
Proof.
  intros He Hp Hmu Ha Hx.
  rewrite !Z.pow_add_r by nia. rewrite Z.pow_mul_l.
  rewrite <- !Z.pow_mul_r by lia.
  rewrite (Z.mul_comm e p0), (Z.mul_comm e mu). ring.
Qed.

Lemma fac_eq3_Z s t e p0 q0 nu alpha r sigma v :
  0 <= e -> 0 <= p0 -> 0 <= q0 -> 0 <= nu -> 0 <= alpha -> 0 <= r -> 0 <= sigma -> 0 <= v ->
  v = e * (sigma - nu * p0) + r ->
  (s ^ q0 * t ^ nu) ^ (e * p0 + alpha) * t ^ v =
  ((s ^ q0 * t ^ nu) ^ alpha * t ^ r) * (s ^ (p0 * q0) * t ^ sigma) ^ e.
Proof.
  intros He Hp Hq Hnu Ha Hr Hsig Hv Ev.
  rewrite !Z.pow_mul_l. rewrite <- !Z.pow_mul_r by nia.
  transitivity (s ^ (q0 * (e * p0 + alpha)) * t ^ (nu * (e * p0 + alpha) + v)).
  { rewrite (Z.pow_add_r t) by nia. ring. }
  replace (nu * (e * p0 + alpha) + v) with (nu * alpha + r + sigma * e) by (rewrite Ev; ring).
  replace (q0 * (e * p0 + alpha)) with (q0 * alpha + p0 * q0 * e) by ring.
  rewrite !Z.pow_add_r by nia. ring.
Qed.

(* C10 completeness.
   structural : N0 = p0*q0 with positive factors, 0 < NCap, 0 < cq c, non-negative draws;
   negligible-probability exclusions : the two range guards on z1, z2 (alpha, beta are
   drawn below q^3 sqrt(N0) but e*p0 + alpha may overflow the bound) and 0 <= v
   (sigma < nu * p0 happens with negligible probability). *)
Theorem fac_complete : forall H c session N0 NCap s t p0 q0 alpha beta mu nu sigma r x y,
  0 < cq c -> 0 < p0 -> 0 < q0 -> N0 = p0 * q0 -> 0 < NCap ->
  0 <= alpha -> 0 <= beta -> 0 <= mu -> 0 <= nu -> 0 <= sigma -> 0 <= r -> 0 <= x -> 0 <= y ->
  let pf := fac_prove H c session N0 NCap s t p0 q0 alpha beta mu nu sigma r x y in
  is_in_interval (fZ1 pf) (q3 c * Z.sqrt N0) = true ->
  is_in_interval (fZ2 pf) (q3 c * Z.sqrt N0) = true ->
  0 <= fV pf ->
  fac_verify H c session N0 NCap s t pf = Ok true.
Proof.
  intros H c session N0 NCap s t p0 q0 alpha beta mu nu sigma r x y
         Hcq Hp0 Hq0 HN0 HNC Hal Hbe Hmu Hnu Hsig Hr Hx Hy pf G1 G2 GV.
  subst pf. unfold fac_prove in *.
  set (P := mmul NCap (powmod s p0 NCap) (powmod t mu NCap)) in *.
  set (Q := mmul NCap (powmod s q0 NCap) (powmod t nu NCap)) in *.
  set (A := mmul NCap (powmod s alpha NCap) (powmod t x NCap)) in *.
  set (B := mmul NCap (powmod s beta NCap) (powmod t y NCap)) in *.
  set (T := mmul NCap (powmod Q alpha NCap) (powmod t r NCap)) in *.
  set (e := fac_challenge H c session N0 NCap s t P Q A B T sigma) in *.
  assert (He : 0 <= e) by (subst e; now apply fac_challenge_nonneg).
  cbn [fZ1 fZ2 fV] in G1, G2, GV.
  unfold fac_verify. cbn [fP fQ fA fB fT fSigma fZ1 fZ2 fW1 fW2 fV].
  fold e.
  assert (HN0' : (0 <? N0) = true) by (apply Z.ltb_lt; nia).
  assert (HNC' : (0 <? NCap) = true) by (now apply Z.ltb_lt).
  rewrite HN0', HNC', G1, G2. cbn [negb orb].
  rewrite !zk_go_exp_nonneg by nia.
  assert (EP : eqm NCap P (s ^ p0 * t ^ mu)).
  { subst P. apply zk_eqm_mmul; apply zk_powmod_eqm; lia. }
  assert (EQ : eqm NCap Q (s ^ q0 * t ^ nu)).
  { subst Q. apply zk_eqm_mmul; apply zk_powmod_eqm; lia. }
  assert (EA : eqm NCap A (s ^ alpha * t ^ x)).
  { subst A. apply zk_eqm_mmul; apply zk_powmod_eqm; lia. }
  assert (EB : eqm NCap B (s ^ beta * t ^ y)).
  { subst B. apply zk_eqm_mmul; apply zk_powmod_eqm; lia. }
  assert (ET : eqm NCap T ((s ^ q0 * t ^ nu) ^ alpha * t ^ r)).
  { subst T. apply zk_eqm_mmul; [apply zk_eqm_powmod; assumption|apply zk_powmod_eqm; lia]. }
  clearbody e. clearbody T. clearbody P Q A B.
  assert (E1 : (mmul NCap (powmod s (e * p0 + alpha) NCap) (powmod t (e * mu + x) NCap)
                =? mmul NCap A (powmod P e NCap)) = true).
  { apply (zk_eqb_of_eqm NCap); try (apply zk_mmul_range; assumption).
    apply (zk_eqm_via NCap _ (s ^ (e * p0 + alpha) * t ^ (e * mu + x))
                        _ ((s ^ alpha * t ^ x) * (s ^ p0 * t ^ mu) ^ e)).
    - apply zk_eqm_mmul; apply zk_powmod_eqm; auto using zk_lin_nonneg with zarith.
    - apply zk_eqm_mmul; [assumption|apply zk_eqm_powmod; assumption].
    - apply fac_eq12_Z; lia. }
  assert (E2 : (mmul NCap (powmod s (e * q0 + beta) NCap) (powmod t (e * nu + y) NCap)
                =? mmul NCap B (powmod Q e NCap)) = true).
  { apply (zk_eqb_of_eqm NCap); try (apply zk_mmul_range; assumption).
    apply (zk_eqm_via NCap _ (s ^ (e * q0 + beta) * t ^ (e * nu + y))
                        _ ((s ^ beta * t ^ y) * (s ^ q0 * t ^ nu) ^ e)).
    - apply zk_eqm_mmul; apply zk_powmod_eqm; auto using zk_lin_nonneg with zarith.
    - apply zk_eqm_mmul; [assumption|apply zk_eqm_powmod; assumption].
    - apply fac_eq12_Z; lia. }
  rewrite E1, E2. cbn [negb]. f_equal.
  apply (zk_eqb_of_eqm NCap); try (apply zk_mmul_range; assumption).
  apply (zk_eqm_via NCap _ ((s ^ q0 * t ^ nu) ^ (e * p0 + alpha) * t ^ (e * (sigma - nu * p0) + r))
                      _ (((s ^ q0 * t ^ nu) ^ alpha * t ^ r) * (s ^ (p0 * q0) * t ^ sigma) ^ e)).
  - apply zk_eqm_mmul; [apply zk_eqm_powmod; auto using zk_lin_nonneg with zarith|apply zk_powmod_eqm; assumption].
  - apply zk_eqm_mmul; [assumption|]. apply zk_eqm_powmod; try assumption.
    rewrite HN0. apply zk_eqm_mmul; apply zk_powmod_eqm; auto using zk_lin_nonneg with zarith.
  - apply (fac_eq3_Z s t e p0 q0 nu alpha r sigma); lia.
Qed.

(* range rejection: z1 or z2 outside [0, q^3 sqrt(N0)) is refused, whatever the rest *)
Theorem fac_range_rejects : forall H c session N0 NCap s t pf,
  (is_in_interval (fZ1 pf) (q3 c * Z.sqrt N0) = false \/
   is_in_interval (fZ2 pf) (q3 c * Z.sqrt N0) = false) ->
  fac_verify H c session N0 NCap s t pf = Ok false.
Proof.
  intros H c session N0 NCap s t pf Hr. unfold fac_verify.
  destruct (negb (0 <? N0) || negb (0 <? NCap)) eqn:G0; [reflexivity|].
  destruct (is_in_interval (fZ1 pf) (q3 c * Z.sqrt N0)) eqn:G1; cbn [negb]; [|reflexivity].
  destruct (is_in_interval (fZ2 pf) (q3 c * Z.sqrt N0)) eqn:G2; cbn [negb]; [|reflexivity].
  destruct Hr; discriminate.
Qed.

Lemma is_in_interval_spec b bound : is_in_interval b bound = true <-> 0 <= b < bound.
Proof. unfold is_in_interval. rewrite andb_true_iff, Z.ltb_lt, Z.leb_le. lia. Qed.

Corollary fac_range_rejects_Z : forall H c session N0 NCap s t pf,
  (fZ1 pf < 0 \/ q3 c * Z.sqrt N0 <= fZ1 pf \/ fZ2 pf < 0 \/ q3 c * Z.sqrt N0 <= fZ2 pf) ->
  fac_verify H c session N0 NCap s t pf = Ok false.
Proof.
  intros H c session N0 NCap s t pf Hr. apply fac_range_rejects.
  destruct (is_in_interval (fZ1 pf) (q3 c * Z.sqrt N0)) eqn:G1; [|now left].
  destruct (is_in_interval (fZ2 pf) (q3 c * Z.sqrt N0)) eqn:G2; [|now right].
  apply is_in_interval_spec in G1. apply is_in_interval_spec in G2. lia.
Qed.

(* bad moduli are refused (the guard of the fix: commit) *)
Theorem fac_rejects_bad_modulus : forall H c session N0 NCap s t pf,
  N0 <= 0 \/ NCap <= 0 -> fac_verify H c session N0 NCap s t pf = Ok false.
Proof.
  intros H c session N0 NCap s t pf Hb. unfold fac_verify.
  assert (E : negb (0 <? N0) || negb (0 <? NCap) = true).
  { apply orb_true_iff. destruct Hb as [Hb|Hb]; [left|right];
      apply negb_true_iff; apply Z.ltb_ge; assumption. }
  now rewrite E.
Qed.

(* totality: the verifier never diverges; it panics only when go_exp returns nil,
   i.e. only for a negative exponent on a non-unit base *)
Theorem fac_verify_total : forall H c session N0 NCap s t pf,
  fac_verify H c session N0 NCap s t pf <> Diverge /\
  fac_verify H c session N0 NCap s t pf <> Err /\
  (((0 <= fW1 pf /\ 0 <= fW2 pf /\ 0 <= fSigma pf /\ 0 <= fV pf) \/ Z.gcd t NCap = 1) ->
   exists b, fac_verify H c session N0 NCap s t pf = Ok b).
Proof.
  intros H c session N0 NCap s t pf. unfold fac_verify.
  destruct (negb (0 <? N0) || negb (0 <? NCap)) eqn:G0.
  { repeat split; try discriminate. intros _. eexists; reflexivity. }
  destruct (negb (is_in_interval (fZ1 pf) (q3 c * Z.sqrt N0))) eqn:G1.
  { repeat split; try discriminate. intros _. eexists; reflexivity. }
  destruct (negb (is_in_interval (fZ2 pf) (q3 c * Z.sqrt N0))) eqn:G2.
  { repeat split; try discriminate. intros _. eexists; reflexivity. }
  apply orb_false_iff in G0. destruct G0 as [_ G0]. apply negb_false_iff in G0.
  apply Z.ltb_lt in G0.
  set (e := fac_challenge H c session N0 NCap s t (fP pf) (fQ pf) (fA pf) (fB pf) (fT pf) (fSigma pf)).
  clearbody e.
  assert (K : forall w, (0 <= w \/ Z.gcd t NCap = 1) -> exists v, go_exp t w NCap = Some v).
  { intros w [Hw|Hu].
    - rewrite zk_go_exp_nonneg by assumption. eexists; reflexivity.
    - now apply zk_go_exp_unit. }
  split; [|split].
  - destruct (go_exp t (fW1 pf) NCap); [|discriminate].
    destruct (go_exp t (fW2 pf) NCap); [|discriminate].
    destruct (go_exp t (fSigma pf) NCap); [|discriminate].
    destruct (go_exp t (fV pf) NCap); [|discriminate].
    repeat match goal with |- context [if ?b then _ else _] => destruct b end; discriminate.
  - destruct (go_exp t (fW1 pf) NCap); [|discriminate].
    destruct (go_exp t (fW2 pf) NCap); [|discriminate].
    destruct (go_exp t (fSigma pf) NCap); [|discriminate].
    destruct (go_exp t (fV pf) NCap); [|discriminate].
    repeat match goal with |- context [if ?b then _ else _] => destruct b end; discriminate.
  - intros Hyp.
    destruct (K (fW1 pf)) as [v1 ->]; [tauto|].
    destruct (K (fW2 pf)) as [v2 ->]; [tauto|].
    destruct (K (fSigma pf)) as [v3 ->]; [tauto|].
    destruct (K (fV pf)) as [v4 ->]; [tauto|].
    repeat match goal with |- context [if ?b then _ else _] => destruct b end;
      eexists; reflexivity.
Qed.

Corollary fac_verify_no_panic : forall H c session N0 NCap s t pf,
  0 <= fW1 pf -> 0 <= fW2 pf -> 0 <= fSigma pf -> 0 <= fV pf ->
  fac_verify H c session N0 NCap s t pf <> Panic.
Proof.
  intros H c session N0 NCap s t pf H1 H2 H3 H4.
  destruct (fac_verify_total H c session N0 NCap s t pf) as (_ & _ & K).
  destruct K as [b ->]; [left; tauto|discriminate].
Qed.

(* the Panic is real: a negative V on a non-unit t reaches the nil dereference *)
Example fac_verify_panics :
  exists H c session N0 NCap s t pf,
    fac_verify H c session N0 NCap s t pf = Panic.
Proof.
  exists (fun _ => []), (mkCurve Weier 23 0 7 11 0 0), [], 4, 4, 1, 2,
         (mkFac 0 0 0 0 0 0 0 0 0 0 (-1)).
  vm_compute. reflexivity.
Qed.

(* ================================================================== *)
(* 5. Paillier key-correctness proof (C11, GMR98)                       *)
(* ================================================================== *)

Lemma gen_xs_in_group H : forall fuel m blocks i n N kb sxb syb nb xs,
  gen_xs_loop H fuel m blocks i n N kb sxb syb nb = Ok xs ->
  Forall (fun x => in_mult_group N x = true) xs.
Proof.
  induction fuel as [|k IH]; intros m blocks i n N kb sxb syb nb xs E.
  - destruct m; cbn [gen_xs_loop] in E; [|discriminate]. injection E as <-. constructor.
  - destruct m as [|m']; cbn [gen_xs_loop] in E.
    + injection E as <-. constructor.
    + destruct (in_mult_group N (xs_candidate H blocks i n kb sxb syb nb)) eqn:G.
      * destruct (gen_xs_loop H k m' blocks (i + 1) n N kb sxb syb nb) as [r| | |] eqn:R;
          cbn [obind] in E; try discriminate.
        injection E as <-. constructor; [exact G|]. eapply IH; exact R.
      * eapply IH; exact E.
Qed.

Lemma gen_xs_length H : forall fuel m blocks i n N kb sxb syb nb xs,
  gen_xs_loop H fuel m blocks i n N kb sxb syb nb = Ok xs -> length xs = m.
Proof.
  induction fuel as [|k IH]; intros m blocks i n N kb sxb syb nb xs E.
  - destruct m; cbn [gen_xs_loop] in E; [|discriminate]. now injection E as <-.
  - destruct m as [|m']; cbn [gen_xs_loop] in E.
    + now injection E as <-.
    + destruct (in_mult_group N (xs_candidate H blocks i n kb sxb syb nb)) eqn:G.
      * destruct (gen_xs_loop H k m' blocks (i + 1) n N kb sxb syb nb) as [r| | |] eqn:R;
          cbn [obind] in E; try discriminate.
        injection E as <-. cbn [length]. f_equal. eapply IH; exact R.
      * eapply IH; exact E.
Qed.

Lemma gen_xs_ok_or_diverge H : forall fuel m blocks i n N kb sxb syb nb,
  (exists xs, gen_xs_loop H fuel m blocks i n N kb sxb syb nb = Ok xs) \/
  gen_xs_loop H fuel m blocks i n N kb sxb syb nb = Diverge.
Proof.
  induction fuel as [|k IH]; intros m blocks i n N kb sxb syb nb.
  - destruct m; cbn [gen_xs_loop]; [left; eexists; reflexivity|now right].
  - destruct m as [|m']; cbn [gen_xs_loop]; [left; eexists; reflexivity|].
    destruct (in_mult_group N (xs_candidate H blocks i n kb sxb syb nb)) eqn:G.
    + destruct (IH m' blocks (i + 1) n N kb sxb syb nb) as [[r ->]| ->]; cbn [obind].
      * left; eexists; reflexivity.
      * now right.
    + apply IH.
Qed.

Theorem gen_xs_in_group_top : forall H fuel m k N sx sy xs,
  generate_xs H fuel m k N sx sy = Ok xs ->
  Forall (fun x => in_mult_group N x = true) xs /\ length xs = m.
Proof.
  intros H fuel m k N sx sy xs E. unfold generate_xs in E.
  split; [eapply gen_xs_in_group; exact E|eapply gen_xs_length; exact E].
Qed.

(* the algebraic core: y = x^M with N*M = 1 mod phi is an N-th root of x modulo N = P*Q.
   Holds for EVERY x (RSA identity), not only for units. *)
Lemma pai_root P Q M x : prime P -> prime Q -> P <> Q ->
  modinv (P * Q) ((P - 1) * (Q - 1)) = Some M ->
  powmod (powmod x M (P * Q)) (P * Q) (P * Q) = x mod (P * Q).
Proof.
  intros HP HQ Hne HM.
  pose proof (prime_gt_1 P HP) as P1. pose proof (prime_gt_1 Q HQ) as Q1.
  assert (Hphi : 2 <= (P - 1) * (Q - 1)) by nia.
  assert (HN : 0 < P * Q) by nia.
  destruct (modinv_sound (P * Q) ((P - 1) * (Q - 1)) M ltac:(lia) HM) as [S R].
  rewrite (Z.mod_small 1) in S by lia.
  set (phi := (P - 1) * (Q - 1)) in *. set (N := P * Q) in *.
  rewrite <- zk_powmod_mul_exp by lia. rewrite powmod_spec by nia.
  pose proof (Z.div_mod (M * N) phi ltac:(lia)) as D.
  rewrite (Z.mul_comm M N) in D. rewrite S in D.
  assert (Hj : 0 <= N * M / phi) by (apply Z.div_pos; nia).
  rewrite (Z.mul_comm M N). rewrite D.
  replace (phi * (N * M / phi) + 1) with (1 + (N * M / phi) * phi) by ring.
  subst phi N. apply zk_rsa_PQ; assumption.
Qed.

Lemma pai_forallb_complete N M xs : 
  (forall x, powmod (powmod x M N) N N = x mod N) ->
  forallb (fun xy => fst xy mod N =? powmod (snd xy) N N)
          (combine xs (map (fun x => powmod x M N) xs)) = true.
Proof.
  intros R. induction xs as [|x xs IH]; [reflexivity|].
  cbn [map combine forallb fst snd]. rewrite IH, andb_true_r.
  apply Z.eqb_eq. symmetry. apply R.
Qed.

(* C11 completeness.
   structural : P, Q distinct primes, sk = key_of_primes P Q, the prover returned Ok
                (hence N is invertible modulo phi and the rejection loop terminated);
   guards     : the verifier's size guard and small-factor test, true for honest 2048-bit keys
                made of two 1024-bit primes;
   negligible-probability exclusions : none. *)
Theorem pai_complete_gen : forall H fuel P Q k sx sy pf,
  prime P -> prime Q -> P <> Q ->
  (16 <? 256 * ((bitlen (P * Q) + 255) / 256) - bitlen (P * Q)) = false ->
  forallb (fun p => negb ((P * Q) mod p =? 0)) small_primes = true ->
  pai_prove H fuel (key_of_primes P Q) k sx sy = Ok pf ->
  pai_verify H fuel (P * Q) k sx sy pf = Ok true.
Proof.
  intros H fuel P Q k sx sy pf HP HQ Hne Gsz Gsp Hprove.
  pose proof (prime_gt_1 P HP) as P1. pose proof (prime_gt_1 Q HQ) as Q1.
  unfold pai_prove in Hprove. cbn [key_of_primes skN skPhi] in Hprove.
  destruct (generate_xs H fuel ProofIters k (P * Q) sx sy) as [xs| | |] eqn:Exs;
    cbn [obind] in Hprove; try discriminate.
  destruct (modinv (P * Q) ((P - 1) * (Q - 1))) as [M|] eqn:EM; [|discriminate].
  injection Hprove as <-.
  unfold pai_verify.
  assert (HN : (0 <? P * Q) = true) by (apply Z.ltb_lt; nia).
  rewrite HN, Gsz. cbn [negb orb].
  assert (Gsp' : existsb (fun p => (P * Q) mod p =? 0) small_primes = false).
  { clear - Gsp. induction small_primes as [|p l IH]; [reflexivity|].
    cbn [forallb existsb] in *. apply andb_true_iff in Gsp. destruct Gsp as [G1 G2].
    apply negb_true_iff in G1. rewrite G1, (IH G2). reflexivity. }
  rewrite Gsp', Exs. cbn [obind]. f_equal.
  apply pai_forallb_complete. intros x. now apply pai_root.
Qed.

Corollary pai_complete : forall H fuel P Q k sx sy pf,
  good_key P Q ->
  (16 <? 256 * ((bitlen (P * Q) + 255) / 256) - bitlen (P * Q)) = false ->
  forallb (fun p => negb ((P * Q) mod p =? 0)) small_primes = true ->
  pai_prove H fuel (key_of_primes P Q) k sx sy = Ok pf ->
  pai_verify H fuel (P * Q) k sx sy pf = Ok true.
Proof.
  intros H fuel P Q k sx sy pf (HP & HQ & Hne & _). now apply pai_complete_gen.
Qed.

(* for a good key the prover never panics: it returns a proof or runs out of fuel *)
Theorem pai_prove_good_key : forall H fuel P Q k sx sy,
  good_key P Q ->
  (exists pf, pai_prove H fuel (key_of_primes P Q) k sx sy = Ok pf /\ length pf = ProofIters) \/
  pai_prove H fuel (key_of_primes P Q) k sx sy = Diverge.
Proof.
  intros H fuel P Q k sx sy GK. pose proof GK as (HP & HQ & Hne & G).
  pose proof (prime_gt_1 P HP) as P1. pose proof (prime_gt_1 Q HQ) as Q1.
  unfold pai_prove. cbn [key_of_primes skN skPhi].
  destruct (modinv_complete (P * Q) ((P - 1) * (Q - 1)) ltac:(nia) G) as [M EM].
  unfold generate_xs.
  match goal with |- context [gen_xs_loop H fuel ?m ?b ?i ?n ?N ?kb ?sxb ?syb ?nb] =>
    destruct (gen_xs_ok_or_diverge H fuel m b i n N kb sxb syb nb) as [[xs E]|E];
    pose proof E as E' end.
  - left. rewrite E. cbn [obind]. rewrite EM. eexists. split; [reflexivity|].
    rewrite map_length. eapply gen_xs_length; exact E'.
  - right. rewrite E. reflexivity.
Qed.

Theorem pai_rejects_small_factor : forall H fuel N k sx sy pf,
  existsb (fun p => N mod p =? 0) small_primes = true ->
  pai_verify H fuel N k sx sy pf = Ok false.
Proof.
  intros H fuel N k sx sy pf E. unfold pai_verify.
  destruct (negb (0 <? N) || (16 <? 256 * ((bitlen N + 255) / 256) - bitlen N)); [reflexivity|].
  now rewrite E.
Qed.

Theorem pai_rejects_bad_size : forall H fuel N k sx sy pf,
  N <= 0 \/ 16 < 256 * ((bitlen N + 255) / 256) - bitlen N ->
  pai_verify H fuel N k sx sy pf = Ok false.
Proof.
  intros H fuel N k sx sy pf E. unfold pai_verify.
  assert (G : negb (0 <? N) || (16 <? 256 * ((bitlen N + 255) / 256) - bitlen N) = true).
  { apply orb_true_iff. destruct E as [E|E].
    - left. apply negb_true_iff. now apply Z.ltb_ge.
    - right. now apply Z.ltb_lt. }
  now rewrite G.
Qed.

(* the verifier returns a verdict or runs out of fuel; it never panics or errors *)
Theorem pai_verify_no_panic : forall H fuel N k sx sy pf,
  (exists b, pai_verify H fuel N k sx sy pf = Ok b) \/ pai_verify H fuel N k sx sy pf = Diverge.
Proof.
  intros H fuel N k sx sy pf. unfold pai_verify.
  destruct (negb (0 <? N) || (16 <? 256 * ((bitlen N + 255) / 256) - bitlen N));
    [left; eexists; reflexivity|].
  destruct (existsb (fun p => N mod p =? 0) small_primes); [left; eexists; reflexivity|].
  unfold generate_xs.
  match goal with |- context [gen_xs_loop H fuel ?m ?b ?i ?n ?N' ?kb ?sxb ?syb ?nb] =>
    destruct (gen_xs_ok_or_diverge H fuel m b i n N' kb sxb syb nb) as [[xs ->]| ->] end;
    cbn [obind]; [left; eexists; reflexivity|now right].
Qed.

Corollary pai_verify_no_panic' : forall H fuel N k sx sy pf,
  pai_verify H fuel N k sx sy pf <> Panic /\ pai_verify H fuel N k sx sy pf <> Err.
Proof.
  intros H fuel N k sx sy pf.
  destruct (pai_verify_no_panic H fuel N k sx sy pf) as [[b ->]| ->]; split; discriminate.
Qed.

(* ================================================================== *)
(* 6. modproof (C10/C11)                                                *)
(* ================================================================== *)

(* big.Jacobi panics only on an even modulus *)
Theorem go_jacobi_no_panic : forall x y, Z.even y = false -> exists j, go_jacobi x y = Ok j.
Proof. intros x y E. unfold go_jacobi. rewrite E. eexists; reflexivity. Qed.

Theorem go_jacobi_panic_iff : forall x y, go_jacobi x y = Panic <-> Z.even y = true.
Proof.
  intros x y. unfold go_jacobi. destruct (Z.even y); split; intros E; try reflexivity; discriminate.
Qed.

(* the verifier (with the positive-odd guard placed before Jacobi) always returns a verdict *)
Theorem mod_verify_total : forall H is_prime session N pf,
  exists b, mod_verify H is_prime session N pf = Ok b.
Proof.
  intros H is_prime session N pf. unfold mod_verify.
  destruct (negb (0 <? N) || Z.even N) eqn:G0; [eexists; reflexivity|].
  apply orb_false_iff in G0. destruct G0 as [_ G0].
  unfold go_jacobi. rewrite G0. cbn [obind].
  repeat (first [ solve [eexists; reflexivity]
                | match goal with |- exists b, (if ?g then _ else _) = _ => destruct g end ]).
Qed.

Corollary mod_verify_no_crash : forall H is_prime session N pf,
  mod_verify H is_prime session N pf <> Panic /\ mod_verify H is_prime session N pf <> Diverge
  /\ mod_verify H is_prime session N pf <> Err.
Proof.
  intros H is_prime session N pf.
  destruct (mod_verify_total H is_prime session N pf) as [b ->]. repeat split; discriminate.
Qed.

Theorem mod_verify_rejects_even_or_prime : forall H is_prime session N pf,
  (Z.even N = true \/ is_prime N = true \/ N <= 0) ->
  mod_verify H is_prime session N pf = Ok false.
Proof.
  intros H is_prime session N pf Hyp. unfold mod_verify.
  destruct (negb (0 <? N) || Z.even N) eqn:G0; [reflexivity|].
  apply orb_false_iff in G0. destruct G0 as [G0 G0'].
  apply negb_false_iff in G0. apply Z.ltb_lt in G0.
  destruct Hyp as [Hyp|[Hyp|Hyp]]; [congruence| |lia].
  unfold go_jacobi. rewrite G0', Hyp. cbn [obind].
  repeat (first [ reflexivity
                | match goal with |- (if ?g then _ else _) = _ => destruct g end ]).
Qed.

(* without the guard (the code before the fix: commit) an even N reaches big.Jacobi: *)
Example go_jacobi_even_panics : go_jacobi 3 10 = Panic.
Proof. reflexivity. Qed.

(* ---- algebra of an honest proof for a Blum integer ---- *)

Definition mod_cand (N W Yi : Z) (a b : bool) : Z :=
  let r1 := if a then ((-1) * Yi) mod N else Yi in
  if b then (W * r1) mod N else r1.

Lemma mod_cand_range N W Yi a b : 0 < N -> 0 <= Yi < N -> 0 <= mod_cand N W Yi a b < N.
Proof.
  intros HN HY. unfold mod_cand.
  destruct b; [apply Z.mod_pos_bound; lia|]. destruct a; [apply Z.mod_pos_bound; lia|assumption].
Qed.

(* fourth roots: for N = P*Q with P = Q = 3 mod 4, raising a square of a unit to the
   prover's exponent ((phi+4)/8)^2 mod phi and then to the 4th power gives it back *)
Lemma mod_fourth_root P Q a b u c :
  P = 4 * a + 3 -> Q = 4 * b + 3 -> prime P -> prime Q -> P <> Q ->
  Z.gcd u (P * Q) = 1 -> eqm (P * Q) c (u * u) ->
  let Phi := (P - 1) * (Q - 1) in
  let e0 := (Phi + 4) / 8 in
  powmod (powmod c ((e0 * e0) mod Phi) (P * Q)) 4 (P * Q) = c mod (P * Q).
Proof.
  intros EP EQ HP HQ Hne Gu Ec Phi e0.
  pose proof (prime_gt_1 P HP) as P1. pose proof (prime_gt_1 Q HQ) as Q1.
  assert (Ha : 0 <= a) by lia. assert (Hb : 0 <= b) by lia.
  set (k := 2 * a * b + a + b + 1).
  assert (Hk : 1 <= k) by (subst k; nia).
  assert (EPhi : Phi = 8 * k - 4) by (subst Phi k; rewrite EP, EQ; ring).
  assert (Ee0 : e0 = k).
  { subst e0. rewrite EPhi. replace (8 * k - 4 + 4) with (k * 8) by ring.
    apply Z.div_mul. lia. }
  assert (HPhi : 0 < Phi) by lia.
  assert (HN : 0 < P * Q) by nia.
  set (N := P * Q) in *.
  assert (Gc : Z.gcd c N = 1).
  { rewrite (gcd_eqm N c (u * u)) by (assumption || lia). now apply gcd_1_mul_l. }
  assert (Ord : eqm N (c ^ Phi) 1) by (subst N Phi; now apply zk_euler_PQ).
  pose proof (Z.mod_pos_bound (e0 * e0) Phi HPhi) as Bx.
  rewrite <- zk_powmod_mul_exp by lia. rewrite powmod_spec by lia.
  change (eqm N (c ^ ((e0 * e0) mod Phi * 4)) c).
  rewrite Z.pow_mul_r by lia.
  rewrite (eqm_pow N _ _ 4 ltac:(lia) (zk_pow_mod_order N c Phi (e0 * e0) HN HPhi (Z.square_nonneg e0) Ord)).
  rewrite <- Z.pow_mul_r by (try lia; apply Z.square_nonneg). rewrite Ee0.
  set (m := 2 * k - 1).
  replace (k * k * 4) with (1 + m * (m + 2)) by (subst m; ring).
  assert (Hm : 1 <= m) by (subst m; lia).
  rewrite Z.pow_add_r, Z.pow_1_r, Z.pow_mul_r by (try lia; apply Z.mul_nonneg_nonneg; lia).
  assert (Em : eqm N (c ^ m) 1).
  { rewrite (eqm_pow N c (u * u) m ltac:(subst m; lia) Ec).
    replace (u * u) with (u ^ 2) by ring. rewrite <- Z.pow_mul_r by (subst m; lia).
    subst N. apply (zk_carmichael_gen P Q u _ (2 * b + 1) (2 * a + 1)); try assumption; lia. }
  rewrite (eqm_1_pow N _ (m + 2) ltac:(subst m; lia) Em). apply eqm_of_eq. ring.
Qed.

(* C10/C11, per index: for a Blum integer N = P*Q, if the candidate (-1)^a W^b Y_i chosen by
   the prover is the square of a unit, then both verifier equations hold at this index:
   X_i^4 = (-1)^a W^b Y_i  and  Z_i^N = Y_i  (the latter for EVERY Y_i in range). *)
Theorem mod_complete_index : forall P Q a b W Yi (ba bb : bool) u invN,
  P = 4 * a + 3 -> Q = 4 * b + 3 -> prime P -> prime Q -> P <> Q ->
  let N := P * Q in
  let Phi := (P - 1) * (Q - 1) in
  let e0 := (Phi + 4) / 8 in
  let expo := (e0 * e0) mod Phi in
  modinv N Phi = Some invN ->
  0 <= Yi < N ->
  Z.gcd u N = 1 -> eqm N (mod_cand N W Yi ba bb) (u * u) ->
  (powmod (powmod (mod_cand N W Yi ba bb) expo N) 4 N =? mod_cand N W Yi ba bb) = true /\
  (powmod (powmod Yi invN N) N N =? Yi) = true.
Proof.
  intros P Q a b W Yi ba bb u invN EP EQ HP HQ Hne N Phi e0 expo Hinv HY Gu Ec.
  pose proof (prime_gt_1 P HP) as P1. pose proof (prime_gt_1 Q HQ) as Q1.
  assert (HN : 0 < N) by (subst N; nia).
  split; apply Z.eqb_eq.
  - subst expo e0 Phi N. rewrite (mod_fourth_root P Q a b u) by assumption.
    apply Z.mod_small. apply mod_cand_range; assumption.
  - subst N Phi. rewrite pai_root by assumption. now apply Z.mod_small.
Qed.

(* the prover's per-index output has the shape the verifier recomputes *)
Lemma mod_prove_one_shape N P Q W expo invN Yi x z a b :
  mod_prove_one N P Q W expo invN Yi = Ok (Some (x, z, a, b)) ->
  exists ba bb : bool,
    a = (if ba then 1 else 0) /\ b = (if bb then 1 else 0) /\
    x = powmod (mod_cand N W Yi ba bb) expo N /\ z = powmod Yi invN N /\
    is_qr (mod_cand N W Yi ba bb) P = Ok true /\ is_qr (mod_cand N W Yi ba bb) Q = Ok true.
Proof.
  unfold mod_prove_one.
  change (if 0 =? 1 then (-1 * Yi) mod N else Yi) with Yi.
  change (if 1 =? 1 then (-1 * Yi) mod N else Yi) with ((-1 * Yi) mod N).
  cbv beta iota zeta.
  change (0 =? 1) with false. change (1 =? 1) with true. cbv iota.
  intros E.
  assert (K : forall c, (qp <- is_qr c P;; qq <- is_qr c Q;; Ok (qp && qq)) = Ok true ->
                        is_qr c P = Ok true /\ is_qr c Q = Ok true).
  { intros c0 E0. destruct (is_qr c0 P) as [[|]| | |]; cbn [obind] in E0; try discriminate;
      destruct (is_qr c0 Q) as [[|]| | |]; cbn [obind andb] in E0; try discriminate; auto. }
  destruct (qp <- is_qr Yi P;; qq <- is_qr Yi Q;; Ok (qp && qq)) as [[|]| | |] eqn:T0;
    cbn [obind] in E; try discriminate.
  { injection E as <- <- <- <-. exists false, false. destruct (K _ T0). repeat split; assumption. }
  destruct (qp <- is_qr ((-1 * Yi) mod N) P;; qq <- is_qr ((-1 * Yi) mod N) Q;; Ok (qp && qq))
    as [[|]| | |] eqn:T1; cbn [obind] in E; try discriminate.
  { injection E as <- <- <- <-. exists true, false. destruct (K _ T1). repeat split; assumption. }
  destruct (qp <- is_qr ((W * Yi) mod N) P;; qq <- is_qr ((W * Yi) mod N) Q;; Ok (qp && qq))
    as [[|]| | |] eqn:T2; cbn [obind] in E; try discriminate.
  { injection E as <- <- <- <-. exists false, true. destruct (K _ T2). repeat split; assumption. }
  destruct (qp <- is_qr ((W * ((-1 * Yi) mod N)) mod N) P;;
            qq <- is_qr ((W * ((-1 * Yi) mod N)) mod N) Q;; Ok (qp && qq))
    as [[|]| | |] eqn:T3; cbn [obind] in E; try discriminate.
  injection E as <- <- <- <-. exists true, true. destruct (K _ T3). repeat split; assumption.
Qed.

(* ---- full completeness of modproof, relative to the soundness of the Jacobi-based
        residuosity test ---- *)

Lemma mod_ys_length H n : forall session W N acc,
  length (mod_ys H n session W N acc) = (length acc + n)%nat.
Proof.
  induction n as [|n IH]; intros session W N acc; cbn [mod_ys].
  - lia.
  - rewrite IH, app_length. cbn [length]. lia.
Qed.

Lemma mod_ys_range H n : forall session W N acc, 0 < N ->
  Forall (fun y => 0 <= y < N) acc -> Forall (fun y => 0 <= y < N) (mod_ys H n session W N acc).
Proof.
  induction n as [|n IH]; intros session W N acc HN HF; cbn [mod_ys]; [assumption|].
  apply IH; [assumption|]. apply Forall_app. split; [assumption|].
  constructor; [|constructor].
  destruct (sha512_256i_tagged H session (W :: N :: acc)); [apply Z.mod_pos_bound; lia|lia].
Qed.

Lemma omapM_Forall2 {A B} (f : A -> Outcome B) : forall l rs,
  omapM f l = Ok rs -> Forall2 (fun y r => f y = Ok r) l rs.
Proof.
  induction l as [|y l IH]; intros rs E; cbn [omapM] in E.
  - injection E as <-. constructor.
  - destruct (f y) as [r| | |] eqn:Ey; cbn [obind] in E; try discriminate.
    destruct (omapM f l) as [rs'| | |] eqn:El; cbn [obind] in E; try discriminate.
    injection E as <-. constructor; [assumption|]. now apply IH.
Qed.

Lemma zk_Forall2_length {A B} (R : A -> B -> Prop) l l' : Forall2 R l l' -> length l = length l'.
Proof. induction 1; cbn [length]; congruence. Qed.

Definition mod_R (N P Q W expo invN : Z) (y : Z) (r : option (Z * Z * Z * Z)) : Prop :=
  exists ba bb : bool,
    r = Some (powmod (mod_cand N W y ba bb) expo N, powmod y invN N, Z.b2z ba, Z.b2z bb) /\
    is_qr (mod_cand N W y ba bb) P = Ok true /\ is_qr (mod_cand N W y ba bb) Q = Ok true.

Lemma mod_R_of_prove N P Q W expo invN : forall ys rs,
  Forall2 (fun y r => mod_prove_one N P Q W expo invN y = Ok r) ys rs ->
  forallb (fun r => match r with Some _ => true | None => false end) rs = true ->
  Forall2 (mod_R N P Q W expo invN) ys rs.
Proof.
  induction 1 as [|y r ys rs Hy HF IH]; intros Hs; [constructor|].
  cbn [forallb] in Hs. apply andb_true_iff in Hs. destruct Hs as [Hr Hs].
  constructor; [|now apply IH].
  destruct r as [[[[x z] a] b]|]; [|discriminate].
  destruct (mod_prove_one_shape _ _ _ _ _ _ _ _ _ _ _ Hy) as (ba & bb & -> & -> & -> & -> & Q1 & Q2).
  exists ba, bb. repeat split; assumption.
Qed.

(* the bit-packing of A and B *)
Definition selv (sel : Z * Z * Z * Z -> Z) (r : option (Z * Z * Z * Z)) : Z :=
  match r with Some q => sel q | None => 0 end.
Fixpoint bv (sel : Z * Z * Z * Z -> Z) (rs : list (option (Z * Z * Z * Z))) : Z :=
  match rs with [] => 0 | r :: t => selv sel r + 2 * bv sel t end.
Fixpoint bv_top (sel : Z * Z * Z * Z -> Z) (rs : list (option (Z * Z * Z * Z))) : Z :=
  match rs with [] => 1 | r :: t => selv sel r + 2 * bv_top sel t end.

Lemma bits_fold sel : forall rs s acc,
  fold_left (fun acc ir => match snd ir with
                           | Some r => acc + sel r * 2 ^ Z.of_nat (fst ir)
                           | None => acc end)
            (combine (seq s (length rs)) rs) acc = acc + 2 ^ Z.of_nat s * bv sel rs.
Proof.
  induction rs as [|r rs IH]; intros s acc; cbn [length seq combine fold_left bv].
  - ring.
  - rewrite IH. cbn [fst snd]. rewrite Nat2Z.inj_succ, Z.pow_succ_r by lia.
    destruct r as [q|]; cbn [selv]; ring.
Qed.

Lemma bv_top_bv sel rs : bv_top sel rs = bv sel rs + 2 ^ Z.of_nat (length rs).
Proof.
  induction rs as [|r rs IH]; cbn [bv bv_top length]; [reflexivity|].
  rewrite IH, Nat2Z.inj_succ, Z.pow_succ_r by lia. ring.
Qed.

Lemma bits_top sel rs :
  fold_left (fun acc ir => match snd ir with
                           | Some r => acc + sel r * 2 ^ Z.of_nat (fst ir)
                           | None => acc end)
            (combine (seq 0 (length rs)) rs) (2 ^ Z.of_nat (length rs)) = bv_top sel rs.
Proof. rewrite bits_fold, bv_top_bv. cbn [Z.of_nat]. ring. Qed.

Definition sel_a (r : Z * Z * Z * Z) : Z := snd (fst r).
Definition sel_b (r : Z * Z * Z * Z) : Z := snd r.

Lemma mod_R_sel N P Q W expo invN y r : mod_R N P Q W expo invN y r ->
  exists ba bb, selv sel_a r = Z.b2z ba /\ selv sel_b r = Z.b2z bb.
Proof. intros (ba & bb & -> & _). exists ba, bb. split; reflexivity. Qed.

Lemma bv_top_pos N P Q W expo invN sel : (sel = sel_a \/ sel = sel_b) -> forall ys rs,
  Forall2 (mod_R N P Q W expo invN) ys rs -> 0 < bv_top sel rs.
Proof.
  intros Hsel. induction 1 as [|y r ys rs Hy HF IH]; cbn [bv_top]; [lia|].
  destruct (mod_R_sel _ _ _ _ _ _ _ _ Hy) as (ba & bb & Ea & Eb).
  destruct Hsel as [-> | ->]; [rewrite Ea; destruct ba|rewrite Eb; destruct bb]; cbn [Z.b2z]; lia.
Qed.

Lemma bv_top_bitlen N P Q W expo invN sel : (sel = sel_a \/ sel = sel_b) -> forall ys rs,
  Forall2 (mod_R N P Q W expo invN) ys rs ->
  bitlen (bv_top sel rs) = Z.of_nat (length rs) + 1.
Proof.
  intros Hsel ys rs HF.
  assert (K : Z.log2 (bv_top sel rs) = Z.of_nat (length rs)).
  { induction HF as [|y r ys rs Hy HF IH]; [reflexivity|].
    cbn [bv_top length]. rewrite Nat2Z.inj_succ.
    pose proof (bv_top_pos N P Q W expo invN sel Hsel ys rs HF) as Hpos.
    destruct (mod_R_sel _ _ _ _ _ _ _ _ Hy) as (ba & bb & Ea & Eb).
    assert (Eb' : exists b0 : bool, selv sel r = Z.b2z b0).
    { destruct Hsel as [-> | ->]; eauto. }
    destruct Eb' as [b0 ->]. rewrite <- IH.
    destruct b0; cbn [Z.b2z].
    - rewrite Z.add_comm. now apply Z.log2_succ_double.
    - rewrite Z.add_0_l. now apply Z.log2_double. }
  pose proof (bv_top_pos N P Q W expo invN sel Hsel ys rs HF) as Hpos.
  unfold bitlen. destruct (bv_top sel rs =? 0) eqn:E0; [apply Z.eqb_eq in E0; lia|].
  rewrite Z.abs_eq by lia. now rewrite K.
Qed.

Lemma powmod_zero_base e m : 0 < e -> 0 < m -> powmod 0 e m = 0.
Proof.
  intros He Hm. rewrite powmod_spec by lia. rewrite Z.pow_0_l by assumption. now apply Z.mod_0_l, Z.neq_sym, Z.lt_neq.
Qed.

Lemma mod_cand_zero N W ba bb : mod_cand N W 0 ba bb = 0.
Proof.
  unfold mod_cand. destruct ba, bb; rewrite ?Z.mul_0_r, ?Zmod_0_l, ?Z.mul_0_r, ?Zmod_0_l; reflexivity.
Qed.

Definition getx (r : option (Z * Z * Z * Z)) : Z := match r with Some (x, _, _, _) => x | None => 0 end.
Definition getz (r : option (Z * Z * Z * Z)) : Z := match r with Some (_, z, _, _) => z | None => 0 end.

Section ModComplete.
  Variables P Q a b : Z.
  Hypothesis EP : P = 4 * a + 3.
  Hypothesis EQ : Q = 4 * b + 3.
  Hypothesis HP : prime P.
  Hypothesis HQ : prime Q.
  Hypothesis Hne : P <> Q.
  Local Notation N := (P * Q).
  Local Notation Phi := ((P - 1) * (Q - 1)).
  Local Notation expo := ((((Phi + 4) / 8) * ((Phi + 4) / 8)) mod Phi).
  (* soundness of the Jacobi-symbol residuosity test modulo the prime factors (true, not proved
     here: needs the correctness of the binary Jacobi algorithm, Euler's criterion and CRT) *)
  Hypothesis QRsound : forall c, 0 <= c < N -> is_qr c P = Ok true -> is_qr c Q = Ok true ->
    exists u, Z.gcd u N = 1 /\ eqm N c (u * u).
  Variables W invN : Z.
  Hypothesis Hinv : modinv N Phi = Some invN.

  Let HN1 : 1 < N.
  Proof. pose proof (prime_gt_1 P HP). pose proof (prime_gt_1 Q HQ). nia. Qed.

  Definition mod_R2 (y : Z) (r : option (Z * Z * Z * Z)) : Prop :=
    exists x z (ba bb : bool),
      r = Some (x, z, Z.b2z ba, Z.b2z bb) /\ 0 < x < N /\ 0 < z < N /\
      powmod z N N = y /\ powmod x 4 N = mod_cand N W y ba bb.

  Lemma mod_R2_of_R y r : 0 <= y < N -> mod_R N P Q W expo invN y r -> mod_R2 y r.
  Proof.
    intros Hy (ba & bb & -> & Q1 & Q2).
    pose proof (mod_cand_range N W y ba bb ltac:(lia) Hy) as Hc.
    destruct (QRsound _ Hc Q1 Q2) as (u & Gu & Eu).
    destruct (mod_complete_index P Q a b W y ba bb u invN EP EQ HP HQ Hne Hinv Hy Gu Eu) as [C1 C2].
    apply Z.eqb_eq in C1. apply Z.eqb_eq in C2.
    assert (Hcne : mod_cand N W y ba bb <> 0).
    { intros E0. rewrite E0 in Eu.
      pose proof (gcd_eqm N 0 (u * u) ltac:(lia) Eu) as G.
      rewrite (gcd_1_mul_l u u N Gu Gu) in G. rewrite Z.gcd_0_l in G. lia. }
    pose proof (powmod_range (mod_cand N W y ba bb) expo N ltac:(lia)) as Rx.
    pose proof (powmod_range y invN N ltac:(lia)) as Rz.
    exists (powmod (mod_cand N W y ba bb) expo N), (powmod y invN N), ba, bb.
    split; [reflexivity|]. split; [|split; [|split; assumption]].
    - split; [|lia].
      destruct (Z.eq_dec (powmod (mod_cand N W y ba bb) expo N) 0) as [E0|E0]; [|lia].
      rewrite E0 in C1. rewrite powmod_zero_base in C1 by lia. congruence.
    - split; [|lia].
      destruct (Z.eq_dec (powmod y invN N) 0) as [E0|E0]; [|lia].
      rewrite E0 in C2. rewrite powmod_zero_base in C2 by lia.
      subst y. now rewrite mod_cand_zero in Hcne.
  Qed.

  Lemma mod_R2_all : forall ys rs, Forall (fun y => 0 <= y < N) ys ->
    Forall2 (mod_R N P Q W expo invN) ys rs -> Forall2 mod_R2 ys rs.
  Proof.
    intros ys rs HF H2. induction H2 as [|y r ys rs Hy H2 IH]; [constructor|].
    inversion HF as [|y' l' Hy' HF']; subst. constructor; [now apply mod_R2_of_R|now apply IH].
  Qed.

  Lemma mod_ok1_all : forall ys rs, Forall2 mod_R2 ys rs ->
    forallb (fun zy => powmod (fst zy) N N =? snd zy) (combine (map getz rs) ys) = true.
  Proof.
    induction 1 as [|y r ys rs Hy H2 IH]; [reflexivity|].
    destruct Hy as (x & z & ba & bb & -> & _ & _ & Ez & _).
    cbn [map combine forallb getz fst snd]. rewrite IH, andb_true_r. now apply Z.eqb_eq.
  Qed.

  Lemma mod_rangeZ_all : forall ys rs, Forall2 mod_R2 ys rs ->
    forallb (fun z => (0 <? z) && (z <? N)) (map getz rs) = true.
  Proof.
    induction 1 as [|y r ys rs Hy H2 IH]; [reflexivity|].
    destruct Hy as (x & z & ba & bb & -> & _ & Rz & _ & _).
    cbn [map forallb getz]. rewrite IH, andb_true_r.
    apply andb_true_iff. split; apply Z.ltb_lt; lia.
  Qed.

  Lemma mod_rangeX_all : forall ys rs, Forall2 mod_R2 ys rs ->
    forallb (fun x => (0 <? x) && (x <? N)) (map getx rs) = true.
  Proof.
    induction 1 as [|y r ys rs Hy H2 IH]; [reflexivity|].
    destruct Hy as (x & z & ba & bb & -> & Rx & _ & _ & _).
    cbn [map forallb getx]. rewrite IH, andb_true_r.
    apply andb_true_iff. split; apply Z.ltb_lt; lia.
  Qed.

  Lemma mod_ok2_all : forall ys rs, Forall2 mod_R2 ys rs -> forall s A B,
    Z.shiftr A (Z.of_nat s) = bv_top sel_a rs -> Z.shiftr B (Z.of_nat s) = bv_top sel_b rs ->
    forallb (fun ixy =>
               let i := fst ixy in let x := fst (snd ixy) in let y := snd (snd ixy) in
               let a := Z.testbit A (Z.of_nat i) in
               let b := Z.testbit B (Z.of_nat i) in
               let r1 := if a then ((-1) * y) mod N else y in
               let r2 := if b then (W * r1) mod N else r1 in
               powmod x 4 N =? r2)
            (combine (seq s (length ys)) (combine (map getx rs) ys)) = true.
  Proof.
    induction 1 as [|y r ys rs Hy H2 IH]; intros s A B HA HB; [reflexivity|].
    destruct Hy as (x & z & ba & bb & -> & _ & _ & _ & Ex).
    cbn [bv_top selv sel_a sel_b fst snd] in HA, HB.
    assert (TA : Z.testbit A (Z.of_nat s) = ba).
    { rewrite <- (Z.add_0_l (Z.of_nat s)). rewrite <- Z.shiftr_spec by lia. rewrite HA.
      apply Z.add_b2z_double_bit0. }
    assert (TB : Z.testbit B (Z.of_nat s) = bb).
    { rewrite <- (Z.add_0_l (Z.of_nat s)). rewrite <- Z.shiftr_spec by lia. rewrite HB.
      apply Z.add_b2z_double_bit0. }
    assert (SA : Z.shiftr A (Z.of_nat (S s)) = bv_top sel_a rs).
    { rewrite Nat2Z.inj_succ. rewrite <- Z.add_1_r. rewrite <- Z.shiftr_shiftr by lia.
      rewrite HA. rewrite Z.shiftr_div_pow2 by lia. apply Z.add_b2z_double_div2. }
    assert (SB : Z.shiftr B (Z.of_nat (S s)) = bv_top sel_b rs).
    { rewrite Nat2Z.inj_succ. rewrite <- Z.add_1_r. rewrite <- Z.shiftr_shiftr by lia.
      rewrite HB. rewrite Z.shiftr_div_pow2 by lia. apply Z.add_b2z_double_div2. }
    cbn [length seq map combine getx].
    match goal with |- forallb ?f0 _ = true => set (f := f0) end.
    cbn [forallb]. apply andb_true_iff. split; [|exact (IH (S s) A B SA SB)].
    subst f. cbv beta zeta. cbn [fst snd]. rewrite TA, TB. apply Z.eqb_eq. exact Ex.
  Qed.
End ModComplete.

Lemma zk_Ok_inj {A} (x y : A) : Ok x = Ok y -> x = y.
Proof. intros E. now injection E. Qed.

(* the verifier accepts as soon as every guard and both families of equations hold *)
Lemma mod_verify_accepts H is_prime session N W xs A B zs :
  0 < N -> Z.even N = false -> go_jacobi W N = Ok (-1) -> 0 < W < N -> Z.gcd W N = 1 ->
  forallb (fun z => (0 <? z) && (z <? N)) zs = true ->
  forallb (fun x => (0 <? x) && (x <? N)) xs = true ->
  bitlen A = Z.of_nat ModIters + 1 -> bitlen B = Z.of_nat ModIters + 1 ->
  is_prime N = false ->
  forallb (fun zy => powmod (fst zy) N N =? snd zy)
          (combine zs (mod_ys H ModIters session W N [])) = true ->
  forallb (fun ixy =>
             let i := fst ixy in let x := fst (snd ixy) in let y := snd (snd ixy) in
             let a := Z.testbit A (Z.of_nat i) in
             let b := Z.testbit B (Z.of_nat i) in
             let r1 := if a then ((-1) * y) mod N else y in
             let r2 := if b then (W * r1) mod N else r1 in
             powmod x 4 N =? r2)
          (combine (seq 0 ModIters) (combine xs (mod_ys H ModIters session W N []))) = true ->
  mod_verify H is_prime session N (mkMod W xs A B zs) = Ok true.
Proof.
  intros HN Hev HJ HW HG Gz Gx GA GB Hip O1 O2.
  unfold mod_verify, mW, mX, mA, mB, mZ.
  assert (G0 : negb (0 <? N) || Z.even N = false).
  { rewrite Hev. apply orb_false_iff. split; [apply negb_false_iff, Z.ltb_lt; lia|reflexivity]. }
  rewrite G0, HJ. unfold obind. change (-1 =? 1) with false. cbv iota.
  assert (G1 : negb (0 <? W) || negb (W <? N) = false).
  { apply orb_false_iff. split; apply negb_false_iff, Z.ltb_lt; lia. }
  rewrite G1, HG, Z.eqb_refl, Gz, Gx, GA, GB, Z.eqb_refl, Hip. unfold negb.
  f_equal. apply andb_true_iff. split; [exact O1|exact O2].
Qed.

(* C10/C11 completeness of modproof for a Blum integer, relative to [QRsound].
   structural : P = Q = 3 mod 4 distinct primes; W is the drawn non-residue: Jacobi(W,N) = -1,
                0 < W < N, gcd(W,N) = 1; the primality oracle answers "composite" on N;
                the prover returned Ok (it returns Err only when some Y_i has no square
                candidate, i.e. Y_i is not a unit: negligible probability);
   mathematical fact assumed, not proved : QRsound (Jacobi symbol 1 modulo both prime factors
                implies being the square of a unit modulo N);
   negligible-probability exclusions : none beyond the prover returning Ok. *)
Theorem mod_complete_qr : forall H is_prime session P Q a b W pf,
  P = 4 * a + 3 -> Q = 4 * b + 3 -> prime P -> prime Q -> P <> Q ->
  (forall c, 0 <= c < P * Q -> is_qr c P = Ok true -> is_qr c Q = Ok true ->
             exists u, Z.gcd u (P * Q) = 1 /\ eqm (P * Q) c (u * u)) ->
  go_jacobi W (P * Q) = Ok (-1) -> 0 < W < P * Q -> Z.gcd W (P * Q) = 1 ->
  is_prime (P * Q) = false ->
  mod_prove H session (P * Q) P Q W = Ok pf ->
  mod_verify H is_prime session (P * Q) pf = Ok true.
Proof.
  intros H is_prime session P Q a b W pf EP EQ HP HQ Hne QRs HJ HW HG Hip Hprove.
  pose proof (prime_gt_1 P HP) as P1. pose proof (prime_gt_1 Q HQ) as Q1.
  assert (HN : 1 < P * Q) by nia.
  unfold mod_prove in Hprove. cbv zeta in Hprove.
  destruct (modinv (P * Q) ((P - 1) * (Q - 1))) as [invN|] eqn:Hinv; [|discriminate Hprove].
  set (ys := mod_ys H ModIters session W (P * Q) []) in *.
  match type of Hprove with context [omapM ?f ys] =>
    destruct (omapM f ys) as [rs| | |] eqn:ER; unfold obind in Hprove;
      [|discriminate Hprove|discriminate Hprove|discriminate Hprove] end.
  match type of Hprove with (if ?g then _ else _) = _ => destruct g eqn:EF end;
    [|discriminate Hprove].
  apply zk_Ok_inj in Hprove. subst pf.
  assert (Lys : length ys = ModIters) by (subst ys; rewrite mod_ys_length; reflexivity).
  assert (Rys : Forall (fun y => 0 <= y < P * Q) ys).
  { subst ys. apply mod_ys_range; [lia|constructor]. }
  pose proof (mod_R_of_prove _ _ _ _ _ _ _ _ (omapM_Forall2 _ _ _ ER) EF) as HR.
  pose proof (mod_R2_all P Q a b EP EQ HP HQ Hne QRs W invN Hinv ys rs Rys HR) as HR2.
  assert (Lrs : length rs = ModIters).
  { rewrite <- Lys. symmetry. eapply zk_Forall2_length; exact HR. }
  assert (EA : fold_left (fun acc ir => match snd ir with
                                        | Some r => acc + snd (fst r) * 2 ^ Z.of_nat (fst ir)
                                        | None => acc end)
                         (combine (seq 0 ModIters) rs) (2 ^ Z.of_nat ModIters) = bv_top sel_a rs).
  { rewrite <- Lrs. apply (bits_top (fun r => snd (fst r))). }
  assert (EB : fold_left (fun acc ir => match snd ir with
                                        | Some r => acc + snd r * 2 ^ Z.of_nat (fst ir)
                                        | None => acc end)
                         (combine (seq 0 ModIters) rs) (2 ^ Z.of_nat ModIters) = bv_top sel_b rs).
  { rewrite <- Lrs. apply (bits_top (fun r => snd r)). }
  rewrite EA, EB.
  assert (Hev : Z.even (P * Q) = false).
  { pose proof HJ as HJ'. unfold go_jacobi in HJ'.
    destruct (Z.even (P * Q)); [discriminate HJ'|reflexivity]. }
  apply mod_verify_accepts; try assumption; try lia.
  - exact (mod_rangeZ_all P Q W ys rs HR2).
  - exact (mod_rangeX_all P Q W ys rs HR2).
  - rewrite <- Lrs. exact (bv_top_bitlen _ _ _ _ _ _ sel_a (or_introl eq_refl) ys rs HR).
  - rewrite <- Lrs. exact (bv_top_bitlen _ _ _ _ _ _ sel_b (or_intror eq_refl) ys rs HR).
  - exact (mod_ok1_all P Q W ys rs HR2).
  - fold ys. rewrite <- Lys.
    exact (mod_ok2_all P Q W ys rs HR2 0%nat (bv_top sel_a rs) (bv_top sel_b rs)
             (Z.shiftr_0_r _) (Z.shiftr_0_r _)).
Qed.

(* ================================================================== *)
(* 7. The hypotheses are satisfiable: toy instances                     *)
(* ================================================================== *)

(* a toy 128-bit "hash" and a toy curve (only cq = 11 matters here) *)
Definition toyH (l : list Z) : list Z :=
  map (fun k => fold_left (fun a b => (a * k + b + 1) mod 256) l k)
      [3;5;7;11;13;17;19;23;29;31;37;41;43;47;53;59].
Definition toyc : curve := mkCurve Weier 23 0 7 11 0 0.

(* N = 11 * 23 = (2*5+1)(2*11+1), f = 2, h1 = 4, x = 3, h2 = 64 *)
Example safe_prime_product_order_ex : powmod ((2 * 2) mod 253) (5 * 11) 253 = 1 mod 253.
Proof.
  apply (safe_prime_product_order 5 11 253 2);
    [exact prime_11|exact prime_23|lia|reflexivity|reflexivity].
Qed.

Definition toy_as : list Z := map (fun i => 2 + (Z.of_nat i * 7) mod 50) (seq 0 128).

Example dln_complete_ex :
  let pf := dln_prove toyH 4 64 3 5 11 253 toy_as in
  dln_verify toyH 4 64 253 (fst pf) (snd pf) = Ok true.
Proof.
  apply dln_complete.
  - lia.
  - lia.
  - exact safe_prime_product_order_ex.
  - lia.
  - vm_compute. reflexivity.
  - reflexivity.
  - apply Forall_forall. intros a Ha. unfold toy_as in Ha. apply in_map_iff in Ha.
    destruct Ha as (i & <- & _). pose proof (Z.mod_pos_bound (Z.of_nat i * 7) 50). lia.
  - vm_compute. reflexivity.
  - vm_compute. reflexivity.
  - intros E. vm_compute in E. discriminate.
  - vm_compute. reflexivity.
  - vm_compute. reflexivity.
Qed.

(* alpha = 4^5, answers t0 = 5 (bit 0) and t1 = 5 + 3 (bit 1) reveal x = 3 *)
Example dln_sound_bit_ex : 64 mod 253 = powmod 4 (8 - 5) 253.
Proof.
  apply (dln_sound_bit 4 64 253 (powmod 4 5 253) 5 8);
    [lia|vm_compute; reflexivity|lia|vm_compute; reflexivity|vm_compute; reflexivity].
Qed.

(* N0 = 7 * 11, NCap = 253, t = 4, s = t^3 = 64 *)
Example fac_complete_ex :
  fac_verify toyH toyc [1; 2] 77 253 64 4
    (fac_prove toyH toyc [1; 2] 77 253 64 4 7 11 100 200 30 5 1000 17 40 50) = Ok true.
Proof.
  apply fac_complete; try lia; try reflexivity.
  - vm_compute. discriminate.
Qed.

Example fac_range_rejects_ex :
  fac_verify toyH toyc [1; 2] 77 253 64 4 (mkFac 169 196 144 188 93 1000 (1331 * 8) 211 70 55 982)
  = Ok false.
Proof. apply fac_range_rejects. left. vm_compute. reflexivity. Qed.

(* Blum integer 77 = 7 * 11, Y = 4 = 2^2, N^-1 mod phi = 53 *)
Example mod_complete_index_ex :
  (powmod (powmod 4 ((((60 + 4) / 8) * ((60 + 4) / 8)) mod 60) 77) 4 77 =? 4) = true /\
  (powmod (powmod 4 53 77) 77 77 =? 4) = true.
Proof.
  apply (mod_complete_index 7 11 1 2 5 4 false false 2 53);
    try reflexivity; try lia; [exact prime_7|exact prime_11].
Qed.

Example mod_verify_rejects_ex :
  mod_verify toyH (fun _ => false) [1] 10 (mkMod 3 [] 0 0 []) = Ok false.
Proof. apply mod_verify_rejects_even_or_prime. left. reflexivity. Qed.

(* Blum integer 103 * 107, W = 3 (Jacobi -1); QRsound is checked by brute force *)
Definition qr_check (N P Q : Z) (c : Z) : bool :=
  match is_qr c P, is_qr c Q with
  | Ok true, Ok true =>
      let u := powmod c (((P - 1) * (Q - 1) / 4 + 1) / 2) N in
      (Z.gcd u N =? 1) && ((u * u) mod N =? c mod N)
  | _, _ => true
  end.

Lemma qr_check_sound N P Q : 0 <= N ->
  forallb (fun i => qr_check N P Q (Z.of_nat i)) (seq 0 (Z.to_nat N)) = true ->
  forall c, 0 <= c < N -> is_qr c P = Ok true -> is_qr c Q = Ok true ->
  exists u, Z.gcd u N = 1 /\ eqm N c (u * u).
Proof.
  intros HN HF c Hc Q1 Q2.
  rewrite forallb_forall in HF. specialize (HF (Z.to_nat c)).
  rewrite Z2Nat.id in HF by lia.
  assert (Hin : In (Z.to_nat c) (seq 0 (Z.to_nat N))) by (apply in_seq; lia).
  specialize (HF Hin). unfold qr_check in HF. rewrite Q1, Q2 in HF.
  apply andb_true_iff in HF. destruct HF as [G E].
  apply Z.eqb_eq in G. apply Z.eqb_eq in E.
  eexists. split; [exact G|]. unfold eqm. symmetry. exact E.
Qed.

Example prime_103 : prime 103.
Proof. apply prime_check_sound. vm_compute. reflexivity. Qed.
Example prime_107 : prime 107.
Proof. apply prime_check_sound. vm_compute. reflexivity. Qed.

Example mod_complete_qr_ex : forall is_prime pf, is_prime (103 * 107) = false ->
  mod_prove toyH [1] (103 * 107) 103 107 3 = Ok pf ->
  mod_verify toyH is_prime [1] (103 * 107) pf = Ok true.
Proof.
  intros is_prime pf Hip Hp.
  apply (mod_complete_qr toyH is_prime [1] 103 107 25 26 3 pf).
  - reflexivity.
  - reflexivity.
  - exact prime_103.
  - exact prime_107.
  - lia.
  - apply qr_check_sound; [lia|]. vm_compute. reflexivity.
  - vm_compute. reflexivity.
  - lia.
  - vm_compute. reflexivity.
  - exact Hip.
  - exact Hp.
Qed.
Example mod_prove_ex : exists pf, mod_prove toyH [1] (103 * 107) 103 107 3 = Ok pf.
Proof. vm_compute. eexists; reflexivity. Qed.

(* ---- Pocklington certificates: primality of the 120-bit primes of the Paillier example ---- *)

Lemma zk_prime_divisor : forall m, 1 < m -> exists p, prime p /\ (p | m).
Proof.
  intros m Hm. assert (H0 : 0 <= m) by lia. revert Hm.
  refine (Z_lt_induction (fun m => 1 < m -> exists p, prime p /\ (p | m)) _ m H0).
  clear m H0. intros n IH Hn.
  destruct (prime_dec n) as [Hp|Hnp].
  - exists n. split; [assumption|apply Z.divide_refl].
  - destruct (not_prime_divide n Hn Hnp) as (d & Hd & Dd).
    destruct (IH d ltac:(lia) ltac:(lia)) as (p & Hp & Dp).
    exists p. split; [assumption|]. now apply Z.divide_trans with d.
Qed.

Lemma zk_eqm_divide p n x y : n <> 0 -> (p | n) -> eqm n x y -> eqm p x y.
Proof.
  intros Hn0 [k Hk] E. apply eqm_sub_0 in E. apply eqm_0_iff in E.
  apply eqm_sub_0. apply eqm_0_iff.
  apply Z.mod_divide in E; [|assumption]. destruct E as [j Hj].
  rewrite Hj, Hk. replace (j * (k * p)) with ((j * k) * p) by ring. apply Z_mod_mult.
Qed.

(* a prime-order element: b^q = 1, b <> 1 modulo a prime p forces q | p - 1 *)
Lemma zk_order_divides p q b : prime p -> prime q ->
  eqm p (b ^ q) 1 -> ~ eqm p b 1 -> (q | p - 1).
Proof.
  intros Hp Hq Ebq Hb1.
  pose proof (prime_gt_1 p Hp) as P1. pose proof (prime_gt_1 q Hq) as Q1.
  destruct (Zdivide_dec q (p - 1)) as [D|ND]; [assumption|exfalso].
  assert (Hb0 : b mod p <> 0).
  { intros E0. assert (X : eqm p b 0) by (apply eqm_0_iff; exact E0).
    rewrite (eqm_pow p b 0 q ltac:(lia) X) in Ebq. rewrite Z.pow_0_l in Ebq by lia.
    unfold eqm in Ebq. rewrite Z.mod_0_l, Z.mod_small in Ebq by lia. discriminate. }
  assert (Fer : eqm p (b ^ (p - 1)) 1).
  { unfold eqm. rewrite Zfermat_little by assumption. symmetry. apply Z.mod_small. lia. }
  pose proof (prime_rel_prime q Hq (p - 1) ND) as RP.
  destruct (rel_prime_bezout _ _ RP) as [u v Huv].
  set (t := Z.abs u + 1).
  set (u' := u + t * (p - 1)). set (w := t * q - v).
  assert (Hu' : 1 <= u') by (subst u' t; nia).
  assert (Euv : u' * q = 1 + w * (p - 1)) by (subst u' w; nia).
  assert (Hw : 0 <= w) by nia.
  apply Hb1.
  assert (E1 : eqm p (b ^ (u' * q)) 1).
  { rewrite (Z.mul_comm u' q). rewrite Z.pow_mul_r by lia. apply eqm_1_pow; [lia|assumption]. }
  rewrite Euv in E1. rewrite Z.pow_add_r, Z.pow_1_r in E1 by nia.
  rewrite (Z.mul_comm w (p - 1)) in E1. rewrite Z.pow_mul_r in E1 by lia.
  rewrite (eqm_1_pow p _ w Hw Fer) in E1. rewrite Z.mul_1_r in E1. exact E1.
Qed.

Theorem zk_pocklington n q a : prime q -> 1 < n -> (q | n - 1) -> n < (q + 1) * (q + 1) ->
  powmod a (n - 1) n = 1 -> Z.gcd (powmod a ((n - 1) / q) n - 1) n = 1 -> prime n.
Proof.
  intros Hq Hn Dq Hsz Ha Hg.
  pose proof (prime_gt_1 q Hq) as Q1.
  assert (Step : forall p, prime p -> (p | n) -> (q | p - 1)).
  { intros p Hp Dp. pose proof (prime_gt_1 p Hp) as P1.
    destruct Dq as [R HR].
    assert (ER : (n - 1) / q = R) by (rewrite HR; apply Z.div_mul; lia).
    assert (HR0 : 0 <= R) by nia.
    rewrite ER in Hg.
    apply (zk_order_divides p q (a ^ R) Hp Hq).
    - rewrite <- Z.pow_mul_r by lia. rewrite <- HR.
      apply (zk_eqm_divide p n _ _ ltac:(lia) Dp). unfold eqm.
      rewrite <- powmod_spec by lia. rewrite Ha. symmetry. apply Z.mod_small. lia.
    - intros E1.
      assert (E2 : eqm p (powmod a R n) 1).
      { rewrite <- E1. apply (zk_eqm_divide p n _ _ ltac:(lia) Dp). now apply zk_powmod_eqm; lia. }
      apply eqm_sub_0 in E2. apply eqm_0_iff in E2. apply Z.mod_divide in E2; [|lia].
      pose proof (Z.gcd_greatest _ _ _ E2 Dp) as G. rewrite Hg in G.
      apply Z.divide_1_r_nonneg in G; lia. }
  destruct (prime_dec n) as [Hp|Hnp]; [assumption|exfalso].
  destruct (not_prime_divide n Hn Hnp) as (d & Hd & [e He]).
  assert (He1 : 1 < e) by nia.
  assert (Hm : exists m, 1 < m /\ (m | n) /\ m * m <= n).
  { destruct (Z_le_gt_dec (d * d) n) as [L|G].
    - exists d. repeat split; try lia. exists e. lia.
    - exists e. repeat split; try lia; [exists d; lia|nia]. }
  destruct Hm as (m & Hm1 & Dm & Hmm).
  destruct (zk_prime_divisor m Hm1) as (p & Hp & Dp).
  pose proof (prime_gt_1 p Hp) as P1.
  assert (Hpm : p <= m) by (apply Z.divide_pos_le; [lia|assumption]).
  pose proof (Step p Hp (Z.divide_trans _ _ _ Dp Dm)) as Dqp.
  assert (Hqp : q <= p - 1) by (apply Z.divide_pos_le; [lia|assumption]).
  nia.
Qed.

Definition pock_check (n q a : Z) : bool :=
  (1 <? n) && ((n - 1) mod q =? 0) && (n <? (q + 1) * (q + 1)) &&
  (powmod a (n - 1) n =? 1) && (Z.gcd (powmod a ((n - 1) / q) n - 1) n =? 1).

Lemma pock_check_sound n q a : prime q -> pock_check n q a = true -> prime n.
Proof.
  intros Hq Hc. unfold pock_check in Hc.
  repeat (apply andb_true_iff in Hc; destruct Hc as [Hc ?]).
  pose proof (prime_gt_1 q Hq) as Q1.
  apply (zk_pocklington n q a); try assumption.
  - now apply Z.ltb_lt.
  - apply Z.mod_divide; [lia|]. now apply Z.eqb_eq.
  - now apply Z.ltb_lt.
  - now apply Z.eqb_eq.
  - now apply Z.eqb_eq.
Qed.

Example prime_257 : prime 257.
Proof. apply prime_check_sound. vm_compute. reflexivity. Qed.

Definition toyP : Z := 1376059978515008533190893987436713571.
Definition toyQ : Z := 1398804038992788707140338894009764131.

Example prime_toyP : prime toyP.
Proof.
  apply (pock_check_sound _ 1209648870757912349 2); [|vm_compute; reflexivity].
  apply (pock_check_sound _ 1106851511 2); [|vm_compute; reflexivity].
  apply (pock_check_sound _ 45233 2); [|vm_compute; reflexivity].
  apply (pock_check_sound _ 257 2); [|vm_compute; reflexivity].
  exact prime_257.
Qed.

Example prime_toyQ : prime toyQ.
Proof.
  apply (pock_check_sound _ 1699960585688125507 2); [|vm_compute; reflexivity].
  apply (pock_check_sound _ 1566910409 2); [|vm_compute; reflexivity].
  apply (pock_check_sound _ 63737 2); [|vm_compute; reflexivity].
  apply (pock_check_sound _ 257 2); [|vm_compute; reflexivity].
  exact prime_257.
Qed.

(* a toy 232-bit "hash": candidates are always below the 241-bit modulus *)
Definition toyH29 (l : list Z) : list Z :=
  map (fun k => fold_left (fun a b => (a * k + b + 1) mod 256) l k)
      [3;5;7;11;13;17;19;23;29;31;37;41;43;47;53;59;61;67;71;73;79;83;89;97;101;103;107;109;113].

Example good_key_toy : good_key toyP toyQ.
Proof.
  split; [exact prime_toyP|]. split; [exact prime_toyQ|]. split; [vm_compute; discriminate|].
  vm_compute. reflexivity.
Qed.

Example pai_prove_ex : exists pf, pai_prove toyH29 40 (key_of_primes toyP toyQ) 7 11 13 = Ok pf.
Proof. vm_compute. eexists; reflexivity. Qed.

Example pai_complete_ex : forall pf,
  pai_prove toyH29 40 (key_of_primes toyP toyQ) 7 11 13 = Ok pf ->
  pai_verify toyH29 40 (toyP * toyQ) 7 11 13 pf = Ok true.
Proof.
  intros pf Hp. apply pai_complete.
  - exact good_key_toy.
  - vm_compute. reflexivity.
  - vm_compute. reflexivity.
  - exact Hp.
Qed.

Example pai_rejects_small_factor_ex :
  pai_verify toyH29 40 (3 * toyQ) 7 11 13 [] = Ok false.
Proof. apply pai_rejects_small_factor. vm_compute. reflexivity. Qed.

(* ---- remarks on the model: the verifiers do not check the NUMBER of proof elements.
   In Go the proofs are fixed-size arrays, so the length is enforced by the type / the
   wire parser; in the model [combine] silently truncates, hence every soundness statement
   about dln_verify / mod_verify / pai_verify must carry an explicit length hypothesis. ---- *)
Theorem dln_verify_empty_accepted : forall H h1 h2 N,
  0 < N -> in_1_N h1 N = true -> in_1_N h2 N = true -> h1 mod N <> h2 mod N ->
  dln_verify H h1 h2 N [] [] = Ok true.
Proof.
  intros H h1 h2 N HN G1 G2 G3. rewrite dln_verify_unfold. unfold dln_guards.
  apply Z.ltb_lt in HN. apply Z.eqb_neq in G3. rewrite HN, G1, G2, G3. reflexivity.
Qed.

(* 15 = 3 * 5 is not a Blum integer, yet an element-free proof is accepted *)
Example mod_verify_empty_accepted :
  mod_verify toyH (fun _ => false) [] 15 (mkMod 7 [] (2 ^ 80) (2 ^ 80) []) = Ok true.
Proof. vm_compute. reflexivity. Qed.

Example pai_verify_empty_accepted : pai_verify toyH29 40 (toyP * toyQ) 7 11 13 [] = Ok true.
Proof. vm_compute. reflexivity. Qed.

(* ================================================================== *)
(* 8. Assumptions                                                       *)
(* ================================================================== *)
Print Assumptions zk_powmod_add.
Print Assumptions zk_powmod_mul_exp.
Print Assumptions zk_powmod_mul_base.
Print Assumptions zk_powmod_mod_order.
Print Assumptions safe_prime_product_order.
Print Assumptions dln_verify_unfold.
Print Assumptions dln_complete.
Print Assumptions dln_sound_bit.
Print Assumptions dln_sound_bit_rev.
Print Assumptions fac_complete.
Print Assumptions fac_range_rejects.
Print Assumptions fac_verify_total.
Print Assumptions fac_verify_no_panic.
Print Assumptions gen_xs_in_group_top.
Print Assumptions pai_complete_gen.
Print Assumptions pai_complete.
Print Assumptions pai_prove_good_key.
Print Assumptions pai_rejects_small_factor.
Print Assumptions pai_verify_no_panic.
Print Assumptions go_jacobi_no_panic.
Print Assumptions mod_verify_total.
Print Assumptions mod_verify_rejects_even_or_prime.
Print Assumptions mod_complete_index.
Print Assumptions mod_complete_qr.
Print Assumptions mod_complete_qr_ex.
Print Assumptions pai_complete_ex.
Print Assumptions dln_complete_ex.
Print Assumptions fac_complete_ex.
Print Assumptions dln_verify_empty_accepted.
