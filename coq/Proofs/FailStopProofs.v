(* C06: the fail-stop wrapper.  Proved for EVERY round engine (the step function is universally quantified, including engines
   that panic on half-computed state) and every sequence of deliveries. *)
From Coq Require Import List String Bool Lia.
From TSS Require Import Base.Outcome Model.FailStop Gen.FailStop.
Import ListNotations.
Local Open Scope list_scope.

(* ---- the source has the shape: every refusal of a round to start is remembered, and BaseUpdate asks before it stores ---- *)
Theorem every_start_failure_is_recorded : start_failures_recorded start_failure_sites = true.
Proof. vm_compute. reflexivity. Qed.
Theorem start_sites_inventory : start_sites_as_expected start_failure_sites = true.
Proof. vm_compute. reflexivity. Qed.
Theorem failed_consulted_first : failed_is_consulted = true /\ failed_consulted_before_store = true.
Proof. vm_compute. split; reflexivity. Qed.

Section Proofs.
  Variables (S E Ev Out : Type).
  Variable step : S -> Ev -> Outcome (S * list Out * option E).
  Notation wstep := (wstep S E Ev Out step).
  Notation wrun := (wrun S E Ev Out step).

  (* once failed: every later delivery is refused with the FIRST error, the state is never touched again, nothing is sent *)
  Theorem failed_is_absorbing : forall evs s e,
    wrun (Failed s e) evs = Ok (Failed s e, map (fun _ => Refused e) evs).
  Proof.
    induction evs as [|ev evs IH]; intros s e; cbn [wrun map].
    - reflexivity.
    - cbn [FailStop.wstep]. rewrite IH. reflexivity.
  Qed.

  (* ... and the round code is not even called: the run from a failed state is the same for every engine, also one that
     would panic or diverge on the state the refused round left behind *)
  Theorem failed_run_ignores_engine : forall (step2 : S -> Ev -> Outcome (S * list Out * option E)) evs s e,
    wrun (Failed s e) evs = FailStop.wrun S E Ev Out step2 (Failed s e) evs.
  Proof.
    intros step2 evs s e. rewrite failed_is_absorbing.
    symmetry. revert s e. induction evs as [|ev evs IH]; intros s e; cbn [FailStop.wrun map].
    - reflexivity.
    - cbn [FailStop.wstep]. rewrite IH. reflexivity.
  Qed.

  (* a run never panics after a refusal: if the prefix up to the first refusal is fine, the whole run is *)
  Theorem no_panic_after_refusal : forall pre post s w rs,
    wrun (Running s) pre = Ok (w, rs) -> (exists s' e, w = Failed s' e) ->
    exists rs', wrun (Running s) (pre ++ post) = Ok (w, rs ++ rs').
  Proof.
    induction pre as [|ev pre IH]; intros post s w rs H [s' [e Hw]]; cbn [wrun app] in *.
    - inversion H; subst. discriminate.
    - destruct (wstep (Running s) ev) as [[w1 r1]| | |] eqn:E1; try discriminate.
      destruct (wrun w1 pre) as [[w2 rs2]| | |] eqn:E2; try discriminate.
      inversion H; subst; clear H.
      destruct w1 as [s1|s1 e1].
      + destruct (IH post s1 (Failed s' e) rs2 E2 (ex_intro _ s' (ex_intro _ e eq_refl))) as [rs' Hr].
        exists rs'. rewrite Hr. reflexivity.
      + rewrite failed_is_absorbing in E2. inversion E2; subst.
        rewrite failed_is_absorbing. rewrite map_app. eexists. cbn [app]. reflexivity.
  Qed.

  (* every reply after the first refusal is that refusal *)
  Theorem first_error_is_sticky : forall evs s w rs,
    wrun (Running s) evs = Ok (w, rs) ->
    forall i e, nth_error rs i = Some (Refused e) -> forall j r, i <= j -> nth_error rs j = Some r -> r = Refused e.
  Proof.
    induction evs as [|ev evs IH]; intros s w rs H i e Hi j r Hij Hj; cbn [wrun] in H.
    - inversion H; subst. destruct i; discriminate.
    - destruct (wstep (Running s) ev) as [[w1 r1]| | |] eqn:E1; try discriminate.
      destruct (wrun w1 evs) as [[w2 rs2]| | |] eqn:E2; try discriminate.
      inversion H; subst; clear H.
      destruct w1 as [s1|s1 e1].
      + (* still running: r1 is Accepted *)
        cbn [FailStop.wstep] in E1. destruct (step s ev) as [[[sx ox] [ex|]]| | |]; inversion E1; subst.
        destruct i as [|i]; [discriminate|]. destruct j as [|j]; [lia|].
        cbn [nth_error] in *. eapply (IH _ _ _ E2 i e Hi j r); [lia|exact Hj].
      + rewrite failed_is_absorbing in E2. inversion E2; subst.
        cbn [FailStop.wstep] in E1. destruct (step s ev) as [[[sx ox] [ex|]]| | |]; inversion E1; subst.
        assert (Hall : forall k x, nth_error (Refused e1 :: map (fun _ : Ev => Refused e1) evs) k = Some x -> x = @Refused E Out e1).
        { intros k x Hk. destruct k as [|k]; cbn [nth_error] in Hk; [inversion Hk; reflexivity|].
          apply nth_error_In in Hk. apply in_map_iff in Hk. destruct Hk as [? [Hx _]]. symmetry. exact Hx. }
        pose proof (Hall _ _ Hi) as Hie. pose proof (Hall _ _ Hj) as Hje. injection Hie as Hee. rewrite Hee. exact Hje.
  Qed.
End Proofs.

(* ---- the wrapper that forgets is refuted: an engine whose round-2 start refuses on a bad first-round message and whose
   round-3 code dereferences what round 2 should have computed.  States: 0 = round 1, 1 = round 2 refused (half-computed),
   2 = fine.  Events: true = the bad message, false = an honest next-round message. ---- *)
Definition demo_step (s : nat) (bad : bool) : Outcome (nat * list nat * option nat) :=
  match s, bad with
  | 0, true => Ok (1, [], Some 7)       (* round 2 refuses to start: error 7, state half-computed *)
  | 0, false => Ok (2, [1], None)
  | 1, _ => Panic                       (* the next round reads what was never computed *)
  | _, _ => Ok (s, [], None)
  end.

Theorem forgetting_wrapper_refuted :
  frun nat nat bool nat demo_step 0 [true; false] = Panic /\
  wrun nat nat bool nat demo_step (Running 0) [true; false] = Ok (Failed 1 7, [Refused 7; Refused 7]).
Proof. split; vm_compute; reflexivity. Qed.

(* the hypotheses of the theorems are met by a run that does fail *)
Example ex_failed_run :
  exists w rs, wrun nat nat bool nat demo_step (Running 0) [true] = Ok (w, rs) /\ exists s' e, w = Failed s' e.
Proof. exists (Failed 1 7), [Refused 7]. split; [vm_compute; reflexivity|]. exists 1, 7. reflexivity. Qed.

Print Assumptions every_start_failure_is_recorded.
Print Assumptions start_sites_inventory.
Print Assumptions failed_consulted_first.
Print Assumptions failed_is_absorbing.
Print Assumptions failed_run_ignores_engine.
Print Assumptions no_panic_after_refusal.
Print Assumptions first_error_is_sticky.
Print Assumptions forgetting_wrapper_refuted.
Print Assumptions ex_failed_run.
