(* Proofs about Model/Poly.v: evaluation, Lagrange weights, reconstruction. *)
From Coq Require Import ZArith Znumtheory List Lia Setoid Morphisms.
From TSS Require Import Base.Outcome Base.Bytes Base.ZMod Model.Poly Proofs.ZModProofs.
Import ListNotations.
Open Scope Z_scope.

Local Notation zsum l := (fold_right Z.add 0 l).

(* ---------- eval_poly ---------- *)

Lemma eval_loop_spec q t id X r :
  eqm q (eval_loop q t id X r) (r + X * id * horner t id).
Proof.
  revert X r; induction t as [|a t IH]; intros X r; cbn [eval_loop horner].
  - apply eqm_of_eq; ring.
  - rewrite IH. rewrite !eqm_mod. apply eqm_of_eq; ring.
Qed.

Lemma eval_poly_spec : forall q coefs x, 0 < q -> eqm q (eval_poly q coefs x) (horner coefs x).
Proof.
  intros q [|a0 t] x _; cbn [eval_poly horner]; [reflexivity|].
  rewrite eval_loop_spec. apply eqm_of_eq; ring.
Qed.

Lemma eval_loop_range q t id X r :
  0 < q -> (0 <= r < q \/ t <> []) -> 0 <= eval_loop q t id X r < q.
Proof.
  intros Hq. revert X r; induction t as [|a t IH]; intros X r H; cbn [eval_loop].
  - destruct H; [assumption|congruence].
  - apply IH. left. apply Z.mod_pos_bound; lia.
Qed.

Lemma eval_poly_range : forall q a0 a1 t x, 0 < q -> 0 <= eval_poly q (a0 :: a1 :: t) x < q.
Proof.
  intros q a0 a1 t x Hq. cbn [eval_poly]. apply eval_loop_range; auto. right; discriminate.
Qed.

Lemma horner_0 coefs : horner coefs 0 = hd 0 coefs.
Proof. destruct coefs; cbn [horner hd]; ring. Qed.

(* ---------- Lagrange weights ---------- *)

Definition lag_prod (q xi : Z) (others : list Z) : Z :=
  fold_right (fun xj acc => (xj * inv_prime q (xj - xi)) * acc) 1 others.

Lemma lagrange_fold q xi others w : 0 < q ->
  eqm q (fold_left (lagrange_step q xi) others w) (w * lag_prod q xi others).
Proof.
  intros Hq. revert w; induction others as [|xj l IH]; intros w; cbn [fold_left lag_prod fold_right].
  - apply eqm_of_eq; ring.
  - rewrite IH. unfold lagrange_step. rewrite inv_prime_mod by assumption.
    rewrite !eqm_mod. apply eqm_of_eq. fold (lag_prod q xi l). ring.
Qed.

Lemma lagrange0_spec q xi others : 0 < q ->
  eqm q (lagrange0 q xi others) (lag_prod q xi others).
Proof.
  intros Hq. unfold lagrange0. rewrite lagrange_fold by assumption. apply eqm_of_eq; ring.
Qed.

Lemma prepare_wi_lagrange0 q s ki others : 0 < q ->
  eqm q (prepare_wi q s ki others) (s * lagrange0 q ki others).
Proof.
  intros Hq. rewrite lagrange0_spec by assumption.
  change (prepare_wi q s ki others) with (fold_left (lagrange_step q ki) others s).
  now apply lagrange_fold.
Qed.

(* division-free reading: lagrange0 * prod (xj - xi) = prod xj  (mod q) *)
Lemma lagrange0_cross q xi others :
  prime q -> Forall (fun xj => (xj - xi) mod q <> 0) others ->
  eqm q (lagrange0 q xi others * fold_right (fun xj acc => (xj - xi) * acc) 1 others)
        (fold_right Z.mul 1 others).
Proof.
  intros Hq HF. pose proof (prime_gt_1 q Hq).
  rewrite lagrange0_spec by lia.
  induction HF as [|xj l Hx HF IH]; cbn [lag_prod fold_right].
  - apply eqm_of_eq; ring.
  - fold (lag_prod q xi l). rewrite <- IH.
    transitivity (xj * ((xj - xi) * inv_prime q (xj - xi)) *
                  (lag_prod q xi l * fold_right (fun xj acc => (xj - xi) * acc) 1 l)).
    + apply eqm_of_eq; ring.
    + rewrite (eqm_inv q (xj - xi)) by assumption. apply eqm_of_eq; ring.
Qed.

(* ---------- polynomial arithmetic on coefficient lists ---------- *)

Fixpoint padd (p r : list Z) : list Z :=
  match p, r with
  | [], _ => r
  | _, [] => p
  | a :: p', b :: r' => (a + b) :: padd p' r'
  end.
Definition pscale (c : Z) (p : list Z) : list Z := map (Z.mul c) p.
(* (c - x) * p(x) *)
Definition plin (c : Z) (p : list Z) : list Z := padd (pscale c p) (0 :: pscale (-1) p).

Lemma horner_padd p r x : horner (padd p r) x = horner p x + horner r x.
Proof.
  revert r; induction p as [|a p IH]; intros [|b r]; cbn [padd horner]; try ring.
  rewrite IH. ring.
Qed.

Lemma horner_pscale c p x : horner (pscale c p) x = c * horner p x.
Proof.
  induction p as [|a p IH]; cbn [pscale map horner]; [ring|].
  fold (pscale c p). rewrite IH. ring.
Qed.

Lemma horner_plin c p x : horner (plin c p) x = (c - x) * horner p x.
Proof.
  unfold plin. rewrite horner_padd. cbn [horner]. rewrite !horner_pscale. ring.
Qed.

Lemma length_padd p r : length (padd p r) = Nat.max (length p) (length r).
Proof.
  revert r; induction p as [|a p IH]; intros [|b r]; cbn [padd length Nat.max]; auto.
Qed.

Lemma length_pscale c p : length (pscale c p) = length p.
Proof. apply map_length. Qed.

Lemma length_plin c p : length (plin c p) = S (length p).
Proof.
  unfold plin. rewrite length_padd. cbn [length]. rewrite !length_pscale. lia.
Qed.

Lemma horner_app_zeros p k x : horner (p ++ repeat 0 k) x = horner p x.
Proof.
  induction p as [|a p IH]; cbn [app horner].
  - induction k as [|k IHk]; cbn [repeat horner]; [reflexivity|]. rewrite IHk. ring.
  - now rewrite IH.
Qed.

(* ---------- finite sums ---------- *)

Lemma fold_left_sum q (f : nat -> Z) l a :
  eqm q (fold_left (fun acc i => (acc + (f i) mod q) mod q) l a) (a + zsum (map f l)).
Proof.
  revert a; induction l as [|i l IH]; intros a; cbn [fold_left map fold_right].
  - apply eqm_of_eq; ring.
  - rewrite IH. rewrite !eqm_mod. apply eqm_of_eq; ring.
Qed.

Lemma zsum_eqm q (f g : nat -> Z) l :
  (forall i, In i l -> eqm q (f i) (g i)) -> eqm q (zsum (map f l)) (zsum (map g l)).
Proof.
  induction l as [|i l IH]; intros H; cbn [map fold_right]; [reflexivity|].
  rewrite (H i) by (left; reflexivity). rewrite IH; [reflexivity|].
  intros j Hj. apply H. now right.
Qed.

Lemma zsum_zero q (f : nat -> Z) l :
  (forall i, In i l -> eqm q (f i) 0) -> eqm q (zsum (map f l)) 0.
Proof.
  induction l as [|i l IH]; intros H; cbn [map fold_right]; [reflexivity|].
  rewrite (H i) by (left; reflexivity). rewrite IH; [reflexivity|].
  intros j Hj. apply H. now right.
Qed.

Lemma zsum_delta q (f : nat -> Z) l k :
  NoDup l -> In k l -> (forall i, In i l -> i <> k -> eqm q (f i) 0) ->
  eqm q (zsum (map f l)) (f k).
Proof.
  induction l as [|a l IH]; intros ND Hk H; [destruct Hk|].
  inversion ND as [|? ? Hna ND']; subst. cbn [map fold_right].
  destruct Hk as [->|Hk].
  - rewrite zsum_zero; [apply eqm_of_eq; ring|].
    intros i Hi. apply H; [now right|]. intros ->. contradiction.
  - rewrite (H a); [|now left|intros ->; contradiction].
    rewrite IH; auto; [apply eqm_of_eq; ring|].
    intros i Hi. apply H. now right.
Qed.

Lemma horner_psum (f : nat -> list Z) l x :
  horner (fold_right padd [] (map f l)) x = zsum (map (fun i => horner (f i) x) l).
Proof.
  induction l as [|i l IH]; cbn [map fold_right horner]; [reflexivity|].
  now rewrite horner_padd, IH.
Qed.

Lemma length_psum (f : nat -> list Z) l n :
  (forall i, In i l -> (length (f i) <= n)%nat) ->
  (length (fold_right padd [] (map f l)) <= n)%nat.
Proof.
  induction l as [|i l IH]; intros H; cbn [map fold_right length]; [lia|].
  rewrite length_padd. apply Nat.max_lub.
  - apply H. now left.
  - apply IH. intros j Hj. apply H. now right.
Qed.

(* ---------- remove_nth ---------- *)

Lemma remove_nth_length {A} i (l : list A) :
  (i < length l)%nat -> S (length (remove_nth i l)) = length l.
Proof.
  revert i; induction l as [|a l IH]; intros [|i] H; cbn [remove_nth length] in *; try lia.
  rewrite IH; lia.
Qed.

Lemma In_remove_nth {A} (d : A) i k (l : list A) :
  (k < length l)%nat -> i <> k -> In (nth k l d) (remove_nth i l).
Proof.
  revert i k; induction l as [|a l IH]; intros [|i] [|k] Hk Hik; cbn [remove_nth length nth] in *;
    try lia.
  - apply nth_In. lia.
  - now left.
  - right. apply IH; lia.
Qed.

Lemma remove_nth_distinct {A B} (f : A -> B) (d : A) i (l : list A) :
  NoDup (map f l) -> (i < length l)%nat ->
  forall y, In y (remove_nth i l) -> f y <> f (nth i l d).
Proof.
  revert i; induction l as [|a l IH]; intros [|i] ND Hi y Hy; cbn [remove_nth length nth map] in *;
    try lia; inversion ND as [|? ? Hna ND']; subst.
  - intros E. apply Hna. rewrite <- E. now apply in_map.
  - destruct Hy as [<-|Hy].
    + intros E. apply Hna. rewrite E. apply in_map. apply nth_In. lia.
    + apply IH; auto. lia.
Qed.

(* ---------- Lagrange basis polynomials ---------- *)

Definition lbasis (q xi : Z) (others : list Z) : list Z :=
  fold_right (fun xj acc => pscale (inv_prime q (xj - xi)) (plin xj acc)) [1] others.

Lemma length_lbasis q xi others : length (lbasis q xi others) = S (length others).
Proof.
  induction others as [|xj l IH]; cbn [lbasis fold_right length]; [reflexivity|].
  fold (lbasis q xi l). now rewrite length_pscale, length_plin, IH.
Qed.

Lemma horner_lbasis_0 q xi others : horner (lbasis q xi others) 0 = lag_prod q xi others.
Proof.
  induction others as [|xj l IH]; cbn [lbasis lag_prod fold_right].
  - cbn [horner]. ring.
  - fold (lbasis q xi l). fold (lag_prod q xi l).
    rewrite horner_pscale, horner_plin, IH. ring.
Qed.

Lemma horner_lbasis_self q xi others :
  prime q -> Forall (fun xj => (xj - xi) mod q <> 0) others ->
  eqm q (horner (lbasis q xi others) xi) 1.
Proof.
  intros Hq HF. induction HF as [|xj l Hx HF IH]; cbn [lbasis fold_right].
  - cbn [horner]. apply eqm_of_eq; ring.
  - fold (lbasis q xi l). rewrite horner_pscale, horner_plin, IH.
    transitivity ((xj - xi) * inv_prime q (xj - xi)); [apply eqm_of_eq; ring|now apply eqm_inv].
Qed.

Lemma horner_lbasis_other q xi others x :
  In x others -> horner (lbasis q xi others) x = 0.
Proof.
  induction others as [|xj l IH]; intros H; [destruct H|]. cbn [lbasis fold_right].
  fold (lbasis q xi l). rewrite horner_pscale, horner_plin.
  destruct H as [->|H]; [ring|]. rewrite IH by assumption. ring.
Qed.

(* ---------- the interpolating polynomial ---------- *)

Definition interp (q : Z) (xs ys : list Z) : list Z :=
  fold_right padd []
    (map (fun i => pscale (nth i ys 0) (lbasis q (nth i xs 0) (remove_nth i xs)))
         (seq 0 (length xs))).

Lemma interp_length q xs ys : (length (interp q xs ys) <= length xs)%nat.
Proof.
  unfold interp. apply length_psum. intros i Hi. apply in_seq in Hi.
  rewrite length_pscale, length_lbasis, remove_nth_length; lia.
Qed.

Lemma interp_eval q xs ys k :
  prime q -> NoDup (map (fun x => x mod q) xs) -> (k < length xs)%nat ->
  eqm q (horner (interp q xs ys) (nth k xs 0)) (nth k ys 0).
Proof.
  intros Hq ND Hk. unfold interp. rewrite horner_psum.
  rewrite (zsum_delta q _ _ k).
  - rewrite horner_pscale, horner_lbasis_self; [apply eqm_of_eq; ring|assumption|].
    apply Forall_forall. intros y Hy. rewrite mod_sub_0.
    apply (remove_nth_distinct (fun x => x mod q) 0 k xs ND Hk y Hy).
  - apply seq_NoDup.
  - apply in_seq. lia.
  - intros i Hi Hik. rewrite horner_pscale, horner_lbasis_other.
    + apply eqm_of_eq; ring.
    + apply In_remove_nth; auto.
Qed.

Lemma interp_0_reconstruct q xs ys : 0 < q ->
  eqm q (reconstruct q xs ys) (horner (interp q xs ys) 0).
Proof.
  intros Hq. unfold reconstruct, interp.
  rewrite (fold_left_sum q (fun i => nth i ys 0 * lagrange0 q (nth i xs 0) (remove_nth i xs))).
  rewrite horner_psum. rewrite Z.add_0_l. apply zsum_eqm. intros i _.
  rewrite horner_pscale, horner_lbasis_0, lagrange0_spec by assumption. reflexivity.
Qed.

(* ---------- root counting ---------- *)

Fixpoint quot (r : Z) (t : list Z) : list Z :=
  match t with
  | [] => []
  | b :: t' => horner t r :: quot r t'
  end.

Lemma quot_length r t : length (quot r t) = length t.
Proof. induction t as [|b t IH]; cbn [quot length]; auto. Qed.

Lemma quot_spec r a t x :
  horner (a :: t) x - horner (a :: t) r = (x - r) * horner (quot r t) x.
Proof.
  revert a; induction t as [|b t IH]; intros a.
  - cbn [quot horner]. ring.
  - cbn [quot]. specialize (IH b).
    change (horner (a :: b :: t) x) with (a + x * horner (b :: t) x).
    change (horner (a :: b :: t) r) with (a + r * horner (b :: t) r).
    change (horner (horner (b :: t) r :: quot r t) x) with (horner (b :: t) r + x * horner (quot r t) x).
    set (T := horner (b :: t)) in *. 
    replace (T x) with (T r + (x - r) * horner (quot r t) x) by (rewrite <- IH; ring).
    ring.
Qed.

Theorem roots_zero q : prime q -> forall rs p,
  NoDup (map (fun x => x mod q) rs) -> (length p <= length rs)%nat ->
  (forall r, In r rs -> eqm q (horner p r) 0) ->
  forall x, eqm q (horner p x) 0.
Proof.
  intros Hq. induction rs as [|r rs IH]; intros p ND Hl Hr x.
  - destruct p; [reflexivity|cbn in Hl; lia].
  - destruct p as [|a t]; [reflexivity|].
    cbn [map] in ND. inversion ND as [|? ? Hna ND']; subst.
    assert (Hs : forall y, eqm q (horner (quot r t) y) 0).
    { apply IH; auto.
      - rewrite quot_length. cbn [length] in Hl. lia.
      - intros r' Hr'. apply (eqm_mul_0 q (r' - r)); auto.
        + rewrite mod_sub_0. intros E. apply Hna. rewrite <- E.
          now apply (in_map (fun x => x mod q)).
        + rewrite <- (quot_spec r a t r'). rewrite (Hr r') by (now right). rewrite (Hr r) by (now left).
          reflexivity. }
    replace (horner (a :: t) x) with (horner (a :: t) r + (x - r) * horner (quot r t) x)
      by (rewrite <- (quot_spec r a t x); ring).
    rewrite (Hr r) by (now left). rewrite Hs. apply eqm_of_eq; ring.
Qed.

(* ---------- the key theorem: Lagrange interpolation at 0 ---------- *)

Theorem interp_at_0 : forall q xs coefs,
  prime q -> NoDup (map (fun x => x mod q) xs) -> (length coefs <= length xs)%nat ->
  forall shares, length shares = length xs ->
  (forall i, (i < length xs)%nat -> eqm q (nth i shares 0) (horner coefs (nth i xs 0))) ->
  eqm q (reconstruct q xs shares) (horner coefs 0).
Proof.
  intros q xs coefs Hq ND Hlen shares Hls Hsh.
  pose proof (prime_gt_1 q Hq) as H1.
  set (D := padd coefs (pscale (-1) (interp q xs shares))).
  assert (HD : forall x, eqm q (horner D x) 0).
  { apply (roots_zero q Hq xs); auto.
    - unfold D. rewrite length_padd, length_pscale.
      pose proof (interp_length q xs shares). lia.
    - intros r Hr. destruct (In_nth xs r 0 Hr) as [k [Hk <-]].
      unfold D. rewrite horner_padd, horner_pscale.
      rewrite (interp_eval q xs shares k Hq ND Hk), (Hsh k Hk). apply eqm_of_eq; ring. }
  rewrite interp_0_reconstruct by lia.
  apply eqm_sym. apply (proj1 (eqm_sub_0 q _ _)).
  transitivity (horner D 0); [|apply HD].
  unfold D. rewrite horner_padd, horner_pscale. apply eqm_of_eq; ring.
Qed.

Theorem prepare_wi_sum : forall q xs coefs,
  prime q -> NoDup (map (fun x => x mod q) xs) -> (length coefs <= length xs)%nat ->
  forall shares, length shares = length xs ->
  (forall i, (i < length xs)%nat -> eqm q (nth i shares 0) (horner coefs (nth i xs 0))) ->
  eqm q (fold_right Z.add 0
           (map (fun i => prepare_wi q (nth i shares 0) (nth i xs 0) (remove_nth i xs))
                (seq 0 (length xs))))
        (horner coefs 0).
Proof.
  intros q xs coefs Hq ND Hlen shares Hls Hsh.
  pose proof (prime_gt_1 q Hq) as H1.
  rewrite <- (interp_at_0 q xs coefs Hq ND Hlen shares Hls Hsh).
  unfold reconstruct.
  rewrite (fold_left_sum q (fun i => nth i shares 0 * lagrange0 q (nth i xs 0) (remove_nth i xs))).
  rewrite Z.add_0_l. apply zsum_eqm. intros i _. apply prepare_wi_lagrange0. lia.
Qed.

(* ---------- any t shares are consistent with every candidate secret ---------- *)

Theorem fewer_hides : forall q xs ys s',
  prime q -> NoDup (map (fun x => x mod q) (0 :: xs)) -> length ys = length xs ->
  exists coefs, length coefs = S (length xs) /\ eqm q (horner coefs 0) s' /\
    forall i, (i < length xs)%nat -> eqm q (horner coefs (nth i xs 0)) (nth i ys 0).
Proof.
  intros q xs ys s' Hq ND Hl.
  set (p := interp q (0 :: xs) (s' :: ys)).
  pose proof (interp_length q (0 :: xs) (s' :: ys)) as Hp. fold p in Hp. cbn [length] in Hp.
  exists (p ++ repeat 0 (S (length xs) - length p)). split; [|split].
  - rewrite app_length, repeat_length. lia.
  - rewrite horner_app_zeros.
    apply (interp_eval q (0 :: xs) (s' :: ys) 0%nat Hq ND). cbn [length]. lia.
  - intros i Hi. rewrite horner_app_zeros.
    apply (interp_eval q (0 :: xs) (s' :: ys) (S i) Hq ND). cbn [length]. lia.
Qed.

Print Assumptions eval_poly_spec.
Print Assumptions eval_poly_range.
Print Assumptions lagrange0_spec.
Print Assumptions interp_at_0.
Print Assumptions prepare_wi_sum.
Print Assumptions fewer_hides.
