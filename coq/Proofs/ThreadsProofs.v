(* C09, dynamic part: threads that each run a list of critical sections `acquire; body; release` on one shared
   state under ONE mutex (Section Threads of Model/Locking.v).  Everything is generic in St, Op, apply.

   1. wf_config is an invariant: at most one thread is inside, it is exactly cf_holder  (mutual_exclusion, holder_is_the_one)
   2. the shared state is always the sequential run of the acquired critical sections  (state_is_sequential, quiescent_state)
   3. the acquisition history of a completed run is an order-preserving interleaving of the programs
      (history_is_interleaving), and every such interleaving is the history of some run (every_merge_is_a_history)
   4. exec_step is step (sound under wf_config, complete always); exec only visits reachable configurations
   5. no deadlock (progress), quiescent configurations are stuck, every run has at most 3 * #ops steps
   6. commuting bodies: the final state does not depend on the interleaving
   7. examples by computation *)
From Coq Require Import List Arith Lia Permutation Bool.
From TSS Require Import Model.Locking.
Import ListNotations.

#[local] Arguments Out {Op}.
#[local] Arguments Holding {Op} o.
#[local] Arguments Ran {Op} o.
#[local] Arguments mkThread {Op} th_status th_todo.
#[local] Arguments th_status {Op} t.
#[local] Arguments th_todo {Op} t.
#[local] Arguments mkConfig {St Op} cf_state cf_holder cf_threads cf_history.
#[local] Arguments cf_state {St Op} c.
#[local] Arguments cf_holder {St Op} c.
#[local] Arguments cf_threads {St Op} c.
#[local] Arguments cf_history {St Op} c.
#[local] Arguments set_thread {Op} ts i t.
#[local] Arguments step {St Op} apply _ _ _.
#[local] Arguments reach {St Op} apply _ _.
#[local] Arguments initial {St Op} s0 progs.
#[local] Arguments quiescent {St Op} c.
#[local] Arguments seq_state {St Op} apply s0 ops.
#[local] Arguments exec_step {St Op} apply c i.
#[local] Arguments exec {St Op} apply c sched.

(* ------------------------------------------------------------------ *)
(* replacing the i-th element of a list                                 *)
(* ------------------------------------------------------------------ *)
Section SetNth.
  Context {A : Type}.

  Definition set_nth (l : list A) (i : nat) (x : A) : list A := firstn i l ++ x :: skipn (S i) l.

  Lemma set_nth_length : forall (l : list A) (i : nat) (x : A), i < length l -> length (set_nth l i x) = length l.
  Proof.
    intros l i x Hi. unfold set_nth. rewrite app_length, firstn_length. cbn [length]. rewrite skipn_length. lia.
  Qed.

  Lemma nth_error_set_nth_eq : forall (l : list A) (i : nat) (x : A), i < length l -> nth_error (set_nth l i x) i = Some x.
  Proof.
    induction l as [|a l IH]; intros i x Hi; simpl in Hi; [lia|].
    destruct i as [|i]; [reflexivity|]. unfold set_nth in *. simpl. apply IH. lia.
  Qed.

  Lemma nth_error_set_nth_neq : forall (l : list A) (i j : nat) (x : A),
    i < length l -> i <> j -> nth_error (set_nth l i x) j = nth_error l j.
  Proof.
    induction l as [|a l IH]; intros i j x Hi Hij; simpl in Hi; [lia|].
    destruct i as [|i]; destruct j as [|j]; try lia; unfold set_nth in *; simpl; try reflexivity.
    apply IH; lia.
  Qed.

  Lemma set_nth_set_nth : forall (l : list A) (i : nat) (x y : A), i < length l -> set_nth (set_nth l i x) i y = set_nth l i y.
  Proof.
    induction l as [|a l IH]; intros i x y Hi; simpl in Hi; [lia|].
    destruct i as [|i]; [reflexivity|]. unfold set_nth in *. simpl. f_equal. apply IH. lia.
  Qed.

  Lemma nth_error_decompose : forall (l : list A) (i : nat) (x : A),
    nth_error l i = Some x -> l = firstn i l ++ x :: skipn (S i) l.
  Proof.
    induction l as [|a l IH]; intros i x H; destruct i as [|i]; simpl in H; try discriminate.
    - injection H as ->. reflexivity.
    - simpl. f_equal. apply IH. exact H.
  Qed.

  Lemma set_nth_same : forall (l : list A) (i : nat) (x : A), nth_error l i = Some x -> set_nth l i x = l.
  Proof. intros l i x H. unfold set_nth. symmetry. apply nth_error_decompose. exact H. Qed.
End SetNth.

Lemma map_set_nth : forall (A B : Type) (f : A -> B) (l : list A) (i : nat) (x : A),
  map f (set_nth l i x) = set_nth (map f l) i (f x).
Proof. intros A B f l i x. unfold set_nth. rewrite map_app, map_cons, firstn_map, skipn_map. reflexivity. Qed.

Lemma concat_set_nth : forall (A : Type) (ps : list (list A)) (i : nat) (p q : list A),
  nth_error ps i = Some p ->
  concat ps = concat (firstn i ps) ++ p ++ concat (skipn (S i) ps) /\
  concat (set_nth ps i q) = concat (firstn i ps) ++ q ++ concat (skipn (S i) ps).
Proof.
  intros A ps i p q H. split.
  - rewrite (nth_error_decompose ps i p H) at 1. rewrite concat_app. reflexivity.
  - unfold set_nth. rewrite concat_app. reflexivity.
Qed.

(* ------------------------------------------------------------------ *)
(* order-preserving interleavings of a family of programs              *)
(* ------------------------------------------------------------------ *)
Inductive merge {A : Type} : list (list A) -> list A -> Prop :=
| merge_nil : forall ps, Forall (fun p => p = []) ps -> merge ps []
| merge_pick : forall ps i o rest l,
    nth_error ps i = Some (o :: rest) -> merge (set_nth ps i rest) l -> merge ps (o :: l).

Definition is_merge {A : Type} (progs : list (list A)) (l : list A) : Prop := merge progs l.

Lemma concat_all_nil : forall (A : Type) (ps : list (list A)), Forall (fun p => p = []) ps -> concat ps = [].
Proof. intros A ps H. induction H as [|p ps Hp _ IH]; [reflexivity|]. simpl. rewrite Hp, IH. reflexivity. Qed.

Theorem merge_permutation : forall (A : Type) (ps : list (list A)) (l : list A), merge ps l -> Permutation l (concat ps).
Proof.
  intros A ps l H. induction H as [ps Hnil | ps i o rest l Hnth _ IH].
  - rewrite concat_all_nil by exact Hnil. constructor.
  - destruct (concat_set_nth A ps i (o :: rest) rest Hnth) as [E1 E2]. rewrite E1. rewrite E2 in IH.
    simpl. apply Permutation_cons_app. exact IH.
Qed.

Theorem merge_length : forall (A : Type) (ps : list (list A)) (l : list A), merge ps l -> length l = length (concat ps).
Proof. intros A ps l H. apply Permutation_length. apply merge_permutation. exact H. Qed.

(* one program: the only interleaving is the program itself *)
Theorem merge_single : forall (A : Type) (p l : list A), merge [p] l <-> l = p.
Proof.
  intros A p l. split.
  - intros H. remember [p] as ps eqn:Eps. revert p Eps.
    induction H as [ps Hnil | ps i o rest l Hnth _ IH]; intros p Eps; subst ps.
    + inversion Hnil as [|x xs Hx _]; subst. reflexivity.
    + destruct i as [|i]; simpl in Hnth.
      * injection Hnth as ->. f_equal. apply IH. reflexivity.
      * destruct i; discriminate.
  - intros ->. induction p as [|o p IH].
    + apply merge_nil. constructor; [reflexivity|constructor].
    + apply (merge_pick [o :: p] 0 o p p); [reflexivity|exact IH].
Qed.

(* with the operations tagged by the thread that owns them, the sub-sequence of a merge that belongs to thread i
   is exactly program i: a merge preserves every thread's own order *)
Definition tagged {A : Type} (ps : list (list (nat * A))) : Prop :=
  forall i p, nth_error ps i = Some p -> Forall (fun x => fst x = i) p.

Theorem merge_preserves_thread_order : forall (A : Type) (ps : list (list (nat * A))) (l : list (nat * A)),
  tagged ps -> merge ps l -> forall i, filter (fun x => fst x =? i) l = nth i ps [].
Proof.
  intros A ps l Htag H. induction H as [ps Hnil | ps j o rest l Hnth _ IH]; intros i.
  - simpl. destruct (nth_error ps i) as [p|] eqn:E.
    + rewrite (nth_error_nth ps i [] E). rewrite Forall_forall in Hnil. symmetry. apply Hnil.
      eapply nth_error_In. exact E.
    + apply nth_error_None in E. rewrite nth_overflow by exact E. reflexivity.
  - assert (Hj : j < length ps) by (apply nth_error_Some; rewrite Hnth; discriminate).
    assert (Htag' : tagged (set_nth ps j rest)).
    { intros k p Hk. destruct (Nat.eq_dec j k) as [->|Hjk].
      - rewrite nth_error_set_nth_eq in Hk by exact Hj. injection Hk as <-.
        specialize (Htag k (o :: rest) Hnth). inversion Htag; assumption.
      - rewrite nth_error_set_nth_neq in Hk by assumption. apply Htag. exact Hk. }
    specialize (IH Htag' i).
    pose proof (Htag j (o :: rest) Hnth) as Ho. inversion Ho as [|x xs Hfst _]; subst.
    simpl. destruct (Nat.eq_dec (fst o) i) as [Ei|Ei].
    + subst i. rewrite Nat.eqb_refl. rewrite IH.
      rewrite (nth_error_nth ps (fst o) [] Hnth).
      rewrite (nth_error_nth (set_nth ps (fst o) rest) (fst o) [] (nth_error_set_nth_eq ps (fst o) rest Hj)).
      reflexivity.
    + apply Nat.eqb_neq in Ei as Eb. rewrite Eb. rewrite IH.
      destruct (nth_error ps i) as [p|] eqn:E.
      * rewrite (nth_error_nth ps i [] E). apply nth_error_nth. rewrite nth_error_set_nth_neq by assumption. exact E.
      * apply nth_error_None in E as E'. rewrite (nth_overflow ps) by exact E'.
        apply nth_overflow. rewrite set_nth_length by exact Hj. exact E'.
Qed.

(* fold_left of a commuting function does not see permutations *)
Lemma fold_left_permutation : forall (S A : Type) (f : S -> A -> S),
  (forall s a b, f (f s a) b = f (f s b) a) ->
  forall l1 l2, Permutation l1 l2 -> forall s, fold_left f l1 s = fold_left f l2 s.
Proof.
  intros S A f Hc l1 l2 HP. induction HP as [|x l1 l2 _ IH|x y l|l1 l2 l3 _ IH1 _ IH2]; intros s; simpl.
  - reflexivity.
  - apply IH.
  - rewrite Hc. reflexivity.
  - rewrite IH1. apply IH2.
Qed.

Lemma neg_Forall_witness : forall (A : Type) (P : A -> Prop) (l : list A),
  (forall x, {P x} + {~ P x}) -> ~ Forall P l -> exists i x, nth_error l i = Some x /\ ~ P x.
Proof.
  intros A P l Hdec. induction l as [|a l IH]; intros Hn.
  - exfalso. apply Hn. constructor.
  - destruct (Hdec a) as [Ha|Ha].
    + destruct IH as [i [x [Hi Hx]]].
      * intros HF. apply Hn. constructor; assumption.
      * exists (S i), x. split; assumption.
    + exists 0, a. split; [reflexivity|exact Ha].
Qed.

(* ------------------------------------------------------------------ *)
Section ThreadsProofs.
  Variables St Op : Type.
  Variable apply : St -> Op -> St.

  Local Notation cfg := (config St Op).
  Local Notation thr := (thread Op).

  Lemma set_thread_set_nth : forall (ts : list thr) i t, set_thread ts i t = set_nth ts i t.
  Proof. reflexivity. Qed.

  Ltac inv_step H :=
    inversion H as [? ? o rest Hhold Hnth | ? ? o rest Hhold Hnth | ? ? o rest Hhold Hnth]; subst; clear H;
    assert (Hlt : _ < length _) by (apply nth_error_Some; rewrite Hnth; discriminate).

  (* induction over the configurations reachable from c0 *)
  Lemma reach_invariant : forall (c0 : cfg) (P : cfg -> Prop),
    P c0 -> (forall c i c', reach apply c0 c -> P c -> step apply c i c' -> P c') ->
    forall c, reach apply c0 c -> P c.
  Proof.
    intros c0 P H0 HS c Hr. induction Hr as [c | c i c' c'' Hr IH Hst]; [exact H0|].
    eapply HS; [exact Hr| |exact Hst]. apply IH; assumption.
  Qed.

  Lemma reach_trans : forall (a b c : cfg), reach apply a b -> reach apply b c -> reach apply a c.
  Proof.
    intros a b c Hab Hbc. induction Hbc as [b | b i c' c'' _ IH Hst]; [exact Hab|].
    eapply reach_step; [apply IH; exact Hab|exact Hst].
  Qed.

  Lemma reach_one : forall (c c' : cfg) i, step apply c i c' -> reach apply c c'.
  Proof. intros c c' i H. eapply reach_step; [apply reach_refl|exact H]. Qed.

  (* ---------------- 1. the mutex invariant ---------------- *)
  (* a thread that is inside (not Out) is the recorded holder; the recorded holder exists and is inside *)
  Definition wf_config (c : cfg) : Prop :=
    (forall i t, nth_error (cf_threads c) i = Some t -> th_status t <> Out -> cf_holder c = Some i) /\
    (forall h, cf_holder c = Some h -> exists t, nth_error (cf_threads c) h = Some t /\ th_status t <> Out).

  Lemma wf_at_most_one : forall c, wf_config c -> forall i j ti tj,
    nth_error (cf_threads c) i = Some ti -> nth_error (cf_threads c) j = Some tj ->
    th_status ti <> Out -> th_status tj <> Out -> i = j.
  Proof.
    intros c [W1 _] i j ti tj Hi Hj Si Sj.
    pose proof (W1 i ti Hi Si) as E1. pose proof (W1 j tj Hj Sj) as E2. congruence.
  Qed.

  Lemma wf_no_holder_all_out : forall c, wf_config c -> cf_holder c = None ->
    Forall (fun t => th_status t = Out) (cf_threads c).
  Proof.
    intros c [W1 _] Hn. apply Forall_forall. intros t Hin.
    destruct (In_nth_error _ _ Hin) as [i Hi].
    destruct (th_status t) eqn:E; [reflexivity| |]; exfalso;
      (assert (Hs : th_status t <> Out) by (rewrite E; discriminate));
      pose proof (W1 i t Hi Hs) as HH; congruence.
  Qed.

  Theorem wf_initial : forall s0 progs, wf_config (initial s0 progs).
  Proof.
    intros s0 progs. split; simpl.
    - intros i t Hi Hs. exfalso. apply Hs. apply nth_error_In in Hi. apply in_map_iff in Hi.
      destruct Hi as [p [<- _]]. reflexivity.
    - intros h Hh. discriminate.
  Qed.

  Theorem wf_step : forall c i c', wf_config c -> step apply c i c' -> wf_config c'.
  Proof.
    intros c i c' [W1 W2] Hst. inv_step Hst; split; simpl; rewrite set_thread_set_nth.
    - (* acquire *) intros j t Hj Hs. destruct (Nat.eq_dec i j) as [->|Hij]; [reflexivity|].
      rewrite nth_error_set_nth_neq in Hj by assumption. pose proof (W1 j t Hj Hs) as E. congruence.
    - intros h Hh. injection Hh as <-. eexists. split; [apply nth_error_set_nth_eq; exact Hlt|]. simpl. discriminate.
    - (* body *) intros j t Hj Hs. destruct (Nat.eq_dec i j) as [->|Hij]; [reflexivity|].
      rewrite nth_error_set_nth_neq in Hj by assumption. pose proof (W1 j t Hj Hs) as E. congruence.
    - intros h Hh. injection Hh as <-. eexists. split; [apply nth_error_set_nth_eq; exact Hlt|]. simpl. discriminate.
    - (* release *) intros j t Hj Hs. exfalso. destruct (Nat.eq_dec i j) as [->|Hij].
      + rewrite nth_error_set_nth_eq in Hj by exact Hlt. injection Hj as <-. apply Hs. reflexivity.
      + rewrite nth_error_set_nth_neq in Hj by assumption. pose proof (W1 j t Hj Hs) as E. congruence.
    - intros h Hh. discriminate.
  Qed.

  Theorem wf_reach : forall c0 c, wf_config c0 -> reach apply c0 c -> wf_config c.
  Proof.
    intros c0 c H0 Hr. apply (reach_invariant c0 wf_config); [exact H0| |exact Hr].
    intros c1 i c2 _ Hw Hst. eapply wf_step; eassumption.
  Qed.

  Theorem wf_reachable : forall s0 progs c, reach apply (initial s0 progs) c -> wf_config c.
  Proof. intros s0 progs c Hr. eapply wf_reach; [apply wf_initial|exact Hr]. Qed.

  Theorem mutual_exclusion : forall s0 progs c, reach apply (initial s0 progs) c ->
    forall i j ti tj, nth_error (cf_threads c) i = Some ti -> nth_error (cf_threads c) j = Some tj ->
    th_status ti <> Out -> th_status tj <> Out -> i = j.
  Proof. intros s0 progs c Hr. apply wf_at_most_one. eapply wf_reachable. exact Hr. Qed.

  Theorem holder_is_the_one : forall s0 progs c, reach apply (initial s0 progs) c ->
    forall i t, nth_error (cf_threads c) i = Some t -> th_status t <> Out -> cf_holder c = Some i.
  Proof. intros s0 progs c Hr. exact (proj1 (wf_reachable s0 progs c Hr)). Qed.

  Theorem holder_is_inside : forall s0 progs c, reach apply (initial s0 progs) c ->
    forall h, cf_holder c = Some h -> exists t, nth_error (cf_threads c) h = Some t /\ th_status t <> Out.
  Proof. intros s0 progs c Hr. exact (proj2 (wf_reachable s0 progs c Hr)). Qed.

  Theorem no_holder_all_out : forall s0 progs c, reach apply (initial s0 progs) c ->
    cf_holder c = None -> Forall (fun t => th_status t = Out) (cf_threads c).
  Proof. intros s0 progs c Hr. apply wf_no_holder_all_out. eapply wf_reachable. exact Hr. Qed.

  (* the number of threads never changes *)
  Theorem threads_length : forall s0 progs c, reach apply (initial s0 progs) c -> length (cf_threads c) = length progs.
  Proof.
    intros s0 progs c Hr.
    apply (reach_invariant (initial s0 progs) (fun c => length (cf_threads c) = length progs)); [| |exact Hr].
    - simpl. apply map_length.
    - intros c1 i c2 _ IH Hst. inv_step Hst; simpl; rewrite set_thread_set_nth, set_nth_length; assumption.
  Qed.

  (* ---------------- 2. the state is the sequential run of the acquired sections ---------------- *)
  Definition applied (c : cfg) : list Op :=
    match cf_holder c with
    | Some h => match nth_error (cf_threads c) h with
                | Some (mkThread (Holding _) _) => removelast (cf_history c)
                | _ => cf_history c
                end
    | None => cf_history c
    end.

  Definition seq_inv (s0 : St) (c : cfg) : Prop :=
    cf_state c = seq_state apply s0 (applied c) /\
    (forall h o rest, cf_holder c = Some h ->
       (nth_error (cf_threads c) h = Some (mkThread (Holding o) rest) \/ nth_error (cf_threads c) h = Some (mkThread (Ran o) rest)) ->
       exists hs, cf_history c = hs ++ [o]).

  Lemma seq_inv_reach : forall s0 progs c, reach apply (initial s0 progs) c -> seq_inv s0 c.
  Proof.
    intros s0 progs c Hr. apply (reach_invariant (initial s0 progs) (seq_inv s0)); [| |exact Hr].
    - split; [reflexivity|]. simpl. intros h o rest Hh. discriminate.
    - clear c Hr. intros c i c' _ [I1 I2] Hst. inv_step Hst; unfold seq_inv, applied; simpl; rewrite set_thread_set_nth.
      + (* acquire *) rewrite nth_error_set_nth_eq by exact Hlt. rewrite removelast_last. split.
        * rewrite I1. unfold applied. rewrite Hhold. reflexivity.
        * intros h o' rest' Hh Hn. injection Hh as <-. rewrite nth_error_set_nth_eq in Hn by exact Hlt.
          exists (cf_history c). destruct Hn as [Hn|Hn]; inversion Hn; reflexivity.
      + (* body *) rewrite nth_error_set_nth_eq by exact Hlt.
        destruct (I2 i o rest Hhold (or_introl Hnth)) as [hs Ehs]. split.
        * rewrite I1. unfold applied. rewrite Hhold, Hnth, Ehs, removelast_last.
          unfold seq_state. rewrite fold_left_app. reflexivity.
        * intros h o' rest' Hh Hn. injection Hh as <-. rewrite nth_error_set_nth_eq in Hn by exact Hlt.
          exists hs. destruct Hn as [Hn|Hn]; inversion Hn; subst; exact Ehs.
      + (* release *) split.
        * rewrite I1. unfold applied. rewrite Hhold, Hnth. reflexivity.
        * intros h o' rest' Hh. discriminate.
  Qed.

  Theorem state_is_sequential : forall s0 progs c, reach apply (initial s0 progs) c ->
    cf_state c = seq_state apply s0 (applied c).
  Proof. intros s0 progs c Hr. exact (proj1 (seq_inv_reach s0 progs c Hr)). Qed.

  (* the critical section the holder is in is the last one of the history *)
  Theorem held_op_is_last : forall s0 progs c, reach apply (initial s0 progs) c ->
    forall h o rest, cf_holder c = Some h ->
      (nth_error (cf_threads c) h = Some (mkThread (Holding o) rest) \/ nth_error (cf_threads c) h = Some (mkThread (Ran o) rest)) ->
      exists hs, cf_history c = hs ++ [o].
  Proof. intros s0 progs c Hr. exact (proj2 (seq_inv_reach s0 progs c Hr)). Qed.

  Lemma applied_no_holder : forall c : cfg, cf_holder c = None -> applied c = cf_history c.
  Proof. intros c H. unfold applied. rewrite H. reflexivity. Qed.

  (* whenever the lock is free (in particular at the end) the state is that of the sequential run *)
  Theorem unlocked_state : forall s0 progs c, reach apply (initial s0 progs) c -> cf_holder c = None ->
    cf_state c = seq_state apply s0 (cf_history c).
  Proof. intros s0 progs c Hr Hn. rewrite (state_is_sequential s0 progs c Hr). rewrite applied_no_holder by exact Hn. reflexivity. Qed.

  Theorem quiescent_state : forall s0 progs c, reach apply (initial s0 progs) c -> quiescent c ->
    cf_state c = seq_state apply s0 (cf_history c).
  Proof. intros s0 progs c Hr [Hn _]. apply (unlocked_state s0 progs c Hr Hn). Qed.

  (* ---------------- 3. the history is an interleaving of the programs ---------------- *)
  Definition todos (c : cfg) : list (list Op) := map th_todo (cf_threads c).

  (* every way of finishing the remaining work extends the history to a merge of the programs
     (the section that is being held is already in the history: it was removed from the todo at acquisition) *)
  Definition merge_inv (progs : list (list Op)) (c : cfg) : Prop :=
    forall l, merge (todos c) l -> merge progs (cf_history c ++ l).

  Theorem history_invariant : forall s0 progs c, reach apply (initial s0 progs) c -> merge_inv progs c.
  Proof.
    intros s0 progs c Hr. apply (reach_invariant (initial s0 progs) (merge_inv progs)); [| |exact Hr].
    - intros l Hl. unfold todos in Hl. simpl in Hl. rewrite map_map in Hl. simpl in Hl. rewrite map_id in Hl. exact Hl.
    - clear c Hr. intros c i c' _ IH Hst.
      assert (Htodo : forall t, nth_error (cf_threads c) i = Some t ->
                map th_todo (set_nth (cf_threads c) i t) = map th_todo (cf_threads c)).
      { intros t Ht. rewrite set_nth_same by exact Ht. reflexivity. }
      inv_step Hst; intros l Hl; unfold todos in Hl; simpl in *; rewrite set_thread_set_nth in Hl.
      + (* acquire *) rewrite map_set_nth in Hl. simpl in Hl. rewrite <- app_assoc. simpl. apply IH.
        eapply merge_pick; [|exact Hl]. unfold todos. rewrite nth_error_map, Hnth. reflexivity.
      + (* body *) apply IH. unfold todos. rewrite map_set_nth in Hl. simpl in Hl.
        rewrite <- (set_nth_same (map th_todo (cf_threads c)) i rest); [exact Hl|].
        rewrite nth_error_map, Hnth. reflexivity.
      + (* release *) apply IH. unfold todos. rewrite map_set_nth in Hl. simpl in Hl.
        rewrite <- (set_nth_same (map th_todo (cf_threads c)) i rest); [exact Hl|].
        rewrite nth_error_map, Hnth. reflexivity.
  Qed.

  Lemma quiescent_todos : forall c : cfg, quiescent c -> Forall (fun p => p = []) (todos c).
  Proof.
    intros c [_ HF]. unfold todos. apply Forall_map. eapply Forall_impl; [|exact HF]. intros t [_ Ht]. exact Ht.
  Qed.

  Theorem history_is_interleaving : forall s0 progs c, reach apply (initial s0 progs) c -> quiescent c ->
    is_merge progs (cf_history c).
  Proof.
    intros s0 progs c Hr Hq. unfold is_merge. rewrite <- (app_nil_r (cf_history c)).
    apply (history_invariant s0 progs c Hr). apply merge_nil. apply quiescent_todos. exact Hq.
  Qed.

  Theorem history_is_permutation : forall s0 progs c, reach apply (initial s0 progs) c -> quiescent c ->
    Permutation (cf_history c) (concat progs).
  Proof. intros s0 progs c Hr Hq. apply merge_permutation. apply (history_is_interleaving s0 progs c Hr Hq). Qed.

  Theorem history_length : forall s0 progs c, reach apply (initial s0 progs) c -> quiescent c ->
    length (cf_history c) = length (concat progs).
  Proof. intros s0 progs c Hr Hq. apply merge_length. apply (history_is_interleaving s0 progs c Hr Hq). Qed.

  (* conversely every merge of the programs is the history of a completed run: is_merge is exact *)
  Lemma run_a_merge : forall (c : cfg) l, wf_config c -> cf_holder c = None -> merge (todos c) l ->
    exists c', reach apply c c' /\ quiescent c' /\ cf_history c' = cf_history c ++ l.
  Proof.
    intros c l Hwf Hn Hm. remember (todos c) as ps eqn:Eps. revert c Hwf Hn Eps.
    induction Hm as [ps Hnil | ps i o rest l Hnth _ IH]; intros c Hwf Hn Eps; subst ps.
    - exists c. split; [apply reach_refl|]. split; [|rewrite app_nil_r; reflexivity].
      split; [exact Hn|]. pose proof (wf_no_holder_all_out c Hwf Hn) as Hout.
      unfold todos in Hnil. apply Forall_map in Hnil. rewrite Forall_forall in *. intros t Ht. split; auto.
    - unfold todos in Hnth. rewrite nth_error_map in Hnth.
      destruct (nth_error (cf_threads c) i) as [t|] eqn:Et; [|discriminate]. simpl in Hnth.
      assert (Hlt : i < length (cf_threads c)) by (apply nth_error_Some; rewrite Et; discriminate).
      assert (Hs : th_status t = Out).
      { pose proof (wf_no_holder_all_out c Hwf Hn) as Hout. rewrite Forall_forall in Hout. apply Hout.
        eapply nth_error_In. exact Et. }
      destruct t as [s td]. simpl in Hs, Hnth. subst s. injection Hnth as ->.
      set (c1 := mkConfig (cf_state c) (Some i) (set_thread (cf_threads c) i (mkThread (Holding o) rest)) (cf_history c ++ [o])).
      assert (S1 : step apply c i c1) by (apply st_acquire; assumption).
      assert (L1 : i < length (cf_threads c1)) by (simpl; rewrite set_thread_set_nth, set_nth_length; assumption).
      set (c2 := mkConfig (apply (cf_state c1) o) (Some i) (set_thread (cf_threads c1) i (mkThread (Ran o) rest)) (cf_history c1)).
      assert (S2 : step apply c1 i c2).
      { apply st_body; [reflexivity|]. simpl. rewrite set_thread_set_nth. apply nth_error_set_nth_eq. exact Hlt. }
      assert (L2 : i < length (cf_threads c2)) by (simpl; rewrite set_thread_set_nth, set_nth_length; assumption).
      set (c3 := mkConfig (cf_state c2) None (set_thread (cf_threads c2) i (mkThread Out rest)) (cf_history c2)).
      assert (S3 : step apply c2 i c3).
      { apply st_release with (o := o); [reflexivity|]. simpl. rewrite set_thread_set_nth. apply nth_error_set_nth_eq. exact L1. }
      assert (E3 : cf_threads c3 = set_nth (cf_threads c) i (mkThread Out rest)).
      { simpl. rewrite !set_thread_set_nth. rewrite set_nth_set_nth by (rewrite set_nth_length; assumption).
        apply set_nth_set_nth. exact Hlt. }
      destruct (IH c3) as [c' [Hr [Hq Hh]]].
      + eapply wf_step; [|exact S3]. eapply wf_step; [|exact S2]. eapply wf_step; [|exact S1]. exact Hwf.
      + reflexivity.
      + unfold todos. rewrite E3. rewrite map_set_nth. reflexivity.
      + exists c'. split; [|split; [exact Hq|]].
        * eapply reach_trans; [|exact Hr].
          eapply reach_step; [eapply reach_step; [eapply reach_one; exact S1|exact S2]|exact S3].
        * rewrite Hh. simpl. rewrite <- app_assoc. reflexivity.
  Qed.

  Theorem every_merge_is_a_history : forall s0 progs l, is_merge progs l ->
    exists c, reach apply (initial s0 progs) c /\ quiescent c /\ cf_history c = l.
  Proof.
    intros s0 progs l Hm.
    destruct (run_a_merge (initial s0 progs) l (wf_initial s0 progs) eq_refl) as [c [Hr [Hq Hh]]].
    - unfold todos. simpl. rewrite map_map. simpl. rewrite map_id. exact Hm.
    - exists c. split; [exact Hr|]. split; [exact Hq|]. exact Hh.
  Qed.

  Theorem histories_are_exactly_the_merges : forall s0 progs l,
    is_merge progs l <-> exists c, reach apply (initial s0 progs) c /\ quiescent c /\ cf_history c = l.
  Proof.
    intros s0 progs l. split; [apply every_merge_is_a_history|].
    intros [c [Hr [Hq <-]]]. apply (history_is_interleaving s0 progs c Hr Hq).
  Qed.

  (* ---------------- 4. exec_step is step ---------------- *)
  Theorem exec_step_complete : forall c i c', step apply c i c' -> exec_step apply c i = Some c'.
  Proof. intros c i c' Hst. inv_step Hst; unfold exec_step; rewrite Hnth; try rewrite Hhold; reflexivity. Qed.

  Theorem exec_step_sound : forall c i c', wf_config c -> exec_step apply c i = Some c' -> step apply c i c'.
  Proof.
    intros c i c' [W1 _] He. unfold exec_step in He.
    destruct (nth_error (cf_threads c) i) as [[[|o|o] td]|] eqn:Et; [| | |discriminate].
    - destruct td as [|o rest]; [discriminate|]. destruct (cf_holder c) eqn:Eh; [discriminate|].
      injection He as <-. apply st_acquire; assumption.
    - injection He as <-. apply st_body; [|exact Et]. apply (W1 i _ Et). simpl. discriminate.
    - injection He as <-. apply st_release with (o := o); [|exact Et]. apply (W1 i _ Et). simpl. discriminate.
  Qed.

  Theorem exec_step_iff_step : forall c i c', wf_config c -> (exec_step apply c i = Some c' <-> step apply c i c').
  Proof. intros c i c' Hwf. split; [apply exec_step_sound; exact Hwf|apply exec_step_complete]. Qed.

  Theorem step_deterministic : forall c i c1 c2, step apply c i c1 -> step apply c i c2 -> c1 = c2.
  Proof.
    intros c i c1 c2 H1 H2. apply exec_step_complete in H1. apply exec_step_complete in H2. congruence.
  Qed.

  Theorem exec_reach_from : forall c0 sched c, wf_config c0 -> reach apply c0 c -> reach apply c0 (exec apply c sched).
  Proof.
    intros c0 sched. induction sched as [|i sched IH]; intros c Hwf Hr; simpl; [exact Hr|].
    destruct (exec_step apply c i) as [c'|] eqn:E; [|apply IH; assumption].
    apply IH; [exact Hwf|]. eapply reach_step; [exact Hr|]. apply exec_step_sound; [|exact E].
    eapply wf_reach; eassumption.
  Qed.

  Theorem exec_reach : forall s0 progs sched, reach apply (initial s0 progs) (exec apply (initial s0 progs) sched).
  Proof. intros s0 progs sched. apply exec_reach_from; [apply wf_initial|apply reach_refl]. Qed.

  Lemma exec_app : forall sched1 sched2 (c : cfg), exec apply c (sched1 ++ sched2) = exec apply (exec apply c sched1) sched2.
  Proof.
    induction sched1 as [|j sched1 IH]; intros sched2 c; simpl; [reflexivity|].
    destruct (exec_step apply c j); apply IH.
  Qed.

  (* and every reachable configuration is produced by some schedule *)
  Theorem reach_exec : forall c0 c, reach apply c0 c -> exists sched, exec apply c0 sched = c.
  Proof.
    intros c0 c Hr. induction Hr as [c | c i c' c'' Hr IH Hst].
    - exists []. reflexivity.
    - destruct IH as [sched Hs]. exists (sched ++ [i]). rewrite exec_app, Hs. simpl.
      rewrite (exec_step_complete c' i c'' Hst). reflexivity.
  Qed.

  (* ---------------- 5. no deadlock ---------------- *)
  Lemma quiescent_dec_thread : forall t : thr, {th_status t = Out /\ th_todo t = []} + {~ (th_status t = Out /\ th_todo t = [])}.
  Proof.
    intros [[|o|o] [|o' td]]; simpl; try (left; split; reflexivity); right; intros [H1 H2]; discriminate.
  Qed.

  Theorem progress_witness : forall c, wf_config c ->
    (exists i t, nth_error (cf_threads c) i = Some t /\ (th_status t <> Out \/ th_todo t <> [])) ->
    exists i c', step apply c i c'.
  Proof.
    intros c Hwf [i [t [Hi Hbusy]]]. destruct Hwf as [W1 W2].
    destruct (cf_holder c) as [h|] eqn:Eh.
    - destruct (W2 h eq_refl) as [[s td] [Hh Hs]]. simpl in Hs. destruct s as [|o|o]; [congruence| |].
      + exists h. eexists. eapply st_body; eassumption.
      + exists h. eexists. eapply st_release; eassumption.
    - destruct t as [s td]. simpl in Hbusy. destruct s as [|o|o].
      + destruct td as [|o rest]; [destruct Hbusy; congruence|].
        exists i. eexists. eapply st_acquire; eassumption.
      + assert (E : @None nat = Some i) by (apply (W1 i _ Hi); simpl; discriminate). discriminate.
      + assert (E : @None nat = Some i) by (apply (W1 i _ Hi); simpl; discriminate). discriminate.
  Qed.

  Lemma not_quiescent_witness : forall c : cfg, wf_config c -> ~ quiescent c ->
    exists i t, nth_error (cf_threads c) i = Some t /\ (th_status t <> Out \/ th_todo t <> []).
  Proof.
    intros c [W1 W2] Hnq. destruct (cf_holder c) as [h|] eqn:Eh.
    - destruct (W2 h eq_refl) as [t [Hh Hs]]. exists h, t. split; [exact Hh|left; exact Hs].
    - assert (HnF : ~ Forall (fun t : thr => th_status t = Out /\ th_todo t = []) (cf_threads c)).
      { intros HF. apply Hnq. split; assumption. }
      destruct (neg_Forall_witness _ _ _ quiescent_dec_thread HnF) as [i [t [Hi Hn]]].
      exists i, t. split; [exact Hi|].
      destruct (th_status t) eqn:Es; [right|left; discriminate|left; discriminate].
      intros Htd. apply Hn. split; [reflexivity|exact Htd].
  Qed.

  Theorem progress : forall s0 progs c, reach apply (initial s0 progs) c -> ~ quiescent c -> exists i c', step apply c i c'.
  Proof.
    intros s0 progs c Hr Hnq. pose proof (wf_reachable s0 progs c Hr) as Hwf.
    apply progress_witness; [exact Hwf|]. apply not_quiescent_witness; assumption.
  Qed.

  (* the converse: a quiescent configuration cannot move, so "stuck" and "quiescent" coincide on reachable configurations *)
  Theorem quiescent_stuck : forall c i c', quiescent c -> ~ step apply c i c'.
  Proof.
    intros c i c' [Hn HF] Hst. rewrite Forall_forall in HF.
    inv_step Hst; try congruence.
    destruct (HF _ (nth_error_In _ _ Hnth)) as [_ Htd]. discriminate.
  Qed.

  Lemma quiescent_dec : forall c : cfg, {quiescent c} + {~ quiescent c}.
  Proof.
    intros c. unfold quiescent. destruct (cf_holder c) as [h|].
    - right. intros [H _]. discriminate.
    - destruct (Forall_dec _ quiescent_dec_thread (cf_threads c)) as [HF|HF].
      + left. split; [reflexivity|exact HF].
      + right. intros [_ H]. exact (HF H).
  Qed.

  Theorem stuck_iff_quiescent : forall s0 progs c, reach apply (initial s0 progs) c ->
    (quiescent c <-> forall i c', ~ step apply c i c').
  Proof.
    intros s0 progs c Hr. split.
    - intros Hq i c'. apply quiescent_stuck. exact Hq.
    - intros Hstuck. destruct (quiescent_dec c) as [Hq|Hnq]; [exact Hq|]. exfalso.
      destruct (progress s0 progs c Hr Hnq) as [i [c' Hst]]. exact (Hstuck i c' Hst).
  Qed.

  (* termination: every step decreases the remaining work, 3 steps per critical section *)
  Definition thread_work (t : thr) : nat :=
    3 * length (th_todo t) + match th_status t with Out => 0 | Holding _ => 2 | Ran _ => 1 end.
  Definition work (c : cfg) : nat := list_sum (map thread_work (cf_threads c)).

  Lemma list_sum_set_nth : forall (l : list nat) i x y, nth_error l i = Some x ->
    list_sum (set_nth l i y) + x = list_sum l + y.
  Proof.
    intros l i x y H. unfold set_nth. rewrite (nth_error_decompose l i x H) at 3.
    rewrite !list_sum_app. simpl. lia.
  Qed.

  Theorem step_decreases_work : forall c i c', step apply c i c' -> S (work c') = work c.
  Proof.
    intros c i c' Hst. inv_step Hst; unfold work; simpl; rewrite set_thread_set_nth, map_set_nth;
      match goal with |- S (list_sum (set_nth ?l ?i ?y)) = _ =>
        assert (E : nth_error l i = Some (thread_work (mkThread _ _))) by (rewrite nth_error_map, Hnth; reflexivity);
        pose proof (list_sum_set_nth l i _ y E) as HS end;
      unfold thread_work in *; simpl in *; lia.
  Qed.

  Fixpoint steps_between (n : nat) (c c' : cfg) : Prop :=
    match n with
    | 0 => c = c'
    | S n => exists i c1, steps_between n c c1 /\ step apply c1 i c'
    end.

  Theorem reach_iff_steps : forall c c', reach apply c c' <-> exists n, steps_between n c c'.
  Proof.
    intros c c'. split.
    - intros Hr. induction Hr as [c | c i c' c'' _ IH Hst].
      + exists 0. reflexivity.
      + destruct IH as [n Hn]. exists (S n). simpl. exists i, c'. split; assumption.
    - intros [n Hn]. revert c' Hn. induction n as [|n IH]; intros c' Hn; simpl in Hn.
      + subst. apply reach_refl.
      + destruct Hn as [i [c1 [H1 Hst]]]. eapply reach_step; [apply IH; exact H1|exact Hst].
  Qed.

  Theorem run_length_bounded : forall n c c', steps_between n c c' -> n + work c' = work c.
  Proof.
    induction n as [|n IH]; intros c c' H; simpl in H.
    - subst. reflexivity.
    - destruct H as [i [c1 [H1 Hst]]]. apply IH in H1. apply step_decreases_work in Hst. lia.
  Qed.

  Lemma work_initial : forall s0 progs, work (initial s0 progs) = 3 * length (concat progs).
  Proof.
    intros s0 progs. unfold work. simpl. rewrite map_map. induction progs as [|p progs IH]; [reflexivity|].
    simpl map. simpl list_sum. simpl concat. rewrite IH, app_length. unfold thread_work. simpl. lia.
  Qed.

  (* no run from the initial configuration is longer than 3 * #ops; with progress, every maximal run ends quiescent *)
  Theorem run_terminates : forall s0 progs n c, steps_between n (initial s0 progs) c -> n <= 3 * length (concat progs).
  Proof. intros s0 progs n c H. apply run_length_bounded in H. rewrite work_initial in H. lia. Qed.

  Lemma quiescent_work : forall c : cfg, quiescent c -> work c = 0.
  Proof.
    intros c [_ HF]. unfold work. induction HF as [|t ts [Hs Ht] _ IH]; [reflexivity|].
    simpl. rewrite IH. unfold thread_work. rewrite Hs, Ht. reflexivity.
  Qed.

  (* a completed run takes exactly 3 steps per critical section *)
  Theorem complete_run_length : forall s0 progs n c, steps_between n (initial s0 progs) c -> quiescent c ->
    n = 3 * length (concat progs).
  Proof.
    intros s0 progs n c H Hq. apply run_length_bounded in H. rewrite work_initial, (quiescent_work c Hq) in H. lia.
  Qed.

  (* ---------------- 6. commuting bodies ---------------- *)
  Theorem commuting_final_state : (forall s a b, apply (apply s a) b = apply (apply s b) a) ->
    forall s0 progs c1 c2,
      reach apply (initial s0 progs) c1 -> quiescent c1 ->
      reach apply (initial s0 progs) c2 -> quiescent c2 ->
      cf_state c1 = cf_state c2.
  Proof.
    intros Hc s0 progs c1 c2 Hr1 Hq1 Hr2 Hq2.
    rewrite (quiescent_state s0 progs c1 Hr1 Hq1), (quiescent_state s0 progs c2 Hr2 Hq2).
    unfold seq_state. apply fold_left_permutation; [exact Hc|].
    eapply Permutation_trans; [apply (history_is_permutation s0 progs c1 Hr1 Hq1)|].
    apply Permutation_sym. apply (history_is_permutation s0 progs c2 Hr2 Hq2).
  Qed.

  (* ... and equals the plain sequential run of the programs one after the other *)
  Theorem commuting_final_state_concat : (forall s a b, apply (apply s a) b = apply (apply s b) a) ->
    forall s0 progs c, reach apply (initial s0 progs) c -> quiescent c ->
      cf_state c = seq_state apply s0 (concat progs).
  Proof.
    intros Hc s0 progs c Hr Hq. rewrite (quiescent_state s0 progs c Hr Hq).
    unfold seq_state. apply fold_left_permutation; [exact Hc|]. apply (history_is_permutation s0 progs c Hr Hq).
  Qed.
End ThreadsProofs.

(* exec_step does not check that a thread in status Holding/Ran is the recorded holder: without wf_config it is not sound *)
Theorem exec_step_sound_refuted :
  exists (c c' : config unit unit), exec_step (fun s _ => s) c 0 = Some c' /\ ~ step (fun s _ => s) c 0 c'.
Proof.
  exists (mkConfig tt None [mkThread (Holding tt) []] []). eexists. split; [reflexivity|].
  intros H. inversion H as [? ? o rest Hh Hn|? ? o rest Hh Hn|? ? o rest Hh Hn]; simpl in *; discriminate.
Qed.

(* ---------------- 7. examples ---------------- *)
Section Examples.
  Let app1 : list nat -> nat -> list nat := fun s o => s ++ [o].
  Let progs2 : list (list nat) := [[1; 2]; [3]].
  Let init2 : config (list nat) nat := initial [] progs2.

  Definition quiescentb {St Op : Type} (c : config St Op) : bool :=
    match cf_holder c with None => true | Some _ => false end &&
    forallb (fun t => match th_status t, th_todo t with Out, [] => true | _, _ => false end) (cf_threads c).

  Lemma quiescentb_correct : forall (St Op : Type) (c : config St Op), quiescentb c = true <-> quiescent c.
  Proof.
    intros St Op c. unfold quiescentb, quiescent. rewrite andb_true_iff, forallb_forall, Forall_forall. split.
    - intros [Hh HF]. split; [destruct (cf_holder c); [discriminate|reflexivity]|].
      intros t Ht. specialize (HF t Ht). destruct (th_status t); destruct (th_todo t); try discriminate. split; reflexivity.
    - intros [Hh HF]. rewrite Hh. split; [reflexivity|]. intros t Ht. destruct (HF t Ht) as [-> ->]. reflexivity.
  Qed.

  (* thread 0 runs both of its sections, then thread 1 *)
  Example run_012 : exec app1 init2 [0;0;0; 0;0;0; 1;1;1] = mkConfig [1;2;3] None [mkThread Out []; mkThread Out []] [1;2;3].
  Proof. reflexivity. Qed.
  Example run_012_quiescent : quiescent (exec app1 init2 [0;0;0; 0;0;0; 1;1;1]).
  Proof. apply quiescentb_correct. reflexivity. Qed.
  Example run_012_state_is_history :
    cf_state (exec app1 init2 [0;0;0; 0;0;0; 1;1;1]) = cf_history (exec app1 init2 [0;0;0; 0;0;0; 1;1;1]).
  Proof. reflexivity. Qed.

  (* thread 1 gets in between: a different history and a different final state *)
  Example run_132 : exec app1 init2 [0;0;0; 1;1;1; 0;0;0] = mkConfig [1;3;2] None [mkThread Out []; mkThread Out []] [1;3;2].
  Proof. reflexivity. Qed.
  Example run_132_quiescent : quiescent (exec app1 init2 [0;0;0; 1;1;1; 0;0;0]).
  Proof. apply quiescentb_correct. reflexivity. Qed.
  Example run_312 : cf_history (exec app1 init2 [1;1;1; 0;0;0; 0;0;0]) = [3;1;2].
  Proof. reflexivity. Qed.
  Example histories_differ :
    cf_history (exec app1 init2 [0;0;0; 0;0;0; 1;1;1]) <> cf_history (exec app1 init2 [0;0;0; 1;1;1; 0;0;0]) /\
    cf_state (exec app1 init2 [0;0;0; 0;0;0; 1;1;1]) <> cf_state (exec app1 init2 [0;0;0; 1;1;1; 0;0;0]).
  Proof. split; intros H; vm_compute in H; discriminate. Qed.

  (* the mutex: while thread 0 holds the lock (after acquire, after body) thread 1 cannot acquire *)
  Example acquire_refused_holding : exec_step app1 (exec app1 init2 [0]) 1 = None.
  Proof. reflexivity. Qed.
  Example acquire_refused_ran : exec_step app1 (exec app1 init2 [0;0]) 1 = None.
  Proof. reflexivity. Qed.
  Example acquire_granted_after_release :
    exec_step app1 (exec app1 init2 [0;0;0]) 1 =
    Some (mkConfig [1] (Some 1) [mkThread Out [2]; mkThread (Holding 3) []] [1;3]).
  Proof. reflexivity. Qed.
  (* in the middle of a body the state lags the history by the held section (applied) *)
  Example mid_section : let c := exec app1 init2 [0;0;0;1] in
    cf_state c = [1] /\ cf_history c = [1;3] /\ applied (list nat) nat c = [1].
  Proof. repeat split. Qed.
  (* a schedule with refused and idle moves: attempts of thread 1 during thread 0's section are dropped *)
  Example run_with_refusals :
    exec app1 init2 [0;1;0;1;0; 1;1;0;1; 0;0;0; 1;1] = mkConfig [1;3;2] None [mkThread Out []; mkThread Out []] [1;3;2].
  Proof. reflexivity. Qed.

  (* three threads *)
  Let progs3 : list (list nat) := [[1; 2]; [3]; [4; 5]].
  Example run_three : let c := exec app1 (initial [] progs3) [2;2;2; 0;0;0; 1;1;1; 2;2;2; 0;0;0] in
    quiescent c /\ cf_history c = [4;1;3;5;2] /\ cf_state c = [4;1;3;5;2].
  Proof. split; [apply quiescentb_correct; reflexivity|split; reflexivity]. Qed.
  Example run_three_unfinished : let c := exec app1 (initial [] progs3) [2;2;2; 0;0] in
    ~ quiescent c /\ cf_holder c = Some 0 /\ cf_history c = [4;1] /\ cf_state c = [4;1].
  Proof.
    split; [|repeat split]. intros H. apply quiescentb_correct in H. discriminate.
  Qed.

  (* merge is not trivial: [1;3;2] is an interleaving of [[1;2];[3]], [2;1;3] is not (thread 0's order is broken) *)
  Example merge_132 : is_merge progs2 [1;3;2].
  Proof.
    unfold is_merge. apply (merge_pick progs2 0 1 [2]); [reflexivity|].
    apply (merge_pick _ 1 3 []); [reflexivity|]. apply (merge_pick _ 0 2 []); [reflexivity|].
    apply merge_nil. repeat constructor.
  Qed.
  Example not_merge_213 : ~ is_merge progs2 [2;1;3].
  Proof.
    unfold is_merge. intros H. inversion H as [|ps i o rest l Hnth Hm]; subst.
    destruct i as [|[|i]]; simpl in Hnth; try discriminate. destruct i; discriminate.
  Qed.
  (* so by history_is_interleaving no run of [[1;2];[3]] has history [2;1;3] *)
  Example no_run_213 : forall c, reach app1 init2 c -> quiescent c -> cf_history c <> [2;1;3].
  Proof.
    intros c Hr Hq E. apply not_merge_213. rewrite <- E.
    apply (history_is_interleaving (list nat) nat app1 [] progs2 c Hr Hq).
  Qed.

  (* commuting bodies (addition): both schedules give the same state *)
  Example commuting_example :
    cf_state (exec Nat.add (initial 0 progs2) [0;0;0; 0;0;0; 1;1;1]) = 6 /\
    cf_state (exec Nat.add (initial 0 progs2) [1;1;1; 0;0;0; 0;0;0]) = 6.
  Proof. split; reflexivity. Qed.
End Examples.

Print Assumptions wf_initial.
Print Assumptions wf_step.
Print Assumptions wf_reachable.
Print Assumptions mutual_exclusion.
Print Assumptions holder_is_the_one.
Print Assumptions holder_is_inside.
Print Assumptions no_holder_all_out.
Print Assumptions threads_length.
Print Assumptions state_is_sequential.
Print Assumptions held_op_is_last.
Print Assumptions unlocked_state.
Print Assumptions quiescent_state.
Print Assumptions merge_permutation.
Print Assumptions merge_length.
Print Assumptions merge_single.
Print Assumptions merge_preserves_thread_order.
Print Assumptions history_invariant.
Print Assumptions history_is_interleaving.
Print Assumptions history_is_permutation.
Print Assumptions history_length.
Print Assumptions every_merge_is_a_history.
Print Assumptions histories_are_exactly_the_merges.
Print Assumptions exec_step_complete.
Print Assumptions exec_step_sound.
Print Assumptions exec_step_iff_step.
Print Assumptions exec_step_sound_refuted.
Print Assumptions step_deterministic.
Print Assumptions exec_reach.
Print Assumptions reach_exec.
Print Assumptions progress_witness.
Print Assumptions progress.
Print Assumptions quiescent_stuck.
Print Assumptions stuck_iff_quiescent.
Print Assumptions step_decreases_work.
Print Assumptions run_terminates.
Print Assumptions complete_run_length.
Print Assumptions commuting_final_state.
Print Assumptions commuting_final_state_concat.
Print Assumptions quiescentb_correct.
Print Assumptions run_012.
Print Assumptions run_012_quiescent.
Print Assumptions run_132.
Print Assumptions histories_differ.
Print Assumptions acquire_refused_holding.
Print Assumptions run_with_refusals.
Print Assumptions run_three.
Print Assumptions not_merge_213.
Print Assumptions no_run_213.
Print Assumptions commuting_example.
Print Assumptions acquire_granted_after_release.
Print Assumptions acquire_refused_ran.
Print Assumptions exec_reach_from.
Print Assumptions merge_132.
Print Assumptions mid_section.
Print Assumptions run_012_state_is_history.
Print Assumptions run_132_quiescent.
Print Assumptions run_312.
Print Assumptions run_length_bounded.
Print Assumptions run_three_unfinished.
Print Assumptions wf_reach.
Print Assumptions reach_iff_steps.
