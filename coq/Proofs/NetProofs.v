(* Proofs about the global network model (Model/Net.v): properties C04 (resharing retires
   old shares last) and C07 (no deadlock).

   Everything is proved for an arbitrary table satisfying boolean side conditions that the
   generated tables are shown to satisfy by computation. *)
From Coq Require Import Arith List Lia Bool.
From TSS Require Import Base.Outcome Model.Engine Model.Net Gen.Tables Proofs.EngineProofs.
Import ListNotations.

(* ------------------------------------------------------------------ *)
(** * 0. Nodes and the global state                                     *)
(* ------------------------------------------------------------------ *)

Lemma cm_eqb_spec : forall a b, cm_eqb a b = true <-> a = b.
Proof. intros [] []; cbn; split; congruence. Qed.

Lemma cm_eqb_committee_eqb : forall a b, cm_eqb a b = committee_eqb a b.
Proof. intros [] []; reflexivity. Qed.

Lemma node_eqb_spec : forall a b, node_eqb a b = true <-> a = b.
Proof.
  intros [c i] [c' i']. unfold node_eqb. cbn [fst snd]. rewrite andb_true_iff, cm_eqb_spec, Nat.eqb_eq.
  split; [intros [-> ->]; reflexivity | intros H; inversion H; auto].
Qed.

Lemma node_eq_dec : forall a b : node, {a = b} + {a <> b}.
Proof. intros a b. destruct (node_eqb a b) eqn:E; [left; apply node_eqb_spec; auto | right; intros H; apply node_eqb_spec in H; congruence]. Qed.

Lemma valid_node_lt : forall cfg c i, valid_node cfg (c, i) = true <-> i < nc_size cfg c.
Proof. intros. unfold valid_node. cbn [fst snd]. apply Nat.ltb_lt. Qed.

Lemma in_nodes_of : forall cfg c n, In n (nodes_of cfg c) <-> fst n = c /\ valid_node cfg n = true.
Proof.
  intros cfg c [c' i]. unfold nodes_of. rewrite in_map_iff. cbn [fst]. split.
  - intros (j & E & Hin). inversion E; subst. split; auto. apply valid_node_lt. apply in_seq in Hin. lia.
  - intros [-> H]. exists i. split; auto. apply in_seq. apply valid_node_lt in H. lia.
Qed.

Lemma in_all_nodes : forall cfg n, In n (all_nodes cfg) <-> valid_node cfg n = true.
Proof.
  intros cfg n. unfold all_nodes. rewrite in_app_iff, !in_nodes_of. destruct n as [[] i]; cbn [fst]; intuition congruence.
Qed.

Definition glens (cfg : netcfg) (g : gstate) : Prop := forall c, length (gvec g c) = nc_size cfg c.

Lemma gget_gset_same : forall cfg g n v, glens cfg g -> valid_node cfg n = true -> gget (gset g n v) n = v.
Proof.
  intros cfg g [c i] v Hl Hv. apply valid_node_lt in Hv. specialize (Hl c).
  unfold gget, gset. cbn [fst snd]. destruct c; cbn [gvec g_old g_new nc_size] in *;
    rewrite nth_set_nth, Nat.eqb_refl; cbn [andb].
  - destruct (Nat.ltb_spec i (length (g_old g))); [reflexivity | lia].
  - destruct (Nat.ltb_spec i (length (g_new g))); [reflexivity | lia].
Qed.

Lemma gget_gset_other : forall g n m v, n <> m -> gget (gset g n v) m = gget g m.
Proof.
  intros g [c i] [c' i'] v Hne. unfold gget, gset. cbn [fst snd].
  destruct c, c'; cbn [gvec g_old g_new]; try reflexivity; rewrite nth_set_nth;
    destruct (Nat.eqb_spec i' i); cbn [andb]; try reflexivity; subst; congruence.
Qed.

Lemma glens_gset : forall cfg g n v, glens cfg g -> glens cfg (gset g n v).
Proof.
  intros cfg g [c i] v Hl c'. unfold gset. cbn [fst snd].
  destruct c, c'; cbn [gvec g_old g_new]; rewrite ?length_set_nth; first [apply (Hl Old) | apply (Hl New)].
Qed.

Lemma glens_init : forall tbl cfg, glens cfg (ginit tbl cfg).
Proof. intros tbl cfg []; cbn [gvec ginit g_old g_new]; unfold nodes_of; rewrite !map_length, seq_length; reflexivity. Qed.

Lemma nth_map_seq : forall A (f : nat -> A) n i d, i < n -> nth i (map f (seq 0 n)) d = f i.
Proof.
  intros A f n i d H. rewrite (nth_indep _ d (f 0)) by (rewrite map_length, seq_length; exact H).
  rewrite map_nth, seq_nth by exact H. reflexivity.
Qed.

Lemma gget_init : forall tbl cfg n, valid_node cfg n = true -> gget (ginit tbl cfg) n = (node_init tbl cfg n, []).
Proof.
  intros tbl cfg [c i] Hv. apply valid_node_lt in Hv. unfold gget. cbn [fst snd].
  assert (H : forall c, gvec (ginit tbl cfg) c = map (fun n => (node_init tbl cfg n, [])) (nodes_of cfg c)) by (intros []; reflexivity).
  rewrite H. unfold nodes_of. rewrite map_map. rewrite nth_map_seq by exact Hv. reflexivity.
Qed.

Lemma apply_step_node : forall tbl g st, exists n r, apply_step tbl g st = gset g n (fst r, g_events g n ++ snd r) /\
  match st with
  | NStart n' => n' = n /\ r = start tbl (g_state g n)
  | NDeliver n' ty from flag => n' = n /\ r = deliver tbl (g_state g n) ty from flag
  end.
Proof. intros tbl g [n|n ty from flag]; exists n; eexists; split; cbn [apply_step]; eauto. Qed.

Lemma enabled_valid : forall tbl cfg g st, enabled tbl cfg g st = true ->
  valid_node cfg (match st with NStart n => n | NDeliver n _ _ _ => n end) = true.
Proof. intros tbl cfg g [n|n ty from flag] H; cbn [enabled] in H; auto. apply andb_true_iff in H. tauto. Qed.

Section Net.
Variable tbl : table.
Variable cfg : netcfg.
Hypothesis W : wf tbl = true.

Lemma reachable_glens : forall g, reachable tbl cfg g -> glens cfg g.
Proof.
  induction 1 as [|g st Hr IH He]; [apply glens_init|].
  destruct (apply_step_node tbl g st) as (n & r & E & _). rewrite E. apply glens_gset. exact IH.
Qed.

(** Lifting of party-level invariants: a property of (state, history) of one node that holds
    initially and is preserved by BaseStart and by BaseUpdate with honestly flagged messages holds
    of every node in every reachable state. *)
Lemma reachable_local : forall (P : node -> pstate -> list event -> Prop),
  (forall n, valid_node cfg n = true -> P n (node_init tbl cfg n) []) ->
  (forall n s h, P n s h -> P n (fst (start tbl s)) (h ++ snd (start tbl s))) ->
  (forall n s h ty from, P n s h ->
     P n (fst (deliver tbl s ty from (honest_flag tbl ty))) (h ++ snd (deliver tbl s ty from (honest_flag tbl ty)))) ->
  forall g, reachable tbl cfg g -> forall n, valid_node cfg n = true -> P n (g_state g n) (g_events g n).
Proof.
  intros P Hinit Hstart Hdel g Hr. induction Hr as [|g st Hr IH He]; intros n Hv.
  - unfold g_state, g_events. rewrite gget_init by exact Hv. cbn [fst snd]. apply Hinit. exact Hv.
  - pose proof (reachable_glens g Hr) as Hl.
    destruct st as [m|m ty from flag]; cbn [apply_step].
    + destruct (node_eq_dec m n) as [->|Hne].
      * unfold g_state, g_events. rewrite (gget_gset_same cfg) by auto. cbn [fst snd]. apply Hstart. apply IH. exact Hv.
      * unfold g_state, g_events. rewrite gget_gset_other by exact Hne. apply IH. exact Hv.
    + destruct (node_eq_dec m n) as [->|Hne].
      * unfold g_state, g_events. rewrite (gget_gset_same cfg) by auto. cbn [fst snd].
        cbn [enabled] in He. apply andb_true_iff in He. destruct He as [_ He].
        assert (Hf : flag = honest_flag tbl ty).
        { unfold honest_flag. destruct (nth_error (t_types tbl) ty) as [mt|]; [|discriminate].
          apply andb_true_iff in He. destruct He as [He _]. apply andb_true_iff in He. destruct He as [He _].
          apply eqb_prop in He. exact He. }
        rewrite Hf. apply Hdel. apply IH. exact Hv.
      * unfold g_state, g_events. rewrite gget_gset_other by exact Hne. apply IH. exact Hv.
Qed.

(* ------------------------------------------------------------------ *)
(** * 1. Party-level invariants of reachable states                     *)
(* ------------------------------------------------------------------ *)

Lemma node_static : forall g, reachable tbl cfg g -> forall n, valid_node cfg n = true ->
  static (g_state g n) = static (node_init tbl cfg n).
Proof.
  intros g Hr n Hv.
  apply (reachable_local (fun n s _ => static s = static (node_init tbl cfg n))); auto.
  - intros n0 s _ H. rewrite start_static. exact H.
  - intros n0 s _ ty from H. rewrite deliver_static. exact H.
Qed.

Lemma node_Inv : forall g, reachable tbl cfg g -> forall n, valid_node cfg n = true -> Inv tbl (g_state g n).
Proof.
  intros g Hr n Hv.
  apply (reachable_local (fun _ s _ => Inv tbl s)); auto.
  - intros n0 _. apply Inv_init.
  - intros _ s _ H. apply Inv_start; auto.
  - intros _ s _ ty from H. apply Inv_deliver_good; auto.
Qed.

(** the history of a node is exactly the Start() events of the rounds it has entered, in order *)
Lemma node_events : forall g, reachable tbl cfg g -> forall n, valid_node cfg n = true ->
  g_events g n = flat_map (start_events tbl (g_state g n)) (seq 1 (ps_round (g_state g n))).
Proof.
  intros g Hr n Hv.
  apply (reachable_local (fun _ s h => h = flat_map (start_events tbl s) (seq 1 (ps_round s)))); auto.
  - intros _ s h H. destruct (ps_round s) as [|k] eqn:H0.
    + cbn in H. subst h. cbn [app]. rewrite start_events_exact by exact H0.
      apply flat_map_start_events_static. symmetry. apply start_static.
    + assert (E : start tbl s = (s, [])) by (unfold start; rewrite H0; reflexivity).
      rewrite E. cbn [fst snd]. rewrite app_nil_r, H0. exact H.
  - intros _ s h ty from H. rewrite deliver_events.
    set (s' := fst (deliver tbl s ty from (honest_flag tbl ty))).
    pose proof (round_monotone tbl s ty from (honest_flag tbl ty)) as M. fold s' in M.
    replace (ps_round s') with (ps_round s + (ps_round s' - ps_round s)) at 2 by lia.
    rewrite flat_map_seq_split. cbn [Nat.add]. rewrite H.
    f_equal; apply flat_map_start_events_static; symmetry; apply deliver_static.
Qed.

(* ------------------------------------------------------------------ *)
(** * 2. Emissions and rounds                                           *)
(* ------------------------------------------------------------------ *)

Definition emits_type (r : round_spec) (ty : nat) : bool :=
  existsb (fun e => Nat.eqb (em_type e) ty) (st_emits (r_start r)).

(** the (1-based) numbers of the rounds whose Start() sends a message of type [ty] *)
Definition emit_rounds (ty : nat) : list nat :=
  filter (fun k => match nth_error (t_rounds tbl) (k - 1) with Some r => emits_type r ty | None => false end)
         (seq 1 (length (t_rounds tbl))).

Lemma in_start_events : forall s k ty mode, In (EvEmit ty mode) (start_events tbl s k) ->
  exists r e, 1 <= k /\ nth_error (t_rounds tbl) (k - 1) = Some r /\ holds (st_guard (r_start r)) s = true /\
              In e (st_emits (r_start r)) /\ em_type e = ty /\ em_mode e = mode.
Proof.
  intros s [|k] ty mode H; cbn [start_events] in H; [contradiction|].
  replace (S k - 1) with k by lia.
  destruct (nth_error (t_rounds tbl) k) as [r|] eqn:Hr; [|contradiction].
  destruct (holds (st_guard (r_start r)) s) eqn:Hg; [|contradiction].
  unfold round_events in H. apply in_app_iff in H. destruct H as [H|H].
  - apply in_map_iff in H. destruct H as (e & E & Hin). inversion E; subst.
    exists r, e. repeat split; auto. lia.
  - destruct (st_end (r_start r)); cbn in H; [destruct H as [H|H]; [discriminate|contradiction]|contradiction].
Qed.

Lemma start_events_in : forall s k r e, nth_error (t_rounds tbl) k = Some r -> holds (st_guard (r_start r)) s = true ->
  In e (st_emits (r_start r)) -> In (EvEmit (em_type e) (em_mode e)) (start_events tbl s (S k)).
Proof.
  intros s k r e Hr Hg He. cbn [start_events]. rewrite Hr, Hg. unfold round_events. apply in_app_iff. left.
  apply in_map_iff. exists e. auto.
Qed.

(** every emission in a node's history comes from the Start() of a round the node has entered *)
Lemma emitted_origin : forall g, reachable tbl cfg g -> forall n, valid_node cfg n = true ->
  forall ty mode, In (EvEmit ty mode) (g_events g n) ->
  exists k r e, 1 <= k <= ps_round (g_state g n) /\ nth_error (t_rounds tbl) (k - 1) = Some r /\
                holds (st_guard (r_start r)) (g_state g n) = true /\
                In e (st_emits (r_start r)) /\ em_type e = ty /\ em_mode e = mode.
Proof.
  intros g Hr n Hv ty mode Hin. rewrite (node_events g Hr n Hv) in Hin.
  apply in_flat_map in Hin. destruct Hin as (k & Hk & Hin). apply in_seq in Hk.
  destruct (in_start_events _ _ _ _ Hin) as (r & e & H1 & H2 & H3 & H4 & H5 & H6).
  exists k, r, e. repeat split; auto. lia.
Qed.

(** ** Theorem 2: a node that has sent a message of type [ty] has entered a round that sends [ty] *)
Theorem emitted_implies_round : forall g, reachable tbl cfg g -> forall n, valid_node cfg n = true ->
  forall ty mode, In (EvEmit ty mode) (g_events g n) ->
  exists k, In k (emit_rounds ty) /\ k <= ps_round (g_state g n).
Proof.
  intros g Hr n Hv ty mode Hin.
  destruct (emitted_origin g Hr n Hv ty mode Hin) as (k & r & e & Hk & Hnth & Hg & He & Hty & _).
  exists k. split; [|lia]. unfold emit_rounds. apply filter_In. split.
  - apply in_seq. assert (k - 1 < length (t_rounds tbl)) by (apply nth_error_Some; congruence). lia.
  - rewrite Hnth. unfold emits_type. apply existsb_exists. exists e. split; auto. apply Nat.eqb_eq. exact Hty.
Qed.

Corollary emitted_round_ge : forall g, reachable tbl cfg g -> forall n, valid_node cfg n = true ->
  forall ty mode r0, forallb (Nat.leb r0) (emit_rounds ty) = true ->
  In (EvEmit ty mode) (g_events g n) -> r0 <= ps_round (g_state g n).
Proof.
  intros g Hr n Hv ty mode r0 Hall Hin.
  destruct (emitted_implies_round g Hr n Hv ty mode Hin) as (k & Hk & Hle).
  rewrite forallb_forall in Hall. specialize (Hall k Hk). apply Nat.leb_le in Hall. lia.
Qed.

(** conversely: entering a round whose guard holds sends the round's messages *)
Theorem round_implies_emitted : forall g, reachable tbl cfg g -> forall n, valid_node cfg n = true ->
  forall k r e, nth_error (t_rounds tbl) k = Some r -> k < ps_round (g_state g n) ->
  holds (st_guard (r_start r)) (g_state g n) = true -> In e (st_emits (r_start r)) ->
  In (EvEmit (em_type e) (em_mode e)) (g_events g n).
Proof.
  intros g Hr n Hv k r e Hnth Hk Hg He. rewrite (node_events g Hr n Hv).
  apply in_flat_map. exists (S k). split; [apply in_seq; lia|].
  eapply start_events_in; eauto.
Qed.

(* ------------------------------------------------------------------ *)
(** * 3. The store of a node: what Start() writes and what the network writes *)
(* ------------------------------------------------------------------ *)

(** message types a party in the roles of [s] stores for itself *)
Definition self_types (s : pstate) : list nat :=
  flat_map (fun r => if holds (st_guard (r_start r)) s
                     then map em_type (filter em_self_store (st_emits (r_start r))) else []) (t_rounds tbl).

(** slot (t, j) is never written by the party's own Start() *)
Definition foreign (s : pstate) (t j : nat) : Prop := j <> ps_idx s \/ ~ In t (self_types s).

Lemma self_types_static : forall s s', static s = static s' -> self_types s = self_types s'.
Proof.
  intros s s' H. unfold self_types. induction (t_rounds tbl) as [|r l IH]; cbn [flat_map]; auto.
  rewrite (holds_static _ _ _ H), IH. reflexivity.
Qed.

Lemma foreign_static : forall s s' t j, static s = static s' -> foreign s t j -> foreign s' t j.
Proof.
  intros s s' t j H. unfold foreign. rewrite (self_types_static s s' H).
  apply static_inv in H. destruct H as (_ & _ & H & _). rewrite H. auto.
Qed.

Lemma store_get_apply_emits_foreign : forall l s t j,
  (j <> ps_idx s \/ ~ In t (map em_type (filter em_self_store l))) ->
  store_get (fold_left apply_emit l s) t j = store_get s t j.
Proof.
  induction l as [|e l IH]; intros s t j H; cbn [fold_left]; auto.
  assert (Hidx : ps_idx (apply_emit s e) = ps_idx s) by (unfold apply_emit; destruct (em_self_store e); reflexivity).
  rewrite IH.
  - unfold apply_emit. destruct (em_self_store e) eqn:Hs; auto. rewrite store_get_put.
    destruct (Nat.eqb_spec t (em_type e)) as [Et|]; cbn [andb]; auto.
    destruct (Nat.eqb_spec j (ps_idx s)) as [Ej|]; cbn [andb]; auto.
    exfalso. destruct H as [H|H]; [auto|]. apply H. cbn [filter]. rewrite Hs. left. auto.
  - rewrite Hidx. destruct H as [H|H]; [left; exact H|right]. intros Hin. apply H.
    cbn [filter]. destruct (em_self_store e); [right|]; exact Hin.
Qed.

Lemma store_get_run_start_foreign : forall r s t j, In r (t_rounds tbl) -> foreign s t j ->
  store_get (fst (run_start r s)) t j = store_get s t j.
Proof.
  intros r s t j Hr Hf. rewrite run_start_decomp. destruct (holds (st_guard (r_start r)) s) eqn:Hg; cbn [fst].
  - rewrite store_get_apply_emits_foreign.
    + apply store_get_store. apply store_start_oks.
    + pose proof (static_start_oks r s) as H. apply static_inv in H. destruct H as (_ & _ & H & _). rewrite H.
      destruct Hf as [Hf|Hf]; [left; exact Hf|right]. intros Hin. apply Hf. unfold self_types.
      apply in_flat_map. exists r. split; auto. rewrite Hg. exact Hin.
  - apply store_get_store. apply store_start_oks.
Qed.

Lemma saturate_foreign : forall k s acc t j, foreign s t j ->
  store_get (fst (saturate k tbl s acc)) t j = store_get s t j.
Proof.
  induction k as [|k IH]; intros s acc t j Hf; [reflexivity|].
  rewrite saturate_unfold. destruct (cur_round tbl s) as [r|]; [|reflexivity].
  destruct (can_proceed (upd r s)); [|cbn [fst]; apply store_get_store, store_upd].
  set (s2 := with_round (upd r s) (S (ps_round (upd r s)))).
  assert (Hs2 : static s2 = static s) by (subst s2; rewrite static_with_round; apply static_upd).
  destruct (cur_round tbl s2) as [r2|] eqn:Hr2.
  - rewrite IH.
    + rewrite store_get_run_start_foreign.
      * apply store_get_store. subst s2. cbn. apply store_upd.
      * eapply cur_round_in; eauto.
      * apply (foreign_static s); auto.
    + apply (foreign_static s); auto. rewrite static_run_start. auto.
  - cbn [fst]. apply store_get_store. subst s2. cbn. apply store_upd.
Qed.

Lemma start_foreign : forall s t j, foreign s t j -> store_get (fst (start tbl s)) t j = store_get s t j.
Proof.
  intros s t j Hf. unfold start. destruct (ps_round s) eqn:H0; [|reflexivity].
  destruct (t_rounds tbl) as [|r rs] eqn:Hrs; [reflexivity|].
  destruct (run_start r (with_round s 1)) as [s1 ev] eqn:Hst.
  assert (Hs1 : s1 = fst (run_start r (with_round s 1))) by (rewrite Hst; reflexivity).
  assert (Hg : store_get s1 t j = store_get s t j).
  { rewrite Hs1. rewrite store_get_run_start_foreign.
    - reflexivity.
    - rewrite Hrs. left. reflexivity.
    - apply (foreign_static s); auto. }
  destruct (store_nonempty s); cbn [fst]; auto.
  rewrite <- Hrs. rewrite saturate_foreign; auto.
  apply (foreign_static s); auto. rewrite Hs1, static_run_start. reflexivity.
Qed.

Lemma deliver_foreign : forall s ty from flag t j, foreign s t j ->
  store_get (fst (deliver tbl s ty from flag)) t j = store_get s t j \/
  (t = ty /\ j = from /\ store_get (fst (deliver tbl s ty from flag)) t j = Some flag).
Proof.
  intros s ty from flag t j Hf. unfold deliver. destruct (validate tbl s ty from); [|left; reflexivity].
  rewrite saturate_foreign by (apply (foreign_static s); auto).
  rewrite store_get_put.
  destruct (Nat.eqb_spec t ty), (Nat.eqb_spec j from); cbn [andb]; auto.
  destruct (from <? row_len s ty); auto.
Qed.

(** the committees that have members: only the new one in the single-committee protocols *)
Definition single : bool := Nat.eqb (nc_nold cfg) 0.
Definition committees : list committee := if single then [New] else [Old; New].

Lemma in_committees : forall c j, j < nc_size cfg c -> In c committees.
Proof.
  intros c j H. unfold committees, single. destruct (Nat.eqb_spec (nc_nold cfg) 0) as [E|E].
  - destruct c; cbn [nc_size] in H; [lia|left; reflexivity].
  - destruct c; cbn; auto.
Qed.

Definition role_ok (c : rcond) (cm : committee) : bool := holdsb c (cm_eqb cm Old) (cm_eqb cm New).

(** W6: a party only stores for itself messages whose sender committee is its own *)
Definition wf_selfstore_from : bool :=
  forallb (fun r => forallb (fun e => implb (em_self_store e)
     match nth_error (t_types tbl) (em_type e) with
     | Some mt => forallb (fun cm => implb (role_ok (st_guard (r_start r)) cm) (cm_eqb (mt_from mt) cm)) committees
     | None => false
     end) (st_emits (r_start r))) (t_rounds tbl).

Lemma holds_node : forall c s n, static s = static (node_init tbl cfg n) -> holds c s = role_ok c (fst n).
Proof.
  intros c s n H. rewrite holds_holdsb. apply static_inv in H. destruct H as (H1 & H2 & _).
  rewrite H1, H2. reflexivity.
Qed.

Lemma idx_node : forall s n, static s = static (node_init tbl cfg n) -> ps_idx s = snd n.
Proof. intros s n H. apply static_inv in H. destruct H as (_ & _ & H & _). exact H. Qed.

Lemma csize_node : forall s n c, static s = static (node_init tbl cfg n) -> csize s c = nc_size cfg c.
Proof. intros s n c H. apply static_inv in H. destruct H as (_ & _ & _ & H1 & H2). destruct c; cbn; auto. Qed.

Lemma node_foreign : wf_selfstore_from = true -> forall s n t j mt, valid_node cfg n = true ->
  static s = static (node_init tbl cfg n) -> nth_error (t_types tbl) t = Some mt ->
  (mt_from mt, j) <> n -> foreign s t j.
Proof.
  intros W6 s n t j mt Hv Hs Hmt Hne. destruct (Nat.eq_dec j (ps_idx s)) as [Ej|Ej]; [right|left; exact Ej].
  intros Hin. unfold self_types in Hin. apply in_flat_map in Hin. destruct Hin as (r & Hr & Hin).
  destruct (holds (st_guard (r_start r)) s) eqn:Hg; [|contradiction].
  apply in_map_iff in Hin. destruct Hin as (e & Et & Hin). apply filter_In in Hin. destruct Hin as [He Hss].
  unfold wf_selfstore_from in W6. rewrite forallb_forall in W6. specialize (W6 r Hr).
  rewrite forallb_forall in W6. specialize (W6 e He). rewrite Hss, Et, Hmt in W6. cbn [implb] in W6.
  rewrite forallb_forall in W6.
  assert (Hc : In (fst n) committees).
  { destruct n as [cm i]. apply (in_committees cm i). apply valid_node_lt. exact Hv. }
  specialize (W6 _ Hc). rewrite (holds_node _ s n Hs) in Hg. rewrite Hg in W6. cbn [implb] in W6.
  apply cm_eqb_spec in W6. apply Hne. rewrite W6, Ej, (idx_node s n Hs). destruct n; reflexivity.
Qed.

Lemma nth_repeat_none : forall k j, nth j (repeat (@None bool) k) None = None.
Proof. induction k as [|k IH]; intros [|j]; cbn; auto. Qed.

Lemma store_get_init : forall o n i no nn t j, store_get (init_state tbl o n i no nn) t j = None.
Proof.
  intros. unfold store_get, init_state. cbn [ps_store]. revert t.
  induction (t_types tbl) as [|mt l IH]; intros [|t]; cbn [map nth].
  - destruct j; reflexivity.
  - destruct j; reflexivity.
  - apply nth_repeat_none.
  - apply IH.
Qed.

Lemma emitted_to_spec : forall g sender ty n,
  emitted_to tbl cfg g sender ty n = true <->
  exists mode, In (EvEmit ty mode) (g_events g sender) /\ In n (recipients tbl cfg sender ty mode).
Proof.
  intros g sender ty n. unfold emitted_to. rewrite existsb_exists. split.
  - intros ([ty' mode|] & Hin & H); [|discriminate]. apply andb_true_iff in H. destruct H as [Ht H].
    apply Nat.eqb_eq in Ht. subst ty'. apply existsb_exists in H. destruct H as (m & Hm & E).
    apply node_eqb_spec in E. subst m. exists mode. auto.
  - intros (mode & Hin & Hrec). exists (EvEmit ty mode). split; auto. rewrite Nat.eqb_refl. cbn [andb].
    apply existsb_exists. exists n. split; auto. apply node_eqb_spec. reflexivity.
Qed.

(** histories only grow *)
Lemma step_events_mono : forall g st, reachable tbl cfg g -> enabled tbl cfg g st = true ->
  forall x, exists l, g_events (apply_step tbl g st) x = g_events g x ++ l.
Proof.
  intros g st Hr He x. pose proof (reachable_glens g Hr) as Hl. pose proof (enabled_valid _ _ _ _ He) as Hv.
  destruct (apply_step_node tbl g st) as (n & r & E & Hn). rewrite E.
  assert (Hvn : valid_node cfg n = true) by (destruct st; destruct Hn as [<- _]; exact Hv).
  destruct (node_eq_dec n x) as [->|Hne].
  - exists (snd r). unfold g_events at 1. rewrite (gget_gset_same cfg) by auto. reflexivity.
  - exists []. unfold g_events at 1. rewrite gget_gset_other by exact Hne. rewrite app_nil_r. reflexivity.
Qed.

Lemma emitted_to_mono : forall g st, reachable tbl cfg g -> enabled tbl cfg g st = true ->
  forall sender ty n, emitted_to tbl cfg g sender ty n = true ->
  emitted_to tbl cfg (apply_step tbl g st) sender ty n = true.
Proof.
  intros g st Hr He sender ty n H. unfold emitted_to in *.
  destruct (step_events_mono g st Hr He sender) as (l & ->). rewrite existsb_app, H. reflexivity.
Qed.

(** ** Theorem 1 (network invariant): whatever a node has stored from another node was sent by that
    node, to this node, with the flag of the message type's constructor *)
Theorem stored_implies_emitted : wf_selfstore_from = true ->
  forall g, reachable tbl cfg g ->
  forall n ty j f mt, valid_node cfg n = true -> nth_error (t_types tbl) ty = Some mt ->
    (mt_from mt, j) <> n -> store_get (g_state g n) ty j = Some f ->
    f = mt_bcast mt /\ emitted_to tbl cfg g (mt_from mt, j) ty n = true.
Proof.
  intros W6 g Hr. induction Hr as [|g st Hr IH He]; intros n ty j f mt Hv Hmt Hne Hst.
  - unfold g_state in Hst. rewrite gget_init in Hst by exact Hv. cbn [fst] in Hst.
    unfold node_init in Hst. rewrite store_get_init in Hst. discriminate.
  - pose proof (reachable_glens g Hr) as Hl.
    assert (Hfor : foreign (g_state g n) ty j).
    { eapply node_foreign; eauto. apply node_static; auto. }
    assert (Hold : store_get (g_state g n) ty j = Some f -> 
                   f = mt_bcast mt /\ emitted_to tbl cfg (apply_step tbl g st) (mt_from mt, j) ty n = true).
    { intros H. destruct (IH n ty j f mt Hv Hmt Hne H) as [H1 H2]. split; auto. apply emitted_to_mono; auto. }
    destruct st as [m|m ty0 from flag]; cbn [apply_step] in Hst.
    + destruct (node_eq_dec m n) as [->|Hnm].
      * unfold g_state at 1 in Hst. rewrite (gget_gset_same cfg) in Hst by auto. cbn [fst] in Hst.
        rewrite start_foreign in Hst by exact Hfor. auto.
      * unfold g_state at 1 in Hst. rewrite gget_gset_other in Hst by exact Hnm. auto.
    + destruct (node_eq_dec m n) as [->|Hnm].
      * unfold g_state at 1 in Hst. rewrite (gget_gset_same cfg) in Hst by auto. cbn [fst] in Hst.
        destruct (deliver_foreign (g_state g n) ty0 from flag ty j Hfor) as [E|(E1 & E2 & E3)].
        -- rewrite E in Hst. auto.
        -- subst ty0 from. rewrite E3 in Hst. inversion Hst; subst f.
           pose proof He as He'. cbn [enabled] in He'. rewrite Hmt in He'.
           apply andb_true_iff in He'. destruct He' as [_ He'].
           apply andb_true_iff in He'. destruct He' as [He' H3].
           apply andb_true_iff in He'. destruct He' as [H1 H2]. apply eqb_prop in H1.
           split; auto. apply emitted_to_mono; auto.
      * unfold g_state at 1 in Hst. rewrite gget_gset_other in Hst by exact Hnm. auto.
Qed.

Corollary stored_implies_emitted' : wf_selfstore_from = true ->
  forall g, reachable tbl cfg g ->
  forall n ty j f mt, valid_node cfg n = true -> nth_error (t_types tbl) ty = Some mt ->
    (mt_from mt, j) <> n -> store_get (g_state g n) ty j = Some f ->
    f = mt_bcast mt /\
    exists mode, In (EvEmit ty mode) (g_events g (mt_from mt, j)) /\ In n (recipients tbl cfg (mt_from mt, j) ty mode).
Proof.
  intros W6 g Hr n ty j f mt Hv Hmt Hne Hst.
  destruct (stored_implies_emitted W6 g Hr n ty j f mt Hv Hmt Hne Hst) as [H1 H2].
  split; auto. apply emitted_to_spec. exact H2.
Qed.

(* ------------------------------------------------------------------ *)
(** * 4. A round that has been left was complete                        *)
(* ------------------------------------------------------------------ *)

(** peer [j] of committee [c] has everything in the store that the selected scan of round [r] requires *)
Definition req_stored (r : round_spec) (s : pstate) (c : committee) (j : nat) : Prop :=
  exists sc, selected_scan s (r_update r) = Some sc /\ sc_vec sc = c /\
    forall t cd, In (t, cd) (sc_stores sc) -> holds cd s = true -> store_get s t j = Some (honest_flag tbl t).

(** every round the party has left: each peer was marked by Start() or had delivered what Update() requires *)
Definition Hist (s : pstate) : Prop :=
  forall k r, nth_error (t_rounds tbl) k = Some r -> S k < ps_round s ->
    forall c j, j < csize s c -> start_ok r s c j = true \/ req_stored r s c j.

Lemma req_stored_mono : forall r s s' c j, static s = static s' ->
  (forall t j, store_get s t j = Some (honest_flag tbl t) -> store_get s' t j = Some (honest_flag tbl t)) ->
  req_stored r s c j -> req_stored r s' c j.
Proof.
  intros r s s' c j Hs Hst (sc & H1 & H2 & H3). exists sc. repeat split; auto.
  - rewrite <- (selected_scan_static s s' _ Hs). exact H1.
  - intros t cd Hin Hc. apply Hst. apply (H3 t cd Hin). rewrite (holds_static cd s s' Hs). exact Hc.
Qed.

Lemma Hist_ext : forall s s', static s = static s' -> ps_round s' = ps_round s ->
  (forall t j, store_get s t j = Some (honest_flag tbl t) -> store_get s' t j = Some (honest_flag tbl t)) ->
  Hist s -> Hist s'.
Proof.
  intros s s' Hs Hr Hst HH k r Hnth Hk c j Hj. rewrite Hr in Hk. rewrite <- (csize_static c s s' Hs) in Hj.
  destruct (HH k r Hnth Hk c j Hj) as [H|H].
  - left. rewrite <- (start_ok_static r s s' c j Hs). exact H.
  - right. eapply req_stored_mono; eauto.
Qed.

Lemma sel_scan_ok_req : forall r s c j, In r (t_rounds tbl) -> sel_scan_ok r s c j = true -> req_stored r s c j.
Proof.
  intros r s c j Hr H. unfold sel_scan_ok in H. destruct (selected_scan s (r_update r)) as [sc|] eqn:Hsel; [|discriminate].
  apply andb_true_iff in H. destruct H as [H1 H2]. apply committee_eqb_spec in H1.
  exists sc. repeat split; auto. apply (scan_ok_iff tbl W r s sc j Hr Hsel). exact H2.
Qed.

Lemma forallb_id_nth : forall l j, forallb (fun b : bool => b) l = true -> j < length l -> nth j l false = true.
Proof.
  induction l as [|b l IH]; intros [|j] H Hj; cbn in *; try lia; apply andb_true_iff in H; destruct H as [H1 H2]; auto.
  apply IH; auto. lia.
Qed.

Lemma can_proceed_nth : forall s c j, can_proceed s = true -> j < length (okvec s c) -> nth j (okvec s c) false = true.
Proof.
  intros s c j H Hj. unfold can_proceed in H. apply andb_true_iff in H. destruct H as [H1 H2].
  destruct c; cbn [okvec] in *; apply forallb_id_nth; auto.
Qed.

Lemma Hist_next : forall s r, cur_round tbl s = Some r -> Inv tbl s -> can_proceed s = true -> Hist s ->
  Hist (with_round s (S (ps_round s))).
Proof.
  intros s r Hr [Hl HI] Hc HH k r' Hnth Hk c j Hj. rewrite Hr in HI.
  cbn [with_round ps_round] in Hk. change (csize (with_round s (S (ps_round s))) c) with (csize s c) in Hj.
  assert (Hs : static s = static (with_round s (S (ps_round s)))) by reflexivity.
  destruct (Nat.eq_dec (S k) (ps_round s)) as [E|E].
  - assert (r' = r). { unfold cur_round in Hr. rewrite <- E in Hr. congruence. } subst r'.
    destruct (HI c j Hj) as [_ H2].
    assert (Hn : nth j (okvec s c) false = true) by (apply can_proceed_nth; auto; rewrite Hl; exact Hj).
    destruct (H2 Hn) as [H3|H3].
    + left. rewrite <- (start_ok_static r s _ c j Hs). exact H3.
    + right. apply (req_stored_mono r s); auto. apply sel_scan_ok_req; auto. eapply cur_round_in; eauto.
  - assert (Hk' : S k < ps_round s) by lia.
    destruct (HH k r' Hnth Hk' c j Hj) as [H|H].
    + left. rewrite <- (start_ok_static r' s _ c j Hs). exact H.
    + right. apply (req_stored_mono r' s); auto.
Qed.

Lemma Hist_run_start : forall r s, In r (t_rounds tbl) -> Hist s -> Hist (fst (run_start r s)).
Proof.
  intros r s Hr HH. apply (Hist_ext s); auto.
  - symmetry. apply static_run_start.
  - apply round_run_start.
  - intros t j H. apply store_get_run_start_mono; auto.
Qed.

Lemma Hist_saturate : forall k s acc, Inv tbl s -> Hist s -> Hist (fst (saturate k tbl s acc)).
Proof.
  induction k as [|k IH]; intros s acc HI HH; [exact HH|].
  rewrite saturate_unfold. destruct (cur_round tbl s) as [r|] eqn:Hr; [|exact HH].
  pose proof (Inv_upd tbl W r s Hr HI) as HU.
  assert (HHu : Hist (upd r s)).
  { apply (Hist_ext s); auto.
    - symmetry. apply static_upd.
    - apply round_upd.
    - intros t j H. rewrite (store_get_store _ s); auto. apply store_upd. }
  destruct (can_proceed (upd r s)) eqn:Hc; [|exact HHu].
  assert (Hru : cur_round tbl (upd r s) = Some r).
  { rewrite <- Hr. apply cur_round_static_round. apply round_upd. }
  pose proof (Hist_next (upd r s) r Hru HU Hc HHu) as HH2.
  destruct (cur_round tbl (with_round (upd r s) (S (ps_round (upd r s))))) as [r2|] eqn:Hr2; [|exact HH2].
  apply IH.
  - apply Inv_run_start; auto. apply lens_with_round. apply HU.
  - apply Hist_run_start; auto. eapply cur_round_in; eauto.
Qed.

Lemma Hist_put : forall s t j, Hist s -> Hist (store_put s t j (honest_flag tbl t)).
Proof.
  intros s t j HH. apply (Hist_ext s); auto. intros t' j' H. rewrite store_get_put.
  destruct (Nat.eqb_spec t' t); cbn [andb]; auto. subst t'.
  destruct (Nat.eqb j' j && (j <? row_len s t)); auto.
Qed.

Lemma node_Hist : forall g, reachable tbl cfg g -> forall n, valid_node cfg n = true -> Hist (g_state g n).
Proof.
  intros g Hr n Hv.
  enough (H : Inv tbl (g_state g n) /\ Hist (g_state g n)) by (destruct H as [_ H]; exact H).
  apply (reachable_local (fun _ s _ => Inv tbl s /\ Hist s)); auto.
  - intros n0 _. split; [apply Inv_init|]. intros k r _ Hk. cbn in Hk. lia.
  - intros _ s _ [HI HH]. split; [apply Inv_start; auto|].
    unfold start. destruct (ps_round s) eqn:H0; [|exact HH].
    destruct (t_rounds tbl) as [|r rs] eqn:Hrs; [exact HH|].
    destruct (run_start r (with_round s 1)) as [s1 ev] eqn:Hst.
    assert (Hs1 : s1 = fst (run_start r (with_round s 1))) by (rewrite Hst; reflexivity).
    assert (HI1 : Inv tbl s1).
    { rewrite Hs1. apply Inv_run_start; auto.
      - unfold cur_round. cbn. rewrite Hrs. reflexivity.
      - apply lens_with_round. apply HI. }
    assert (HH1 : Hist s1).
    { intros k r' _ Hk. rewrite Hs1, round_run_start in Hk. cbn in Hk. lia. }
    rewrite <- Hrs. destruct (store_nonempty s); cbn [fst]; auto. apply Hist_saturate; auto.
  - intros _ s _ ty from [HI HH]. split; [apply Inv_deliver_good; auto|].
    unfold deliver. destruct (validate tbl s ty from); [|exact HH]. cbn [fst].
    apply Hist_saturate.
    + apply Inv_put_good; auto.
    + apply Hist_put; auto.
Qed.

(** ** the requirement a node had to meet to leave a round, at the level of the network:
    whoever has left round [k+1] has, from every peer [j] that Start() did not mark, every message
    the round's scan requires; and the peer has sent it. *)
Theorem left_round_needs : wf_selfstore_from = true ->
  forall g, reachable tbl cfg g -> forall n, valid_node cfg n = true ->
  forall k r sc t cd mt j, nth_error (t_rounds tbl) k = Some r -> S k < ps_round (g_state g n) ->
    selected_scan (g_state g n) (r_update r) = Some sc -> In (t, cd) (sc_stores sc) ->
    holds cd (g_state g n) = true -> nth_error (t_types tbl) t = Some mt ->
    j < nc_size cfg (sc_vec sc) -> start_ok r (g_state g n) (sc_vec sc) j = false -> (mt_from mt, j) <> n ->
    exists mode, In (EvEmit t mode) (g_events g (mt_from mt, j)) /\ In n (recipients tbl cfg (mt_from mt, j) t mode).
Proof.
  intros W6 g Hr n Hv k r sc t cd mt j Hnth Hk Hsel Hin Hcd Hmt Hj Hso Hne.
  pose proof (node_Hist g Hr n Hv) as HH. pose proof (node_static g Hr n Hv) as Hs.
  assert (Hj' : j < csize (g_state g n) (sc_vec sc)) by (rewrite (csize_node _ n _ Hs); exact Hj).
  destruct (HH k r Hnth Hk (sc_vec sc) j Hj') as [H|(sc' & H1 & H2 & H3)]; [congruence|].
  rewrite Hsel in H1. inversion H1; subst sc'.
  pose proof (H3 t cd Hin Hcd) as Hst.
  destruct (stored_implies_emitted' W6 g Hr n t j _ mt Hv Hmt Hne Hst) as [_ H]. exact H.
Qed.

(* ------------------------------------------------------------------ *)
(** * 5. C04: resharing retires the old shares last                     *)
(* ------------------------------------------------------------------ *)

Definition is_always (c : rcond) : bool := match c with RAlways => true | _ => false end.

(** side condition on the table: the round before the last one cannot be left, by a member of either
    committee, without the message [ack] from every member of the new committee (other than oneself),
    and [ack] is sent in no earlier round *)
Definition last_round_needs_ack (ack : nat) : bool :=
  let L := length (t_rounds tbl) in
  match nth_error (t_rounds tbl) (L - 2), nth_error (t_types tbl) ack with
  | Some r, Some mt =>
      match r_update r with
      | UScan RAlways sc :: _ =>
          cm_eqb (sc_vec sc) New && existsb (fun p => Nat.eqb (fst p) ack && is_always (snd p)) (sc_stores sc)
      | _ => false
      end
      && negb (st_all_new_pre (r_start r)) && negb (st_all_new_post (r_start r))
      && match st_self_ok (r_start r) with
         | Some New => negb (role_ok (st_guard (r_start r)) Old)
         | _ => true
         end
      && cm_eqb (mt_from mt) New
      && forallb (Nat.leb (L - 1)) (emit_rounds ack)
      && Nat.leb 2 L
  | _, _ => false
  end.

(** ** Theorem 3 (general form) *)
Theorem erase_last_gen : wf_selfstore_from = true -> forall ack, last_round_needs_ack ack = true ->
  forall g, reachable tbl cfg g -> forall n, valid_node cfg n = true ->
  length (t_rounds tbl) <= ps_round (g_state g n) ->
  forall j, j < nc_nnew cfg -> length (t_rounds tbl) - 1 <= ps_round (g_state g (New, j)).
Proof.
  intros W6 ack HA g Hr n Hv Hfin j Hj. unfold last_round_needs_ack in HA. cbv zeta in HA.
  set (L := length (t_rounds tbl)) in *.
  destruct (nth_error (t_rounds tbl) (L - 2)) as [r|] eqn:Hnth; [|discriminate].
  destruct (nth_error (t_types tbl) ack) as [mt|] eqn:Hmt; [|discriminate].
  repeat (apply andb_true_iff in HA; destruct HA as [HA ?]).
  rename H into HL, H0 into Hem, H1 into Hfrom, H2 into Hself, H3 into Hpost, H4 into Hpre.
  apply Nat.leb_le in HL. apply cm_eqb_spec in Hfrom.
  apply negb_true_iff in Hpre. apply negb_true_iff in Hpost.
  destruct (r_update r) as [|[c0|c0 sc|c0] rest] eqn:Hupd; try discriminate.
  destruct c0; try discriminate.
  apply andb_true_iff in HA. destruct HA as [Hvec Hex]. apply cm_eqb_spec in Hvec.
  apply existsb_exists in Hex. destruct Hex as ([t cd] & Hin & Hex). cbn [fst snd] in Hex.
  apply andb_true_iff in Hex. destruct Hex as [Ht Hcd]. apply Nat.eqb_eq in Ht. subst t.
  destruct cd; try discriminate.
  pose proof (node_static g Hr n Hv) as Hs.
  set (s := g_state g n) in *.
  assert (Hsel : selected_scan s (r_update r) = Some sc) by (rewrite Hupd; reflexivity).
  destruct (node_eq_dec (New, j) n) as [E|Hne]; [rewrite E; fold s; lia|].
  assert (Hso : start_ok r s (sc_vec sc) j = false).
  { rewrite Hvec. unfold start_ok. cbv zeta. rewrite Hpre, Hpost. cbn [orb].
    destruct (holds (st_guard (r_start r)) s) eqn:Hg; [|reflexivity]. cbn [andb].
    destruct (st_self_ok (r_start r)) as [[]|]; try reflexivity. cbn [committee_eqb andb].
    destruct (Nat.eqb_spec j (ps_idx s)) as [Ej|]; [|reflexivity]. exfalso.
    rewrite (holds_node _ s n Hs) in Hg. apply negb_true_iff in Hself.
    apply Hne. rewrite Ej, (idx_node s n Hs). destruct n as [[] i]; cbn [fst snd] in *; [congruence|reflexivity]. }
  destruct (left_round_needs W6 g Hr n Hv (L - 2) r sc ack RAlways mt j Hnth ltac:(fold s; lia) Hsel Hin eq_refl Hmt
              ltac:(rewrite Hvec; exact Hj) Hso ltac:(rewrite Hfrom; exact Hne)) as (mode & Hev & _).
  rewrite Hfrom in Hev.
  apply (emitted_round_ge g Hr (New, j) ltac:(apply valid_node_lt; exact Hj) ack mode (L - 1) Hem Hev).
Qed.

Lemma in_end_count : forall l, In EvEnd l -> 1 <= count_end l.
Proof.
  induction l as [|e l IH]; intros H; [contradiction|]. destruct H as [->|H].
  - unfold count_end. cbn. lia.
  - specialize (IH H). unfold count_end in *. cbn [filter]. destruct (is_end e); cbn [length]; lia.
Qed.

(** [EvEnd] is only ever emitted on entering the last round *)
Lemma end_implies_last_round : forall g, reachable tbl cfg g -> forall n, valid_node cfg n = true ->
  In EvEnd (g_events g n) -> length (t_rounds tbl) <= ps_round (g_state g n).
Proof.
  intros g Hr n Hv Hin. rewrite (node_events g Hr n Hv) in Hin.
  apply in_flat_map in Hin. destruct Hin as (k & Hk & Hin). apply in_seq in Hk.
  destruct (Nat.eq_dec k (length (t_rounds tbl))) as [E|E]; [lia|].
  destruct (wf_parts tbl W) as (_ & _ & _ & _ & W5).
  pose proof (count_end_start_events tbl W5 (g_state g n) k E) as H0.
  apply in_end_count in Hin. lia.
Qed.

(** ** Corollary: as long as some member of the new committee has not entered the acknowledgement
    round, nobody has entered the last round and nobody has signalled the end: every prefix of
    every schedule, every crash point *)
Corollary cut_keeps_old_keys_gen : wf_selfstore_from = true -> forall ack, last_round_needs_ack ack = true ->
  forall g, reachable tbl cfg g ->
  forall j, j < nc_nnew cfg -> ps_round (g_state g (New, j)) < length (t_rounds tbl) - 1 ->
  forall n, valid_node cfg n = true ->
    ps_round (g_state g n) < length (t_rounds tbl) /\ ~ In EvEnd (g_events g n).
Proof.
  intros W6 ack HA g Hr j Hj Hlt n Hv.
  assert (H : ps_round (g_state g n) < length (t_rounds tbl)).
  { destruct (le_lt_dec (length (t_rounds tbl)) (ps_round (g_state g n))) as [Hle|]; auto.
    pose proof (erase_last_gen W6 ack HA g Hr n Hv Hle j Hj). lia. }
  split; auto. intros Hin. pose proof (end_implies_last_round g Hr n Hv Hin). lia.
Qed.

(* ------------------------------------------------------------------ *)
(** * 6. What a party stores for itself stays stored                    *)
(* ------------------------------------------------------------------ *)

Definition rows (s : pstate) : Prop :=
  forall t mt, nth_error (t_types tbl) t = Some mt -> row_len s t = csize s (mt_from mt).

Lemma nth_map_error : forall A B (f : A -> B) l t x d, nth_error l t = Some x -> nth t (map f l) d = f x.
Proof. induction l as [|a l IH]; intros [|t] x d H; cbn in *; try discriminate; [congruence|auto]. Qed.

Lemma row_len_start : forall s t, row_len (fst (start tbl s)) t = row_len s t.
Proof.
  intros s t. unfold start. destruct (ps_round s); [|reflexivity].
  destruct (t_rounds tbl) as [|r rs] eqn:Hrs; [reflexivity|].
  destruct (run_start r (with_round s 1)) as [s1 ev] eqn:Hst.
  assert (Hs1 : s1 = fst (run_start r (with_round s 1))) by (rewrite Hst; reflexivity).
  assert (H1 : row_len s1 t = row_len s t) by (rewrite Hs1, row_len_run_start; reflexivity).
  destruct (store_nonempty s); cbn [fst]; auto. rewrite saturate_row_len. exact H1.
Qed.

Lemma row_len_deliver : forall s ty from flag t, row_len (fst (deliver tbl s ty from flag)) t = row_len s t.
Proof.
  intros. unfold deliver. destruct (validate tbl s ty from); [|reflexivity]. cbn [fst].
  rewrite saturate_row_len. apply row_len_put.
Qed.

Lemma node_rows : forall g, reachable tbl cfg g -> forall n, valid_node cfg n = true -> rows (g_state g n).
Proof.
  intros g Hr n Hv. apply (reachable_local (fun _ s _ => rows s)); auto.
  - intros n0 _ t mt Hmt. unfold row_len, node_init, init_state. cbn [ps_store].
    rewrite (nth_map_error _ _ _ _ _ mt [] Hmt), repeat_length. destruct (mt_from mt); reflexivity.
  - intros _ s _ H t mt Hmt. rewrite row_len_start, (csize_static _ _ s (start_static tbl s)). auto.
  - intros _ s _ ty from H t mt Hmt. rewrite row_len_deliver, (csize_static _ _ s (deliver_static tbl s _ _ _)). auto.
Qed.

(** the self-stores of the first [b] rounds are in the store *)
Definition SelfStB (b : nat) (s : pstate) : Prop :=
  forall k r e, nth_error (t_rounds tbl) k = Some r -> k < b -> holds (st_guard (r_start r)) s = true ->
    In e (st_emits (r_start r)) -> em_self_store e = true -> ps_idx s < row_len s (em_type e) ->
    store_get s (em_type e) (ps_idx s) = Some (honest_flag tbl (em_type e)).

Lemma SelfStB_ext : forall b s s', static s = static s' -> (forall t, row_len s' t = row_len s t) ->
  (forall t j, store_get s t j = Some (honest_flag tbl t) -> store_get s' t j = Some (honest_flag tbl t)) ->
  SelfStB b s -> SelfStB b s'.
Proof.
  intros b s s' Hs Hrow Hst H k r e Hnth Hk Hg He Hss Hr.
  pose proof (static_inv _ _ Hs) as (_ & _ & Hi & _). rewrite <- Hi in *. rewrite Hrow in Hr.
  apply Hst. apply (H k r e); auto. rewrite (holds_static _ s s' Hs). exact Hg.
Qed.

Lemma apply_emits_self : forall l s e, In e l -> em_self_store e = true ->
  (forall e', In e' l -> em_self_store e' = true -> emit_flag e' = honest_flag tbl (em_type e')) ->
  ps_idx s < row_len s (em_type e) ->
  store_get (fold_left apply_emit l s) (em_type e) (ps_idx s) = Some (honest_flag tbl (em_type e)).
Proof.
  induction l as [|a l IH]; intros s e Hin Hss Hfl Hrow; [contradiction|]. cbn [fold_left].
  destruct Hin as [->|Hin].
  - apply store_get_apply_emits_mono; [intros; apply Hfl; auto; right; auto|].
    unfold apply_emit. rewrite Hss, store_get_put, !Nat.eqb_refl. apply Nat.ltb_lt in Hrow. rewrite Hrow. cbn [andb].
    fold (emit_flag e). rewrite (Hfl e (or_introl eq_refl) Hss). reflexivity.
  - assert (Hidx : ps_idx (apply_emit s a) = ps_idx s) by (unfold apply_emit; destruct (em_self_store a); reflexivity).
    rewrite <- Hidx. apply IH; auto.
    + intros; apply Hfl; auto. right; auto.
    + rewrite Hidx. unfold apply_emit. destruct (em_self_store a); auto. rewrite row_len_put. exact Hrow.
Qed.

Lemma SelfStB_run_start : forall s r, cur_round tbl s = Some r -> SelfStB (ps_round s - 1) s ->
  SelfStB (ps_round s) (fst (run_start r s)).
Proof.
  intros s r Hr H k r' e Hnth Hk Hg He Hss Hrow.
  assert (Hrin : In r (t_rounds tbl)) by (eapply cur_round_in; eauto).
  pose proof (static_run_start r s) as Hs. pose proof (static_inv _ _ Hs) as (_ & _ & Hi & _).
  rewrite Hi in *. rewrite row_len_run_start in Hrow. rewrite (holds_static _ _ _ Hs) in Hg.
  destruct (Nat.eq_dec k (ps_round s - 1)) as [E|E].
  - assert (r' = r). { unfold cur_round in Hr. destruct (ps_round s) as [|k0]; [discriminate|]. replace (S k0 - 1) with k0 in E by lia. congruence. }
    subst r'. rewrite run_start_decomp, Hg. cbn [fst].
    pose proof (static_start_oks r s) as Hs2. pose proof (static_inv _ _ Hs2) as (_ & _ & Hi2 & _).
    rewrite <- Hi2. apply apply_emits_self; auto.
    + intros e' He'. apply (emit_flag_honest tbl W r e' Hrin He').
    + rewrite Hi2, (row_len_store _ s); auto. apply store_start_oks.
  - apply store_get_run_start_mono; auto. apply (H k r' e); auto. lia.
Qed.

Lemma SelfStB_saturate : forall k s acc, SelfStB (ps_round s) s ->
  SelfStB (ps_round (fst (saturate k tbl s acc))) (fst (saturate k tbl s acc)).
Proof.
  induction k as [|k IH]; intros s acc H; [exact H|].
  rewrite saturate_unfold. destruct (cur_round tbl s) as [r|] eqn:Hr; [|exact H].
  assert (Hu : SelfStB (ps_round s) (upd r s)).
  { apply (SelfStB_ext _ s); auto.
    - symmetry. apply static_upd.
    - intros t. apply row_len_store. apply store_upd.
    - intros t j H1. rewrite (store_get_store _ s); auto. apply store_upd. }
  destruct (can_proceed (upd r s)); [|cbn [fst]; rewrite round_upd; exact Hu].
  set (s2 := with_round (upd r s) (S (ps_round (upd r s)))).
  assert (Hr2 : ps_round s2 = S (ps_round s)) by (subst s2; cbn; rewrite round_upd; reflexivity).
  assert (H2 : SelfStB (ps_round s2 - 1) s2).
  { rewrite Hr2. replace (S (ps_round s) - 1) with (ps_round s) by lia.
    apply (SelfStB_ext _ (upd r s)); auto. }
  destruct (cur_round tbl s2) as [r2|] eqn:Hc2.
  - pose proof (SelfStB_run_start s2 r2 Hc2 H2) as H3. rewrite <- (round_run_start r2 s2) in H3.
    apply IH. exact H3.
  - cbn [fst]. intros k' r' e Hnth Hk. destruct (Nat.eq_dec k' (ps_round s)) as [E|E].
    + exfalso. unfold cur_round in Hc2. rewrite Hr2 in Hc2. congruence.
    + apply (H2 k' r' e Hnth). lia.
Qed.

Lemma node_SelfSt : forall g, reachable tbl cfg g -> forall n, valid_node cfg n = true ->
  SelfStB (ps_round (g_state g n)) (g_state g n).
Proof.
  intros g Hr n Hv. apply (reachable_local (fun _ s _ => SelfStB (ps_round s) s)); auto.
  - intros n0 _ k r e _ Hk. cbn in Hk. lia.
  - intros _ s _ H. unfold start. destruct (ps_round s) eqn:H0; [|cbn [fst]; rewrite H0; exact H].
    destruct (t_rounds tbl) as [|r rs] eqn:Hrs; [cbn [fst]; rewrite H0; exact H|].
    destruct (run_start r (with_round s 1)) as [s1 ev] eqn:Hst.
    assert (Hs1 : s1 = fst (run_start r (with_round s 1))) by (rewrite Hst; reflexivity).
    assert (H1 : SelfStB (ps_round s1) s1).
    { rewrite Hs1. rewrite round_run_start.
      apply SelfStB_run_start.
      - unfold cur_round. cbn. rewrite Hrs. reflexivity.
      - cbn. intros k r' e _ Hk. lia. }
    rewrite <- Hrs. destruct (store_nonempty s); cbn [fst]; auto. apply SelfStB_saturate. exact H1.
  - intros _ s _ ty from H. unfold deliver. destruct (validate tbl s ty from); [|exact H]. cbn [fst].
    apply SelfStB_saturate. cbn [ps_round store_put].
    apply (SelfStB_ext _ s); auto.
    + intros t. apply row_len_put.
    + intros t j H1. rewrite store_get_put.
      destruct (Nat.eqb_spec t ty); cbn [andb]; auto. subst t.
      destruct (Nat.eqb j from && (from <? row_len s ty)); auto.
Qed.

(* ------------------------------------------------------------------ *)
(** * 7. C07: no deadlock                                               *)
(* ------------------------------------------------------------------ *)

(** the clause of Update() selected for a party of committee [cm] *)
Fixpoint sel_scan_role (cm : committee) (cl : list uclause) : option scan :=
  match cl with
  | [] => None
  | USkip c :: rest => if role_ok c cm then None else sel_scan_role cm rest
  | UError c :: rest => if role_ok c cm then None else sel_scan_role cm rest
  | UScan c sc :: rest => if role_ok c cm then Some sc else sel_scan_role cm rest
  end.

Lemma selected_scan_role : forall s n cl, static s = static (node_init tbl cfg n) ->
  selected_scan s cl = sel_scan_role (fst n) cl.
Proof.
  intros s n cl H. induction cl as [|[c|c sc|c] rest IH]; cbn [selected_scan sel_scan_role]; auto;
    rewrite (holds_node c s n H), IH; reflexivity.
Qed.

(** some round up to round [k+1] makes every party of committee [c] send type [t] (of routing [mt]) to every
    party of committee [cm]; a party that needs its own message has its ok bit set by Start() or stores
    the message for itself *)
Definition emitter_ok (cm c : committee) (k t : nat) (mt : msg_type) (selfbit : bool) : bool :=
  existsb (fun k' =>
    match nth_error (t_rounds tbl) k' with
    | Some r' =>
        role_ok (st_guard (r_start r')) c &&
        existsb (fun e =>
          Nat.eqb (em_type e) t &&
          match em_mode e with
          | EBroadcast => existsb (cm_eqb cm) (bcast_dest cfg mt)
          | EP2P to skip => cm_eqb to cm && (negb skip || cm_eqb c cm)
          end &&
          (negb (cm_eqb c cm) || selfbit || em_self_store e)) (st_emits (r_start r'))
    | None => false
    end) (seq 0 (S k)).

(** round [rr] (number [k+1]) can be completed, for the ok vector of committee [c], by a party of committee [cm] *)
Definition live_vec (cm c : committee) (k : nat) (rr : round_spec) : bool :=
  let st := r_start rr in
  let g := role_ok (st_guard st) cm in
  (match c with Old => st_all_old_pre st | New => st_all_new_pre st end) ||
  (g && match c with Old => st_all_old_post st | New => st_all_new_post st end) ||
  match sel_scan_role cm (r_update rr) with
  | Some sc =>
      cm_eqb (sc_vec sc) c &&
      forallb (fun p : nat * rcond =>
        negb (role_ok (snd p) cm) ||
        match nth_error (t_types tbl) (fst p) with
        | Some mt => cm_eqb (mt_from mt) c &&
                     emitter_ok cm c k (fst p) mt
                       (g && match st_self_ok st with Some c' => cm_eqb c' c | None => false end)
        | None => false
        end) (sc_stores sc)
  | None => false
  end.

(** W7: the table is live: in every round every party can collect what it waits for once every other
    party has entered the round *)
Definition live_table : bool :=
  forallb (fun cm => forallb (fun c => forallb (fun k =>
     match nth_error (t_rounds tbl) k with Some rr => live_vec cm c k rr | None => false end)
     (seq 0 (length (t_rounds tbl)))) committees) committees.

Lemma in_recipients_bcast : forall n x t mt, nth_error (t_types tbl) t = Some mt ->
  In (fst n) (bcast_dest cfg mt) -> valid_node cfg n = true -> n <> x ->
  In n (recipients tbl cfg x t EBroadcast).
Proof.
  intros n x t mt Hmt Hd Hv Hne. unfold recipients. rewrite Hmt. apply filter_In. split.
  - apply in_flat_map. exists (fst n). split; auto. apply in_nodes_of. auto.
  - apply negb_true_iff. destruct (node_eqb n x) eqn:E; auto. apply node_eqb_spec in E. congruence.
Qed.

Lemma in_recipients_p2p : forall to i x t skip, valid_node cfg (to, i) = true ->
  (skip = false \/ i <> snd x) -> In (to, i) (recipients tbl cfg x t (EP2P to skip)).
Proof.
  intros to i x t skip Hv H. unfold recipients. apply in_map_iff. exists i. split; auto.
  apply filter_In. split.
  - apply in_seq. apply valid_node_lt in Hv. lia.
  - apply negb_true_iff. destruct H as [->|H]; [reflexivity|].
    destruct (Nat.eqb_spec i (snd x)); [congruence|]. apply andb_false_r.
Qed.

Lemma can_proceed_false : forall s, can_proceed s = false ->
  exists c j, j < length (okvec s c) /\ nth j (okvec s c) false = false.
Proof.
  assert (H : forall l, forallb (fun b : bool => b) l = false -> exists j, j < length l /\ nth j l false = false).
  { induction l as [|b l IH]; cbn; intros H; [discriminate|]. destruct b.
    - destruct (IH H) as (j & Hj & Hn). exists (S j). split; auto. lia.
    - exists 0. split; auto. lia. }
  intros s Hc. unfold can_proceed in Hc. apply andb_false_iff in Hc. destruct Hc as [Hc|Hc].
  - destruct (H _ Hc) as (j & Hj & Hn). exists Old, j. auto.
  - destruct (H _ Hc) as (j & Hj & Hn). exists New, j. auto.
Qed.

(** the core of the argument: once every node has entered round [k+1] and the network has delivered
    everything, a node in round [k+1] has, for every peer, the Start() bit or the required messages *)
Lemma live_complete : wf_selfstore_from = true -> live_table = true ->
  forall g, reachable tbl cfg g -> quiescent tbl cfg g ->
  forall k rr, nth_error (t_rounds tbl) k = Some rr ->
  (forall x, valid_node cfg x = true -> S k <= ps_round (g_state g x)) ->
  forall n, valid_node cfg n = true -> ps_round (g_state g n) = S k ->
  forall c j, j < csize (g_state g n) c ->
    start_ok rr (g_state g n) c j = true \/ sel_scan_ok rr (g_state g n) c j = true.
Proof.
  intros W6 W7 g Hr Hq k rr Hnth Hall n Hv Hrn c j Hj.
  pose proof (node_static g Hr n Hv) as Hs. set (s := g_state g n) in *.
  rewrite (csize_node s n c Hs) in Hj.
  assert (Hcm : In (fst n) committees).
  { destruct n as [cm i]. apply (in_committees cm i). apply valid_node_lt. exact Hv. }
  assert (Hc : In c committees) by (eapply in_committees; eauto).
  assert (Hk : In k (seq 0 (length (t_rounds tbl)))).
  { apply in_seq. assert (k < length (t_rounds tbl)) by (apply nth_error_Some; congruence). lia. }
  unfold live_table in W7. rewrite forallb_forall in W7. specialize (W7 _ Hcm).
  rewrite forallb_forall in W7. specialize (W7 _ Hc).
  rewrite forallb_forall in W7. specialize (W7 _ Hk). rewrite Hnth in W7.
  unfold live_vec in W7. cbv zeta in W7.
  assert (Hg : holds (st_guard (r_start rr)) s = role_ok (st_guard (r_start rr)) (fst n)) by (apply holds_node; auto).
  apply orb_true_iff in W7. destruct W7 as [W7|W7].
  { left. unfold start_ok. cbv zeta. rewrite Hg.
    apply orb_true_iff in W7. destruct W7 as [W7|W7].
    - destruct c; rewrite W7; reflexivity.
    - apply andb_true_iff in W7. destruct W7 as [W71 W72]. rewrite W71. destruct c; rewrite W72; cbn [andb orb]; apply orb_true_r. }
  destruct (sel_scan_role (fst n) (r_update rr)) as [sc|] eqn:Hsel; [|discriminate].
  apply andb_true_iff in W7. destruct W7 as [Hvec Hall_st]. apply cm_eqb_spec in Hvec.
  assert (Hsel' : selected_scan s (r_update rr) = Some sc) by (rewrite (selected_scan_role s n _ Hs); exact Hsel).
  destruct (start_ok rr s c j) eqn:Hso; [left; reflexivity|right].
  unfold sel_scan_ok. rewrite Hsel'. rewrite Hvec.
  assert (Hcc : committee_eqb c c = true) by (apply committee_eqb_spec; reflexivity). rewrite Hcc. cbn [andb].
  assert (Hrin : In rr (t_rounds tbl)) by (eapply nth_error_In; eauto).
  apply (scan_ok_iff tbl W rr s sc j Hrin Hsel'). intros t cd Hin Hcd.
  rewrite forallb_forall in Hall_st. specialize (Hall_st _ Hin). cbn [fst snd] in Hall_st.
  rewrite (holds_node cd s n Hs) in Hcd. rewrite Hcd in Hall_st. cbn [negb orb] in Hall_st.
  destruct (nth_error (t_types tbl) t) as [mt|] eqn:Hmt; [|discriminate].
  apply andb_true_iff in Hall_st. destruct Hall_st as [Hfrom Hem]. apply cm_eqb_spec in Hfrom.
  unfold emitter_ok in Hem. apply existsb_exists in Hem. destruct Hem as (k' & Hk' & Hem). apply in_seq in Hk'.
  destruct (nth_error (t_rounds tbl) k') as [r'|] eqn:Hnth'; [|discriminate].
  apply andb_true_iff in Hem. destruct Hem as [Hg' Hem].
  apply existsb_exists in Hem. destruct Hem as (e & He & Hem).
  apply andb_true_iff in Hem. destruct Hem as [Hem Hself].
  apply andb_true_iff in Hem. destruct Hem as [Het Hmode]. apply Nat.eqb_eq in Het.
  set (x := (c, j) : node).
  assert (Hvx : valid_node cfg x = true) by (apply valid_node_lt; exact Hj).
  assert (Hhonest : honest_flag tbl t = mt_bcast mt) by (unfold honest_flag; rewrite Hmt; reflexivity).
  destruct (node_eq_dec x n) as [Exn|Hne].
  - (* own slot *)
    assert (Ec : c = fst n) by (rewrite <- Exn; reflexivity).
    assert (Ej : j = ps_idx s) by (rewrite (idx_node s n Hs), <- Exn; reflexivity).
    assert (Hcc' : cm_eqb c (fst n) = true) by (apply cm_eqb_spec; exact Ec).
    rewrite Hcc' in Hself. cbn [negb orb] in Hself. apply orb_true_iff in Hself. destruct Hself as [Hbit|Hss].
    + exfalso. apply andb_true_iff in Hbit. destruct Hbit as [Hb1 Hb2].
      unfold start_ok in Hso. cbv zeta in Hso. rewrite Hg, Hb1 in Hso.
      destruct (st_self_ok (r_start rr)) as [c'|]; [|discriminate]. apply cm_eqb_spec in Hb2. subst c'.
      rewrite Hcc, Ej, Nat.eqb_refl in Hso. cbn [andb] in Hso. rewrite !orb_true_r in Hso. discriminate.
    + pose proof (node_SelfSt g Hr n Hv k' r' e Hnth') as HSS. fold s in HSS.
      pose proof (node_rows g Hr n Hv t mt Hmt) as Hrows. fold s in Hrows.
      rewrite Ej, <- Het. apply HSS; auto.
      * lia.
      * rewrite (holds_node _ s n Hs), <- Ec. exact Hg'.
      * rewrite Het, Hrows, Hfrom, (csize_node s n c Hs), <- Ej. exact Hj.
  - (* another node's slot *)
    pose proof (node_static g Hr x Hvx) as Hsx.
    assert (Hemx : In (EvEmit (em_type e) (em_mode e)) (g_events g x)).
    { apply (round_implies_emitted g Hr x Hvx k' r' e); auto.
      - specialize (Hall x Hvx). lia.
      - rewrite (holds_node _ _ x Hsx). exact Hg'. }
    rewrite Het in Hemx.
    assert (Hrec : In n (recipients tbl cfg x t (em_mode e))).
    { destruct (em_mode e) as [|to skip].
      - apply (in_recipients_bcast n x t mt); auto.
        apply existsb_exists in Hmode. destruct Hmode as (c' & Hc' & E). apply cm_eqb_spec in E. subst c'. exact Hc'.
      - apply andb_true_iff in Hmode. destruct Hmode as [Hto Hskip]. apply cm_eqb_spec in Hto. subst to.
        destruct n as [cm i]. cbn [fst] in *. apply in_recipients_p2p; auto.
        destruct skip; [right|left; reflexivity]. cbn [negb orb] in Hskip. apply cm_eqb_spec in Hskip. subst c.
        intros E. apply Hne. subst x. cbn [snd] in E. rewrite Hskip, E. reflexivity. }
    pose proof (Hq x t (em_mode e) n Hvx Hemx Hrec) as Hst. unfold x in Hst. cbn [snd] in Hst. fold s in Hst.
    destruct (store_get s t j) as [f|] eqn:Hget; [|congruence].
    destruct (stored_implies_emitted W6 g Hr n t j f mt Hv Hmt ltac:(rewrite Hfrom; exact Hne) Hget) as [Hf _].
    rewrite Hf, Hhonest. reflexivity.
Qed.

(** ** Theorem 4 (no deadlock): in a reachable state in which every node has started, the network has
    nothing left to deliver (every message sent is in every recipient's store) and every node is
    settled (BaseUpdate has run to completion: true after any accepted delivery, see
    [node_settled_or_fresh]), every node has finished. *)
Theorem no_deadlock : wf_selfstore_from = true -> live_table = true ->
  forall g, reachable tbl cfg g -> all_started cfg g -> quiescent tbl cfg g ->
  (forall n, valid_node cfg n = true -> settled tbl (g_state g n)) ->
  all_finished tbl cfg g.
Proof.
  intros W6 W7 g Hr Hst Hq Hset.
  assert (H : forall r, r <= S (length (t_rounds tbl)) -> forall x, valid_node cfg x = true -> r <= ps_round (g_state g x)).
  { induction r as [|r IH]; intros Hle x Hvx; [lia|].
    destruct r as [|k]; [specialize (Hst x Hvx); lia|].
    assert (IH' : forall x, valid_node cfg x = true -> S k <= ps_round (g_state g x)) by (apply IH; lia).
    specialize (IH' x Hvx) as Hx.
    destruct (Nat.eq_dec (ps_round (g_state g x)) (S k)) as [E|E]; [exfalso|lia].
    destruct (nth_error (t_rounds tbl) k) as [rr|] eqn:Hnth.
    2:{ apply nth_error_None in Hnth. lia. }
    assert (Hcur : cur_round tbl (g_state g x) = Some rr) by (unfold cur_round; rewrite E; exact Hnth).
    pose proof (Hset x Hvx) as Hsx. unfold settled in Hsx. rewrite Hcur in Hsx. destruct Hsx as [Hu Hc].
    destruct (can_proceed_false _ Hc) as (c & j & Hj & Hn).
    pose proof (node_Inv g Hr x Hvx) as HI.
    assert (Hw : In (c, j) (waiting (g_state g x))) by (apply In_waiting; auto).
    apply (waiting_exact tbl W (g_state g x) rr c j HI (Hset x Hvx) Hcur) in Hw. destruct Hw as (Hj' & H1 & H2).
    destruct (live_complete W6 W7 g Hr Hq k rr Hnth (fun y Hy => IH ltac:(lia) y Hy) x Hvx E c j Hj'); congruence. }
  intros n Hv. unfold finished. apply Nat.ltb_lt. specialize (H _ (le_n _) n Hv). lia.
Qed.

(** every node is settled unless it has not yet received anything from another node *)
Lemma store_nonempty_false : forall s, store_nonempty s = false -> forall t j, store_get s t j = None.
Proof.
  intros s H t j. unfold store_get. unfold store_nonempty in H.
  destruct (nth j (nth t (ps_store s) []) None) as [f|] eqn:E; auto. exfalso.
  assert (Ht : t < length (ps_store s)).
  { destruct (lt_dec t (length (ps_store s))); auto.
    rewrite (nth_overflow (ps_store s) []) in E by lia. destruct j; discriminate. }
  assert (Hj : j < length (nth t (ps_store s) [])).
  { destruct (lt_dec j (length (nth t (ps_store s) []))); auto.
    rewrite (nth_overflow (nth t (ps_store s) []) None) in E by lia. discriminate. }
  assert (Hex : existsb (fun row => existsb (fun e : option bool => match e with Some _ => true | None => false end) row) (ps_store s) = true).
  { apply existsb_exists. exists (nth t (ps_store s) []). split; [apply nth_In; exact Ht|].
    apply existsb_exists. exists (Some f). split; auto. rewrite <- E. apply nth_In. exact Hj. }
  congruence.
Qed.

Lemma node_settled_or_fresh : forall g, reachable tbl cfg g -> forall n, valid_node cfg n = true ->
  settled tbl (g_state g n) \/
  (forall t j, foreign (g_state g n) t j -> store_get (g_state g n) t j = None).
Proof.
  intros g Hr n Hv.
  apply (reachable_local (fun _ s _ => settled tbl s \/ (forall t j, foreign s t j -> store_get s t j = None))); auto.
  - intros n0 _. left. unfold settled. cbn. exact I.
  - intros _ s _ H. destruct (ps_round s) eqn:H0.
    + destruct (store_nonempty s) eqn:Hne.
      * left. apply start_settles; auto.
      * right. intros t j Hf. rewrite start_foreign.
        -- apply store_nonempty_false. exact Hne.
        -- apply (foreign_static (fst (start tbl s))); auto. apply start_static.
    + assert (E : start tbl s = (s, [])) by (unfold start; rewrite H0; reflexivity). rewrite E. exact H.
  - intros _ s _ ty from H. destruct (validate tbl s ty from) eqn:Hval.
    + left. apply deliver_settles; auto.
    + unfold deliver. rewrite Hval. exact H.
Qed.

(** the same with the settledness hypothesis replaced by: every node has received something *)
Corollary no_deadlock_received : wf_selfstore_from = true -> live_table = true ->
  forall g, reachable tbl cfg g -> all_started cfg g -> quiescent tbl cfg g ->
  (forall n, valid_node cfg n = true ->
     exists t j mt, nth_error (t_types tbl) t = Some mt /\ (mt_from mt, j) <> n /\ store_get (g_state g n) t j <> None) ->
  all_finished tbl cfg g.
Proof.
  intros W6 W7 g Hr Hst Hq Hrec. apply no_deadlock; auto. intros n Hv.
  destruct (node_settled_or_fresh g Hr n Hv) as [H|H]; auto. exfalso.
  destruct (Hrec n Hv) as (t & j & mt & Hmt & Hne & Hget). apply Hget. apply H.
  eapply node_foreign; eauto. apply node_static; auto.
Qed.

(** building blocks for discharging the hypothesis "has received something" on concrete tables *)
Lemma settled_of_received : wf_selfstore_from = true ->
  forall g, reachable tbl cfg g -> forall n, valid_node cfg n = true ->
  (exists t j mt, nth_error (t_types tbl) t = Some mt /\ (mt_from mt, j) <> n /\ store_get (g_state g n) t j <> None) ->
  settled tbl (g_state g n).
Proof.
  intros W6 g Hr n Hv (t & j & mt & Hmt & Hne & Hget).
  destruct (node_settled_or_fresh g Hr n Hv) as [H|H]; auto. exfalso. apply Hget. apply H.
  eapply node_foreign; eauto. apply node_static; auto.
Qed.

Lemma received_from : forall g, reachable tbl cfg g -> quiescent tbl cfg g ->
  forall n x k r e, valid_node cfg x = true -> nth_error (t_rounds tbl) k = Some r ->
  k < ps_round (g_state g x) -> role_ok (st_guard (r_start r)) (fst x) = true -> In e (st_emits (r_start r)) ->
  In n (recipients tbl cfg x (em_type e) (em_mode e)) ->
  store_get (g_state g n) (em_type e) (snd x) <> None.
Proof.
  intros g Hr Hq n x k r e Hvx Hnth Hk Hg He Hrec.
  apply (Hq x (em_type e) (em_mode e) n Hvx); auto.
  apply (round_implies_emitted g Hr x Hvx k r e); auto.
  rewrite (holds_node _ _ x (node_static g Hr x Hvx)). exact Hg.
Qed.

(** a settled node cannot sit in a round that every node has entered, once the network is quiescent *)
Lemma round_not_stuck : wf_selfstore_from = true -> live_table = true ->
  forall g, reachable tbl cfg g -> quiescent tbl cfg g ->
  forall k, k < length (t_rounds tbl) ->
  (forall x, valid_node cfg x = true -> S k <= ps_round (g_state g x)) ->
  forall n, valid_node cfg n = true -> settled tbl (g_state g n) -> S (S k) <= ps_round (g_state g n).
Proof.
  intros W6 W7 g Hr Hq k Hk Hall n Hv Hset. specialize (Hall n Hv) as Hn.
  destruct (Nat.eq_dec (ps_round (g_state g n)) (S k)) as [E|E]; [exfalso|lia].
  destruct (nth_error (t_rounds tbl) k) as [rr|] eqn:Hnth.
  2:{ apply nth_error_None in Hnth. lia. }
  assert (Hcur : cur_round tbl (g_state g n) = Some rr) by (unfold cur_round; rewrite E; exact Hnth).
  pose proof Hset as Hsx. unfold settled in Hsx. rewrite Hcur in Hsx. destruct Hsx as [Hu Hc].
  destruct (can_proceed_false _ Hc) as (c & j & Hj & Hnj).
  pose proof (node_Inv g Hr n Hv) as HI.
  assert (Hw : In (c, j) (waiting (g_state g n))) by (apply In_waiting; auto).
  apply (waiting_exact tbl W (g_state g n) rr c j HI Hset Hcur) in Hw. destruct Hw as (Hj' & H1 & H2).
  destruct (live_complete W6 W7 g Hr Hq k rr Hnth Hall n Hv E c j Hj'); congruence.
Qed.

End Net.

(* ------------------------------------------------------------------ *)
(** * 8. The generated tables                                           *)
(* ------------------------------------------------------------------ *)

Lemma selfstore_from_single : forall nn, forallb (fun t => wf_selfstore_from t (mkCfg 0 nn)) all_tables = true.
Proof. intros nn. vm_compute. reflexivity. Qed.

Lemma selfstore_from_resharing : forall cfg,
  wf_selfstore_from table_ecdsa_resharing cfg = true /\ wf_selfstore_from table_eddsa_resharing cfg = true.
Proof. intros [[|no] nn]; vm_compute; split; reflexivity. Qed.

Lemma wf_of_all_tables : forall tbl, In tbl all_tables -> wf tbl = true.
Proof. intros tbl H. pose proof all_tables_wf as A. rewrite forallb_forall in A. auto. Qed.

(** DGRound4Message2 (type 6) resp. DGRound4Message (type 4) is the acknowledgement *)
Lemma resharing_needs_ack :
  last_round_needs_ack table_ecdsa_resharing 6 = true /\ last_round_needs_ack table_eddsa_resharing 4 = true.
Proof. vm_compute. split; reflexivity. Qed.

(** the four single-committee tables are live when there is no old committee; the two resharing tables
    are live when there is one *)
Lemma live_single : forall nn,
  live_table table_ecdsa_keygen (mkCfg 0 nn) = true /\ live_table table_ecdsa_signing (mkCfg 0 nn) = true /\
  live_table table_eddsa_keygen (mkCfg 0 nn) = true /\ live_table table_eddsa_signing (mkCfg 0 nn) = true.
Proof. intros nn. vm_compute. repeat split; reflexivity. Qed.

Lemma live_resharing : forall no nn,
  live_table table_ecdsa_resharing (mkCfg (S no) nn) = true /\ live_table table_eddsa_resharing (mkCfg (S no) nn) = true.
Proof. intros no nn. vm_compute. split; reflexivity. Qed.

Section Resharing.
Variable cfg : netcfg.

(** ** Theorem 3 (C04), ECDSA resharing: if any node, old or new, is in round 5 (where an old member
    erases its share, a new member saves its key data and [EvEnd] is emitted), every member of the new
    committee has entered round 4 and has broadcast its acknowledgement DGRound4Message2. *)
Theorem erase_last_ecdsa : forall g, reachable table_ecdsa_resharing cfg g ->
  forall n, valid_node cfg n = true -> 5 <= ps_round (g_state g n) ->
  forall j, j < nc_nnew cfg ->
    4 <= ps_round (g_state g (New, j)) /\ In (EvEmit 6 EBroadcast) (g_events g (New, j)).
Proof.
  intros g Hr n Hv H5 j Hj.
  pose proof (wf_of_all_tables table_ecdsa_resharing ltac:(cbn; auto)) as W.
  destruct (selfstore_from_resharing cfg) as [W6 _].
  destruct resharing_needs_ack as [HA _].
  pose proof (erase_last_gen _ cfg W W6 6 HA g Hr n Hv H5 j Hj) as H4. change (length (t_rounds table_ecdsa_resharing) - 1) with 4 in H4.
  split; auto.
  assert (Hvj : valid_node cfg (New, j) = true) by (apply valid_node_lt; exact Hj).
  eapply (round_implies_emitted _ cfg g Hr (New, j) Hvj 3 _ (mkEmit 6 EBroadcast true)).
  - reflexivity.
  - lia.
  - rewrite (holds_node _ cfg _ _ (New, j) (node_static _ cfg g Hr _ Hvj)). reflexivity.
  - cbn. auto.
Qed.

(** the same for EdDSA resharing; the acknowledgement is DGRound4Message *)
Theorem erase_last_eddsa : forall g, reachable table_eddsa_resharing cfg g ->
  forall n, valid_node cfg n = true -> 5 <= ps_round (g_state g n) ->
  forall j, j < nc_nnew cfg ->
    4 <= ps_round (g_state g (New, j)) /\ In (EvEmit 4 EBroadcast) (g_events g (New, j)).
Proof.
  intros g Hr n Hv H5 j Hj.
  pose proof (wf_of_all_tables table_eddsa_resharing ltac:(cbn; auto 10)) as W.
  destruct (selfstore_from_resharing cfg) as [_ W6].
  destruct resharing_needs_ack as [_ HA].
  pose proof (erase_last_gen _ cfg W W6 4 HA g Hr n Hv H5 j Hj) as H4. change (length (t_rounds table_eddsa_resharing) - 1) with 4 in H4.
  split; auto.
  assert (Hvj : valid_node cfg (New, j) = true) by (apply valid_node_lt; exact Hj).
  eapply (round_implies_emitted _ cfg g Hr (New, j) Hvj 3 _ (mkEmit 4 EBroadcast true)).
  - reflexivity.
  - lia.
  - rewrite (holds_node _ cfg _ _ (New, j) (node_static _ cfg g Hr _ Hvj)). reflexivity.
  - cbn. auto.
Qed.

(** ** Corollary (every prefix of every schedule, every crash point): while some new member has not
    entered round 4, no node is in round 5 and no node has signalled the end: every old share is intact *)
Corollary cut_keeps_old_keys : forall tbl, tbl = table_ecdsa_resharing \/ tbl = table_eddsa_resharing ->
  forall g, reachable tbl cfg g ->
  forall j, j < nc_nnew cfg -> ps_round (g_state g (New, j)) < 4 ->
  forall n, valid_node cfg n = true -> ps_round (g_state g n) < 5 /\ ~ In EvEnd (g_events g n).
Proof.
  intros tbl [-> | ->] g Hr j Hj Hlt n Hv.
  - pose proof (wf_of_all_tables table_ecdsa_resharing ltac:(cbn; auto)) as W.
    destruct (selfstore_from_resharing cfg) as [W6 _].
    destruct resharing_needs_ack as [HA _].
    apply (cut_keeps_old_keys_gen _ cfg W W6 6 HA g Hr j Hj Hlt n Hv).
  - pose proof (wf_of_all_tables table_eddsa_resharing ltac:(cbn; auto 10)) as W.
    destruct (selfstore_from_resharing cfg) as [_ W6].
    destruct resharing_needs_ack as [_ HA].
    apply (cut_keeps_old_keys_gen _ cfg W W6 4 HA g Hr j Hj Hlt n Hv).
Qed.

End Resharing.

(** ** Theorem 4 (C07) for the generated tables *)
Theorem no_deadlock_single : forall tbl,
  In tbl [table_ecdsa_keygen; table_ecdsa_signing; table_eddsa_keygen; table_eddsa_signing] ->
  forall nn g, let cfg := mkCfg 0 nn in
  reachable tbl cfg g -> all_started cfg g -> quiescent tbl cfg g ->
  (forall n, valid_node cfg n = true -> settled tbl (g_state g n)) ->
  all_finished tbl cfg g.
Proof.
  intros tbl Hin nn g cfg Hr Hst Hq Hset.
  assert (Hall : In tbl all_tables) by (cbn in Hin |- *; intuition).
  pose proof (wf_of_all_tables tbl Hall) as W.
  assert (W6 : wf_selfstore_from tbl cfg = true).
  { pose proof (selfstore_from_single nn) as A. rewrite forallb_forall in A. apply A. exact Hall. }
  destruct (live_single nn) as (L1 & L2 & L3 & L4).
  apply (no_deadlock tbl cfg W W6); auto.
  cbn in Hin. destruct Hin as [<-|[<-|[<-|[<-|[]]]]]; assumption.
Qed.

Theorem no_deadlock_resharing : forall tbl, tbl = table_ecdsa_resharing \/ tbl = table_eddsa_resharing ->
  forall no nn g, let cfg := mkCfg (S no) nn in
  reachable tbl cfg g -> all_started cfg g -> quiescent tbl cfg g ->
  (forall n, valid_node cfg n = true -> settled tbl (g_state g n)) ->
  all_finished tbl cfg g.
Proof.
  intros tbl Hin no nn g cfg Hr Hst Hq Hset.
  assert (Hall : In tbl all_tables) by (cbn; destruct Hin as [-> | ->]; auto 10).
  pose proof (wf_of_all_tables tbl Hall) as W.
  assert (W6 : wf_selfstore_from tbl cfg = true).
  { destruct (selfstore_from_resharing cfg) as [A B]. destruct Hin as [-> | ->]; assumption. }
  destruct (live_resharing no nn) as (L1 & L2).
  apply (no_deadlock tbl cfg W W6); auto.
  destruct Hin as [-> | ->]; assumption.
Qed.

(** with at least two parties the settledness hypothesis follows: every party has received the round-1
    broadcast of another party *)
Theorem no_deadlock_single_n2 : forall tbl,
  In tbl [table_ecdsa_keygen; table_ecdsa_signing; table_eddsa_keygen; table_eddsa_signing] ->
  forall nn g, let cfg := mkCfg 0 nn in 2 <= nn ->
  reachable tbl cfg g -> all_started cfg g -> quiescent tbl cfg g -> all_finished tbl cfg g.
Proof.
  intros tbl Hin nn g cfg Hnn Hr Hst Hq. apply no_deadlock_single; auto. intros n Hv.
  assert (Hall : In tbl all_tables) by (cbn in Hin |- *; intuition).
  pose proof (wf_of_all_tables tbl Hall) as W.
  assert (W6 : wf_selfstore_from tbl cfg = true).
  { pose proof (selfstore_from_single nn) as A. rewrite forallb_forall in A. apply A. exact Hall. }
  destruct n as [[] i]; [apply valid_node_lt in Hv; cbn in Hv; lia|].
  set (i' := if Nat.eqb i 0 then 1 else 0).
  assert (Hi' : i' <> i) by (subst i'; destruct (Nat.eqb_spec i 0); lia).
  assert (Hvx : valid_node cfg (New, i') = true).
  { apply valid_node_lt. subst i'. cbn. destruct (Nat.eqb i 0); lia. }
  assert (Hne : (New, i') <> (New, i)) by congruence.
  assert (Hx : 0 < ps_round (g_state g (New, i'))) by (specialize (Hst _ Hvx); lia).
  apply (settled_of_received tbl cfg W W6 g Hr (New, i) Hv).
  assert (Hrec : forall t mt, nth_error (t_types tbl) t = Some mt -> mt_from mt = New ->
            In (New, i) (recipients tbl cfg (New, i') t EBroadcast)).
  { intros t mt Hmt _. apply (in_recipients_bcast tbl cfg (New, i) (New, i') t mt); auto. left. reflexivity. }
  cbn in Hin. destruct Hin as [<-|[<-|[<-|[<-|[]]]]].
  - exists 0, i', (mkMsgType true New false false false). split; [reflexivity|split; [exact Hne|]].
    apply (received_from _ cfg g Hr Hq (New, i) (New, i') 0 _ (mkEmit 0 EBroadcast true) Hvx eq_refl Hx eq_refl);
      [cbn; auto|eapply Hrec; reflexivity].
  - exists 1, i', (mkMsgType true New false false false). split; [reflexivity|split; [exact Hne|]].
    apply (received_from _ cfg g Hr Hq (New, i) (New, i') 0 _ (mkEmit 1 EBroadcast true) Hvx eq_refl Hx eq_refl);
      [cbn; auto|eapply Hrec; reflexivity].
  - exists 0, i', (mkMsgType true New false false false). split; [reflexivity|split; [exact Hne|]].
    apply (received_from _ cfg g Hr Hq (New, i) (New, i') 0 _ (mkEmit 0 EBroadcast true) Hvx eq_refl Hx eq_refl);
      [cbn; auto|eapply Hrec; reflexivity].
  - exists 0, i', (mkMsgType true New false false false). split; [reflexivity|split; [exact Hne|]].
    apply (received_from _ cfg g Hr Hq (New, i) (New, i') 0 _ (mkEmit 0 EBroadcast true) Hvx eq_refl Hx eq_refl);
      [cbn; auto|eapply Hrec; reflexivity].
Qed.

(** resharing with non-empty committees: new members receive the round-1 broadcast of the old members,
    hence reach round 2 and send DGRound2Message(2) to the old committee *)
Theorem no_deadlock_resharing_full : forall tbl, tbl = table_ecdsa_resharing \/ tbl = table_eddsa_resharing ->
  forall no nn g, let cfg := mkCfg (S no) (S nn) in
  reachable tbl cfg g -> all_started cfg g -> quiescent tbl cfg g -> all_finished tbl cfg g.
Proof.
  intros tbl Hin no nn g cfg Hr Hst Hq. apply no_deadlock_resharing; auto.
  assert (Hall : In tbl all_tables) by (cbn; destruct Hin as [-> | ->]; auto 10).
  pose proof (wf_of_all_tables tbl Hall) as W.
  assert (W6 : wf_selfstore_from tbl cfg = true).
  { destruct (selfstore_from_resharing cfg) as [A B]. destruct Hin as [-> | ->]; assumption. }
  assert (W7 : live_table tbl cfg = true).
  { destruct (live_resharing no (S nn)) as [A B]. destruct Hin as [-> | ->]; assumption. }
  assert (Hvo : valid_node cfg (Old, 0) = true) by (apply valid_node_lt; cbn; lia).
  assert (Hvn : valid_node cfg (New, 0) = true) by (apply valid_node_lt; cbn; lia).
  assert (Ho : 0 < ps_round (g_state g (Old, 0))) by (specialize (Hst _ Hvo); lia).
  (* new members are settled *)
  assert (HsetN : forall i, valid_node cfg (New, i) = true -> settled tbl (g_state g (New, i))).
  { intros i Hv. apply (settled_of_received tbl cfg W W6 g Hr (New, i) Hv).
    exists 0, 0, (mkMsgType true Old false false false).
    assert (Hrec : In (New, i) (recipients tbl cfg (Old, 0) 0 EBroadcast)).
    { apply (in_recipients_bcast tbl cfg (New, i) (Old, 0) 0 (mkMsgType true Old false false false)); auto.
      - destruct Hin as [-> | ->]; reflexivity.
      - cbn. auto.
      - congruence. }
    destruct Hin as [-> | ->]; (split; [reflexivity|split; [cbn; congruence|]]);
      apply (received_from _ cfg g Hr Hq (New, i) (Old, 0) 0 _ (mkEmit 0 EBroadcast true) Hvo eq_refl Ho eq_refl);
      cbn; auto. }
  (* hence in round >= 2 *)
  assert (H2 : 1 < ps_round (g_state g (New, 0))).
  { apply (round_not_stuck tbl cfg W W6 W7 g Hr Hq 0); auto.
    - destruct Hin as [-> | ->]; cbn; lia.
    - intros x Hx. specialize (Hst x Hx). lia. }
  intros [[] i] Hv; [|apply HsetN; exact Hv].
  apply (settled_of_received tbl cfg W W6 g Hr (Old, i) Hv).
  destruct Hin as [-> | ->].
  - exists 2, 0, (mkMsgType true New false true false). split; [reflexivity|split; [cbn; congruence|]].
    apply (received_from _ cfg g Hr Hq (Old, i) (New, 0) 1 _ (mkEmit 2 EBroadcast true) Hvn eq_refl H2 eq_refl); [cbn; auto|].
    apply (in_recipients_bcast _ cfg (Old, i) (New, 0) 2 (mkMsgType true New false true false)); auto; [cbn; auto|congruence].
  - exists 1, 0, (mkMsgType true New false true false). split; [reflexivity|split; [cbn; congruence|]].
    apply (received_from _ cfg g Hr Hq (Old, i) (New, 0) 1 _ (mkEmit 1 EBroadcast true) Hvn eq_refl H2 eq_refl); [cbn; auto|].
    apply (in_recipients_bcast _ cfg (Old, i) (New, 0) 1 (mkMsgType true New false true false)); auto; [cbn; auto|congruence].
Qed.

(* ------------------------------------------------------------------ *)
(** * 9. Executable runs and examples                                   *)
(* ------------------------------------------------------------------ *)

Lemma run_reachable : forall tbl cfg sched g g', reachable tbl cfg g -> run tbl cfg g sched = Some g' -> reachable tbl cfg g'.
Proof.
  induction sched as [|st rest IH]; intros g g' Hr H; cbn [run] in H.
  - inversion H; subst. exact Hr.
  - destruct (enabled tbl cfg g st) eqn:He; [|discriminate]. eapply IH; [|exact H]. apply R_step; auto.
Qed.

Lemma drain_reachable : forall tbl cfg fuel g, reachable tbl cfg g -> reachable tbl cfg (drain fuel tbl cfg g).
Proof.
  induction fuel as [|k IH]; intros g Hr; cbn [drain]; auto.
  destruct (pending tbl cfg g) as [|st l]; auto. destruct (enabled tbl cfg g st) eqn:He; auto.
  apply IH. apply R_step; auto.
Qed.

(** every node calls Start() *)
Definition start_all (tbl : table) (cfg : netcfg) (g : gstate) : gstate :=
  fold_left (fun g n => apply_step tbl g (NStart n)) (all_nodes cfg) g.

Lemma start_all_reachable : forall tbl cfg g, reachable tbl cfg g -> reachable tbl cfg (start_all tbl cfg g).
Proof.
  intros tbl cfg g Hr. unfold start_all.
  assert (H : forall l, (forall n, In n l -> valid_node cfg n = true) -> forall g, reachable tbl cfg g ->
              reachable tbl cfg (fold_left (fun g n => apply_step tbl g (NStart n)) l g)).
  { induction l as [|n l IH]; intros Hl g0 Hr0; cbn [fold_left]; auto.
    apply IH; [intros; apply Hl; right; auto|]. apply R_step; auto. cbn [enabled]. apply Hl. left. reflexivity. }
  apply H; auto. intros n Hn. apply in_all_nodes. exact Hn.
Qed.

(** all nodes start, then the network delivers pending messages one at a time *)
Definition fair_run (tbl : table) (cfg : netcfg) (fuel : nat) : gstate :=
  drain fuel tbl cfg (start_all tbl cfg (ginit tbl cfg)).

Lemma fair_run_reachable : forall tbl cfg fuel, reachable tbl cfg (fair_run tbl cfg fuel).
Proof. intros. apply drain_reachable, start_all_reachable, R_init. Qed.

(** boolean forms of the observations *)
Definition quiescent_full (tbl : table) (cfg : netcfg) (g : gstate) : bool :=
  forallb (fun sender => forallb (fun ev => match ev with
     | EvEmit ty mode => forallb (fun n => match store_get (g_state g n) ty (snd sender) with Some _ => true | None => false end)
                                 (recipients tbl cfg sender ty mode)
     | EvEnd => true
     end) (g_events g sender)) (all_nodes cfg).

Lemma quiescent_full_sound : forall tbl cfg g, quiescent_full tbl cfg g = true -> quiescent tbl cfg g.
Proof.
  intros tbl cfg g H sender ty mode n Hv Hin Hrec. unfold quiescent_full in H.
  rewrite forallb_forall in H. specialize (H sender (proj2 (in_all_nodes cfg sender) Hv)).
  rewrite forallb_forall in H. specialize (H _ Hin). cbn in H.
  rewrite forallb_forall in H. specialize (H _ Hrec). destruct (store_get (g_state g n) ty (snd sender)); [discriminate|discriminate H].
Qed.

Lemma all_startedb_sound : forall cfg g, forallb (fun n => negb (Nat.eqb (ps_round (g_state g n)) 0)) (all_nodes cfg) = true ->
  all_started cfg g.
Proof.
  intros cfg g H n Hv. rewrite forallb_forall in H. specialize (H n (proj2 (in_all_nodes cfg n) Hv)).
  apply negb_true_iff in H. apply Nat.eqb_neq in H. exact H.
Qed.

Lemma all_finishedb_sound : forall tbl cfg g, all_finishedb tbl cfg g = true <-> all_finished tbl cfg g.
Proof.
  intros tbl cfg g. unfold all_finishedb, all_finished. rewrite forallb_forall. split.
  - intros H n Hv. apply H. apply in_all_nodes. exact Hv.
  - intros H n Hn. apply H. apply in_all_nodes. exact Hn.
Qed.

Lemma finished_is_settled : forall tbl s, finished tbl s = true -> settled tbl s.
Proof. intros tbl s H. apply finished_settled. apply cur_round_none. auto. Qed.

Module NetExamples.

Definition c2 := mkCfg 0 2.
Definition c3 := mkCfg 0 3.
Definition c22 := mkCfg 2 2.
Definition c23 := mkCfg 2 3.

(** full runs: EdDSA keygen and signing with 2 and 3 parties, ECDSA keygen and signing with 2 *)
Example ex_keygen_n2 : rounds_of c2 (fair_run table_eddsa_keygen c2 100) = [4; 4] /\
  all_finishedb table_eddsa_keygen c2 (fair_run table_eddsa_keygen c2 100) = true.
Proof. vm_compute. split; reflexivity. Qed.

Example ex_keygen_n3 : rounds_of c3 (fair_run table_eddsa_keygen c3 100) = [4; 4; 4] /\
  all_finishedb table_eddsa_keygen c3 (fair_run table_eddsa_keygen c3 100) = true /\
  quiescentb table_eddsa_keygen c3 (fair_run table_eddsa_keygen c3 100) = true.
Proof. vm_compute. repeat split; reflexivity. Qed.

Example ex_signing_n3 : rounds_of c3 (fair_run table_eddsa_signing c3 100) = [5; 5; 5] /\
  all_finishedb table_eddsa_signing c3 (fair_run table_eddsa_signing c3 100) = true.
Proof. vm_compute. split; reflexivity. Qed.

Example ex_ecdsa_n2 : all_finishedb table_ecdsa_keygen c2 (fair_run table_ecdsa_keygen c2 100) = true /\
  all_finishedb table_ecdsa_signing c2 (fair_run table_ecdsa_signing c2 100) = true.
Proof. vm_compute. split; reflexivity. Qed.

(** a resharing run, 2 old and 2 new members (and EdDSA with 2 old, 3 new), reaching all-finished;
    every node signals the end exactly there *)
Example ex_resharing_full :
  rounds_of c22 (fair_run table_ecdsa_resharing c22 100) = [6; 6; 6; 6] /\
  all_finishedb table_ecdsa_resharing c22 (fair_run table_ecdsa_resharing c22 100) = true /\
  forallb (fun n => has_end (g_events (fair_run table_ecdsa_resharing c22 100) n)) (all_nodes c22) = true /\
  rounds_of c23 (fair_run table_eddsa_resharing c23 100) = [6; 6; 6; 6; 6].
Proof. vm_compute. repeat split; reflexivity. Qed.

(** the same through an explicit schedule (with a duplicated delivery) and [run] *)
Example ex_run_schedule :
  match run table_eddsa_signing c2 (ginit table_eddsa_signing c2)
        [NStart (New, 0); NStart (New, 1);
         NDeliver (New, 0) 0 1 true; NDeliver (New, 1) 0 0 true; NDeliver (New, 1) 0 0 true;
         NDeliver (New, 1) 1 0 true; NDeliver (New, 0) 1 1 true;
         NDeliver (New, 0) 2 1 true; NDeliver (New, 1) 2 0 true] with
  | Some g => rounds_of c2 g = [5; 5]
  | None => False
  end.
Proof. vm_compute. reflexivity. Qed.

(** the network never invents: a delivery of a message that was not sent is not enabled *)
Example ex_not_enabled :
  run table_eddsa_signing c2 (ginit table_eddsa_signing c2) [NStart (New, 0); NDeliver (New, 0) 0 1 true] = None /\
  run table_eddsa_signing c2 (ginit table_eddsa_signing c2) [NStart (New, 1); NDeliver (New, 0) 0 1 false] = None.
Proof. vm_compute. split; reflexivity. Qed.

(** a cut run: the network stops after 10 deliveries.  Old member 0 is already in round 4, new member 0
    still in round 2: nobody is in round 5, nobody has signalled the end (hypotheses and conclusion of
    [cut_keeps_old_keys]) *)
Definition g_cut := fair_run table_ecdsa_resharing c22 10.
Example ex_cut :
  rounds_of c22 g_cut = [4; 2; 2; 3] /\
  forallb (fun n => negb (has_end (g_events g_cut n))) (all_nodes c22) = true.
Proof. vm_compute. split; reflexivity. Qed.

Example ex_cut_hyps : reachable table_ecdsa_resharing c22 g_cut /\ 0 < nc_nnew c22 /\ ps_round (g_state g_cut (New, 0)) < 4.
Proof. split; [apply fair_run_reachable|]. vm_compute. split; repeat constructor. Qed.

(** hypotheses of [erase_last_ecdsa] / [erase_last_eddsa] *)
Example ex_erase_last_hyps :
  let g := fair_run table_ecdsa_resharing c22 100 in
  reachable table_ecdsa_resharing c22 g /\ valid_node c22 (Old, 0) = true /\ 5 <= ps_round (g_state g (Old, 0)) /\ 1 < nc_nnew c22.
Proof. cbv zeta. split; [apply fair_run_reachable|]. vm_compute. repeat split; repeat constructor. Qed.

Example ex_erase_last_eddsa_hyps :
  let g := fair_run table_eddsa_resharing c23 100 in
  reachable table_eddsa_resharing c23 g /\ valid_node c23 (New, 2) = true /\ 5 <= ps_round (g_state g (New, 2)) /\ 0 < nc_nnew c23.
Proof. cbv zeta. split; [apply fair_run_reachable|]. vm_compute. repeat split; repeat constructor. Qed.

(** an intermediate state in which an old member has reached round 5 while new members are still in round 4 *)
Example ex_erase_last_mid :
  exists fuel, let g := fair_run table_ecdsa_resharing c22 fuel in
    existsb (fun n => Nat.leb 5 (ps_round (g_state g n))) (all_nodes c22) = true /\
    existsb (fun n => Nat.eqb 4 (ps_round (g_state g n))) (nodes_of c22 New) = true.
Proof. exists 23. vm_compute. split; reflexivity. Qed.

(** what the theorem does NOT give: the acknowledgement is sent on entering round 4, the new member's key
    data is saved only in round 5.  If the acknowledgements reach the old members first, both old members
    finish (shares erased, [EvEnd]) while no new member has left round 4 yet. *)
Example ex_old_finish_before_new_save :
  match run table_ecdsa_resharing c22 (fair_run table_ecdsa_resharing c22 18)
        [NDeliver (Old, 0) 6 0 true; NDeliver (Old, 0) 6 1 true; NDeliver (Old, 1) 6 0 true; NDeliver (Old, 1) 6 1 true] with
  | Some g => rounds_of c22 g = [6; 6; 4; 4] /\
              map (fun n => has_end (g_events g n)) (all_nodes c22) = [true; true; false; false]
  | None => False
  end.
Proof. vm_compute. split; reflexivity. Qed.

(** hypotheses of Theorems 1 and 2 on the cut state: old member 0 holds new member 1's round-2 broadcast *)
Example ex_stored_hyps :
  store_get (g_state g_cut (Old, 0)) 2 1 = Some true /\ nth_error (t_types table_ecdsa_resharing) 2 = Some (mkMsgType true New false true false) /\
  In (EvEmit 2 EBroadcast) (g_events g_cut (New, 1)) /\ emit_rounds table_ecdsa_resharing 2 = [2].
Proof. vm_compute. repeat split; auto. Qed.

(** hypotheses of [no_deadlock]: satisfied by the final state of a fair run *)
Example ex_no_deadlock_hyps :
  let g := fair_run table_eddsa_keygen c3 100 in
  reachable table_eddsa_keygen c3 g /\ all_started c3 g /\ quiescent table_eddsa_keygen c3 g /\
  (forall n, valid_node c3 n = true -> settled table_eddsa_keygen (g_state g n)).
Proof.
  cbv zeta. split; [apply fair_run_reachable|]. split; [apply all_startedb_sound; vm_compute; reflexivity|].
  split; [apply quiescent_full_sound; vm_compute; reflexivity|].
  intros n Hv. apply finished_is_settled.
  assert (H : all_finishedb table_eddsa_keygen c3 (fair_run table_eddsa_keygen c3 100) = true) by (vm_compute; reflexivity).
  apply all_finishedb_sound in H. apply H. exact Hv.
Qed.

Example ex_no_deadlock_resharing_hyps :
  let g := fair_run table_eddsa_resharing c23 100 in
  reachable table_eddsa_resharing c23 g /\ all_started c23 g /\ quiescent table_eddsa_resharing c23 g /\
  (forall n, valid_node c23 n = true -> settled table_eddsa_resharing (g_state g n)).
Proof.
  cbv zeta. split; [apply fair_run_reachable|]. split; [apply all_startedb_sound; vm_compute; reflexivity|].
  split; [apply quiescent_full_sound; vm_compute; reflexivity|].
  intros n Hv. apply finished_is_settled.
  assert (H : all_finishedb table_eddsa_resharing c23 (fair_run table_eddsa_resharing c23 100) = true) by (vm_compute; reflexivity).
  apply all_finishedb_sound in H. apply H. exact Hv.
Qed.

(** the settledness hypothesis of [no_deadlock] cannot be dropped: a lone party that has started has sent
    its round-1 broadcast to nobody, nothing is pending, and it sits in round 1 forever (BaseStart does not
    run Update()) *)
Example ex_settled_needed :
  let cfg := mkCfg 0 1 in let g := start_all table_eddsa_keygen cfg (ginit table_eddsa_keygen cfg) in
  reachable table_eddsa_keygen cfg g /\ all_started cfg g /\ quiescent table_eddsa_keygen cfg g /\
  ~ all_finished table_eddsa_keygen cfg g.
Proof.
  cbv zeta. split; [apply start_all_reachable, R_init|]. split; [apply all_startedb_sound; vm_compute; reflexivity|].
  split; [apply quiescent_full_sound; vm_compute; reflexivity|].
  intros H. apply all_finishedb_sound in H. vm_compute in H. discriminate.
Qed.

End NetExamples.

Print Assumptions stored_implies_emitted.
Print Assumptions emitted_implies_round.
Print Assumptions round_implies_emitted.
Print Assumptions left_round_needs.
Print Assumptions erase_last_gen.
Print Assumptions erase_last_ecdsa.
Print Assumptions erase_last_eddsa.
Print Assumptions cut_keeps_old_keys.
Print Assumptions no_deadlock.
Print Assumptions no_deadlock_received.
Print Assumptions no_deadlock_single.
Print Assumptions no_deadlock_resharing.
Print Assumptions no_deadlock_single_n2.
Print Assumptions no_deadlock_resharing_full.
