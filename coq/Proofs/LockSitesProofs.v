(* C09, static part: re-proved on every run against the lock inventory that the translator extracts from
   /repo/tss/party.go and the six local_party.go files. *)
From Coq Require Import List String Bool.
From TSS Require Import Model.Locking Gen.Locks.
Import ListNotations.

(* every access to party state in BaseStart, BaseUpdate, WaitingFor and WrapErrorLocked happens with the party mutex held,
   and the accesses that make these functions what they are were all recognised *)
Theorem entry_points_hold_the_lock : locks_ok lock_sites = true.
Proof. vm_compute. reflexivity. Qed.

(* all six UpdateFromBytes wrap a parse error through WrapErrorLocked *)
Theorem parse_errors_wrapped_under_lock : parse_wraps_ok parse_error_wraps = true.
Proof. vm_compute. reflexivity. Qed.

(* no return path of the hand-unlocking entry point keeps the mutex (a leaked lock blocks every later call for ever) *)
Theorem every_return_releases_the_lock : returns_ok lock_returns = true.
Proof. vm_compute. reflexivity. Qed.

Lemma locks_ok_all : forall l, locks_ok l = true -> forall s, In s l -> ls_locked s = true.
Proof.
  intros l H s Hin. unfold locks_ok in H. apply andb_prop in H. destruct H as [H _].
  unfold all_locked in H. rewrite forallb_forall in H. apply H. exact Hin.
Qed.

Theorem every_recorded_access_is_locked : forall s, In s lock_sites -> ls_locked s = true.
Proof. apply locks_ok_all. exact entry_points_hold_the_lock. Qed.

Print Assumptions entry_points_hold_the_lock.
Print Assumptions parse_errors_wrapped_under_lock.
Print Assumptions every_recorded_access_is_locked.
Print Assumptions every_return_releases_the_lock.
