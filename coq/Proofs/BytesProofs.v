From Coq Require Import ZArith List Lia.
From TSS Require Import Base.Outcome Base.Bytes.
Import ListNotations.
Open Scope Z_scope.

Lemma le_bytes_length n v : length (le_bytes n v) = n.
Proof. revert v; induction n as [|n IH]; intros v; cbn [le_bytes length]; [reflexivity|]. now rewrite IH. Qed.

Lemma le_bytes_bytes n v : Forall is_byte (le_bytes n v).
Proof.
  revert v; induction n as [|n IH]; intros v; cbn [le_bytes]; constructor.
  - unfold is_byte. apply Z.mod_pos_bound. lia.
  - apply IH.
Qed.

Lemma le_value_le_bytes n v :
  0 <= v < 256 ^ Z.of_nat n -> le_value (le_bytes n v) = v.
Proof.
  revert v; induction n as [|n IH]; intros v Hv.
  - cbn in *. lia.
  - cbn [le_bytes le_value].
    rewrite IH.
    + pose proof (Z.div_mod v 256). lia.
    + rewrite Nat2Z.inj_succ, Z.pow_succ_r in Hv by lia.
      split.
      * apply Z.div_pos; lia.
      * apply Z.div_lt_upper_bound; lia.
Qed.

Lemma le_bytes_inj n a b :
  0 <= a < 256 ^ Z.of_nat n -> 0 <= b < 256 ^ Z.of_nat n ->
  le_bytes n a = le_bytes n b -> a = b.
Proof.
  intros Ha Hb E. rewrite <- (le_value_le_bytes n a Ha), <- (le_value_le_bytes n b Hb). now rewrite E.
Qed.

Definition two64 : Z := 18446744073709551616.

Lemma le64_inj a b : 0 <= a < two64 -> 0 <= b < two64 -> le64 a = le64 b -> a = b.
Proof.
  intros Ha Hb. unfold le64. apply le_bytes_inj; change (256 ^ Z.of_nat 8) with two64; assumption.
Qed.

Lemma le64_length v : length (le64 v) = 8%nat.
Proof. apply le_bytes_length. Qed.

(* ---- big endian ---- *)

Lemma fold_be_acc l a :
  fold_left (fun acc b => acc * 256 + b) l a = a * 256 ^ zlength l + be_value l.
Proof.
  unfold be_value, zlength. revert a. induction l as [|x l IH]; intros a.
  - cbn. lia.
  - cbn [fold_left length]. rewrite IH. rewrite (IH (0 * 256 + x)).
    rewrite Nat2Z.inj_succ, Z.pow_succ_r by lia. ring.
Qed.

Lemma be_value_cons b l : be_value (b :: l) = b * 256 ^ zlength l + be_value l.
Proof. unfold be_value at 1. cbn [fold_left]. rewrite fold_be_acc. ring. Qed.

Lemma be_value_app l1 l2 : be_value (l1 ++ l2) = be_value l1 * 256 ^ zlength l2 + be_value l2.
Proof.
  unfold be_value at 1. rewrite fold_left_app. rewrite fold_be_acc. reflexivity.
Qed.

Lemma be_value_nil : be_value [] = 0. Proof. reflexivity. Qed.

Lemma be_value_bound l : Forall is_byte l -> 0 <= be_value l < 256 ^ zlength l.
Proof.
  induction l as [|b l IH]; intros Hl.
  - cbn. lia.
  - inversion Hl as [|? ? Hb Hl']; subst. specialize (IH Hl').
    rewrite be_value_cons. unfold zlength in *. cbn [length]. rewrite Nat2Z.inj_succ, Z.pow_succ_r by lia.
    unfold is_byte in Hb. nia.
Qed.

Lemma be_value_inj l1 l2 :
  Forall is_byte l1 -> Forall is_byte l2 -> length l1 = length l2 ->
  be_value l1 = be_value l2 -> l1 = l2.
Proof.
  revert l2; induction l1 as [|a l1 IH]; intros [|b l2] H1 H2 HL E; cbn in HL; try discriminate; [reflexivity|].
  inversion H1 as [|? ? Ha H1']; inversion H2 as [|? ? Hb H2']; subst.
  rewrite !be_value_cons in E.
  assert (HL' : length l1 = length l2) by lia.
  pose proof (be_value_bound l1 H1') as B1. pose proof (be_value_bound l2 H2') as B2.
  unfold zlength in *. rewrite HL' in *.
  set (P := 256 ^ Z.of_nat (length l2)) in *.
  assert (HP : 0 < P) by (apply Z.pow_pos_nonneg; lia).
  assert (a = b) by nia. subst b.
  f_equal. apply IH; auto. lia.
Qed.

Lemma pos_size_nat_bound p : Zpos p < 2 ^ Z.of_nat (Pos.size_nat p).
Proof.
  induction p as [p IH|p IH|]; cbn [Pos.size_nat]; rewrite ?Nat2Z.inj_succ, ?Z.pow_succ_r by lia.
  - rewrite Pos2Z.inj_xI. lia.
  - rewrite Pos2Z.inj_xO. lia.
  - cbn. lia.
Qed.

Lemma be_acc_spec fuel v acc :
  0 <= v < 2 ^ Z.of_nat fuel ->
  be_value (be_acc fuel v acc) = v * 256 ^ zlength acc + be_value acc.
Proof.
  revert v acc; induction fuel as [|k IH]; intros v acc Hv.
  - cbn in Hv. assert (v = 0) by lia. subst. cbn [be_acc]. ring.
  - cbn [be_acc]. destruct (v <=? 0) eqn:E.
    + apply Z.leb_le in E. assert (v = 0) by lia. subst. ring.
    + apply Z.leb_gt in E. rewrite IH.
      * rewrite be_value_cons. unfold zlength. cbn [length]. rewrite Nat2Z.inj_succ, Z.pow_succ_r by lia.
        pose proof (Z.div_mod v 256). nia.
      * rewrite Nat2Z.inj_succ, Z.pow_succ_r in Hv by lia. split.
        -- apply Z.div_pos; lia.
        -- apply Z.div_lt_upper_bound; lia.
Qed.

Lemma be_acc_bytes fuel v acc : Forall is_byte acc -> Forall is_byte (be_acc fuel v acc).
Proof.
  revert v acc; induction fuel as [|k IH]; intros v acc Ha; cbn [be_acc]; auto.
  destruct (v <=? 0); auto. apply IH. constructor; auto. unfold is_byte. apply Z.mod_pos_bound. lia.
Qed.

Theorem be_value_bytes_of_Z v : be_value (bytes_of_Z v) = Z.abs v.
Proof.
  unfold bytes_of_Z. rewrite be_acc_spec.
  - cbn. lia.
  - split; [lia|]. destruct (Z.abs v) eqn:E; cbn [size_nat].
    + cbn. lia.
    + apply pos_size_nat_bound.
    + lia.
Qed.

Lemma bytes_of_Z_bytes v : Forall is_byte (bytes_of_Z v).
Proof. apply be_acc_bytes. constructor. Qed.

Theorem bytes_of_Z_inj a b : 0 <= a -> 0 <= b -> bytes_of_Z a = bytes_of_Z b -> a = b.
Proof.
  intros Ha Hb E. pose proof (be_value_bytes_of_Z a) as A. pose proof (be_value_bytes_of_Z b) as B.
  rewrite E in A. lia.
Qed.

(* list helper *)
Lemma app_eq_tail_len {A} (l1 l2 m1 m2 : list A) :
  length m1 = length m2 -> l1 ++ m1 = l2 ++ m2 -> l1 = l2 /\ m1 = m2.
Proof.
  intros HL E.
  assert (HL1 : length l1 = length l2).
  { apply (f_equal (@length A)) in E. rewrite !app_length in E. lia. }
  clear HL. revert l2 HL1 E. induction l1 as [|x l1 IH]; intros [|y l2] HL1 E; cbn in *; try discriminate.
  - auto.
  - inversion E; subst. destruct (IH l2) as [E1 E2]; auto. subst. auto.
Qed.
