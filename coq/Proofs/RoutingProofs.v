(* Per-run obligations on the GENERATED tables: they are re-checked whenever the Go source changes. *)
From Coq Require Import List Bool.
From TSS Require Import Model.Engine Model.RoutingSpec Gen.Tables.
Import ListNotations.

Lemma routing_spec_ok :
  routing_matches table_ecdsa_keygen spec_ecdsa_keygen &&
  routing_matches table_ecdsa_signing spec_ecdsa_signing &&
  routing_matches table_ecdsa_resharing spec_ecdsa_resharing &&
  routing_matches table_eddsa_keygen spec_eddsa_keygen &&
  routing_matches table_eddsa_signing spec_eddsa_signing &&
  routing_matches table_eddsa_resharing spec_eddsa_resharing = true.
Proof. vm_compute. reflexivity. Qed.

Lemma emission_spec_ok :
  emits_match table_ecdsa_keygen emit_ecdsa_keygen &&
  emits_match table_ecdsa_signing emit_ecdsa_signing &&
  emits_match table_ecdsa_resharing emit_ecdsa_resharing &&
  emits_match table_eddsa_keygen emit_eddsa_keygen &&
  emits_match table_eddsa_signing emit_eddsa_signing &&
  emits_match table_eddsa_resharing emit_eddsa_resharing = true.
Proof. vm_compute. reflexivity. Qed.

Lemma last_rounds_finish : forallb last_round_finishes all_tables = true.
Proof. vm_compute. reflexivity. Qed.
