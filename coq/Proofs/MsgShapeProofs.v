(* C06, static part: re-proved on every run against what the translator extracts from /repo/*/*/messages.go. *)
From Coq Require Import List String Bool.
From TSS Require Import Model.MsgShapeSpec Gen.MsgShapes.
Import ListNotations.
Open Scope string_scope.

Theorem msg_shapes_as_specified : shapes_eqb msg_shapes expected_msg_shapes = true.
Proof. vm_compute. reflexivity. Qed.

(* in the source as it is now, every de-commitment that a round indexes directly is gated by the part count the indexing needs,
   and every proof carried as parts is gated by its exact count *)
Theorem indexed_lists_are_counted :
  forallb (has_conjunct msg_shapes) indexed_decommitments = true /\ forallb (has_conjunct msg_shapes) counted_proofs = true.
Proof. vm_compute. split; reflexivity. Qed.

Print Assumptions msg_shapes_as_specified.
Print Assumptions indexed_lists_are_counted.
