(* Proofs about Model/Paillier.v: Carmichael's theorem for N = P*Q, correctness of
   decryption, the additive homomorphisms, the MtA core, domain guards and key shape. *)
From Coq Require Import ZArith Znumtheory Zpow_facts List Lia Bool Setoid Morphisms.
From TSS Require Import Base.Outcome Base.Bytes Base.ZMod Base.GoInt Model.Framing Model.Paillier
  Proofs.BytesProofs Proofs.FermatBridge Proofs.ZModProofs.
Import ListNotations.
Open Scope Z_scope.

Definition good_key (P Q : Z) : Prop :=
  prime P /\ prime Q /\ P <> Q /\ Z.gcd (P * Q) ((P - 1) * (Q - 1)) = 1.

(* ---------- generic helpers ---------- *)

Lemma eqm_plus_mult q a c : eqm q (a + c * q) a.
Proof. unfold eqm. apply Z_mod_plus_full. Qed.

Lemma eqm_pow q a b e : 0 <= e -> eqm q a b -> eqm q (a ^ e) (b ^ e).
Proof.
  intros He Hab. revert e He. apply natlike_ind.
  - reflexivity.
  - intros e He IH. rewrite !Z.pow_succ_r by assumption. now apply eqm_mul.
Qed.

Lemma eqm_1_pow q a e : 0 <= e -> eqm q a 1 -> eqm q (a ^ e) 1.
Proof.
  intros He Ha. rewrite <- (Z.pow_1_l e He). now apply eqm_pow.
Qed.

Lemma modinv_complete g n : 0 < n -> Z.gcd g n = 1 -> exists x, modinv g n = Some x.
Proof.
  intros Hn G.
  assert (Hr : 0 <= g mod n < n) by (apply Z.mod_pos_bound; lia).
  assert (G' : Z.gcd (g mod n) n = 1).
  { rewrite Z.gcd_mod by lia. now rewrite Z.gcd_comm. }
  unfold modinv.
  pose proof (egcd_fuel_ok n (g mod n) ltac:(lia) Hn) as F.
  destruct (egcd (egcd_fuel n) (g mod n) n) as [[d u] v]. cbn [fst] in F.
  rewrite F, G'. rewrite Z.eqb_refl. eexists; reflexivity.
Qed.

Lemma divide_coprime_mult p q m : rel_prime p q -> (p | m) -> (q | m) -> (p * q | m).
Proof.
  intros R Hp [j Hj]. subst m.
  assert (D : (p | j)).
  { apply (Gauss p q j); [|exact R]. now rewrite Z.mul_comm. }
  destruct D as [i Hi]. exists i. subst j. ring.
Qed.

Lemma gcd_1_mul_l a b n : Z.gcd a n = 1 -> Z.gcd b n = 1 -> Z.gcd (a * b) n = 1.
Proof.
  intros Ha Hb. apply Zgcd_1_rel_prime. apply rel_prime_sym.
  apply rel_prime_mult; apply rel_prime_sym; now apply Zgcd_1_rel_prime.
Qed.

Lemma gcd_1_pow_l a e n : 0 <= e -> Z.gcd a n = 1 -> Z.gcd (a ^ e) n = 1.
Proof.
  intros He Ha. apply Zgcd_1_rel_prime. apply rel_prime_sym.
  apply rel_prime_Zpower_r; [assumption|]. apply rel_prime_sym. now apply Zgcd_1_rel_prime.
Qed.

Lemma gcd_1_sq_r a n : Z.gcd a n = 1 -> Z.gcd a (n * n) = 1.
Proof.
  intros Ha. apply Zgcd_1_rel_prime. apply rel_prime_mult; now apply Zgcd_1_rel_prime.
Qed.

Lemma gcd_succ_self n : Z.gcd (1 + n) n = 1.
Proof.
  apply Zgcd_1_rel_prime. apply bezout_rel_prime.
  apply (Bezout_intro _ _ _ 1 (-1)). ring.
Qed.

Lemma gcd_eqm n a b : n <> 0 -> eqm n a b -> Z.gcd a n = Z.gcd b n.
Proof.
  intros Hn E. unfold eqm in E.
  rewrite (Z.gcd_comm a), (Z.gcd_comm b).
  rewrite <- (Z.gcd_mod a n Hn), <- (Z.gcd_mod b n Hn). now rewrite E.
Qed.

(* ---------- (1 + k N)^n modulo N^2 ---------- *)

Lemma one_plus_kN_pow N k n : 0 <= n -> eqm (N * N) ((1 + k * N) ^ n) (1 + n * k * N).
Proof.
  revert n. apply natlike_ind.
  - apply eqm_of_eq. rewrite Z.pow_0_r. ring.
  - intros n Hn IH. rewrite Z.pow_succ_r by assumption. rewrite IH.
    replace ((1 + k * N) * (1 + n * k * N))
      with (1 + Z.succ n * k * N + (n * k * k) * (N * N)) by ring.
    apply eqm_plus_mult.
Qed.

Lemma gamma_pow N m : 0 < N -> 0 <= m -> ((1 + N) ^ m) mod (N * N) = (1 + m * N) mod (N * N).
Proof.
  intros _ Hm. pose proof (one_plus_kN_pow N 1 m Hm) as H.
  unfold eqm in H. replace (1 + 1 * N) with (1 + N) in H by ring.
  replace (1 + m * 1 * N) with (1 + m * N) in H by ring. exact H.
Qed.

Lemma one_plus_tN_mod N t : 1 < N -> (1 + t * N) mod (N * N) = 1 + (t mod N) * N.
Proof.
  intros HN.
  pose proof (Z.div_mod t N ltac:(lia)) as E.
  pose proof (Z.mod_pos_bound t N ltac:(lia)) as B.
  replace (1 + t * N) with (1 + (t mod N) * N + (t / N) * (N * N)).
  - rewrite Z_mod_plus_full. apply Z.mod_small. nia.
  - rewrite E at 3. ring.
Qed.

Lemma Lfun_one_plus N t : 1 < N -> Lfun ((1 + t * N) mod (N * N)) N = t mod N.
Proof.
  intros HN. rewrite one_plus_tN_mod by assumption. unfold Lfun.
  replace (1 + t mod N * N - 1) with (t mod N * N) by ring.
  apply Z.div_mul. lia.
Qed.

(* ---------- facts about a good key ---------- *)

Section GoodKey.
  Variables P Q : Z.
  Hypothesis GK : good_key P Q.

  Local Notation NN := (P * Q).
  Local Notation sk := (key_of_primes P Q).
  Local Notation lam := (skLambda (key_of_primes P Q)).

  Lemma gk_P_gt1 : 1 < P.
  Proof. destruct GK as (HP & _). now apply prime_gt_1. Qed.
  Lemma gk_Q_gt1 : 1 < Q.
  Proof. destruct GK as (_ & HQ & _). now apply prime_gt_1. Qed.
  Lemma gk_N_gt1 : 1 < NN.
  Proof. pose proof gk_P_gt1. pose proof gk_Q_gt1. nia. Qed.

  Lemma gk_g_pos : 0 < Z.gcd (P - 1) (Q - 1).
  Proof.
    pose proof gk_P_gt1 as HP. pose proof (Z.gcd_nonneg (P - 1) (Q - 1)) as G.
    destruct (Z.eq_dec (Z.gcd (P - 1) (Q - 1)) 0) as [E|E]; [|lia].
    apply Z.gcd_eq_0_l in E. lia.
  Qed.

  Lemma skN_key : skN sk = NN.
  Proof. reflexivity. Qed.

  Lemma lambda_phi : skLambda sk * Z.gcd (P - 1) (Q - 1) = skPhi sk.
  Proof.
    cbn [key_of_primes skLambda skPhi].
    pose proof gk_g_pos as Hg.
    destruct (Z.gcd_divide_l (P - 1) (Q - 1)) as [p' Hp'].
    set (g := Z.gcd (P - 1) (Q - 1)) in *.
    assert (E : (P - 1) * (Q - 1) = (p' * (Q - 1)) * g) by (rewrite Hp'; ring).
    rewrite E at 1. rewrite Z.div_mul by lia. rewrite E. ring.
  Qed.

  Lemma lambda_P : exists q', 0 <= q' /\ lam = (P - 1) * q'.
  Proof.
    pose proof gk_g_pos as Hg. pose proof gk_Q_gt1 as HQ.
    cbn [key_of_primes skLambda].
    destruct (Z.gcd_divide_r (P - 1) (Q - 1)) as [q' Hq'].
    set (g := Z.gcd (P - 1) (Q - 1)) in *.
    exists q'. split; [nia|].
    assert (E : (P - 1) * (Q - 1) = ((P - 1) * q') * g) by (rewrite Hq'; ring).
    rewrite E. apply Z.div_mul. lia.
  Qed.

  Lemma lambda_Q : exists p', 0 <= p' /\ lam = (Q - 1) * p'.
  Proof.
    pose proof gk_g_pos as Hg. pose proof gk_P_gt1 as HP.
    cbn [key_of_primes skLambda].
    destruct (Z.gcd_divide_l (P - 1) (Q - 1)) as [p' Hp'].
    set (g := Z.gcd (P - 1) (Q - 1)) in *.
    exists p'. split; [nia|].
    assert (E : (P - 1) * (Q - 1) = ((Q - 1) * p') * g) by (rewrite Hp'; ring).
    rewrite E. apply Z.div_mul. lia.
  Qed.

  Lemma lambda_pos : 0 < lam.
  Proof.
    pose proof lambda_phi as H. cbn [key_of_primes skPhi] in H.
    pose proof gk_g_pos. pose proof gk_P_gt1. pose proof gk_Q_gt1.
    assert (0 < (P - 1) * (Q - 1)) by nia. nia.
  Qed.

  Lemma lambda_coprime_N : Z.gcd lam NN = 1.
  Proof.
    destruct GK as (_ & _ & _ & G).
    apply Z.divide_1_r_nonneg; [apply Z.gcd_nonneg|].
    rewrite <- G. apply Z.gcd_greatest.
    - apply Z.gcd_divide_r.
    - apply Z.divide_trans with lam; [apply Z.gcd_divide_l|].
      exists (Z.gcd (P - 1) (Q - 1)). pose proof lambda_phi as H.
      cbn [key_of_primes skPhi] in H. rewrite <- H. ring.
  Qed.

  Lemma rel_prime_PQ : rel_prime P Q.
  Proof.
    destruct GK as (HP & HQ & Hne & _).
    apply prime_rel_prime; [assumption|].
    intros D. apply Hne. now apply prime_div_prime.
  Qed.

  Lemma unit_mod_prime_factor p x : prime p -> (p | NN) -> Z.gcd x NN = 1 -> x mod p <> 0.
  Proof.
    intros Hp Hd G E. pose proof (prime_gt_1 p Hp) as H1.
    apply Z.mod_divide in E; [|lia].
    pose proof (Z.gcd_greatest x NN p E Hd) as D. rewrite G in D.
    apply Z.divide_1_r_nonneg in D; lia.
  Qed.

  Lemma carmichael_N x : Z.gcd x NN = 1 -> (x ^ lam) mod NN = 1.
  Proof.
    intros G. destruct GK as (HP & HQ & Hne & _).
    pose proof gk_P_gt1 as P1. pose proof gk_Q_gt1 as Q1. pose proof gk_N_gt1 as N1.
    assert (DP : (P | x ^ lam - 1)).
    { destruct lambda_P as (q' & Hq' & ->).
      apply Z.mod_divide; [lia|]. apply mod_sub_0.
      rewrite Z.pow_mul_r by lia. change (eqm P ((x ^ (P - 1)) ^ q') 1).
      apply eqm_1_pow; [assumption|]. unfold eqm.
      rewrite Zfermat_little; [symmetry; apply Z.mod_small; lia|assumption|].
      apply unit_mod_prime_factor; [assumption| |assumption]. exists Q. ring. }
    assert (DQ : (Q | x ^ lam - 1)).
    { destruct lambda_Q as (p' & Hp' & ->).
      apply Z.mod_divide; [lia|]. apply mod_sub_0.
      rewrite Z.pow_mul_r by lia. change (eqm Q ((x ^ (Q - 1)) ^ p') 1).
      apply eqm_1_pow; [assumption|]. unfold eqm.
      rewrite Zfermat_little; [symmetry; apply Z.mod_small; lia|assumption|].
      apply unit_mod_prime_factor; [assumption| |assumption]. exists P. ring. }
    pose proof (divide_coprime_mult P Q _ rel_prime_PQ DP DQ) as [i Hi].
    replace (x ^ lam) with (1 + i * NN) by lia.
    rewrite Z_mod_plus_full. apply Z.mod_small. lia.
  Qed.

  Lemma carmichael_N2 x : Z.gcd x NN = 1 -> (x ^ (NN * lam)) mod (NN * NN) = 1.
  Proof.
    intros G. pose proof gk_N_gt1 as N1. pose proof lambda_pos as L.
    pose proof (carmichael_N x G) as C.
    pose proof (Z.div_mod (x ^ lam) NN ltac:(lia)) as E. rewrite C in E.
    rewrite (Z.mul_comm NN lam). rewrite Z.pow_mul_r by lia.
    set (k := x ^ lam / NN) in *.
    replace (x ^ lam) with (1 + k * NN) by lia.
    rewrite (one_plus_kN_pow NN k NN ltac:(lia)).
    replace (1 + NN * k * NN) with (1 + k * (NN * NN)) by ring.
    rewrite Z_mod_plus_full. apply Z.mod_small. nia.
  Qed.

End GoodKey.

(* ---------- ciphertext shape ---------- *)

(* c is a canonical representative of (1+N)^a * y^N modulo N^2 with y a unit modulo N *)
Definition is_enc (N a y c : Z) : Prop :=
  0 <= a /\ Z.gcd y N = 1 /\ 0 <= c < N * N /\ eqm (N * N) c ((1 + N) ^ a * y ^ N).

Lemma in_mult_group_spec n v :
  in_mult_group n v = true <-> 0 < n /\ 1 <= v < n /\ Z.gcd v n = 1.
Proof.
  unfold in_mult_group. rewrite !andb_true_iff, !Z.ltb_lt, Z.leb_le, Z.eqb_eq. tauto.
Qed.

Lemma range_guard_false c M : 0 <= c < M -> (c <? 0) || negb (c <? M) = false.
Proof.
  intros H. apply orb_false_iff. split; [apply Z.ltb_ge; lia|].
  apply negb_false_iff. apply Z.ltb_lt. lia.
Qed.

Lemma range_guard_true c M : (c <? 0) || negb (c <? M) = true <-> (c < 0 \/ M <= c).
Proof.
  rewrite orb_true_iff, negb_true_iff, Z.ltb_lt, Z.ltb_ge. tauto.
Qed.

Lemma is_enc_unit N a y c : 0 < N -> is_enc N a y c -> Z.gcd c (N * N) = 1.
Proof.
  intros HN (Ha & Gy & Hc & E).
  rewrite (gcd_eqm (N * N) c _ ltac:(nia) E).
  apply gcd_1_sq_r. apply gcd_1_mul_l.
  - apply gcd_1_pow_l; [assumption|apply gcd_succ_self].
  - apply gcd_1_pow_l; [lia|assumption].
Qed.

Lemma encrypt_ok N m x : 0 <= m < N ->
  encrypt N m x = Ok ((powmod (gamma N) m (nsquare N) * powmod x N (nsquare N)) mod nsquare N).
Proof.
  intros Hm. unfold encrypt. now rewrite range_guard_false by assumption.
Qed.

Lemma encrypt_shape N m x : 0 <= m < N -> Z.gcd x N = 1 ->
  exists c, encrypt N m x = Ok c /\ is_enc N m x c.
Proof.
  intros Hm G. rewrite encrypt_ok by assumption. eexists; split; [reflexivity|].
  assert (HN2 : 0 < N * N) by nia.
  unfold nsquare, gamma. repeat split; try lia; try assumption.
  - apply Z.mod_pos_bound; lia.
  - apply Z.mod_pos_bound; lia.
  - rewrite eqm_mod. rewrite !powmod_spec by lia. rewrite !eqm_mod.
    replace (N + 1) with (1 + N) by ring. reflexivity.
Qed.

Lemma homo_add_shape N a1 y1 c1 a2 y2 c2 : 0 < N ->
  is_enc N a1 y1 c1 -> is_enc N a2 y2 c2 ->
  exists c, homo_add N c1 c2 = Ok c /\ is_enc N (a1 + a2) (y1 * y2) c.
Proof.
  intros HN (Ha1 & G1 & Hc1 & E1) (Ha2 & G2 & Hc2 & E2).
  assert (HN2 : 0 < N * N) by nia.
  unfold homo_add, nsquare. rewrite !range_guard_false by assumption.
  eexists; split; [reflexivity|].
  split; [lia|]. split; [now apply gcd_1_mul_l|].
  split; [apply Z.mod_pos_bound; lia|].
  rewrite eqm_mod, E1, E2. apply eqm_of_eq.
  rewrite Z.pow_add_r by lia. rewrite Z.pow_mul_l. ring.
Qed.

Lemma homo_mult_shape N a y c k : 0 < N -> 0 <= k < N ->
  is_enc N a y c ->
  exists c', homo_mult N k c = Ok c' /\ is_enc N (k * a) (y ^ k) c'.
Proof.
  intros HN Hk (Ha & G & Hc & E).
  assert (HN2 : 0 < N * N) by nia.
  unfold homo_mult, nsquare. rewrite !range_guard_false by assumption.
  eexists; split; [reflexivity|].
  split; [nia|]. split; [apply gcd_1_pow_l; [lia|assumption]|].
  split; [apply powmod_range; lia|].
  rewrite powmod_spec by lia. rewrite eqm_mod.
  rewrite (eqm_pow (N * N) _ _ k ltac:(lia) E). apply eqm_of_eq.
  rewrite Z.pow_mul_l. rewrite <- !Z.pow_mul_r by lia.
  rewrite (Z.mul_comm k a), (Z.mul_comm k N). reflexivity.
Qed.

(* ---------- decryption ---------- *)

Section Crypto.
  Variables P Q : Z.
  Hypothesis GK : good_key P Q.

  Local Notation NN := (P * Q).
  Local Notation sk := (key_of_primes P Q).
  Local Notation lam := (skLambda (key_of_primes P Q)).

  Lemma Lg_value : Lfun (powmod (gamma NN) lam (nsquare NN)) NN = lam mod NN.
  Proof.
    pose proof (gk_N_gt1 P Q GK) as N1. pose proof (lambda_pos P Q GK) as L.
    unfold gamma, nsquare. rewrite powmod_spec by nia.
    replace (NN + 1) with (1 + NN) by ring.
    rewrite gamma_pow by lia. now apply Lfun_one_plus.
  Qed.

  Lemma Lg_inv : exists inv,
    modinv (Lfun (powmod (gamma NN) lam (nsquare NN)) NN) NN = Some inv /\ eqm NN (lam * inv) 1.
  Proof.
    pose proof (gk_N_gt1 P Q GK) as N1.
    rewrite Lg_value.
    destruct (modinv_complete (lam mod NN) NN ltac:(lia)) as [inv Hinv].
    { rewrite Z.gcd_mod by lia. rewrite Z.gcd_comm. now apply lambda_coprime_N. }
    exists inv. split; [assumption|].
    destruct (modinv_sound (lam mod NN) NN inv ltac:(lia) Hinv) as [S1 _].
    change (eqm NN (lam mod NN * inv) 1) in S1. now rewrite eqm_mod in S1.
  Qed.

  Lemma decrypt_shape a y c : is_enc NN a y c -> decrypt sk c = Ok (a mod NN).
  Proof.
    intros HE. pose proof (gk_N_gt1 P Q GK) as N1. pose proof (lambda_pos P Q GK) as L.
    pose proof (is_enc_unit NN a y c ltac:(lia) HE) as U.
    destruct HE as (Ha & G & Hc & E).
    assert (HN2 : 0 < NN * NN) by nia.
    destruct Lg_inv as (inv & Hinv & Einv).
    unfold decrypt. change (skN sk) with NN.
    rewrite Hinv. unfold nsquare at 1 2 3.
    rewrite range_guard_false by assumption. rewrite U. change (1 <? 1) with false. cbv iota.
    f_equal.
    assert (Ec : eqm (NN * NN) (c ^ lam) (1 + (a * lam) * NN)).
    { rewrite (eqm_pow _ _ _ lam ltac:(lia) E).
      rewrite Z.pow_mul_l. rewrite <- !Z.pow_mul_r by lia.
      assert (E1 : eqm (NN * NN) ((1 + NN) ^ (a * lam)) (1 + a * lam * NN)).
      { unfold eqm. apply gamma_pow; nia. }
      assert (E2 : eqm (NN * NN) (y ^ (NN * lam)) 1).
      { unfold eqm. rewrite (carmichael_N2 P Q GK y G). symmetry. apply Z.mod_small. lia. }
      rewrite E1, E2. apply eqm_of_eq. ring. }
    unfold nsquare. rewrite powmod_spec by lia. rewrite Ec.
    rewrite Lfun_one_plus by lia.
    change (eqm NN ((a * lam) mod NN * inv) a). rewrite eqm_mod.
    replace (a * lam * inv) with (a * (lam * inv)) by ring. rewrite Einv.
    apply eqm_of_eq. ring.
  Qed.

End Crypto.

(* ---------- main theorems ---------- *)

Theorem decrypt_encrypt : forall P Q m x,
  good_key P Q -> 0 <= m < P * Q -> in_mult_group (P * Q) x = true ->
  obind (encrypt (P * Q) m x) (decrypt (key_of_primes P Q)) = Ok m.
Proof.
  intros P Q m x GK Hm Hx. apply in_mult_group_spec in Hx. destruct Hx as (HN & Hx & G).
  destruct (encrypt_shape (P * Q) m x Hm G) as (c & Ec & Sc).
  rewrite Ec. cbn [obind]. rewrite (decrypt_shape P Q GK m x c Sc).
  f_equal. apply Z.mod_small. assumption.
Qed.

Theorem cipher_is_unit : forall P Q m x,
  good_key P Q -> 0 <= m < P * Q -> in_mult_group (P * Q) x = true ->
  exists c, encrypt (P * Q) m x = Ok c /\ 0 <= c < nsquare (P * Q) /\ Z.gcd c (nsquare (P * Q)) = 1.
Proof.
  intros P Q m x GK Hm Hx. apply in_mult_group_spec in Hx. destruct Hx as (HN & Hx & G).
  destruct (encrypt_shape (P * Q) m x Hm G) as (c & Ec & Sc).
  exists c. split; [assumption|]. unfold nsquare. split.
  - now destruct Sc as (_ & _ & Hc & _).
  - now apply (is_enc_unit (P * Q) m x c).
Qed.

Theorem homo_add_correct : forall P Q m1 m2 x1 x2,
  good_key P Q -> 0 <= m1 < P * Q -> 0 <= m2 < P * Q ->
  in_mult_group (P * Q) x1 = true -> in_mult_group (P * Q) x2 = true ->
  (c1 <- encrypt (P * Q) m1 x1 ;; c2 <- encrypt (P * Q) m2 x2 ;;
   c <- homo_add (P * Q) c1 c2 ;; decrypt (key_of_primes P Q) c) = Ok ((m1 + m2) mod (P * Q)).
Proof.
  intros P Q m1 m2 x1 x2 GK Hm1 Hm2 Hx1 Hx2.
  apply in_mult_group_spec in Hx1. destruct Hx1 as (HN & Hx1 & G1).
  apply in_mult_group_spec in Hx2. destruct Hx2 as (_ & Hx2 & G2).
  destruct (encrypt_shape (P * Q) m1 x1 Hm1 G1) as (c1 & Ec1 & Sc1).
  destruct (encrypt_shape (P * Q) m2 x2 Hm2 G2) as (c2 & Ec2 & Sc2).
  destruct (homo_add_shape (P * Q) m1 x1 c1 m2 x2 c2 HN Sc1 Sc2) as (c & Ec & Sc).
  rewrite Ec1. cbn [obind]. rewrite Ec2. cbn [obind]. rewrite Ec. cbn [obind].
  exact (decrypt_shape P Q GK _ _ c Sc).
Qed.

Theorem homo_mult_correct : forall P Q m k x,
  good_key P Q -> 0 <= m < P * Q -> 0 <= k < P * Q -> in_mult_group (P * Q) x = true ->
  (c <- encrypt (P * Q) m x ;; c' <- homo_mult (P * Q) k c ;; decrypt (key_of_primes P Q) c')
  = Ok ((k * m) mod (P * Q)).
Proof.
  intros P Q m k x GK Hm Hk Hx.
  apply in_mult_group_spec in Hx. destruct Hx as (HN & Hx & G).
  destruct (encrypt_shape (P * Q) m x Hm G) as (c & Ec & Sc).
  destruct (homo_mult_shape (P * Q) m x c k HN Hk Sc) as (c' & Ec' & Sc').
  rewrite Ec. cbn [obind]. rewrite Ec'. cbn [obind].
  exact (decrypt_shape P Q GK _ _ c' Sc').
Qed.

(* MtA core: Bob's affine operation on Alice's ciphertext, decrypted by Alice *)
Theorem mta_decrypt : forall P Q a b beta' x x',
  good_key P Q -> 0 <= a < P * Q -> 0 <= b < P * Q -> 0 <= beta' < P * Q ->
  in_mult_group (P * Q) x = true -> in_mult_group (P * Q) x' = true ->
  a * b + beta' < P * Q ->
  (cA <- encrypt (P * Q) a x ;; cB1 <- homo_mult (P * Q) b cA ;;
   cb' <- encrypt (P * Q) beta' x' ;; cB <- homo_add (P * Q) cB1 cb' ;;
   decrypt (key_of_primes P Q) cB) = Ok (a * b + beta').
Proof.
  intros P Q a b beta' x x' GK Ha Hb Hbeta Hx Hx' Hsmall.
  apply in_mult_group_spec in Hx. destruct Hx as (HN & Hx & G).
  apply in_mult_group_spec in Hx'. destruct Hx' as (_ & Hx' & G').
  destruct (encrypt_shape (P * Q) a x Ha G) as (cA & EcA & ScA).
  destruct (homo_mult_shape (P * Q) a x cA b HN Hb ScA) as (cB1 & EcB1 & ScB1).
  destruct (encrypt_shape (P * Q) beta' x' Hbeta G') as (cb' & Ecb' & Scb').
  destruct (homo_add_shape (P * Q) _ _ cB1 _ _ cb' HN ScB1 Scb') as (cB & EcB & ScB).
  rewrite EcA. cbn [obind]. rewrite EcB1. cbn [obind]. rewrite Ecb'. cbn [obind].
  rewrite EcB. cbn [obind].
  rewrite (decrypt_shape P Q GK _ _ cB ScB). f_equal.
  rewrite (Z.mul_comm b a). apply Z.mod_small. nia.
Qed.

(* the general affine version, with wrap-around *)
Theorem mta_decrypt_mod : forall P Q a b beta' x x',
  good_key P Q -> 0 <= a < P * Q -> 0 <= b < P * Q -> 0 <= beta' < P * Q ->
  in_mult_group (P * Q) x = true -> in_mult_group (P * Q) x' = true ->
  (cA <- encrypt (P * Q) a x ;; cB1 <- homo_mult (P * Q) b cA ;;
   cb' <- encrypt (P * Q) beta' x' ;; cB <- homo_add (P * Q) cB1 cb' ;;
   decrypt (key_of_primes P Q) cB) = Ok ((a * b + beta') mod (P * Q)).
Proof.
  intros P Q a b beta' x x' GK Ha Hb Hbeta Hx Hx'.
  apply in_mult_group_spec in Hx. destruct Hx as (HN & Hx & G).
  apply in_mult_group_spec in Hx'. destruct Hx' as (_ & Hx' & G').
  destruct (encrypt_shape (P * Q) a x Ha G) as (cA & EcA & ScA).
  destruct (homo_mult_shape (P * Q) a x cA b HN Hb ScA) as (cB1 & EcB1 & ScB1).
  destruct (encrypt_shape (P * Q) beta' x' Hbeta G') as (cb' & Ecb' & Scb').
  destruct (homo_add_shape (P * Q) _ _ cB1 _ _ cb' HN ScB1 Scb') as (cB & EcB & ScB).
  rewrite EcA. cbn [obind]. rewrite EcB1. cbn [obind]. rewrite Ecb'. cbn [obind].
  rewrite EcB. cbn [obind].
  rewrite (decrypt_shape P Q GK _ _ cB ScB). now rewrite (Z.mul_comm b a).
Qed.

(* ---------- domain guards ---------- *)

Theorem encrypt_domain : forall N m x, encrypt N m x = Err <-> (m < 0 \/ N <= m).
Proof.
  intros N m x. unfold encrypt. rewrite <- range_guard_true.
  destruct ((m <? 0) || negb (m <? N)); split; intros H; try reflexivity; discriminate.
Qed.

Theorem encrypt_total : forall N m x, encrypt N m x = Err \/ exists c, encrypt N m x = Ok c.
Proof.
  intros N m x. unfold encrypt. destruct ((m <? 0) || negb (m <? N)); [now left|right; eauto].
Qed.

Theorem homo_mult_domain : forall N m c,
  homo_mult N m c = Err <-> (m < 0 \/ N <= m \/ c < 0 \/ nsquare N <= c).
Proof.
  intros N m c. unfold homo_mult. cbv zeta.
  destruct (Z.ltb_spec m 0), (Z.ltb_spec m N), (Z.ltb_spec c 0), (Z.ltb_spec c (nsquare N));
    cbn [orb negb]; split; intros HH; try reflexivity; try discriminate; lia.
Qed.

Theorem homo_add_domain : forall N c1 c2,
  homo_add N c1 c2 = Err <-> (c1 < 0 \/ nsquare N <= c1 \/ c2 < 0 \/ nsquare N <= c2).
Proof.
  intros N c1 c2. unfold homo_add. cbv zeta.
  destruct (Z.ltb_spec c1 0), (Z.ltb_spec c1 (nsquare N)),
           (Z.ltb_spec c2 0), (Z.ltb_spec c2 (nsquare N));
    cbn [orb negb]; split; intros HH; try reflexivity; try discriminate; lia.
Qed.

Theorem decrypt_domain : forall sk c,
  decrypt sk c = Err <->
  (c < 0 \/ nsquare (skN sk) <= c \/ 1 < Z.gcd c (nsquare (skN sk))).
Proof.
  intros sk c. unfold decrypt. cbv zeta.
  destruct (Z.ltb_spec c 0), (Z.ltb_spec c (nsquare (skN sk))),
           (Z.ltb_spec 1 (Z.gcd c (nsquare (skN sk))));
    cbn [orb negb]; try (split; intros HH; try reflexivity; try discriminate; lia).
  destruct (modinv _ _); split; intros HH; try discriminate; lia.
Qed.

Theorem decrypt_no_panic : forall P Q c,
  good_key P Q -> decrypt (key_of_primes P Q) c <> Panic.
Proof.
  intros P Q c GK. unfold decrypt. cbv zeta.
  destruct ((c <? 0) || negb (c <? nsquare (skN (key_of_primes P Q)))); [discriminate|].
  destruct (1 <? Z.gcd c (nsquare (skN (key_of_primes P Q)))); [discriminate|].
  change (skN (key_of_primes P Q)) with (P * Q).
  destruct (Lg_inv P Q GK) as (inv & Hinv & _). rewrite Hinv. discriminate.
Qed.

(* decrypt never diverges, for any key record *)
Theorem decrypt_no_diverge : forall sk c, decrypt sk c <> Diverge.
Proof.
  intros sk c. unfold decrypt. cbv zeta.
  destruct ((c <? 0) || negb (c <? nsquare (skN sk))); [discriminate|].
  destruct (1 <? Z.gcd c (nsquare (skN sk))); [discriminate|].
  destruct (modinv _ _); discriminate.
Qed.

(* ---------- key shape ---------- *)

Theorem key_bits : forall P Q k,
  2 ^ (k - 1) + 2 ^ (k - 2) <= P < 2 ^ k ->
  2 ^ (k - 1) + 2 ^ (k - 2) <= Q < 2 ^ k ->
  2 <= k ->
  2 ^ (2 * k - 1) <= P * Q < 2 ^ (2 * k).
Proof.
  intros P Q k HP HQ Hk.
  assert (Ht : 0 < 2 ^ (k - 2)) by (apply Z.pow_pos_nonneg; lia).
  assert (E1 : 2 ^ (k - 1) = 2 * 2 ^ (k - 2)).
  { replace (k - 1) with (Z.succ (k - 2)) by lia. now rewrite Z.pow_succ_r by lia. }
  assert (E2 : 2 ^ k = 4 * 2 ^ (k - 2)).
  { replace k with (2 + (k - 2)) at 1 by lia. rewrite Z.pow_add_r by lia. reflexivity. }
  assert (E3 : 2 ^ (2 * k - 1) = 8 * (2 ^ (k - 2) * 2 ^ (k - 2))).
  { replace (2 * k - 1) with (3 + ((k - 2) + (k - 2))) by lia.
    rewrite !Z.pow_add_r by lia. reflexivity. }
  assert (E4 : 2 ^ (2 * k) = 16 * (2 ^ (k - 2) * 2 ^ (k - 2))).
  { replace (2 * k) with (4 + ((k - 2) + (k - 2))) by lia.
    rewrite !Z.pow_add_r by lia. reflexivity. }
  rewrite E1, E2 in *. rewrite E3, E4. set (t := 2 ^ (k - 2)) in *. nia.
Qed.

(* ---------- a concrete good key: the hypotheses are satisfiable ---------- *)

(* trial division: no divisor among 2 .. k+1 *)
Fixpoint no_div (k : nat) (p : Z) : bool :=
  match k with
  | O => true
  | S k' => negb (p mod (Z.of_nat k' + 2) =? 0) && no_div k' p
  end.

Definition prime_check (p : Z) : bool := (1 <? p) && no_div (Z.to_nat (p - 2)) p.

Lemma no_div_sound k p : no_div k p = true ->
  forall n, 2 <= n < Z.of_nat k + 2 -> ~ (n | p).
Proof.
  induction k as [|k IH]; intros Hk n Hn D.
  - cbn in Hn. lia.
  - cbn [no_div] in Hk. apply andb_true_iff in Hk. destruct Hk as [Hk1 Hk2].
    destruct (Z.eq_dec n (Z.of_nat k + 2)) as [->|Hne].
    + apply negb_true_iff in Hk1. apply Z.eqb_neq in Hk1. apply Hk1.
      apply Z.mod_divide; [lia|assumption].
    + apply (IH Hk2 n); [lia|assumption].
Qed.

Lemma prime_check_sound p : prime_check p = true -> prime p.
Proof.
  unfold prime_check. intros H. apply andb_true_iff in H. destruct H as [H1 H2].
  apply Z.ltb_lt in H1. apply prime_alt. split; [assumption|].
  intros n Hn. apply (no_div_sound _ p H2). rewrite Z2Nat.id by lia. lia.
Qed.

Example prime_7 : prime 7.
Proof. apply prime_check_sound. vm_compute. reflexivity. Qed.
Example prime_11 : prime 11.
Proof. apply prime_check_sound. vm_compute. reflexivity. Qed.
Example prime_23 : prime 23.
Proof. apply prime_check_sound. vm_compute. reflexivity. Qed.
Example prime_59 : prime 59.
Proof. apply prime_check_sound. vm_compute. reflexivity. Qed.

(* the two smallest safe primes above 5 *)
Example good_key_7_11 : good_key 7 11.
Proof.
  split; [exact prime_7|]. split; [exact prime_11|]. split; [lia|]. vm_compute. reflexivity.
Qed.

Example good_key_23_59 : good_key 23 59.
Proof.
  split; [exact prime_23|]. split; [exact prime_59|]. split; [lia|]. vm_compute. reflexivity.
Qed.

(* (11, 23) is NOT a good key: 11 divides 23 - 1, so gcd(N, phi) = 11 *)
Example not_good_key_11_23 : ~ good_key 11 23.
Proof. intros (_ & _ & _ & G). vm_compute in G. discriminate. Qed.

Example key_7_11 : key_of_primes 7 11 = mkSK 77 30 60 7 11.
Proof. vm_compute. reflexivity. Qed.

Example enc_dec_7_11 :
  obind (encrypt 77 42 5) (decrypt (key_of_primes 7 11)) = Ok 42.
Proof. vm_compute. reflexivity. Qed.

Example enc_dec_7_11_thm :
  obind (encrypt (7 * 11) 42 5) (decrypt (key_of_primes 7 11)) = Ok 42.
Proof. apply decrypt_encrypt; [exact good_key_7_11|lia|vm_compute; reflexivity]. Qed.

Example enc_dec_23_59 :
  obind (encrypt 1357 1000 2) (decrypt (key_of_primes 23 59)) = Ok 1000.
Proof. vm_compute. reflexivity. Qed.

Example mta_23_59 :
  (cA <- encrypt 1357 30 2 ;; cB1 <- homo_mult 1357 40 cA ;;
   cb' <- encrypt 1357 100 3 ;; cB <- homo_add 1357 cB1 cb' ;;
   decrypt (key_of_primes 23 59) cB) = Ok 1300.
Proof. vm_compute. reflexivity. Qed.

(* with the bad pair (11, 23) decryption of a fresh ciphertext panics (no inverse of L(gamma^lambda)) *)
Example bad_key_11_23_panics :
  obind (encrypt 253 42 5) (decrypt (key_of_primes 11 23)) = Panic.
Proof. vm_compute. reflexivity. Qed.

Print Assumptions decrypt_encrypt.
Print Assumptions mta_decrypt.
Print Assumptions homo_mult_correct.
