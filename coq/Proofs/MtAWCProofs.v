(* Completeness of Bob's proof WITH check (ProofBobWC), property C11, on top of
   MtAProofs.bob_complete_gen.  The elliptic-curve laws are taken in the relativised
   form [curve_laws c] of CurveLawsProofs (the unrelativised [group_laws (curve_group c)]
   is unsatisfiable, see the lemmas group_laws_unsat_edw and group_laws_unsat_toyW there). *)
From Coq Require Import ZArith Znumtheory List Lia Bool.
From TSS Require Import Base.Outcome Base.Bytes Base.ZMod Base.GoInt Model.Framing Model.Group
  Model.Curve Model.Paillier Model.Schnorr Model.MtA
  Proofs.ZModProofs Proofs.PaillierProofs Proofs.GroupProofs Proofs.CurveLawsProofs Proofs.MtAProofs.
Import ListNotations.
Open Scope Z_scope.

Section BobWC.
  Variable H : list Z -> list Z.
  Variable c : curve.
  Hypothesis CL : curve_laws c.

  Local Notation cmul := (@gmul (curve_group c)).

  (* the EC check on honest values: (s1 mod q) B = e (x B) + alpha B *)
  Lemma bob_ec_check_honest x alpha e Xp u :
    0 <= x -> 0 <= alpha -> 0 <= e ->
    ec_base_mul c x = Ok Xp -> ec_base_mul c alpha = Ok u ->
    (e * x + alpha) mod cq c <> 0 ->
    (ck c = Edw \/ (e * x) mod cq c <> 0) ->
    bob_ec_check c (Some Xp) (Some u) (e * x + alpha) e = Ok true.
  Proof.
    intros Hx Halpha He EX EU Hs1 Hex.
    pose proof (q_gt_1_c c CL) as Hq.
    pose proof (onc_base c CL) as HB.
    unfold ec_base_mul in EX, EU.
    apply ec_smul_Ok in EX. destruct EX as [EX _]. rewrite (Z.abs_eq x Hx) in EX.
    apply ec_smul_Ok in EU. destruct EU as [EU _]. rewrite (Z.abs_eq alpha Halpha) in EU.
    unfold bob_ec_check. cbv zeta.
    rewrite (proj2 (Z.eqb_neq _ 0) Hs1).
    set (s1q := (e * x + alpha) mod cq c).
    assert (Hs1q : 0 <= s1q < cq c) by (apply Z.mod_pos_bound; lia).
    assert (RG : representable (cmul s1q (base c)) = true).
    { apply (rep_gmul_B c CL). right. unfold s1q. rewrite Z.mod_mod by lia. exact Hs1. }
    unfold ec_base_mul. rewrite ec_smul_rep; rewrite (Z.abs_eq s1q) by lia; [|exact RG].
    cbn [obind].
    assert (EXe : cmul e Xp = cmul (e * x) (base c)).
    { rewrite EX. symmetry. apply (c_gmul_mul c CL). exact HB. }
    rewrite ec_smul_rep; rewrite (Z.abs_eq e He).
    2:{ rewrite EXe. apply (rep_gmul_B c CL). exact Hex. }
    cbn [obind].
    assert (ES : pt_add c (cmul e Xp) u = cmul s1q (base c)).
    { rewrite EXe, EU. rewrite <- (c_gmul_add c CL) by exact HB.
      unfold s1q. symmetry. apply (c_gmul_mod_q c CL). }
    rewrite ec_add_rep; rewrite ES; [|exact RG].
    rewrite pt_eqb_refl. reflexivity.
  Qed.

  (* C11, proof with check: honest proofs are accepted *)
  Theorem bob_complete_wc session N NTilde h1 h2 c1 c2 x y r Xp
          alpha rho sigma tau rhoPrm beta gam pf u :
    1 < N -> 0 < NTilde -> Z.gcd h1 NTilde = 1 -> Z.gcd h2 NTilde = 1 ->
    0 <= x -> 0 <= y -> Z.gcd r N = 1 ->
    Z.gcd c1 (nsquare N) = 1 ->
    eqm (nsquare N) c2 (c1 ^ x * gamma N ^ y * r ^ N) ->
    0 <= alpha -> 0 <= rho -> 0 <= sigma -> 0 <= tau -> 0 <= rhoPrm -> Z.gcd beta N = 1 -> 0 <= gam ->
    ec_base_mul c x = Ok Xp ->
    bob_prove H c session N NTilde h1 h2 c1 c2 x y r (Some Xp) alpha rho sigma tau rhoPrm beta gam
      = Ok (pf, u) ->
    let e := bob_challenge H c session
               (bob_hash_ints N (Some Xp) (Some u) c1 c2 (bZ pf) (bZPrm pf) (bT pf) (bV pf) (bW pf)) in
    cq c <= bS1 pf -> cq c <= bS2 pf -> cq c <= bT1 pf -> cq c <= bT2 pf ->
    bS1 pf <= q3 c -> bT1 pf <= q7 c ->
    bS1 pf mod cq c <> 0 ->
    (ck c = Edw \/ (e * x) mod cq c <> 0) ->
    bob_verify H c session N NTilde h1 h2 c1 c2 pf (Some u) (Some Xp) = Ok true.
  Proof.
    intros HN HNT Gh1 Gh2 Hx Hy Gr Gc1 Ec2 Halpha Hrho Hsigma Htau HrhoPrm Gbeta Hgam EX Hp
           e L1 L2 L3 L4 R1 R2 Hs1 Hex.
    pose proof (q_gt_1_c c CL) as Hq.
    assert (He : 0 <= e) by (apply bob_challenge_nonneg; lia).
    pose proof Hp as Hp'.
    unfold bob_prove in Hp'. cbv zeta in Hp'.
    destruct (ec_base_mul c alpha) as [u0| | |] eqn:EU; cbn [obind] in Hp'; try discriminate.
    injection Hp' as Epf Eu0. subst u0.
    assert (Ps1 : bS1 pf = e * x + alpha) by (now subst pf).
    clear Epf.
    apply (bob_complete_gen H c session N NTilde h1 h2 c1 c2 x y r (Some Xp)
             alpha rho sigma tau rhoPrm beta gam pf u); try assumption; try lia.
    fold e. rewrite Ps1. apply bob_ec_check_honest; try assumption.
    rewrite <- Ps1. exact Hs1.
  Qed.
End BobWC.

(* non-vacuity: the toy Weierstrass curve y^2 = x^3 + 7 over F_13 (7 points, base (7,5)),
   N = 77, NTilde = 35 *)
Definition toyHw : list Z -> list Z := fun _ => [3].
Definition toy_X : pt := Eval vm_compute in
  match ec_base_mul toyW 2 with Ok P => P | _ => None end.
Definition toy_bob_wc : bob_pf * pt := Eval vm_compute in
  match bob_prove toyHw toyW [1] 77 35 2 3 toy_c1 toy_c2 2 3 10 (Some toy_X) 20 6 7 8 9 13 40 with
  | Ok p => p | _ => (mkBob 0 0 0 0 0 0 0 0 0 0, None)
  end.

Example bob_complete_wc_toy :
  ec_base_mul toyW 2 = Ok toy_X /\
  bob_prove toyHw toyW [1] 77 35 2 3 toy_c1 toy_c2 2 3 10 (Some toy_X) 20 6 7 8 9 13 40 = Ok toy_bob_wc /\
  bob_verify toyHw toyW [1] 77 35 2 3 toy_c1 toy_c2 (fst toy_bob_wc) (Some (snd toy_bob_wc)) (Some toy_X)
    = Ok true.
Proof.
  split; [vm_compute; reflexivity|]. split; [vm_compute; reflexivity|].
  apply (bob_complete_wc toyHw toyW toyW_laws [1] 77 35 2 3 toy_c1 toy_c2 2 3 10 toy_X
           20 6 7 8 9 13 40 (fst toy_bob_wc) (snd toy_bob_wc)); try lia; try reflexivity;
    vm_compute; try congruence.
  right. congruence.
Qed.

Print Assumptions bob_complete_wc.
Print Assumptions bob_complete_wc_toy.
