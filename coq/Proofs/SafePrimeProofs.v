(* Proofs about Model/SafePrime.v: the safe-prime generator (common/safe_prime.go, one worker),
   Pocklington's criterion as the code uses it, and the pre-parameter algebra of
   ecdsa/keygen/prepare.go.  Property C19, parts B, C, D (part A: Proofs/SamplerProofs.v). *)
From Coq Require Import ZArith Znumtheory Zpow_facts List Lia Bool.
From TSS Require Import Base.Outcome Base.Bytes Base.ZMod Base.GoInt Model.SafePrime
  Proofs.BytesProofs Proofs.FermatBridge Proofs.ZModProofs Proofs.PaillierProofs Proofs.ZKModProofs
  Proofs.SamplerProofs.
Import ListNotations.
Open Scope Z_scope.
Arguments Z.pow : simpl never.
Arguments Z.mul : simpl never.
Arguments Z.add : simpl never.
Arguments Z.sub : simpl never.
Arguments Z.modulo : simpl never.
Arguments Z.div : simpl never.

(* ================================================================== *)
(* B.1  the candidate built from the bytes read                         *)
(* ================================================================== *)

Lemma byte_sweep (P : Z -> bool) :
  forallb P (map Z.of_nat (seq 0 256)) = true -> forall h, is_byte h -> P h = true.
Proof.
  intros H h Hh. unfold is_byte in Hh. rewrite forallb_forall in H. apply H.
  replace h with (Z.of_nat (Z.to_nat h)) by lia. apply in_map. apply in_seq. lia.
Qed.

Lemma lor1_sweep :
  forallb (fun x => (Z.lor x 1 =? (if Z.odd x then x else x + 1)) && (Z.lor x 1 <? 256))
          (map Z.of_nat (seq 0 256)) = true.
Proof. vm_compute. reflexivity. Qed.

Lemma lor1_byte x : is_byte x -> Z.lor x 1 = (if Z.odd x then x else x + 1) /\ is_byte (Z.lor x 1).
Proof.
  intros H. pose proof (byte_sweep _ lor1_sweep x H) as S. cbv beta in S.
  apply andb_true_iff in S. destruct S as [S1 S2]. apply Z.eqb_eq in S1. apply Z.ltb_lt in S2.
  split; [exact S1|]. unfold is_byte in *. split; [|exact S2]. rewrite S1. destruct (Z.odd x); lia.
Qed.

Definition first_byte_ok (b h : Z) : bool :=
  let x := Z.lor (Z.land h (2 ^ b - 1)) (Z.shiftl 3 (b - 2)) in (3 * 2 ^ (b - 2) <=? x) && (x <? 2 ^ b).

Lemma first_byte_sweep :
  forallb (fun b => forallb (first_byte_ok b) (map Z.of_nat (seq 0 256))) [2; 3; 4; 5; 6; 7; 8] = true.
Proof. vm_compute. reflexivity. Qed.

Lemma first_byte_range b h : 2 <= b <= 8 -> is_byte h ->
  3 * 2 ^ (b - 2) <= Z.lor (Z.land h (2 ^ b - 1)) (Z.shiftl 3 (b - 2)) < 2 ^ b.
Proof.
  intros Hb Hh. pose proof first_byte_sweep as S. rewrite forallb_forall in S.
  assert (I : In b [2; 3; 4; 5; 6; 7; 8]) by (cbn [In]; lia).
  pose proof (byte_sweep _ (S b I) h Hh) as F. unfold first_byte_ok in F. cbv zeta in F.
  apply andb_true_iff in F. destruct F as [F1 F2]. apply Z.leb_le in F1. apply Z.ltb_lt in F2. lia.
Qed.

Lemma second_byte_sweep :
  forallb (fun x => (128 <=? Z.lor x 128) && (Z.lor x 128 <? 256)) (map Z.of_nat (seq 0 256)) = true.
Proof. vm_compute. reflexivity. Qed.

Lemma second_byte_range x : is_byte x -> 128 <= Z.lor x 128 < 256.
Proof.
  intros H. pose proof (byte_sweep _ second_byte_sweep x H) as S. cbv beta in S.
  apply andb_true_iff in S. destruct S as [S1 S2]. apply Z.leb_le in S1. apply Z.ltb_lt in S2. lia.
Qed.

Lemma one_bit_sweep :
  forallb (fun h => Z.lor (Z.land h (2 ^ 1 - 1)) 1 =? 1) (map Z.of_nat (seq 0 256)) = true.
Proof. vm_compute. reflexivity. Qed.

Lemma one_bit_byte h : is_byte h -> Z.lor (Z.land h (2 ^ 1 - 1)) 1 = 1.
Proof. intros H. pose proof (byte_sweep _ one_bit_sweep h H) as S. now apply Z.eqb_eq in S. Qed.

(* the number of bits kept in the first byte, and the list whose last byte is then made odd *)
Definition mq_b (qbits : Z) : Z := if qbits mod 8 =? 0 then 8 else qbits mod 8.
Definition mq_l1 (bytes : list Z) (qbits : Z) : list Z :=
  let b := mq_b qbits in
  let b0 := Z.land (hd 0 bytes) (2 ^ b - 1) in
  if 2 <=? b then Z.lor b0 (Z.shiftl 3 (b - 2)) :: tl bytes
  else match tl bytes with
       | [] => [Z.lor b0 1]
       | b1 :: r => Z.lor b0 1 :: Z.lor b1 128 :: r
       end.

Lemma mask_q_eq bytes qbits : mask_q bytes qbits = be_value (set_last_odd (mq_l1 bytes qbits)).
Proof. reflexivity. Qed.

Lemma mq_b_spec qbits : 1 <= qbits ->
  qbits = 8 * ((qbits + 7) / 8 - 1) + mq_b qbits /\ 1 <= mq_b qbits <= 8 /\ 1 <= (qbits + 7) / 8.
Proof.
  intros H. unfold mq_b. destruct (Z.eqb_spec (qbits mod 8) 0) as [E|E]; Z.div_mod_to_equations; lia.
Qed.

Lemma pow2_split K b : 0 <= K -> 0 <= b -> 2 ^ (8 * K + b) = 256 ^ K * 2 ^ b.
Proof. intros HK Hb. rewrite Z.pow_add_r by lia. rewrite Z.pow_mul_r by lia. reflexivity. Qed.

Lemma bound_scale_lo M E B T : 0 < M -> 3 * E <= B -> 0 <= T -> 3 * (M * E) <= B * M + T.
Proof. intros. nia. Qed.
Lemma bound_scale_hi M F B T : 0 < M -> B < F -> T < M -> B * M + T < M * F.
Proof. intros. nia. Qed.

Lemma zlength_cons {A} (x : A) l : zlength (x :: l) = zlength l + 1.
Proof. unfold zlength. cbn [length]. lia. Qed.

Lemma mq_l1_spec bytes qbits :
  bytes_ok bytes -> length bytes = Z.to_nat ((qbits + 7) / 8) -> 2 <= qbits ->
  bytes_ok (mq_l1 bytes qbits) /\ mq_l1 bytes qbits <> [] /\
  3 * 2 ^ (qbits - 2) <= be_value (mq_l1 bytes qbits) < 2 ^ qbits.
Proof.
  intros B L Hq. destruct (mq_b_spec qbits ltac:(lia)) as (Eq & Hb & HK).
  unfold mq_l1. cbv zeta.
  set (b := mq_b qbits) in *. set (K := (qbits + 7) / 8) in *.
  destruct bytes as [|h t]; [cbn [length] in L; lia|].
  cbn [hd tl]. inversion B as [|h' t' Bh Bt]; subst h' t'.
  assert (Lt : zlength t = K - 1) by (unfold zlength; cbn [length] in L; lia).
  assert (E8 : 2 ^ b <= 256) by (change 256 with (2 ^ 8); apply Z.pow_le_mono_r; lia).
  destruct (Z.leb_spec 2 b) as [H2|H2].
  - (* two or more bits kept in the first byte *)
    pose proof (first_byte_range b h ltac:(lia) Bh) as F.
    set (B0 := Z.lor (Z.land h (2 ^ b - 1)) (Z.shiftl 3 (b - 2))) in *.
    assert (P2 : 0 <= 2 ^ (b - 2)) by (apply Z.pow_nonneg; lia).
    split; [constructor; [unfold is_byte; lia|exact Bt]|]. split; [discriminate|].
    rewrite be_value_cons, Lt. pose proof (be_value_bound t Bt) as Bd. rewrite Lt in Bd.
    assert (PM : 0 < 256 ^ (K - 1)) by (apply Z.pow_pos_nonneg; lia).
    assert (E1 : 2 ^ qbits = 256 ^ (K - 1) * 2 ^ b) by (rewrite <- pow2_split by lia; f_equal; lia).
    assert (E2 : 2 ^ (qbits - 2) = 256 ^ (K - 1) * 2 ^ (b - 2)) by (rewrite <- pow2_split by lia; f_equal; lia).
    rewrite E1, E2. split; [apply bound_scale_lo; lia|apply bound_scale_hi; lia].
  - (* one bit kept: the second top bit lives in the second byte *)
    assert (b = 1) as Eb by lia. rewrite Eb in *.
    rewrite (one_bit_byte h Bh).
    destruct t as [|b1 r]; [unfold zlength in Lt; cbn [length] in Lt; lia|].
    inversion Bt as [|h' t' Bb1 Br]; subst h' t'.
    pose proof (second_byte_range b1 Bb1) as S.
    split; [constructor; [unfold is_byte; lia|constructor; [unfold is_byte; lia|exact Br]]|].
    split; [discriminate|].
    rewrite !be_value_cons. rewrite zlength_cons in *.
    assert (Lr : zlength r = K - 2) by lia. rewrite Lr.
    pose proof (be_value_bound r Br) as Bd. rewrite Lr in Bd.
    assert (PM : 0 < 256 ^ (K - 2)) by (apply Z.pow_pos_nonneg; lia).
    replace (K - 2 + 1) with (Z.succ (K - 2)) by lia. rewrite Z.pow_succ_r by lia.
    assert (E1 : 2 ^ qbits = 256 ^ (K - 2) * 2 ^ 9) by (rewrite <- pow2_split by lia; f_equal; lia).
    assert (E2 : 2 ^ (qbits - 2) = 256 ^ (K - 2) * 2 ^ 7) by (rewrite <- pow2_split by lia; f_equal; lia).
    rewrite E1, E2. change (2 ^ 9) with 512. change (2 ^ 7) with 128. nia.
Qed.

Lemma set_last_odd_value l : bytes_ok l -> l <> [] ->
  be_value (set_last_odd l) = (if Z.odd (be_value l) then be_value l else be_value l + 1).
Proof.
  intros B Hne. unfold set_last_odd. destruct (rev l) as [|x r] eqn:R.
  - exfalso. apply Hne. apply (f_equal (@rev Z)) in R. now rewrite rev_involutive in R.
  - assert (El : l = rev r ++ [x]).
    { apply (f_equal (@rev Z)) in R. rewrite rev_involutive in R. exact R. }
    assert (Bx : is_byte x).
    { unfold bytes_ok in B. rewrite Forall_forall in B. apply B. rewrite El. apply in_or_app. right. now left. }
    cbn [rev]. rewrite El. rewrite !be_value_app.
    assert (E1 : forall y, be_value [y] = y) by (intros y; unfold be_value; cbn [fold_left]; lia).
    rewrite !E1. change (zlength [x]) with 1. change (zlength [Z.lor x 1]) with 1. change (256 ^ 1) with 256.
    destruct (lor1_byte x Bx) as [Ex _]. rewrite Ex.
    replace (be_value (rev r) * 256 + x) with (x + 2 * (be_value (rev r) * 128)) by ring.
    rewrite Z.odd_add_mul_2. destruct (Z.odd x); ring.
Qed.

(* the candidate has exactly qbits bits, its two top bits are set, and it is odd *)
Theorem mask_q_range : forall bytes qbits,
  bytes_ok bytes -> length bytes = Z.to_nat ((qbits + 7) / 8) -> 2 <= qbits ->
  3 * 2 ^ (qbits - 2) <= mask_q bytes qbits < 2 ^ qbits /\ Z.odd (mask_q bytes qbits) = true.
Proof.
  intros bytes qbits B L Hq. rewrite mask_q_eq.
  destruct (mq_l1_spec bytes qbits B L Hq) as (B1 & Hne & Hr).
  rewrite (set_last_odd_value _ B1 Hne). set (V := be_value (mq_l1 bytes qbits)) in *.
  destruct (Z.odd V) eqn:O; [auto|].
  split.
  - assert (E : 2 ^ qbits = 2 * 2 ^ (qbits - 1)).
    { replace qbits with (Z.succ (qbits - 1)) at 1 by lia. apply Z.pow_succ_r. lia. }
    pose proof (Zmod_odd V) as M. rewrite O in M.
    pose proof (Z.div_mod V 2 ltac:(lia)) as D. lia.
  - rewrite Z.add_1_r, Z.odd_succ, <- Z.negb_odd, O. reflexivity.
Qed.

Corollary mask_q_bitlen : forall bytes qbits,
  bytes_ok bytes -> length bytes = Z.to_nat ((qbits + 7) / 8) -> 2 <= qbits ->
  bitlen (mask_q bytes qbits) = qbits.
Proof.
  intros bytes qbits B L Hq. destruct (mask_q_range bytes qbits B L Hq) as [[R1 R2] _].
  apply bitlen_unique; [lia|]. split; [|exact R2].
  assert (E : 2 ^ (qbits - 1) = 2 * 2 ^ (qbits - 2)).
  { replace (qbits - 1) with (Z.succ (qbits - 2)) by lia. apply Z.pow_succ_r. lia. }
  assert (0 <= 2 ^ (qbits - 2)) by (apply Z.pow_nonneg; lia). lia.
Qed.

(* ================================================================== *)
(* B.2  the sieve loop                                                  *)
(* ================================================================== *)

Lemma loop_pow2_inv {S R} (I : S -> Prop) (Q : R -> Prop) (step : S -> S + R) :
  (forall s, I s -> match step s with inl s' => I s' | inr r => Q r end) ->
  forall n s, I s -> match loop_pow2 n step s with inl s' => I s' | inr r => Q r end.
Proof.
  intros Hstep. induction n as [|n IH]; intros s Hs; cbn [loop_pow2]; [now apply Hstep|].
  pose proof (IH s Hs) as H1. destruct (loop_pow2 n step s) as [s'|r]; [|exact H1].
  now apply IH.
Qed.

(* q never decreases along the sieve, delta advances by 2, a result has p = 2q+1 with q <> 1 mod 3 *)
Theorem sieve_step_mono : forall qbits md delta q p, 0 <= delta ->
  match sieve_step qbits md (delta, q, p) with
  | inl (delta', q', _) => delta' = delta + 2 /\ q <= q' <= q + delta
  | inr (q', p') => q <= q' <= q + delta /\ p' = 2 * q' + 1 /\ q' mod 3 <> 1 /\ is_prime_candidate p' = true
  end.
Proof.
  intros qbits md delta q p Hd. unfold sieve_step. cbv beta iota zeta.
  destruct (existsb _ small_primes); [lia|].
  destruct (Z.ltb_spec 0 delta) as [D|D].
  - destruct (Z.eqb_spec ((q + delta) mod 3) 1) as [E|E]; [lia|].
    destruct (is_prime_candidate (2 * (q + delta) + 1)) eqn:C; [repeat split; auto; lia|lia].
  - destruct (Z.eqb_spec (q mod 3) 1) as [E|E]; [lia|].
    destruct (is_prime_candidate (2 * q + 1)) eqn:C; [repeat split; auto; lia|lia].
Qed.

(* what an iteration hands to the primality tests *)
Definition sieve_result (qbits q0 pstale : Z) : Z * Z :=
  match loop_pow2 19 (sieve_step qbits (q0 mod small_primes_product)) (0, q0, pstale) with
  | inr qp => qp
  | inl (_, q1, p1) => (q1, p1)
  end.

Lemma sieve_result_mono qbits q0 ps : q0 <= fst (sieve_result qbits q0 ps).
Proof.
  unfold sieve_result.
  pose proof (loop_pow2_inv (fun st : Z * Z * Z => 0 <= fst (fst st) /\ q0 <= snd (fst st))
                            (fun qp : Z * Z => q0 <= fst qp)
                            (sieve_step qbits (q0 mod small_primes_product))) as L.
  assert (Hstep : forall s : Z * Z * Z, 0 <= fst (fst s) /\ q0 <= snd (fst s) ->
            match sieve_step qbits (q0 mod small_primes_product) s with
            | inl s' => 0 <= fst (fst s') /\ q0 <= snd (fst s')
            | inr r => q0 <= fst r
            end).
  { intros [[d q] p] [H1 H2]. cbn [fst snd] in H1, H2.
    pose proof (sieve_step_mono qbits (q0 mod small_primes_product) d q p H1) as M.
    destruct (sieve_step qbits (q0 mod small_primes_product) (d, q, p)) as [[[d' q'] p']|[q' p']]; cbn [fst snd]; lia. }
  specialize (L Hstep 19%nat (0, q0, ps)). cbn [fst snd] in L. specialize (L ltac:(lia)).
  destruct (loop_pow2 19 _ _) as [[[d' q'] p']|[q' p']]; cbn [fst snd] in *; lia.
Qed.

Section Iteration.
  Variable is_prime : Z -> bool.

  Lemma sp_iteration_unfold qbits bytes ps :
    sp_iteration is_prime qbits bytes ps =
    let '(q, p) := sieve_result qbits (mask_q bytes qbits) ps in
    if is_prime q && pocklington p && (bitlen q =? qbits)
    then (if is_prime q && (2 * q + 1 =? p) && is_prime p then (Some (q, p), 0) else (None, 0))
    else (None, p).
  Proof. unfold sp_iteration, sieve_result. cbv zeta. reflexivity. Qed.

  (* everything the three guards and Validate establish, plus q >= the masked candidate *)
  Theorem sp_iteration_spec : forall qbits bytes ps q p ps',
    sp_iteration is_prime qbits bytes ps = (Some (q, p), ps') ->
    is_prime q = true /\ is_prime p = true /\ p = 2 * q + 1 /\ bitlen q = qbits /\
    pocklington p = true /\ sgp_validate is_prime q p = true /\ ps' = 0 /\ mask_q bytes qbits <= q.
  Proof.
    intros qbits bytes ps q p ps' H. rewrite sp_iteration_unfold in H.
    pose proof (sieve_result_mono qbits (mask_q bytes qbits) ps) as M.
    destruct (sieve_result qbits (mask_q bytes qbits) ps) as [q1 p1]. cbn [fst] in M.
    destruct (is_prime q1 && pocklington p1 && (bitlen q1 =? qbits)) eqn:G1; [|discriminate].
    destruct (is_prime q1 && (2 * q1 + 1 =? p1) && is_prime p1) eqn:G2; [|discriminate].
    injection H as <- <- <-.
    apply andb_true_iff in G1. destruct G1 as [G1 Gb]. apply andb_true_iff in G1. destruct G1 as [Gq Gk].
    pose proof G2 as V.
    apply andb_true_iff in G2. destruct G2 as [G2 Gp]. apply andb_true_iff in G2. destruct G2 as [_ Ge].
    apply Z.eqb_eq in Gb. apply Z.eqb_eq in Ge. repeat split; auto.
  Qed.

  (* with well-formed input bytes: p has exactly qbits+1 bits and its two top bits are set *)
  Theorem sp_iteration_size : forall qbits bytes ps q p ps',
    bytes_ok bytes -> length bytes = Z.to_nat ((qbits + 7) / 8) -> 2 <= qbits ->
    sp_iteration is_prime qbits bytes ps = (Some (q, p), ps') ->
    3 * 2 ^ (qbits - 2) <= q < 2 ^ qbits /\ bitlen p = qbits + 1 /\ 3 * 2 ^ (qbits - 1) <= p < 2 ^ (qbits + 1).
  Proof.
    intros qbits bytes ps q p ps' B L Hq H.
    destruct (sp_iteration_spec _ _ _ _ _ _ H) as (_ & _ & Ep & Bq & _ & _ & _ & Mq).
    destruct (mask_q_range bytes qbits B L Hq) as [[R1 R2] _].
    assert (P0 : 0 < 2 ^ (qbits - 2)) by (apply Z.pow_pos_nonneg; lia).
    destruct (bitlen_pos q ltac:(lia)) as [_ Bd]. rewrite Bq in Bd.
    assert (E1 : 2 ^ (qbits - 1) = 2 * 2 ^ (qbits - 2)).
    { replace (qbits - 1) with (Z.succ (qbits - 2)) by lia. apply Z.pow_succ_r. lia. }
    assert (E2 : 2 ^ qbits = 2 * 2 ^ (qbits - 1)).
    { replace qbits with (Z.succ (qbits - 1)) at 1 by lia. apply Z.pow_succ_r. lia. }
    assert (E3 : 2 ^ (qbits + 1) = 2 * 2 ^ qbits).
    { replace (qbits + 1) with (Z.succ qbits) by lia. apply Z.pow_succ_r. lia. }
    split; [lia|]. split; [|lia].
    apply bitlen_unique; [lia|]. replace (qbits + 1 - 1) with qbits by lia. lia.
  Qed.

  (* ================================================================ *)
  (* B.3  the worker and GetRandomSafePrimesConcurrent                  *)
  (* ================================================================ *)

  Definition good_pair (pbits : Z) (qp : Z * Z) : Prop :=
    is_prime (fst qp) = true /\ is_prime (snd qp) = true /\ snd qp = 2 * fst qp + 1 /\
    bitlen (fst qp) = pbits - 1 /\ bitlen (snd qp) = pbits /\ 3 * 2 ^ (pbits - 2) <= snd qp < 2 ^ pbits.

  Lemma sp_worker_spec : forall qbits, 2 <= qbits ->
    forall fuel need s ps l, bytes_ok s ->
    sp_worker is_prime fuel qbits (Z.to_nat ((qbits + 7) / 8)) need s ps = Ok l ->
    length l = need /\ Forall (good_pair (qbits + 1)) l.
  Proof.
    intros qbits Hq. induction fuel as [|f IH]; intros need s ps l B H.
    - destruct need; cbn [sp_worker] in H; [|discriminate]. injection H as <-. split; [reflexivity|constructor].
    - destruct need as [|need']; cbn [sp_worker] in H.
      + injection H as <-. split; [reflexivity|constructor].
      + destruct (take_bytes _ s) as [[bs rest]|] eqn:T; [|discriminate].
        apply take_bytes_Some in T. destruct T as [Es Lb].
        assert (Bb : bytes_ok bs /\ bytes_ok rest).
        { subst s. unfold bytes_ok in *. now apply Forall_app in B. }
        destruct Bb as [Bb Br].
        destruct (sp_iteration is_prime qbits bs ps) as [[[q p]|] ps'] eqn:It.
        * destruct (sp_worker is_prime f qbits _ need' rest ps') as [r| | |] eqn:W; cbn [obind] in H; try discriminate.
          injection H as <-. destruct (IH _ _ _ _ Br W) as [I1 I2].
          split; [cbn [length]; now rewrite I1|]. constructor; [|exact I2].
          destruct (sp_iteration_spec _ _ _ _ _ _ It) as (S1 & S2 & S3 & S4 & _).
          destruct (sp_iteration_size _ _ _ _ _ _ Bb Lb Hq It) as (_ & Z1 & Z2).
          unfold good_pair. cbn [fst snd]. replace (qbits + 1 - 1) with qbits by lia.
          replace (qbits + 1 - 2) with (qbits - 1) by lia. repeat split; auto; lia.
        * now apply (IH _ _ _ _ Br H).
  Qed.

  Lemma sp_worker_no_panic : forall fuel qbits k need s ps, sp_worker is_prime fuel qbits k need s ps <> Panic.
  Proof.
    induction fuel as [|f IH]; intros qbits k need s ps; destruct need as [|need']; cbn [sp_worker]; try discriminate.
    destruct (take_bytes k s) as [[bs rest]|]; [|discriminate].
    destruct (sp_iteration is_prime qbits bs ps) as [[qp|] ps'].
    - specialize (IH qbits k need' rest ps').
      destruct (sp_worker is_prime f qbits k need' rest ps'); cbn [obind]; congruence.
    - apply IH.
  Qed.

  Lemma sp_worker_no_diverge : forall fuel qbits k need s ps, (0 < k)%nat -> (length s < fuel)%nat ->
    sp_worker is_prime fuel qbits k need s ps <> Diverge.
  Proof.
    induction fuel as [|f IH]; intros qbits k need s ps Hk Hf; [lia|].
    destruct need as [|need']; cbn [sp_worker]; try discriminate.
    destruct (take_bytes k s) as [[bs rest]|] eqn:T; [|discriminate].
    apply take_bytes_Some in T. destruct T as [Es Lb].
    assert (Lr : (length rest < f)%nat) by (subst s; rewrite app_length in Hf; lia).
    destruct (sp_iteration is_prime qbits bs ps) as [[qp|] ps'].
    - specialize (IH qbits k need' rest ps' Hk Lr).
      destruct (sp_worker is_prime f qbits k need' rest ps'); cbn [obind]; congruence.
    - now apply IH.
  Qed.

  Theorem safe_primes_refuses : forall s pbits num, pbits < 6 \/ num < 1 -> safe_primes is_prime s pbits num = Err.
  Proof.
    intros s pbits num H. unfold safe_primes.
    destruct (Z.ltb_spec pbits 6); [reflexivity|]. destruct (Z.ltb_spec num 1); [reflexivity|lia].
  Qed.

  Lemma safe_primes_unfold s pbits num : 6 <= pbits -> 1 <= num ->
    safe_primes is_prime s pbits num =
    sp_worker is_prime (S (length s)) (pbits - 1) (Z.to_nat ((pbits - 1 + 7) / 8)) (Z.to_nat num) s 0.
  Proof.
    intros H1 H2. unfold safe_primes.
    destruct (Z.ltb_spec pbits 6); [lia|]. destruct (Z.ltb_spec num 1); [lia|]. reflexivity.
  Qed.

  Theorem safe_primes_spec : forall s pbits num l, bytes_ok s -> safe_primes is_prime s pbits num = Ok l ->
    6 <= pbits /\ 1 <= num /\ length l = Z.to_nat num /\ Forall (good_pair pbits) l.
  Proof.
    intros s pbits num l B H.
    destruct (Z.lt_ge_cases pbits 6) as [L|L]; [rewrite safe_primes_refuses in H by lia; discriminate|].
    destruct (Z.lt_ge_cases num 1) as [N|N]; [rewrite safe_primes_refuses in H by lia; discriminate|].
    rewrite safe_primes_unfold in H by lia.
    destruct (sp_worker_spec (pbits - 1) ltac:(lia) _ _ _ _ _ B H) as [S1 S2].
    replace (pbits - 1 + 1) with pbits in S2 by lia. auto.
  Qed.

  (* never Panic, never Diverge: an error return (the reader failed / bad arguments) or the pairs *)
  Theorem safe_primes_Ok_or_Err : forall s pbits num,
    (exists l, safe_primes is_prime s pbits num = Ok l) \/ safe_primes is_prime s pbits num = Err.
  Proof.
    intros s pbits num.
    destruct (Z.lt_ge_cases pbits 6) as [L|L]; [right; apply safe_primes_refuses; lia|].
    destruct (Z.lt_ge_cases num 1) as [N|N]; [right; apply safe_primes_refuses; lia|].
    rewrite safe_primes_unfold by lia.
    assert (K : (0 < Z.to_nat ((pbits - 1 + 7) / 8))%nat).
    { assert (1 <= (pbits - 1 + 7) / 8) by (apply Z.div_le_lower_bound; lia). lia. }
    pose proof (sp_worker_no_panic (S (length s)) (pbits - 1) (Z.to_nat ((pbits - 1 + 7) / 8)) (Z.to_nat num) s 0) as NP.
    pose proof (sp_worker_no_diverge (S (length s)) (pbits - 1) _ (Z.to_nat num) s 0 K ltac:(lia)) as ND.
    destruct (sp_worker _ _ _ _ _ _ _); [left; eauto|right; reflexivity|congruence|congruence].
  Qed.
End Iteration.

(* the statement in the shape requested for C19 *)
Corollary safe_primes_pairs : forall is_prime s pbits num l,
  bytes_ok s -> safe_primes is_prime s pbits num = Ok l ->
  length l = Z.to_nat num /\
  Forall (fun qp => is_prime (fst qp) = true /\ is_prime (snd qp) = true /\ snd qp = 2 * fst qp + 1 /\
                    bitlen (snd qp) = pbits /\ 3 * 2 ^ (pbits - 2) <= snd qp) l.
Proof.
  intros is_prime s pbits num l B H.
  destruct (safe_primes_spec is_prime s pbits num l B H) as (_ & _ & H1 & H2).
  split; [exact H1|]. eapply Forall_impl; [|exact H2].
  intros qp G. unfold good_pair in G. tauto.
Qed.

(* ================================================================== *)
(* B.4  Pocklington's criterion as the code uses it                     *)
(* ================================================================== *)

Lemma exists_prime_divisor : forall n, 1 < n -> exists r, prime r /\ (r | n).
Proof.
  intros n Hn. assert (H0 : 0 <= n) by lia. revert Hn. revert n H0.
  apply (Z_lt_induction (fun n => 1 < n -> exists r, prime r /\ (r | n))).
  intros n IH Hn. destruct (prime_dec n) as [Hp|Hnp].
  - exists n. split; [exact Hp|apply Z.divide_refl].
  - destruct (not_prime_divide n Hn Hnp) as (m & Hm & Hd).
    destruct (IH m ltac:(lia) ltac:(lia)) as (r & Hr & Hrm).
    exists r. split; [exact Hr|]. eapply Z.divide_trans; eauto.
Qed.

Lemma eqm_pow_mult r a A k : 0 <= A -> 0 <= k -> eqm r (a ^ A) 1 -> eqm r (a ^ (k * A)) 1.
Proof.
  intros HA Hk E. rewrite Z.mul_comm. rewrite Z.pow_mul_r by lia. now apply eqm_1_pow.
Qed.

(* a^A = a^B = 1 and u A + v B = g >= 0 give a^g = 1, whatever the signs of u and v *)
Lemma pow_bezout_eqm r a A B u v g : 0 <= A -> 0 <= B -> 0 <= g ->
  eqm r (a ^ A) 1 -> eqm r (a ^ B) 1 -> u * A + v * B = g -> eqm r (a ^ g) 1.
Proof.
  intros HA HB Hg EA EB E.
  destruct (Z.le_gt_cases 0 u) as [Hu|Hu]; destruct (Z.le_gt_cases 0 v) as [Hv|Hv].
  - rewrite <- E. rewrite Z.pow_add_r by nia.
    rewrite (eqm_pow_mult r a A u HA Hu EA), (eqm_pow_mult r a B v HB Hv EB). reflexivity.
  - assert (E' : u * A = g + (- v) * B) by lia.
    pose proof (eqm_pow_mult r a A u HA Hu EA) as X. rewrite E' in X.
    rewrite Z.pow_add_r in X by nia.
    rewrite (eqm_pow_mult r a B (- v) HB ltac:(lia) EB) in X. rewrite Z.mul_1_r in X. exact X.
  - assert (E' : v * B = g + (- u) * A) by lia.
    pose proof (eqm_pow_mult r a B v HB Hv EB) as X. rewrite E' in X.
    rewrite Z.pow_add_r in X by nia.
    rewrite (eqm_pow_mult r a A (- u) HA ltac:(lia) EA) in X. rewrite Z.mul_1_r in X. exact X.
  - assert (G0 : g = 0) by nia. rewrite G0. reflexivity.
Qed.

(* every prime factor r of p = 2q+1 is 1 modulo q *)
Lemma pock_factor q p r : prime q -> p = 2 * q + 1 -> p mod 3 <> 0 -> (2 ^ (p - 1)) mod p = 1 ->
  prime r -> (r | p) -> (q | r - 1).
Proof.
  intros Hq Ep H3 HF Hr Hd.
  pose proof (prime_gt_1 q Hq) as Q1. pose proof (prime_gt_1 r Hr) as R1.
  assert (R2 : r <> 2).
  { intros ->. destruct Hd as [k Hk]. lia. }
  assert (T2 : 2 mod r <> 0) by (rewrite Z.mod_small; lia).
  (* 2^(2q) = 1 mod r *)
  assert (EA : eqm r (2 ^ (2 * q)) 1).
  { apply eqm_sub_0. apply eqm_0_iff. apply Z.mod_divide; [lia|].
    apply (Z.divide_trans r p); [exact Hd|].
    apply Z.mod_divide; [lia|]. apply mod_sub_0. replace (2 * q) with (p - 1) by lia.
    rewrite HF. symmetry. apply Z.mod_small. lia. }
  (* 2^(r-1) = 1 mod r *)
  assert (EB : eqm r (2 ^ (r - 1)) 1).
  { unfold eqm. rewrite (Zfermat_little r 2 Hr T2). symmetry. apply Z.mod_small. lia. }
  destruct (Zdivide_dec q (r - 1)) as [D|ND]; [exact D|exfalso].
  pose proof (prime_rel_prime q Hq (r - 1) ND) as RP.
  destruct (rel_prime_bezout _ _ RP) as [u v Huv].
  assert (E4 : eqm r (2 ^ 2) 1).
  { apply (pow_bezout_eqm r 2 (2 * q) (r - 1) u (2 * v) 2); try lia; assumption. }
  change (2 ^ 2) with 4 in E4.
  apply eqm_sub_0 in E4. apply eqm_0_iff in E4. change (4 - 1) with 3 in E4.
  apply Z.mod_divide in E4; [|lia].
  pose proof (Z.divide_pos_le r 3 ltac:(lia) E4) as Le.
  assert (r = 3) by lia. subst r.
  apply H3. apply Z.mod_divide; [lia|exact Hd].
Qed.

Theorem pocklington_sound : forall q p,
  prime q -> p = 2 * q + 1 -> p mod 3 <> 0 -> powmod 2 (p - 1) p = 1 -> prime p.
Proof.
  intros q p Hq Ep H3 HP.
  pose proof (prime_gt_1 q Hq) as Q1.
  rewrite powmod_spec in HP by lia.
  destruct (prime_dec p) as [Hp|Hnp]; [exact Hp|exfalso].
  destruct (not_prime_divide p ltac:(lia) Hnp) as (n & Hn & [m Hm]).
  assert (M1 : 1 < m) by nia.
  destruct (exists_prime_divisor n ltac:(lia)) as (r1 & P1 & D1).
  destruct (exists_prime_divisor m M1) as (r2 & P2 & D2).
  assert (Dn : (n | p)) by (exists m; exact Hm).
  assert (Dm : (m | p)) by (exists n; lia).
  pose proof (pock_factor q p r1 Hq Ep H3 HP P1 (Z.divide_trans _ _ _ D1 Dn)) as F1.
  pose proof (pock_factor q p r2 Hq Ep H3 HP P2 (Z.divide_trans _ _ _ D2 Dm)) as F2.
  pose proof (prime_gt_1 r1 P1) as G1. pose proof (prime_gt_1 r2 P2) as G2.
  pose proof (Z.divide_pos_le q (r1 - 1) ltac:(lia) F1) as L1.
  pose proof (Z.divide_pos_le q (r2 - 1) ltac:(lia) F2) as L2.
  pose proof (Z.divide_pos_le r1 n ltac:(lia) D1) as N1.
  pose proof (Z.divide_pos_le r2 m ltac:(lia) D2) as N2.
  nia.
Qed.

(* so, if the oracle is sound for q, the Pocklington test alone already proves p prime
   whenever the sieve delivered a fresh candidate (q <> 1 mod 3, i.e. 3 does not divide p) *)
Corollary pocklington_check_sound : forall q p,
  prime q -> p = 2 * q + 1 -> q mod 3 <> 1 -> pocklington p = true -> prime p.
Proof.
  intros q p Hq Ep H3 HP. unfold pocklington in HP. apply Z.eqb_eq in HP.
  apply (pocklington_sound q p Hq Ep); [|exact HP].
  subst p. Z.div_mod_to_equations. lia.
Qed.

(* ================================================================== *)
(* C.  pre-parameters                                                   *)
(* ================================================================== *)

Lemma modinv_gcd g n x : 0 < n -> modinv g n = Some x -> Z.gcd g n = 1.
Proof.
  intros Hn E. destruct (modinv_sound g n x Hn E) as [S _].
  destruct (Z.eq_dec n 1) as [->|N1]; [apply Z.gcd_1_r|].
  rewrite (Z.mod_small 1 n) in S by lia.
  apply Zgcd_1_rel_prime. apply bezout_rel_prime.
  apply (Bezout_intro g n 1 x (- (g * x / n))).
  pose proof (Z.div_mod (g * x) n ltac:(lia)) as D. lia.
Qed.

Theorem derive_preparams_None_iff : forall p q f1 alpha, 0 < p * q ->
  (derive_preparams p q f1 alpha = None <-> Z.gcd alpha (p * q) <> 1).
Proof.
  intros p q f1 alpha Hn. unfold derive_preparams. cbv zeta. split.
  - intros E G. destruct (modinv_complete alpha (p * q) Hn G) as [x Hx]. rewrite Hx in E. discriminate.
  - intros G. destruct (modinv alpha (p * q)) as [x|] eqn:E; [|reflexivity].
    exfalso. apply G. now apply (modinv_gcd alpha (p * q) x).
Qed.

(* h1^(1 + k*ord) = h1 when h1^ord = 1 *)
Lemma pow_one_plus_order N h ord k : 0 <= ord -> 0 <= k -> eqm N (h ^ ord) 1 -> eqm N (h ^ (1 + k * ord)) h.
Proof.
  intros Ho Hk E. rewrite Z.pow_add_r by nia. rewrite Z.pow_1_r.
  rewrite (eqm_pow_mult N h ord k Ho Hk E). apply eqm_of_eq. ring.
Qed.

Theorem derive_preparams_relations : forall p q f1 alpha pp,
  prime (2 * p + 1) -> prime (2 * q + 1) -> 2 * p + 1 <> 2 * q + 1 ->
  Z.gcd f1 ((2 * p + 1) * (2 * q + 1)) = 1 -> 0 <= alpha ->
  derive_preparams p q f1 alpha = Some pp ->
  let N := (2 * p + 1) * (2 * q + 1) in
  pp_ntilde pp = N /\ pp_p pp = p /\ pp_q pp = q /\ pp_alpha pp = alpha /\
  pp_h1 pp = (f1 * f1) mod N /\
  pp_h2 pp = powmod (pp_h1 pp) alpha N /\
  0 <= pp_beta pp < p * q /\
  (alpha * pp_beta pp) mod (p * q) = 1 /\
  Z.gcd (pp_h1 pp) N = 1 /\ Z.gcd (pp_h2 pp) N = 1 /\
  powmod (pp_h1 pp) (p * q) N = 1 /\
  powmod (pp_h2 pp) (pp_beta pp) N = pp_h1 pp.
Proof.
  intros p q f1 alpha pp HP HQ Hne G Ha E N.
  pose proof (prime_gt_1 _ HP) as P1. pose proof (prime_gt_1 _ HQ) as Q1.
  assert (Hp : 1 <= p) by lia. assert (Hq : 1 <= q) by lia.
  assert (Hpq : 2 <= p * q) by nia.
  assert (HN : 1 < N) by (unfold N; nia).
  unfold derive_preparams in E. cbv zeta in E. fold N in E.
  destruct (modinv alpha (p * q)) as [beta|] eqn:MI; [|discriminate].
  injection E as <-. cbn [pp_ntilde pp_h1 pp_h2 pp_alpha pp_beta pp_p pp_q].
  destruct (modinv_sound alpha (p * q) beta ltac:(lia) MI) as [S1 S2].
  rewrite (Z.mod_small 1 (p * q)) in S1 by lia.
  set (h1 := (f1 * f1) mod N) in *.
  assert (R1 : 0 <= h1 < N) by (apply Z.mod_pos_bound; lia).
  assert (G1 : Z.gcd h1 N = 1).
  { unfold h1. rewrite zk_gcd_mod by lia. now apply gcd_1_mul_l. }
  pose proof (safe_prime_product_order p q N f1 HP HQ ltac:(lia) eq_refl G) as O.
  fold h1 in O. rewrite (Z.mod_small 1 N) in O by lia.
  repeat split; auto; try lia.
  - apply zk_unit_powmod; [lia|exact Ha|exact G1].
  - (* h2^beta = h1^(alpha*beta) = h1^(1 + k pq) = h1 *)
    rewrite <- zk_powmod_mul_exp by lia.
    pose proof (Z.div_mod (alpha * beta) (p * q) ltac:(lia)) as D. rewrite S1 in D.
    set (k := alpha * beta / (p * q)) in *.
    assert (Hk : 0 <= k) by (apply Z.div_pos; nia).
    assert (EO : eqm N (h1 ^ (p * q)) 1).
    { rewrite powmod_spec in O by lia. unfold eqm. rewrite O. symmetry. apply Z.mod_small. lia. }
    rewrite powmod_spec by nia.
    replace (alpha * beta) with (1 + k * (p * q)) by lia.
    pose proof (pow_one_plus_order N h1 (p * q) k ltac:(lia) Hk EO) as X.
    unfold eqm in X. rewrite X. apply Z.mod_small. exact R1.
Qed.

(* alpha is drawn coprime to NTilde, not to p*q: ModInverse may return nil, and the nil is kept *)
Theorem draw_preparams_spec : forall s p q opp,
  draw_preparams s p q = Ok opp ->
  let nt := (2 * p + 1) * (2 * q + 1) in
  exists f1 alpha, 1 <= f1 < nt /\ Z.gcd f1 nt = 1 /\ 1 <= alpha < nt /\ Z.gcd alpha nt = 1 /\
                   opp = derive_preparams p q f1 alpha.
Proof.
  intros s p q opp E nt. unfold draw_preparams in E. cbv zeta in E. fold nt in E.
  destruct (get_random_rel_prime s nt) as [[[f1|] r1]| | |] eqn:R1; cbn [obind fst snd] in E; try discriminate.
  - destruct (get_random_rel_prime r1 nt) as [[[alpha|] r2]| | |] eqn:R2; cbn [obind fst snd] in E; try discriminate.
    injection E as <-.
    destruct (rel_prime_spec _ _ _ _ R1) as (A1 & A2 & _).
    destruct (rel_prime_spec _ _ _ _ R2) as (B1 & B2 & _).
    exists f1, alpha. auto.
  - destruct (get_random_rel_prime r1 nt) as [[[alpha|] r2]| | |]; cbn [obind fst snd] in E; discriminate.
Qed.

Theorem draw_preparams_relations : forall s p q pp,
  prime (2 * p + 1) -> prime (2 * q + 1) -> p <> q ->
  draw_preparams s p q = Ok (Some pp) ->
  let N := (2 * p + 1) * (2 * q + 1) in
  pp_ntilde pp = N /\ pp_p pp = p /\ pp_q pp = q /\
  (exists f, 1 <= f < N /\ Z.gcd f N = 1 /\ pp_h1 pp = (f * f) mod N) /\
  1 <= pp_alpha pp < N /\ Z.gcd (pp_alpha pp) N = 1 /\
  pp_h2 pp = powmod (pp_h1 pp) (pp_alpha pp) N /\
  0 <= pp_beta pp < p * q /\ (pp_alpha pp * pp_beta pp) mod (p * q) = 1 /\
  Z.gcd (pp_h1 pp) N = 1 /\ Z.gcd (pp_h2 pp) N = 1 /\
  powmod (pp_h2 pp) (pp_beta pp) N = pp_h1 pp.
Proof.
  intros s p q pp HP HQ Hne E N.
  destruct (draw_preparams_spec s p q _ E) as (f1 & alpha & F1 & F2 & A1 & A2 & D). fold N in F1, F2, A1, A2.
  symmetry in D.
  destruct (derive_preparams_relations p q f1 alpha pp HP HQ ltac:(lia) F2 ltac:(lia) D)
    as (R1 & R2 & R3 & R4 & R5 & R6 & R7 & R8 & R9 & R10 & R11 & R12).
  fold N in R1, R5, R6, R9, R10, R11, R12. rewrite R4.
  repeat split; auto; try lia.
  exists f1. auto.
Qed.

(* the reader failing is the only way draw_preparams does not return (nt >= 2) *)
Theorem draw_preparams_Ok_or_Panic : forall s p q, 2 <= (2 * p + 1) * (2 * q + 1) ->
  (exists opp, draw_preparams s p q = Ok opp) \/ draw_preparams s p q = Panic.
Proof.
  intros s p q H. unfold draw_preparams. cbv zeta.
  destruct (rel_prime_Ok_or_Panic s _ H) as [(f1 & r1 & R1)|R1]; rewrite R1; cbn [obind fst snd]; [|auto].
  destruct (rel_prime_Ok_or_Panic r1 _ H) as [(al & r2 & R2)|R2]; rewrite R2; cbn [obind fst snd]; [|auto].
  left. eauto.
Qed.

(* ================================================================== *)
(* D.  non-vacuity: concrete runs                                       *)
(* ================================================================== *)

(* trial division (PaillierProofs.prime_check), sound for Znumtheory.prime *)
Definition trial_prime (n : Z) : bool := prime_check n.
Lemma trial_prime_sound n : trial_prime n = true -> prime n.
Proof. apply prime_check_sound. Qed.

(* 6 bits: 0xBD & 0x1F | 0x18 | 1 = 29 *)
Example safe_primes_6bit : safe_primes trial_prime [189] 6 1 = Ok [(29, 59)].
Proof. vm_compute. reflexivity. Qed.

(* 8 bits: 0xF1 & 0x7F | 0x60 | 1 = 113 *)
Example safe_primes_8bit : safe_primes trial_prime [241] 8 1 = Ok [(113, 227)].
Proof. vm_compute. reflexivity. Qed.

(* a failed iteration (31: the sieve ends on q = 75), then 29, then 27 which the sieve moves to 29 *)
Example safe_primes_6bit_two : safe_primes trial_prime [31; 189; 27; 5] 6 2 = Ok [(29, 59); (29, 59)].
Proof. vm_compute. reflexivity. Qed.

Example safe_primes_stream_runs_out : safe_primes trial_prime [31] 6 1 = Err.
Proof. vm_compute. reflexivity. Qed.

(* the sieve tests mod+delta but q accumulates every accepted delta: from 31 the deltas 6, 10, 12, 16
   are accepted in turn and q ends on 31+6+10+12+16 = 75 although the value sieved last was 31+16 = 47 *)
Example sieve_accumulates_deltas : sieve_result 5 31 0 = (75, 151).
Proof. vm_compute. reflexivity. Qed.

Example mask_q_instances :
  mask_q [189] 5 = 29 /\ mask_q [241] 7 = 113 /\ mask_q [0; 0] 9 = 385 /\ mask_q [255; 255] 16 = 65535 /\
  mask_q [0; 0] 16 = 49153.
Proof. vm_compute. repeat split. Qed.

Example prime_47 : prime 47.
Proof. apply trial_prime_sound. vm_compute. reflexivity. Qed.

(* p = 11, q = 23: P = 23, Q = 47, NTilde = 1081, f1 = 2, alpha = 3 *)
Example derive_preparams_concrete :
  derive_preparams 11 23 2 3 = Some (mkPre 1081 4 64 3 169 11 23) /\ powmod 64 169 1081 = 4.
Proof. vm_compute. split; reflexivity. Qed.

(* the hypotheses of derive_preparams_relations are satisfiable: the theorem applied to the instance *)
Example derive_preparams_relations_instance :
  powmod (pp_h2 (mkPre 1081 4 64 3 169 11 23)) (pp_beta (mkPre 1081 4 64 3 169 11 23)) 1081 = 4.
Proof.
  destruct derive_preparams_concrete as [D _].
  pose proof (derive_preparams_relations 11 23 2 3 _ prime_23 prime_47 ltac:(lia) eq_refl ltac:(lia) D) as R.
  cbv zeta in R. destruct R as (_ & _ & _ & _ & _ & _ & _ & _ & _ & _ & _ & R). exact R.
Qed.

(* alpha = 11 is a unit modulo NTilde = 1081 but not modulo p*q = 253: beta is nil *)
Example derive_preparams_nil_beta : Z.gcd 11 1081 = 1 /\ derive_preparams 11 23 2 11 = None.
Proof. vm_compute. split; reflexivity. Qed.

Example rel_prime_one_diverges_instance : get_random_rel_prime [1; 2; 3] 1 = Diverge.
Proof. vm_compute. reflexivity. Qed.

(* max = 150: one byte per draw, 200 is rejected, 100 is returned *)
Example rand_int_rejects_first_chunk : rand_int [200; 100; 7] 150 = Ok (100, [7]).
Proof. vm_compute. reflexivity. Qed.

(* max = 300: two bytes per draw, one bit kept in the first byte: [255;255] -> 511 rejected, [3;44] -> 300 rejected, [254;17] -> 17 *)
Example rand_int_masks_first_byte : rand_int [255; 255; 3; 44; 254; 17; 9] 300 = Ok (17, [9]).
Proof. vm_compute. reflexivity. Qed.

Example positive_int_instance : get_random_positive_int [200; 100; 7] 150 = Ok (Some 100, [7]).
Proof. vm_compute. reflexivity. Qed.

Example qr_generator_instance : get_random_qr_generator [0; 35; 7] 1081 = Ok (144, [7]).
Proof. vm_compute. reflexivity. Qed.

(* modulo 7: 1 and 2 are residues, 3 is not *)
Example qnr_instance : get_random_qnr [1; 2; 3; 9] 7 = Ok (3, [9]).
Proof. vm_compute. reflexivity. Qed.

(* a square modulus has no element of Jacobi symbol -1: the loop ends only when the reader fails *)
Example qnr_square_modulus : get_random_qnr [0; 1; 2; 3; 4; 5; 6; 7; 8] 9 = Panic.
Proof. vm_compute. reflexivity. Qed.

Print Assumptions mask_q_range.
Print Assumptions mask_q_bitlen.
Print Assumptions sieve_step_mono.
Print Assumptions sp_iteration_spec.
Print Assumptions sp_iteration_size.
Print Assumptions safe_primes_spec.
Print Assumptions safe_primes_pairs.
Print Assumptions safe_primes_refuses.
Print Assumptions safe_primes_Ok_or_Err.
Print Assumptions pocklington_sound.
Print Assumptions pocklington_check_sound.
Print Assumptions derive_preparams_relations.
Print Assumptions derive_preparams_None_iff.
Print Assumptions draw_preparams_spec.
Print Assumptions draw_preparams_relations.
Print Assumptions draw_preparams_Ok_or_Panic.
Print Assumptions safe_primes_6bit.
Print Assumptions safe_primes_8bit.
Print Assumptions safe_primes_6bit_two.
Print Assumptions sieve_accumulates_deltas.
Print Assumptions derive_preparams_concrete.
Print Assumptions derive_preparams_relations_instance.
Print Assumptions derive_preparams_nil_beta.
Print Assumptions rel_prime_one_diverges_instance.
Print Assumptions rand_int_rejects_first_chunk.
Print Assumptions safe_primes_stream_runs_out.
Print Assumptions mask_q_instances.
Print Assumptions rand_int_masks_first_byte.
Print Assumptions positive_int_instance.
Print Assumptions qr_generator_instance.
Print Assumptions qnr_instance.
Print Assumptions qnr_square_modulus.
