From Coq Require Import ZArith List Lia Bool.
From TSS Require Import Base.Outcome Base.Bytes Model.Builder.
Import ListNotations.
Open Scope Z_scope.

(* ParseSecrets never panics and never diverges, for every input list. *)

Lemma parse_loop_no_panic fuel secrets el nextLen isLen parts :
  (isLen = false -> 0 <= nextLen) ->
  parse_loop fuel secrets el nextLen isLen parts <> Panic.
Proof.
  revert el nextLen isLen parts. induction fuel as [|k IH]; intros el nextLen isLen parts Hn; cbn [parse_loop]; [discriminate|].
  destruct (negb (el <? zlength secrets)).
  { destruct isLen; [discriminate|]. destruct (negb _); [discriminate|]. destruct (_ <=? _); discriminate. }
  destruct (el <? 0); [discriminate|].
  destruct isLen.
  - destruct (is_len_elem _) eqn:En; cbn [negb]; [|discriminate].
    destruct (MaxPartSize <? _); [discriminate|].
    apply IH. intros _. unfold is_len_elem in En. apply andb_prop in En. destruct En as [En _].
    apply Z.leb_le in En. exact En.
  - destruct (PartsCap <=? _); [discriminate|].
    destruct (zlength secrets <? el + nextLen); [discriminate|].
    specialize (Hn eq_refl).
    destruct (el + nextLen <? el) eqn:Eh; [apply Z.ltb_lt in Eh; lia|].
    apply IH. discriminate.
Qed.

Lemma zlength_cons {A} (x : A) l : zlength (x :: l) = zlength l + 1.
Proof. unfold zlength. cbn [length]. lia. Qed.

Lemma parse_loop_no_diverge fuel secrets el nextLen isLen parts :
  (isLen = false -> 0 <= nextLen) -> zlength parts <= PartsCap ->
  (2 * Z.max 0 (zlength secrets - el) + (if isLen then 2 else 1) + 2 * (PartsCap - zlength parts) < Z.of_nat fuel) ->
  parse_loop fuel secrets el nextLen isLen parts <> Diverge.
Proof.
  revert el nextLen isLen parts. induction fuel as [|k IH]; intros el nextLen isLen parts Hn Hp Hf.
  - exfalso. destruct isLen; lia.
  - cbn [parse_loop].
    destruct (el <? zlength secrets) eqn:E1; cbn [negb].
    2:{ destruct isLen; [discriminate|]. destruct (negb _); [discriminate|]. destruct (_ <=? _); discriminate. }
    apply Z.ltb_lt in E1.
    destruct (el <? 0); [discriminate|].
    destruct isLen.
    + destruct (is_len_elem _) eqn:En; cbn [negb]; [|discriminate].
      destruct (MaxPartSize <? _); [discriminate|].
      unfold is_len_elem in En. apply andb_prop in En. destruct En as [En _]. apply Z.leb_le in En.
      apply IH; auto. cbv iota in *. lia.
    + destruct (PartsCap <=? zlength parts) eqn:Ec; [discriminate|]. apply Z.leb_gt in Ec.
      destruct (zlength secrets <? el + nextLen); [discriminate|].
      destruct (el + nextLen <? el); [discriminate|].
      specialize (Hn eq_refl).
      apply IH; try discriminate; rewrite zlength_cons; cbv iota in *; lia.
Qed.

Theorem parse_total secrets :
  parse_secrets secrets <> Panic /\ parse_secrets secrets <> Diverge.
Proof.
  unfold parse_secrets. destruct (zlength secrets <? 2); [split; discriminate|]. split.
  - apply parse_loop_no_panic. discriminate.
  - apply parse_loop_no_diverge; try discriminate; unfold zlength, PartsCap; cbn [length]; lia.
Qed.

