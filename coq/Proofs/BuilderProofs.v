From Coq Require Import ZArith List Lia Bool.
From TSS Require Import Base.Outcome Base.Bytes Model.Builder.
Import ListNotations.
Open Scope Z_scope.

(* ParseSecrets never panics and never diverges, for every input list. *)

Lemma parse_loop_no_panic fuel secrets el nextLen isLen parts :
  (isLen = false -> 0 <= nextLen) ->
  parse_loop fuel secrets el nextLen isLen parts <> Panic.
Proof.
  revert el nextLen isLen parts. induction fuel as [|k IH]; intros el nextLen isLen parts Hn; cbn [parse_loop]; [discriminate|].
  destruct (negb (el <? zlength secrets)).
  { destruct isLen; [discriminate|]. destruct (negb _); [discriminate|]. destruct (_ <=? _); discriminate. }
  destruct (el <? 0); [discriminate|].
  destruct isLen.
  - destruct (is_len_elem _) eqn:En; cbn [negb]; [|discriminate].
    destruct (MaxPartSize <? _); [discriminate|].
    apply IH. intros _. unfold is_len_elem in En. apply andb_prop in En. destruct En as [En _].
    apply Z.leb_le in En. exact En.
  - destruct (PartsCap <=? _); [discriminate|].
    destruct (zlength secrets <? el + nextLen); [discriminate|].
    specialize (Hn eq_refl).
    destruct (el + nextLen <? el) eqn:Eh; [apply Z.ltb_lt in Eh; lia|].
    apply IH. discriminate.
Qed.

Lemma zlength_cons {A} (x : A) l : zlength (x :: l) = zlength l + 1.
Proof. unfold zlength. cbn [length]. lia. Qed.

Lemma parse_loop_no_diverge fuel secrets el nextLen isLen parts :
  (isLen = false -> 0 <= nextLen) -> zlength parts <= PartsCap ->
  (2 * Z.max 0 (zlength secrets - el) + (if isLen then 2 else 1) + 2 * (PartsCap - zlength parts) < Z.of_nat fuel) ->
  parse_loop fuel secrets el nextLen isLen parts <> Diverge.
Proof.
  revert el nextLen isLen parts. induction fuel as [|k IH]; intros el nextLen isLen parts Hn Hp Hf.
  - exfalso. destruct isLen; lia.
  - cbn [parse_loop].
    destruct (el <? zlength secrets) eqn:E1; cbn [negb].
    2:{ destruct isLen; [discriminate|]. destruct (negb _); [discriminate|]. destruct (_ <=? _); discriminate. }
    apply Z.ltb_lt in E1.
    destruct (el <? 0); [discriminate|].
    destruct isLen.
    + destruct (is_len_elem _) eqn:En; cbn [negb]; [|discriminate].
      destruct (MaxPartSize <? _); [discriminate|].
      unfold is_len_elem in En. apply andb_prop in En. destruct En as [En _]. apply Z.leb_le in En.
      apply IH; auto. cbv iota in *. lia.
    + destruct (PartsCap <=? zlength parts) eqn:Ec; [discriminate|]. apply Z.leb_gt in Ec.
      destruct (zlength secrets <? el + nextLen); [discriminate|].
      destruct (el + nextLen <? el); [discriminate|].
      specialize (Hn eq_refl).
      apply IH; try discriminate; rewrite zlength_cons; cbv iota in *; lia.
Qed.

Theorem parse_total secrets :
  parse_secrets secrets <> Panic /\ parse_secrets secrets <> Diverge.
Proof.
  unfold parse_secrets. destruct (zlength secrets <? 2); [split; discriminate|]. split.
  - apply parse_loop_no_panic. discriminate.
  - apply parse_loop_no_diverge; try discriminate; unfold zlength, PartsCap; cbn [length]; lia.
Qed.


(* ====================================================================== *)
(* Round trip: ParseSecrets (Secrets parts) = parts                        *)
(* ====================================================================== *)

(* the flat layout produced by Secrets: each part preceded by its length *)
Fixpoint flat (parts : list (list Z)) : list Z :=
  match parts with
  | [] => []
  | p :: t => zlength p :: p ++ flat t
  end.

Lemma zlength_nonneg {A} (l : list A) : 0 <= zlength l.
Proof. unfold zlength. lia. Qed.

Lemma zlength_app {A} (l1 l2 : list A) : zlength (l1 ++ l2) = zlength l1 + zlength l2.
Proof. unfold zlength. rewrite app_length. lia. Qed.

Lemma zlength_to_nat {A} (l : list A) : Z.to_nat (zlength l) = length l.
Proof. unfold zlength. lia. Qed.

Lemma zlength_rev {A} (l : list A) : zlength (rev l) = zlength l.
Proof. unfold zlength. rewrite rev_length. reflexivity. Qed.

Lemma flat_app a b : flat (a ++ b) = flat a ++ flat b.
Proof.
  induction a as [|p t IH]; [reflexivity|].
  cbn [app flat]. rewrite IH, <- app_assoc. reflexivity.
Qed.

Lemma flat_length_ge parts : (length parts <= length (flat parts))%nat.
Proof.
  induction parts as [|p t IH]; [cbn; lia|].
  cbn [flat length]. rewrite app_length. lia.
Qed.

Lemma secrets_loop_spec parts secrets :
  secrets_loop parts = Ok secrets ->
  secrets = flat parts /\ Forall (fun p => zlength p <= MaxPartSize) parts.
Proof.
  revert secrets. induction parts as [|p t IH]; intros secrets H.
  - cbn [secrets_loop] in H. injection H as <-. split; [reflexivity|constructor].
  - cbn [secrets_loop] in H.
    destruct (MaxPartSize <? zlength p) eqn:E; [discriminate|]. apply Z.ltb_ge in E.
    destruct (secrets_loop t) as [r| | |]; cbn [obind] in H; try discriminate.
    injection H as <-. destruct (IH r eq_refl) as [-> HF].
    split; [reflexivity|constructor; assumption].
Qed.

Lemma builder_secrets_spec parts secrets :
  builder_secrets parts = Ok secrets ->
  secrets = flat parts /\ Forall (fun p => zlength p <= MaxPartSize) parts /\
  zlength parts <= PartsCap.
Proof.
  unfold builder_secrets. destruct (PartsCap <? zlength parts) eqn:E; [discriminate|].
  apply Z.ltb_ge in E. intros H. apply secrets_loop_spec in H. tauto.
Qed.

(* conversely Secrets succeeds on every input within the two caps *)
Lemma builder_secrets_complete parts :
  Forall (fun p => zlength p <= MaxPartSize) parts -> zlength parts <= PartsCap ->
  builder_secrets parts = Ok (flat parts).
Proof.
  intros HF Hc. unfold builder_secrets.
  destruct (PartsCap <? zlength parts) eqn:E; [apply Z.ltb_lt in E; lia|]. clear E Hc.
  induction HF as [|p t Hp HF IH]; [reflexivity|].
  cbn [secrets_loop flat]. destruct (MaxPartSize <? zlength p) eqn:E; [apply Z.ltb_lt in E; lia|].
  rewrite IH. reflexivity.
Qed.

Lemma slice_middle {A} (a p b : list A) :
  slice (a ++ p ++ b) (zlength a) (zlength a + zlength p) = p.
Proof.
  unfold slice. replace (zlength a + zlength p - zlength a) with (zlength p) by lia.
  rewrite !zlength_to_nat, skipn_app, skipn_all, Nat.sub_diag. cbn [app skipn].
  rewrite firstn_app, firstn_all, Nat.sub_diag. cbn [firstn]. apply app_nil_r.
Qed.

(* Loop invariant: [done] are the parts already read (accumulated reversed),
   [el] is the length of their flat layout, [todo] remain to be read. *)
Lemma parse_loop_roundtrip : forall todo done fuel nl,
  Forall (fun p => zlength p <= MaxPartSize) todo ->
  zlength done + zlength todo <= PartsCap ->
  (2 * length todo + 1 <= fuel)%nat ->
  parse_loop fuel (flat done ++ flat todo) (zlength (flat done)) nl true (rev done)
  = Ok (done ++ todo).
Proof.
  induction todo as [|p t IH]; intros done fuel nl HF Hcap Hfuel.
  - destruct fuel as [|k]; [cbn in Hfuel; lia|]. cbn [parse_loop flat].
    rewrite !app_nil_r, Z.ltb_irrefl. cbn [negb]. rewrite rev_involutive. reflexivity.
  - destruct fuel as [|[|k]]; [cbn in Hfuel; lia|cbn in Hfuel; lia|].
    cbn [length] in Hfuel.
    inversion HF as [|? ? Hp HF']; subst.
    rewrite zlength_cons in Hcap.
    pose proof (zlength_nonneg p) as Hp0. pose proof (zlength_nonneg (flat done)) as Hd0.
    pose proof (zlength_nonneg (flat t)) as Ht0. pose proof (zlength_nonneg t) as Htl0.
    pose proof (zlength_nonneg done) as Hdl0.
    set (secrets := flat done ++ flat (p :: t)).
    assert (Hlen : zlength secrets = zlength (flat done) + 1 + zlength p + zlength (flat t)).
    { unfold secrets. cbn [flat]. rewrite zlength_app, zlength_cons, zlength_app. lia. }
    (* step 1: read the length element *)
    cbn [parse_loop]. fold secrets. rewrite Hlen.
    destruct (zlength (flat done) <? zlength (flat done) + 1 + zlength p + zlength (flat t)) eqn:E1;
      [|apply Z.ltb_ge in E1; lia]. cbn [negb].
    destruct (zlength (flat done) <? 0) eqn:E2; [apply Z.ltb_lt in E2; lia|].
    assert (Hnth : nth (Z.to_nat (zlength (flat done))) secrets 0 = zlength p).
    { unfold secrets. rewrite zlength_to_nat, app_nth2, Nat.sub_diag by lia. reflexivity. }
    rewrite Hnth.
    assert (Hle : is_len_elem (zlength p) = true).
    { unfold is_len_elem. apply andb_true_iff. split; [apply Z.leb_le; lia|apply Z.ltb_lt].
      unfold MaxPartSize in Hp. lia. }
    rewrite Hle. cbn [negb].
    destruct (MaxPartSize <? zlength p) eqn:E3; [apply Z.ltb_lt in E3; lia|].
    (* step 2: slice the part (or stop on a trailing empty part) *)
    destruct (zlength (flat done) + 1 <? zlength (flat done) + 1 + zlength p + zlength (flat t)) eqn:E4;
      cbn [negb].
    + apply Z.ltb_lt in E4.
      destruct (zlength (flat done) + 1 <? 0) eqn:E5; [apply Z.ltb_lt in E5; lia|].
      rewrite zlength_rev.
      destruct (PartsCap <=? zlength done) eqn:E6; [apply Z.leb_le in E6; lia|].
      destruct (zlength (flat done) + 1 + zlength p + zlength (flat t) <? zlength (flat done) + 1 + zlength p) eqn:E7;
        [apply Z.ltb_lt in E7; lia|].
      destruct (zlength (flat done) + 1 + zlength p <? zlength (flat done) + 1) eqn:E8;
        [apply Z.ltb_lt in E8; lia|].
      assert (Hsl : slice secrets (zlength (flat done) + 1) (zlength (flat done) + 1 + zlength p) = p).
      { unfold secrets. cbn [flat].
        replace (flat done ++ zlength p :: p ++ flat t)
          with ((flat done ++ [zlength p]) ++ p ++ flat t) by (rewrite <- app_assoc; reflexivity).
        replace (zlength (flat done) + 1) with (zlength (flat done ++ [zlength p]))
          by (rewrite zlength_app; reflexivity).
        apply slice_middle. }
      rewrite Hsl.
      specialize (IH (done ++ [p]) k (zlength p) HF').
      assert (Hfl : flat (done ++ [p]) = flat done ++ zlength p :: p)
        by (rewrite flat_app; cbn [flat]; rewrite app_nil_r; reflexivity).
      assert (Hz : zlength (flat done ++ zlength p :: p) = zlength (flat done) + 1 + zlength p)
        by (rewrite zlength_app, zlength_cons; lia).
      rewrite Hfl, Hz, rev_app_distr, <- !app_assoc in IH. cbn [rev app] in IH.
      unfold secrets. cbn [flat]. apply IH.
      * rewrite zlength_app. change (zlength [p]) with 1. lia.
      * lia.
    + apply Z.ltb_ge in E4.
      assert (Hpz : zlength p = 0) by lia. assert (Htz : zlength (flat t) = 0) by lia.
      assert (p = []) as -> by (destruct p; [reflexivity|rewrite zlength_cons in Hpz; pose proof (zlength_nonneg p); lia]).
      assert (t = []) as ->.
      { destruct t as [|p' t']; [reflexivity|]. cbn [flat] in Htz. rewrite zlength_cons in Htz.
        pose proof (zlength_nonneg (p' ++ flat t')). lia. }
      change (zlength []) with 0. cbn [Z.eqb negb].
      rewrite zlength_rev.
      destruct (PartsCap <=? zlength done) eqn:E6; [apply Z.leb_le in E6; lia|].
      cbn [rev]. rewrite rev_involutive. reflexivity.
Qed.

Theorem builder_roundtrip : forall parts secrets,
  builder_secrets parts = Ok secrets -> (2 <= length secrets)%nat ->
  parse_secrets secrets = Ok parts.
Proof.
  intros parts secrets H Hlen. apply builder_secrets_spec in H. destruct H as (-> & HF & Hcap).
  unfold parse_secrets.
  destruct (zlength (flat parts) <? 2) eqn:E; [apply Z.ltb_lt in E; unfold zlength in E; lia|].
  apply (parse_loop_roundtrip parts [] _ 0 HF).
  - change (zlength (@nil (list Z))) with 0. lia.
  - pose proof (flat_length_ge parts). lia.
Qed.

(* without the side condition: the only inputs of Secrets whose output has
   fewer than 2 elements are [] and [[]], and ParseSecrets rejects those *)
Theorem builder_roundtrip_short : forall parts secrets,
  builder_secrets parts = Ok secrets -> (length secrets < 2)%nat ->
  (parts = [] \/ parts = [[]]) /\ parse_secrets secrets = Err.
Proof.
  intros parts secrets H Hlen. apply builder_secrets_spec in H. destruct H as (-> & _ & _).
  split.
  - destruct parts as [|p t]; [left; reflexivity|right].
    cbn [flat length] in Hlen. rewrite app_length in Hlen.
    destruct p; [|cbn [length] in Hlen; lia].
    destruct t as [|p' t']; [reflexivity|]. cbn [flat length app] in Hlen. lia.
  - unfold parse_secrets. destruct (zlength (flat parts) <? 2) eqn:E; [reflexivity|].
    apply Z.ltb_ge in E. unfold zlength in E. lia.
Qed.

(* ParseSecrets never returns more than PartsCap parts *)
Lemma parse_loop_cap fuel secrets el nextLen isLen acc parts :
  zlength acc <= PartsCap ->
  parse_loop fuel secrets el nextLen isLen acc = Ok parts -> zlength parts <= PartsCap.
Proof.
  revert el nextLen isLen acc. induction fuel as [|k IH]; intros el nextLen isLen acc Hacc H;
    cbn [parse_loop] in H; [discriminate|].
  destruct (negb (el <? zlength secrets)).
  { destruct isLen.
    - injection H as <-. rewrite zlength_rev. exact Hacc.
    - destruct (negb (nextLen =? 0)); [discriminate|].
      destruct (PartsCap <=? zlength acc) eqn:Ec; [discriminate|]. apply Z.leb_gt in Ec.
      injection H as <-. rewrite zlength_app, zlength_rev. change (zlength [@nil Z]) with 1. lia. }
  destruct (el <? 0); [discriminate|].
  destruct isLen.
  - destruct (negb (is_len_elem _)); [discriminate|].
    destruct (MaxPartSize <? _); [discriminate|].
    apply (IH _ _ _ _ Hacc H).
  - destruct (PartsCap <=? zlength acc) eqn:Ec; [discriminate|]. apply Z.leb_gt in Ec.
    destruct (zlength secrets <? el + nextLen); [discriminate|].
    destruct (el + nextLen <? el); [discriminate|].
    eapply IH; [|exact H]. rewrite zlength_cons. lia.
Qed.

Theorem parse_rejects_long secrets parts :
  parse_secrets secrets = Ok parts -> zlength parts <= PartsCap.
Proof.
  unfold parse_secrets. destruct (zlength secrets <? 2); [discriminate|].
  apply parse_loop_cap. change (zlength (@nil (list Z))) with 0. unfold PartsCap. lia.
Qed.

Example builder_roundtrip_ex :
  builder_secrets [[1; 2]; []; [7]] = Ok [2; 1; 2; 0; 1; 7] /\
  parse_secrets [2; 1; 2; 0; 1; 7] = Ok [[1; 2]; []; [7]] /\
  builder_secrets [[5]; []] = Ok [1; 5; 0] /\
  parse_secrets [1; 5; 0] = Ok [[5]; []] /\
  builder_secrets [[1]; [2]; [3]; [4]] = Err /\
  parse_secrets [1; 1; 1; 2; 1; 3; 1; 4] = Err /\
  parse_secrets [0] = Err.
Proof. vm_compute. repeat split; reflexivity. Qed.

Print Assumptions builder_roundtrip.
Print Assumptions builder_roundtrip_short.
Print Assumptions parse_rejects_long.
