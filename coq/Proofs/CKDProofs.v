(* Proofs about Model/CKD.v: BIP32 public child key derivation (crypto/ckd/child_key_derivation.go)
   and signing with a derivation offset (ecdsa/signing/round_1.go prepare(),
   ecdsa/signing/key_derivation_util.go UpdatePublicKeyAndAdjustBigXj). *)
From Coq Require Import ZArith Znumtheory List Lia Bool Setoid Morphisms.
From TSS Require Import Base.Outcome Base.Bytes Base.ZMod Base.GoInt
  Model.Poly Model.Group Model.Curve Model.Schnorr Model.SignAlg Model.CKD
  Proofs.BytesProofs Proofs.ZModProofs Proofs.PolyProofs Proofs.GroupProofs
  Proofs.CurveLawsProofs Proofs.SignAlgProofs.
Import ListNotations.
Open Scope Z_scope.

(* ====================================================================== *)
(* A. serialisation                                                         *)
(* ====================================================================== *)

Lemma ser32_length : forall i, length (ser32 i) = 4%nat.
Proof. intros i. unfold ser32. rewrite rev_length. apply le_bytes_length. Qed.

Lemma ser32_bytes : forall i, Forall is_byte (ser32 i).
Proof.
  intros i. unfold ser32. apply Forall_forall. intros b Hb. apply in_rev in Hb.
  pose proof (le_bytes_bytes 4 i) as HF. rewrite Forall_forall in HF. now apply HF.
Qed.

Lemma be_value_rev : forall l, be_value (rev l) = le_value l.
Proof. intros l. rewrite <- le_value_rev, rev_involutive. reflexivity. Qed.

(* big endian: binary.BigEndian.PutUint32 *)
Theorem ser32_be_value : forall i, 0 <= i < 2 ^ 32 -> be_value (ser32 i) = i.
Proof.
  intros i Hi. unfold ser32. rewrite be_value_rev. apply le_value_le_bytes.
  change (256 ^ Z.of_nat 4) with (2 ^ 32). exact Hi.
Qed.

Theorem ser32_inj : forall i j, 0 <= i < 2 ^ 32 -> 0 <= j < 2 ^ 32 -> ser32 i = ser32 j -> i = j.
Proof.
  intros i j Hi Hj E. rewrite <- (ser32_be_value i Hi), <- (ser32_be_value j Hj), E. reflexivity.
Qed.

(* uint32 wrap-around of the model's fixed-width encoder *)
Lemma ser32_wraps : forall i, ser32 (i + 2 ^ 32) = ser32 i.
Proof.
  intros i. unfold ser32. f_equal. cbn [le_bytes].
  assert (D : forall a b, 0 < b -> (a + b * 256) / 256 = a / 256 + b) by (intros; apply Z.div_add; lia).
  assert (M : forall a b, (a + b * 256) mod 256 = a mod 256) by (intros; apply Z.mod_add; lia).
  replace (i + 2 ^ 32) with (i + 16777216 * 256) by (change (2 ^ 32) with 4294967296; ring).
  rewrite M, Z.div_add by lia.
  replace (i / 256 + 16777216) with (i / 256 + 65536 * 256) by ring.
  rewrite M, Z.div_add by lia.
  replace (i / 256 / 256 + 65536) with (i / 256 / 256 + 256 * 256) by ring.
  rewrite M, Z.div_add by lia.
  replace (i / 256 / 256 / 256 + 256) with (i / 256 / 256 / 256 + 1 * 256) by ring.
  rewrite M. reflexivity.
Qed.

Theorem ser_compressed_length : forall x y, 0 <= x < 2 ^ 256 -> length (ser_compressed x y) = 33%nat.
Proof.
  intros x y Hx. unfold ser_compressed. cbn [length].
  rewrite pad_left_length by (now apply bytes_of_Z_length32). reflexivity.
Qed.

(* never shorter than 33 bytes; longer exactly when X does not fit 32 bytes *)
Lemma ser_compressed_length_ge : forall x y, (33 <= length (ser_compressed x y))%nat.
Proof. intros x y. unfold ser_compressed. cbn [length]. pose proof (pad_left_length_ge 32 (bytes_of_Z x)). lia. Qed.

Lemma ser_compressed_bytes : forall x y, Forall is_byte (ser_compressed x y).
Proof.
  intros x y. unfold ser_compressed. constructor.
  - unfold is_byte. destruct (Z.odd y); lia.
  - apply pad_left_bytes, bytes_of_Z_bytes.
Qed.

Lemma ser_compressed_head : forall x y, hd 0 (ser_compressed x y) = if Z.odd y then 3 else 2.
Proof. reflexivity. Qed.

(* the X coordinate is recovered from bytes 1.. *)
Theorem ser_compressed_decode : forall x y, 0 <= x -> be_value (tl (ser_compressed x y)) = x.
Proof. intros x y Hx. unfold ser_compressed. cbn [tl]. now apply be_value_pad_bytes. Qed.

Theorem ser_compressed_inj : forall x y x' y', 0 <= x -> 0 <= x' ->
  (ser_compressed x y = ser_compressed x' y' <-> x = x' /\ Z.odd y = Z.odd y').
Proof.
  intros x y x' y' Hx Hx'. split.
  - intros E. split.
    + rewrite <- (ser_compressed_decode x y Hx), <- (ser_compressed_decode x' y' Hx'), E. reflexivity.
    + apply (f_equal (hd 0)) in E. rewrite !ser_compressed_head in E.
      destruct (Z.odd y), (Z.odd y'); (reflexivity || discriminate).
  - intros [-> E]. unfold ser_compressed. rewrite E. reflexivity.
Qed.

(* the form asked for: canonical 256-bit X *)
Corollary ser_compressed_inj256 : forall x y x' y', 0 <= x < 2 ^ 256 -> 0 <= x' < 2 ^ 256 ->
  ser_compressed x y = ser_compressed x' y' -> x = x' /\ Z.odd y = Z.odd y'.
Proof. intros x y x' y' Hx Hx' E. apply (ser_compressed_inj x y x' y'); (lia || exact E). Qed.

(* the leading-zero case: an X below 2^248 is still sent as 32 bytes, the first being 0 *)
Theorem ser_compressed_leading_zero : forall x y, 0 <= x < 2 ^ 248 ->
  length (ser_compressed x y) = 33%nat /\ nth 1 (ser_compressed x y) 0 = 0.
Proof.
  intros x y Hx. split.
  - apply ser_compressed_length. assert (2 ^ 248 < 2 ^ 256) by (apply Z.pow_lt_mono_r; lia). lia.
  - unfold ser_compressed. cbn [nth]. unfold pad_left.
    assert (L : (length (bytes_of_Z x) <= 31)%nat).
    { apply bytes_of_Z_length. replace (256 ^ Z.of_nat 31) with (2 ^ 248) by (vm_compute; reflexivity). exact Hx. }
    destruct (32 - length (bytes_of_Z x))%nat as [|n] eqn:E; [lia|]. reflexivity.
Qed.

(* more generally every padding byte is 0 *)
Lemma ser_compressed_padding : forall x y i, 0 <= x ->
  (1 <= i)%nat -> (i + length (bytes_of_Z x) <= 32)%nat -> nth i (ser_compressed x y) 0 = 0.
Proof.
  intros x y i Hx Hi Hl. unfold ser_compressed. destruct i as [|i]; [lia|]. cbn [nth].
  unfold pad_left. rewrite app_nth1 by (rewrite repeat_length; lia).
  apply nth_repeat.
Qed.

Theorem xkey_payload_length : forall k,
  length (xk_ver k) = 4%nat -> length (xk_fp k) = 4%nat -> length (xk_cc k) = 32%nat ->
  0 <= xk_x k < 2 ^ 256 ->
  length (xkey_payload k) = 78%nat.
Proof.
  intros k Hv Hf Hc Hx. unfold xkey_payload.
  rewrite !app_length, Hv, Hf, Hc, ser32_length, ser_compressed_length by exact Hx. reflexivity.
Qed.

Lemma xkey_payload_bytes : forall k,
  Forall is_byte (xk_ver k) -> Forall is_byte (xk_fp k) -> Forall is_byte (xk_cc k) ->
  Forall is_byte (xkey_payload k).
Proof.
  intros k Hv Hf Hc. unfold xkey_payload.
  apply Forall_app; split; [exact Hv|].
  apply Forall_app; split.
  { constructor; [|constructor]. unfold is_byte. apply Z.mod_pos_bound. lia. }
  apply Forall_app; split; [exact Hf|].
  apply Forall_app; split; [apply ser32_bytes|].
  apply Forall_app; split; [exact Hc|apply ser_compressed_bytes].
Qed.

(* String(): the base58 input is payload || 4 checksum bytes = 82 bytes *)
Theorem xkey_string_input : forall DSHA B58 k,
  xkey_string DSHA B58 k = B58 (xkey_payload k ++ firstn 4 (DSHA (xkey_payload k))) /\
  (length (xkey_payload k) = 78%nat -> (4 <= length (DSHA (xkey_payload k)))%nat ->
   length (xkey_payload k ++ firstn 4 (DSHA (xkey_payload k))) = 82%nat).
Proof.
  intros DSHA B58 k. split; [reflexivity|]. intros H1 H2. rewrite app_length, firstn_length, H1. lia.
Qed.

(* ====================================================================== *)
(* B. DeriveChildKey                                                        *)
(* ====================================================================== *)

Section CKDProofs.
  Variable HMAC : list Z -> list Z -> list Z.
  Variable H160 : list Z -> list Z.
  Variable c : curve.
  Local Notation q := (cq c).
  Local Notation B := (base c).
  Local Notation cmul := (@gmul (curve_group c)).
  Local Notation padd := (pt_add c).
  Local Notation dchild := (derive_child HMAC H160 c).
  Local Notation dpath := (derive_path HMAC H160 c).
  Local Notation dhier := (derive_hierarchy HMAC H160 c).

  (* I = HMAC-SHA512(chain code, serP(parent) || ser32(index)), IL as an integer, the parent point *)
  Definition ckd_I (idx : Z) (k : xkey) : list Z :=
    HMAC (xk_cc k) (ser_compressed (xk_x k) (xk_y k) ++ ser32 idx).
  Definition ckd_il (idx : Z) (k : xkey) : Z := be_value (firstn 32 (ckd_I idx k)).
  Definition xk_pt (k : xkey) : pt := Some (xk_x k, xk_y k).
  Definition ckd_child (idx : Z) (k : xkey) (cx cy : Z) : xkey :=
    mkX cx cy (xk_depth k + 1) idx (skipn 32 (ckd_I idx k))
        (firstn 4 (H160 (ser_compressed (xk_x k) (xk_y k)))) (xk_ver k).

  Lemma new_ec_point_Some : forall x y P, new_ec_point c x y = Some P <-> (on_curve c x y = true /\ P = Some (x, y)).
  Proof.
    intros x y P. unfold new_ec_point. destruct (on_curve c x y); split.
    - intros E. injection E as <-. auto.
    - intros [_ ->]. reflexivity.
    - discriminate.
    - intros [E _]. discriminate.
  Qed.

  Lemma new_ec_point_None : forall x y, new_ec_point c x y = None <-> on_curve c x y = false.
  Proof. intros x y. unfold new_ec_point. destruct (on_curve c x y); split; congruence. Qed.

  (* complete characterisation of a successful step; no hypothesis on the oracles or the curve *)
  Theorem derive_child_iff : forall idx k il ck,
    dchild idx k = Ok (il, ck) <->
    (idx < 2 ^ 31 /\ xk_depth k <> 255 /\ on_curve c (xk_x k) (xk_y k) = true /\
     il = ckd_il idx k /\ il < q /\ il <> 0 /\
     exists dx dy cx cy,
       ec_base_mul c il = Ok (Some (dx, dy)) /\ dx <> 0 /\ dy <> 0 /\
       ec_add c (xk_pt k) (Some (dx, dy)) = Ok (Some (cx, cy)) /\
       ck = ckd_child idx k cx cy).
  Proof.
    intros idx k il ck. unfold derive_child, HardenedKeyStart, maxDepth, ckd_child, ckd_il, ckd_I, xk_pt, new_ec_point.
    change (2 ^ 31) with 2147483648.
    set (ser := ser_compressed (xk_x k) (xk_y k)).
    set (I := HMAC (xk_cc k) (ser ++ ser32 idx)).
    set (ilv := be_value (firstn 32 I)).
    split.
    - intros E.
      destruct (2147483648 <=? idx) eqn:E1; [discriminate|]. apply Z.leb_gt in E1.
      destruct (xk_depth k =? 255) eqn:E2; [discriminate|]. apply Z.eqb_neq in E2.
      destruct (on_curve c (xk_x k) (xk_y k)) eqn:E3; [|discriminate].
      destruct ((q <=? ilv) || (ilv =? 0)) eqn:E4; [discriminate|].
      apply orb_false_iff in E4. destruct E4 as [E4 E5]. apply Z.leb_gt in E4. apply Z.eqb_neq in E5.
      destruct (ec_base_mul c ilv) as [[[dx dy]|]| | |] eqn:E6; cbn [obind] in E; try discriminate.
      destruct ((dx =? 0) || (dy =? 0)) eqn:E7; [discriminate|].
      apply orb_false_iff in E7. destruct E7 as [E7 E7']. apply Z.eqb_neq in E7, E7'.
      destruct (ec_add c (Some (xk_x k, xk_y k)) (Some (dx, dy))) as [[[cx cy]|]| | |] eqn:E8; try discriminate.
      injection E as <- <-.
      repeat (split; [assumption || reflexivity|]).
      exists dx, dy, cx, cy. rewrite E6. repeat (split; [assumption || reflexivity|]). reflexivity.
    - intros (E1 & E2 & E3 & -> & E4 & E5 & dx & dy & cx & cy & E6 & E7 & E7' & E8 & ->).
      rewrite (proj2 (Z.leb_gt _ _)) by exact E1.
      rewrite (proj2 (Z.eqb_neq _ _)) by exact E2.
      rewrite E3.
      rewrite (proj2 (Z.leb_gt _ _)) by exact E4.
      rewrite (proj2 (Z.eqb_neq _ _)) by exact E5.
      cbn [orb]. rewrite E6. cbn [obind].
      rewrite (proj2 (Z.eqb_neq dx 0)) by exact E7.
      rewrite (proj2 (Z.eqb_neq dy 0)) by exact E7'.
      cbn [orb]. rewrite E8. reflexivity.
  Qed.

  (* the oracle returns bytes: needed for 0 <= IL (big.Int.SetBytes is never negative) *)
  Definition bytes_oracle : Prop := forall key data, Forall is_byte (HMAC key data).

  Lemma ckd_il_nonneg : bytes_oracle -> forall idx k, 0 <= ckd_il idx k < 2 ^ 256.
  Proof.
    intros HB idx k. unfold ckd_il.
    pose proof (be_value_bound (firstn 32 (ckd_I idx k)) (Forall_firstn _ 32 _ (HB _ _))) as Hb.
    split; [lia|]. destruct Hb as [_ Hb]. eapply Z.lt_le_trans; [exact Hb|].
    rewrite two256_eq. apply Z.pow_le_mono_r; [lia|]. unfold zlength. rewrite firstn_length. lia.
  Qed.

  Theorem derive_child_spec : forall idx k il ck,
    dchild idx k = Ok (il, ck) ->
    idx < 2 ^ 31 /\ xk_depth k <> 255 /\
    new_ec_point c (xk_x k) (xk_y k) = Some (xk_pt k) /\
    il = be_value (firstn 32 (HMAC (xk_cc k) (ser_compressed (xk_x k) (xk_y k) ++ ser32 idx))) /\
    il < q /\ il <> 0 /\ (bytes_oracle -> 0 < il < q) /\
    (exists dG, ec_base_mul c il = Ok (Some dG) /\ fst dG <> 0 /\ snd dG <> 0 /\
                ec_add c (xk_pt k) (Some dG) = Ok (Some (xk_x ck, xk_y ck))) /\
    xk_depth ck = xk_depth k + 1 /\ xk_index ck = idx /\
    xk_cc ck = skipn 32 (HMAC (xk_cc k) (ser_compressed (xk_x k) (xk_y k) ++ ser32 idx)) /\
    xk_fp ck = firstn 4 (H160 (ser_compressed (xk_x k) (xk_y k))) /\
    xk_ver ck = xk_ver k.
  Proof.
    intros idx k il ck E. apply derive_child_iff in E.
    destruct E as (E1 & E2 & E3 & E4 & E5 & E6 & dx & dy & cx & cy & E7 & E8 & E9 & E10 & ->).
    split; [exact E1|]. split; [exact E2|].
    split; [apply new_ec_point_Some; split; [exact E3|reflexivity]|].
    split; [exact E4|]. split; [exact E5|]. split; [exact E6|].
    split; [intros HB; pose proof (ckd_il_nonneg HB idx k); lia|].
    split; [exists (dx, dy); cbn [fst snd ckd_child xk_x xk_y]; auto|].
    cbn [ckd_child xk_depth xk_index xk_cc xk_fp xk_ver]. auto.
  Qed.

  (* on a curve over a field of at most 256 bits the HMAC input of a successful step is exactly the
     37 bytes of the Go buffer (33 + 4): [ser ++ ser32 idx] and Go's fixed [37]byte coincide *)
  Theorem derive_child_data_length : forall idx k il ck,
    cp c <= 2 ^ 256 -> dchild idx k = Ok (il, ck) ->
    length (ser_compressed (xk_x k) (xk_y k)) = 33%nat /\
    length (ser_compressed (xk_x k) (xk_y k) ++ ser32 idx) = 37%nat /\
    length (ser_compressed (xk_x ck) (xk_y ck)) = 33%nat.
  Proof.
    intros idx k il ck Hp E. apply derive_child_iff in E.
    destruct E as (_ & _ & E3 & _ & _ & _ & dx & dy & cx & cy & _ & _ & _ & E10 & ->).
    assert (F : forall x y, on_curve c x y = true -> 0 <= x < 2 ^ 256).
    { intros x y H. unfold on_curve, in_field in H. rewrite !andb_true_iff in H.
      destruct H as [[[H1 H2] _] _]. apply Z.leb_le in H1. apply Z.ltb_lt in H2. lia. }
    assert (L : length (ser_compressed (xk_x k) (xk_y k)) = 33%nat) by (apply ser_compressed_length, (F _ _ E3)).
    split; [exact L|]. split; [rewrite app_length, L, ser32_length; reflexivity|].
    cbn [ckd_child xk_x xk_y]. apply ser_compressed_length.
    (* the model's ec_add only tests representability; the x-coordinate of a sum is a residue mod p *)
    unfold ec_add in E10. destruct (representable (pt_add c (xk_pt k) (Some (dx, dy)))); [|discriminate].
    assert (E11 : pt_add c (xk_pt k) (Some (dx, dy)) = Some (cx, cy)) by congruence.
    pose proof (F _ _ E3) as Hx.
    assert (Hp0 : 0 < cp c).
    { unfold on_curve, in_field in E3. rewrite !andb_true_iff in E3. destruct E3 as [[[H1 H2] _] _].
      apply Z.leb_le in H1. apply Z.ltb_lt in H2. lia. }
    assert (M : forall a, 0 <= a mod cp c < 2 ^ 256) by (intros a; pose proof (Z.mod_pos_bound a (cp c) Hp0); lia).
    unfold xk_pt, pt_add in E11. destruct (ck c).
    - unfold w_add in E11.
      destruct (xk_x k =? dx); [destruct ((xk_y k + dy) mod cp c =? 0); [discriminate|]|];
        injection E11 as <- _; apply M.
    - unfold e_add, fdiv in E11. injection E11 as <- _. apply M.
  Qed.

  (* ---------------- refusals ---------------- *)

  Theorem derive_child_hardened_refused : forall idx k, 2 ^ 31 <= idx -> dchild idx k = Err.
  Proof.
    intros idx k H. unfold derive_child, HardenedKeyStart. change (2 ^ 31) with 2147483648 in H.
    rewrite (proj2 (Z.leb_le _ _)) by exact H. reflexivity.
  Qed.

  Theorem derive_child_maxdepth_refused : forall idx k, xk_depth k = 255 -> dchild idx k = Err.
  Proof.
    intros idx k H. unfold derive_child, maxDepth. rewrite H.
    destruct (HardenedKeyStart <=? idx); reflexivity.
  Qed.

  Theorem derive_child_offcurve_refused : forall idx k,
    new_ec_point c (xk_x k) (xk_y k) = None -> dchild idx k = Err.
  Proof.
    intros idx k H. unfold derive_child. rewrite H.
    destruct (HardenedKeyStart <=? idx); [reflexivity|]. destruct (xk_depth k =? maxDepth); reflexivity.
  Qed.

  Theorem derive_child_il_refused : forall idx k,
    q <= ckd_il idx k \/ ckd_il idx k = 0 -> dchild idx k = Err.
  Proof.
    intros idx k H. unfold derive_child. fold (ckd_I idx k). fold (ckd_il idx k).
    destruct (HardenedKeyStart <=? idx); [reflexivity|]. destruct (xk_depth k =? maxDepth); [reflexivity|].
    destruct (new_ec_point c (xk_x k) (xk_y k)); [|reflexivity].
    replace ((q <=? ckd_il idx k) || (ckd_il idx k =? 0)) with true; [reflexivity|].
    symmetry. apply orb_true_iff. destruct H as [H|H]; [left; now apply Z.leb_le|right; now apply Z.eqb_eq].
  Qed.

  (* the "invalid child" test of the Go code refuses any offset point with a zero coordinate *)
  Theorem derive_child_zero_coord_refused : forall idx k dx dy,
    ec_base_mul c (ckd_il idx k) = Ok (Some (dx, dy)) -> dx = 0 \/ dy = 0 -> dchild idx k = Err.
  Proof.
    intros idx k dx dy E H. unfold derive_child. fold (ckd_I idx k). fold (ckd_il idx k).
    destruct (HardenedKeyStart <=? idx); [reflexivity|]. destruct (xk_depth k =? maxDepth); [reflexivity|].
    destruct (new_ec_point c (xk_x k) (xk_y k)); [|reflexivity].
    destruct ((q <=? ckd_il idx k) || (ckd_il idx k =? 0)); [reflexivity|].
    rewrite E. cbn [obind].
    replace ((dx =? 0) || (dy =? 0)) with true; [reflexivity|].
    symmetry. apply orb_true_iff. destruct H as [H|H]; [left|right]; now apply Z.eqb_eq.
  Qed.

  (* parent + IL*G = infinity (IL*G = -parent): refused *)
  Theorem derive_child_infinity_refused : forall idx k dG,
    ec_base_mul c (ckd_il idx k) = Ok (Some dG) -> pt_add c (xk_pt k) (Some dG) = None ->
    dchild idx k = Err.
  Proof.
    intros idx k [dx dy] E H. unfold derive_child. fold (ckd_I idx k). fold (ckd_il idx k).
    destruct (HardenedKeyStart <=? idx); [reflexivity|]. destruct (xk_depth k =? maxDepth); [reflexivity|].
    destruct (new_ec_point c (xk_x k) (xk_y k)) as [P|] eqn:EP; [|reflexivity].
    apply new_ec_point_Some in EP. destruct EP as [_ ->].
    destruct ((q <=? ckd_il idx k) || (ckd_il idx k =? 0)); [reflexivity|].
    rewrite E. cbn [obind]. destruct ((dx =? 0) || (dy =? 0)); [reflexivity|].
    unfold ec_add. unfold xk_pt in H. rewrite H. reflexivity.
  Qed.

  (* a step never diverges, and it panics exactly when the guards pass and ScalarBaseMult panics *)
  Theorem derive_child_outcomes : forall idx k,
    dchild idx k <> Diverge /\
    (dchild idx k = Panic <->
     (idx < 2 ^ 31 /\ xk_depth k <> 255 /\ on_curve c (xk_x k) (xk_y k) = true /\
      ckd_il idx k < q /\ ckd_il idx k <> 0 /\
      representable (cmul (Z.abs (ckd_il idx k)) B) = false)).
  Proof.
    intros idx k. unfold derive_child, HardenedKeyStart, maxDepth, new_ec_point.
    fold (ckd_I idx k). fold (ckd_il idx k). change (2 ^ 31) with 2147483648.
    destruct (2147483648 <=? idx) eqn:E1.
    { apply Z.leb_le in E1. split; [discriminate|]. split; [discriminate|]. intros (H & _). lia. }
    apply Z.leb_gt in E1.
    destruct (xk_depth k =? 255) eqn:E2.
    { apply Z.eqb_eq in E2. split; [discriminate|]. split; [discriminate|]. intros (_ & H & _). lia. }
    apply Z.eqb_neq in E2.
    destruct (on_curve c (xk_x k) (xk_y k)) eqn:E3.
    2:{ split; [discriminate|]. split; [discriminate|]. intros (_ & _ & H & _). discriminate. }
    destruct ((q <=? ckd_il idx k) || (ckd_il idx k =? 0)) eqn:E4.
    { split; [discriminate|]. split; [discriminate|]. intros (_ & _ & _ & H1 & H2 & _).
      apply orb_true_iff in E4. destruct E4 as [E4|E4]; [apply Z.leb_le in E4|apply Z.eqb_eq in E4]; lia. }
    apply orb_false_iff in E4. destruct E4 as [E4 E5]. apply Z.leb_gt in E4. apply Z.eqb_neq in E5.
    unfold ec_base_mul, ec_smul.
    destruct (representable (cmul (Z.abs (ckd_il idx k)) B)) eqn:ER; cbn [obind].
    - destruct (cmul (Z.abs (ckd_il idx k)) B) as [[dx dy]|] eqn:ED; [|discriminate].
      destruct ((dx =? 0) || (dy =? 0)).
      { split; [discriminate|]. split; [discriminate|]. intros (_ & _ & _ & _ & _ & H). discriminate. }
      unfold ec_add. destruct (pt_add c (Some (xk_x k, xk_y k)) (Some (dx, dy))) as [[cx cy]|]; cbn [representable];
        (split; [discriminate|]; split; [discriminate|]; intros (_ & _ & _ & _ & _ & H); discriminate).
    - split; [discriminate|]. split; [|reflexivity]. intros _.
      repeat (split; [assumption || reflexivity|]). reflexivity.
  Qed.

  (* ---------------- under the curve laws ---------------- *)
  Section Laws.
    Hypothesis CL : curve_laws c.
    Hypothesis HB : bytes_oracle.

    Lemma xk_pt_onc : forall k, on_curve c (xk_x k) (xk_y k) = true <-> onc c (xk_pt k).
    Proof. intros k. reflexivity. Qed.

    Lemma il_base_mul : forall il, 0 < il < q -> ec_base_mul c il = Ok (cmul il B) /\ representable (cmul il B) = true.
    Proof.
      intros il Hil.
      assert (E : ec_base_mul c il = Ok (cmul il B)).
      { apply (ec_base_mul_Ok_nz c CL); [lia|]. right. rewrite Z.mod_small; lia. }
      split; [exact E|]. apply (ec_base_mul_nonneg c il (cmul il B)) in E; [tauto|lia].
    Qed.

    Theorem derive_child_never_panics_under_laws : forall idx k,
      dchild idx k <> Panic /\ dchild idx k <> Diverge.
    Proof.
      intros idx k. destruct (derive_child_outcomes idx k) as [HD HP]. split; [|exact HD].
      intros E. apply HP in E. destruct E as (_ & _ & _ & E4 & E5 & ER).
      pose proof (ckd_il_nonneg HB idx k) as Hn.
      rewrite Z.abs_eq in ER by lia.
      destruct (il_base_mul (ckd_il idx k) ltac:(lia)) as [_ ER']. congruence.
    Qed.

    Corollary derive_child_Ok_or_Err : forall idx k,
      (exists il ck, dchild idx k = Ok (il, ck)) \/ dchild idx k = Err.
    Proof.
      intros idx k. destruct (derive_child_never_panics_under_laws idx k) as [H1 H2].
      destruct (dchild idx k) as [[il ck]| | |]; [left; eauto|right; reflexivity|congruence|congruence].
    Qed.

    (* child = parent + IL*G in the abstract group, both on the curve, IL in (0,q) *)
    Theorem derive_child_laws : forall idx k il ck,
      dchild idx k = Ok (il, ck) ->
      0 < il < q /\ onc c (xk_pt k) /\ onc c (xk_pt ck) /\
      xk_pt ck = padd (xk_pt k) (cmul il B).
    Proof.
      intros idx k il ck E. apply derive_child_iff in E.
      destruct E as (E1 & E2 & E3 & E4 & E5 & E6 & dx & dy & cx & cy & E7 & E8 & E9 & E10 & ->).
      pose proof (ckd_il_nonneg HB idx k) as Hn.
      assert (Hil : 0 < il < q) by lia.
      destruct (il_base_mul il Hil) as [Eb _]. rewrite Eb in E7. injection E7 as E7.
      assert (Hp : onc c (xk_pt k)) by exact E3.
      unfold ec_add in E10. rewrite <- E7 in E10.
      destruct (representable (padd (xk_pt k) (cmul il B))); [|discriminate].
      assert (E11 : padd (xk_pt k) (cmul il B) = Some (cx, cy)) by congruence.
      split; [exact Hil|]. split; [exact Hp|].
      replace (xk_pt (ckd_child idx k cx cy)) with (padd (xk_pt k) (cmul il B)) by (rewrite E11; reflexivity).
      split; [|reflexivity].
      apply (onc_add c CL); [exact Hp|]. apply (onc_gmul c CL), (onc_base c CL).
    Qed.

    (* exact success condition under the laws *)
    Theorem derive_child_Ok_under_laws : forall idx k,
      idx < 2 ^ 31 -> xk_depth k <> 255 -> on_curve c (xk_x k) (xk_y k) = true ->
      0 < ckd_il idx k < q ->
      forall dx dy cx cy,
      cmul (ckd_il idx k) B = Some (dx, dy) -> dx <> 0 -> dy <> 0 ->
      padd (xk_pt k) (Some (dx, dy)) = Some (cx, cy) ->
      dchild idx k = Ok (ckd_il idx k, ckd_child idx k cx cy).
    Proof.
      intros idx k H1 H2 H3 H4 dx dy cx cy H5 H6 H7 H8. apply derive_child_iff.
      repeat (split; [assumption || reflexivity || lia|]).
      exists dx, dy, cx, cy. destruct (il_base_mul _ H4) as [Eb _]. rewrite Eb, H5.
      repeat (split; [assumption || reflexivity|]).
      split; [|reflexivity]. unfold ec_add. rewrite H8. reflexivity.
    Qed.
  End Laws.

  (* ====================================================================== *)
  (* C. DeriveChildKeyFromHierarchy                                         *)
  (* ====================================================================== *)

  (* the per-step ILs and the final key, without the accumulator *)
  Fixpoint steps (path : list Z) (k : xkey) : Outcome (list Z * xkey) :=
    match path with
    | [] => Ok ([], k)
    | i :: rest =>
        r <- dchild i k ;;
        r' <- steps rest (snd r) ;;
        Ok (fst r :: fst r', snd r')
    end.

  (* "every step succeeds": path, start key, ILs, final key *)
  Inductive step_rel : list Z -> xkey -> list Z -> xkey -> Prop :=
  | sr_nil : forall k, step_rel [] k [] k
  | sr_cons : forall i rest k il k' ils ck,
      dchild i k = Ok (il, k') -> step_rel rest k' ils ck ->
      step_rel (i :: rest) k (il :: ils) ck.

  Lemma steps_rel : forall path k ils ck, steps path k = Ok (ils, ck) <-> step_rel path k ils ck.
  Proof.
    induction path as [|i rest IH]; intros k ils ck; cbn [steps].
    - split.
      + intros E. injection E as <- <-. constructor.
      + intros H. inversion H; subst. reflexivity.
    - split.
      + intros E. destruct (dchild i k) as [[il k']| | |] eqn:Ec; cbn [obind fst snd] in E; try discriminate.
        destruct (steps rest k') as [[ils' ck']| | |] eqn:Es; cbn [obind fst snd] in E; try discriminate.
        injection E as <- <-. econstructor; [exact Ec|]. apply IH. exact Es.
      + intros H. inversion H as [|i' rest' k0 il k' ils' ck' Ec Hr]; subst.
        rewrite Ec. cbn [obind fst snd]. apply IH in Hr. rewrite Hr. reflexivity.
  Qed.

  Lemma step_rel_length : forall path k ils ck, step_rel path k ils ck -> length ils = length path.
  Proof. intros path k ils ck H. induction H as [|i rest k il k' ils ck Ec Hr IH]; cbn [length]; congruence. Qed.

  Lemma step_rel_fun : forall path k ils ck ils' ck',
    step_rel path k ils ck -> step_rel path k ils' ck' -> ils = ils' /\ ck = ck'.
  Proof.
    intros path k ils ck ils' ck' H H'. apply steps_rel in H. apply steps_rel in H'.
    rewrite H in H'. injection H' as <- <-. auto.
  Qed.

  Lemma step_rel_app : forall p1 p2 k ils1 k1 ils2 k2,
    step_rel p1 k ils1 k1 -> step_rel p2 k1 ils2 k2 -> step_rel (p1 ++ p2) k (ils1 ++ ils2) k2.
  Proof.
    intros p1 p2 k ils1 k1 ils2 k2 H1 H2.
    induction H1 as [|i rest k il k' ils ck Ec Hr IH]; cbn [app]; [exact H2|].
    econstructor; [exact Ec|]. apply IH. exact H2.
  Qed.

  Lemma step_rel_app_inv : forall p1 p2 k ils k2,
    step_rel (p1 ++ p2) k ils k2 ->
    exists ils1 k1 ils2, ils = ils1 ++ ils2 /\ step_rel p1 k ils1 k1 /\ step_rel p2 k1 ils2 k2.
  Proof.
    induction p1 as [|i p1 IH]; intros p2 k ils k2 H; cbn [app] in H.
    - exists [], k, ils. split; [reflexivity|]. split; [constructor|exact H].
    - inversion H as [|i' rest' k0 il k' ils' ck' Ec Hr]; subst.
      destruct (IH p2 k' ils' k2 Hr) as (ils1 & k1 & ils2 & -> & Ha & Hb).
      exists (il :: ils1), k1, ils2. split; [reflexivity|]. split; [econstructor; eassumption|exact Hb].
  Qed.

  (* every successful step uses a non-hardened index below depth 255 with IL in range *)
  Lemma step_rel_indices : forall path k ils ck, step_rel path k ils ck ->
    Forall (fun i => i < 2 ^ 31) path /\ Forall (fun il => il < q /\ il <> 0) ils.
  Proof.
    intros path k ils ck H. induction H as [|i rest k il k' ils ck Ec Hr [IH1 IH2]]; [split; constructor|].
    apply derive_child_iff in Ec. destruct Ec as (E1 & _ & _ & _ & E5 & E6 & _).
    split; constructor; auto.
  Qed.

  (* the accumulator of the Go loop: ilNum = mod_.Add(ilNum, ilNumOld) *)
  Definition acc_fold (m : Z) (ils : list Z) (acc : Z) : Z :=
    fold_left (fun a il => (il + a) mod m) ils acc.

  Lemma acc_fold_sum : forall m ils acc, ils <> [] -> acc_fold m ils acc = (zsum ils + acc) mod m.
  Proof.
    intros m ils. induction ils as [|il ils IH]; intros acc Hne; [congruence|].
    unfold acc_fold in *. cbn [fold_left]. destruct ils as [|il2 ils].
    - cbn [fold_left]. rewrite zsum_cons. cbn [zsum fold_right]. f_equal. ring.
    - rewrite IH by discriminate. rewrite (zsum_cons il).
      change (eqm m (zsum (il2 :: ils) + (il + acc) mod m) (il + zsum (il2 :: ils) + acc)).
      rewrite eqm_mod. apply eqm_of_eq. ring.
  Qed.

  (* derive_path is [steps] followed by the accumulation; failures are those of [steps] *)
  Theorem derive_path_steps : forall path k m acc,
    dpath path k m acc =
    match steps path k with
    | Ok (ils, ck) => Ok (acc_fold m ils acc, ck)
    | Err => Err | Panic => Panic | Diverge => Diverge
    end.
  Proof.
    induction path as [|i rest IH]; intros k m acc; cbn [derive_path steps]; [reflexivity|].
    destruct (dchild i k) as [[il k']| | |]; cbn [obind fst snd]; try reflexivity.
    rewrite IH. destruct (steps rest k') as [[ils ck]| | |]; cbn [obind fst snd]; reflexivity.
  Qed.

  Theorem derive_path_acc : forall path k m d ck,
    dhier path k m = Ok (d, ck) <->
    exists ils, step_rel path k ils ck /\ length ils = length path /\
                d = match path with [] => 0 | _ :: _ => zsum ils mod m end.
  Proof.
    intros path k m d ck. unfold derive_hierarchy. rewrite derive_path_steps. split.
    - intros E. destruct (steps path k) as [[ils ck']| | |] eqn:Es; try discriminate.
      injection E as <- <-. apply steps_rel in Es. exists ils.
      split; [exact Es|]. split; [eapply step_rel_length; exact Es|].
      destruct path as [|i rest].
      + inversion Es; subst. reflexivity.
      + rewrite acc_fold_sum.
        * rewrite Z.add_0_r. reflexivity.
        * intros ->. apply step_rel_length in Es. discriminate.
    - intros (ils & Hs & Hl & ->). pose proof Hs as Hs'. apply steps_rel in Hs. rewrite Hs.
      destruct path as [|i rest].
      + inversion Hs'; subst. reflexivity.
      + rewrite acc_fold_sum.
        * rewrite Z.add_0_r. reflexivity.
        * intros ->. discriminate.
  Qed.

  Corollary derive_hierarchy_nil : forall k m, dhier [] k m = Ok (0, k).
  Proof. reflexivity. Qed.

  Corollary derive_hierarchy_single : forall i k m il ck,
    dchild i k = Ok (il, ck) -> dhier [i] k m = Ok (il mod m, ck).
  Proof.
    intros i k m il ck E. apply derive_path_acc. exists [il].
    split; [econstructor; [exact E|constructor]|]. split; [reflexivity|].
    cbn [zsum fold_right]. f_equal. ring.
  Qed.

  Corollary derive_hierarchy_range : forall path k m d ck, 0 < m -> path <> [] ->
    dhier path k m = Ok (d, ck) -> 0 <= d < m.
  Proof.
    intros path k m d ck Hm Hne E. apply derive_path_acc in E. destruct E as (ils & _ & _ & ->).
    destruct path; [congruence|]. apply Z.mod_pos_bound. exact Hm.
  Qed.

  (* exact decomposition at any position of the path *)
  Theorem derive_path_app : forall pre post k m acc ils k',
    step_rel pre k ils k' ->
    dpath (pre ++ post) k m acc = dpath post k' m (acc_fold m ils acc).
  Proof.
    intros pre post k m acc ils k' H. revert acc.
    induction H as [|i rest k il k1 ils ck Ec Hr IH]; intros acc; cbn [app]; [reflexivity|].
    cbn [derive_path]. rewrite Ec. cbn [obind fst snd]. rewrite IH. reflexivity.
  Qed.

  (* a refused step anywhere refuses the whole derivation: no partial result *)
  Theorem derive_path_Err_prefix : forall pre i post k m acc ils k',
    step_rel pre k ils k' -> dchild i k' = Err -> dpath (pre ++ i :: post) k m acc = Err.
  Proof.
    intros pre i post k m acc ils k' H E. rewrite (derive_path_app pre (i :: post) k m acc ils k' H).
    cbn [derive_path]. rewrite E. reflexivity.
  Qed.

  Corollary derive_hierarchy_Err_prefix : forall pre i post k m ils k',
    step_rel pre k ils k' -> dchild i k' = Err -> dhier (pre ++ i :: post) k m = Err.
  Proof. intros. unfold derive_hierarchy. eapply derive_path_Err_prefix; eassumption. Qed.

  (* likewise a panicking step *)
  Theorem derive_path_Panic_prefix : forall pre i post k m acc ils k',
    step_rel pre k ils k' -> dchild i k' = Panic -> dpath (pre ++ i :: post) k m acc = Panic.
  Proof.
    intros pre i post k m acc ils k' H E. rewrite (derive_path_app pre (i :: post) k m acc ils k' H).
    cbn [derive_path]. rewrite E. reflexivity.
  Qed.

  (* a hardened index anywhere in the path: never a result *)
  Theorem derive_hierarchy_hardened_not_Ok : forall path k m i d ck,
    In i path -> 2 ^ 31 <= i -> dhier path k m <> Ok (d, ck).
  Proof.
    intros path k m i d ck Hin Hi E. apply derive_path_acc in E. destruct E as (ils & Hs & _).
    apply step_rel_indices in Hs. destruct Hs as [Hs _]. rewrite Forall_forall in Hs.
    specialize (Hs i Hin). cbv beta in Hs. lia.
  Qed.

  Lemma derive_path_never_diverges : forall path k m acc, dpath path k m acc <> Diverge.
  Proof.
    induction path as [|i rest IH]; intros k m acc; cbn [derive_path]; [discriminate|].
    destruct (derive_child_outcomes i k) as [HD _].
    destruct (dchild i k) as [[il k']| | |]; cbn [obind fst snd]; try discriminate; [apply IH|congruence].
  Qed.

  (* depth, version and the uint8 depth counter along a path *)
  Theorem step_rel_depth : forall path k ils ck, step_rel path k ils ck ->
    xk_depth ck = xk_depth k + Z.of_nat (length path) /\ xk_ver ck = xk_ver k /\
    (0 <= xk_depth k <= 255 -> 0 <= xk_depth ck <= 255) /\
    (path <> [] -> xk_index ck = last path 0).
  Proof.
    intros path k ils ck H. induction H as [|i rest k il k' ils ck Ec Hr (IH1 & IH2 & IH3 & IH4)].
    - cbn [length]. repeat split; (lia || congruence).
    - apply derive_child_iff in Ec.
      destruct Ec as (_ & E2 & _ & _ & _ & _ & dx & dy & cx & cy & _ & _ & _ & _ & ->).
      cbn [ckd_child xk_depth xk_ver xk_index] in *.
      split; [rewrite IH1; cbn [length]; lia|]. split; [exact IH2|]. split; [intros Hd; apply IH3; lia|].
      intros _. destruct rest as [|j rest].
      + inversion Hr; subst. reflexivity.
      + rewrite IH4 by discriminate. reflexivity.
  Qed.

  (* a path longer than the remaining depth budget is refused (never Ok) *)
  Corollary derive_hierarchy_depth_budget : forall path k m d ck,
    0 <= xk_depth k <= 255 -> dhier path k m = Ok (d, ck) ->
    xk_depth k + Z.of_nat (length path) <= 255.
  Proof.
    intros path k m d ck Hd E. apply derive_path_acc in E. destruct E as (ils & Hs & _).
    destruct (step_rel_depth path k ils ck Hs) as (E1 & _ & E3 & _). specialize (E3 Hd). lia.
  Qed.

  (* ====================================================================== *)
  (* D. the accumulated offset                                              *)
  (* ====================================================================== *)
  Section PathLaws.
    Hypothesis CL : curve_laws c.
    Hypothesis HB : bytes_oracle.

    Theorem derive_path_never_panics_under_laws : forall path k m acc,
      dpath path k m acc <> Panic /\ dpath path k m acc <> Diverge.
    Proof.
      intros path k m acc. split; [|apply derive_path_never_diverges]. revert k acc.
      induction path as [|i rest IH]; intros k acc; cbn [derive_path]; [discriminate|].
      destruct (derive_child_never_panics_under_laws CL HB i k) as [HP _].
      destruct (dchild i k) as [[il k']| | |]; cbn [obind fst snd]; try discriminate; [apply IH|congruence].
    Qed.

    Theorem derive_hierarchy_hardened_refused : forall path k m i,
      In i path -> 2 ^ 31 <= i -> dhier path k m = Err.
    Proof.
      intros path k m i Hin Hi.
      destruct (derive_path_never_panics_under_laws path k m 0) as [HP HD].
      fold (dhier path k m) in HP, HD.
      destruct (dhier path k m) as [[d ck]| | |] eqn:E; try congruence.
      exfalso. exact (derive_hierarchy_hardened_not_Ok path k m i d ck Hin Hi E).
    Qed.

    Lemma step_rel_laws : forall path k ils ck, step_rel path k ils ck ->
      Forall (fun il => 0 < il < q) ils.
    Proof.
      intros path k ils ck H. induction H as [|i rest k il k' ils ck Ec Hr IH]; constructor; [|exact IH].
      apply (derive_child_laws CL HB) in Ec. tauto.
    Qed.

    Lemma derive_path_offset : forall path k acc d ck,
      onc c (xk_pt k) -> dpath path k q acc = Ok (d, ck) ->
      onc c (xk_pt ck) /\ xk_pt ck = padd (xk_pt k) (cmul (d - acc) B).
    Proof.
      induction path as [|i rest IH]; intros k acc d ck Hk E; cbn [derive_path] in E.
      - injection E as <- <-. split; [exact Hk|]. rewrite Z.sub_diag.
        rewrite (c_gmul_0_l c). symmetry. apply (c_zero_r c CL). exact Hk.
      - destruct (dchild i k) as [[il k']| | |] eqn:Ec; cbn [obind fst snd] in E; try discriminate.
        destruct (derive_child_laws CL HB i k il k' Ec) as (Hil & _ & Hk' & Eq).
        destruct (IH k' ((il + acc) mod q) d ck Hk' E) as [Hck Eck].
        split; [exact Hck|]. rewrite Eck, Eq.
        pose proof (onc_base c CL) as HBs.
        rewrite <- (c_add_assoc c CL) by (assumption || apply (onc_gmul c CL); exact HBs).
        rewrite <- (c_gmul_add c CL) by exact HBs. f_equal.
        apply (c_gmul_eqm c CL).
        change (eqm q (il + (d - (il + acc) mod q)) (d - acc)).
        rewrite eqm_mod. apply eqm_of_eq. ring.
    Qed.

    (* child = parent + d*G for the ACCUMULATED offset d, for a path of any length *)
    Theorem derive_hierarchy_offset : forall path k d ck,
      onc c (xk_pt k) -> dhier path k q = Ok (d, ck) ->
      Some (xk_x ck, xk_y ck) = padd (xk_pt k) (cmul d B) /\
      onc c (xk_pt ck) /\ 0 <= d < q.
    Proof.
      intros path k d ck Hk E. pose proof (q_pos c CL) as Hq.
      destruct (derive_path_offset path k 0 d ck Hk E) as [Hck Eck].
      rewrite Z.sub_0_r in Eck. split; [exact Eck|]. split; [exact Hck|].
      destruct path as [|i rest].
      - cbn in E. injection E as <- _. lia.
      - apply (derive_hierarchy_range (i :: rest) k q d ck Hq); [discriminate|exact E].
    Qed.

    (* in terms of the parent's discrete log *)
    Corollary derive_hierarchy_exponent : forall path k d ck x,
      xk_pt k = cmul x B -> dhier path k q = Ok (d, ck) ->
      xk_pt ck = cmul ((x + d) mod q) B.
    Proof.
      intros path k d ck x Hx E.
      assert (Hk : onc c (xk_pt k)) by (rewrite Hx; apply (onc_gmul c CL), (onc_base c CL)).
      destruct (derive_hierarchy_offset path k d ck Hk E) as [Eck _].
      unfold xk_pt at 1. rewrite Eck, Hx, <- (c_gmul_add c CL) by apply (onc_base c CL).
      symmetry. apply (c_gmul_mod_q c CL).
    Qed.

    (* one step always moves the key; several steps move it unless the ILs cancel mod q *)
    Corollary derive_child_moves_key : forall i k il ck,
      dchild i k = Ok (il, ck) -> xk_pt ck <> xk_pt k.
    Proof.
      intros i k il ck E. destruct (derive_child_laws CL HB i k il ck E) as (Hil & Hk & _ & Eq).
      intros Ek. rewrite Eq in Ek.
      rewrite <- (c_zero_r c CL (xk_pt k) Hk) in Ek at 2.
      apply (c_cancel_l c CL) in Ek; [|exact Hk|apply (onc_gmul c CL), (onc_base c CL)|apply (onc_zero c CL)].
      apply (c_gmul_B_zero_iff c CL) in Ek. rewrite Z.mod_small in Ek; lia.
    Qed.

    Corollary derive_hierarchy_moves_key_iff : forall path k d ck,
      onc c (xk_pt k) -> dhier path k q = Ok (d, ck) -> (xk_pt ck = xk_pt k <-> d = 0).
    Proof.
      intros path k d ck Hk E. destruct (derive_hierarchy_offset path k d ck Hk E) as (Eq & _ & Hd).
      fold (xk_pt ck) in Eq. rewrite Eq. split.
      - intros Ek. rewrite <- (c_zero_r c CL (xk_pt k) Hk) in Ek at 2.
        apply (c_cancel_l c CL) in Ek; [|exact Hk|apply (onc_gmul c CL), (onc_base c CL)|apply (onc_zero c CL)].
        apply (c_gmul_B_zero_iff c CL) in Ek. rewrite Z.mod_small in Ek; lia.
      - intros ->. rewrite (c_gmul_0_l c). apply (c_zero_r c CL). exact Hk.
    Qed.
  End PathLaws.
End CKDProofs.

(* ====================================================================== *)
(* E. signing with a derivation offset                                      *)
(* ====================================================================== *)

(* round_1.go prepare(): xi = mod.Add(keyDerivationDelta, xi) *)
Definition kdd_shares (q delta : Z) (xs : list Z) : list Z := map (fun x => (delta + x) mod q) xs.

Lemma kdd_shares_length : forall q delta xs, length (kdd_shares q delta xs) = length xs.
Proof. intros. unfold kdd_shares. apply map_length. Qed.

Lemma kdd_shares_nth : forall q delta xs i, (i < length xs)%nat ->
  nth i (kdd_shares q delta xs) 0 = (delta + nth i xs 0) mod q.
Proof.
  intros q delta xs i Hi. unfold kdd_shares.
  rewrite (nth_indep _ 0 ((fun x => (delta + x) mod q) 0)) by (rewrite map_length; exact Hi).
  apply (map_nth (fun x => (delta + x) mod q)).
Qed.

Lemma horner_shift_const : forall coefs delta k,
  horner ((hd 0 coefs + delta) :: tl coefs) k = horner coefs k + delta.
Proof. intros [|a t] delta k; cbn [hd tl horner]; ring. Qed.

(* the shifted shares lie on the polynomial whose constant term is shifted: no hypothesis on q *)
Theorem kdd_shares_on_poly : forall q coefs ks xs delta,
  on_poly q coefs ks xs ->
  on_poly q ((hd 0 coefs + delta) :: tl coefs) ks (kdd_shares q delta xs).
Proof.
  intros q coefs ks xs delta [HL HS]. split.
  - rewrite kdd_shares_length. exact HL.
  - intros i Hi. rewrite kdd_shares_nth by (rewrite HL; exact Hi).
    rewrite horner_shift_const, eqm_mod, (HS i Hi). apply eqm_of_eq. ring.
Qed.

Lemma kdd_shares_range : forall q delta xs, 0 < q -> Forall (fun x => 0 <= x < q) (kdd_shares q delta xs).
Proof.
  intros q delta xs Hq. unfold kdd_shares. apply Forall_forall. intros y Hy.
  apply in_map_iff in Hy. destruct Hy as [x [<- _]]. apply Z.mod_pos_bound. exact Hq.
Qed.

(* the secret reconstructed from the shifted shares is x + delta *)
Theorem kdd_weights_sum : forall q ks coefs xs delta,
  prime q -> distinct_mod q ks -> (length coefs <= length ks)%nat -> ks <> [] ->
  on_poly q coefs ks xs ->
  eqm q (zsum (sign_weights q ks (kdd_shares q delta xs))) (horner coefs 0 + delta).
Proof.
  intros q ks coefs xs delta Hq ND Hlen Hne HP.
  destruct (kdd_shares_on_poly q coefs ks xs delta HP) as [HL HS].
  rewrite <- (horner_shift_const coefs delta 0).
  apply weights_sum_secret; try assumption.
  cbn [length]. destruct coefs as [|a t]; cbn [tl length] in *; [|lia].
  destruct ks; [congruence|cbn [length]; lia].
Qed.

Section SignOffset.
  Variable c : curve.
  Hypothesis CL : curve_laws c.
  Local Notation q := (cq c).
  Local Notation p := (cp c).
  Local Notation B := (base c).
  Local Notation cmul := (@gmul (curve_group c)).
  Local Notation padd := (pt_add c).

  (* key_derivation_util.go: X_j + delta*G is the public share of (delta + x_j) mod q,
     and parent + delta*G is the key of (x + delta) mod q *)
  Theorem kdd_bigx : forall xj delta,
    padd (cmul xj B) (cmul delta B) = cmul ((delta + xj) mod q) B.
  Proof.
    intros xj delta. rewrite (c_gmul_mod_q c CL), <- (c_gmul_add c CL) by apply (onc_base c CL).
    f_equal. ring.
  Qed.

  Theorem child_key_exponent : forall x delta,
    padd (cmul x B) (cmul delta B) = cmul ((x + delta) mod q) B.
  Proof.
    intros x delta. rewrite (c_gmul_mod_q c CL), <- (c_gmul_add c CL) by apply (onc_base c CL).
    reflexivity.
  Qed.

  Theorem child_ne_parent : forall x delta,
    delta mod q <> 0 -> cmul ((x + delta) mod q) B <> cmul (x mod q) B.
  Proof.
    intros x delta Hd E. rewrite !(c_gmul_mod_q c CL) in E. apply (c_gmul_inj c CL) in E.
    apply Hd. apply mod_sub_0 in E. replace (x + delta - x) with delta in E by ring. exact E.
  Qed.

  Theorem child_eq_parent_iff : forall x delta,
    cmul ((x + delta) mod q) B = cmul (x mod q) B <-> delta mod q = 0.
  Proof.
    intros x delta. rewrite !(c_gmul_mod_q c CL), (c_gmul_inj_iff c CL), <- mod_sub_0.
    replace (x + delta - x) with delta by ring. reflexivity.
  Qed.

  (* signing with the shifted shares under the child key: released and valid under the child key *)
  Theorem sign_with_offset_correct : forall ks coefs xs kis delta m fullLen rx ry mb,
    ck c = Weier -> q < 2 ^ 256 ->
    distinct_mod q ks -> (length coefs <= length ks)%nat -> ks <> [] ->
    on_poly q coefs ks xs ->
    let x := horner coefs 0 in
    let xc := (x + delta) mod q in
    let k := zsum kis mod q in
    let s := (k * ((m + rx * xc) mod q)) mod q in
    k <> 0 ->
    cmul (inv_prime q k) B = Some (rx, ry) ->
    0 < rx < q -> s <> 0 ->
    0 <= m < q -> fullLen <= 32 -> echo_m m fullLen = Ok mb ->
    exists sd,
      ecdsa_sign c ks (kdd_shares q delta xs) kis m fullLen (cmul xc B) = Ok sd /\
      ecdsa_finalize c rx ry s m fullLen (cmul xc B) = Ok sd /\
      sM sd = mb /\ hash_to_int mb = m /\
      be_value (sR sd) = rx /\ be_value (sS sd) = low_s c s /\
      ecdsa_verify c (cmul xc B) m rx (low_s c s) = true.
  Proof.
    intros ks coefs xs kis delta m fullLen rx ry mb W Hq256 ND Hlen Hne HP x xc k s Hk HR Hrx Hs Hm Hf Em.
    pose proof (kdd_shares_on_poly q coefs ks xs delta HP) as HP'.
    set (coefs' := (hd 0 coefs + delta) :: tl coefs) in *.
    assert (Hlen' : (length coefs' <= length ks)%nat).
    { unfold coefs'. cbn [length]. destruct coefs as [|a t]; cbn [tl length] in *; [|lia].
      destruct ks; [congruence|cbn [length]; lia]. }
    assert (Hx' : horner coefs' 0 = x + delta) by (unfold coefs'; apply horner_shift_const).
    assert (Ekey : cmul (horner coefs' 0) B = cmul xc B).
    { rewrite Hx'. unfold xc. symmetry. apply (c_gmul_mod_q c CL). }
    assert (Es : (k * ((m + rx * horner coefs' 0) mod q)) mod q = s).
    { unfold s. apply (f_equal (fun z => (k * z) mod q)).
      change (eqm q (m + rx * horner coefs' 0) (m + rx * xc)).
      rewrite Hx'. unfold xc. rewrite eqm_mod. reflexivity. }
    pose proof (ecdsa_sign_correct c CL ks coefs' (kdd_shares q delta xs) kis m fullLen rx ry mb
                  W Hq256 ND Hlen' HP') as H.
    cbv zeta in H. fold k in H. rewrite Es, Ekey in H.
    exact (H Hk HR Hrx Hs Hm Hf Em).
  Qed.

  (* ... and it recovers to the child key, hence not to the parent key *)
  Theorem sign_with_offset_recovers_child : forall ks coefs xs kis delta m fullLen rx ry mb,
    ck c = Weier -> q < 2 ^ 256 -> prime p -> p mod 4 = 3 ->
    distinct_mod q ks -> (length coefs <= length ks)%nat -> ks <> [] ->
    on_poly q coefs ks xs ->
    let x := horner coefs 0 in
    let xc := (x + delta) mod q in
    let k := zsum kis mod q in
    let s := (k * ((m + rx * xc) mod q)) mod q in
    k <> 0 ->
    cmul (inv_prime q k) B = Some (rx, ry) -> ry <> 0 ->
    0 < rx < q -> s <> 0 ->
    0 <= m < q -> fullLen <= 32 -> echo_m m fullLen = Ok mb ->
    exists sd,
      ecdsa_sign c ks (kdd_shares q delta xs) kis m fullLen (cmul xc B) = Ok sd /\
      hash_to_int (sM sd) = m /\ be_value (sR sd) = rx /\ be_value (sS sd) = low_s c s /\
      ecdsa_verify c (cmul xc B) m rx (low_s c s) = true /\
      recover c rx (low_s c s) (sRec sd) m = cmul xc B /\
      recover c rx (low_s c s) (sRec sd) m = padd (cmul x B) (cmul delta B) /\
      (delta mod q <> 0 -> recover c rx (low_s c s) (sRec sd) m <> cmul x B).
  Proof.
    intros ks coefs xs kis delta m fullLen rx ry mb W Hq256 Hp H4 ND Hlen Hne HP x xc k s
           Hk HR Hry Hrx Hs Hm Hf Em.
    destruct (sign_with_offset_correct ks coefs xs kis delta m fullLen rx ry mb
                W Hq256 ND Hlen Hne HP Hk HR Hrx Hs Hm Hf Em) as (sd & E1 & E2 & E3 & E4 & E5 & E6 & E7).
    fold x xc k s in E1, E2, E6, E7.
    pose proof (q_gt_1_c c CL) as Hq1.
    assert (Hkr : 0 <= k < q) by (apply Z.mod_pos_bound; lia).
    assert (Es : s = (k * (m + rx * xc)) mod q) by (unfold s; apply Z.mul_mod_idemp_r; lia).
    assert (ER : recover c rx (low_s c s) (sRec sd) m = cmul xc B).
    { rewrite Es. apply (finalize_recovers_key c CL k xc m fullLen rx ry sd W Hp H4).
      - rewrite Z.mod_small by exact Hkr. exact Hk.
      - exact HR.
      - exact Hry.
      - cbv zeta. rewrite <- Es. exact E2. }
    exists sd. split; [exact E1|]. split; [rewrite E3; exact E4|]. split; [exact E5|].
    split; [exact E6|]. split; [exact E7|]. split; [exact ER|]. split.
    - rewrite ER. unfold xc. symmetry. apply child_key_exponent.
    - intros Hd. rewrite ER. rewrite <- (c_gmul_mod_q c CL x). unfold xc. apply child_ne_parent. exact Hd.
  Qed.
End SignOffset.

(* ====================================================================== *)
(* F. derivation and signing together                                       *)
(* ====================================================================== *)
Section DeriveAndSign.
  Variable HMAC : list Z -> list Z -> list Z.
  Variable H160 : list Z -> list Z.
  Variable c : curve.
  Hypothesis CL : curve_laws c.
  Hypothesis HB : bytes_oracle HMAC.
  Local Notation q := (cq c).
  Local Notation B := (base c).
  Local Notation cmul := (@gmul (curve_group c)).
  Local Notation padd := (pt_add c).

  (* the group key x*G is the extended parent key; the path derives (d, child); the parties add d to
     their shares and sign under the child key: the released signature verifies under the derived
     child key and (when p = 3 mod 4) recovers to it *)
  Theorem sign_derived_child_correct : forall path k0 d chk ks coefs xs kis m fullLen rx ry mb,
    ck c = Weier -> q < 2 ^ 256 ->
    distinct_mod q ks -> (length coefs <= length ks)%nat -> ks <> [] ->
    on_poly q coefs ks xs ->
    let x := horner coefs 0 in
    xk_pt k0 = cmul x B ->
    derive_hierarchy HMAC H160 c path k0 q = Ok (d, chk) ->
    let Y := xk_pt chk in
    let k := zsum kis mod q in
    let s := (k * ((m + rx * ((x + d) mod q)) mod q)) mod q in
    k <> 0 ->
    cmul (inv_prime q k) B = Some (rx, ry) ->
    0 < rx < q -> s <> 0 ->
    0 <= m < q -> fullLen <= 32 -> echo_m m fullLen = Ok mb ->
    Y = padd (cmul x B) (cmul d B) /\
    exists sd,
      ecdsa_sign c ks (kdd_shares q d xs) kis m fullLen Y = Ok sd /\
      sM sd = mb /\ hash_to_int mb = m /\
      be_value (sR sd) = rx /\ be_value (sS sd) = low_s c s /\
      ecdsa_verify c Y m rx (low_s c s) = true /\
      (d <> 0 -> ecdsa_verify c Y m rx (low_s c s) = true /\ Y <> cmul x B) /\
      (prime (cp c) -> cp c mod 4 = 3 -> ry <> 0 -> recover c rx (low_s c s) (sRec sd) m = Y).
  Proof.
    intros path k0 d chk ks coefs xs kis m fullLen rx ry mb W Hq256 ND Hlen Hne HP x Hx0 ED Y k s
           Hk HR Hrx Hs Hm Hf Em.
    pose proof (derive_hierarchy_exponent HMAC H160 c CL HB path k0 d chk x Hx0 ED) as EY.
    fold Y in EY.
    assert (Hon : onc c (xk_pt k0)) by (rewrite Hx0; apply (onc_gmul c CL), (onc_base c CL)).
    destruct (derive_hierarchy_offset HMAC H160 c CL HB path k0 d chk Hon ED) as (Eoff & _ & Hd).
    split; [unfold Y, xk_pt at 1; rewrite Eoff, Hx0; reflexivity|].
    destruct (sign_with_offset_correct c CL ks coefs xs kis d m fullLen rx ry mb
                W Hq256 ND Hlen Hne HP Hk HR Hrx Hs Hm Hf Em) as (sd & E1 & E2 & E3 & E4 & E5 & E6 & E7).
    fold x k s in E1, E2, E6, E7. rewrite <- EY in E1, E2, E7.
    exists sd. repeat (split; [assumption|]). split.
    - intros Hd0. split; [exact E7|]. rewrite EY, <- (c_gmul_mod_q c CL x).
      apply (child_ne_parent c CL). rewrite Z.mod_small by exact Hd. exact Hd0.
    - intros Hp H4 Hry.
      destruct (sign_with_offset_recovers_child c CL ks coefs xs kis d m fullLen rx ry mb
                  W Hq256 Hp H4 ND Hlen Hne HP Hk HR Hry Hrx Hs Hm Hf Em)
        as (sd' & F1 & _ & _ & _ & _ & F6 & _).
      fold x k s in F1, F6. rewrite <- EY in F1, F6. rewrite E1 in F1. injection F1 as <-. exact F6.
  Qed.
End DeriveAndSign.

(* ====================================================================== *)
(* G. examples: the hypotheses are satisfiable (toy curves, toy oracles)    *)
(* ====================================================================== *)

Local Notation W := toyW43.
Local Notation BW := (base toyW43).
Local Notation wmul := (@gmul (curve_group toyW43)).

(* 64 "bytes": IL = (sum key + 3 sum data) mod 31 as a 32-byte big-endian number, then a chain code *)
Definition toyHMAC (key data : list Z) : list Z :=
  repeat 0 31 ++ [(zsum key + 3 * zsum data) mod 31] ++ repeat ((zsum key + zsum data) mod 256) 32.
Definition toyH160 (l : list Z) : list Z := [zsum l mod 256; 1; 2; 3; 4].

Lemma Forall_repeat {A} (P : A -> Prop) a n : P a -> Forall P (repeat a n).
Proof. intros H. apply Forall_forall. intros x Hx. apply repeat_spec in Hx. now subst. Qed.

Lemma toyHMAC_bytes : bytes_oracle toyHMAC.
Proof.
  intros key data. unfold toyHMAC. apply Forall_app. split; [apply Forall_repeat; unfold is_byte; lia|].
  apply Forall_app. split.
  - constructor; [|constructor]. unfold is_byte.
    pose proof (Z.mod_pos_bound (zsum key + 3 * zsum data) 31). lia.
  - apply Forall_repeat. unfold is_byte. apply Z.mod_pos_bound. lia.
Qed.

Lemma toyHMAC_length : forall key data, length (toyHMAC key data) = 64%nat.
Proof. intros. unfold toyHMAC. rewrite !app_length, !repeat_length. reflexivity. Qed.

(* parent: the group key 5*G = (12,12), depth 0, xpub version bytes *)
Definition ex_k0 : xkey := mkX 12 12 0 0 (repeat 1 32) [0; 0; 0; 0] [4; 136; 178; 30].
Definition ex_k1 : xkey := mkX 40 18 1 1 (repeat 47 32) [14; 1; 2; 3] [4; 136; 178; 30].
Definition ex_k2 : xkey := mkX 13 21 2 2 (repeat 12 32) [42; 1; 2; 3] [4; 136; 178; 30].

Example ex_parent_is_5G : xk_pt ex_k0 = wmul 5 BW.
Proof. vm_compute. reflexivity. Qed.

Example ex_step1 : derive_child toyHMAC toyH160 W 1 ex_k0 = Ok (15, ex_k1).
Proof. vm_compute. reflexivity. Qed.

Example ex_step2 : derive_child toyHMAC toyH160 W 2 ex_k1 = Ok (24, ex_k2).
Proof. vm_compute. reflexivity. Qed.

(* the conclusions of derive_child_spec on a concrete successful step *)
Example ex_derive_child_spec :
  15 = ckd_il toyHMAC 1 ex_k0 /\ 0 < 15 < 31 /\
  ec_base_mul W 15 = Ok (Some (38, 21)) /\
  ec_add W (xk_pt ex_k0) (Some (38, 21)) = Ok (Some (40, 18)) /\
  xk_depth ex_k1 = 1 /\ xk_fp ex_k1 = firstn 4 (toyH160 (ser_compressed 12 12)).
Proof.
  destruct (derive_child_spec toyHMAC toyH160 W 1 ex_k0 15 ex_k1 ex_step1)
    as (_ & _ & _ & E4 & _ & _ & E7 & (dG & E8 & _ & _ & E9) & E10 & _ & _ & E11 & _).
  split; [exact E4|]. split; [exact (E7 toyHMAC_bytes)|].
  assert (dG = (38, 21)) as -> by (vm_compute in E8; congruence).
  auto.
Qed.

(* a 2-step path: ILs 15 and 24, accumulated offset (15 + 24) mod 31 = 8 *)
Example ex_derive_2step : derive_hierarchy toyHMAC toyH160 W [1; 2] ex_k0 31 = Ok (8, ex_k2).
Proof. vm_compute. reflexivity. Qed.

Example ex_step_rel : step_rel toyHMAC toyH160 W [1; 2] ex_k0 [15; 24] ex_k2.
Proof. econstructor; [exact ex_step1|]. econstructor; [exact ex_step2|]. constructor. Qed.

Example ex_derive_path_acc :
  exists ils, step_rel toyHMAC toyH160 W [1; 2] ex_k0 ils ex_k2 /\ length ils = 2%nat /\ 8 = zsum ils mod 31.
Proof. exact (proj1 (derive_path_acc toyHMAC toyH160 W [1; 2] ex_k0 31 8 ex_k2) ex_derive_2step). Qed.

(* derive_hierarchy_offset: child = parent + 8*G = 13*G *)
Example ex_offset :
  Some (13, 21) = pt_add W (xk_pt ex_k0) (wmul 8 BW) /\ xk_pt ex_k2 = wmul ((5 + 8) mod 31) BW.
Proof.
  assert (Hon : onc W (xk_pt ex_k0)) by (vm_compute; reflexivity).
  destruct (derive_hierarchy_offset toyHMAC toyH160 W toyW43_laws toyHMAC_bytes [1; 2] ex_k0 8 ex_k2 Hon
              ex_derive_2step) as [E _].
  split; [exact E|].
  exact (derive_hierarchy_exponent toyHMAC toyH160 W toyW43_laws toyHMAC_bytes [1; 2] ex_k0 8 ex_k2 5
           ex_parent_is_5G ex_derive_2step).
Qed.

(* refusals *)
Example ex_hardened : derive_child toyHMAC toyH160 W 2147483648 ex_k0 = Err.
Proof. apply derive_child_hardened_refused. vm_compute. discriminate. Qed.

Example ex_hardened_in_path : derive_hierarchy toyHMAC toyH160 W [1; 2147483648; 2] ex_k0 31 = Err.
Proof. vm_compute. reflexivity. Qed.

Example ex_hardened_in_path' : derive_hierarchy toyHMAC toyH160 W [1; 2147483648; 2] ex_k0 31 = Err.
Proof.
  apply (derive_hierarchy_Err_prefix toyHMAC toyH160 W [1] 2147483648 [2] ex_k0 31 [15] ex_k1).
  - econstructor; [exact ex_step1|constructor].
  - apply derive_child_hardened_refused. vm_compute. discriminate.
Qed.

Example ex_maxdepth :
  derive_child toyHMAC toyH160 W 1 (mkX 12 12 255 0 (repeat 1 32) [0; 0; 0; 0] [4; 136; 178; 30]) = Err.
Proof. apply derive_child_maxdepth_refused. reflexivity. Qed.

Example ex_offcurve :
  derive_child toyHMAC toyH160 W 1 (mkX 12 13 0 0 (repeat 1 32) [0; 0; 0; 0] [4; 136; 178; 30]) = Err.
Proof. apply derive_child_offcurve_refused. vm_compute. reflexivity. Qed.

(* index 27: IL = 0 ; index 15: IL = 26 = -5, parent + IL*G = infinity *)
Example ex_il_zero : ckd_il toyHMAC 27 ex_k0 = 0 /\ derive_child toyHMAC toyH160 W 27 ex_k0 = Err.
Proof. split; [vm_compute; reflexivity|]. apply derive_child_il_refused. right. vm_compute. reflexivity. Qed.

Example ex_infinity : ckd_il toyHMAC 15 ex_k0 = 26 /\ derive_child toyHMAC toyH160 W 15 ex_k0 = Err.
Proof.
  split; [vm_compute; reflexivity|].
  apply (derive_child_infinity_refused toyHMAC toyH160 W 15 ex_k0 (12, 31)); vm_compute; reflexivity.
Qed.

(* the ILs of a multi-step path can cancel: offset 0, child = parent, and ScalarBaseMult(0) -- what
   UpdatePublicKeyAndAdjustBigXj computes first -- panics *)
Example ex_offsets_cancel :
  exists ck, derive_hierarchy toyHMAC toyH160 W [2; 5] ex_k0 31 = Ok (0, ck) /\
             xk_pt ck = xk_pt ex_k0 /\ xk_depth ck = 2 /\ ec_base_mul W 0 = Panic.
Proof. eexists. vm_compute. repeat split; reflexivity. Qed.

(* without the curve laws (here: a wrong group order 62 = 2*31) a step can panic *)
Definition constHMAC (v : Z) (key data : list Z) : list Z := repeat 0 31 ++ [v] ++ repeat 0 32.
Definition toyBadOrder : curve := mkCurve Weier 43 0 7 62 2 12.

Example ex_panics_without_laws : derive_child (constHMAC 31) toyH160 toyBadOrder 0 ex_k0 = Panic.
Proof. vm_compute. reflexivity. Qed.

(* without [bytes_oracle] IL can be negative: the step succeeds with |IL|*G, so the offset theorem
   (child = parent + IL*G) genuinely needs the oracle to return bytes *)
Example ex_negative_il_without_bytes :
  exists ck, derive_child (constHMAC (-15)) toyH160 W 1 ex_k0 = Ok (-15, ck) /\
             xk_pt ck = pt_add W (xk_pt ex_k0) (wmul 15 BW) /\
             xk_pt ck <> pt_add W (xk_pt ex_k0) (wmul (-15) BW).
Proof. eexists. split; [vm_compute; reflexivity|]. vm_compute. split; [reflexivity|discriminate]. Qed.

(* y^2 = x^3 + x + 4 over F_23: 29 points (prime), generator (1,11); 7*G = (0,2) has a zero coordinate.
   The "invalid child" test refuses IL = 7 although parent + 7*G = 8*G = (11,14) is a valid key. *)
Definition toyZ : curve := mkCurve Weier 23 1 4 29 1 11.

Lemma toyZ_laws : curve_laws toyZ.
Proof. apply curve_laws_check_sound. vm_compute. reflexivity. Qed.

Example ex_zero_coord_refused :
  let k := mkX 1 11 0 0 (repeat 1 32) [0; 0; 0; 0] [4; 136; 178; 30] in
  ckd_il (constHMAC 7) 0 k = 7 /\
  @gmul (curve_group toyZ) 7 (base toyZ) = Some (0, 2) /\
  pt_add toyZ (xk_pt k) (Some (0, 2)) = Some (11, 14) /\ on_curve toyZ 11 14 = true /\
  derive_child (constHMAC 7) toyH160 toyZ 0 k = Err.
Proof. vm_compute. repeat split; reflexivity. Qed.

(* serialisation *)
Example ex_ser_compressed : ser_compressed 12 12 = 2 :: repeat 0 31 ++ [12].
Proof. vm_compute. reflexivity. Qed.

Example ex_ser_compressed_odd : ser_compressed 13 21 = 3 :: repeat 0 31 ++ [13].
Proof. vm_compute. reflexivity. Qed.

Example ex_ser32 : ser32 2147483649 = [128; 0; 0; 1].
Proof. vm_compute. reflexivity. Qed.

Example ex_payload : length (xkey_payload ex_k2) = 78%nat /\ nth 4 (xkey_payload ex_k2) 0 = 2 /\
  firstn 4 (skipn 9 (xkey_payload ex_k2)) = [0; 0; 0; 2].
Proof. vm_compute. repeat split; reflexivity. Qed.

(* an X coordinate of 257 bits is serialised on 34 bytes (the model's pad_left leaves longer strings
   unchanged, as paddedBytes does) *)
Example ex_ser_compressed_long : length (ser_compressed (2 ^ 256) 0) = 34%nat.
Proof. vm_compute. reflexivity. Qed.

(* signing with the derived offset on the toy curve: shares 12,19,26 of x = 5 on 5 + 7 X, offset 8 *)
Example ex_kdd_shares : kdd_shares 31 8 [12; 19; 26] = [20; 27; 3].
Proof. vm_compute. reflexivity. Qed.

Example ex_kdd_on_poly : on_poly 31 [13; 7] [1; 2; 3] (kdd_shares 31 8 [12; 19; 26]).
Proof. apply (kdd_shares_on_poly 31 [5; 7] [1; 2; 3] [12; 19; 26] 8). onpoly_tac. Qed.

Example ex_sign_with_offset :
  exists sd, ecdsa_sign W [1; 2; 3] (kdd_shares 31 8 [12; 19; 26]) [3; 4] 10 0 (xk_pt ex_k2) = Ok sd /\
             ecdsa_verify W (xk_pt ex_k2) 10 (be_value (sR sd)) (be_value (sS sd)) = true /\
             ecdsa_verify W (xk_pt ex_k0) 10 (be_value (sR sd)) (be_value (sS sd)) = false /\
             recover W (be_value (sR sd)) (be_value (sS sd)) (sRec sd) 10 = xk_pt ex_k2.
Proof. eexists. split; [vm_compute; reflexivity|]. vm_compute. repeat split; reflexivity. Qed.

(* the hypotheses of sign_derived_child_correct are jointly satisfiable *)
Example ex_sign_derived_child :
  exists sd, ecdsa_sign W [1; 2; 3] (kdd_shares 31 8 [12; 19; 26]) [3; 4] 10 0 (xk_pt ex_k2) = Ok sd /\
             be_value (sR sd) = 20 /\ be_value (sS sd) = 1 /\
             ecdsa_verify W (xk_pt ex_k2) 10 20 1 = true /\ xk_pt ex_k2 <> wmul 5 BW /\
             recover W 20 1 (sRec sd) 10 = xk_pt ex_k2.
Proof.
  pose proof (sign_derived_child_correct toyHMAC toyH160 W toyW43_laws toyHMAC_bytes
                [1; 2] ex_k0 8 ex_k2 [1; 2; 3] [5; 7] [12; 19; 26] [3; 4] 10 0 20 40 [10]) as H.
  cbv zeta in H.
  assert (H0 : ck W = Weier) by reflexivity.
  assert (H1 : cq W < 2 ^ 256) by (vm_compute; reflexivity).
  assert (Hl : (length [5; 7] <= length [1; 2; 3])%nat) by (cbn; lia).
  assert (Hne : [1; 2; 3] <> []) by discriminate.
  assert (H2 : zsum [3; 4] mod cq W <> 0) by (vm_compute; discriminate).
  assert (H3 : wmul (inv_prime (cq W) (zsum [3; 4] mod cq W)) BW = Some (20, 40)) by (vm_compute; reflexivity).
  assert (H4 : 0 < 20 < cq W) by (vm_compute; split; reflexivity).
  assert (H5 : (zsum [3; 4] mod cq W * ((10 + 20 * ((horner [5; 7] 0 + 8) mod cq W)) mod cq W)) mod cq W <> 0)
    by (vm_compute; discriminate).
  assert (H6 : 0 <= 10 < cq W) by (vm_compute; split; [discriminate|reflexivity]).
  assert (H7 : 0 <= 32) by lia.
  assert (H8 : echo_m 10 0 = Ok [10]) by (vm_compute; reflexivity).
  destruct (H H0 H1 ex_distinct Hl Hne ex_on_poly ex_parent_is_5G ex_derive_2step H2 H3 H4 H5 H6 H7 H8)
    as (_ & sd & E & _ & _ & ER & ES & EV & EN & ERec).
  assert (Els : low_s W ((zsum [3; 4] mod cq W * ((10 + 20 * ((horner [5; 7] 0 + 8) mod cq W)) mod cq W)) mod cq W) = 1)
    by (vm_compute; reflexivity).
  rewrite Els in *.
  exists sd. split; [exact E|]. split; [exact ER|]. split; [exact ES|]. split; [exact EV|].
  split; [apply EN; discriminate|].
  apply ERec; [exact prime_43|vm_compute; reflexivity|discriminate].
Qed.

(* ====================================================================== *)
Print Assumptions ser32_length.
Print Assumptions ser32_bytes.
Print Assumptions ser32_be_value.
Print Assumptions ser32_inj.
Print Assumptions ser32_wraps.
Print Assumptions ser_compressed_length.
Print Assumptions ser_compressed_length_ge.
Print Assumptions ser_compressed_bytes.
Print Assumptions ser_compressed_decode.
Print Assumptions ser_compressed_inj.
Print Assumptions ser_compressed_inj256.
Print Assumptions ser_compressed_leading_zero.
Print Assumptions ser_compressed_padding.
Print Assumptions xkey_payload_length.
Print Assumptions xkey_payload_bytes.
Print Assumptions xkey_string_input.
Print Assumptions derive_child_iff.
Print Assumptions ckd_il_nonneg.
Print Assumptions derive_child_spec.
Print Assumptions derive_child_hardened_refused.
Print Assumptions derive_child_maxdepth_refused.
Print Assumptions derive_child_offcurve_refused.
Print Assumptions derive_child_il_refused.
Print Assumptions derive_child_zero_coord_refused.
Print Assumptions derive_child_infinity_refused.
Print Assumptions derive_child_outcomes.
Print Assumptions derive_child_never_panics_under_laws.
Print Assumptions derive_child_Ok_or_Err.
Print Assumptions derive_child_laws.
Print Assumptions derive_child_Ok_under_laws.
Print Assumptions steps_rel.
Print Assumptions step_rel_length.
Print Assumptions step_rel_fun.
Print Assumptions step_rel_app.
Print Assumptions step_rel_app_inv.
Print Assumptions step_rel_indices.
Print Assumptions acc_fold_sum.
Print Assumptions derive_path_steps.
Print Assumptions derive_path_acc.
Print Assumptions derive_hierarchy_nil.
Print Assumptions derive_hierarchy_single.
Print Assumptions derive_hierarchy_range.
Print Assumptions derive_path_app.
Print Assumptions derive_path_Err_prefix.
Print Assumptions derive_hierarchy_Err_prefix.
Print Assumptions derive_path_Panic_prefix.
Print Assumptions derive_hierarchy_hardened_not_Ok.
Print Assumptions derive_path_never_diverges.
Print Assumptions step_rel_depth.
Print Assumptions derive_hierarchy_depth_budget.
Print Assumptions derive_path_never_panics_under_laws.
Print Assumptions derive_hierarchy_hardened_refused.
Print Assumptions step_rel_laws.
Print Assumptions derive_path_offset.
Print Assumptions derive_hierarchy_offset.
Print Assumptions derive_hierarchy_exponent.
Print Assumptions derive_child_moves_key.
Print Assumptions derive_hierarchy_moves_key_iff.
Print Assumptions kdd_shares_on_poly.
Print Assumptions kdd_shares_range.
Print Assumptions kdd_weights_sum.
Print Assumptions kdd_bigx.
Print Assumptions child_key_exponent.
Print Assumptions child_ne_parent.
Print Assumptions child_eq_parent_iff.
Print Assumptions sign_with_offset_correct.
Print Assumptions sign_with_offset_recovers_child.
Print Assumptions sign_derived_child_correct.
Print Assumptions toyHMAC_bytes.
Print Assumptions ex_step1.
Print Assumptions ex_step2.
Print Assumptions ex_derive_child_spec.
Print Assumptions ex_derive_2step.
Print Assumptions ex_step_rel.
Print Assumptions ex_derive_path_acc.
Print Assumptions ex_offset.
Print Assumptions ex_hardened.
Print Assumptions ex_hardened_in_path.
Print Assumptions ex_hardened_in_path'.
Print Assumptions ex_maxdepth.
Print Assumptions ex_offcurve.
Print Assumptions ex_il_zero.
Print Assumptions ex_infinity.
Print Assumptions ex_offsets_cancel.
Print Assumptions ex_panics_without_laws.
Print Assumptions ex_negative_il_without_bytes.
Print Assumptions toyZ_laws.
Print Assumptions ex_zero_coord_refused.
Print Assumptions ex_ser_compressed.
Print Assumptions ex_ser32.
Print Assumptions ex_payload.
Print Assumptions ex_ser_compressed_long.
Print Assumptions ex_kdd_on_poly.
Print Assumptions ex_sign_with_offset.
Print Assumptions ex_sign_derived_child.
Print Assumptions derive_child_data_length.
